import FatVerif.Proofs.DirWriteSim18
/-! Directory WRITES, part 19: the GROWTH SLOT — `writeSlot` at the end of the chain of a directory: its first chunk
    allocates, links and zero-fills a cluster, the remaining chunks are ordinary writes into the new cluster. Stated
    for any handle `f` of the directory whose stamp is `fW`, given the (closed) write family of the grown directory. -/
namespace FatVerif.DirSim
open FatVerif.FileSim FatVerif.Fat DirEntryData

theorem chunksOf_cons_ne (bs : List Nat) (ns : List Nat) (hpos : ∀ n ∈ ns, 0 < n) (hne : ns ≠ [])
    (hsum : ns.sum ≤ bs.length) :
    ∃ c1 rest, chunksOf bs ns = c1 :: rest ∧ c1 ≠ [] ∧ (∀ c ∈ rest, c ≠ []) ∧ c1.length ≤ ns.headD 0 := by
  cases ns with
  | nil => exact absurd rfl hne
  | cons n r =>
    have hall := chunksOf_ne_nil (n :: r) bs hpos hsum
    refine ⟨bs.take n, chunksOf (bs.drop n) r, rfl, hall _ (by simp [chunksOf]), fun c hc => hall c (by simp [chunksOf, hc]), ?_⟩
    simp only [List.length_take, List.headD_cons]
    omega

section grow
variable {fs0 : FsState} {c0 : Nat} {chain : List Nat}

/-- **the growth slot.** Hypotheses: the handle `f` (core `C`) of a directory (`f.isDir`) whose chain ends in `last`
    (not free), the allocator finds `c`, the grown directory still has a 32-bit size; `Inv'`/`WG'` = invariant and
    closed write family of the grown directory for the stamped handle `fW`; `hInv'` says that the device after the
    allocating write satisfies `Inv'`. -/
theorem grow_slot (f fW : FileH) (c last : Nat) (Inv' : Dev → Prop)
    (WG' : WFam Inv' (chainS fW (chain ++ [c]) fs0.clusterSize) (chainS fW (chain ++ [c]) fs0.clusterSize)
      ((chain.length + 1) * (fs0.clusterSize / 32)) (chainSrc fs0 (chain ++ [c])) (chainRoom fs0 (chain ++ [c])))
    (d : Dev) (C : ChainCore d f c0 chain) (hwf : d.img.WF) (hg : FsGeomEq fs0 d.fs)
    (hstamp : stamped f d.clock = fW) (hinfo : InfoOk d.fs d.img) (hisdir : f.isDir = true)
    (hlast : chain.getLast? = some last) (hlv : tabView d.fs d.img last ≠ .free)
    (hfind : allocFindV (tabView d.fs d.img) d.fs.fsInfo.next d.fs.totalClusters = some c)
    (hu32 : (chain.length + 1) * d.fs.clusterSize < 4294967296)
    (hInv' : ∀ d1, DevStep d d1 → d1.img.WF → ChainCore d1 f c0 (chain ++ [c]) → Inv' d1)
    (hcore' : ∀ d1, Inv' d1 → Geo d1.fs d1.img.size ∧ d1.img.WF ∧ FsGeomEq fs0 d1.fs)
    (e : DirEntryData) (hl : e.serialize.length = 32) (hb : ∀ b ∈ e.serialize, b < 256) :
    ∃ d', run (writeSlot (chainS f chain fs0.clusterSize (chain.length * fs0.clusterSize)) e) d =
        (.ok (chainS fW (chain ++ [c]) fs0.clusterSize (chain.length * fs0.clusterSize + 32)), d') ∧
      VolStep d d' ∧ d'.fs.curDirty = true ∧ Inv' d' ∧ InfoOk d'.fs d'.img ∧
      srcSlots d'.img (chainSrc fs0 (chain ++ [c])) ((chain.length + 1) * (fs0.clusterSize / 32)) =
        srcSlots d.img (chainSrc fs0 chain) (chain.length * (fs0.clusterSize / 32)) ++ [e.serialize] ++
          List.replicate (fs0.clusterSize / 32 - 1) DirSlots.zeroSlot ∧
      tabView d'.fs d'.img = allocLinkV (tabView d.fs d.img) (some last) c ∧
      (∀ q, 0x42 ≤ q → OutsideFat d.fs q →
        ¬ (clusterOff d.fs c ≤ q ∧ q < clusterOff d.fs c + d.fs.clusterSize) → d'.img.getByte q = d.img.getByte q) := by
  have hcs : d.fs.clusterSize = fs0.clusterSize := hg.clusterSize
  have hcspos : 0 < fs0.clusterSize := by rw [← hcs]; exact C.geo.cs_pos
  have h32 : fs0.clusterSize % 32 = 0 := by rw [← hcs]; exact C.cs32
  have hK : 32 * (fs0.clusterSize / 32) = fs0.clusterSize := by
    have := Nat.div_add_mod fs0.clusterSize 32; omega
  have hcs32 : 32 ≤ fs0.clusterSize := by
    rcases Nat.eq_zero_or_pos (fs0.clusterSize / 32) with h | h
    · rw [h] at hK; omega
    · omega
  -- the chunks of the record
  have key : ∀ (ns : List Nat), ns.sum = 32 → (∀ n ∈ ns, 0 < n) → ns ≠ [] → ns.headD 0 < 32 →
      ∃ d', run (writeChunks DirStream.strm (chainS f chain fs0.clusterSize (chain.length * fs0.clusterSize))
          (chunksOf e.serialize ns)) d =
          (.ok (chainS fW (chain ++ [c]) fs0.clusterSize (chain.length * fs0.clusterSize + 32)), d') ∧
        VolStep d d' ∧ d'.fs.curDirty = true ∧ Inv' d' ∧ InfoOk d'.fs d'.img ∧
        srcSlots d'.img (chainSrc fs0 (chain ++ [c])) ((chain.length + 1) * (fs0.clusterSize / 32)) =
          srcSlots d.img (chainSrc fs0 chain) (chain.length * (fs0.clusterSize / 32)) ++ [e.serialize] ++
            List.replicate (fs0.clusterSize / 32 - 1) DirSlots.zeroSlot ∧
        tabView d'.fs d'.img = allocLinkV (tabView d.fs d.img) (some last) c ∧
        (∀ q, 0x42 ≤ q → OutsideFat d.fs q →
          ¬ (clusterOff d.fs c ≤ q ∧ q < clusterOff d.fs c + d.fs.clusterSize) → d'.img.getByte q = d.img.getByte q) := by
    intro ns hsum hpos hnn hhead
    obtain ⟨c1, rest, hchunks, hc1, hrest, hc1len⟩ := chunksOf_cons_ne e.serialize ns hpos hnn (by rw [hsum, hl]; exact Nat.le_refl _)
    have hfl : c1 ++ rest.flatten = e.serialize := by
      have := chunksOf_flatten ns e.serialize (by rw [hsum, hl])
      rw [hchunks, List.flatten_cons] at this
      exact this
    have hlens : c1.length + rest.flatten.length = 32 := by
      rw [← List.length_append, hfl, hl]
    -- A. the allocating write of the first chunk
    have hc1le : c1.length ≤ 32 := Nat.le_of_lt (Nat.lt_of_le_of_lt hc1len hhead)
    have hrestlen : rest.flatten.length = 32 - c1.length := by omega
    obtain ⟨d1, h1, hs1, hd1, hwf1, hC1, hinfo1, htv1, hnew1, hfr1⟩ := C.file_write_grow hwf hinfo hisdir last hlast hlv c
      hfind hu32 c1 hc1 (by rw [hcs]; exact Nat.le_trans hc1le hcs32)
    rw [hcs, hstamp] at h1
    have hinv1 := hInv' d1 hs1 hwf1 hC1
    have hw1 : run (writeAll DirStream.strm (chainS f chain fs0.clusterSize (chain.length * fs0.clusterSize)) c1) d =
        (.ok (chainS fW (chain ++ [c]) fs0.clusterSize (chain.length * fs0.clusterSize + c1.length)), d1) := by
      have hlen : c1.length ≠ 0 := by
        cases c1 with
        | nil => exact absurd rfl hc1
        | cons _ _ => simp
      have hemp : c1.isEmpty = false := by cases c1 <;> simp_all
      have hw : run (DirStream.strm.write (chainS f chain fs0.clusterSize (chain.length * fs0.clusterSize)) c1) d =
          (.ok (c1.length, chainS fW (chain ++ [c]) fs0.clusterSize (chain.length * fs0.clusterSize + c1.length)), d1) := by
        show run (DirStream.write (.file _) c1) d = _
        simp only [DirStream.write]
        rw [run_bind_ok h1]
        rfl
      unfold writeAll
      obtain ⟨k, hk⟩ : ∃ k, c1.length = k + 1 := ⟨c1.length - 1, by omega⟩
      rw [hk]
      unfold writeAllLoop
      simp only [hemp, Bool.false_eq_true, if_false]
      rw [run_bind_ok hw]
      simp only [hlen, if_false, List.drop_length]
      unfold writeAllLoop
      rw [← hk]
      cases k <;> rfl
    -- B. the remaining chunks, inside the new cluster
    have hroom' : chainRoom fs0 (chain ++ [c]) (chain.length * fs0.clusterSize + c1.length) = fs0.clusterSize - c1.length := by
      unfold chainRoom
      have hlt : c1.length < fs0.clusterSize := Nat.lt_of_lt_of_le (Nat.lt_of_le_of_lt hc1len hhead) hcs32
      rw [List.length_append, List.length_singleton, if_pos (by
        rw [Nat.add_mul, Nat.one_mul]; exact Nat.add_lt_add_left hlt _)]
      congr 1
      rw [Nat.mul_comm, Nat.mul_add_mod, Nat.mod_eq_of_lt hlt]
    have hT' : 32 * ((chain.length + 1) * (fs0.clusterSize / 32)) = (chain.length + 1) * fs0.clusterSize := by
      rw [Nat.mul_left_comm, hK]
    have hfit2 : chain.length * fs0.clusterSize + c1.length + rest.flatten.length ≤
        32 * ((chain.length + 1) * (fs0.clusterSize / 32)) := by
      rw [hT', Nat.add_mul, Nat.one_mul, Nat.add_assoc, hlens]
      exact Nat.add_le_add_left hcs32 _
    obtain ⟨d2, h2, hw2, hinv2⟩ := WG'.writeChunks_closed rest (chain.length * fs0.clusterSize + c1.length) d1 hinv1 hrest
      (by rw [hroom', hrestlen]; exact Nat.sub_le_sub_right hcs32 _) hfit2
    have hsrc' : chainSrc fs0 (chain ++ [c]) (chain.length * fs0.clusterSize + c1.length) = clusterOff fs0 c + c1.length :=
      chainSrc_append_new fs0 chain c _ hcspos (by omega)
    rw [hsrc'] at hw2
    obtain ⟨hgeo1, _, hg1⟩ := hcore' d1 hinv1
    have hcoff : clusterOff d.fs c = clusterOff fs0 c := hg.clusterOff c
    have hcoff1 : clusterOff d1.fs c = clusterOff fs0 c := hg1.clusterOff c
    obtain ⟨hc2, hct⟩ := hC1.inTab c (by simp)
    have hdata0 : d1.fs.firstDataSector * d1.fs.bps ≤ clusterOff fs0 c := by
      have hfirst : d1.fs.firstDataSector * d1.fs.bps ≤ clusterOff d1.fs 2 := by unfold clusterOff; simp
      have := clusterOff_mono d1.fs hc2
      rw [hcoff1] at this
      exact Nat.le_trans hfirst this
    have hdata1 : d1.fs.firstDataSector * d1.fs.bps ≤ clusterOff fs0 c + c1.length := Nat.le_trans hdata0 (Nat.le_add_right _ _)
    have hinfo2 := infoOk_of_writesTo hw2 hwf1 hgeo1 hdata1 hinfo1
    have hfat12 : FatAgree d1.fs d1.img d2.img := by
      intro q h1' h2'
      have := hgeo1.status_lt
      have := hgeo1.fat_data
      have : (fatSliceOf d1.fs).size ≤ (fatSliceOf d1.fs).mirrors * (fatSliceOf d1.fs).size :=
        Nat.le_mul_of_pos_left _ hgeo1.mirrors_pos
      rw [hw2.bytes hwf1 q (by omega)]
      unfold putBytes
      rw [if_neg (by omega)]
    have h42c : 0x42 ≤ clusterOff fs0 c := by
      have := hgeo1.status_lt
      have := hgeo1.fat_data
      have : (fatSliceOf d1.fs).size ≤ (fatSliceOf d1.fs).mirrors * (fatSliceOf d1.fs).size :=
        Nat.le_mul_of_pos_left _ hgeo1.mirrors_pos
      omega
    -- C. the bytes
    have hnew2 : ∀ q, clusterOff fs0 c ≤ q → q < clusterOff fs0 c + fs0.clusterSize →
        d2.img.getByte q = putBytes (fun _ => 0) (clusterOff fs0 c) e.serialize q := by
      intro q hq1 hq2
      rw [hw2.bytes hwf1 q (by omega), ← hfl, ← putBytes_append]
      unfold putBytes
      split
      · rfl
      · have := hnew1 q (by rw [hcoff]; exact hq1) (by rw [hcoff, hcs]; exact hq2)
        rw [hcoff] at this
        rw [this]; rfl
    have hout12 : ∀ q, 0x42 ≤ q → ¬ (clusterOff fs0 c ≤ q ∧ q < clusterOff fs0 c + fs0.clusterSize) →
        d2.img.getByte q = d1.img.getByte q := by
      intro q hq hn
      rw [hw2.bytes hwf1 q hq]
      unfold putBytes
      rw [if_neg (by omega)]
    have hcnotin : c ∉ chain := by
      have hnd := chain_nodup' hC1.link
      rw [List.nodup_append] at hnd
      intro hmem
      exact hnd.2.2 c hmem c (by simp) rfl
    have hold : ∀ i, i < chain.length * (fs0.clusterSize / 32) → ∀ x, x < 32 →
        d2.img.getByte (chainSrc fs0 chain (32 * i) + x) = d.img.getByte (chainSrc fs0 chain (32 * i) + x) := by
      intro i hi x hx
      have Cs := C.slot_in_cluster i (by rw [hcs]; exact hi)
      obtain ⟨a, ha, ha1, ha2⟩ := Cs
      rw [chainSrc_geom hg, hg.clusterOff] at ha1 ha2
      rw [hcs] at ha2
      have hac : a ≠ c := fun h => hcnotin (h ▸ ha)
      have hdisj := cluster_ranges_disjoint fs0 (C.inTab a ha).1 hc2 hac
      have hbeh := (C.slot_behind i (by rw [hcs]; exact hi))
      rw [chainSrc_geom hg] at hbeh
      have hq42 : 0x42 ≤ chainSrc fs0 chain (32 * i) + x := by omega
      have hnot : ¬ (clusterOff fs0 c ≤ chainSrc fs0 chain (32 * i) + x ∧
          chainSrc fs0 chain (32 * i) + x < clusterOff fs0 c + fs0.clusterSize) := by omega
      rw [hout12 _ hq42 hnot]
      refine hfr1 _ hq42 ?_ (by rw [hcoff, hcs]; exact hnot)
      right
      have := C.geo.fat_data
      omega
    have hslots := srcSlots_grown fs0 chain c hcspos h32 d.img d2.img e.serialize hl hb hold hnew2
    refine ⟨d2, ?_, (VolStep.of_devStep hs1).trans (VolStep.of_devStep hw2.step), hw2.keep hd1, hinv2, hinfo2, hslots, ?_,
      fun q hq ho hn => ?_⟩
    · rw [hchunks]
      unfold writeChunks
      rw [run_bind_ok hw1, h2, Nat.add_assoc, hlens]
    · rw [hw2.step.geom.tabView, tabView_congr hgeo1 hfat12, htv1]
    · rw [hout12 q hq (by rw [← hcoff, ← hcs]; exact hn)]
      exact hfr1 q hq ho hn
  unfold writeSlot
  cases e with
  | file fe => exact key _ entryChunks_sum (by decide) (by decide) (by decide)
  | lfn l => exact key _ lfnChunks_sum (by decide) (by decide) (by decide)

end grow

end FatVerif.DirSim
