import FatVerif.Proofs.SliceModel6
import FatVerif.Proofs.FatSim
/-! The FAT of a device image as a byte array, and `imgFatView` = `Fat.view` on it.

`fatBytes B Z img` are the `Z` bytes of the image from offset `B` on (for a mounted volume: the first / active copy of
the FAT, `B = (fatSliceOf fs).beginOff`, `Z = (fatSliceOf fs).size`). All statements depend on the image only through
`Img.getByte`. -/
namespace FatVerif
open FatVerif.Fat

theorem Img.getByte_lt (i : Img) (q : Nat) : i.getByte q < 256 := by
  unfold Img.getByte
  split
  · exact UInt8.toNat_lt _
  · decide

/-- `Z` bytes of the image starting at `B` -/
def fatBytes (B Z : Nat) (img : Img) : Array Nat := (img.read B Z).toArray

/-- the FAT bytes of a mounted volume: the window of `fatSliceOf` (first copy when mirroring, else the active copy) -/
def imgFatBytes (fs : FsState) (img : Img) : Array Nat :=
  fatBytes (fatSliceOf fs).beginOff (fatSliceOf fs).size img

theorem fatBytes_size (B Z : Nat) (img : Img) : (fatBytes B Z img).size = Z := by
  simp [fatBytes, Img.read]

theorem rd_fatBytes (B Z : Nat) (img : Img) (i : Nat) :
    rd (fatBytes B Z img) i = if i < Z then img.getByte (B + i) else 0 := by
  unfold rd fatBytes
  rw [Array.getD_eq_getD_getElem?]
  simp only [List.getElem?_toArray]
  by_cases h : i < Z
  · rw [if_pos h]
    have := Img.read_getD' img B Z i h
    rw [List.getD_eq_getElem?_getD] at this
    exact this
  · rw [if_neg h]
    have : (img.read B Z)[i]? = none := by
      rw [List.getElem?_eq_none_iff, Img.read_length]; omega
    rw [this]; rfl

theorem wf_fatBytes (B Z : Nat) (img : Img) : WfBytes (fatBytes B Z img) := by
  intro i
  rw [rd_fatBytes]
  split
  · exact Img.getByte_lt _ _
  · decide

/-- the byte arrays of two images with the same bytes in the window coincide -/
theorem fatBytes_congr (B Z : Nat) (a b : Img) (h : ∀ i, i < Z → b.getByte (B + i) = a.getByte (B + i)) :
    fatBytes B Z b = fatBytes B Z a := by
  unfold fatBytes Img.read
  congr 1
  apply List.map_congr_left
  intro k hk
  exact h k (List.mem_range.mp hk)

theorem rd16_fatBytes (B Z : Nat) (img : Img) (o : Nat) (h : o + 2 ≤ Z) :
    rd16 (fatBytes B Z img) o = img.le16 (B + o) := by
  unfold rd16 Img.le16
  rw [rd_fatBytes, rd_fatBytes, if_pos (by omega), if_pos (by omega)]
  rw [show B + (o + 1) = B + o + 1 by omega]

theorem rd32_fatBytes (B Z : Nat) (img : Img) (o : Nat) (h : o + 4 ≤ Z) :
    rd32 (fatBytes B Z img) o = img.le32 (B + o) := by
  unfold rd32 Img.le32
  rw [rd_fatBytes, rd_fatBytes, rd_fatBytes, rd_fatBytes, if_pos (by omega), if_pos (by omega), if_pos (by omega),
    if_pos (by omega)]
  rw [show B + (o + 1) = B + o + 1 by omega, show B + (o + 2) = B + o + 2 by omega,
    show B + (o + 3) = B + o + 3 by omega]

/-! ### the two transliterations of `get_raw` / `get` agree -/

theorem isSpecial32_iff (c : Nat) : Table.isSpecial32 c = true ↔ special32 c := by
  unfold Table.isSpecial32 special32
  simp

/-- `Model/Table.lean`'s classification = `Model/FatCodec.lean`'s, for every raw value -/
theorem tableClassify_eq (ft : FatType) (c raw : Nat) : Table.classify ft c raw = Fat.classify ft c raw := by
  cases ft
  · rfl
  · rfl
  · simp only [Table.classify, Fat.classify, classify32]
    have hv : raw % 268435456 < 268435456 := Nat.mod_lt _ (by decide)
    by_cases hs : special32 c
    · have hb : Table.isSpecial32 c = true := (isSpecial32_iff c).mpr hs
      simp only [hb, hs, if_true]
      repeat' split
      all_goals first | rfl | (exfalso; omega)
    · have hb : Table.isSpecial32 c = false := by
        cases h : Table.isSpecial32 c with
        | false => rfl
        | true => exact absurd ((isSpecial32_iff c).mp h) hs
      simp only [hb, hs, if_false, Bool.false_eq_true]
      repeat' split
      all_goals first | rfl | (exfalso; omega)

theorem tableRawOfValue_eq (ft : FatType) (v : FatValue) : Table.rawOfValue ft v = Fat.rawOfValue ft v := by
  cases ft <;> cases v <;> rfl

/-- the raw entry read from the image is the raw entry of the byte array, for every entry inside the window -/
theorem imgFatRaw_eq (ft : FatType) (B Z : Nat) (img : Img) (c : Nat) (h : InRange ft (fatBytes B Z img) c) :
    getRaw ft (fatBytes B Z img) c = .ok (imgFatRaw ft B img c) := by
  have hsz := fatBytes_size B Z img
  cases ft <;> simp only [InRange, off, width, hsz] at h
  · simp only [getRaw, getRaw12, hsz]
    rw [if_neg (by omega), if_neg (by omega)]
    simp only [val12, imgFatRaw, rd16_fatBytes B Z img _ h.1]
  · simp only [getRaw, getRaw16, hsz]
    rw [if_neg (by omega), if_neg (by omega)]
    simp only [imgFatRaw, rd16_fatBytes B Z img _ h.1]
  · simp only [getRaw, getRaw32, hsz]
    rw [if_neg (by omega), if_neg (by omega)]
    simp only [imgFatRaw, rd32_fatBytes B Z img _ h.1]

/-- **`imgFatView_eq_view`**: for every image and every entry that lies inside the FAT window, the decoded FAT of the
    image (`imgFatView`, formulas over `Img.le16/le32`) is `Fat.view` of the window's bytes — FAT12, FAT16 and FAT32. -/
theorem imgFatView_eq_view (fs : FsState) (img : Img) (c : Nat)
    (h : InRange fs.fatType (imgFatBytes fs img) c) :
    imgFatView fs img c = view fs.fatType (imgFatBytes fs img) c := by
  unfold imgFatView view Fat.get imgFatBytes at *
  rw [imgFatRaw_eq _ _ _ _ _ h, tableClassify_eq]

/-- outside the window `Fat.view` answers `bad` (unreadable), whereas `imgFatView` decodes whatever bytes follow the
    FAT copy (the next copy, the root directory, …) -/
theorem view_outside_window (fs : FsState) (img : Img) (c : Nat)
    (h : ¬ InRange fs.fatType (imgFatBytes fs img) c) : view fs.fatType (imgFatBytes fs img) c = .bad := by
  unfold view
  cases hg : Fat.get fs.fatType (imgFatBytes fs img) c with
  | error e => rfl
  | ok v => exact absurd (get_inRange hg) h

/-- entries `[0, n)` lie inside a window of `Z` bytes (`Z < 2^32`) that holds `n` entries -/
theorem inRange_of_fits (ft : FatType) (B Z : Nat) (img : Img) (n c : Nat) (hc : c < n)
    (hfit : off ft (n - 1) + width ft ≤ Z) (hZ : Z < u32Lim) : InRange ft (fatBytes B Z img) c := by
  have hsz := fatBytes_size B Z img
  cases ft <;> simp only [InRange, off, width, hsz] at * <;> omega

end FatVerif
