import FatVerif.Proofs.FileSimDirty
import FatVerif.Proofs.FatSim
import FatVerif.Proofs.FatImgBytes
/-!
# FileSim, part 8: the first FAT copy of the image as the byte array of the array-level FAT model

`fatArr fs img` = the bytes `[B, B + S)` of the image (first FAT copy) as an `Array Nat`.  The decoded FAT of the image
restricted to the table (`tabView`) is the array-level `Fat.view` of these bytes; they form a sane table (`TableOk`).
-/
namespace FatVerif.FileSim
open FatVerif FatVerif.Fat

/-- the bytes of the first FAT copy -/
def fatArr (fs : FsState) (img : Img) : Array Nat :=
  ((List.range (fatSliceOf fs).size).map fun i => img.getByte ((fatSliceOf fs).beginOff + i)).toArray

/-- the same array as `imgFatBytes` of Proofs/FatImgBytes.lean (the backward, image-level FAT specs of
    Proofs/FatImg*.lean are stated on it) -/
theorem fatArr_eq_imgFatBytes (fs : FsState) (img : Img) : fatArr fs img = imgFatBytes fs img := rfl

@[simp] theorem fatArr_size (fs : FsState) (img : Img) : (fatArr fs img).size = (fatSliceOf fs).size := by
  simp [fatArr]

theorem rd_fatArr (fs : FsState) (img : Img) (i : Nat) (h : i < (fatSliceOf fs).size) :
    rd (fatArr fs img) i = img.getByte ((fatSliceOf fs).beginOff + i) := by
  unfold rd fatArr
  simp [Array.getD_eq_getD_getElem?, h]

theorem getByte_lt' (i : Img) (off : Nat) : i.getByte off < 256 := by
  unfold Img.getByte
  split
  · exact UInt8.toNat_lt _
  · decide

theorem wfBytes_fatArr (fs : FsState) (img : Img) : WfBytes (fatArr fs img) := by
  intro i
  by_cases h : i < (fatSliceOf fs).size
  · rw [rd_fatArr fs img i h]; exact getByte_lt' _ _
  · rw [rd_oob _ _ (by simp; omega)]; decide

theorem rd16_fatArr (fs : FsState) (img : Img) (o : Nat) (h : o + 2 ≤ (fatSliceOf fs).size) :
    rd16 (fatArr fs img) o = img.le16 ((fatSliceOf fs).beginOff + o) := by
  unfold rd16 Img.le16
  rw [rd_fatArr fs img o (by omega), rd_fatArr fs img (o + 1) (by omega), Nat.add_assoc]

theorem rd32_fatArr (fs : FsState) (img : Img) (o : Nat) (h : o + 4 ≤ (fatSliceOf fs).size) :
    rd32 (fatArr fs img) o = img.le32 ((fatSliceOf fs).beginOff + o) := by
  unfold rd32 Img.le32
  rw [rd_fatArr fs img o (by omega), rd_fatArr fs img (o + 1) (by omega), rd_fatArr fs img (o + 2) (by omega),
    rd_fatArr fs img (o + 3) (by omega)]
  simp only [Nat.add_assoc]

theorem entOff_eq (ft : FatType) (c : Nat) : entOff ft c = off ft c := by cases ft <;> rfl
theorem entWidth_eq (ft : FatType) : entWidth ft = width ft := by cases ft <;> rfl

/-- the two transliterations of the classification agree -/
theorem classify_eq (ft : FatType) (c raw : Nat) : Table.classify ft c raw = Fat.classify ft c raw := by
  cases ft
  · simp only [Table.classify, Fat.classify, classify12]
  · simp only [Table.classify, Fat.classify, classify16]
  · have hlt : raw % 268435456 < 268435456 := Nat.mod_lt _ (by decide)
    have hsp : Table.isSpecial32 c = decide (special32 c) := by
      simp only [Table.isSpecial32, special32]
      by_cases h1 : 268435447 ≤ c <;> by_cases h2 : c ≤ 268435455 <;> simp [h1, h2]
    simp only [Table.classify, Fat.classify, classify32, hsp]
    by_cases hs : special32 c
    · simp only [hs, decide_true, if_true]
      repeat' split
      all_goals first | rfl | (exfalso; omega)
    · simp only [hs, decide_false, Bool.false_eq_true, if_false]
      repeat' split
      all_goals first | rfl | (exfalso; omega)

section
variable {fs : FsState} {sz : Nat}

theorem Geo.inRange (g : Geo fs sz) (img : Img) {c : Nat} (hc : c < fs.totalClusters + 2) :
    InRange fs.fatType (fatArr fs img) c := by
  have h1 := g.ents c hc
  have h2 := g.fat_u32
  rw [entOff_eq, entWidth_eq] at h1
  have hw : 0 < width fs.fatType := by cases fs.fatType <;> decide
  unfold InRange u32Lim
  rw [fatArr_size]
  omega

/-- `get_raw` of the array-level model on the bytes of the first FAT copy = the raw entry of the image -/
theorem getRaw_fatArr (g : Geo fs sz) (img : Img) {c : Nat} (hc : c < fs.totalClusters + 2) :
    Fat.getRaw fs.fatType (fatArr fs img) c = .ok (imgFatRaw fs.fatType (fatSliceOf fs).beginOff img c) := by
  have hin := g.inRange img hc
  unfold InRange u32Lim at hin
  rw [fatArr_size] at hin
  cases hft : fs.fatType with
  | fat12 =>
    rw [hft] at hin
    simp only [off, width] at hin
    simp only [Fat.getRaw, getRaw12, u32Lim, fatArr_size, imgFatRaw]
    rw [if_neg (by omega), if_neg (by omega), rd16_fatArr fs img _ (by omega)]
    rfl
  | fat16 =>
    rw [hft] at hin
    simp only [off, width] at hin
    simp only [Fat.getRaw, getRaw16, u32Lim, fatArr_size, imgFatRaw]
    rw [if_neg (by omega), if_neg (by omega), rd16_fatArr fs img _ (by omega)]
  | fat32 =>
    rw [hft] at hin
    simp only [off, width] at hin
    simp only [Fat.getRaw, getRaw32, u32Lim, fatArr_size, imgFatRaw]
    rw [if_neg (by omega), if_neg (by omega), rd32_fatArr fs img _ (by omega)]

/-- the decoded FAT of the image, on the table, is the array-level view of the first FAT copy -/
theorem tabView_eq_view (g : Geo fs sz) (img : Img) {c : Nat} (hc : c < fs.totalClusters + 2) :
    tabView fs img c = Fat.view fs.fatType (fatArr fs img) c := by
  unfold tabView Fat.view Fat.get
  rw [if_pos hc, getRaw_fatArr g img hc]
  simp only [imgFatView, classify_eq]

theorem Geo.tableOk (g : Geo fs sz) (img : Img) : TableOk fs.fatType (fatArr fs img) fs.totalClusters :=
  ⟨wfBytes_fatArr fs img, fun _ hc => g.inRange img hc, g.small⟩

/-- an array is the first FAT copy of an image as soon as its bytes are -/
theorem fatArr_eq_of_bytes (img : Img) (arr : Array Nat) (hs : arr.size = (fatSliceOf fs).size)
    (hb : ∀ i, i < (fatSliceOf fs).size → img.getByte ((fatSliceOf fs).beginOff + i) = rd arr i) :
    fatArr fs img = arr := by
  apply Array.ext
  · rw [fatArr_size, hs]
  · intro i h1 h2
    have hi : i < (fatSliceOf fs).size := by rw [fatArr_size] at h1; exact h1
    have e1 := rd_fatArr fs img i hi
    have e2 := hb i hi
    unfold rd at e1 e2
    simp only [Array.getD_eq_getD_getElem?, Array.getElem?_eq_getElem h1, Array.getElem?_eq_getElem h2,
      Option.getD_some] at e1 e2
    rw [e1, e2]

end

end FatVerif.FileSim
