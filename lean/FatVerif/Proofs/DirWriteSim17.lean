import FatVerif.Proofs.DirWriteSim16
import FatVerif.Proofs.FatImgZero3
/-! Directory WRITES, part 17: GROWTH — one `File::write` at the end of the chain of a directory: a free cluster is
    allocated (`alloc_cluster(Some(last), zero = true)`, agent-fat's `run_allocClusterFs_any`), linked behind the last
    cluster, zero-filled, and the bytes go to its start. -/
namespace FatVerif.DirSim
open FatVerif.FileSim FatVerif.Fat DirEntryData

/-! ### the chain after `alloc_cluster(Some(last))` -/

theorem chain_snoc {g : Nat → FatValue} : ∀ {chain : List Nat} {c0 : Nat}, Chain g c0 chain → ∀ (c last : Nat),
    chain.getLast? = some last → c ∉ chain → Chain (allocLinkV g (some last) c) c0 (chain ++ [c]) := by
  intro chain c0 h
  induction h with
  | last m hl =>
    intro c last hlast hc
    simp only [List.getLast?_singleton, Option.some.injEq] at hlast
    subst hlast
    have hne : m ≠ c := fun h => hc (by simp [h])
    obtain ⟨h1, h2, _⟩ := allocLinkV_spec g (some m) c (fun p hp => by cases hp; exact hne)
    exact Chain.cons m c [c] (h2 m rfl) (Chain.last c (fun n hn => by rw [h1] at hn; cases hn))
  | cons m k ms hd hc ih =>
    intro c last hlast hcn
    have hnd := chain_nodup' (Chain.cons m k ms hd hc)
    obtain ⟨t, ht⟩ := chain_head hc
    have hlast' : ms.getLast? = some last := by
      rw [ht] at hlast ⊢
      simpa using hlast
    have hmem : last ∈ ms := List.mem_of_getLast? hlast'
    have hm_notin : m ∉ ms := (List.nodup_cons.mp hnd).1
    have hml : m ≠ last := fun h => hm_notin (h ▸ hmem)
    have hmc : m ≠ c := fun h => hcn (by simp [h])
    have hlc : last ≠ c := fun h => hcn (by rw [← h]; exact List.mem_cons_of_mem _ hmem)
    obtain ⟨_, _, h3⟩ := allocLinkV_spec g (some last) c (fun p hp => by cases hp; exact hlc)
    have hgm : allocLinkV g (some last) c m = .data k := by
      rw [h3 m hmc (fun p hp => by cases hp; exact hml)]; exact hd
    exact Chain.cons m k (ms ++ [c]) hgm (ih c last hlast' (fun h => hcn (List.mem_cons_of_mem _ h)))

theorem infoOk_congr {fs fs' : FsState} {img img' : Img} (h : InfoOk fs img) (hi : fs'.fsInfo = fs.fsInfo)
    (ht : fs'.totalClusters = fs.totalClusters) (hv : tabView fs' img' = tabView fs img) : InfoOk fs' img' :=
  ⟨fun n hn => h.hint n (by rw [← hi]; exact hn), fun n hn => by rw [hv, ht]; exact h.count n (by rw [← hi]; exact hn)⟩


section chain
variable {d : Dev} {f0 : FileH} {c0 : Nat} {chain : List Nat}

/-- **one `File::write` at the end of the chain of a directory: growth by one zero-filled cluster.** `c` is the cluster
    the allocator finds; afterwards the chain is `chain ++ [c]`, cluster `c` holds `bs` followed by zeros, and from byte
    `0x42` on nothing else changes outside the FAT copies -/
theorem ChainCore.file_write_grow (C : ChainCore d f0 c0 chain) (hwf : d.img.WF) (hinfo : InfoOk d.fs d.img)
    (hisdir : f0.isDir = true) (last : Nat) (hlast : chain.getLast? = some last)
    (hlv : tabView d.fs d.img last ≠ .free) (c : Nat)
    (hfind : allocFindV (tabView d.fs d.img) d.fs.fsInfo.next d.fs.totalClusters = some c)
    (hu32 : (chain.length + 1) * d.fs.clusterSize < 4294967296) (bs : List Nat) (hne : bs ≠ [])
    (hlen : bs.length ≤ d.fs.clusterSize) :
    ∃ d', run ((dirFile f0 chain d.fs.clusterSize (chain.length * d.fs.clusterSize)).write bs) d =
        (.ok (bs.length, dirFile (stamped f0 d.clock) (chain ++ [c]) d.fs.clusterSize
          (chain.length * d.fs.clusterSize + bs.length)), d') ∧
      DevStep d d' ∧ d'.fs.curDirty = true ∧ d'.img.WF ∧ ChainCore d' f0 c0 (chain ++ [c]) ∧ InfoOk d'.fs d'.img ∧
      tabView d'.fs d'.img = allocLinkV (tabView d.fs d.img) (some last) c ∧
      (∀ q, clusterOff d.fs c ≤ q → q < clusterOff d.fs c + d.fs.clusterSize →
        d'.img.getByte q = putBytes (fun _ => 0) (clusterOff d.fs c) bs q) ∧
      (∀ q, 0x42 ≤ q → OutsideFat d.fs q →
        ¬ (clusterOff d.fs c ≤ q ∧ q < clusterOff d.fs c + d.fs.clusterSize) → d'.img.getByte q = d.img.getByte q) := by
  have hcs := C.geo.cs_pos
  have hblen : bs.length ≠ 0 := by
    cases bs with
    | nil => exact absurd rfl hne
    | cons _ _ => simp
  have hLpos : 0 < chain.length := by
    cases chain with
    | nil => cases hlast
    | cons _ _ => simp
  generalize hT : chain.length * d.fs.clusterSize = T at *
  have hTmod : T % d.fs.clusterSize = 0 := by rw [← hT]; exact Nat.mul_mod_left _ _
  have hTdiv : T / d.fs.clusterSize = chain.length := by rw [← hT]; exact Nat.mul_div_cancel _ hcs
  have hTpos : 0 < T := by rw [← hT]; exact Nat.mul_pos hLpos hcs
  have hTu : T + d.fs.clusterSize < 4294967296 := by rw [← hT]; rw [Nat.add_mul, Nat.one_mul] at hu32; exact hu32
  have hoff : (dirFile f0 chain d.fs.clusterSize T).offset = T := rfl
  have hws : min (min bs.length (d.fs.clusterSize - T % d.fs.clusterSize)) (4294967295 - T) = bs.length := by
    rw [hTmod]; omega
  have h42 : 0x42 ≤ d.img.size := by
    have := C.geo.status_lt
    have := C.geo.fat_dev
    omega
  -- 1. set_dirty_flag(true)
  obtain ⟨d1, h1, hs1, hd1, hi1, hb1⟩ := run_setDirtyFlag_true d C.failAt h42
  have hfat1 : FatAgree d.fs d.img d1.img := by
    intro q hq1 _
    have := C.geo.status_lt
    exact hb1 hwf q (by omega)
  have C1 : ChainCore d1 f0 c0 chain := C.of_agree hs1.failAt hs1.size hs1.geom hfat1
  have hcs1 : d1.fs.clusterSize = d.fs.clusterSize := hs1.geom.clusterSize
  have htv1 : tabView d1.fs d1.img = tabView d.fs d.img := by rw [hs1.geom.tabView, tabView_congr C.geo hfat1]
  -- 2. the boundary: no next cluster
  obtain ⟨d2, h2, hs2⟩ := C1.curOpt T (by rw [hcs1, hT]; exact Nat.le_refl _)
  rw [hcs1, if_pos hTmod, hTdiv, List.getElem?_eq_none (Nat.le_refl _)] at h2
  have hfa2 : d2.failAt = none := by rw [hs2.failAt, hs1.failAt]; exact C.failAt
  have hwf2 : d2.img.WF := by rw [hs2.img]; exact hs1.wf hwf
  have hgeo2 : Geo d2.fs d2.img.size := by rw [hs2.fs, hs2.img]; exact C1.geo
  have htv2 : tabView d2.fs d2.img = tabView d.fs d.img := by rw [hs2.fs, hs2.img]; exact htv1
  have hinfo2 : InfoOk d2.fs d2.img :=
    infoOk_congr hinfo (by rw [hs2.fs]; exact hi1) (by rw [hs2.fs]; exact hs1.geom.totalClusters) htv2
  have hlastmem : last ∈ chain := List.mem_of_getLast? hlast
  -- 3. alloc_cluster(Some(last), true)
  have hnext2 : d2.fs.fsInfo.next = d.fs.fsInfo.next := by rw [hs2.fs, hi1]
  have htot2 : d2.fs.totalClusters = d.fs.totalClusters := by rw [hs2.fs]; exact hs1.geom.totalClusters
  have halloc := run_allocClusterFs_any (some last) true d2 hfa2 hwf2 hgeo2 hinfo2 (fun p hp => by
    cases hp
    have := C.inTab last hlastmem
    exact ⟨this.1, by rw [htot2]; exact this.2, by rw [htv2]; exact hlv⟩)
  rw [htv2, hnext2, htot2, hfind] at halloc
  rcases halloc with ⟨hnone, _⟩ | ⟨c', d3, hc', h3, hs3, hfs3, htv3, hinfo3, hz3, hfr3⟩
  · cases hnone
  cases hc'
  obtain ⟨hc2, hct, hcf⟩ := allocFindV_some _ _ _ _ hinfo.hint hfind
  have hgeo12 : FsGeomEq d.fs d2.fs := by rw [hs2.fs]; exact hs1.geom
  have hcoff2 : clusterOff d2.fs c = clusterOff d.fs c := hgeo12.clusterOff c
  have hcs2 : d2.fs.clusterSize = d.fs.clusterSize := hgeo12.clusterSize
  rw [hcoff2, hcs2] at hz3 hfr3
  have hfa3 : d3.failAt = none := by rw [hs3.failAt]; exact hfa2
  have hsz3 : d3.img.size = d.img.size := by rw [hs3.size, hs2.img, hs1.size]
  have hwf3 : d3.img.WF := hs3.wf hwf2
  have hdev := C.geo.cluster_dev hc2 hct
  -- 4. the device write at the start of the new cluster
  let d4 := d3.didSeek (clusterOff d.fs c + T % d.fs.clusterSize)
  have hpos4 : d4.pos = clusterOff d.fs c := by show clusterOff d.fs c + T % d.fs.clusterSize = _; rw [hTmod]; rfl
  have hmin : min bs.length (d4.img.size - d4.pos) = bs.length := by
    rw [hpos4]; show min bs.length (d3.img.size - clusterOff d.fs c) = bs.length; rw [hsz3]; omega
  have hd5img : (didWrite d4 bs).img = d3.img.write (clusterOff d.fs c) bs := by
    rw [didWrite_img d4 bs (by rw [hpos4]; show clusterOff d.fs c + bs.length ≤ d3.img.size; rw [hsz3]; omega), hpos4]
    rfl
  have hstep : DevStep d (didWrite d4 bs) := by
    have hs4 : DevStep d3 d4 := DevStep.of_sameStore (sameStore_didSeek d3 _)
    have hs5 : DevStep d4 (didWrite d4 bs) :=
      ⟨rfl, didWrite_img_size _ _, fun hw => by rw [hd5img]; exact Img.wf_write _ hw _ _, FsGeomEq.refl _, rfl⟩
    exact (((hs1.trans (DevStep.of_sameStore hs2)).trans hs3).trans hs4).trans hs5
  have hcnotin : c ∉ chain := by
    intro hmem
    -- members of the chain are not free
    have hch := C.link
    obtain ⟨i, hi, hie⟩ := List.mem_iff_getElem.mp hmem
    by_cases hil : i + 1 < chain.length
    · have hn := chain_nextV_getElem? hch i c (by rw [List.getElem?_eq_getElem hi, hie])
      rw [List.getElem?_eq_getElem hil] at hn
      unfold nextV at hn
      rw [hcf] at hn
      cases hn
    · have hil' : i = chain.length - 1 := by omega
      have : chain.getLast? = some c := by
        rw [List.getLast?_eq_getElem?, ← hil', List.getElem?_eq_getElem hi, hie]
      rw [this] at hlast
      cases hlast
      exact hlv hcf
  have hfat : FatAgree d3.fs d3.img (didWrite d4 bs).img := by
    intro q hq1 hq2
    rw [hd5img, Img.getByte_write_of_not_mem _ hwf3]
    have e1 : fatSliceOf d3.fs = fatSliceOf d.fs := (hgeo12.trans hs3.geom).fatSlice
    rw [e1] at hq1 hq2
    have hfirst : d.fs.firstDataSector * d.fs.bps ≤ clusterOff d.fs 2 := by unfold clusterOff; simp
    have := clusterOff_mono d.fs hc2
    have := C.geo.fat_data
    have : (fatSliceOf d.fs).size ≤ (fatSliceOf d.fs).mirrors * (fatSliceOf d.fs).size :=
      Nat.le_mul_of_pos_left _ C.geo.mirrors_pos
    omega
  have hgeo3 : Geo d3.fs d3.img.size := by rw [hsz3]; exact C.geo.frame (hgeo12.trans hs3.geom)
  have htv5 : tabView (didWrite d4 bs).fs (didWrite d4 bs).img = allocLinkV (tabView d.fs d.img) (some last) c := by
    show tabView d3.fs (didWrite d4 bs).img = _
    rw [tabView_congr hgeo3 hfat, htv3]
  have hcore : ChainCore (didWrite d4 bs) f0 c0 (chain ++ [c]) := by
    refine ⟨hfa3, by rw [hstep.size]; exact C.geo.frame hstep.geom, C.first, by rw [htv5]; exact chain_snoc C.link c last hlast hcnotin,
      ?_, C.nosize, by rw [hstep.geom.accDate]; exact C.noacc, by rw [hstep.geom.clusterSize]; exact C.cs32, ?_⟩
    · intro x hx
      rw [hstep.geom.totalClusters]
      rcases List.mem_append.mp hx with h | h
      · exact C.inTab x h
      · simp only [List.mem_singleton] at h; subst h; exact ⟨hc2, hct⟩
    · rw [hstep.geom.clusterSize, List.length_append, List.length_singleton]; exact hu32
  have hinfo5 : InfoOk (didWrite d4 bs).fs (didWrite d4 bs).img :=
    infoOk_congr hinfo3 rfl rfl (by show tabView d3.fs (didWrite d4 bs).img = _; exact tabView_congr hgeo3 hfat)
  have hnew : FileH.mk (dirFile f0 chain d.fs.clusterSize T).firstCluster (some c) (T + bs.length)
      (dirFile f0 chain d.fs.clusterSize T).entry = dirFile f0 (chain ++ [c]) d.fs.clusterSize (T + bs.length) := by
    have hne0 : T + bs.length ≠ 0 := by omega
    have hd : (T + bs.length - 1) / d.fs.clusterSize = chain.length := by
      have := (div_mod_add (o := T) (j := bs.length - 1) hcs (by omega)).1
      rw [hTdiv] at this
      rw [← this]; congr 1; omega
    simp only [dirFile, if_neg hne0, hd, List.getElem?_append_right (Nat.le_refl _), Nat.sub_self,
      List.getElem?_cons_zero]
  refine ⟨didWrite d4 bs, ?_, hstep, ?_, hstep.wf hwf, hcore, hinfo5, htv5, fun q hq1 hq2 => ?_, fun q hq ho hn => ?_⟩
  · -- the run
    unfold FileH.write
    rw [run_bind_ok (run_getFs d)]
    simp only [hoff, hws, hblen, if_false]
    rw [run_bind_ok h1]
    have hsel : ∀ {α} (k : Nat × FileH → Prog α), run ((if T % d.fs.clusterSize = 0 then do
          let nxt ← (dirFile f0 chain d.fs.clusterSize T).boundaryCluster
          match nxt with
          | some n => pure (n, dirFile f0 chain d.fs.clusterSize T)
          | none => do
            let c ← allocClusterFs (dirFile f0 chain d.fs.clusterSize T).currentCluster
              (dirFile f0 chain d.fs.clusterSize T).isDir
            let f := if (dirFile f0 chain d.fs.clusterSize T).firstCluster.isNone
              then FileH.setFirstCluster d.fs (dirFile f0 chain d.fs.clusterSize T) c
              else dirFile f0 chain d.fs.clusterSize T
            pure (c, f)
        else
          match (dirFile f0 chain d.fs.clusterSize T).currentCluster with
          | some n => pure (n, dirFile f0 chain d.fs.clusterSize T)
          | none => Prog.fail .panic) >>= k) d1 =
        run (k (c, dirFile f0 chain d.fs.clusterSize T)) d3 := by
      intro α k
      rw [if_pos hTmod, run_bind_assoc, run_bind_ok h2]
      simp only
      have hcur : (dirFile f0 chain d.fs.clusterSize T).currentCluster = some last := by
        have hT0 : T ≠ 0 := by omega
        have hp : (T - 1) / d.fs.clusterSize = chain.length - 1 := by
          rw [pred_div hcs hTpos, if_pos hTmod, hTdiv]
        simp only [dirFile, if_neg hT0, hp]
        rw [← List.getLast?_eq_getElem?]; exact hlast
      have hdir : (dirFile f0 chain d.fs.clusterSize T).isDir = true := hisdir
      have hfc : (dirFile f0 chain d.fs.clusterSize T).firstCluster.isNone = false := by
        show f0.firstCluster.isNone = false; rw [C.first]; rfl
      rw [hcur, hdir, run_bind_assoc, run_bind_ok h3]
      simp only [hfc, Bool.false_eq_true, if_false]
      exact run_bind_ok rfl
    refine (hsel _).trans ?_
    simp only
    rw [run_bind_ok (run_offsetFromClusterP C.geo c hc2 hct d3), run_bind_ok (run_seekStart _ d3 hfa3),
      List.take_length, run_bind_ok (run_write bs d4 hfa3), hmin]
    simp only [hblen, if_false]
    have hclk : (didWrite d4 bs).clock = d.clock := hstep.clock
    have hupd : run (FileH.updateAfterWrite (dirFile f0 (chain ++ [c]) d.fs.clusterSize (T + bs.length))) (didWrite d4 bs) =
        (.ok (dirFile (stamped f0 d.clock) (chain ++ [c]) d.fs.clusterSize (T + bs.length)), didWrite d4 bs) := by
      unfold FileH.updateAfterWrite
      have hent : (dirFile f0 (chain ++ [c]) d.fs.clusterSize (T + bs.length)).entry = f0.entry := rfl
      rw [hent]
      cases he : f0.entry with
      | none =>
        have : stamped f0 d.clock = f0 := stamped_none f0 _ he
        rw [this]; rfl
      | some e =>
        have hsz : (e.setModified (clockDateTime d.clock)).data.size? = none := by
          rw [size?_setModified_ed]
          have := C.nosize
          unfold FileH.size? at this
          rw [he] at this
          exact this
        have ht : ∀ dd : Dev, run Prog.now dd = (.ok dd.clock, dd) := fun _ => rfl
        simp only
        rw [run_bind_ok (ht _), hclk]
        simp only [hsz]
        have : stamped f0 d.clock = { f0 with entry := some (e.setModified (clockDateTime d.clock)) } := by
          unfold stamped; rw [he]; rfl
        rw [this]
        rfl
    rw [hoff, hnew, run_bind_ok hupd]
    rfl
  · show d3.fs.curDirty = true
    rw [hfs3]
    exact markedFs_curDirty _
  · rw [hd5img, Img.getByte_write _ hwf3]
    unfold putBytes
    split
    · rfl
    · exact hz3 rfl q hq1 hq2
  · rw [hd5img, Img.getByte_write_of_not_mem _ hwf3 _ _ _ (by omega),
      hfr3 q hq (by unfold OutsideFat at ho ⊢; rw [hgeo12.fatSlice]; exact ho) (fun _ => hn),
      hs2.img, hb1 hwf q hq]

end chain

end FatVerif.DirSim
