import FatVerif.Proofs.FsCount
/-! Per-operation lemmas of the accounting machine and the preservation of its invariant. -/
namespace FatVerif.FsCount
open FatVerif.Fat

/-! ### mount -/

theorem deserialize_next_ge2 (rf rn h : Nat) (hh : (deserializeInfo rf rn).next = some h) : 2 ≤ h := by
  simp only [deserializeInfo] at hh
  split at hh
  · cases hh
  · cases hh; omega

theorem fixNext_some {total : Nat} {o : Option Nat} {h : Nat} (hh : fixNext total o = some h) :
    o = some h ∧ h ≤ total + 2 := by
  cases o with
  | none => cases hh
  | some n =>
    simp only [fixNext] at hh
    split at hh
    · cases hh
    · cases hh; exact ⟨rfl, by omega⟩

theorem fixFree_some {total : Nat} {o : Option Nat} {n : Nat} (hh : fixFree total o = some n) :
    o = some n ∧ n ≤ total := by
  cases o with
  | none => cases hh
  | some m =>
    simp only [fixFree] at hh
    split at hh
    · cases hh
    · cases hh; exact ⟨rfl, by omega⟩

/-- after mount the hint, if any, is in `[2, total+2]` -/
theorem mount_hintOk (s : FsCountState) (d : Bool) (rf rn : Nat) :
    HintOk { s with info := mountInfo s.fat32 d s.total (deserializeInfo rf rn) } := by
  intro h hh
  simp only [mountInfo] at hh
  obtain ⟨h1, h2⟩ := fixNext_some hh
  refine ⟨?_, h2⟩
  split at h1
  · exact deserialize_next_ge2 rf rn h h1
  · cases h1

/-- mount establishes `CountOk` when the on-disk count is absent (0xFFFFFFFF, or not FAT32), discarded (dirty
    volume, or `> total`), or correct -/
theorem mount_countOk (s : FsCountState) (d : Bool) (rf rn : Nat)
    (hdisk : d = false → s.fat32 = true → ∀ n, (deserializeInfo rf rn).free = some n → n ≤ s.total →
      n = countFreeV s.fat s.total) :
    CountOk { s with info := mountInfo s.fat32 d s.total (deserializeInfo rf rn) } := by
  intro n hn
  simp only [mountInfo] at hn
  obtain ⟨h1, h2⟩ := fixFree_some hn
  cases d with
  | true => simp at h1
  | false =>
    cases hf : s.fat32 with
    | false => rw [hf] at h1; simp at h1
    | true =>
      rw [hf] at h1
      simp only [Bool.false_eq_true, if_false, if_true] at h1
      exact hdisk rfl hf n h1 h2

/-! ### stats -/

theorem statsOp_fat (s : FsCountState) : (statsOp s).1.fat = s.fat ∧ (statsOp s).1.total = s.total ∧
    (statsOp s).1.fat32 = s.fat32 ∧ (statsOp s).1.info.next = s.info.next := by
  unfold statsOp; cases s.info.free <;> simp

theorem statsOp_countOk (s : FsCountState) (h : CountOk s) : CountOk (statsOp s).1 := by
  unfold statsOp
  cases hf : s.info.free with
  | some n => simpa [hf] using h
  | none => intro n hn; simp at hn; exact hn.symm

theorem statsOp_value (s : FsCountState) (h : CountOk s) : (statsOp s).2 = countFreeV s.fat s.total := by
  unfold statsOp
  cases hf : s.info.free with
  | some n => simp; exact h n hf
  | none => simp

/-- after `stats` the count is cached -/
theorem statsOp_cached (s : FsCountState) : (statsOp s).1.info.free = some (statsOp s).2 := by
  unfold statsOp
  cases hf : s.info.free with
  | some n => simp [hf]
  | none => simp

/-! ### alloc -/

theorem allocOp_ok {s s' : FsCountState} {prev : Option Nat} {c : Nat} (h : allocOp s prev = .ok (s', c)) :
    allocFindV s.fat s.info.next s.total = some c ∧ s'.fat = allocLinkV s.fat prev c ∧ s'.total = s.total ∧
    s'.fat32 = s.fat32 ∧ s'.info.next = some (nextHint s.total c) ∧ s'.info.free = s.info.free.map (· - 1) ∧
    s.info.free ≠ some 0 ∧ s'.info.dirty = true := by
  unfold allocOp allocV at h
  cases hf : allocFindV s.fat s.info.next s.total with
  | none => rw [hf] at h; cases h
  | some c' =>
    rw [hf] at h
    simp only at h
    cases hfree : s.info.free with
    | none =>
      rw [hfree] at h
      simp only [Info.mapFree, hfree] at h
      cases h
      simp
    | some n =>
      rw [hfree] at h
      cases n with
      | zero => cases h
      | succ m =>
        simp only [Info.mapFree, hfree] at h
        cases h
        simp

/-- the checked `n - 1` cannot panic under the invariant: a successful scan found a free cluster, so `n ≥ 1` -/
theorem allocOp_no_panic (s : FsCountState) (prev : Option Nat) (hc : CountOk s)
    (hh : ∀ n, s.info.next = some n → 2 ≤ n) : allocOp s prev ≠ .error .panic := by
  intro h
  unfold allocOp allocV at h
  cases hf : allocFindV s.fat s.info.next s.total with
  | none => rw [hf] at h; cases h
  | some c =>
    rw [hf] at h
    simp only at h
    obtain ⟨h1, h2, h3⟩ := allocFindV_some _ _ _ _ hh hf
    have hpos := countFreeV_pos s.fat s.total c h1 h2 h3
    cases hfree : s.info.free with
    | none => rw [hfree] at h; cases h
    | some n =>
      rw [hfree] at h
      have := hc n hfree
      cases n with
      | zero => omega
      | succ m => cases h

theorem nextHint_range (total c : Nat) (h1 : 2 ≤ c) (h2 : c < total + 2) :
    2 ≤ nextHint total c ∧ nextHint total c ≤ total + 1 := by
  unfold nextHint; split <;> omega

theorem allocOp_hintStrict {s s' : FsCountState} {prev : Option Nat} {c : Nat}
    (hh : ∀ n, s.info.next = some n → 2 ≤ n) (h : allocOp s prev = .ok (s', c)) :
    HintStrict s' ∧ 2 ≤ c ∧ c < s.total + 2 ∧ s.fat c = .free := by
  obtain ⟨hf, _, htot, _, hnext, _⟩ := allocOp_ok h
  obtain ⟨h1, h2, h3⟩ := allocFindV_some _ _ _ _ hh hf
  refine ⟨?_, h1, h2, h3⟩
  intro x hx
  rw [hnext] at hx; cases hx
  rw [htot]; exact nextHint_range s.total c h1 h2

theorem allocOp_countOk {s s' : FsCountState} {prev : Option Nat} {c : Nat} (hc : CountOk s)
    (hh : ∀ n, s.info.next = some n → 2 ≤ n) (hp : ∀ p, prev = some p → s.fat p ≠ .free)
    (h : allocOp s prev = .ok (s', c)) : CountOk s' ∧ countFreeV s'.fat s'.total + 1 = countFreeV s.fat s.total := by
  obtain ⟨hf, hfat, htot, _, _, hfree, _⟩ := allocOp_ok h
  obtain ⟨h1, h2, h3⟩ := allocFindV_some _ _ _ _ hh hf
  have hcnt := countFreeV_allocLink s.fat s.total c prev h1 h2 h3 hp
  rw [← hfat] at hcnt
  have hcnt' : countFreeV s'.fat s'.total + 1 = countFreeV s.fat s.total := by rw [htot]; exact hcnt
  refine ⟨?_, hcnt'⟩
  intro n hn
  rw [hfree] at hn
  cases hfr : s.info.free with
  | none => rw [hfr] at hn; cases hn
  | some m =>
    rw [hfr] at hn; simp at hn
    have := hc m hfr
    omega

/-! ### free / truncate -/

theorem length_le_of_range {cs : List Nat} {total : Nat} (hnd : cs.Nodup) (hin : ∀ i, i ∈ cs → i < total + 2) :
    cs.length ≤ total + 2 := by
  have hsub : cs ⊆ List.range (total + 2) := fun k hk => List.mem_range.mpr (hin k hk)
  have := List.Nodup.length_le_of_subset hnd hsub
  simpa using this

theorem freeOp_spec (s : FsCountState) (c : Nat) (cs : List Nat) (hch : Chain s.fat c cs) (hnd : cs.Nodup)
    (hin : ∀ i, i ∈ cs → i < s.total + 2) :
    ∃ s', freeOp s c = .ok s' ∧ (∀ i, i ∈ cs → s'.fat i = .free) ∧ (∀ i, i ∉ cs → s'.fat i = s.fat i) ∧
      s'.total = s.total ∧ s'.fat32 = s.fat32 ∧ s'.info = s.info.mapFree (· + cs.length) := by
  have hlen := length_le_of_range hnd hin
  obtain ⟨g', h1, h2, h3⟩ := freeChainV_spec cs s.fat c hch hnd (chainFuel s) 0 (by unfold chainFuel; omega)
  refine ⟨{ s with fat := g', info := s.info.mapFree (· + cs.length) }, ?_, h2, h3, rfl, rfl, rfl⟩
  unfold freeOp
  rw [h1]; simp

theorem truncateOp_spec (s : FsCountState) (c : Nat) (t : List Nat) (hch : Chain s.fat c (c :: t))
    (hnd : (c :: t).Nodup) (hin : ∀ i, i ∈ c :: t → i < s.total + 2) :
    ∃ s', truncateOp s c = .ok s' ∧ s'.fat c = .eoc ∧ (∀ i, i ∈ t → s'.fat i = .free) ∧
      (∀ i, i ≠ c → i ∉ t → s'.fat i = s.fat i) ∧
      s'.total = s.total ∧ s'.fat32 = s.fat32 ∧ s'.info = s.info.mapFree (· + t.length) := by
  have hlen := length_le_of_range hnd hin
  simp only [List.length_cons] at hlen
  obtain ⟨g', h1, h2, h3, h4⟩ := truncateChainV_spec s.fat c t hch hnd (chainFuel s) (by unfold chainFuel; omega)
  refine ⟨{ s with fat := g', info := s.info.mapFree (· + t.length) }, ?_, h2, h3, h4, rfl, rfl, rfl⟩
  unfold truncateOp
  rw [h1]

theorem countOk_mapFree_add (s s' : FsCountState) (k : Nat) (hc : CountOk s) (htot : s'.total = s.total)
    (hinfo : s'.info = s.info.mapFree (· + k)) (hcnt : countFreeV s'.fat s.total = countFreeV s.fat s.total + k) :
    CountOk s' := by
  intro n hn
  rw [hinfo, mapFree_free] at hn
  cases hfr : s.info.free with
  | none => rw [hfr] at hn; cases hn
  | some m =>
    rw [hfr] at hn; simp at hn
    have := hc m hfr
    rw [htot]; omega

/-- under `FatWf` the chain that starts at an allocated data cluster stays inside `[2,total+2)` and contains no
    free entry -/
theorem chain_members_ok {g : Nat → FatValue} {total : Nat} (hw : FatWf g total) {c : Nat} {cs : List Nat}
    (h : Chain g c cs) : 2 ≤ c → c < total + 2 → g c ≠ .free →
    ∀ i, i ∈ cs → 2 ≤ i ∧ i < total + 2 ∧ g i ≠ .free := by
  induction h with
  | last m _ => intro h1 h2 h3 i hi; simp at hi; subst hi; exact ⟨h1, h2, h3⟩
  | cons m k ms hd _ ih =>
    intro h1 h2 h3 i hi
    rcases List.mem_cons.mp hi with rfl | hi
    · exact ⟨h1, h2, h3⟩
    · have hr := hw.link_range m k hd
      exact ih hr.1 hr.2 (hw.link_alloc m k hd).1 i hi

/-! ### the invariant and its preservation -/

/-- structural invariant of the table + exact cached count + hint in range -/
def Inv (s : FsCountState) : Prop := FatWf s.fat s.total ∧ CountOk s ∧ HintOk s

/-- side conditions under which the callers in `file.rs`/`dir.rs` invoke the operations: `prev` is the EOC tail of a
    chain; `free` gets the head of a chain of allocated clusters; `truncate` any allocated cluster; a count found on
    a clean FAT32 volume is correct -/
def OpOk (s : FsCountState) : Op → Prop
  | .mount d rf rn => d = false → s.fat32 = true → ∀ n, (deserializeInfo rf rn).free = some n → n ≤ s.total →
      n = countFreeV s.fat s.total
  | .stats => True
  | .alloc prev => ∀ p, prev = some p → s.fat p = .eoc
  | .free c => 2 ≤ c ∧ c < s.total + 2 ∧ s.fat c ≠ .free ∧ ∀ a, s.fat a ≠ .data c
  | .truncate c => 2 ≤ c ∧ c < s.total + 2 ∧ s.fat c ≠ .free
  | .unmount => True

theorem inv_step {s s' : FsCountState} {op : Op} {out : Out} (hi : Inv s) (hok : OpOk s op)
    (h : step s op = .ok (s', out)) : Inv s' ∧ s'.total = s.total ∧ s'.fat32 = s.fat32 := by
  obtain ⟨hw, hc, hh⟩ := hi
  cases op with
  | mount d rf rn =>
    simp only [step] at h; cases h
    exact ⟨⟨hw, mount_countOk s d rf rn hok, mount_hintOk s d rf rn⟩, rfl, rfl⟩
  | stats =>
    simp only [step] at h; cases h
    obtain ⟨e1, e2, e3, e4⟩ := statsOp_fat s
    refine ⟨⟨by rw [e1, e2]; exact hw, statsOp_countOk s hc, ?_⟩, e2, e3⟩
    intro x hx; rw [e4] at hx; rw [e2]; exact hh x hx
  | alloc prev =>
    simp only [step] at h
    cases ha : allocOp s prev with
    | error e => rw [ha] at h; cases h
    | ok r =>
      obtain ⟨s1, c⟩ := r
      rw [ha] at h; cases h
      have hge : ∀ n, s.info.next = some n → 2 ≤ n := fun n hn => (hh n hn).1
      obtain ⟨hf, hfat, htot, h32, _⟩ := allocOp_ok ha
      obtain ⟨hs, h1, h2, h3⟩ := allocOp_hintStrict hge ha
      have hp' : ∀ p, prev = some p → s.fat p ≠ .free := fun p hp => by rw [hok p hp]; intro e; cases e
      refine ⟨⟨?_, (allocOp_countOk hc hge hp' ha).1, hs.hintOk⟩, htot, h32⟩
      rw [hfat, htot]
      exact fatWf_alloc hw prev c h3 h1 h2 hok
  | free c =>
    simp only [step] at h
    obtain ⟨h1, h2, h3, hhead⟩ := hok
    obtain ⟨cs, hch, hnd⟩ := chain_exists hw c
    have hmem := chain_members_ok hw hch h1 h2 h3
    obtain ⟨s1, e1, e2, e3, e4, e5, e6⟩ := freeOp_spec s c cs hch hnd (fun i hi => (hmem i hi).2.1)
    rw [e1] at h; cases h
    refine ⟨⟨?_, ?_, ?_⟩, e4, e5⟩
    · rw [e4]; exact fatWf_free hw hch hhead e2 e3
    · apply countOk_mapFree_add s s' cs.length hc e4 e6
      exact countFreeV_free_list cs s.fat s'.fat s.total hnd hmem e2 (fun i hi => by rw [e3 i hi])
    · intro x hx; rw [e6, mapFree_next] at hx; rw [e4]; exact hh x hx
  | truncate c =>
    simp only [step] at h
    obtain ⟨h1, h2, h3⟩ := hok
    obtain ⟨cs, hch, hnd⟩ := chain_exists hw c
    obtain ⟨t, rfl⟩ := chain_head hch
    have hmem := chain_members_ok hw hch h1 h2 h3
    obtain ⟨s1, e1, e2, e3, e4, e5, e6, e7⟩ := truncateOp_spec s c t hch hnd (fun i hi => (hmem i hi).2.1)
    rw [e1] at h; cases h
    have hct : c ∉ t := (List.nodup_cons.mp hnd).1
    refine ⟨⟨?_, ?_, ?_⟩, e5, e6⟩
    · rw [e5]; exact fatWf_truncate hw hch e2 e3 e4
    · apply countOk_mapFree_add s s' t.length hc e5 e7
      apply countFreeV_free_list t s.fat s'.fat s.total (List.nodup_cons.mp hnd).2
        (fun i hi => hmem i (List.mem_cons_of_mem _ hi)) e3
      intro i hi
      by_cases hic : i = c
      · subst hic
        rw [e2]
        constructor
        · intro e; cases e
        · intro e; exact absurd e h3
      · rw [e4 i hic hi]
    · intro x hx; rw [e7, mapFree_next] at hx; rw [e5]; exact hh x hx
  | unmount =>
    simp only [step] at h; cases h
    unfold unmountOp
    split
    · exact ⟨⟨hw, hc, hh⟩, rfl, rfl⟩
    · exact ⟨⟨hw, hc, hh⟩, rfl, rfl⟩

/-- every operation of the list is invoked under its side condition -/
def AllOk : FsCountState → List Op → Prop
  | _, [] => True
  | s, op :: ops => OpOk s op ∧ ∀ s' out, step s op = .ok (s', out) → AllOk s' ops

theorem inv_runOps : ∀ (ops : List Op) (s s' : FsCountState), Inv s → AllOk s ops → runOps s ops = .ok s' →
    Inv s' ∧ s'.total = s.total := by
  intro ops
  induction ops with
  | nil => intro s s' hi _ h; simp only [runOps] at h; cases h; exact ⟨hi, rfl⟩
  | cons op ops ih =>
    intro s s' hi hall h
    simp only [runOps] at h
    cases hs : step s op with
    | error e => rw [hs] at h; cases h
    | ok r =>
      obtain ⟨s1, out⟩ := r
      rw [hs] at h
      simp only at h
      obtain ⟨hi1, ht1, _⟩ := inv_step hi hall.1 hs
      obtain ⟨hi2, ht2⟩ := ih s1 s' hi1 (hall.2 s1 out hs) h
      exact ⟨hi2, by rw [ht2, ht1]⟩

end FatVerif.FsCount
