import FatVerif.Proofs.FaultSim2
/-! Faults and forward evaluation, part 3: `write_entry` on a writable directory propagates a storage error — the
    residual case of C09 (`EntryRollbackX`: an error of the roll-back run after the fault) cannot happen. -/
namespace FatVerif.DirSim
open FatVerif.FileSim DirEntryData

section generic
variable {Inv : Dev → Prop} {F G : Nat → DirStream} {N : Nat} {src room : Nat → Nat} {Extra : Nat → Prop}
  {DropPost : Img → Img → Prop}

/-- the part of `write_entry` from `find_free_entries` on, for the list `L` of long-name slots (`[]` for `.`/`..`) -/
theorem writeEntry_core_fo (IO : InvOK Inv) (W : WFam Inv F G N src room) (WG : WFam Inv G G N src room)
    (O : WOps Inv F G N src room Extra DropPost) {P : DirStream → Prop} {Q : Dev → Prop} (hFK : FaultKeepsQ Inv Q P)
    (hPF : ∀ q, q + 1 ≤ N → P (F (32 * q))) (hPG : ∀ q, q + 1 ≤ N → P (G (32 * q)))
    (hQ0 : ∀ dd o, Q dd → o ≤ 32 * N → ∃ d1, run ((F o).seek (.cur 0)) dd = (.ok (o, F o), d1))
    (L : List (List Nat)) (hQ1 : L ≠ [] → ∀ dd, Q dd → Inv dd) (hS : L ≠ [] → SeekG Inv G N) (hL : ∀ sl ∈ L, sl.length = 32 ∧ (∀ b ∈ sl, b < 256) ∧ (deserialize sl).serialize = sl)
    (raw : DirFileEntryData) (hraw : raw.WF) (units : List Nat) (d : Dev) (hd : d.fault = none) (hinv : Inv d.disarm)
    (hfit : DirSlots.findFree (srcSlots d.img src N) (L.length + 1) + (L.length + 1) ≤ N) (fs : FsState)
    {r d'} (hr : run (do
      let st0 ← findFreeEntries (F 0) (L.length + 1)
      let (startPos, st) ← Prog.finallyDrop (st0.seek (.cur 0)) (fun r =>
        match r with
        | some _ => pure ()
        | none => st0.dropBody)
      let (err, st) ← writeSlotsKeep (L.map DirEntryData.deserialize ++ [.file raw]) st
      match err with
      | some e =>
        thenDrop st (do
          freeWrittenEntries st startPos
          .fail e)
      | none =>
        thenDrop st (do
          let (endPos, st) ← st.seek (.cur 0)
          let endAbs ← st.absPos fs
          match endAbs with
          | none => .fail .panic
          | some endAbs =>
            pure ({ data := raw, lfn := units, entryPos := endAbs - 32, rangeBegin := startPos, rangeEnd := endPos } : DirEntry))) d =
      (r, d')) : FaultOutcome (resErr r) d' := by
  generalize hnum : L.length + 1 = num at hfit hr
  generalize hp : DirSlots.findFree (srcSlots d.img src N) num = p at hfit
  have hseek : ∀ d1, SameVol d.disarm d1 → ∀ o t, o ≤ 32 * N → t ≤ 32 * N → Reads ((F o).seek (.start t)) d1 (t, F t) :=
    fun d1 hv o t ho ht => O.seekStartF d.disarm hinv d1 hv o t ho ht
  -- 1. find_free_entries
  refine faultOutcome_bind' (ioSafe_propagates (findFreeEntries_ioSafe _ _)) hd hr (fun st0 d1 h1 hf1 r d' hr => ?_)
  obtain ⟨d1g, h1g, hs1g⟩ := (O.dsrc d.disarm hinv).findFreeEntries_sim hseek (O.fuel d.disarm hinv) num d.disarm
    (SameVol.refl _)
  rw [run_disarm _ d h1 hd hf1] at h1g
  cases h1g
  have hp' : DirSlots.findFree (srcSlots d.disarm.img src N) num = p := hp
  rw [hp'] at hr
  have hinv1 : Inv d1.disarm := IO.vol _ _ hinv hs1g (by
    have := run_clock _ _ _ _ h1; exact this)
  -- 2. position
  refine faultOutcome_bind' (ioSafe_propagates (by iosafe [DirStream.seek_ioSafe, DirStream.dropBody_nonFatal])) hf1 hr
    (fun ps d2 h2 hf2 r d' hr => ?_)
  obtain ⟨d2g, h2g, hs2g⟩ := O.seekCurF d1.disarm hinv1 (32 * p) (by omega)
  have h2g' := run_finallyDrop_noop (c := fun r => match r with
      | some _ => (pure () : Prog Unit)
      | none => (F (32 * p)).dropBody) h2g (fun _ => rfl)
  rw [run_disarm _ d1 h2 hf1 hf2] at h2g'
  cases h2g'
  have hinv2 : Inv d2.disarm := IO.vol _ _ hinv1 hs2g (by
    have := run_clock _ _ _ _ h2; exact this)
  -- 3. the records
  have hes : ∀ e ∈ L.map deserialize ++ [DirEntryData.file raw], e.serialize.length = 32 ∧ ∀ b ∈ e.serialize, b < 256 := by
    intro e he
    rcases List.mem_append.mp he with he | he
    · obtain ⟨sl, hsl, rfl⟩ := List.mem_map.mp he
      obtain ⟨h32, hlt, hrt⟩ := hL sl hsl
      rw [hrt]; exact ⟨h32, hlt⟩
    · simp only [List.mem_singleton] at he
      subst he
      exact ⟨DirFileEntryData.serialize_length raw hraw.name_len, DirFileEntryData.serialize_lt raw hraw⟩
  have heslen : (L.map deserialize ++ [DirEntryData.file raw]).length = num := by
    rw [List.length_append, List.length_map, List.length_singleton]; exact hnum
  have hne : L.map deserialize ++ [DirEntryData.file raw] ≠ [] := by simp
  simp only at hr
  rcases run_bind_cases hr with ⟨⟨err, st'⟩, d3, h3, hk⟩ | ⟨e3, h3, hre⟩
  · rcases writeSlotsKeep_armed IO WG hFK hPG _ F W hPF p d2 hf2 hinv2 hes (by rw [heslen]; exact hfit) _ _ h3 with
      ⟨hf3, hval, hinv3⟩ | ⟨f, hff, hfa3, hcase⟩
    · -- all slots written, no fault yet: the rest propagates
      rw [if_neg hne] at hval
      cases hval
      simp only at hk
      exact ioSafe_propagates (by iosafe [thenDrop_ioSafe, DirStream.seek_ioSafe, DirStream.absPos_ioSafe]) d3 hf3 _ _ hk
    · have hkept := fault_kept _ d3 hk hfa3
      right
      refine ⟨hkept.2, f, by rw [hkept.1, hff], fun hdrop => ?_⟩
      rcases hcase with hin | ⟨j, hj, hval, hinv3⟩
      · rw [hin] at hdrop; cases hdrop
      · cases hval
        simp only at hk
        rw [heslen] at hj
        -- the roll-back succeeds
        have hroll : ∃ d4, run (freeWrittenEntries (if j = 0 then F (32 * p) else G (32 * (p + j))) (32 * p)) d3 =
            (.ok (), d4) := by
          by_cases hj0 : j = 0
          · subst hj0
            simp only [if_true]
            obtain ⟨d4, h4⟩ := hQ0 d3 (32 * p) hinv3 (by omega)
            exact ⟨d4, freeWrittenEntries_zero _ _ _ _ h4⟩
          · have hLne : L ≠ [] := by
              intro h0
              rw [← hnum, h0] at hj
              simp only [List.length_nil] at hj
              omega
            have hinv3' := hQ1 hLne d3 hinv3
            have hcur : ∃ d4, run ((if j = 0 then F (32 * p) else G (32 * (p + j))).seek (.cur 0)) d3 =
                (.ok (32 * (p + j), if j = 0 then F (32 * p) else G (32 * (p + j))), d4) ∧ SameVol d3 d4 := by
              simp only [hj0, if_false]
              exact O.seekCurG d3 hinv3' (32 * (p + j)) (by omega)
            obtain ⟨d4, h4, _⟩ := freeWrittenEntries_ok IO WG (hS hLne) (if j = 0 then F (32 * p) else G (32 * (p + j))) p j
              (fun hj0 => by simp only [hj0, if_false]) (by omega) d3 hinv3' hcur
            exact ⟨d4, h4⟩
        obtain ⟨d4, h4⟩ := hroll
        unfold thenDrop at hk
        obtain ⟨rq, d5, hq, hres⟩ := resErr_finallyDrop (fun _ => DirStream.dropBody_nonFatal _) hk
        rw [hres]
        have hq' : run (freeWrittenEntries (if j = 0 then F (32 * p) else G (32 * (p + j))) (32 * p) >>=
            fun _ => (Prog.fail (.io f.k) : Prog DirEntry)) d3 = (rq, d5) := hq
        rw [run_bind_ok h4] at hq'
        simp only [run] at hq'
        cases hq'
        rfl
  · subst hre
    rcases writeSlotsKeep_armed IO WG hFK hPG _ F W hPF p d2 hf2 hinv2 hes (by rw [heslen]; exact hfit) _ _ h3 with
      ⟨_, hval, _⟩ | ⟨f, hff, hfa3, hcase⟩
    · cases hval
    · right
      refine ⟨hfa3, f, hff, fun hdrop => ?_⟩
      rcases hcase with hin | ⟨j, _, hval, _⟩
      · rw [hin] at hdrop; cases hdrop
      · cases hval

end generic

/-- what a writable directory must satisfy besides `WView` for the fault analysis -/
structure FaultOK {d0 : Dev} {st : DirStream} (V : WView d0 st) : Prop where
  keeps : FaultKeeps V.Inv (fun s => ∃ q, q + 1 ≤ V.N ∧ (s = V.F (32 * q) ∨ s = V.G (32 * q)))
  seekG : SeekG V.Inv V.G V.N

namespace WView
variable {d : Dev} {st : DirStream}

/-- **`write_entry(name, raw)` on a writable directory propagates a storage error**: whatever device call the fault
    hits — `find_free_entries`, the slot writes, the roll-back, the final position queries — the result is `io k`
    (unless it fired inside a destructor). The directory is described on the disarmed device. -/
theorem writeEntry_fo (V : WView d.disarm st) (hd : d.fault = none) (hOK : FaultOK V) (name : String)
    (raw : DirFileEntryData) (hdot : (name = "." || name = "..") = false) (hraw : raw.WF)
    (hfit : DirSlots.findFree (V.slots d.img) (Lfn.numParts (Names.encodeUtf16 name.toList).length + 1) +
      (Lfn.numParts (Names.encodeUtf16 name.toList).length + 1) ≤ V.N)
    {r d'} (hr : run (FatVerif.writeEntry st name raw) d = (r, d')) : FaultOutcome (resErr r) d' := by
  rw [congrArg (fun s => run (FatVerif.writeEntry s name raw) d) V.start] at hr
  unfold FatVerif.writeEntry at hr
  cases hval : Names.validateLongName name with
  | error e =>
    rw [hval] at hr
    exact ioSafe_propagates (IoSafe.fail _) d hd _ _ hr
  | ok u =>
    rw [hval] at hr
    simp only [hdot, Bool.false_eq_true, if_false] at hr
    refine faultOutcome_bind' (ioSafe_propagates IoSafe.progGetFs) hd hr (fun fs d1 h1 _ r d' hr => ?_)
    have : d1 = d := by
      have := run_getFs d
      rw [this] at h1
      exact (congrArg Prod.snd h1).symm
    subst this
    have hchk := lfnChecksum_lt raw.name
    refine writeEntry_core_fo V.io V.w V.wg V.ops hOK.keeps (fun q hq => ⟨q, hq, Or.inl rfl⟩)
      (fun q hq => ⟨q, hq, Or.inr rfl⟩)
      (fun dd o hq ho => by obtain ⟨d1, h1, _⟩ := V.ops.seekCurF dd hq o ho; exact ⟨d1, h1⟩)
      (lfnGenerate (Names.encodeUtf16 name.toList) (lfnChecksum raw.name)) (fun _ dd hq => hq) (fun _ => hOK.seekG)
      (fun sl hsl => lfnGenerate_slot _ _ hchk sl hsl) raw hraw (Names.encodeUtf16 name.toList) d1 hd V.here
      (by rw [lfnGenerate_length]; exact hfit) fs hr

/-- the same for the names `.` and `..` (one slot, nothing to roll back): only `seek(Current(0))` on the directory's
    stream has to work on the device after the fault (for a cluster-chain handle it does not touch the device) -/
theorem writeEntryDot_fo (V : WView d.disarm st) (hd : d.fault = none)
    (hcur : ∀ dd o, o ≤ 32 * V.N → ∃ d1, run ((V.F o).seek (.cur 0)) dd = (.ok (o, V.F o), d1)) (name : String)
    (raw : DirFileEntryData) (hdot : (name = "." || name = "..") = true) (hraw : raw.WF)
    (hfit : DirSlots.findFree (V.slots d.img) 1 + 1 ≤ V.N)
    {r d'} (hr : run (FatVerif.writeEntry st name raw) d = (r, d')) : FaultOutcome (resErr r) d' := by
  rw [congrArg (fun s => run (FatVerif.writeEntry s name raw) d) V.start] at hr
  unfold FatVerif.writeEntry at hr
  cases hval : Names.validateLongName name with
  | error e =>
    rw [hval] at hr
    exact ioSafe_propagates (IoSafe.fail _) d hd _ _ hr
  | ok u =>
    rw [hval] at hr
    simp only [hdot, if_true] at hr
    refine faultOutcome_bind' (ioSafe_propagates IoSafe.progGetFs) hd hr (fun fs d1 h1 _ r d' hr => ?_)
    have : d1 = d := by
      have := run_getFs d
      rw [this] at h1
      exact (congrArg Prod.snd h1).symm
    subst this
    exact writeEntry_core_fo (P := fun _ => True) V.io V.w V.wg V.ops (faultKeepsQ_true _ _) (fun _ _ => trivial)
      (fun _ _ => trivial) (fun dd o _ ho => hcur dd o ho) [] (fun h => absurd rfl h) (fun h => absurd rfl h)
      (fun sl hsl => by cases hsl) raw hraw
      (Names.encodeUtf16 name.toList) d1 hd V.here hfit fs hr

end WView

end FatVerif.DirSim
