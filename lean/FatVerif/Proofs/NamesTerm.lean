import FatVerif.Proofs.NamesFresh
/-! Termination bound of the alias retry loop (C16.3): a failing round needs nine population members that carry
    *that round's* checksum in hex; different rounds have different checksums, so the members are distinct. -/
namespace FatVerif.Names

/-! ## counting the bits 1..9 of a bitmap -/

def b2n (b : Bool) : Nat := if b then 1 else 0

def nbits (bm : Nat) : Nat :=
  b2n (bm.testBit 1) + b2n (bm.testBit 2) + b2n (bm.testBit 3) + b2n (bm.testBit 4) + b2n (bm.testBit 5) +
  b2n (bm.testBit 6) + b2n (bm.testBit 7) + b2n (bm.testBit 8) + b2n (bm.testBit 9)

theorem nbits_zero : nbits 0 = 0 := by simp [nbits, b2n]

theorem b2n_or_le (a b : Bool) : b2n (a || b) ≤ b2n a + b2n b := by
  cases a <;> cases b <;> simp [b2n]

theorem nbits_setBit (bm d : Nat) : nbits (setBit bm d) ≤ nbits bm + 1 := by
  have key : b2n (decide (d = 1)) + b2n (decide (d = 2)) + b2n (decide (d = 3)) + b2n (decide (d = 4)) +
      b2n (decide (d = 5)) + b2n (decide (d = 6)) + b2n (decide (d = 7)) + b2n (decide (d = 8)) +
      b2n (decide (d = 9)) ≤ 1 := by
    have : d = 1 ∨ d = 2 ∨ d = 3 ∨ d = 4 ∨ d = 5 ∨ d = 6 ∨ d = 7 ∨ d = 8 ∨ d = 9 ∨ (d = 0 ∨ 9 < d) := by omega
    rcases this with h | h | h | h | h | h | h | h | h | h
    all_goals first
      | (subst h; simp [b2n])
      | (have e : ∀ k, 1 ≤ k → k ≤ 9 → decide (d = k) = false := by intro k _ _; simp; omega
         simp [e, b2n])
  unfold nbits
  simp only [testBit_setBit]
  have h1 := b2n_or_le (bm.testBit 1) (decide (d = 1))
  have h2 := b2n_or_le (bm.testBit 2) (decide (d = 2))
  have h3 := b2n_or_le (bm.testBit 3) (decide (d = 3))
  have h4 := b2n_or_le (bm.testBit 4) (decide (d = 4))
  have h5 := b2n_or_le (bm.testBit 5) (decide (d = 5))
  have h6 := b2n_or_le (bm.testBit 6) (decide (d = 6))
  have h7 := b2n_or_le (bm.testBit 7) (decide (d = 7))
  have h8 := b2n_or_le (bm.testBit 8) (decide (d = 8))
  have h9 := b2n_or_le (bm.testBit 9) (decide (d = 9))
  omega

theorem nbits_full {bm : Nat} (h : ∀ i, 1 ≤ i → i ≤ 9 → bm.testBit i = true) : nbits bm = 9 := by
  simp [nbits, b2n, h]

/-! ## which checksum a population member blocks -/

/-- the checksum for which `e` can set a bit of `prefix_chksum_bitmap` (depends on the static fields only) -/
def hashKey (g : Gen) (e : List Nat) : Option Nat :=
  if byteAt e (shortPrefixLen g + 4) = 126 ∧ (digit10 (byteAt e (shortPrefixLen g + 4 + 1))).isSome = true ∧
      prefixExtMatch g e (shortPrefixLen g) = true
  then fromStrRadix16 ((e.drop (shortPrefixLen g)).take 4) else none

theorem hashKey_static {g g' : Gen} (h : SameStatic g g') (e : List Nat) : hashKey g' e = hashKey g e := by
  simp [hashKey, shortPrefixLen, prefixExtMatch, h.1, h.2.1]

theorem checkShort_nbits (g : Gen) (e : List Nat) :
    nbits (checkShort g e).prefixChksumBitmap ≤
      nbits g.prefixChksumBitmap + b2n (hashKey g e == some g.chksum) := by
  unfold checkShort hashKey
  by_cases h1 : byteAt e (shortPrefixLen g + 4) = 126
  · simp only [h1, ne_eq, not_true_eq_false, if_false, true_and]
    cases h2 : digit10 (byteAt e (shortPrefixLen g + 4 + 1)) with
    | none => simp
    | some d =>
      simp only [Option.isSome_some, true_and]
      by_cases h3 : prefixExtMatch g e (shortPrefixLen g) = true
      · simp only [h3, if_true]
        by_cases h4 : fromStrRadix16 ((e.drop (shortPrefixLen g)).take 4) = some g.chksum
        · simp only [h4, if_true, beq_self_eq_true, b2n]; exact nbits_setBit _ _
        · simp [h4]
      · simp [h3]
  · simp [h1]

theorem addExisting_nbits (g : Gen) (e : List Nat) :
    nbits (addExisting g e).prefixChksumBitmap ≤
      nbits g.prefixChksumBitmap + b2n (hashKey g e == some g.chksum) := by
  unfold addExisting
  have s1 := markExact_static g e
  have s2 := checkLong_static (markExact g e) e
  have s : Same g (checkLong (markExact g e) e) := Same.trans s1 s2
  have hb : (checkLong (markExact g e) e).prefixChksumBitmap = g.prefixChksumBitmap := by
    have a : (markExact g e).prefixChksumBitmap = g.prefixChksumBitmap := by unfold markExact; split <;> rfl
    have b : (checkLong (markExact g e) e).prefixChksumBitmap = (markExact g e).prefixChksumBitmap := by
      unfold checkLong; repeat' split
      all_goals rfl
    rw [b, a]
  have := checkShort_nbits (checkLong (markExact g e) e) e
  rw [hb, hashKey_static s.1, s.2] at this
  exact this

def cnt (g : Gen) (ex : List (List Nat)) (c : Nat) : Nat := ex.countP (fun e => hashKey g e == some c)

theorem addAll_nbits (g : Gen) (ex : List (List Nat)) :
    nbits (addAll g ex).prefixChksumBitmap ≤ nbits g.prefixChksumBitmap + cnt g ex g.chksum := by
  suffices ∀ g1, Same g g1 →
      nbits (addAll g1 ex).prefixChksumBitmap ≤ nbits g1.prefixChksumBitmap + cnt g ex g.chksum from
    this g (Same.refl g)
  unfold cnt
  induction ex with
  | nil => intro g1 _; simp [addAll]
  | cons e es ih =>
    intro g1 hs
    simp only [addAll, List.foldl_cons, List.countP_cons]
    have h1 := addExisting_nbits g1 e
    rw [hashKey_static hs.1, hs.2] at h1
    have h2 := ih _ (hs.trans (addExisting_same g1 e))
    simp only [addAll] at h2
    simp only [b2n] at h1
    omega

/-- a failing round: nine members of the population carry this round's checksum -/
theorem round_fails_cnt {g : Gen} (hz : g.prefixChksumBitmap = 0) (ex : List (List Nat)) {e : Err}
    (hf : generate (addAll g ex) = .error e) : 9 ≤ cnt g ex g.chksum := by
  have hfull : nbits (addAll g ex).prefixChksumBitmap = 9 := by
    apply nbits_full
    intro i h1 h9
    unfold generate at hf
    split at hf
    · cases hf
    · split at hf
      · cases hf
      · split at hf
        · cases hf
        · rename_i hn
          have := List.find?_eq_none.1 hn i (by simp; omega)
          rw [bitClear_eq] at this
          simpa using this
  have := addAll_nbits g ex
  rw [hz, nbits_zero, hfull] at this
  omega

/-! ## distinct checksums block distinct members -/

def sumCnt (g : Gen) (ex : List (List Nat)) : List Nat → Nat
  | [] => 0
  | c :: cs => cnt g ex c + sumCnt g ex cs

theorem sumCnt_filter (g : Gen) (ex : List (List Nat)) (c : Nat) (cs : List Nat) (hc : c ∉ cs) :
    sumCnt g (ex.filter (fun e => !(hashKey g e == some c))) cs = sumCnt g ex cs := by
  induction cs with
  | nil => rfl
  | cons d ds ih =>
    have hd : d ≠ c := fun h => hc (by simp [h])
    have hds : c ∉ ds := fun h => hc (by simp [h])
    simp only [sumCnt, ih hds, cnt, List.countP_filter]
    congr 1
    apply List.countP_congr
    intro e _
    by_cases h : hashKey g e = some d
    · simp [h, hd]
    · simp [h]

theorem sumCnt_le (g : Gen) (cs : List Nat) (hn : cs.Nodup) : ∀ ex : List (List Nat), sumCnt g ex cs ≤ ex.length := by
  induction cs with
  | nil => intro ex; simp [sumCnt]
  | cons c cs ih =>
    intro ex
    have hc : c ∉ cs := (List.nodup_cons.1 hn).1
    have h1 := ih (List.nodup_cons.1 hn).2 (ex.filter (fun e => !(hashKey g e == some c)))
    rw [sumCnt_filter g ex c cs hc] at h1
    have h2 := List.length_eq_countP_add_countP (fun e => hashKey g e == some c) (l := ex)
    simp only [sumCnt, cnt]
    rw [← List.countP_eq_length_filter] at h1
    have h3 : List.countP (fun e => !(hashKey g e == some c)) ex =
        List.countP (fun a => decide ¬(hashKey g a == some c) = true) ex := by
      apply List.countP_congr; intro e _; simp
    omega

/-- the checksums of `m` consecutive rounds -/
def chkSeq : Nat → Nat → List Nat
  | _, 0 => []
  | c, m + 1 => c :: chkSeq ((c + 1) % 65536) m

theorem mem_chkSeq {x c m : Nat} (hc : c < 65536) (h : x ∈ chkSeq c m) : ∃ j, j < m ∧ x = (c + j) % 65536 := by
  induction m generalizing c with
  | zero => simp [chkSeq] at h
  | succ m ih =>
    simp only [chkSeq, List.mem_cons] at h
    rcases h with rfl | h
    · exact ⟨0, by omega, by omega⟩
    · obtain ⟨j, hj, rfl⟩ := ih (by omega) h
      exact ⟨j + 1, by omega, by omega⟩

theorem chkSeq_nodup {c m : Nat} (hc : c < 65536) (hm : m ≤ 65536) : (chkSeq c m).Nodup := by
  induction m generalizing c with
  | zero => simp [chkSeq]
  | succ m ih =>
    simp only [chkSeq, List.nodup_cons]
    refine ⟨?_, ih (by omega) (by omega)⟩
    intro h
    obtain ⟨j, hj, e⟩ := mem_chkSeq (by omega) h
    omega

/-! ## the loop -/

theorem nextIteration_addAll_wf {g : Gen} (hw : GenWF g) (ex : List (List Nat)) :
    GenWF (nextIteration (addAll g ex)) := (hw.addAll ex).nextIteration

theorem loop_none_count (ex : List (List Nat)) :
    ∀ (fuel i : Nat) (g : Gen), g.prefixChksumBitmap = 0 → g.chksum < 65536 →
      generateLoop ex fuel i g = none → 9 * fuel ≤ sumCnt g ex (chkSeq g.chksum fuel) := by
  intro fuel
  induction fuel with
  | zero => intro i g _ _ _; simp
  | succ fuel ih =>
    intro i g hz hc hl
    unfold generateLoop at hl
    split at hl
    · cases hl
    · rename_i e hf
      have h9 := round_fails_cnt hz ex hf
      have hs := addAll_same g ex
      have hst : SameStatic g (nextIteration (addAll g ex)) := hs.1.trans (nextIteration_static _)
      have hck : (nextIteration (addAll g ex)).chksum = (g.chksum + 1) % 65536 := by
        simp only [nextIteration, hs.2]
      have := ih (i + 1) (nextIteration (addAll g ex)) rfl (by rw [hck]; omega) hl
      rw [hck] at this
      have hk : sumCnt (nextIteration (addAll g ex)) ex (chkSeq ((g.chksum + 1) % 65536) fuel) =
          sumCnt g ex (chkSeq ((g.chksum + 1) % 65536) fuel) := by
        generalize chkSeq ((g.chksum + 1) % 65536) fuel = l
        induction l with
        | nil => rfl
        | cons c cs ih2 =>
          simp only [sumCnt, ih2, cnt]
          congr 1
          apply List.countP_congr
          intro e _; rw [hashKey_static hst]
      rw [hk] at this
      simp only [chkSeq, sumCnt]
      omega

theorem loop_fuel_mono (ex : List (List Nat)) {r : List Nat × Nat} :
    ∀ (fuel d i : Nat) (g : Gen), generateLoop ex fuel i g = some r → generateLoop ex (fuel + d) i g = some r := by
  intro fuel
  induction fuel with
  | zero => intro d i g h; simp [generateLoop] at h
  | succ fuel ih =>
    intro d i g h
    have : fuel + 1 + d = (fuel + d) + 1 := by omega
    rw [this]
    unfold generateLoop at h ⊢
    split
    · rename_i n hn; rw [hn] at h; exact h
    · rename_i e he; rw [he] at h; exact ih d _ _ h

theorem loop_iter_bound (ex : List (List Nat)) {a : List Nat} {k : Nat} :
    ∀ (fuel i : Nat) (g : Gen), generateLoop ex fuel i g = some (a, k) → i ≤ k ∧ k < i + fuel := by
  intro fuel
  induction fuel with
  | zero => intro i g h; simp [generateLoop] at h
  | succ fuel ih =>
    intro i g h
    unfold generateLoop at h
    split at h
    · cases h; omega
    · have := ih _ _ h; omega

/-- C16.3: with fewer than 9·65536 entries, `n/9 + 1` rounds always suffice -/
theorem loop_terminates {g : Gen} (hz : g.prefixChksumBitmap = 0) (hc : g.chksum < 65536)
    (ex : List (List Nat)) (hn : ex.length < 9 * 65536) (fuel : Nat) (hfuel : ex.length / 9 < fuel) :
    ∃ a k, generateLoop ex fuel 0 g = some (a, k) ∧ k ≤ ex.length / 9 := by
  have hsome : ∃ r, generateLoop ex (ex.length / 9 + 1) 0 g = some r := by
    cases h : generateLoop ex (ex.length / 9 + 1) 0 g with
    | some r => exact ⟨r, rfl⟩
    | none =>
      have h1 := loop_none_count ex _ 0 g hz hc h
      have h2 := sumCnt_le g _ (chkSeq_nodup (m := ex.length / 9 + 1) hc (by omega)) ex
      omega
  obtain ⟨⟨a, k⟩, hr⟩ := hsome
  have hb := loop_iter_bound ex _ _ _ hr
  have := loop_fuel_mono ex _ (fuel - (ex.length / 9 + 1)) _ _ hr
  have e : ex.length / 9 + 1 + (fuel - (ex.length / 9 + 1)) = fuel := by omega
  rw [e] at this
  exact ⟨a, k, this, by omega⟩

end FatVerif.Names
