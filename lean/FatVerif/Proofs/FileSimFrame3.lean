import FatVerif.Proofs.FileSimFrame2
/-!
# FileSim / frame, part 3: the summaries compose — the loops `read_exact` / `write_all`

`OpSummary.trans`, then `execH_summary` for every operation of a history (single calls and loops).
-/
namespace FatVerif.FileSim
open FatVerif FatVerif.Fat

theorem OpSummary.refl (f : FileH) (d : Dev) : OpSummary f d f d :=
  OpSummary.of_sameStore (SameStore.refl d) rfl

/-- two consecutive operations on the same handle: what the second may touch, the first might have touched already -/
theorem OpSummary.trans {f f1 f2 : FileH} {d d1 d2 : Dev} (h1 : OpSummary f d f1 d1) (h2 : OpSummary f1 d1 f2 d2)
    (hrep : FileRep d.fs d.img f) (hrep1 : FileRep d1.fs d1.img f1) : OpSummary f d f2 d2 := by
  have hnot : ∀ x, x ∉ fileChain d.fs d.img f → tabView d.fs d.img x ≠ .free → x ∉ fileChain d1.fs d1.img f1 :=
    fun x hx hfree hc => by
      rcases h1.chain x hc with h | h
      · exact hx h
      · exact hfree h
  refine ⟨h1.step.trans h2.step, ?_, ?_, ?_, ?_⟩
  · intro x hx hfree
    have e1 := h1.view x hx hfree
    rw [h2.view x (hnot x hx hfree) (by rw [e1]; exact hfree), e1]
  · intro x hx
    rcases h2.chain x hx with h | h
    · exact h1.chain x h
    · by_cases hc : x ∈ fileChain d.fs d.img f
      · exact Or.inl hc
      · by_cases hfree : tabView d.fs d.img x = .free
        · exact Or.inr hfree
        · rw [h1.view x hc hfree] at h
          exact absurd h hfree
  · intro q hq
    by_cases h : d1.img.getByte q = d.img.getByte q
    · exact mayTouchData_mono h1 hrep hrep1 (h2.diff q (by rw [h]; exact hq))
    · exact h1.diff q h
  · exact h1.trace.trans ((h2.trace.mono (fun c hc => ownOrFree_mono h1 hrep1 hc)
      (fun c hc => ownOrFree_mono h1 hrep1 hc)).frame h1.step.geom.symm)

theorem readxH_summary : ∀ (fuel : Nat) (h : FileH) (d : Dev) (need : Nat) (acc : List Nat), SimInv h d →
    OpSummary h d (readxH fuel h d need acc).2.1 (readxH fuel h d need acc).2.2
  | 0, h, d, _, _, _ => OpSummary.refl h d
  | fuel + 1, h, d, need, acc, hinv => by
    by_cases hn : need = 0
    · simp only [readxH, hn, if_true]
      exact OpSummary.refl h d
    · have hb : (HOp.read need).BytesOk := fun bs e => by rcases e with e | e <;> cases e
      have hsum := execH_summary_prim (.read need) (by exact True.intro) h d hinv hb
      have hstep := (execH_refines_prim (.read need) (by exact True.intro) h d hinv hb).1
      rw [readxH]
      simp only [hn, if_false]
      simp only [execH] at hsum hstep
      generalize run (h.read need) d = r at hsum hstep ⊢
      obtain ⟨(e | ⟨bs, h'⟩), d'⟩ := r
      · exact hsum
      · simp only at hsum hstep ⊢
        by_cases hl : bs.length = 0
        · simp only [hl, if_true]; exact hsum
        · simp only [hl, if_false]
          exact hsum.trans (readxH_summary fuel h' d' (need - bs.length) (acc ++ bs) hstep) hinv.rep hstep.rep

theorem writeallH_summary : ∀ (fuel : Nat) (h : FileH) (d : Dev) (bs : List Nat), SimInv h d → (∀ x ∈ bs, x < 256) →
    OpSummary h d (writeallH fuel h d bs).2.1 (writeallH fuel h d bs).2.2
  | 0, h, d, _, _, _ => OpSummary.refl h d
  | fuel + 1, h, d, bs, hinv, hbytes => by
    by_cases hn : bs.length = 0
    · simp only [writeallH, hn, if_true]
      exact OpSummary.refl h d
    · have hb : (HOp.write bs).BytesOk := fun bs' e => by rcases e with e | e <;> cases e; exact hbytes
      have hsum := execH_summary_prim (.write bs) (by exact True.intro) h d hinv hb
      have hstep := (execH_refines_prim (.write bs) (by exact True.intro) h d hinv hb).1
      rw [writeallH]
      simp only [hn, if_false]
      simp only [execH] at hsum hstep
      generalize run (h.write bs) d = r at hsum hstep ⊢
      obtain ⟨(e | ⟨k, h'⟩), d'⟩ := r
      · exact hsum
      · simp only at hsum hstep ⊢
        by_cases hk : k = 0
        · simp only [hk, if_true]; exact hsum
        · simp only [hk, if_false]
          exact hsum.trans (writeallH_summary fuel h' d' (bs.drop k) hstep
            (fun x hx => hbytes x (List.mem_of_mem_drop hx))) hinv.rep hstep.rep

/-- every operation of a history on `f` (single call or loop): device step, which FAT entries keep their decoded value,
    where the new chain comes from, where the image may differ -/
theorem execH_summary (op : HOp) (f : FileH) (d : Dev) (h : SimInv f d) (hok : op.BytesOk) :
    OpSummary f d (execH op f d).2.1 (execH op f d).2.2 := by
  cases op with
  | read n => exact execH_summary_prim _ (by exact True.intro) f d h hok
  | seek p => exact execH_summary_prim _ (by exact True.intro) f d h hok
  | write bs => exact execH_summary_prim _ (by exact True.intro) f d h hok
  | truncate => exact execH_summary_prim _ (by exact True.intro) f d h hok
  | readExact n => exact readxH_summary (n + 1) f d n [] h
  | writeAll bs => exact writeallH_summary (bs.length + 1) f d bs h (hok bs (Or.inr rfl))

end FatVerif.FileSim
