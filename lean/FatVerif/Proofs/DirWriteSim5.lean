import FatVerif.Proofs.DirWriteSim4
/-! Directory WRITES, part 5: `create_sfn_entry` and `create_file(name)` in the fixed root directory, end to end:
    `check_for_existence` (alias choice) → `create_sfn_entry` (time stamps from the clock) → `write_entry`. -/
namespace FatVerif.DirSim
open FatVerif.FileSim DirEntryData DirAlias

/-- the short record `create_sfn_entry(sn, attrs, first)` builds at clock value `t` -/
def sfnAt (fs : FsState) (t : Nat) (sn : List Nat) (attrs : Nat) (first : Option Nat) : DirFileEntryData :=
  ((((DirFileEntryData.new sn attrs).setFirstCluster first fs.fatType).setCreated (clockDateTime t)).setAccessed
    (clockDateTime t).date).setModified (clockDateTime t)

theorem run_createSfnEntry (sn : List Nat) (attrs : Nat) (first : Option Nat) (d : Dev) :
    run (createSfnEntry sn attrs first) d = (.ok (sfnAt d.fs d.clock sn attrs first), d) := rfl

theorem clockDate_day (t : Nat) : (clockDate t).day < 65536 := by
  simp only [clockDate]; omega

theorem clockTime_sec (t : Nat) : (clockTime t).sec < 131072 := by
  simp only [clockTime]; omega

theorem sfnAt_wf (fs : FsState) (t : Nat) (sn : List Nat) (attrs : Nat) (first : Option Nat) (hl : sn.length = 11)
    (hb : ∀ b ∈ sn, b < 256) (ha : attrs < 64) : (sfnAt fs t sn attrs first).WF := by
  unfold sfnAt
  have h0 : (DirFileEntryData.new sn attrs).WF := by
    have := DirFileEntryData.WF.default
    exact { this with name_len := hl, name_lt := hb, attrs_lt := ha }
  exact (((h0.setFirstCluster first fs.fatType).setCreated _ (clockDate_day t) (clockTime_sec t)).setAccessed _
    (clockDate_day t)).setModified _ (clockDate_day t) (clockTime_sec t)

/-- no program changes the clock of the device (it advances between API operations) -/
theorem run_clock {α} (p : Prog α) (d : Dev) (r : Except Err α) (d' : Dev) (hr : run p d = (r, d')) :
    d'.clock = d.clock := by
  have hR : RelOK (fun a b : Dev => b.clock = a.clock) :=
    ⟨fun _ => rfl, fun _ _ _ h1 h2 => h2.trans h1, fun _ _ => rfl⟩
  refine (steps_of_ops hR ?_ p).out d r d' hr
  intro o d r d' h
  have hcnt : ∀ k, (d.count k).clock = d.clock := by
    intro k; unfold Dev.count; cases k <;> rfl
  have dc : ∀ {β} (k : CallKind) (act : Dev → Except Err β × Dev),
      (∀ d0 r d1, act d0 = (r, d1) → d1.clock = d0.clock) →
      ∀ {r d'}, devCall k d act = (r, d') → d'.clock = d.clock := by
    intro β k act hact r d' h
    unfold devCall devCallCore at h
    split at h
    · cases h; exact hcnt k
    · exact (hact _ _ _ h).trans (hcnt k)
  cases o with
  | write bs => simp only [stepOp] at h; exact dc _ _ (by intro d0 r d1 h; cases h; rfl) h
  | read n => simp only [stepOp] at h; exact dc _ _ (by intro d0 r d1 h; cases h; rfl) h
  | seek p =>
    simp only [stepOp] at h
    refine dc _ _ ?_ h
    intro d0 r d1 h
    cases p with
    | start n => cases h; rfl
    | cur x => simp only at h; split at h <;> cases h <;> rfl
    | fromEnd x => simp only at h; split at h <;> cases h <;> rfl
  | flush => simp only [stepOp] at h; exact dc _ _ (by intro d0 r d1 h; cases h; rfl) h
  | now => simp only [stepOp] at h; cases h; rfl
  | today => simp only [stepOp] at h; cases h; rfl
  | getFs => simp only [stepOp] at h; cases h; rfl
  | setFs fs => simp only [stepOp] at h; cases h; rfl

theorem legalSfnBytes_lt : ∀ x ∈ Names.legalSfnBytes, x < 256 := by decide

theorem canon_lt {a : List Nat} (h : Canon a) : ∀ b ∈ a, b < 256 := by
  obtain ⟨b, e, rfl, _, _, lb, le⟩ := h
  intro x hx
  simp only [Names.padTo, List.mem_append, List.mem_replicate] at hx
  rcases hx with (h1 | h1) | (h1 | h1)
  · exact legalSfnBytes_lt x (lb x h1)
  · omega
  · exact legalSfnBytes_lt x (le x h1)
  · omega


theorem sfnAt_isDir_false (fs : FsState) (t : Nat) (sn : List Nat) (first : Option Nat) :
    (sfnAt fs t sn 0 first).isDir = false := by
  simp only [sfnAt, DirFileEntryData.isDir, DirFileEntryData.setModified, DirFileEntryData.setAccessed,
    DirFileEntryData.setCreated, DirFileEntryData.setFirstCluster, DirFileEntryData.new]
  decide

section root
variable (s : DiskSlice) (N : Nat) (hN : s.size = 32 * N) (hv : s.viaFs = true) (hm : s.mirrors = 1)

include hN hv hm in
/-- **`create_file(name)` in the fixed root directory, end to end**, for a single-component path whose name is free:
    the alias is the one `DirAlias.checkForExistenceL` chooses from the root slots of the image, the short record is
    stamped from the clock, and the root slots afterwards are `DirSlots.writeEntry` of those before -/
theorem root_createFile (hB : 0x42 ≤ s.beginOff) (env : Env) (path name : String)
    (hsp : Names.splitPath path = (name, none)) (hdot : (name = "." || name = "..") = false)
    (hval : Names.validateLongName name = .ok ()) (d : Dev) (hfa : d.failAt = none)
    (hdev : s.beginOff + s.size ≤ d.img.size) (hwf : d.img.WF) (hfuel : N < dirFuel d.fs) (ha : d.fs.lfnAlloc = true)
    (a : List Nat)
    (hchk : DirAlias.checkForExistenceL env.upper (rootSlots d.img s) name (some false) 70000 = .ok (.alias a))
    (hfit : DirSlots.findFree (rootSlots d.img s) (Lfn.numParts (Names.encodeUtf16 name.toList).length + 1) +
      (Lfn.numParts (Names.encodeUtf16 name.toList).length + 1) ≤ N) (fuel : Nat) :
    ∃ (d' : Dev) (e : DirEntry), run (createFile env (fuel + 1) (.root (sliceAt s 0)) path) d =
        (.ok (FileH.new (e.firstCluster d.fs) (some e.editor)), d') ∧
      e.data = sfnAt d.fs d.clock a 0 none ∧ e.lfn = Names.encodeUtf16 name.toList ∧
      VolStep d d' ∧ d'.fs.curDirty = true ∧
      rootSlots d'.img s = DirSlots.writeEntry (rootSlots d.img s) (Names.encodeUtf16 name.toList)
        (sfnAt d.fs d.clock a 0 none).serialize ∧
      FrameOut s d d' := by
  have D := root_dirSrc s N hN d hfa hdev
  have hce := D.checkForExistence_sim hfuel ha env name (some false) d (SameVol.refl d)
  rw [srcSlots_eq_rootSlots s N hN, hchk] at hce
  obtain ⟨d1, h1, hs1⟩ := hce
  obtain ⟨hcan, hl11, _⟩ := C16dir.dir_alias_canon env.upper (rootSlots d.img s) name (some false) 70000 a hchk
  have hrawwf := sfnAt_wf d.fs d.clock a 0 none hl11 (canon_lt hcan) (by omega)
  obtain ⟨d2, h2, hs2, hd2, hsl2, hfr2⟩ := root_writeEntry s N hN hv hm hB name (sfnAt d.fs d.clock a 0 none) hval hdot
    hrawwf d1 (by rw [hs1.failAt]; exact hfa) (by rw [hs1.img]; exact hdev) (by rw [hs1.img]; exact hwf)
    (by rw [hs1.fs]; exact hfuel) (by rw [hs1.img]; exact hfit)
  rw [hs1.img] at h2 hsl2
  generalize hnum : Lfn.numParts (Names.encodeUtf16 name.toList).length + 1 = num at h2
  generalize hp : DirSlots.findFree (rootSlots d.img s) num = p at h2
  refine ⟨d2, ⟨sfnAt d.fs d.clock a 0 none, Names.encodeUtf16 name.toList, s.beginOff + 32 * (p + num) - 32, 32 * p,
    32 * (p + num)⟩, ?_, rfl, rfl, (VolStep.of_sameVol hs1).trans hs2, hd2, hsl2, fun q hq hn => by
    rw [hfr2 q hq hn, hs1.img]⟩
  unfold createFile
  rw [run_bind_ok (run_getFs d), hsp]
  simp only [hdot, Bool.false_eq_true, if_false]
  rw [run_bind_ok h1]
  simp only [liftEOA]
  rw [run_bind_ok (run_createSfnEntry a 0 none d1), hs1.fs, run_clock _ _ _ _ h1, run_bind_ok h2]
  unfold DirEntry.toFile
  have : (⟨sfnAt d.fs d.clock a 0 none, Names.encodeUtf16 name.toList, s.beginOff + 32 * (p + num) - 32, 32 * p,
      32 * (p + num)⟩ : DirEntry).isDir = false := sfnAt_isDir_false d.fs d.clock a none
  rw [this]
  rfl

end root

end FatVerif.DirSim
