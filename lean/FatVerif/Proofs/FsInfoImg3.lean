import FatVerif.Proofs.FsInfoImg2
/-! C05 at image level, part 3: `unmount_internal` / `unmount` — the FS-info sector of the image afterwards. -/
namespace FatVerif.FsInfoImg
open FatVerif FatVerif.Fat FatVerif.FileSim

/-- `set_dirty_flag`, whatever its outcome: no byte other than the status byte changes, the geometry is kept -/
theorem setDirtyFlag_img (b : Bool) (d : Dev) (hwf : d.img.WF) {r : Except Err Unit} {d' : Dev}
    (hr : run (setDirtyFlag b) d = (r, d')) :
    d'.img.WF ∧ SameGeom d.fs d'.fs ∧ ∀ q, q ≠ statusOff d.fs → d'.img.getByte q = d.img.getByte q := by
  obtain ⟨hg, items', hl', hall⟩ := setDirtyFlag_all b d hr
  obtain ⟨hwf', items, hl, hb⟩ := run_img_eq_replay _ d r d' hr hwf
  have hitems : items = items' := List.append_cancel_right (hl.symm.trans hl')
  subst hitems
  refine ⟨hwf', hg, fun q hq => ?_⟩
  rw [hb q]
  apply replay_outside
  intro off bs hm
  obtain ⟨it, hit, hn⟩ := List.mem_map.mp hm
  cases it with
  | flush => cases hn
  | write o c =>
    simp only [LogItem.norm, LogItem.write.injEq] at hn
    obtain ⟨rfl, rfl⟩ := hn
    have := hall _ _ hit
    unfold StatusRec at this
    rw [List.length_map]
    omega

/-- a successful `unmount_internal`: the FS-info sector holds the serialised in-memory FS-info if it was dirty on a
    FAT32 volume (the status byte lies outside that sector), otherwise its bytes are untouched -/
theorem unmountInternal_img (d : Dev) (hwf : d.img.WF)
    (hso : statusOff d.fs + 1 ≤ d.fs.fsInfoSector * d.fs.bps ∨ d.fs.fsInfoSector * d.fs.bps + 512 ≤ statusOff d.fs)
    {u : Unit} {d' : Dev} (hr : run unmountInternal d = (.ok u, d')) :
    d'.img.WF ∧ SameGeom d.fs d'.fs ∧ d'.fs.fsInfo = { d.fs.fsInfo with dirty := d.fs.fsInfo.dirty && !(d.fs.fatType == .fat32) } ∧
    ((d.fs.fatType = .fat32 ∧ d.fs.fsInfo.dirty = true) →
      d'.img.read (d.fs.fsInfoSector * d.fs.bps) 512 = fsInfoBytes d.fs.fsInfo) ∧
    (¬ (d.fs.fatType = .fat32 ∧ d.fs.fsInfo.dirty = true) →
      ∀ q, q ≠ statusOff d.fs → d'.img.getByte q = d.img.getByte q) ∧
    (∀ q, ¬ (d.fs.fsInfoSector * d.fs.bps ≤ q ∧ q < d.fs.fsInfoSector * d.fs.bps + 512) → q ≠ statusOff d.fs →
      d'.img.getByte q = d.img.getByte q) := by
  have hr' : run (Prog.bind flushFsInfo (fun _ => setDirtyFlag false)) d = (.ok u, d') := hr
  rcases run_bind_cases hr' with ⟨u1, d1, h1, h2⟩ | ⟨e, _, he⟩
  rotate_left
  · cases he
  obtain ⟨hwf1, hfs1, hyes, hno⟩ := flushFsInfo_img d hwf h1
  obtain ⟨hwf2, hg2, hb2⟩ := setDirtyFlag_img false d1 hwf1 h2
  have hsp := setDirtyFlag_spec false d1 h2
  have hgeo1 : SameGeom d.fs d1.fs := by rw [hfs1]; rfl
  have hst1 : statusOff d1.fs = statusOff d.fs := statusOff_geom hgeo1
  have hinfo2 : d'.fs.fsInfo = d1.fs.fsInfo := by rw [hsp.1]
  refine ⟨hwf2, hgeo1.trans hg2, ?_, ?_, ?_, ?_⟩
  · rw [hinfo2]
    by_cases hc : d.fs.fatType = .fat32 ∧ d.fs.fsInfo.dirty = true
    · rw [(hyes hc).2.2, hc.1, hc.2]; rfl
    · rw [hno hc]
      have : (d.fs.fsInfo.dirty && !(d.fs.fatType == .fat32)) = d.fs.fsInfo.dirty := by
        cases hd : d.fs.fsInfo.dirty with
        | false => rfl
        | true =>
          have : d.fs.fatType ≠ .fat32 := fun h => hc ⟨h, hd⟩
          cases hft : d.fs.fatType with
          | fat12 => rfl
          | fat16 => rfl
          | fat32 => exact absurd hft this
      rw [this]
  · intro hc
    obtain ⟨hrd, _, _⟩ := hyes hc
    rw [← hrd]
    unfold Img.read
    apply List.map_congr_left
    intro k hk
    have hk' := List.mem_range.mp hk
    apply hb2
    rw [hst1]; omega
  · intro hc q hq
    rw [hb2 q (by rw [hst1]; exact hq), hno hc]
  · intro q hq hqs
    rw [hb2 q (by rw [hst1]; exact hqs)]
    by_cases hc : d.fs.fatType = .fat32 ∧ d.fs.fsInfo.dirty = true
    · exact (hyes hc).2.1 q hq
    · rw [hno hc]

/-- inversion of a successful scope exit -/
theorem run_finallyDrop_ok {α} {p : Prog α} {c : Option α → Prog Unit} {d : Dev} {a : α} {dF : Dev}
    (hr : run (Prog.finallyDrop p c) d = (.ok a, dF)) :
    ∃ d1 r2 d2, run p d = (.ok a, d1) ∧ run (c (some a)) { d1 with dropDepth := d1.dropDepth + 1 } = (r2, d2) ∧
      dF = { d2 with dropDepth := d2.dropDepth - 1 } := by
  simp only [run] at hr
  rcases hq : run p d with ⟨rp, d1⟩
  rw [hq] at hr
  cases rp with
  | error e =>
    simp only at hr
    split at hr
    · cases hr
    · split at hr
      · split at hr <;> cases hr
      · cases hr
  | ok b =>
    simp only at hr
    rcases hq2 : run (c (some b)) { d1 with dropDepth := d1.dropDepth + 1 } with ⟨r2, d2⟩
    rw [hq2] at hr
    cases r2 with
    | ok v => simp only at hr; cases hr; exact ⟨d1, _, d2, rfl, hq2, rfl⟩
    | error e' =>
      simp only at hr
      split at hr
      · cases hr
      · cases hr; exact ⟨d1, _, d2, rfl, hq2, rfl⟩

/-- **a successful `unmount`** (`unmount_internal`, then the destructor's second `unmount_internal`): the FS-info sector of
    the image is the serialised in-memory FS-info if that was dirty on a FAT32 volume; otherwise (not dirty, or
    FAT12/16) no byte other than the status byte has changed -/
theorem unmount_img (d : Dev) (hwf : d.img.WF)
    (hso : statusOff d.fs + 1 ≤ d.fs.fsInfoSector * d.fs.bps ∨ d.fs.fsInfoSector * d.fs.bps + 512 ≤ statusOff d.fs)
    {u : Unit} {d' : Dev} (hr : run unmount d = (.ok u, d')) :
    d'.img.WF ∧
    ((d.fs.fatType = .fat32 ∧ d.fs.fsInfo.dirty = true) →
      d'.img.read (d.fs.fsInfoSector * d.fs.bps) 512 = fsInfoBytes d.fs.fsInfo) ∧
    (¬ (d.fs.fatType = .fat32 ∧ d.fs.fsInfo.dirty = true) →
      ∀ q, q ≠ statusOff d.fs → d'.img.getByte q = d.img.getByte q) ∧
    (∀ q, ¬ (d.fs.fsInfoSector * d.fs.bps ≤ q ∧ q < d.fs.fsInfoSector * d.fs.bps + 512) → q ≠ statusOff d.fs →
      d'.img.getByte q = d.img.getByte q) := by
  unfold unmount at hr
  obtain ⟨d1, r2, d2, h1, h2, hF⟩ := run_finallyDrop_ok hr
  obtain ⟨hwf1, hg1, hinfo1, hyes1, hno1, hout1⟩ := unmountInternal_img d hwf hso h1
  -- the destructor's run: its flush does nothing (FS-info clean, or not FAT32), its `set_dirty_flag` touches the status byte
  have hr2 : run (Prog.bind flushFsInfo (fun _ => setDirtyFlag false)) { d1 with dropDepth := d1.dropDepth + 1 } = (r2, d2) := h2
  have hcond : ¬ (d1.fs.fatType = .fat32 ∧ d1.fs.fsInfo.dirty = true) := by
    rintro ⟨a, b⟩
    rw [hinfo1] at b
    have hft : d.fs.fatType = .fat32 := by rw [hg1.proj FsState.fatType]; exact a
    simp [hft] at b
  have hflush : run flushFsInfo { d1 with dropDepth := d1.dropDepth + 1 } = (.ok (), { d1 with dropDepth := d1.dropDepth + 1 }) := by
    unfold flushFsInfo
    show run (Prog.bind Prog.getFs _) _ = _
    rw [run_getFs_bind]
    show run (if d1.fs.fatType = .fat32 ∧ d1.fs.fsInfo.dirty = true then _ else Prog.pure ()) _ = _
    rw [if_neg hcond]; rfl
  have h2' : run (setDirtyFlag false) { d1 with dropDepth := d1.dropDepth + 1 } = (r2, d2) := by
    rcases run_bind_cases hr2 with ⟨u1, dx, ha, hb⟩ | ⟨e, ha, _⟩
    · rw [hflush] at ha; cases ha; exact hb
    · rw [hflush] at ha; cases ha
  obtain ⟨hwf2, _, hb2⟩ := setDirtyFlag_img false { d1 with dropDepth := d1.dropDepth + 1 } hwf1 h2'
  have hst1 : statusOff d1.fs = statusOff d.fs := statusOff_geom hg1
  have hb2' : ∀ q, q ≠ statusOff d.fs → d'.img.getByte q = d1.img.getByte q := by
    intro q hq
    rw [hF]
    exact hb2 q (by show q ≠ statusOff d1.fs; rw [hst1]; exact hq)
  refine ⟨by rw [hF]; exact hwf2, ?_, ?_, ?_⟩
  · intro hc
    rw [← hyes1 hc]
    unfold Img.read
    apply List.map_congr_left
    intro k hk
    have hk' := List.mem_range.mp hk
    apply hb2'
    omega
  · intro hc q hq
    rw [hb2' q hq, hno1 hc q hq]
  · intro q hq hqs
    rw [hb2' q hqs, hout1 q hq hqs]

end FatVerif.FsInfoImg
