import FatVerif.Proofs.NoWriteModel6
/-! WHERE the model writes (C10/C11), part 1: the judgement `GS` — "every write record a program appends to the device
    log satisfies `C`" — relative to a fixed geometry `fs0` and device size `sz`, with its composition rules. -/
namespace FatVerif

/-! ### the device size never changes -/

theorem Img.write_size (i : Img) (off : Nat) (bs : List Nat) : (i.write off bs).size = i.size := by
  unfold Img.write
  simp only [Id.run]
  rfl

def SameSize (d d' : Dev) : Prop := d'.img.size = d.img.size

theorem sameSize_ok : RelOK SameSize where
  refl := fun _ => rfl
  trans := fun _ _ _ h1 h2 => Eq.trans h2 h1
  depth := fun _ _ => rfl

theorem stepOp_sameSize (o : Op) (d : Dev) (r : Except Err (Resp o)) (d' : Dev) (hr : stepOp o d = (r, d')) :
    SameSize d d' := by
  have hcnt : ∀ k, (d.count k).img = d.img := by
    intro k; unfold Dev.count; cases k <;> simp
  have dc : ∀ {β} (k : CallKind) (act : Dev → Except Err β × Dev),
      (∀ d0 r d1, act d0 = (r, d1) → SameSize d0 d1) →
      ∀ {r d'}, devCall k d act = (r, d') → SameSize d d' := by
    intro β k act hact r d' h
    unfold devCall devCallCore at h
    split at h
    · cases h; simp [SameSize, hcnt k]
    · have := hact _ _ _ h
      simp only [SameSize, hcnt k] at this ⊢; exact this
  cases o with
  | write bs =>
    simp only [stepOp] at hr
    exact dc _ _ (by intro d0 r d1 h; cases h; simp [SameSize, Img.write_size]) hr
  | read n => simp only [stepOp] at hr; exact dc _ _ (by intro d0 r d1 h; cases h; rfl) hr
  | seek p =>
    simp only [stepOp] at hr
    refine dc _ _ ?_ hr
    intro d0 r d1 h
    cases p with
    | start n => cases h; rfl
    | cur x => simp only at h; split at h <;> cases h <;> rfl
    | fromEnd x => simp only at h; split at h <;> cases h <;> rfl
  | flush => simp only [stepOp] at hr; exact dc _ _ (by intro d0 r d1 h; cases h; rfl) hr
  | now => simp only [stepOp] at hr; cases hr; rfl
  | today => simp only [stepOp] at hr; cases hr; rfl
  | getFs => simp only [stepOp] at hr; cases hr; rfl
  | setFs fs => simp only [stepOp] at hr; cases hr; rfl

theorem run_img_size {α} (p : Prog α) (d : Dev) (r : Except Err α) (d' : Dev) (hr : run p d = (r, d')) :
    d'.img.size = d.img.size :=
  (steps_of_ops sameSize_ok stepOp_sameSize p).out d r d' hr

/-! ### the immutable part of the mounted state -/

/-- the mounted state with its interior-mutable part (FS-info cache, current status flags) blanked -/
def FsState.geom (fs : FsState) : FsState := { fs with fsInfo := {}, curDirty := false, curIoErr := false }

/-- same geometry (everything except the FS-info cache and the current status flags) -/
def SameGeom (a b : FsState) : Prop := a.geom = b.geom

theorem SameGeom.refl (a : FsState) : SameGeom a a := rfl
theorem SameGeom.symm {a b : FsState} (h : SameGeom a b) : SameGeom b a := Eq.symm h
theorem SameGeom.trans {a b c : FsState} (h1 : SameGeom a b) (h2 : SameGeom b c) : SameGeom a c := Eq.trans h1 h2

/-- any projection that does not look at the mutable part agrees -/
theorem SameGeom.proj {α} {a b : FsState} (h : SameGeom a b) (f : FsState → α)
    (hf : ∀ fs, f fs.geom = f fs := by intro _; rfl) : f a = f b := by
  rw [← hf a, ← hf b]; exact congrArg f h

theorem SameGeom.setInfo {a b : FsState} (h : SameGeom a b) (i : FsInfoSt) : SameGeom a { b with fsInfo := i } := h
theorem SameGeom.setFlags {a b : FsState} (h : SameGeom a b) (x y : Bool) :
    SameGeom a { b with curDirty := x, curIoErr := y } := h

/-! ### classification of the appended write records -/

/-- the log of `d'` extends that of `d`, and every write record added satisfies `C off bytes` -/
def LogAll (C : Nat → List Nat → Prop) (d d' : Dev) : Prop :=
  ∃ items, d'.log = items ++ d.log ∧ ∀ off bs, LogItem.write off bs ∈ items → C off bs

theorem LogAll.refl (C) (d : Dev) : LogAll C d d := ⟨[], rfl, by simp⟩

theorem LogAll.of_log_eq {C} {d d' : Dev} (h : d'.log = d.log) : LogAll C d d' := ⟨[], by simp [h], by simp⟩

theorem LogAll.trans {C} {a b c : Dev} (h1 : LogAll C a b) (h2 : LogAll C b c) : LogAll C a c := by
  obtain ⟨i1, e1, w1⟩ := h1
  obtain ⟨i2, e2, w2⟩ := h2
  refine ⟨i2 ++ i1, by rw [e2, e1, List.append_assoc], ?_⟩
  intro off bs hit
  rcases List.mem_append.mp hit with h | h
  · exact w2 _ _ h
  · exact w1 _ _ h

theorem LogAll.mono {C C' : Nat → List Nat → Prop} (h : ∀ off bs, C off bs → C' off bs) {d d' : Dev}
    (hl : LogAll C d d') : LogAll C' d d' := by
  obtain ⟨i, e, w⟩ := hl
  exact ⟨i, e, fun off bs hit => h _ _ (w _ _ hit)⟩

theorem LogAll.of_within {lo hi : Nat} {C : Nat → List Nat → Prop} {d d' : Dev} (h : LogWithin lo hi d d')
    (hc : ∀ off bs, lo ≤ off → off + bs.length ≤ hi → C off bs) : LogAll C d d' := by
  obtain ⟨i, e, w⟩ := h
  exact ⟨i, e, fun off bs hit => hc _ _ (w _ hit).1 (w _ hit).2⟩

theorem LogAll.of_sameWrites {C} {d d' : Dev} (hx : LogExtends d d') (hs : SameWrites d d') : LogAll C d d' :=
  LogAll.of_within (logWithin_of_sameWrites (lo := 1) (hi := 0) hx hs) (fun _ _ h1 h2 => by omega)

theorem LogAll.cons {C} {d d' : Dev} {off : Nat} {bs : List Nat} (h : d'.log = .write off bs :: d.log) (hc : C off bs) :
    LogAll C d d' := by
  refine ⟨[.write off bs], by simp [h], ?_⟩
  intro o b hit
  simp only [List.mem_singleton, LogItem.write.injEq] at hit
  obtain ⟨rfl, rfl⟩ := hit; exact hc

/-- the judgement: started with geometry `fs0` on a device of size `sz`, `p` keeps the geometry, appends only write
    records satisfying `C`, and a successful result satisfies `Post` -/
structure GS {α} (fs0 : FsState) (sz : Nat) (C : Nat → List Nat → Prop) (p : Prog α) (Post : α → Prop) : Prop where
  out : ∀ (d : Dev) (r : Except Err α) (d' : Dev), SameGeom fs0 d.fs → d.img.size = sz → run p d = (r, d') →
    SameGeom fs0 d'.fs ∧ LogAll C d d' ∧ ∀ v, r = .ok v → Post v

section rules
variable {fs0 : FsState} {sz : Nat} {C : Nat → List Nat → Prop}

theorem GS.weaken {α} {p : Prog α} {Q Post : α → Prop} (h : GS fs0 sz C p Q) (hq : ∀ v, Q v → Post v) :
    GS fs0 sz C p Post :=
  ⟨fun d r d' hg hs hr => ⟨(h.out d r d' hg hs hr).1, (h.out d r d' hg hs hr).2.1,
    fun v hv => hq v ((h.out d r d' hg hs hr).2.2 v hv)⟩⟩

theorem GS.mono {α} {C' : Nat → List Nat → Prop} {p : Prog α} {Post : α → Prop} (h : GS fs0 sz C p Post)
    (hc : ∀ off bs, C off bs → C' off bs) : GS fs0 sz C' p Post :=
  ⟨fun d r d' hg hs hr => ⟨(h.out d r d' hg hs hr).1, (h.out d r d' hg hs hr).2.1.mono hc,
    (h.out d r d' hg hs hr).2.2⟩⟩

theorem GS.pure {α} {Post : α → Prop} {a : α} (h : Post a) : GS fs0 sz C (Prog.pure a) Post := by
  refine ⟨fun d r d' hg _ hr => ?_⟩; simp only [run] at hr; cases hr
  exact ⟨hg, LogAll.refl _ _, fun v hv => by cases hv; exact h⟩

theorem GS.fail {α} {Post : α → Prop} (e : Err) : GS fs0 sz C (Prog.fail (α := α) e) Post := by
  refine ⟨fun d r d' hg _ hr => ?_⟩; simp only [run] at hr; cases hr
  exact ⟨hg, LogAll.refl _ _, fun v hv => by cases hv⟩

/-- a program without `write`/`setFs` operations appends no write record -/
theorem GS.of_quiet {α} {p : Prog α} (hp : QuietOps p) : GS fs0 sz C p (fun _ => True) :=
  ⟨fun d r d' hg _ hr => ⟨by rw [quietOps_fs hp d hr]; exact hg,
    LogAll.of_sameWrites (run_logExtends _ _ _ _ hr) (noWriteOps_sound hp.noWriteOps d hr), fun _ _ => trivial⟩⟩

/-- a read-only judgement gives its postcondition here too (the mounted state is taken as it is) -/
theorem GS.of_ro {α} {p : Prog α} {Post : α → Prop} (hp : ∀ fs, RO fs p Post) : GS fs0 sz C p Post :=
  ⟨fun d r d' hg _ hr => by
    have h := (hp d.fs).out d r d' rfl hr
    exact ⟨by rw [h.2.1]; exact hg, LogAll.of_sameWrites (run_logExtends _ _ _ _ hr) h.1, h.2.2⟩⟩

theorem GS.getFs : GS fs0 sz C Prog.getFs (fun v => SameGeom fs0 v) := by
  refine ⟨fun d r d' hg _ hr => ?_⟩; simp only [Prog.getFs, run, stepOp] at hr; cases hr
  exact ⟨hg, LogAll.refl _ _, fun v hv => by cases hv; exact hg⟩

theorem GS.setFs {fs : FsState} (h : SameGeom fs0 fs) : GS fs0 sz C (Prog.setFs fs) (fun _ => True) := by
  refine ⟨fun d r d' _ _ hr => ?_⟩; simp only [Prog.setFs, run, stepOp] at hr; cases hr
  exact ⟨h, LogAll.of_log_eq rfl, fun _ _ => trivial⟩

theorem GS.modifyFs {f : FsState → FsState} (h : ∀ fs, SameGeom fs0 fs → SameGeom fs0 (f fs)) :
    GS fs0 sz C (Prog.modifyFs f) (fun _ => True) := by
  refine ⟨fun d r d' hg _ hr => ?_⟩
  rw [run_modifyFs] at hr; cases hr
  exact ⟨h _ hg, LogAll.of_log_eq rfl, fun _ _ => trivial⟩

theorem GS.bind {α β} {p : Prog β} {k : β → Prog α} {Q : β → Prop} {Post : α → Prop}
    (hp : GS fs0 sz C p Q) (hk : ∀ b, Q b → GS fs0 sz C (k b) Post) : GS fs0 sz C (Prog.bind p k) Post := by
  refine ⟨fun d r d' hg hs hr => ?_⟩
  rcases run_bind_cases hr with ⟨b, d1, h1, h2⟩ | ⟨e, h1, he⟩
  · have a1 := hp.out d _ _ hg hs h1
    have a2 := (hk b (a1.2.2 b rfl)).out d1 _ _ a1.1 ((run_img_size _ _ _ _ h1).trans hs) h2
    exact ⟨a2.1, a1.2.1.trans a2.2.1, a2.2.2⟩
  · have a1 := hp.out d _ _ hg hs h1
    exact ⟨a1.1, a1.2.1, fun v hv => by rw [he] at hv; cases hv⟩

theorem GS.tryCatch {α} {p : Prog α} {h : Err → Prog α} {Post : α → Prop}
    (hp : GS fs0 sz C p Post) (hh : ∀ e, GS fs0 sz C (h e) Post) : GS fs0 sz C (Prog.tryCatch p h) Post := by
  refine ⟨fun d r d' hg hs hr => ?_⟩
  simp only [run] at hr
  rcases hq : run p d with ⟨rp, d1⟩
  rw [hq] at hr
  have a1 := hp.out d _ _ hg hs hq
  cases rp with
  | ok a => simp only at hr; cases hr; exact a1
  | error e =>
    simp only at hr
    split at hr
    · cases hr; exact a1
    · have a2 := (hh e).out d1 _ _ a1.1 ((run_img_size _ _ _ _ hq).trans hs) hr
      exact ⟨a2.1, a1.2.1.trans a2.2.1, a2.2.2⟩

theorem GS.finallyDrop {α} {p : Prog α} {c : Option α → Prog Unit} {Post : α → Prop}
    (hp : GS fs0 sz C p Post) (hsome : ∀ a, Post a → GS fs0 sz C (c (some a)) (fun _ => True))
    (hnone : GS fs0 sz C (c none) (fun _ => True)) : GS fs0 sz C (Prog.finallyDrop p c) Post := by
  refine ⟨fun d r d' hg hs hr => ?_⟩
  simp only [run] at hr
  rcases hq : run p d with ⟨rp, d1⟩
  rw [hq] at hr
  have a1 := hp.out d _ _ hg hs hq
  have hs1 : d1.img.size = sz := (run_img_size _ _ _ _ hq).trans hs
  have key : ∀ {o rc d2}, GS fs0 sz C (c o) (fun _ => True) →
      run (c o) { d1 with dropDepth := d1.dropDepth + 1 } = (rc, d2) →
      SameGeom fs0 ({ d2 with dropDepth := d2.dropDepth - 1 } : Dev).fs ∧
        LogAll C d { d2 with dropDepth := d2.dropDepth - 1 } := by
    intro o rc d2 hgs hc
    have a2 := hgs.out { d1 with dropDepth := d1.dropDepth + 1 } _ _ a1.1 hs1 hc
    exact ⟨a2.1, (a1.2.1.trans ((LogAll.of_log_eq rfl).trans a2.2.1)).trans (LogAll.of_log_eq rfl)⟩
  cases rp with
  | ok a =>
    have hgs := hsome a (a1.2.2 a rfl)
    simp only at hr
    rcases hc : run (c (some a)) { d1 with dropDepth := d1.dropDepth + 1 } with ⟨rc, d2⟩
    rw [hc] at hr
    have hk := key hgs hc
    cases rc with
    | ok u => simp only at hr; cases hr; exact ⟨hk.1, hk.2, fun v hv => by cases hv; exact a1.2.2 a rfl⟩
    | error e' =>
      simp only at hr
      split at hr <;> cases hr
      · exact ⟨hk.1, hk.2, fun v hv => by cases hv⟩
      · exact ⟨hk.1, hk.2, fun v hv => by cases hv; exact a1.2.2 a rfl⟩
  | error e =>
    simp only at hr
    split at hr
    · cases hr; exact ⟨a1.1, a1.2.1, fun v hv => by cases hv⟩
    · rcases hc : run (c none) { d1 with dropDepth := d1.dropDepth + 1 } with ⟨rc, d2⟩
      rw [hc] at hr
      have hk := key hnone hc
      cases rc with
      | ok u => simp only at hr; cases hr; exact ⟨hk.1, hk.2, fun v hv => by cases hv⟩
      | error e' => simp only at hr; split at hr <;> cases hr <;> exact ⟨hk.1, hk.2, fun v hv => by cases hv⟩

end rules

/-- one step of descent for `GS` goals; the listed lemmas (`GS`, `RO`-free) and `QuietOps` lemmas close calls -/
syntax "gs_step" ("[" Lean.Parser.Tactic.SolveByElim.arg,* "]")? : tactic
macro_rules
  | `(tactic| gs_step) => `(tactic| gs_step [])
  | `(tactic| gs_step [$ts,*]) => `(tactic| first
    | with_reducible_and_instances exact GS.fail _
    | focus ((with_reducible_and_instances refine GS.pure ?_);
             (first | with_reducible rfl | trivial | assumption | (simp_all; done)))
    | intro _
    | apply_assumption (transparency := .reducible) (exfalso := false) (symm := false) only [*, $ts,*]
    | (with_reducible_and_instances apply GS.bind GS.getFs
       intro fs hfs)
    | (with_reducible_and_instances apply GS.bind
       case hp => first
         | (apply_assumption (transparency := .reducible) (exfalso := false) (symm := false) only [*, $ts,*]) <;>
             (first | assumption | (simp_all; done))
         | focus (refine GS.of_quiet ?_; quiet [$ts,*]; done))
    | focus (refine GS.of_quiet ?_; quiet [$ts,*]; done)
    | dsimp only
    | split
    | focus (exfalso; simp_all; done))

syntax "gs" ("[" Lean.Parser.Tactic.SolveByElim.arg,* "]")? : tactic
macro_rules
  | `(tactic| gs) => `(tactic| repeat gs_step [])
  | `(tactic| gs [$ts,*]) => `(tactic| repeat gs_step [$ts,*])

end FatVerif
