import FatVerif.Proofs.FaultSim8
/-! Faults and forward evaluation, part 9: a slot write (`write_chunks` of `write_all`s) on a writable directory that
    is hit by the fault keeps the first FAT copy, given that a single faulted stream write does (`WriteKeepsFat`). -/
namespace FatVerif.DirSim
open FatVerif.FileSim FatVerif.Fat DirEntryData

section generic
variable {Inv : Dev → Prop} {G : Nat → DirStream} {N : Nat} {src room : Nat → Nat} {fs0 : FsState}

/-- a single stream write hit by the fault keeps the first FAT copy of the geometry `fs0` -/
def WriteKeepsFat (Inv : Dev → Prop) (fs0 : FsState) (N : Nat) (room : Nat → Nat) (X : Nat → DirStream) : Prop :=
  ∀ (d1 d2 : Dev) (o : Nat) (bs : List Nat) (r : Except Err (Nat × DirStream)), d1.fault = none → Inv d1.disarm →
    bs ≠ [] → bs.length ≤ room o → o + bs.length ≤ 32 * N → run (DirStream.write (X o) bs) d1 = (r, d2) →
    d2.fault ≠ none → (∀ f, d2.fault = some f → f.inDrop = false) → FatAgree fs0 d1.img d2.img

/-- what the directory's invariant tells about the layout: the FAT of `fs0` lies before every slot byte -/
structure FatBefore (Inv : Dev → Prop) (fs0 : FsState) (N : Nat) (src : Nat → Nat) : Prop where
  h42 : 0x42 ≤ (fatSliceOf fs0).beginOff
  behind : ∀ o, o < 32 * N → (fatSliceOf fs0).beginOff + (fatSliceOf fs0).size ≤ src o

theorem fatAgree_of_writesTo' (hF : FatBefore Inv fs0 N src) {d d' : Dev} {o : Nat} {bs : List Nat}
    (hw : WritesTo d d' (src o) bs) (hwf : d.img.WF) (ho : o < 32 * N) : FatAgree fs0 d.img d'.img := by
  intro q h1 h2
  have := hF.h42
  have := hF.behind o ho
  rw [hw.bytes hwf q (by omega)]
  unfold putBytes
  rw [if_neg (by omega)]

theorem FatAgree.trans' {fs : FsState} {a b c : Img} (h1 : FatAgree fs a b) (h2 : FatAgree fs b c) : FatAgree fs a c :=
  fun q hq1 hq2 => (h2 q hq1 hq2).trans (h1 q hq1 hq2)

/-- `write_all` of one chunk on a device whose fault may fire -/
theorem writeAll_armed (IO : InvOK Inv) (hF : FatBefore Inv fs0 N src) {X : Nat → DirStream}
    (WX : WFam Inv X G N src room) (hK : WriteKeepsFat Inv fs0 N room X) (d : Dev) (hd : d.fault = none)
    (hinv : Inv d.disarm) (o : Nat) (c : List Nat) (hne : c ≠ []) (hroom : c.length ≤ room o)
    (hfit : o + c.length ≤ 32 * N) {r d1} (hr : run (writeAll DirStream.strm (X o) c) d = (r, d1)) :
    (d1.fault = none ∧ r = .ok (G (o + c.length)) ∧ Inv d1.disarm ∧ FatAgree fs0 d.img d1.img) ∨
    (d1.fault ≠ none ∧ ((∀ f, d1.fault = some f → f.inDrop = false) → FatAgree fs0 d.img d1.img)) := by
  have hlen : c.length ≠ 0 := by
    cases c with
    | nil => exact absurd rfl hne
    | cons _ _ => simp
  by_cases hf1 : d1.fault = none
  · left
    obtain ⟨dg, hg, hw, hi⟩ := WX.writeAll d.disarm hinv o c hne hroom hfit
    rw [run_disarm _ d hr hd hf1] at hg
    have h1 : r = .ok (G (o + c.length)) := congrArg Prod.fst hg
    have h2 : d1.disarm = dg := congrArg Prod.snd hg
    subst h2
    exact ⟨hf1, h1, hi, fatAgree_of_writesTo' hF (d := d.disarm) (d' := d1.disarm) (o := o) hw (IO.wf _ hinv) (by omega)⟩
  · right
    refine ⟨hf1, fun hnd => ?_⟩
    have hemp : c.isEmpty = false := by cases c <;> simp_all
    unfold FatVerif.writeAll at hr
    obtain ⟨k, hk⟩ : ∃ k, c.length = k + 1 := ⟨c.length - 1, by omega⟩
    rw [hk] at hr
    unfold writeAllLoop at hr
    simp only [hemp, Bool.false_eq_true, if_false] at hr
    rcases run_bind_cases hr with ⟨⟨n, s'⟩, dW, hW, hkW⟩ | ⟨e, hW, hre⟩
    · exfalso
      by_cases hfW : dW.fault = none
      · obtain ⟨dg, hg, _, _⟩ := WX.write d.disarm hinv o c hne hroom hfit
        have hW' : run (DirStream.write (X o) c) d = (.ok (n, s'), dW) := hW
        rw [run_disarm _ d hW' hd hfW] at hg
        have hn : n = c.length := by
          have := congrArg Prod.fst hg
          injection this with h; injection h with h1 _
        subst hn
        simp only [hlen, if_false, List.drop_length] at hkW
        rw [← hk] at hkW
        have : run (writeAllLoop DirStream.strm c.length s' []) dW = (.ok s', dW) := by
          cases hc : c.length with
          | zero => exact absurd hc hlen
          | succ m => rfl
        rw [this] at hkW
        cases hkW
        exact hf1 hfW
      · have hfaW : dW.failAt = none := by
          rcases run_any _ d hd hW with h | ⟨h, _⟩
          · exact absurd h hfW
          · exact h
        obtain ⟨e, he⟩ := ioSafe_fired_error (DirStream.write_ioSafe (X o) c) hd hW hfW
          (fun f hf => hnd f (by rw [(fault_kept _ dW hkW hfaW).1]; exact hf))
        cases he
    · cases hre
      exact hK d d1 o c _ hd hinv hne hroom hfit hW hf1 hnd

/-- `write_chunks` inside one room on a device whose fault may fire: whatever happens, the first FAT copy is kept -/
theorem writeChunks_armed (IO : InvOK Inv) (hF : FatBefore Inv fs0 N src) (WG : WFam Inv G G N src room)
    (hKG : WriteKeepsFat Inv fs0 N room G) :
    ∀ (cs : List (List Nat)) (X : Nat → DirStream), WFam Inv X G N src room → WriteKeepsFat Inv fs0 N room X →
    ∀ (o : Nat) (d : Dev), d.fault = none → Inv d.disarm → (∀ c ∈ cs, c ≠ []) → cs.flatten.length ≤ room o →
    o + cs.flatten.length ≤ 32 * N → ∀ r d', run (writeChunks DirStream.strm (X o) cs) d = (r, d') →
    (∀ f, d'.fault = some f → f.inDrop = false) → FatAgree fs0 d.img d'.img := by
  intro cs
  induction cs with
  | nil =>
    intro X _ _ o d _ _ _ _ _ r d' hr _
    have : run (Prog.pure (X o)) d = (r, d') := hr
    simp only [run] at this
    cases this
    exact fun _ _ _ => rfl
  | cons c rest ih =>
    intro X WX hKX o d hd hinv hne hroom hfit r d' hr hnd
    simp only [List.flatten_cons, List.length_append] at hroom hfit
    have hcne := hne c (List.mem_cons_self ..)
    unfold FatVerif.writeChunks at hr
    rcases run_bind_cases hr with ⟨s', d1, h1, hk⟩ | ⟨e, h1, hre⟩
    · rcases writeAll_armed IO hF WX hKX d hd hinv o c hcne (by omega) (by omega) h1 with
        ⟨hf1, hs', hi1, hfa1⟩ | ⟨hf1, _⟩
      · injection hs' with hs'
        subst hs'
        have hB := WX.rd d.disarm hinv
        by_cases hlt : c.length < room o
        · have := ih G WG hKG (o + c.length) d1 hf1 hi1 (fun c' hc' => hne c' (List.mem_cons_of_mem _ hc'))
            (by rw [hB.room_step o c.length hlt]; omega) (by omega) r d' hk hnd
          exact FatAgree.trans' hfa1 this
        · have h0 : rest.flatten.length = 0 := by omega
          have hrest : rest = [] := by
            cases rest with
            | nil => rfl
            | cons c' r' =>
              simp only [List.flatten_cons, List.length_append] at h0
              have : c'.length = 0 := by omega
              exact absurd (List.eq_nil_of_length_eq_zero this) (hne c' (List.mem_cons_of_mem _ (List.mem_cons_self ..)))
          subst hrest
          have : run (Prog.pure (G (o + c.length))) d1 = (r, d') := hk
          simp only [run] at this
          cases this
          exact hfa1
      · exfalso
        have hfa1 : d1.failAt = none := by
          rcases run_any _ d hd h1 with h | ⟨h, _⟩
          · exact absurd h hf1
          · exact h
        obtain ⟨e, he⟩ := ioSafe_fired_error (writeAll_ioSafe DirStream.strm DirStream.strm_safe (X o) c) hd h1 hf1
          (fun f hf => hnd f (by rw [(fault_kept _ d1 hk hfa1).1]; exact hf))
        cases he
    · cases hre
      rcases writeAll_armed IO hF WX hKX d hd hinv o c hcne (by omega) (by omega) h1 with ⟨_, hs', _, _⟩ | ⟨_, h2⟩
      · cases hs'
      · exact h2 hnd

/-- **a slot write hit by the fault keeps the first FAT copy** -/
theorem writeSlot_armed (IO : InvOK Inv) (hF : FatBefore Inv fs0 N src) (WG : WFam Inv G G N src room)
    (hKG : WriteKeepsFat Inv fs0 N room G) {X : Nat → DirStream} (WX : WFam Inv X G N src room)
    (hKX : WriteKeepsFat Inv fs0 N room X) (o : Nat) (ho : o % 32 = 0) (hfit : o + 32 ≤ 32 * N) (e : DirEntryData)
    (hl : e.serialize.length = 32) (d : Dev) (hd : d.fault = none) (hinv : Inv d.disarm) {r d'}
    (hr : run (writeSlot (X o) e) d = (r, d')) (hnd : ∀ f, d'.fault = some f → f.inDrop = false) :
    FatAgree fs0 d.img d'.img := by
  have hr32 := (WX.rd d.disarm hinv).room_slot o ho hfit
  have key : ∀ (bs : List Nat) (ns : List Nat), bs.length = 32 → ns.sum = 32 → (∀ n ∈ ns, 0 < n) →
      run (FatVerif.writeChunks DirStream.strm (X o) (chunksOf bs ns)) d = (r, d') → FatAgree fs0 d.img d'.img := by
    intro bs ns hb hn hpos h
    have hfl := chunksOf_flatten ns bs (by rw [hn, hb])
    exact writeChunks_armed IO hF WG hKG _ X WX hKX o d hd hinv
      (chunksOf_ne_nil ns bs hpos (by rw [hn, hb]; exact Nat.le_refl _)) (by rw [hfl, hb]; exact hr32)
      (by rw [hfl, hb]; exact hfit) r d' h hnd
  cases e with
  | file f => exact key f.serialize _ hl entryChunks_sum (by decide) hr
  | lfn l => exact key l.serialize _ hl lfnChunks_sum (by decide) hr

end generic

end FatVerif.DirSim
