import FatVerif.Proofs.FileSimFlush1
/-!
# FileSim / flush, part 2: reading a file to its end (`read_exact` on the handle), re-opening it from its slot

* `readExact_sim`: `read_exact(n)` on a represented handle with at least `n` bytes left returns exactly the next `n` bytes
  of the content `(absFile …).content`.
* `reopen fs img pos`: the handle `open_file` builds from the 32-byte record at `pos` (`DirEntry::to_file`:
  `File::new(entry.first_cluster(), Some(entry.editor()))`).
-/
namespace FatVerif.FileSim
open FatVerif FatVerif.Fat

/-- `read_exact` on the byte-level handle: the loop of io.rs over `File::read` -/
theorem readExactLoop_sim : ∀ (fuel : Nat) (f : FileH) (need : Nat) (acc : List Nat) (d : Dev),
    d.failAt = none → Geo d.fs d.img.size → FileRep d.fs d.img f →
    need ≤ (absFile d.fs d.img f).size - f.offset → need + 1 ≤ fuel →
    ∃ f' d', run (readExactLoop FileH.strm fuel f need acc) d =
        (.ok (acc ++ ((absFile d.fs d.img f).content.drop f.offset).take need, f'), d') ∧
      SameStore d d' ∧ FileRep d.fs d.img f' := by
  intro fuel
  induction fuel with
  | zero => intro f need acc d _ _ _ _ hf; omega
  | succ k ih =>
    intro f need acc d hfa hg hrep hneed hfuel
    unfold readExactLoop
    by_cases hn : need = 0
    · subst hn
      rw [if_pos rfl]
      exact ⟨f, d, by simp, SameStore.refl d, hrep⟩
    · rw [if_neg hn]
      obtain ⟨bs, f1, d1, hr, hs1, hres, hab, hrep1⟩ := read_sim f need d hfa hg hrep
      obtain ⟨p, _⟩ := hrep.inv.read_post need
      have hcs := hg.cs_pos
      have hmod : f.offset % d.fs.clusterSize < d.fs.clusterSize := Nat.mod_lt _ hcs
      have hk : (absFile d.fs d.img f).readLen need = min (min need (d.fs.clusterSize - f.offset % d.fs.clusterSize))
          ((absFile d.fs d.img f).size - f.offset) := rfl
      have hkpos : 0 < (absFile d.fs d.img f).readLen need := by rw [hk]; omega
      have hkle : (absFile d.fs d.img f).readLen need ≤ need := by rw [hk]; omega
      have hbs : bs = ((absFile d.fs d.img f).content.drop f.offset).take ((absFile d.fs d.img f).readLen need) := by
        have := p.res; rw [hres] at this; exact Except.ok.inj this
      have hlen : bs.length = (absFile d.fs d.img f).readLen need := by
        rw [hbs, List.length_take, List.length_drop, Cursor.AFile.content_length]
        rw [hk]; omega
      have hr' : run (FileH.strm.read f need) d = (.ok (bs, f1), d1) := hr
      rw [run_bind_ok hr']
      simp only
      rw [if_neg (by omega)]
      have hoff1 : f1.offset = f.offset + (absFile d.fs d.img f).readLen need := by
        have := congrArg Cursor.AFile.offset hab; rw [p.offset] at this; exact this
      have hsz1 : (absFile d.fs d.img f1).size = (absFile d.fs d.img f).size := by rw [hab, p.size]
      have hcont1 : (absFile d.fs d.img f1).content = (absFile d.fs d.img f).content := by rw [hab, p.content]
      obtain ⟨f2, d2, h2, hs2, hrep2⟩ := ih f1 (need - bs.length) (acc ++ bs) d1 (by rw [hs1.failAt]; exact hfa)
        (by rw [hs1.fs, hs1.img]; exact hg) (by rw [hs1.fs, hs1.img]; exact hrep1)
        (by rw [hs1.fs, hs1.img, hsz1, hoff1, hlen]; omega) (by omega)
      rw [hs1.fs, hs1.img, hcont1, hoff1] at h2
      refine ⟨f2, d2, ?_, hs1.trans hs2, by rw [hs1.fs, hs1.img] at hrep2; exact hrep2⟩
      rw [h2, List.append_assoc, hlen, hbs, Cursor.take_drop_split _ _ _ _ hkle]

/-- `read_exact(n)` with `n` bytes left: the next `n` bytes of the content -/
theorem readExact_sim (f : FileH) (n : Nat) (d : Dev) (hfa : d.failAt = none) (hg : Geo d.fs d.img.size)
    (hrep : FileRep d.fs d.img f) (hn : n ≤ (absFile d.fs d.img f).size - f.offset) :
    ∃ f' d', run (readExact FileH.strm f n) d =
        (.ok (((absFile d.fs d.img f).content.drop f.offset).take n, f'), d') ∧ SameStore d d' := by
  obtain ⟨f', d', hr, hs, _⟩ := readExactLoop_sim (n + 1) f n [] d hfa hg hrep hn (Nat.le_refl _)
  exact ⟨f', d', by unfold readExact; rw [hr, List.nil_append], hs⟩

/-! ### re-opening a file from its slot -/

/-- the short entry decoded from the 32 bytes at `pos` -/
def slotData (img : Img) (pos : Nat) : DirFileEntryData :=
  match DirEntryData.deserialize (img.read pos 32) with
  | .file data => data
  | .lfn _ => {}

/-- the handle `open_file` builds from the record at `pos`: `File::new(entry.first_cluster(), Some(entry.editor()))` -/
def reopen (fs : FsState) (img : Img) (pos : Nat) : FileH :=
  FileH.new ((slotData img pos).firstCluster fs.fatType) (some (DirEntryEditor.new (slotData img pos) pos))

/-- … which is what `DirEntry::to_file` returns for the directory entry read from that slot -/
theorem toFile_eq_reopen (fs : FsState) (img : Img) (de : DirEntry) (hdata : de.data = slotData img de.entryPos)
    (hfile : de.isDir = false) (d : Dev) :
    run (de.toFile fs) d = (.ok (reopen fs img de.entryPos), d) := by
  unfold DirEntry.toFile
  rw [hfile]
  simp only [Bool.false_eq_true, if_false]
  unfold reopen DirEntry.firstCluster DirEntry.editor
  rw [hdata]
  rfl

theorem slotData_of_serialize (img : Img) (pos : Nat) (data : DirFileEntryData) (hwf : data.WF)
    (hl : attrsIsLfn data.attrs = false) (h : img.read pos 32 = data.serialize) : slotData img pos = data := by
  unfold slotData
  rw [h, DirEntryData.deserialize_serialize_file data hwf hl]

/-! ### the footprint of a file on the image -/

/-- the byte positions that determine what a fresh `open_file` + read-to-end returns: the 32-byte slot, the FAT
    entries (first copy) of the clusters of the chain, the bytes of the chain's clusters up to the recorded size -/
def Footprint (fs : FsState) (img : Img) (f : FileH) (e : DirEntryEditor) (q : Nat) : Prop :=
  (e.pos ≤ q ∧ q < e.pos + 32) ∨
  (∃ c ∈ fileChain fs img f, (fatSliceOf fs).beginOff + entOff fs.fatType c ≤ q ∧
    q < (fatSliceOf fs).beginOff + entOff fs.fatType c + entWidth fs.fatType) ∨
  (∃ p, p < f.size?.getD 0 ∧
    q = clusterOff fs ((fileChain fs img f).getD (p / fs.clusterSize) 0) + p % fs.clusterSize)

/-- the decoded entry of `c` only depends on the bytes of that entry in the first FAT copy -/
theorem tabView_congr_at {fs : FsState} {img img' : Img} {c : Nat}
    (h : ∀ k, k < entWidth fs.fatType → img'.getByte ((fatSliceOf fs).beginOff + entOff fs.fatType c + k) =
      img.getByte ((fatSliceOf fs).beginOff + entOff fs.fatType c + k)) :
    tabView fs img' c = tabView fs img c := by
  unfold tabView
  split
  · unfold imgFatView
    congr 1
    cases hft : fs.fatType with
    | fat12 =>
      rw [hft] at h
      have h0 := h 0 (by decide); have h1 := h 1 (by decide)
      simp only [entOff, Nat.add_zero] at h0 h1
      simp only [imgFatRaw, Img.le16, h0, h1]
    | fat16 =>
      rw [hft] at h
      have h0 := h 0 (by decide); have h1 := h 1 (by decide)
      simp only [entOff, Nat.add_zero] at h0 h1
      simp only [imgFatRaw, Img.le16, h0, h1]
    | fat32 =>
      rw [hft] at h
      have h0 := h 0 (by decide); have h1 := h 1 (by decide)
      have h2 := h 2 (by decide); have h3 := h 3 (by decide)
      simp only [entOff, Nat.add_zero] at h0 h1 h2 h3
      simp only [imgFatRaw, Img.le32, h0, h1, h2, h3]
  · rfl

theorem chainFrom_congr {g g' : Nat → FatValue} : ∀ (fuel c0 : Nat),
    (∀ c ∈ chainFrom g fuel c0, g' c = g c) → chainFrom g' fuel c0 = chainFrom g fuel c0 := by
  intro fuel
  induction fuel with
  | zero => intro c0 _; rfl
  | succ k ih =>
    intro c0 h
    have hc0 : g' c0 = g c0 := h c0 (by
      unfold chainFrom
      cases g c0 <;> simp)
    unfold chainFrom
    rw [hc0]
    cases hg : g c0 with
    | data n =>
      simp only
      rw [ih n (fun c hc => h c (by unfold chainFrom; rw [hg]; exact List.mem_cons_of_mem _ hc))]
    | _ => rfl

theorem chain_congr {g g' : Nat → FatValue} {c0 : Nat} {cs : List Nat} (h : Chain g c0 cs)
    (hg : ∀ x ∈ cs, g' x = g x) : Chain g' c0 cs := by
  induction h with
  | last m hl => exact Chain.last m (by rw [hg m (by simp)]; exact hl)
  | cons m k ms hd _ ih =>
    exact Chain.cons m k ms (by rw [hg m (by simp)]; exact hd) (ih (fun x hx => hg x (List.mem_cons_of_mem _ hx)))

/-- **`read_footprint`.**  `f` is a represented handle whose record is in its slot (clean editor).  If an image
    `img'` (same size) agrees with `img` on the footprint of `f`, then re-opening the file from its slot in `img'` gives
    the handle a fresh `open_file` would give on `img`; it is represented in `img'`, and its content in `img'` is the
    content of `f` in `img`. -/
theorem read_footprint {fs : FsState} {img img' : Img} {f : FileH} {e : DirEntryEditor}
    (hg : Geo fs img.size) (hrep : FileRep fs img f) (he : EntryRep fs img f e) (hclean : e.dirty = false)
    (hagree : ∀ q, Footprint fs img f e q → img'.getByte q = img.getByte q) :
    reopen fs img' e.pos = FileH.new f.firstCluster (some (DirEntryEditor.new e.data e.pos)) ∧
    FileRep fs img' (reopen fs img' e.pos) ∧
    (absFile fs img' (reopen fs img' e.pos)).content = (absFile fs img f).content ∧
    (absFile fs img' (reopen fs img' e.pos)).size = (absFile fs img f).size := by
  -- the slot
  have hslot : img'.read e.pos 32 = e.data.serialize := by
    rw [← he.sync hclean]
    unfold Img.read
    apply List.map_congr_left
    intro k hk
    exact hagree _ (Or.inl ⟨by omega, by have := List.mem_range.mp hk; omega⟩)
  have hsd : slotData img' e.pos = e.data := slotData_of_serialize img' e.pos e.data he.wf he.notLfn hslot
  have hre : reopen fs img' e.pos = FileH.new f.firstCluster (some (DirEntryEditor.new e.data e.pos)) := by
    unfold reopen; rw [hsd, he.first]
  rw [hre]
  generalize hgdef : FileH.new f.firstCluster (some (DirEntryEditor.new e.data e.pos)) = g
  have hgfirst : g.firstCluster = f.firstCluster := by rw [← hgdef]; rfl
  have hgsize : g.size? = f.size? := by
    rw [← hgdef]; unfold FileH.size? FileH.new; rw [he.entry]; rfl
  have hgoff : g.offset = 0 := by rw [← hgdef]; rfl
  have hgcur : g.currentCluster = none := by rw [← hgdef]; rfl
  -- the FAT entries of the chain
  have htv : ∀ c ∈ fileChain fs img f, tabView fs img' c = tabView fs img c := by
    intro c hc
    apply tabView_congr_at
    intro k hk
    exact hagree _ (Or.inr (Or.inl ⟨c, hc, by omega, by omega⟩))
  have hch : fileChain fs img' g = fileChain fs img f := by
    unfold fileChain
    rw [hgfirst]
    cases hf : f.firstCluster with
    | none => rfl
    | some c0 =>
      simp only
      apply chainFrom_congr
      intro c hc
      apply htv
      unfold fileChain; rw [hf]; exact hc
  obtain ⟨szv, hsz⟩ := hrep.file
  have hinv := hrep.inv
  have hasz : (absFile fs img' g).size = (absFile fs img f).size := by
    show g.size?.getD 0 = f.size?.getD 0; rw [hgsize]
  have hrep' : FileRep fs img' g := by
    refine ⟨⟨szv, hgsize.trans hsz⟩, ⟨hinv.cs_pos, ?_, ?_, ?_, ?_, ?_, ?_, ?_⟩, ?_, ?_, ?_⟩
    · show (fileChain fs img' g).Nodup; rw [hch]; exact hinv.nodup
    · show g.firstCluster = (fileChain fs img' g).head?; rw [hch, hgfirst]; exact hinv.first
    · show (absFile fs img' g).size ≤ (fileChain fs img' g).length * fs.clusterSize
      rw [hasz, hch]; exact hinv.cover
    · show g.offset ≤ _; rw [hgoff]; exact Nat.zero_le _
    · rw [hasz]; exact hinv.size_le
    · show g.currentCluster = if g.offset = 0 then none else _
      rw [hgoff, hgcur]; rfl
    · intro c hc
      have hc' : c ∈ fileChain fs img' g := hc
      rw [hch] at hc'
      show tabView fs img' c ≠ .free
      rw [htv c hc']; exact hinv.live c hc'
    · intro c hc
      rw [hch]
      exact chain_congr (hrep.chain c (hgfirst ▸ hc)) htv
    · intro c hc; exact hrep.inTab c (hch ▸ hc)
    · intro c hc
      rw [hch] at hc
      have hmem : c ∈ fileChain fs img f := List.mem_of_getLast? hc
      rw [htv c hmem]; exact hrep.last_eoc c hc
  refine ⟨rfl, hrep', ?_, hasz⟩
  unfold Cursor.AFile.content
  rw [hasz]
  apply List.map_congr_left
  intro p hp
  have hp' : p < (absFile fs img f).size := List.mem_range.mp hp
  unfold Cursor.AFile.byteAt
  show img'.getByte (clusterOff fs ((fileChain fs img' g).getD (p / fs.clusterSize) 0) + p % fs.clusterSize) =
    img.getByte (clusterOff fs ((fileChain fs img f).getD (p / fs.clusterSize) 0) + p % fs.clusterSize)
  rw [hch]
  exact hagree _ (Or.inr (Or.inr ⟨p, hp', rfl⟩))

end FatVerif.FileSim
