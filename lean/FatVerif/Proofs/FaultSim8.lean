import FatVerif.Proofs.FaultSim7
/-! Faults and forward evaluation, part 8: a `File::write` inside the allocated clusters of a cluster-chain directory that
    is hit by the fault leaves the first FAT copy alone. -/
namespace FatVerif.DirSim
open FatVerif.FileSim FatVerif.Fat DirEntryData

theorem quiet_img {α} {p : Prog α} (hp : QuietOps p) {d : Dev} {r d'} (h : run p d = (r, d')) : d'.img = d.img :=
  (noWriteOps_sound hp.noWriteOps d h).1

theorem quiet_fs {α} {p : Prog α} (hp : QuietOps p) {d : Dev} {r d'} (h : run p d = (r, d')) : d'.fs = d.fs :=
  quietOps_fs hp d h

/-- an `IoSafe` step that ends with the fault fired (outside destructors) ended in an error -/
theorem ioSafe_fired_error {α} {p : Prog α} (hp : IoSafe p) {d : Dev} (hd : d.fault = none) {r d1}
    (h : run p d = (r, d1)) (hf1 : d1.fault ≠ none) (hnd : ∀ f, d1.fault = some f → f.inDrop = false) :
    ∃ e, r = .error e := by
  rcases ioSafe_propagates hp d hd _ _ h with h0 | ⟨_, f, hf, him⟩
  · exact absurd h0 hf1
  · have := him (hnd f hf)
    cases r with
    | ok a => simp [resErr] at this
    | error e => exact ⟨e, rfl⟩

/-- a faulted device write changes nothing on the image -/
theorem progWrite_fired_img (bs : List Nat) (d : Dev) {r d'} (h : run (Prog.write bs) d = (r, d'))
    (hd : d.fault = none) (hf : d'.fault ≠ none) : d'.img = d.img := by
  simp only [Prog.write, run, stepOp, devCall, devCallCore] at h
  split at h
  · cases h
    unfold Dev.count; rfl
  · cases h
    exfalso
    apply hf
    show (d.count .w).fault = none
    unfold Dev.count; exact hd

section chain
variable {f0 : FileH} {c0 : Nat} {chain : List Nat}

/-- **a faulted `File::write` inside an allocated cluster keeps the first FAT copy** -/
theorem fileWrite_fatKept {d : Dev} (C : ChainCore d.disarm f0 c0 chain) (hd : d.fault = none) (hwf : d.img.WF) (o : Nat)
    (bs : List Nat) (hne : bs ≠ []) (hroom : bs.length ≤ chainRoom d.fs chain o)
    (hfit : o + bs.length ≤ chain.length * d.fs.clusterSize)
    {r d'} (hr : run ((dirFile f0 chain d.fs.clusterSize o).write bs) d = (r, d')) (hf' : d'.fault ≠ none)
    (hnd : ∀ f, d'.fault = some f → f.inDrop = false) : FatAgree d.fs d.img d'.img := by
  have hgeo : FileSim.Geo d.fs d.img.size := C.geo
  have hcs := hgeo.cs_pos
  have hst42 := hgeo.status_lt
  have hlen : bs.length ≠ 0 := by
    cases bs with
    | nil => exact absurd rfl hne
    | cons _ _ => simp
  have holt : o < chain.length * d.fs.clusterSize := by omega
  have hrm : chainRoom d.fs chain o = d.fs.clusterSize - o % d.fs.clusterSize := by
    unfold chainRoom; rw [if_pos holt]
  rw [hrm] at hroom
  have hu : chain.length * d.fs.clusterSize < 4294967296 := C.u32
  have hoff : (dirFile f0 chain d.fs.clusterSize o).offset = o := rfl
  have hws : min (min bs.length (d.fs.clusterSize - o % d.fs.clusterSize)) (4294967295 - o) = bs.length := by omega
  have h42 : 0x42 ≤ d.img.size := by
    have := hgeo.fat_dev
    omega
  have hfatq : ∀ (X Y : Img), (∀ q, 0x42 ≤ q → Y.getByte q = X.getByte q) → FatAgree d.fs X Y :=
    fun X Y h q hq1 _ => h q (by omega)
  unfold FileH.write at hr
  rw [run_bind_ok (run_getFs d)] at hr
  simp only [hoff, hws, hlen, if_false] at hr
  -- A. set_dirty_flag(true)
  rcases run_bind_cases hr with ⟨u, dA, hA, hkA⟩ | ⟨eA, hA, hre⟩
  rotate_left
  · -- the fault hit the status byte: only status records
    obtain ⟨_, hlog⟩ := setDirtyFlag_all true d hA
    intro q hq1 _
    refine logAll_frame hA hwf hlog q (fun off b hs => ?_)
    unfold StatusRec statusOff at hs
    split at hs <;> omega
  have hfA : dA.fault = none := by
    refine Classical.byContradiction (fun hfA => ?_)
    have hkept := fault_kept _ dA hkA (by
      rcases run_any _ d hd hA with h | ⟨h, _⟩
      · exact absurd h hfA
      · exact h)
    obtain ⟨e, he⟩ := ioSafe_fired_error (setDirtyFlag_ioSafe true) hd hA hfA (fun f hf => hnd f (by rw [hkept.1]; exact hf))
    cases he
  obtain ⟨dAg, h1g, hs1, _, _, hb1⟩ := run_setDirtyFlag_true d.disarm rfl h42
  rw [run_disarm _ d hA hd hfA] at h1g
  have hdAg : dA.disarm = dAg := congrArg Prod.snd h1g
  subst hdAg
  have himgA : ∀ q, 0x42 ≤ q → dA.img.getByte q = d.img.getByte q := fun q hq => hb1 hwf q hq
  have hfatA : FatAgree d.fs d.img dA.img := hfatq _ _ himgA
  have hgA : FsGeomEq d.fs dA.fs := hs1.geom
  have hszA : dA.img.size = d.img.size := hs1.size
  have C1 : ChainCore dA.disarm f0 c0 chain := C.of_agree hs1.failAt hs1.size hs1.geom hfatA
  have hcs1 : dA.fs.clusterSize = d.fs.clusterSize := hgA.clusterSize
  have hwfA : dA.img.WF := hs1.wf hwf
  -- the rest never writes below the data region
  have hrest : ∀ (X : Dev), X.img = dA.img → FatAgree d.fs d.img X.img := fun X hX => by rw [hX]; exact hfatA
  -- B. the cluster
  have hlt : o / d.fs.clusterSize < chain.length := div_lt_of_lt_mul hcs holt
  have hcur : chain[o / d.fs.clusterSize]? = some chain[o / d.fs.clusterSize] := List.getElem?_eq_getElem hlt
  obtain ⟨hc2, hct⟩ := C.inTab _ (List.getElem_mem hlt)
  obtain ⟨d2g, h2g, hs2⟩ := C1.curOpt o (by show o ≤ chain.length * dA.fs.clusterSize; rw [hcs1]; omega)
  have h2g' : run (if o % d.fs.clusterSize = 0 then (dirFile f0 chain d.fs.clusterSize o).boundaryCluster
      else pure (dirFile f0 chain d.fs.clusterSize o).currentCluster) dA.disarm = (.ok chain[o / d.fs.clusterSize]?, d2g) := by
    have := h2g
    simp only [Dev.disarm_fs, hcs1] at this
    exact this
  rcases run_bind_cases hkA with ⟨⟨cur, f1⟩, dB, hB, hkB⟩ | ⟨eB, hB, hre⟩
  rotate_left
  · -- the step that finds the cluster failed: it only reads (no allocation: see below) — or it is pure
    subst hre
    by_cases hm : o % d.fs.clusterSize = 0
    · rw [if_pos hm] at hB h2g'
      rcases run_bind_cases hB with ⟨nxt, dB1, hB1, hB2⟩ | ⟨e1, hB1, he1⟩
      · by_cases hfB1 : dB1.fault = none
        · rw [run_disarm _ dA hB1 hfA hfB1] at h2g'
          have hnxt : nxt = chain[o / d.fs.clusterSize]? := by injection (congrArg Prod.fst h2g') with h
          rw [hnxt, hcur] at hB2
          have hB2' : run (Prog.pure (chain[o / d.fs.clusterSize], dirFile f0 chain d.fs.clusterSize o)) dB1 =
              (.error eB, d') := hB2
          simp only [run] at hB2'
          cases hB2'
        · obtain ⟨e, he⟩ := ioSafe_fired_error (FileH.boundaryCluster_ioSafe _) hfA hB1 hfB1 (fun f hf => hnd f (by
            have hfa1 : dB1.failAt = none := by
              rcases run_any _ dA hfA hB1 with h | ⟨h, _⟩
              · exact absurd h hfB1
              · exact h
            rw [(fault_kept _ dB1 hB2 hfa1).1]; exact hf))
          cases he
      · cases he1
        exact hrest _ (quiet_img (FileH.boundaryCluster_quiet _) hB1)
    · rw [if_neg hm] at hB
      have hqu : QuietOps (match (dirFile f0 chain d.fs.clusterSize o).currentCluster with
          | some n => (pure (n, dirFile f0 chain d.fs.clusterSize o) : Prog (Nat × FileH))
          | none => Prog.fail .panic) := by
        split
        · exact QuietOps.pure _
        · exact QuietOps.fail _
      exact hrest _ (quiet_img hqu hB)
  -- the step succeeded: the cluster is the one of the chain, the device is unchanged
  have hBfacts : cur = chain[o / d.fs.clusterSize] ∧ dB.img = dA.img ∧ dB.fs = dA.fs ∧ dB.fault = none := by
    by_cases hm : o % d.fs.clusterSize = 0
    · rw [if_pos hm] at hB h2g'
      rcases run_bind_cases hB with ⟨nxt, dB1, hB1, hB2⟩ | ⟨e1, hB1, he1⟩
      · have hfB1 : dB1.fault = none := by
          refine Classical.byContradiction (fun hfB1 => ?_)
          obtain ⟨e, he⟩ := ioSafe_fired_error (FileH.boundaryCluster_ioSafe _) hfA hB1 hfB1 (fun f hf => hnd f (by
            have hfa1 : dB1.failAt = none := by
              rcases run_any _ dA hfA hB1 with h | ⟨h, _⟩
              · exact absurd h hfB1
              · exact h
            rw [(fault_kept _ dB hkB (by rw [(fault_kept _ dB1 hB2 hfa1).2])).1, (fault_kept _ dB1 hB2 hfa1).1]; exact hf))
          cases he
        rw [run_disarm _ dA hB1 hfA hfB1] at h2g'
        have hnxt : nxt = chain[o / d.fs.clusterSize]? := by injection (congrArg Prod.fst h2g') with h
        rw [hnxt, hcur] at hB2
        have hB2' : run (Prog.pure (chain[o / d.fs.clusterSize], dirFile f0 chain d.fs.clusterSize o)) dB1 =
            (.ok (cur, f1), dB) := hB2
        simp only [run] at hB2'
        injection hB2' with h1 h2
        injection h1 with h1
        injection h1 with h1a h1b
        subst h2
        exact ⟨h1a.symm, quiet_img (FileH.boundaryCluster_quiet _) hB1, quiet_fs (FileH.boundaryCluster_quiet _) hB1, hfB1⟩
      · cases he1
    · rw [if_neg hm] at hB h2g'
      have h2' : run (Prog.pure (dirFile f0 chain d.fs.clusterSize o).currentCluster) dA.disarm =
          (.ok chain[o / d.fs.clusterSize]?, d2g) := h2g'
      simp only [run] at h2'
      injection h2' with h2a _
      injection h2a with h2a
      rw [h2a, hcur] at hB
      have hB' : run (Prog.pure (chain[o / d.fs.clusterSize], dirFile f0 chain d.fs.clusterSize o)) dA = (.ok (cur, f1), dB) := hB
      simp only [run] at hB'
      injection hB' with h1 h2
      injection h1 with h1
      injection h1 with h1a h1b
      subst h2
      exact ⟨h1a.symm, rfl, rfl, hfA⟩
  obtain ⟨hcurE, himgB, hfsB, hfB⟩ := hBfacts
  subst hcurE
  -- C. offset_from_cluster (pure)
  simp only at hkB
  rw [run_bind_ok (run_offsetFromClusterP hgeo _ hc2 hct dB)] at hkB
  -- D. seek
  rcases run_bind_cases hkB with ⟨t, dD, hD, hkD⟩ | ⟨eD, hD, hre⟩
  rotate_left
  · cases hre
    have := quiet_img (QuietOps.op _ rfl) hD
    exact hrest _ (this.trans himgB)
  have himgD : dD.img = dA.img := (quiet_img (QuietOps.op _ rfl) hD).trans himgB
  have hposD : dD.pos = clusterOff d.fs chain[o / d.fs.clusterSize] + o % d.fs.clusterSize :=
    (run_seekStart_spec _ dB hD).2.2 t rfl
  -- E. the device write
  rcases run_bind_cases hkD with ⟨n, dE, hE, hkE⟩ | ⟨eE, hE, hre⟩
  rotate_left
  · cases hre
    -- the write failed: nothing was written
    have hspec := stepOp_write_spec _ dD (show stepOp (.write _) dD = _ from hE)
    rcases hspec.2 with ⟨_, _, hlogE⟩ | ⟨m, hm, _⟩
    · obtain ⟨_, items, hl, hb⟩ := run_img_eq_replay _ dD _ _ hE (by rw [himgD]; exact hwfA)
      have : items = [] := by
        have := hl.symm.trans hlogE
        exact List.append_cancel_right (as := items) (bs := dD.log) (cs := []) (by simpa using this)
      subst this
      intro q hq1 hq2
      rw [hb q]
      show dD.img.getByte q = _
      rw [himgD]; exact hfatA q hq1 hq2
    · cases hm
  -- the write went through: it lies in the data region; the rest is quiet
  have hquR : QuietOps (if n = 0 then (pure (0, f1) : Prog (Nat × FileH)) else do
      let f ← FileH.updateAfterWrite { f1 with offset := f1.offset + n, currentCluster := some chain[o / d.fs.clusterSize] }
      pure (n, f)) := by
    split
    · exact QuietOps.pure _
    · refine QuietOps.bind _ _ ?_ (fun _ => QuietOps.pure _)
      unfold FileH.updateAfterWrite
      split
      · exact QuietOps.bind _ _ (QuietOps.op _ rfl) (fun _ => QuietOps.pure _)
      · exact QuietOps.pure _
  have himgR : d'.img = dE.img := quiet_img hquR hkE
  obtain ⟨_, items, hl, hb⟩ := run_img_eq_replay _ dD _ _ hE (by rw [himgD]; exact hwfA)
  have hspec := stepOp_write_spec _ dD (show stepOp (.write _) dD = _ from hE)
  rcases hspec.2 with ⟨_, hm, _⟩ | ⟨m, _, hmle, hlogE, _⟩
  · cases hm
  · have : items = [LogItem.write dD.pos ((bs.take bs.length).take m)] :=
      List.append_cancel_right (hl.symm.trans hlogE)
    subst this
    intro q hq1 hq2
    rw [himgR, hb q]
    simp only [List.map, LogItem.norm, replay, applyRec]
    have hfd := hgeo.fat_data
    have hco : d.fs.firstDataSector * d.fs.bps ≤ clusterOff d.fs chain[o / d.fs.clusterSize] := clusterOff_ge _ _
    have hms : (fatSliceOf d.fs).size ≤ (fatSliceOf d.fs).mirrors * (fatSliceOf d.fs).size :=
      Nat.le_mul_of_pos_left _ hgeo.mirrors_pos
    rw [if_neg (by rw [hposD]; omega)]
    show dD.img.getByte q = _
    rw [himgD]; exact hfatA q hq1 hq2

end chain

end FatVerif.DirSim
