import FatVerif.Proofs.DirSlotsOps
/-! Listing-level consequences: insertion / removal of exactly one entry, preservation of well-formedness, lookup. -/
namespace FatVerif
namespace DirSlots
open Lfn LongNameBuilder

theorem KeysDisjoint.symm {upper : Char → List Char} {a b : LfnEntry} (h : KeysDisjoint upper a b) :
    KeysDisjoint upper b a := fun q hq => h q ⟨hq.2, hq.1⟩

theorem pairwise_insert {α} {R : α → α → Prop} (hsym : ∀ a b, R a b → R b a) (L1 L2 : List α) (a : α)
    (h : (L1 ++ L2).Pairwise R) (ha : ∀ x ∈ L1 ++ L2, R x a) : (L1 ++ a :: L2).Pairwise R := by
  rw [List.pairwise_append] at h ⊢
  obtain ⟨h1, h2, h3⟩ := h
  refine ⟨h1, List.pairwise_cons.2 ⟨fun y hy => hsym _ _ (ha y (by simp [hy])), h2⟩, ?_⟩
  intro x hx y hy
  rcases List.mem_cons.1 hy with rfl | hy
  · exact ha x (by simp [hx])
  · exact h3 x hx y hy

theorem pairwise_remove {α} {R : α → α → Prop} (L1 L2 : List α) (a : α) (h : (L1 ++ a :: L2).Pairwise R) :
    (L1 ++ L2).Pairwise R :=
  h.sublist (List.Sublist.append (List.Sublist.refl _) (List.sublist_cons_self _ _))

/-- with pairwise-disjoint keys a query hits at most one entry -/
theorem match_unique (upper : Char → List Char) : ∀ (l : List LfnEntry), l.Pairwise (KeysDisjoint upper) →
    ∀ e1 ∈ l, ∀ e2 ∈ l, ∀ q, matchesName upper e1 q = true → matchesName upper e2 q = true → e1 = e2 := by
  intro l
  induction l with
  | nil => intro _ e1 h1; simp at h1
  | cons a t ih =>
    intro hp e1 h1 e2 h2 q m1 m2
    obtain ⟨ha, ht⟩ := List.pairwise_cons.1 hp
    rcases List.mem_cons.1 h1 with r1 | r1
    · rcases List.mem_cons.1 h2 with r2 | r2
      · rw [r1, r2]
      · subst r1; exact absurd ⟨m1, m2⟩ (ha e2 r2 q)
    · rcases List.mem_cons.1 h2 with r2 | r2
      · subst r2; exact absurd ⟨m2, m1⟩ (ha e1 r1 q)
      · exact ih ht e1 r1 e2 r2 q m1 m2

/-! ### creation -/

/-- the core of `writeEntry_listing`: exactly one entry is inserted, at the position `find_free_entries` gives -/
theorem writeEntry_insert (alloc : Bool) (slots : List (List Nat)) (units sfn : List Nat) (hs : Shape slots)
    (h1 : 1 ≤ units.length) (h255 : units.length ≤ 255) (hu : ∀ x ∈ units, x < 65536)
    (hnz : ∀ x ∈ units, x ≠ 0) (hsfn : slotClass sfn = .file) :
    ∃ L1 L2, readDirEntries alloc true slots = L1 ++ L2 ∧
      readDirEntries alloc true (writeEntry slots units sfn) =
        L1 ++ ⟨sfn, units, findFree slots (numParts units.length + 1),
                findFree slots (numParts units.length + 1) + (numParts units.length + 1)⟩ :: L2 ∧
      (∀ e ∈ L1, e.endIdx ≤ findFree slots (numParts units.length + 1)) ∧
      (∀ e ∈ L2, findFree slots (numParts units.length + 1) + (numParts units.length + 1) ≤ e.beginIdx) ∧
      Shape (writeEntry slots units sfn) := by
  obtain ⟨items, tail, rfl, hok, ht⟩ := hs
  obtain ⟨I1, Dd, I2, e1, e2, e3, e4⟩ := writeEntry_items items tail units sfn hok ht h1 h255 hu
  have hnew := newItem_ok units sfn h1 h255 hu hsfn
  have hname := newItem_name units sfn h1 h255 hu hnz
  have hgl : (lfnGenerate units (lfnChecksum (sfnName sfn))).length = numParts units.length :=
    (generate_complete units _ h1 (by omega) hu).2.2.2
  have hokI1 : ∀ it ∈ I1, it.Ok := fun x hx => hok x (by rw [e1]; simp [hx])
  have hokI2 : ∀ it ∈ I2, it.Ok := fun x hx => hok x (by rw [e1]; simp [hx])
  obtain ⟨hD1, hD2⟩ := listOf_deleted Dd (0 + (flatten I1).length) e2
  have hold : readDirEntries alloc true (flatten items ++ tail) =
      listOf I1 0 ++ listOf I2 ((flatten I1).length + Dd.length) := by
    rw [listing_shape alloc items tail hok ht, e1, listOf_append, listOf_append, hD1]
    simp [hD2]
  rw [e3]
  rcases e4 with ⟨e4, e5⟩ | ⟨e4, rfl, e5⟩
  · have hok' : ∀ it ∈ I1 ++ [newItem units sfn] ++ I2, it.Ok := by
      intro x hx
      simp only [List.mem_append, List.mem_singleton] at hx
      rcases hx with (hx | rfl) | hx
      · exact hokI1 x hx
      · exact hnew
      · exact hokI2 x hx
    refine ⟨listOf I1 0, listOf I2 ((flatten I1).length + (numParts units.length + 1)), ?_, ?_, ?_, ?_, ?_⟩
    · rw [hold, e4]
    · rw [e5, listing_shape alloc _ tail hok' ht, listOf_append, listOf_append]
      simp only [newItem, listOf, hname, hgl, Nat.zero_add]
      simp [Item.slots, hgl, Nat.add_assoc]
    · intro e he
      have := listOf_bounds I1 0 e he
      omega
    · intro e he
      have := listOf_bounds I2 _ e he
      omega
    · exact ⟨_, tail, e5, hok', ht⟩
  · have hok' : ∀ it ∈ I1 ++ [newItem units sfn], it.Ok := by
      intro x hx
      simp only [List.mem_append, List.mem_singleton] at hx
      rcases hx with hx | rfl
      · exact hokI1 x hx
      · exact hnew
    have ht' : ∀ t ∈ tail.drop (numParts units.length + 1 - Dd.length), isEnd t = true :=
      fun t h => ht t (List.mem_of_mem_drop h)
    refine ⟨listOf I1 0, [], ?_, ?_, ?_, by simp, ?_⟩
    · rw [hold]; simp [listOf]
    · rw [e5, listing_shape alloc _ _ hok' ht', listOf_append]
      simp only [newItem, listOf, hname, hgl, Nat.zero_add, Nat.add_assoc]
    · intro e he
      have := listOf_bounds I1 0 e he
      omega
    · exact ⟨_, _, e5, hok', ht'⟩

/-- the bytes: outside the written range nothing changes, inside it are the generated slots -/
theorem writeEntry_bytes (slots : List (List Nat)) (units sfn : List Nat)
    (h1 : 1 ≤ units.length) (h255 : units.length ≤ 255) (hu : ∀ x ∈ units, x < 65536) :
    findFree slots (numParts units.length + 1) ≤ slots.length ∧
    (∀ i, i < findFree slots (numParts units.length + 1) ∨
        findFree slots (numParts units.length + 1) + (numParts units.length + 1) ≤ i →
      (writeEntry slots units sfn).getD i [] = slots.getD i []) ∧
    (∀ k, k < numParts units.length + 1 →
      (writeEntry slots units sfn).getD (findFree slots (numParts units.length + 1) + k) [] =
        (entrySlots units sfn).getD k []) := by
  have hp := findFree_le slots (numParts units.length + 1) (by omega)
  have hlen := entrySlots_length units sfn h1 h255 hu
  refine ⟨hp, ?_, ?_⟩
  · intro i hi
    unfold writeEntry
    rcases hi with hi | hi
    · exact writeAt_getD_before _ _ _ _ hp hi
    · exact writeAt_getD_after _ _ _ _ hp (by omega)
  · intro k hk
    unfold writeEntry writeAt
    have hl : (List.take (findFree slots (numParts units.length + 1)) slots).length =
        findFree slots (numParts units.length + 1) := by simp; omega
    simp only [List.getD_eq_getElem?_getD]
    rw [List.append_assoc, List.getElem?_append_right (by omega), hl, Nat.add_sub_cancel_left,
      List.getElem?_append_left (by omega)]

/-- well-formedness is preserved when the new raw short name and the new names are fresh -/
theorem writeEntry_wf (upper : Char → List Char) (slots : List (List Nat)) (units sfn : List Nat)
    (hwf : DirWf upper slots)
    (h1 : 1 ≤ units.length) (h255 : units.length ≤ 255) (hu : ∀ x ∈ units, x < 65536)
    (hnz : ∀ x ∈ units, x ≠ 0) (hsfn : slotClass sfn = .file)
    (hraw : ∀ e ∈ listing slots, sfnName e.sfn ≠ sfnName sfn)
    (hfresh : ∀ e ∈ listing slots, ∀ q,
      ¬ (matchesName upper e q = true ∧ Names.eqName upper units (sfnName sfn) q = true)) :
    DirWf upper (writeEntry slots units sfn) := by
  obtain ⟨L1, L2, e1, e2, _, _, e5⟩ := writeEntry_insert true slots units sfn hwf.shape h1 h255 hu hnz hsfn
  have hr := hwf.rawNodup
  have hk := hwf.keys
  unfold listing at hr hk hraw hfresh
  rw [e1] at hr hk hraw hfresh
  refine ⟨e5, ?_, ?_⟩
  · unfold listing
    rw [e2]
    simp only [List.map_append, List.map_cons] at hr ⊢
    rw [List.nodup_append] at hr ⊢
    obtain ⟨r1, r2, r3⟩ := hr
    refine ⟨r1, List.nodup_cons.2 ⟨?_, r2⟩, ?_⟩
    · intro hm
      obtain ⟨x, hx, hx'⟩ := List.mem_map.1 hm
      exact hraw x (by simp [hx]) hx'
    · intro a ha b hb
      rcases List.mem_cons.1 hb with rfl | hb
      · obtain ⟨x, hx, rfl⟩ := List.mem_map.1 ha
        exact hraw x (by simp [hx])
      · exact r3 a ha b hb
  · unfold listing
    rw [e2]
    apply pairwise_insert (fun a b => KeysDisjoint.symm) _ _ _ hk
    intro x hx q hq
    exact hfresh x hx q ⟨hq.1, hq.2⟩

/-! ### deletion -/

theorem deleteRange_remove (alloc : Bool) (slots : List (List Nat)) (hs : Shape slots) (e : LfnEntry)
    (he : e ∈ readDirEntries alloc true slots) :
    ∃ L1 L2, readDirEntries alloc true slots = L1 ++ e :: L2 ∧
      readDirEntries alloc true (deleteRange slots e.beginIdx e.endIdx) = L1 ++ L2 ∧
      Shape (deleteRange slots e.beginIdx e.endIdx) := by
  obtain ⟨items, tail, rfl, hok, ht⟩ := hs
  rw [listing_shape alloc items tail hok ht] at he ⊢
  obtain ⟨I1, R, sfn, I2, e1, e2⟩ := mem_listOf items 0 e he
  subst e1
  have hokE : (Item.entry R sfn).Ok := hok _ (by simp)
  obtain ⟨d1, d2, _⟩ := deletedItems_ok R sfn hokE
  have hok' : ∀ it ∈ I1 ++ deletedItems R sfn ++ I2, it.Ok := by
    intro x hx
    simp only [List.mem_append] at hx
    rcases hx with (hx | hx) | hx
    · exact hok x (by simp [hx])
    · exact d1 x hx
    · exact hok x (by simp [hx])
  have hdel := deleteRange_items I1 I2 R sfn tail hokE
  have hb : e.beginIdx = (flatten I1).length := by rw [e2]; simp
  have hen : e.endIdx = (flatten I1).length + R.length + 1 := by rw [e2]; simp
  rw [hb, hen, hdel]
  obtain ⟨hD1, hD2⟩ := listOf_deleted (deletedItems R sfn) (0 + (flatten I1).length) d2
  have hdl : (deletedItems R sfn).length = R.length + 1 := by simp [deletedItems]
  refine ⟨listOf I1 0, listOf I2 ((flatten I1).length + R.length + 1), ?_, ?_, ⟨_, tail, rfl, hok', ht⟩⟩
  · rw [listOf_append, listOf_append]
    simp only [listOf, Nat.zero_add, e2]
    simp [Item.slots, Nat.add_assoc]
  · rw [listing_shape alloc _ tail hok' ht, listOf_append, listOf_append, hD1]
    simp [hD2, hdl, Nat.add_assoc]

theorem deleteFrom_getD : ∀ (slots : List (List Nat)) (i0 b e i : Nat), i < slots.length →
    (deleteFrom slots i0 b e).getD i [] =
      if b ≤ i0 + i ∧ i0 + i < e then markDeleted (slots.getD i []) else slots.getD i [] := by
  intro slots
  induction slots with
  | nil => intro _ _ _ i h; simp at h
  | cons s t ih =>
    intro i0 b e i h
    cases i with
    | zero => simp [deleteFrom]
    | succ i =>
      simp only [deleteFrom, List.getD_cons_succ]
      rw [ih (i0 + 1) b e i (by simpa using h)]
      rw [show i0 + 1 + i = i0 + (i + 1) by omega]

theorem deleteRange_bytes (slots : List (List Nat)) (b e i : Nat) :
    (deleteRange slots b e).getD i [] =
      if b ≤ i ∧ i < e ∧ i < slots.length then markDeleted (slots.getD i []) else slots.getD i [] := by
  by_cases hi : i < slots.length
  · unfold deleteRange
    rw [deleteFrom_getD slots 0 b e i hi]
    simp [hi]
  · have h1 : slots.length ≤ i := by omega
    have h2 : (deleteRange slots b e).length ≤ i := by rw [deleteRange_length]; exact h1
    simp [List.getD_eq_getElem?_getD, List.getElem?_eq_none h2, hi]

theorem deleteRange_wf (upper : Char → List Char) (slots : List (List Nat)) (hwf : DirWf upper slots) (e : LfnEntry)
    (he : e ∈ listing slots) : DirWf upper (deleteRange slots e.beginIdx e.endIdx) := by
  obtain ⟨L1, L2, e1, e2, e3⟩ := deleteRange_remove true slots hwf.shape e he
  have hr := hwf.rawNodup
  have hk := hwf.keys
  unfold listing at hr hk
  rw [e1] at hr hk
  refine ⟨e3, ?_, ?_⟩
  · unfold listing
    rw [e2]
    refine List.Nodup.sublist ?_ hr
    simp only [List.map_append, List.map_cons]
    exact List.Sublist.append (List.Sublist.refl _) (List.sublist_cons_self _ _)
  · unfold listing
    rw [e2]; exact pairwise_remove L1 L2 e hk

end DirSlots
end FatVerif
