import FatVerif.Proofs.SlotTreeImg20
import FatVerif.Proofs.FatImgDisjoint
/-!
# Slot trees on a device image, part 21: the FAT-level side conditions from a well-formed FAT

`DirRes.apart` (the allocated cluster is on no directory chain) and `FreedApart` (the freed chain is apart from every
directory chain) follow from `FatWf` of the decoded FAT (agent-fat's `Proofs/FatImgDisjoint.lean`:
`free_not_in_any_chain`, `head_chains_disjoint`) and facts about the HEADS of the chains the cluster map names:

* `apart_of_fatWf`: the directory heads are allocated (their FAT entry is not `free`) — then the cluster the
  allocator finds (which is free) is on none of their chains;
* `freedApart_of_fatWf`: the file's head and the directory heads are distinct chain heads (no link points to them).
-/
namespace FatVerif
namespace SlotTreeImg
open Lfn DirSlots DirAlias SlotTree DirSim FatVerif.FileSim FatVerif.Fat

/-- the first clusters the cluster map gives the directories of the tree are allocated -/
def DirHeadsAlloc (d : Dev) (up : Char → List Char) (t : Node) (cl : List String → Option Nat) : Prop :=
  ∀ cur s ch, cur ≠ [] → getAtS up t cur = some (.dir s ch) → ∀ c0, cl cur = some c0 →
    tabView d.fs d.img c0 ≠ .free

/-- … and no FAT link points to them, and they differ from `n` -/
def DirHeadsApartFrom (d : Dev) (up : Char → List Char) (t : Node) (cl : List String → Option Nat) (n : Nat) : Prop :=
  ∀ cur s ch, cur ≠ [] → getAtS up t cur = some (.dir s ch) → ∀ c0, cl cur = some c0 →
    c0 ≠ n ∧ ∀ q, tabView d.fs d.img q ≠ .data c0

/-- `DirRes.apart` from a well-formed FAT: a free cluster is on no chain whose head is allocated -/
theorem apart_of_fatWf {d : Dev} {up : Char → List Char} {t : Node} {cl : List String → Option Nat} {c : Nat}
    (hw : FatWf (tabView d.fs d.img) d.fs.totalClusters) (hheads : DirHeadsAlloc d up t cl)
    (hfree : tabView d.fs d.img c = .free) :
    ∀ cur s ch, cur ≠ [] → getAtS up t cur = some (.dir s ch) → ∀ c0 chain, cl cur = some c0 →
      Chain (tabView d.fs d.img) c0 chain → c ∉ chain := by
  intro cur s ch hne hg c0 chain hcl hch
  refine FatDisjoint.free_not_in_any_chain hw hch hfree ?_
  intro h
  subst h
  exact hheads cur s ch hne hg c hcl hfree

/-- the resources of `create_dir` with `apart` discharged from `FatWf` -/
theorem DirRes.of_fatWf {d : Dev} {up : Char → List Char} {t : Node} {cl : List String → Option Nat}
    {slots : List (List Nat)} {name : String} {c : Nat} (geo : Geo d.fs d.img.size) (info : InfoOk d.fs d.img)
    (cs32 : d.fs.clusterSize % 32 = 0) (cs64 : 64 ≤ d.fs.clusterSize) (u32 : d.fs.clusterSize < 4294967296)
    (fuel : d.fs.clusterSize / 32 < dirFuel d.fs)
    (find : allocFindV (tabView d.fs d.img) d.fs.fsInfo.next d.fs.totalClusters = some c)
    (small : d.fs.totalClusters + 2 ≤ 65536) (room : HasRoomRoot d slots name)
    (hw : FatWf (tabView d.fs d.img) d.fs.totalClusters) (hheads : DirHeadsAlloc d up t cl) :
    DirRes d up t cl slots name c :=
  ⟨geo, info, cs32, cs64, u32, fuel, find, small, room,
    apart_of_fatWf hw hheads (allocFindV_some_lt _ _ _ _ find).2⟩

/-- `FreedApart` from a well-formed FAT: the chain of a head `n` is disjoint from the chains of other heads -/
theorem freedApart_of_fatWf {d : Dev} {up : Char → List Char} {t : Node} {cl : List String → Option Nat}
    {n : Nat} {cs : List Nat} (hw : FatWf (tabView d.fs d.img) d.fs.totalClusters)
    (hn : Chain (tabView d.fs d.img) n cs) (hnh : ∀ q, tabView d.fs d.img q ≠ .data n)
    (hdirs : DirHeadsApartFrom d up t cl n) : FreedApart d up t cl cs := by
  intro cur s c hne hg c0 chain hcl hch x hx
  obtain ⟨hne0, hh0⟩ := hdirs cur s c hne hg c0 hcl
  exact FatDisjoint.head_chains_disjoint hw hch hn hne0 hh0 hnh x hx

theorem freedApart_nil (d : Dev) (up : Char → List Char) (t : Node) (cl : List String → Option Nat) :
    FreedApart d up t cl [] :=
  fun _ _ _ _ _ _ _ _ _ _ _ h => by cases h

end SlotTreeImg
end FatVerif
