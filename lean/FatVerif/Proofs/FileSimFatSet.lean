import FatVerif.Proofs.FileSimFatWrite
/-!
# FileSim, part 10: `FatTrait::set` on the FAT slice = the array-level `Fat.set` on the first FAT copy
-/
namespace FatVerif.FileSim
open FatVerif FatVerif.Fat

theorem rawOfValue_eq (ft : FatType) (v : FatValue) : Table.rawOfValue ft v = Fat.rawOfValue ft v := by
  cases ft <;> cases v <;> rfl

section
variable {fs : FsState} {d d' : Dev}

theorem fatArr_wrote16 (o w : Nat) (h : FatWrote fs d d' o (bytesLe16 w)) (ho : o + 2 ≤ (fatSliceOf fs).size) :
    fatArr fs d'.img = wr16 (fatArr fs d.img) o w := by
  apply fatArr_eq_of_bytes
  · rw [size_wr16, fatArr_size]
  · intro i hi
    rw [h.first i hi, rd_wr16 _ _ _ _ (by rw [fatArr_size]; exact ho)]
    have hl : (bytesLe16 w).length = 2 := rfl
    rw [hl]
    by_cases h1 : i = o
    · subst h1
      rw [if_pos (show i ≤ i ∧ i < i + 2 by omega), if_pos rfl]
      simp [bytesLe16]
    · by_cases h2 : i = o + 1
      · subst h2
        rw [if_pos (show o ≤ o + 1 ∧ o + 1 < o + 2 by omega), if_neg h1, if_pos rfl]
        simp [bytesLe16]
      · rw [if_neg (show ¬ (o ≤ i ∧ i < o + 2) by omega), if_neg h1, if_neg h2, rd_fatArr fs d.img i hi]

theorem fatArr_wrote32 (o w : Nat) (h : FatWrote fs d d' o (bytesLe32 w)) (ho : o + 4 ≤ (fatSliceOf fs).size) :
    fatArr fs d'.img = wr32 (fatArr fs d.img) o w := by
  apply fatArr_eq_of_bytes
  · rw [size_wr32, fatArr_size]
  · intro i hi
    rw [h.first i hi, rd_wr32 _ _ _ _ (by rw [fatArr_size]; exact ho)]
    have hl : (bytesLe32 w).length = 4 := rfl
    rw [hl]
    by_cases h1 : i = o
    · subst h1
      rw [if_pos (show i ≤ i ∧ i < i + 4 by omega), if_pos rfl]
      simp [bytesLe32]
    · by_cases h2 : i = o + 1
      · subst h2
        rw [if_pos (show o ≤ o + 1 ∧ o + 1 < o + 4 by omega), if_neg h1, if_pos rfl]
        simp [bytesLe32]
      · by_cases h3 : i = o + 2
        · subst h3
          rw [if_pos (show o ≤ o + 2 ∧ o + 2 < o + 4 by omega), if_neg h1, if_neg h2, if_pos rfl]
          simp [bytesLe32]
        · by_cases h4 : i = o + 3
          · subst h4
            rw [if_pos (show o ≤ o + 3 ∧ o + 3 < o + 4 by omega), if_neg h1, if_neg h2, if_neg h3, if_pos rfl]
            simp [bytesLe32]
          · rw [if_neg (show ¬ (o ≤ i ∧ i < o + 4) by omega), if_neg h1, if_neg h2, if_neg h3, if_neg h4,
              rd_fatArr fs d.img i hi]

end

/-- what a FAT update does to the device: the first FAT copy becomes `arr'`, nothing outside the FAT copies changes -/
structure FatUpd (fs : FsState) (c : Nat) (d d' : Dev) (arr' : Array Nat) : Prop where
  step : DevStep d d'
  fs_eq : d'.fs = d.fs
  arr : fatArr fs d'.img = arr'
  frame : ∀ q, (q < (fatSliceOf fs).beginOff ∨
      (fatSliceOf fs).beginOff + (fatSliceOf fs).mirrors * (fatSliceOf fs).size ≤ q) →
    d'.img.getByte q = d.img.getByte q
  /-- only the windows of the entry of `c` in the FAT copies change -/
  fine : ∀ q, ¬ FatEntryPos fs c q → d'.img.getByte q = d.img.getByte q
  /-- the device write records: the new bytes of the entry window, once per FAT copy, first copy first -/
  recs : ∃ bs : List Nat, bs.length = entWidth fs.fatType ∧
    d'.log = recItems (mirrorRecs ((fatSliceOf fs).beginOff + entOff fs.fatType c) (fatSliceOf fs).size bs
      (fatSliceOf fs).mirrors 0) ++ d.log ∧
    d'.img = applyRecs d.img (mirrorRecs ((fatSliceOf fs).beginOff + entOff fs.fatType c) (fatSliceOf fs).size bs
      (fatSliceOf fs).mirrors 0)

theorem FatWrote.of_sameStore {fs : FsState} {d d1 d' : Dev} {o : Nat} {bs : List Nat} (hs : SameStore d d1)
    (h : FatWrote fs d1 d' o bs) : FatWrote fs d d' o bs :=
  ⟨(DevStep.of_sameStore hs).trans h.step, h.fs_eq.trans hs.fs, fun i hi => by rw [h.first i hi, hs.img],
   fun q hq => by rw [h.frame q hq, hs.img], fun q hq => by rw [h.fine q hq, hs.img],
   by rw [h.log, hs.log], by rw [h.img, hs.img]⟩

theorem FatWrote.recs_of {fs : FsState} {c : Nat} {d d' : Dev} {o : Nat} {bs : List Nat} (h : FatWrote fs d d' o bs)
    (ho : o = entOff fs.fatType c) (hl : bs.length = entWidth fs.fatType) :
    ∃ bs : List Nat, bs.length = entWidth fs.fatType ∧
      d'.log = recItems (mirrorRecs ((fatSliceOf fs).beginOff + entOff fs.fatType c) (fatSliceOf fs).size bs
        (fatSliceOf fs).mirrors 0) ++ d.log ∧
      d'.img = applyRecs d.img (mirrorRecs ((fatSliceOf fs).beginOff + entOff fs.fatType c) (fatSliceOf fs).size bs
        (fatSliceOf fs).mirrors 0) := by
  subst ho
  exact ⟨bs, hl, h.log, h.img⟩

/-- `FatTrait::set` at an entry of the table, on a volume already marked dirty -/
theorem run_table_set (fs : FsState) (s : DiskSlice) (hs : IsFatSlice fs s) (c : Nat) (v : FatValue) (d : Dev)
    (hfa : d.failAt = none) (hcd : d.fs.curDirty = true) (hwf : d.img.WF) (hg : Geo fs d.img.size)
    (hc : c < fs.totalClusters + 2) :
    ∃ d' s' arr', run (Table.set DiskSlice.strm fs.fatType s c v) d = (.ok s', d') ∧ IsFatSlice fs s' ∧
      Fat.set fs.fatType (fatArr fs d.img) c v = .ok arr' ∧ FatUpd fs c d d' arr' := by
  have hin := hg.inRange d.img hc
  unfold InRange u32Lim at hin
  rw [fatArr_size] at hin
  have hfdev := hg.fat_dev
  obtain ⟨hb, hsz, hm, hvf⟩ := hs
  have hnsp : ¬ special32 c := by
    have := hg.small
    unfold special32
    cases hft : fs.fatType <;> rw [hft] at this <;> simp only [badMark] at this <;> omega
  cases hft : fs.fatType with
  | fat16 =>
    rw [hft] at hin
    simp only [off, width] at hin
    unfold Table.set
    simp only
    rw [run_bind_ok (run_slice_seekStart s (c * 2) d (by rw [hsz]; omega))]
    simp only
    obtain ⟨d1, h1, hw1⟩ := run_fat_writeAll fs { s with offset := c * 2 } ⟨hb, hsz, hm, hvf⟩
      (bytesLe16 (Table.rawOfValue .fat16 v % 65536)) (by simp [bytesLe16])
      (by show c * 2 + 2 ≤ s.size; rw [hsz]; omega) d hfa hcd hwf hg
    refine ⟨d1, _, _, h1, ⟨hb, hsz, hm, hvf⟩, ?_, hw1.step, hw1.fs_eq, fatArr_wrote16 _ _ hw1 (by show c * 2 + 2 ≤ _; omega), hw1.frame,
      fun q hq => hw1.fine q (fun i hi h => hq ⟨i, hi, by rw [hft]; exact h.1, by rw [hft]; exact h.2⟩),
      FatWrote.recs_of hw1 (by rw [hft]; rfl) (by rw [hft]; rfl)⟩
    simp only [Fat.set, setRaw16, u32Lim, fatArr_size, rawOfValue_eq]
    rw [if_neg (by omega), if_neg (by omega)]
  | fat12 =>
    rw [hft] at hin
    simp only [off, width] at hin
    unfold Table.set
    simp only
    rw [run_bind_ok (run_slice_seekStart s (c + c / 2) d (by rw [hsz]; omega))]
    simp only
    obtain ⟨d1, h1, hs1⟩ := run_slice_readU16 { s with offset := c + c / 2 } d hfa (by show c + c / 2 + 2 ≤ s.size; rw [hsz]; omega)
      (by show s.beginOff + s.size ≤ _; rw [hb, hsz]; exact hfdev)
    rw [run_bind_ok h1]
    simp only
    rw [run_bind_ok (run_slice_seekStart _ (c + c / 2) d1 (by show c + c / 2 ≤ s.size; rw [hsz]; omega))]
    simp only
    obtain ⟨d2, h2, hw2⟩ := run_fat_writeAll fs { s with offset := c + c / 2 } ⟨hb, hsz, hm, hvf⟩
      (bytesLe16 (if c % 2 = 0 then d.img.le16 (s.beginOff + (c + c / 2)) / 4096 * 4096 |||
          Table.rawOfValue .fat12 v % 65536
        else d.img.le16 (s.beginOff + (c + c / 2)) % 16 ||| Table.rawOfValue .fat12 v % 65536 * 16 % 65536))
      (by simp [bytesLe16])
      (by show c + c / 2 + 2 ≤ s.size; rw [hsz]; omega) d1
      (by rw [hs1.failAt]; exact hfa) (by rw [hs1.fs]; exact hcd) (by rw [hs1.img]; exact hwf)
      (by rw [hs1.img]; exact hg)
    have hw := hw2.of_sameStore hs1
    refine ⟨d2, _, _, h2, ⟨hb, hsz, hm, hvf⟩, ?_, hw.step, hw.fs_eq, fatArr_wrote16 _ _ hw (by show c + c / 2 + 2 ≤ _; omega), hw.frame,
      fun q hq => hw.fine q (fun i hi h => hq ⟨i, hi, by rw [hft]; exact h.1, by rw [hft]; exact h.2⟩),
      FatWrote.recs_of hw (by rw [hft]; rfl) (by rw [hft]; rfl)⟩
    simp only [Fat.set, setRaw12, u32Lim, fatArr_size, rawOfValue_eq, pack12]
    rw [if_neg (by omega), if_neg (by omega), rd16_fatArr fs d.img _ (by omega), hb]
  | fat32 =>
    rw [hft] at hin
    simp only [off, width] at hin
    unfold Table.set
    simp only
    obtain ⟨d1, h1, hs1⟩ := run_getRaw .fat32 s c d hfa (by simp only [entOff, entWidth]; rw [hsz]; omega)
      (by rw [hb, hsz]; exact hfdev)
    rw [run_bind_ok h1]
    simp only
    have hnp : ¬ (v = FatValue.free ∧ Table.isSpecial32 c = true) := by
      rintro ⟨_, h2⟩
      apply hnsp
      simpa [Table.isSpecial32, special32] using h2
    rw [if_neg hnp]
    rw [run_bind_ok (run_slice_seekStart _ (c * 4) d1 (by show c * 4 ≤ s.size; rw [hsz]; omega))]
    simp only
    obtain ⟨d2, h2, hw2⟩ := run_fat_writeAll fs { s with offset := c * 4 } ⟨hb, hsz, hm, hvf⟩
      (bytesLe32 (Table.rawOfValue .fat32 v ||| imgFatRaw .fat32 s.beginOff d.img c / 0x10000000 * 0x10000000))
      (by simp [bytesLe32])
      (by show c * 4 + 4 ≤ s.size; rw [hsz]; omega) d1
      (by rw [hs1.failAt]; exact hfa) (by rw [hs1.fs]; exact hcd) (by rw [hs1.img]; exact hwf)
      (by rw [hs1.img]; exact hg)
    have hw := hw2.of_sameStore hs1
    refine ⟨d2, _, _, h2, ⟨hb, hsz, hm, hvf⟩, ?_, hw.step, hw.fs_eq, fatArr_wrote32 _ _ hw (by show c * 4 + 4 ≤ _; omega), hw.frame,
      fun q hq => hw.fine q (fun i hi h => hq ⟨i, hi, by rw [hft]; exact h.1, by rw [hft]; exact h.2⟩),
      FatWrote.recs_of hw (by rw [hft]; rfl) (by rw [hft]; rfl)⟩
    simp only [Fat.set, set32, getRaw32, setRaw32, u32Lim, fatArr_size, rawOfValue_eq, imgFatRaw]
    rw [if_neg (by omega), if_neg (by omega)]
    simp only
    rw [if_neg (fun h => hnsp h.2), if_neg (by omega), if_neg (by omega), rd32_fatArr fs d.img _ (by omega), hb]

end FatVerif.FileSim
