import FatVerif.Proofs.DirSlotsItems
/-! `write_entry` and the delete loop on a well-formed directory, in terms of items. -/
namespace FatVerif
namespace DirSlots
open Lfn LongNameBuilder

/-- the directory has the shape: items, then the end region -/
def Shape (slots : List (List Nat)) : Prop :=
  ∃ items tail, slots = flatten items ++ tail ∧ (∀ it ∈ items, it.Ok) ∧ ∀ t ∈ tail, isEnd t = true

/-- two entries can never be hit by the same query (long name or alias, up to case) -/
def KeysDisjoint (upper : Char → List Char) (e1 e2 : LfnEntry) : Prop :=
  ∀ q, ¬ (matchesName upper e1 q = true ∧ matchesName upper e2 q = true)

/-- **well-formed directory**: nothing but end markers after the first end marker; every long-name slot belongs to a
    complete run directly before its short entry (`Shape`); no two entries with the same raw short name; no two entries
    reachable by the same name up to case -/
structure DirWf (upper : Char → List Char) (slots : List (List Nat)) : Prop where
  shape : Shape slots
  rawNodup : ((listing slots).map fun e => sfnName e.sfn).Nodup
  keys : (listing slots).Pairwise (KeysDisjoint upper)

theorem listing_shape (alloc : Bool) (items : List Item) (tail : List (List Nat)) (hok : ∀ it ∈ items, it.Ok)
    (ht : ∀ t ∈ tail, isEnd t = true) : readDirEntries alloc true (flatten items ++ tail) = listOf items 0 :=
  readLoop_items alloc items 0 _ tail hok ht (Dead_new alloc)

/-! ### writing -/

theorem writeAt_mid (A X new : List (List Nat)) : writeAt (A ++ X) A.length new = A ++ new ++ X.drop new.length := by
  unfold writeAt
  rw [List.take_left' rfl, List.drop_length_add_append]

theorem writeAt_getD_before (slots new : List (List Nat)) (p i : Nat) (hp : p ≤ slots.length) (hi : i < p) :
    (writeAt slots p new).getD i [] = slots.getD i [] := by
  unfold writeAt
  rw [List.append_assoc, getD_append_left' _ _ _ (by simp; omega)]
  simp [List.getD_eq_getElem?_getD, hi]

theorem writeAt_getD_after (slots new : List (List Nat)) (p i : Nat) (hp : p ≤ slots.length)
    (hi : p + new.length ≤ i) : (writeAt slots p new).getD i [] = slots.getD i [] := by
  unfold writeAt
  have hl : (List.take p slots ++ new).length = p + new.length := by simp; omega
  simp only [List.getD_eq_getElem?_getD]
  rw [List.getElem?_append_right (by omega), hl, List.getElem?_drop]
  congr 2; omega

theorem entrySlots_length (units sfn : List Nat) (h1 : 1 ≤ units.length) (h255 : units.length ≤ 255)
    (hu : ∀ x ∈ units, x < 65536) : (entrySlots units sfn).length = numParts units.length + 1 := by
  obtain ⟨_, _, _, g4⟩ := generate_complete units (lfnChecksum (sfnName sfn)) h1 (by omega) hu
  simp [entrySlots, g4]

/-- the item a successful `write_entry` adds -/
def newItem (units sfn : List Nat) : Item := .entry (lfnGenerate units (lfnChecksum (sfnName sfn))) sfn

theorem newItem_ok (units sfn : List Nat) (h1 : 1 ≤ units.length) (h255 : units.length ≤ 255)
    (hu : ∀ x ∈ units, x < 65536) (hsfn : slotClass sfn = .file) : (newItem units sfn).Ok := by
  obtain ⟨g1, _, g3, _⟩ := generate_complete units (lfnChecksum (sfnName sfn)) h1 (by omega) hu
  exact ⟨Or.inr g1, g3, hsfn⟩

theorem newItem_name (units sfn : List Nat) (h1 : 1 ≤ units.length) (h255 : units.length ≤ 255)
    (hu : ∀ x ∈ units, x < 65536) (hnz : ∀ x ∈ units, x ≠ 0) :
    nameOf (lfnGenerate units (lfnChecksum (sfnName sfn))) = units := by
  obtain ⟨_, g2, _, _⟩ := generate_complete units (lfnChecksum (sfnName sfn)) h1 (by omega) hu
  rw [nameOf, g2, cutAtNul_padded _ hnz, capName,
    if_neg (by omega)]

/-- **`write_entry` on a well-formed directory, in terms of items**: either `num` deleted items are replaced by the new
    entry item (reclaimed run), or the new item goes after the last item, swallowing fewer than `num` trailing deleted
    items and the first `num − d` slots of the end region (end marker; incl. the trailing-deleted-run quirk) -/
theorem writeEntry_items (items : List Item) (tail : List (List Nat)) (units sfn : List Nat)
    (hok : ∀ it ∈ items, it.Ok) (ht : ∀ t ∈ tail, isEnd t = true)
    (h1 : 1 ≤ units.length) (h255 : units.length ≤ 255) (hu : ∀ x ∈ units, x < 65536) :
    ∃ I1 Dd I2, items = I1 ++ Dd ++ I2 ∧ (∀ it ∈ Dd, it.IsDeleted) ∧
      findFree (flatten items ++ tail) (numParts units.length + 1) = (flatten I1).length ∧
      ((Dd.length = numParts units.length + 1 ∧
          writeEntry (flatten items ++ tail) units sfn = flatten (I1 ++ [newItem units sfn] ++ I2) ++ tail) ∨
        (Dd.length < numParts units.length + 1 ∧ I2 = [] ∧
          writeEntry (flatten items ++ tail) units sfn =
            flatten (I1 ++ [newItem units sfn]) ++ tail.drop (numParts units.length + 1 - Dd.length))) := by
  obtain ⟨I1, Dd, I2, e1, e2, e3, e4⟩ := findFree_items (numParts units.length + 1) (by omega) items tail hok ht
  have hlen := entrySlots_length units sfn h1 h255 hu
  have hDlen := (listOf_deleted Dd 0 e2).2
  refine ⟨I1, Dd, I2, e1, e2, e3, ?_⟩
  have hw : writeEntry (flatten items ++ tail) units sfn =
      flatten I1 ++ entrySlots units sfn ++ (flatten Dd ++ flatten I2 ++ tail).drop (numParts units.length + 1) := by
    unfold writeEntry
    rw [e3, e1]
    simp only [flatten_append, List.append_assoc]
    rw [← hlen]
    have := writeAt_mid (flatten I1) (flatten Dd ++ (flatten I2 ++ tail)) (entrySlots units sfn)
    simpa [List.append_assoc] using this
  rcases e4 with e4 | ⟨e4, rfl⟩
  · left
    refine ⟨e4, ?_⟩
    rw [hw, List.append_assoc (flatten Dd), List.drop_left' (by omega)]
    simp [newItem, Item.slots, entrySlots]
  · right
    refine ⟨e4, rfl, ?_⟩
    rw [hw]
    simp only [flatten_nil, List.append_nil, flatten_append, flatten_cons, newItem, Item.slots, entrySlots]
    rw [List.drop_append, List.drop_of_length_le (by omega), hDlen]
    simp

/-! ### deleting -/

theorem markDeleted_class (s : List Nat) (h : isEnd s = false) : slotClass (markDeleted s) = .deleted := by
  cases s with
  | nil => simp [isEnd, byte] at h
  | cons a t =>
    have h0 : byte (markDeleted (a :: t)) 0 = 0xE5 := by
      simp [markDeleted, byte]
    simp [slotClass, isEnd, isDeleted, h0]

theorem deleteFrom_before : ∀ (A X : List (List Nat)) (i b e : Nat), i + A.length ≤ b →
    deleteFrom (A ++ X) i b e = A ++ deleteFrom X (i + A.length) b e := by
  intro A
  induction A with
  | nil => intros; simp
  | cons a A ih =>
    intro X i b e h
    simp only [List.length_cons] at h
    simp only [List.cons_append, deleteFrom]
    rw [if_neg (by omega), ih X (i + 1) b e (by omega)]
    simp only [List.length_cons]
    rw [show i + 1 + A.length = i + (A.length + 1) by omega]

theorem deleteFrom_in : ∀ (B X : List (List Nat)) (i b e : Nat), b ≤ i → i + B.length ≤ e →
    deleteFrom (B ++ X) i b e = B.map markDeleted ++ deleteFrom X (i + B.length) b e := by
  intro B
  induction B with
  | nil => intros; simp
  | cons a B ih =>
    intro X i b e h1 h2
    simp only [List.length_cons] at h2
    simp only [List.cons_append, deleteFrom, List.map_cons]
    rw [if_pos (by omega), ih X (i + 1) b e (by omega) (by omega)]
    simp only [List.length_cons]
    rw [show i + 1 + B.length = i + (B.length + 1) by omega]

theorem deleteFrom_after : ∀ (X : List (List Nat)) (i b e : Nat), e ≤ i → deleteFrom X i b e = X := by
  intro X
  induction X with
  | nil => intros; rfl
  | cons a X ih =>
    intro i b e h
    simp only [deleteFrom]
    rw [if_neg (by omega), ih (i + 1) b e (by omega)]

theorem deleteRange_mid (A B C : List (List Nat)) :
    deleteRange (A ++ B ++ C) A.length (A.length + B.length) = A ++ B.map markDeleted ++ C := by
  unfold deleteRange
  rw [List.append_assoc, deleteFrom_before A _ 0 _ _ (by omega), deleteFrom_in B C _ _ _ (by omega) (by omega),
    deleteFrom_after C _ _ _ (by omega)]
  simp

theorem deleteRange_length (slots : List (List Nat)) (b e : Nat) : (deleteRange slots b e).length = slots.length := by
  unfold deleteRange
  generalize 0 = i
  induction slots generalizing i with
  | nil => rfl
  | cons s t ih => simp [deleteFrom, ih]

/-- every listed entry is an entry item, at the position its range says -/
theorem mem_listOf : ∀ (items : List Item) (i : Nat) (e : LfnEntry), e ∈ listOf items i →
    ∃ I1 R sfn I2, items = I1 ++ [.entry R sfn] ++ I2 ∧
      e = ⟨sfn, nameOf R, i + (flatten I1).length, i + (flatten I1).length + R.length + 1⟩ := by
  intro items
  induction items with
  | nil => intro i e he; simp [listOf] at he
  | cons it items ih =>
    intro i e he
    cases it with
    | deleted s =>
      obtain ⟨I1, R, sfn, I2, e1, e2⟩ := ih (i + 1) e (by simpa [listOf] using he)
      exact ⟨.deleted s :: I1, R, sfn, I2, by simp [e1], by rw [e2]; simp [Item.slots]; omega⟩
    | label s =>
      obtain ⟨I1, R, sfn, I2, e1, e2⟩ := ih (i + 1) e (by simpa [listOf] using he)
      exact ⟨.label s :: I1, R, sfn, I2, by simp [e1], by rw [e2]; simp [Item.slots]; omega⟩
    | entry R sfn =>
      simp only [listOf, List.mem_cons] at he
      rcases he with rfl | he
      · exact ⟨[], R, sfn, items, by simp, by simp⟩
      · obtain ⟨I1, R', sfn', I2, e1, e2⟩ := ih _ e he
        exact ⟨.entry R sfn :: I1, R', sfn', I2, by simp [e1], by rw [e2]; simp [Item.slots]; omega⟩

/-- the items that replace an entry item when its range is deleted -/
def deletedItems (R : List (List Nat)) (sfn : List Nat) : List Item :=
  (R ++ [sfn]).map fun s => .deleted (markDeleted s)

theorem deletedItems_ok (R : List (List Nat)) (sfn : List Nat) (hok : (Item.entry R sfn).Ok) :
    (∀ it ∈ deletedItems R sfn, it.Ok) ∧ (∀ it ∈ deletedItems R sfn, it.IsDeleted) ∧
      flatten (deletedItems R sfn) = (R ++ [sfn]).map markDeleted := by
  obtain ⟨hu, _⟩ := item_slots_used _ hok (by simp [Item.IsDeleted])
  refine ⟨?_, ?_, ?_⟩
  · intro it hit
    obtain ⟨s, hs, rfl⟩ := List.mem_map.1 hit
    exact markDeleted_class s (hu s hs).1
  · intro it hit
    obtain ⟨s, _, rfl⟩ := List.mem_map.1 hit
    trivial
  · unfold deletedItems flatten
    generalize R ++ [sfn] = L
    induction L with
    | nil => rfl
    | cons a L ih => simp [Item.slots, ih]

/-- the delete loop over an entry's range, in terms of items -/
theorem deleteRange_items (I1 I2 : List Item) (R : List (List Nat)) (sfn : List Nat) (tail : List (List Nat))
    (hok : (Item.entry R sfn).Ok) :
    deleteRange (flatten (I1 ++ [.entry R sfn] ++ I2) ++ tail) (flatten I1).length
        ((flatten I1).length + R.length + 1) =
      flatten (I1 ++ deletedItems R sfn ++ I2) ++ tail := by
  have hd := (deletedItems_ok R sfn hok).2.2
  simp only [flatten_append, flatten_cons, flatten_nil, List.append_nil, Item.slots, hd]
  have := deleteRange_mid (flatten I1) (R ++ [sfn]) (flatten I2 ++ tail)
  simp only [List.length_append, List.length_cons, List.length_nil] at this
  simp only [List.append_assoc] at this ⊢
  rw [← this]
  congr 1

end DirSlots
end FatVerif
