import FatVerif.Proofs.DirWriteSim8
/-! Directory WRITES, part 9: `File::seek` on a cluster-chain directory handle (to a target inside the allocated
    space), and the write family of a chain directory without an entry. -/
namespace FatVerif.DirSim
open FatVerif.FileSim FatVerif.Fat DirEntryData

/-- `ceil(x / cs) = (x - 1) / cs + 1` for `x > 0` -/
theorem ceil_div {x cs : Nat} (hcs : 0 < cs) (hx : 0 < x) : (x + cs - 1) / cs = (x - 1) / cs + 1 := by
  have : x + cs - 1 = (x - 1) + cs := by omega
  rw [this, Nat.add_div_right _ hcs]

section chain
variable {d : Dev} {f0 : FileH} {c0 : Nat} {chain : List Nat}

/-- `File::seek` of a size-less handle, restated with `seekBody` (Proofs/FileSimSeek.lean) -/
theorem seek_eq_dir (f : FileH) (hsz : f.size? = none) (p : FatVerif.SeekFrom) :
    f.seek p = (Prog.getFs >>= fun fs =>
      match (match p with
        | .cur x => (if -9223372036854775808 ≤ (f.offset : Int) + x ∧ (f.offset : Int) + x ≤ 9223372036854775807
            then some ((f.offset : Int) + x) else none).bind
            (fun t => if 0 ≤ t ∧ t < 4294967296 then some t.toNat else none)
        | .start x => if x < 4294967296 then some x else none
        | .fromEnd _ => none) with
      | none => Prog.fail Err.invalidInput
      | some t => seekBody f fs t) := by
  unfold FileH.seek seekBody
  simp only [hsz]
  cases p <;> rfl

/-- the clamped part of `seek` on a chain-directory handle: from byte `o` to byte `t`, both inside the allocated space -/
theorem ChainCore.seekBody_sim (C : ChainCore d f0 c0 chain) (o t : Nat) (ho : o ≤ chain.length * d.fs.clusterSize)
    (ht : t ≤ chain.length * d.fs.clusterSize) :
    ∃ d1, run (seekBody (dirFile f0 chain d.fs.clusterSize o) d.fs t) d =
      (.ok (t, dirFile f0 chain d.fs.clusterSize t), d1) ∧ SameStore d d1 := by
  have hcs := C.geo.cs_pos
  have hu := C.u32
  have hoff : (dirFile f0 chain d.fs.clusterSize o).offset = o := rfl
  unfold seekBody
  rw [hoff]
  by_cases h1 : t = o
  · rw [if_pos h1, h1]; exact ⟨d, rfl, SameStore.refl d⟩
  rw [if_neg h1]
  by_cases h0 : t = 0
  · rw [if_pos h0, h0]
    exact ⟨d, rfl, SameStore.refl d⟩
  rw [if_neg h0]
  rw [clustersFromBytes_eq d.fs t hcs (by omega), clustersFromBytes_eq d.fs o hcs (by omega)]
  unfold Cursor.clustersFromBytes
  have htc := ceil_div hcs (show 0 < t by omega)
  have hcur_t : ∀ c, chain[(t - 1) / d.fs.clusterSize]? = some c →
      FileH.mk (some c0) (some c) t (dirFile f0 chain d.fs.clusterSize o).entry =
        dirFile f0 chain d.fs.clusterSize t := by
    intro c hc
    simp only [dirFile, if_neg h0, hc, C.first]
  by_cases hsame : (t + d.fs.clusterSize - 1) / d.fs.clusterSize = (o + d.fs.clusterSize - 1) / d.fs.clusterSize
  · rw [if_pos hsame]
    have ho0 : o ≠ 0 := by
      intro h; subst h
      have hz : (0 + d.fs.clusterSize - 1) / d.fs.clusterSize = 0 := by
        rw [Nat.zero_add]; exact Nat.div_eq_of_lt (by omega)
      rw [hz, htc] at hsame
      exact absurd hsame (Nat.succ_ne_zero _)
    have hoc := ceil_div hcs (show 0 < o by omega)
    have heq : (t - 1) / d.fs.clusterSize = (o - 1) / d.fs.clusterSize := by omega
    refine ⟨d, ?_, SameStore.refl d⟩
    have : ({ firstCluster := (dirFile f0 chain d.fs.clusterSize o).firstCluster,
              currentCluster := (dirFile f0 chain d.fs.clusterSize o).currentCluster, offset := t,
              entry := (dirFile f0 chain d.fs.clusterSize o).entry } : FileH) = dirFile f0 chain d.fs.clusterSize t := by
      simp only [dirFile, if_neg h0, if_neg ho0, heq]
    rw [← this]; rfl
  · rw [if_neg hsame]
    have hfirst : (dirFile f0 chain d.fs.clusterSize o).firstCluster = some c0 := C.first
    rw [hfirst]
    simp only
    have hidx : (t - 1) / d.fs.clusterSize < chain.length := div_lt_of_lt_mul hcs (by omega)
    obtain ⟨d1, c', h1', hget, hs1⟩ := run_seekWalk d.fs d.img chain c0 C.geo C.link (fun c hc => (C.inTab c hc).2)
      ((t + d.fs.clusterSize - 1) / d.fs.clusterSize + 1) { fat := fatSliceOf d.fs, cluster := some c0 } c0 0
      ((t + d.fs.clusterSize - 1) / d.fs.clusterSize - 1) t 0 d C.failAt rfl rfl rfl rfl (isFatSlice_self _) C.head
      (by rw [htc]; simp only [Nat.add_sub_cancel, Nat.sub_zero, Nat.zero_add]; exact hidx)
      (Nat.le_trans (Nat.sub_le _ _) (Nat.le_trans (Nat.sub_le _ _) (Nat.le_succ _)))
    rw [htc] at hget
    simp only [Nat.add_sub_cancel, Nat.zero_add, Nat.sub_zero] at hget
    refine ⟨d1, ?_, hs1⟩
    rw [run_bind_ok h1']
    simp only
    rw [hcur_t c' hget]
    rfl

/-- `seek(Current(-32))` after a slot -/
theorem ChainCore.seekBack (C : ChainCore d f0 c0 chain) (o : Nat) (hroom : o + 32 ≤ chain.length * d.fs.clusterSize) :
    ∃ d1, run ((dirFile f0 chain d.fs.clusterSize (o + 32)).seek (.cur (-32))) d =
      (.ok (o, dirFile f0 chain d.fs.clusterSize o), d1) ∧ SameStore d d1 := by
  have hu := C.u32
  obtain ⟨d1, h1, hs1⟩ := C.seekBody_sim (o + 32) o hroom (by omega)
  refine ⟨d1, ?_, hs1⟩
  rw [seek_eq_dir (dirFile f0 chain d.fs.clusterSize (o + 32)) C.nosize, run_bind_ok (run_getFs d)]
  have hoff : (dirFile f0 chain d.fs.clusterSize (o + 32)).offset = o + 32 := rfl
  have e1 : (((o + 32 : Nat) : Int) + (-32)) = (o : Int) := by omega
  have c1 : (-9223372036854775808 : Int) ≤ (o : Int) ∧ (o : Int) ≤ 9223372036854775807 := by omega
  have c2 : (0 : Int) ≤ (o : Int) ∧ (o : Int) < 4294967296 := by omega
  simp only [hoff, e1, c1, c2, and_self, if_true, Option.bind, Int.toNat_natCast]
  exact h1

/-- `seek(Start(t))` -/
theorem ChainCore.seekStart (C : ChainCore d f0 c0 chain) (o t : Nat) (ho : o ≤ chain.length * d.fs.clusterSize)
    (ht : t ≤ chain.length * d.fs.clusterSize) :
    ∃ d1, run ((dirFile f0 chain d.fs.clusterSize o).seek (.start t)) d =
      (.ok (t, dirFile f0 chain d.fs.clusterSize t), d1) ∧ SameStore d d1 := by
  have hu := C.u32
  obtain ⟨d1, h1, hs1⟩ := C.seekBody_sim o t ho ht
  refine ⟨d1, ?_, hs1⟩
  rw [seek_eq_dir (dirFile f0 chain d.fs.clusterSize o) C.nosize, run_bind_ok (run_getFs d)]
  simp only [show t < 4294967296 by omega, if_true]
  exact h1

end chain

end FatVerif.DirSim
