import FatVerif.Proofs.SlotTreeBasic
/-!
# Slot trees: navigation (`getAtS`, `updS`) against the specification's `getAt` / `updateAt`
-/
namespace FatVerif
namespace SlotTree
open Lfn DirSlots DirAlias

variable {up : Char → List Char}

/-! ## sub-nodes inherit tree-wide predicates -/

theorem lookupS_mem {slots : List (List Nat)} {ch : List (LfnEntry × Node)} {q : String} {x : LfnEntry × Node}
    (h : lookupS up slots ch q = some x) : x ∈ ch := by
  unfold lookupS at h
  split at h
  · cases h
  · exact List.mem_of_find?_eq_some h

theorem all_getAtS (P : List (List Nat) → List (LfnEntry × Node) → Prop) :
    ∀ (p : List String) (t n : Node), t.All P → getAtS up t p = some n → n.All P := by
  intro p
  induction p with
  | nil => intro t n h hg; simp [getAtS] at hg; rw [← hg]; exact h
  | cons q r ih =>
    intro t n h hg
    cases t with
    | file c => simp [getAtS] at hg
    | dir slots ch =>
      simp only [getAtS] at hg
      cases hl : lookupS up slots ch q with
      | none => rw [hl] at hg; cases hg
      | some x =>
        rw [hl] at hg
        exact ih x.2 n (((all_dir P slots ch).1 h).2 x (lookupS_mem hl)) hg

theorem getAtS_append : ∀ (p r : List String) (t : Node),
    getAtS up t (p ++ r) = (getAtS up t p).bind fun n => getAtS up n r := by
  intro p
  induction p with
  | nil => intro r t; simp [getAtS]
  | cons q p ih =>
    intro r t
    cases t with
    | file c => simp [getAtS]
    | dir slots ch =>
      simp only [List.cons_append, getAtS]
      cases lookupS up slots ch q with
      | none => rfl
      | some x => exact ih r x.2

theorem getAtS_file (c : List Nat) (p : List String) (n : Node) (h : getAtS up (.file c) p = some n) :
    p = [] ∧ n = .file c := by
  cases p with
  | nil => simp [getAtS] at h; exact ⟨rfl, h.symm⟩
  | cons _ _ => simp [getAtS] at h

theorem dropLast_append_getLast (p : List String) (h : p ≠ []) : ∃ l, p = p.dropLast ++ [l] :=
  ⟨p.getLast h, (List.dropLast_concat_getLast h).symm⟩

theorem getAtS_dropLast (t : Node) (p : List String) (n : Node) (h : getAtS up t p = some n) :
    ∃ m, getAtS up t p.dropLast = some m := by
  by_cases hp : p = []
  · subst hp; exact ⟨n, h⟩
  · obtain ⟨l, hl⟩ := dropLast_append_getLast p hp
    rw [hl, getAtS_append] at h
    cases hm : getAtS up t p.dropLast with
    | none => rw [hm] at h; cases h
    | some m => exact ⟨m, rfl⟩

/-- the parent of something is a directory -/
theorem getAtS_dropLast_dir (t : Node) (p : List String) (n : Node) (hp : p ≠ []) (h : getAtS up t p = some n) :
    ∃ s c, getAtS up t p.dropLast = some (.dir s c) := by
  obtain ⟨l, hl⟩ := dropLast_append_getLast p hp
  rw [hl, getAtS_append] at h
  cases hm : getAtS up t p.dropLast with
  | none => rw [hm] at h; cases h
  | some m =>
    rw [hm] at h
    cases m with
    | file c => simp [getAtS] at h
    | dir s c => exact ⟨s, c, rfl⟩

/-! ## `Lock` -/

theorem lock_append : ∀ (p r : List String) (t : Node),
    Lock up t (p ++ r) ↔ Lock up t p ∧ ∀ n, getAtS up t p = some n → Lock up n r := by
  intro p
  induction p with
  | nil => intro r t; simp [Lock, getAtS]
  | cons q p ih =>
    intro r t
    cases t with
    | file c => simp [Lock, getAtS]
    | dir slots ch =>
      simp only [List.cons_append, Lock, getAtS]
      constructor
      · rintro ⟨h1, h2⟩
        refine ⟨⟨h1, fun x hx => ((ih r x.2).1 (h2 x hx)).1⟩, ?_⟩
        intro n hn
        cases hl : lookupS up slots ch q with
        | none => rw [hl] at hn; cases hn
        | some x => rw [hl] at hn; exact ((ih r x.2).1 (h2 x hl)).2 n hn
      · rintro ⟨⟨h1, h2⟩, h3⟩
        refine ⟨h1, fun x hx => (ih r x.2).2 ⟨h2 x hx, fun n hn => h3 n ?_⟩⟩
        rw [hx]; exact hn

theorem lock_dropLast (t : Node) (p : List String) (h : Lock up t p) : Lock up t p.dropLast := by
  by_cases hp : p = []
  · subst hp; exact h
  · obtain ⟨l, hl⟩ := dropLast_append_getLast p hp
    rw [hl] at h
    exact ((lock_append _ _ t).1 h).1

/-- extending a handle by the stored name of a child -/
theorem lock_snoc (t : Node) (hwf : TreeWf up t) (p : List String) (hl : Lock up t p) (s : List (List Nat))
    (ch : List (LfnEntry × Node)) (hg : getAtS up t p = some (.dir s ch)) (x : LfnEntry × Node) (hx : x ∈ ch) :
    Lock up t (p ++ [entryName x.1]) ∧ getAtS up t (p ++ [entryName x.1]) = some x.2 := by
  have hd : DirOk up s ch := ((all_dir _ s ch).1 (all_getAtS _ p t _ hwf hg)).1
  constructor
  · rw [lock_append]
    refine ⟨hl, fun n hn => ?_⟩
    rw [hg] at hn
    cases hn
    refine ⟨?_, fun _ _ => trivial⟩
    intro e he hm
    rw [entryName_toList] at hm ⊢
    rw [hd.name_hits_self (hd.mem_listing hx) he hm]
  · rw [getAtS_append, hg]
    simp only [Option.bind, getAtS]
    rw [lookupS_self hd hx]

/-! ## `getAt` -/

theorem getAt_corr (u : Char → List Char) : ∀ (p : List String) (t : Node), TreeWf (upOf u) t → Lock (upOf u) t p →
    Spec.getAt (cfgOf u) (abs t) p = (getAtS (upOf u) t p).map abs := by
  intro p
  induction p with
  | nil => intro t _ _; simp [Spec.getAt, getAtS]
  | cons q r ih =>
    intro t hwf hl
    cases t with
    | file c =>
      simp [Spec.getAt, getAtS, abs, Spec.findEntry, Spec.TNode.children]
    | dir slots ch =>
      obtain ⟨hd, hch⟩ := (all_dir _ slots ch).1 hwf
      simp only [Lock] at hl
      simp only [Spec.getAt, getAtS]
      rw [find_corr u hd q hl.1]
      cases hx : lookupS (upOf u) slots ch q with
      | none => rfl
      | some x =>
        simp only [Option.map]
        exact ih x.2 (hch x (lookupS_mem hx)) (hl.2 x hx)

/-! ## `updS` -/

theorem updS_isDir (f : Node → Node) (p : List String) (t : Node) (h : p = [] → (f t).isDir = t.isDir) :
    (updS up f p t).isDir = t.isDir := by
  cases p with
  | nil => exact h rfl
  | cons q r =>
    cases t with
    | file c => rfl
    | dir slots ch =>
      simp only [updS]
      split <;> rfl

theorem getAtS_cons_of_mem {slots : List (List Nat)} {ch : List (LfnEntry × Node)} (hd : DirOk up slots ch)
    {q : String} {e : LfnEntry} (hf : findEntry up slots q.toList = some e) {x : LfnEntry × Node} (hx : x ∈ ch)
    (hk : x.1 = e) (r : List String) : getAtS up (.dir slots ch) (q :: r) = getAtS up x.2 r := by
  have : lookupS up slots ch q = some x := by
    unfold lookupS
    rw [hf, ← hk]
    exact hd.find_key hx
  simp only [getAtS, this]

/-- updating the node at a path keeps the tree well-formed if the new node is well-formed and of the same kind -/
theorem wf_updS (f : Node → Node) : ∀ (p : List String) (t : Node), TreeWf up t →
    (∀ n, getAtS up t p = some n → TreeWf up (f n) ∧ (f n).isDir = n.isDir) → TreeWf up (updS up f p t) := by
  intro p
  induction p with
  | nil => intro t _ h; exact (h t rfl).1
  | cons q r ih =>
    intro t hwf h
    cases t with
    | file c => exact hwf
    | dir slots ch =>
      obtain ⟨hd, hch⟩ := (all_dir _ slots ch).1 hwf
      simp only [updS]
      cases hf : findEntry up slots q.toList with
      | none => exact hwf
      | some e =>
        simp only
        have hreach : ∀ x ∈ ch, x.1 = e → ∀ n, getAtS up x.2 r = some n →
            TreeWf up (f n) ∧ (f n).isDir = n.isDir := by
          intro x hx hk n hn
          exact h n (by rw [getAtS_cons_of_mem hd hf hx hk]; exact hn)
        refine (all_dir _ _ _).2 ⟨⟨hd.wf, ?_, ?_⟩, ?_⟩
        · have : (ch.map fun x => if x.1 == e then (x.1, updS up f r x.2) else x).map (·.1) = ch.map (·.1) := by
            rw [List.map_map]
            apply List.map_congr_left
            intro x _
            simp only [Function.comp]
            split <;> rfl
          rw [this]; exact hd.perm
        · intro y hy
          obtain ⟨x, hx, rfl⟩ := List.mem_map.1 hy
          by_cases hk : x.1 = e
          · simp only [hk, beq_self_eq_true, if_true]
            rw [updS_isDir f r x.2 (fun hr => ((hreach x hx hk x.2 (by rw [hr]; rfl)).2))]
            rw [← hk]; exact hd.kind x hx
          · have : (x.1 == e) = false := by simpa using hk
            simp only [this, Bool.false_eq_true, if_false]
            exact hd.kind x hx
        · intro y hy
          obtain ⟨x, hx, rfl⟩ := List.mem_map.1 hy
          by_cases hk : x.1 = e
          · simp only [hk, beq_self_eq_true, if_true]
            exact ih x.2 (hch x hx) (hreach x hx hk)
          · have : (x.1 == e) = false := by simpa using hk
            simp only [this, Bool.false_eq_true, if_false]
            exact hch x hx

/-- an update at a locked path commutes with the abstraction -/
theorem abs_updS (u : Char → List Char) (f : Node → Node) (F : Spec.TNode → Spec.TNode) :
    ∀ (p : List String) (t : Node), TreeWf (upOf u) t → Lock (upOf u) t p →
    (∀ n, getAtS (upOf u) t p = some n → abs (f n) = F (abs n)) →
    abs (updS (upOf u) f p t) = Spec.updateAt (cfgOf u) F p (abs t) := by
  intro p
  induction p with
  | nil => intro t _ _ h; exact h t rfl
  | cons q r ih =>
    intro t hwf hl h
    cases t with
    | file c => simp [updS, abs, Spec.updateAt]
    | dir slots ch =>
      obtain ⟨hd, hch⟩ := (all_dir _ slots ch).1 hwf
      simp only [Lock] at hl
      have hsame : ∀ x ∈ ch, (cfgOf u).same (entryName x.1) q = matchesName (upOf u) x.1 q.toList := by
        intro x hx
        rw [same_eq, Bool.eq_iff_iff, sameName_iff, entryName_toList]
        exact ⟨matches_of_nameHit _ _ _, hl.1 x.1 (hd.mem_listing hx)⟩
      simp only [updS]
      rw [abs_dir, Spec.updateAt]
      cases hf : findEntry (upOf u) slots q.toList with
      | none =>
        simp only
        rw [abs_dir, List.map_map]
        apply congrArg Spec.TNode.dir
        apply List.map_congr_left
        intro x hx
        simp only [Function.comp]
        rw [hsame x hx, (findEntry_none_iff _ slots _).1 hf x.1 (hd.mem_listing hx)]
        simp
      | some e =>
        simp only
        rw [abs_dir, List.map_map, List.map_map]
        apply congrArg Spec.TNode.dir
        apply List.map_congr_left
        intro x hx
        simp only [Function.comp]
        obtain ⟨L1, L2, h1, h2, _⟩ := (findEntry_some_iff _ slots _ e).1 hf
        have he : e ∈ listing slots := by rw [h1]; simp
        by_cases hk : x.1 = e
        · have hm : (cfgOf u).same (entryName x.1) q = true := by rw [hsame x hx, hk]; exact h2
          simp only [hk, beq_self_eq_true, if_true]
          rw [← hk, hm]
          simp only [if_true]
          congr 1
          have hlk : lookupS (upOf u) slots ch q = some x := by
            unfold lookupS; rw [hf, ← hk]; exact hd.find_key hx
          exact ih x.2 (hch x hx) (hl.2 x hlk)
            (fun n hn => h n (by rw [getAtS_cons_of_mem hd hf hx hk]; exact hn))
        · have hb : (x.1 == e) = false := by simpa using hk
          have hm : (cfgOf u).same (entryName x.1) q = false := by
            rw [hsame x hx]
            cases hmm : matchesName (upOf u) x.1 q.toList with
            | false => rfl
            | true => exact absurd (match_unique _ _ hd.wf.keys x.1 (hd.mem_listing hx) e he _ hmm h2) hk
          simp only [hb, Bool.false_eq_true, if_false, hm]

end SlotTree
end FatVerif
