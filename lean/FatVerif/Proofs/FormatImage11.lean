import FatVerif.Proofs.FormatImage10
/-! C06 image part, 11: `format_fat` / `alloc_cluster` on FAT32 — the bytes up to the four reserved top bits
    (`Fat32::set` keeps the top nibble it READ; what a read returns is not known at log level). -/
namespace FatVerif
open Format

theorem or_hi_mod (a r : Nat) (ha : a < 268435456) (hr : r % 268435456 = 0) : (a ||| r) % 268435456 = a := by
  have : (268435456 : Nat) = 2 ^ 28 := by decide
  rw [this] at hr ⊢
  rw [Nat.or_mod_two_pow, hr, Nat.or_zero]
  exact Nat.mod_eq_of_lt (by rw [← this]; exact ha)

section fat32
variable {s0 : DiskSlice} (hv : s0.viaFs = false) (hmir : 0 < s0.mirrors)
include hv hmir

/-- a successful `Fat32::set`: four bytes at `4c`, whose value agrees with `rawOfValue v` on the low 28 bits -/
theorem set32_exact {s : DiskSlice} (hs : SliceInv s0 s) (c : Nat) (v : FatValue) (d : Dev)
    (hdev : s0.beginOff + s0.mirrors * s0.size ≤ d.img.size) {s' : DiskSlice} {d' : Dev}
    (hr : run (Table.set DiskSlice.strm .fat32 s c v) d = (.ok s', d')) :
    c * 4 + 4 ≤ s0.size ∧ SliceInv s0 s' ∧ ∃ w, w % 268435456 = Table.rawOfValue .fat32 v % 268435456 ∧
      Seg d d' (mwItems s0 (c * 4) (bytesLe32 w)) := by
  have hS := slice_strm_gs s0 d.fs d.img.size hdev
  have hq := DiskSlice.strm_quiet
  unfold Table.set at hr
  dsimp only at hr
  rcases run_bind_cases hr with ⟨⟨old, s2⟩, d2, h3, h4⟩ | ⟨e, _, he⟩
  · have hqr := Table.getRaw_quiet DiskSlice.strm hq .fat32 s c
    have hsw := noWriteOps_sound hqr.noWriteOps d h3
    have hs2 : SliceInv s0 s2 := ((Table.getRaw_gs hS .fat32 s c hs).out d _ _ (SameGeom.refl _) rfl h3).2.2 _ rfl
    dsimp only at h4
    split at h4
    · simp only [run] at h4; cases h4
    · have hd2 : d2.img.size = d.img.size := run_img_size _ _ _ _ h3
      have := slice_seek_writeAll_exact hs2 hv hmir (c * 4)
        (bytesLe32 (Table.rawOfValue .fat32 v ||| old / 0x10000000 * 0x10000000)) (by simp [bytesLe32]) d2
        (by rw [hd2]; exact hdev) _ (fun _ _ => rfl) h4
      obtain ⟨hfit, hs', hseg⟩ := this
      refine ⟨by simpa [bytesLe32] using hfit, hs',
        Table.rawOfValue .fat32 v ||| old / 0x10000000 * 0x10000000, ?_, ?_⟩
      · have e : (268435456 : Nat) = 2 ^ 28 := by decide
        rw [e, Nat.or_mod_two_pow]
        have : old / 2 ^ 28 * 2 ^ 28 % 2 ^ 28 = 0 := Nat.mul_mod_left _ _
        rw [this, Nat.or_zero]
      · unfold Seg at *
        rw [hseg, hsw.2]
  · cases he

/-- the four bytes of a FAT32 entry encode a word whose low 28 bits are `a` -/
def Entry32 (h : Nat → Nat) (c a : Nat) : Prop :=
  ∃ w, w % 268435456 = a ∧ h (c * 4) = w % 256 ∧ h (c * 4 + 1) = w / 256 % 256 ∧ h (c * 4 + 2) = w / 65536 % 256 ∧
    h (c * 4 + 3) = w / 16777216 % 256

/-- effect of a list of records on every copy: entries `[lo, hi)` hold `a` (low 28 bits), other bytes unchanged -/
def Fill32Eff (s0 : DiskSlice) (L : List LogItem) (lo hi a : Nat) : Prop :=
  ∀ (g : Nat → Nat) (rest : List LogItem) (i : Nat), i < s0.mirrors →
    (∀ c, lo ≤ c → c < hi → Entry32 (fun x => replay g (L ++ rest) (s0.beginOff + i * s0.size + x)) c a) ∧
    (∀ x, x < s0.size → ¬ (lo * 4 ≤ x ∧ x < hi * 4) →
      replay g (L ++ rest) (s0.beginOff + i * s0.size + x) = replay g rest (s0.beginOff + i * s0.size + x))

omit hv in
/-- one `set` -/
theorem set32_eff {c : Nat} {w a : Nat} (hfit : c * 4 + 4 ≤ s0.size) (hw : w % 268435456 = a) :
    Fill32Eff s0 (mwItems s0 (c * 4) (bytesLe32 w)) c (c + 1) a := by
  intro g rest i hi
  have hlen : (bytesLe32 w).length = 4 := by simp [bytesLe32]
  have key : ∀ x, x < s0.size →
      replay g (mwItems s0 (c * 4) (bytesLe32 w) ++ rest) (s0.beginOff + i * s0.size + x) =
        if c * 4 ≤ x ∧ x < c * 4 + 4 then (bytesLe32 w).getD (x - c * 4) 0
        else replay g rest (s0.beginOff + i * s0.size + x) := by
    intro x hx
    have := replay_mwItems s0 hmir (c * 4) (bytesLe32 w) (by rw [hlen]; exact hfit) g rest i x hi hx
    rw [hlen] at this; exact this
  constructor
  · intro c' h1 h2
    have hc : c' = c := by omega
    subst hc
    refine ⟨w, hw, ?_, ?_, ?_, ?_⟩ <;> dsimp only
    · rw [key _ (by omega), if_pos (by omega), Nat.sub_self]; rfl
    · rw [key _ (by omega), if_pos (by omega), show c' * 4 + 1 - c' * 4 = 1 by omega]; rfl
    · rw [key _ (by omega), if_pos (by omega), show c' * 4 + 2 - c' * 4 = 2 by omega]; rfl
    · rw [key _ (by omega), if_pos (by omega), show c' * 4 + 3 - c' * 4 = 3 by omega]; rfl
  · intro x hx hn
    rw [key x hx, if_neg (by omega)]

omit hv hmir in
theorem Entry32.congr {h h' : Nat → Nat} {c a : Nat} (he : Entry32 h c a)
    (heq : ∀ x, c * 4 ≤ x → x < c * 4 + 4 → h' x = h x) : Entry32 h' c a := by
  obtain ⟨w, h0, h1, h2, h3, h4⟩ := he
  exact ⟨w, h0, by rw [heq _ (by omega) (by omega)]; exact h1, by rw [heq _ (by omega) (by omega)]; exact h2,
    by rw [heq _ (by omega) (by omega)]; exact h3, by rw [heq _ (by omega) (by omega)]; exact h4⟩

theorem setRange32_exact (v : FatValue) : ∀ (k : Nat) (s : DiskSlice) (c : Nat) (d : Dev) (s' : DiskSlice) (d' : Dev),
    SliceInv s0 s → s0.beginOff + s0.mirrors * s0.size ≤ d.img.size →
    run (Table.setRange DiskSlice.strm .fat32 v k s c) d = (.ok s', d') →
    SliceInv s0 s' ∧ (0 < k → (c + k) * 4 ≤ s0.size) ∧
    ∃ L, Seg d d' L ∧ Fill32Eff s0 L c (c + k) (Table.rawOfValue .fat32 v % 268435456) := by
  intro k
  induction k with
  | zero =>
    intro s c d s' d' hs _ hr
    unfold Table.setRange at hr
    have hr' : run (Prog.pure s) d = (.ok s', d') := hr
    simp only [run] at hr'; cases hr'
    refine ⟨hs, fun h => by omega, [], Seg.refl _, ?_⟩
    intro g rest i _
    exact ⟨fun c' h1 h2 => by omega, fun x _ _ => rfl⟩
  | succ k ih =>
    intro s c d s' d' hs hdev hr
    unfold Table.setRange at hr
    rcases run_bind_cases hr with ⟨s1, d1, h1, h2⟩ | ⟨e, _, he⟩
    · obtain ⟨hfit, hs1, w, hw, hseg1⟩ := set32_exact hv hmir hs c v d hdev h1
      have hd1 : d1.img.size = d.img.size := run_img_size _ _ _ _ h1
      obtain ⟨hs', hk, L2, hseg2, heff2⟩ := ih s1 (c + 1) d1 s' d' hs1 (by rw [hd1]; exact hdev) h2
      refine ⟨hs', fun _ => ?_, L2 ++ mwItems s0 (c * 4) (bytesLe32 w), hseg1.trans hseg2, ?_⟩
      · by_cases hk0 : 0 < k
        · have := hk hk0; omega
        · have : k = 0 := by omega
          subst this; omega
      · intro g rest i hi
        have e1 := set32_eff hmir hfit hw g rest i hi
        have e2 := heff2 g (mwItems s0 (c * 4) (bytesLe32 w) ++ rest) i hi
        rw [← List.append_assoc] at e2
        constructor
        · intro c' h1' h2'
          by_cases hc : c' = c
          · subst hc
            refine (e1.1 c' (by omega) (by omega)).congr ?_
            intro x hx1 hx2
            exact e2.2 x (by omega) (by omega)
          · exact e2.1 c' (by omega) (by omega)
        · intro x hx hn
          rw [e2.2 x hx (by omega), e1.2 x hx (by omega)]
    · cases he

/-- effect of `format_fat` on FAT32 (no BAD markers: `endC ≤ 0x0FFFFFF0`) -/
def Fmt32Eff (s0 : DiskSlice) (L : List LogItem) (media startC endC : Nat) : Prop :=
  ∀ (g : Nat → Nat) (rest : List LogItem) (i : Nat), i < s0.mirrors →
    (∀ x, x < 4 → replay g (L ++ rest) (s0.beginOff + i * s0.size + x) = (bytesLe32 (media ||| 0x0FFFFF00)).getD x 0) ∧
    (∀ x, 4 ≤ x → x < 8 → replay g (L ++ rest) (s0.beginOff + i * s0.size + x) = 255) ∧
    (∀ c, startC ≤ c → c < endC →
      Entry32 (fun x => replay g (L ++ rest) (s0.beginOff + i * s0.size + x)) c 0x0FFFFFFF) ∧
    (∀ x, x < s0.size → 8 ≤ x → ¬ (startC * 4 ≤ x ∧ x < endC * 4) →
      replay g (L ++ rest) (s0.beginOff + i * s0.size + x) = replay g rest (s0.beginOff + i * s0.size + x))

theorem formatFat32_exact (media bytesPerFat total : Nat) (d : Dev) (s' : DiskSlice) (d' : Dev)
    (hdev : s0.beginOff + s0.mirrors * s0.size ≤ d.img.size)
    (hend : ¬ (bytesPerFat * 8 / 32) % 4294967296 > 0x0FFFFFF0)
    (hr : run (Table.formatFat DiskSlice.strm .fat32 { s0 with offset := 0 } media bytesPerFat total) d = (.ok s', d')) :
    ∃ L, Seg d d' L ∧ Fmt32Eff s0 L media (total + 2) (total + 2 + ((bytesPerFat * 8 / 32) % 4294967296 - (total + 2))) ∧
      8 ≤ s0.size ∧
      (0 < (bytesPerFat * 8 / 32) % 4294967296 - (total + 2) →
        (total + 2 + ((bytesPerFat * 8 / 32) % 4294967296 - (total + 2))) * 4 ≤ s0.size) := by
  have hs : SliceInv s0 { s0 with offset := 0 } := ⟨rfl, rfl, rfl, rfl, Nat.zero_le _⟩
  unfold Table.formatFat at hr
  rcases run_bind_cases hr with ⟨s2, d2, h1, h2⟩ | ⟨e, _, he⟩
  · dsimp only at h1
    rcases run_bind_cases h1 with ⟨s1, d1, h3, h4⟩ | ⟨e, _, he⟩
    · have a1 := slice_writeAll_exact hs hv hmir (bytesLe32 (media ||| 0x0FFFFF00)) (by simp [bytesLe32]) d hdev h3
      obtain ⟨hfit1, hs1eq, hs1, hseg1⟩ := a1
      have hd1 : d1.img.size = d.img.size := run_img_size _ _ _ _ h3
      have a2 := slice_writeAll_exact hs1 hv hmir (bytesLe32 0xFFFFFFFF) (by simp [bytesLe32]) d1
        (by rw [hd1]; exact hdev) h4
      obtain ⟨hfit2, _, hs2, hseg2⟩ := a2
      have hoff1 : s1.offset = 4 := by rw [hs1eq]; simp [bytesLe32]
      rw [hoff1] at hseg2 hfit2
      have hd2 : d2.img.size = d.img.size := (run_img_size _ _ _ _ h4).trans hd1
      dsimp only at h2
      rw [show FatType.fat32.bits = 32 from rfl] at h2
      rcases run_bind_cases h2 with ⟨s3, d3, h5, h6⟩ | ⟨e, _, he⟩
      · obtain ⟨_, hk, L3, hseg3, heff3⟩ := setRange32_exact hv hmir .eoc _ s2 (total + 2) d2 s3 d3 hs2
          (by rw [hd2]; exact hdev) h5
        rw [if_neg hend] at h6
        have h6' : run (Prog.pure s3) d3 = (.ok s', d') := h6
        simp only [run] at h6'; cases h6'
        have hlen2 : (bytesLe32 0xFFFFFFFF).length = 4 := by simp [bytesLe32]
        have hlen1 : (bytesLe32 (media ||| 0x0FFFFF00)).length = 4 := by simp [bytesLe32]
        rw [hlen2] at hfit2
        refine ⟨L3 ++ (mwItems s0 4 (bytesLe32 0xFFFFFFFF) ++ mwItems s0 0 (bytesLe32 (media ||| 0x0FFFFF00))),
          (hseg1.trans hseg2).trans hseg3, ?_, by omega, hk⟩
        intro g rest i hi
        -- the two header words
        have hdr : ∀ x, x < s0.size →
            replay g (mwItems s0 4 (bytesLe32 0xFFFFFFFF) ++ (mwItems s0 0 (bytesLe32 (media ||| 0x0FFFFF00)) ++ rest))
              (s0.beginOff + i * s0.size + x) =
            if 4 ≤ x ∧ x < 8 then 255
            else if x < 4 then (bytesLe32 (media ||| 0x0FFFFF00)).getD x 0
            else replay g rest (s0.beginOff + i * s0.size + x) := by
          intro x hx
          rw [replay_mwItems s0 hmir 4 _ (by rw [hlen2]; omega) g _ i x hi hx,
            replay_mwItems s0 hmir 0 _ (by rw [hlen1]; omega) g _ i x hi hx, hlen1, hlen2]
          by_cases h48 : 4 ≤ x ∧ x < 8
          · rw [if_pos (by omega), if_pos h48]
            have : x - 4 = 0 ∨ x - 4 = 1 ∨ x - 4 = 2 ∨ x - 4 = 3 := by omega
            rcases this with e | e | e | e <;> rw [e] <;> rfl
          · rw [if_neg (by omega), if_neg h48]
            by_cases h4 : x < 4
            · rw [if_pos (by omega), if_pos h4, Nat.sub_zero]
            · rw [if_neg (by omega), if_neg h4]
        have e3 := heff3 g (mwItems s0 4 (bytesLe32 0xFFFFFFFF) ++ (mwItems s0 0 (bytesLe32 (media ||| 0x0FFFFF00)) ++ rest)) i hi
        have hraw : Table.rawOfValue .fat32 .eoc % 268435456 = 0x0FFFFFFF := by decide
        rw [hraw] at e3
        simp only [List.append_assoc]
        refine ⟨?_, ?_, e3.1, ?_⟩
        · intro x hx
          rw [e3.2 x (by omega) (by omega), hdr x (by omega), if_neg (by omega), if_pos hx]
        · intro x h4 h8
          rw [e3.2 x (by omega) (by omega), hdr x (by omega), if_pos ⟨h4, h8⟩]
        · intro x hx h8 hn
          rw [e3.2 x hx hn, hdr x hx, if_neg (by omega), if_neg (by omega)]
      · cases he
    · cases he
  · cases he

/-- `alloc_cluster(None, None, 1)` that returned cluster `c`: entry `c` becomes end-of-chain, nothing else changes -/
theorem alloc32_exact {s : DiskSlice} (hs : SliceInv s0 s) (d : Dev)
    (hdev : s0.beginOff + s0.mirrors * s0.size ≤ d.img.size) {c : Nat} {s' : DiskSlice} {d' : Dev}
    (hr : run (Table.allocCluster DiskSlice.strm .fat32 s none none 1) d = (.ok (c, s'), d')) :
    c * 4 + 4 ≤ s0.size ∧ ∃ L, Seg d d' L ∧ Fill32Eff s0 L c (c + 1) 0x0FFFFFFF := by
  have hq := DiskSlice.strm_quiet
  unfold Table.allocCluster at hr
  dsimp only at hr
  rcases run_bind_cases hr with ⟨⟨newC, s1⟩, d1, h1, h2⟩ | ⟨e, _, he⟩
  · have hquiet : QuietOps (Prog.tryCatch (Table.findFree DiskSlice.strm .fat32 s 2 (1 + 2)) (fun e =>
        match e with
        | .noSpace => if 2 > 2 then Table.findFree DiskSlice.strm .fat32 s 2 2 else .fail .noSpace
        | e => .fail e)) := by
      refine QuietOps.tryCatch _ _ (Table.findFree_quiet _ hq _ _ _ _) (fun e => ?_)
      quiet [Table.findFree_quiet, DiskSlice.strm_quiet]
    have hsw := noWriteOps_sound hquiet.noWriteOps d h1
    have hs1 : SliceInv s0 s1 := by
      have hS := slice_strm_gs s0 d.fs d.img.size hdev
      have : GS d.fs d.img.size (SliceOrStatus s0 d.fs) (Prog.tryCatch (Table.findFree DiskSlice.strm .fat32 s 2 (1 + 2))
          (fun e => match e with
            | .noSpace => if 2 > 2 then Table.findFree DiskSlice.strm .fat32 s 2 2 else .fail .noSpace
            | e => .fail e)) (fun r => SliceInv s0 r.2) := by
        refine GS.tryCatch (Table.findFree_gs hS _ _ _ _ hs) (fun e => ?_)
        gs [Table.findFree_gs hS]
      exact (this.out d _ _ (SameGeom.refl _) rfl h1).2.2 _ rfl
    dsimp only at h2
    rcases run_bind_cases h2 with ⟨s2, d2, h3, h4⟩ | ⟨e, _, he⟩
    · rcases run_bind_cases h4 with ⟨s3, d3, h5, h6⟩ | ⟨e, _, he⟩
      · have h5' : run (Prog.pure s2) d2 = (.ok s3, d3) := h5
        simp only [run] at h5'; cases h5'
        have h6' : run (Prog.pure (newC, s2)) d2 = (.ok (c, s'), d') := h6
        simp only [run] at h6'; cases h6'
        have hd1 : d1.img.size = d.img.size := run_img_size _ _ _ _ h1
        obtain ⟨hfit, _, w, hw, hseg⟩ := set32_exact hv hmir hs1 c .eoc d1 (by rw [hd1]; exact hdev) h3
        have hraw : Table.rawOfValue .fat32 .eoc % 268435456 = 0x0FFFFFFF := by decide
        rw [hraw] at hw
        refine ⟨hfit, _, ?_, set32_eff hmir hfit hw⟩
        unfold Seg at *
        rw [hseg, hsw.2]
      · cases he
    · cases he
  · cases he

end fat32

end FatVerif
