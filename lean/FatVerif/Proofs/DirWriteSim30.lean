import FatVerif.Proofs.DirWriteSim29
/-! Directory WRITES, part 30: `Dir::is_empty` on a readable directory, and `remove(name)` of an EMPTY DIRECTORY through
    any writable directory: `find_entry` → `to_dir` → `is_empty` → `free_cluster_chain` → `deleteEntry`. -/
namespace FatVerif.DirSim
open FatVerif.FileSim FatVerif.Fat DirEntryData DirAlias

/-- `is_empty` on the list of entries: every entry is `.` or `..` -/
def emptyD : List DirEntry → Bool
  | [] => true
  | e :: es => if e.shortDisplay != [46] && e.shortDisplay != [46, 46] then false else emptyD es

section generic
variable {d : Dev} {S : Nat → DirStream} {N : Nat} {src room : Nat → Nat}

theorem DirSrc.isEmptyLoop_sim (D : DirSrc d S N src room) (hfuel : N < dirFuel d.fs) :
    ∀ (fuel i : Nat) (d1 : Dev), i ≤ N → N - i < fuel → SameVol d d1 →
    ∃ o, o ≤ 32 * N ∧ Reads (isEmptyLoop fuel (S (32 * i))) d1
      (emptyD ((Lfn.readLoop d.fs.lfnAlloc true ((srcSlots d.img src N).drop i) i i
          (LongNameBuilder.new d.fs.lfnAlloc)).map (toDirEntryS src)), S o) := by
  intro fuel
  induction fuel with
  | zero => intro i d1 hi hf; omega
  | succ k ih =>
    intro i d1 hi hf hv
    have hsim := D.readDirEntry_sim true i hi d1 hv hfuel
    have hidx := nextEntry_idx d.fs.lfnAlloc true ((srcSlots d.img src N).drop i) i i (LongNameBuilder.new d.fs.lfnAlloc)
    have hlenD : ((srcSlots d.img src N).drop i).length = N - i := by rw [List.length_drop, srcSlots_length]
    rw [readLoop_eq_next]
    unfold isEmptyLoop
    cases hn : (nextEntry d.fs.lfnAlloc true ((srcSlots d.img src N).drop i) i i (LongNameBuilder.new d.fs.lfnAlloc)).1 with
    | none =>
      rw [hn] at hsim
      refine ⟨32 * (nextEntry d.fs.lfnAlloc true ((srcSlots d.img src N).drop i) i i
        (LongNameBuilder.new d.fs.lfnAlloc)).2, by have := hidx.2.1; rw [hlenD] at this; omega,
        Reads.bind hsim (fun d2 _ => ?_)⟩
      simp only [Option.map, List.map_nil, emptyD]
      exact Reads.pure _ d2
    | some e =>
      rw [hn] at hsim
      obtain ⟨he1, he2⟩ := hidx.2.2 e hn
      have hle : e.endIdx ≤ N := by
        rw [he1]; have := hidx.2.1; rw [hlenD] at this; omega
      have hdrop : ((srcSlots d.img src N).drop i).drop (e.endIdx - i) = (srcSlots d.img src N).drop e.endIdx := by
        rw [List.drop_drop]; congr 1; omega
      simp only [Option.map] at hsim
      rw [← he1] at hsim
      simp only [List.map_cons, emptyD]
      by_cases hm : ((toDirEntryS src e).shortDisplay != [46] && (toDirEntryS src e).shortDisplay != [46, 46]) = true
      · simp only [hm, if_true]
        refine ⟨32 * e.endIdx, by omega, Reads.bind hsim (fun d2 _ => ?_)⟩
        simp only [hm, if_true]
        exact Reads.pure _ d2
      · simp only [hm, Bool.false_eq_true, if_false]
        obtain ⟨d2, hr2, hs2⟩ := hsim
        obtain ⟨o, ho, d3, hr3, hs3⟩ := ih e.endIdx d2 hle (by omega) (hv.trans hs2)
        refine ⟨o, ho, d3, ?_, hs2.trans hs3⟩
        show run (Prog.bind _ _) d1 = _
        simp only [run, hr2, hm, Bool.false_eq_true, if_false]
        rw [hr3, hdrop]

/-- **`Dir::is_empty`, generic** -/
theorem DirSrc.isEmpty_sim (D : DirSrc d S N src room) (hfuel : N < dirFuel d.fs) (d1 : Dev) (hv : SameVol d d1) :
    Reads (isEmpty (S 0)) d1
      (emptyD ((readDirEntries d.fs.lfnAlloc true (srcSlots d.img src N)).map (toDirEntryS src))) := by
  unfold isEmpty
  refine Reads.bind (Reads.getFs d1) (fun d2 hs2 => ?_)
  rw [hv.fs]
  obtain ⟨o, ho, hr⟩ := D.isEmptyLoop_sim hfuel (dirFuel d.fs) 0 d2 (Nat.zero_le _) (by omega) (hv.trans hs2)
  simp only [Nat.mul_zero, List.drop_zero] at hr
  unfold withStream
  refine Reads.bind (Reads.finallyDrop hr (fun d3 hs3 => D.drop d3 ((hv.trans hs2).trans hs3) o ho))
    (fun d3 _ => ?_)
  exact Reads.pure _ d3

end generic

namespace DirView
variable {d : Dev} {st : DirStream}

/-- `is_empty` as a function of the image -/
def isEmptyV (V : DirView d st) : Bool := emptyD (V.lfnEntries.map (toDirEntryS V.src))

theorem isEmpty_sim (V : DirView d st) (d1 : Dev) (hv : SameVol d d1) : Reads (isEmpty st) d1 V.isEmptyV := by
  obtain ⟨S, N, src, room, start, dir, fuel⟩ := V
  subst start
  exact dir.isEmpty_sim fuel d1 hv

end DirView

namespace WView
variable {d : Dev} {st : DirStream}

/-- **`remove(name)` of an empty directory through a writable directory** (single-component path). `Vs`: the read view
    of the directory to be removed (through the stream `to_dir` opens for its entry), `hemp`: its listing has only `.`
    and `..`; `cs`: its cluster chain; `hkeep`, `hslots` as in `remove_file_sim` -/
theorem remove_dir_sim (V : WView d st) (env : Env) (path name : String) (hsp : Names.splitPath path = (name, none))
    (hdot : (name = "." || name = "..") = false) (hgeo : Geo d.fs d.img.size) (hinfo : InfoOk d.fs d.img)
    (le : LfnEntry)
    (hl : lookupL env.upper name.toList none (readDirEntries d.fs.lfnAlloc true (V.slots d.img)) = .ok le)
    (hdir : Lfn.isDir le.sfn = true)
    (Vs : DirView d (DirEntry.dirStream d.fs (toDirEntryS V.src le))) (hemp : Vs.isEmptyV = true) (cs : List Nat)
    (hcs : match (toDirEntryS V.src le).firstCluster d.fs with
      | some n => Chain (tabView d.fs d.img) n cs ∧ cs.Nodup ∧
          ∀ x ∈ cs, 2 ≤ x ∧ x < d.fs.totalClusters + 2 ∧ tabView d.fs d.img x ≠ .free
      | none => cs = [])
    (hkeep : ∀ d1 d2, SameVol d d1 → d1.clock = d.clock → FreedStep d1 d2 cs → V.Inv d2)
    (hslots : ∀ i, i < V.N → V.src (32 * i) + 32 ≤ (fatSliceOf d.fs).beginOff ∨
      (fatSliceOf d.fs).beginOff + (fatSliceOf d.fs).mirrors * (fatSliceOf d.fs).size ≤ V.src (32 * i)) (fuel : Nat) :
    ∃ d', run (FatVerif.remove env (fuel + 1) st path) d = (.ok (), d') ∧
      VolStep d d' ∧ d'.fs.curDirty = true ∧ V.Inv d' ∧
      V.slots d'.img = DirSlots.deleteRange (V.slots d.img) le.beginIdx le.endIdx ∧
      (∃ dm, tabView dm.fs dm.img = freedView (tabView d.fs d.img) cs ∧ VolStep d dm ∧
        FrameOutE V.N V.src V.Extra dm d' ∧ MidImg V.N V.src V.DropPost dm d') := by
  obtain ⟨hmem, _, _⟩ := lookupL_ok _ _ _ _ _ hl
  -- 1. find_entry
  have hfe := V.toDirView.findEntry_sim env name none d (SameVol.refl d)
  have hlook : V.toDirView.lookup env name none = .ok (toDirEntryS V.src le) := by
    unfold DirView.lookup DirView.lfnEntries
    show (lookupL env.upper name.toList none (readDirEntries d.fs.lfnAlloc true (srcSlots d.img V.src V.N))).map _ = _
    have : srcSlots d.img V.src V.N = V.slots d.img := rfl
    rw [this, hl]; rfl
  rw [hlook] at hfe
  obtain ⟨d1, h1, hs1⟩ := hfe
  have hisdir : (toDirEntryS V.src le).isDir = true := by
    rw [toDirEntryS_isDir V.src le (srcEntries_slotOK _ _ _ _ _ le hmem)]; exact hdir
  -- 2. to_dir, is_empty
  obtain ⟨d2, h2, hs2⟩ := toDir_sim d.fs (toDirEntryS V.src le) hisdir d1
  have hv02 := hs1.trans hs2
  obtain ⟨d3, h3, hs3⟩ := Reads.thenDrop (Vs.isEmpty_sim d2 hv02) (fun d' hs => Vs.drop_sim d' (hv02.trans hs))
  rw [hemp] at h3
  have hv03 := hv02.trans hs3
  have hc3 : d3.clock = d.clock :=
    (run_clock _ _ _ _ h3).trans ((run_clock _ _ _ _ h2).trans (run_clock _ _ _ _ h1))
  -- 3. release
  obtain ⟨d4, h4, hf4⟩ := run_free_step ((toDirEntryS V.src le).firstCluster d.fs) cs d3
    (by rw [hv03.failAt]; exact V.io.noFault d V.here) (by rw [hv03.img]; exact V.io.wf d V.here)
    (by rw [hv03.fs, hv03.img]; exact hgeo) (by rw [hv03.fs, hv03.img]; exact hinfo) (by rw [hv03.fs, hv03.img]; exact hcs)
  have hinv4 := hkeep d3 d4 hv03 hc3 hf4
  have hslots4 : V.slots d4.img = V.slots d.img := by
    unfold WView.slots
    refine srcSlots_congr (fun i hi x hx => ?_)
    have hb := V.geo.behind i hi
    have ho := hslots i hi
    rw [hf4.frame _ (by omega) (by
      rw [hv03.fs]
      unfold OutsideFat
      rcases ho with ho | ho
      · left; omega
      · right; omega), hv03.img]
  -- 4. deleteEntry on the device after the release
  have hmem4 : le ∈ readDirEntries d4.fs.lfnAlloc true ((V.step hinv4).slots d4.img) := by
    have : (V.step hinv4).slots d4.img = V.slots d4.img := rfl
    rw [this, hslots4]
    have hla : d4.fs.lfnAlloc = d.fs.lfnAlloc := by
      have := hf4.step.geom
      rw [← hv03.fs]
      unfold FsGeomEq at this
      rw [this]
    rw [hla]; exact hmem
  obtain ⟨d5, h5, hs5, hd5, hinv5, hsl5, hfr5, hmid5⟩ := (V.step hinv4).deleteEntry_sim le hmem4
  refine ⟨d5, ?_, ((VolStep.of_sameVol hv03).trans (VolStep.of_devStep hf4.step)).trans hs5, hd5, hinv5, ?_,
    ⟨d4, by rw [hf4.tv, hv03.fs, hv03.img], (VolStep.of_sameVol hv03).trans (VolStep.of_devStep hf4.step), hfr5, hmid5⟩⟩
  · unfold FatVerif.remove
    rw [run_bind_ok (run_getFs d), hsp]
    simp only [hdot, Bool.false_eq_true, if_false]
    rw [run_bind_ok h1]
    simp only [id, hisdir, if_true]
    refine (run_bind_ok (b := false) (d1 := d3) ?_).trans ?_
    · rw [run_bind_ok h2, run_bind_ok h3]; rfl
    · simp only [Bool.false_eq_true, if_false]
      exact (h4 (FatVerif.deleteEntry st (toDirEntryS V.src le))).trans h5
  · have : (V.step hinv4).slots d5.img = V.slots d5.img := rfl
    rw [← this, hsl5]
    have : (V.step hinv4).slots d4.img = V.slots d4.img := rfl
    rw [this, hslots4]

end WView

end FatVerif.DirSim
