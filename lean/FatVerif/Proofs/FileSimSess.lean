import FatVerif.Props.C02multi
import FatVerif.Proofs.FileSimFrame4
/-!
# FileSim / session: the file operations of `Session.step` (the history driver) are the steps of `execE`

`fileOpOf`: which `ApiOp`s are operations on an open file handle covered here (`read`, `readx`, `write`, `writeall`,
`seek`, `truncate`, `flush`), and as which operation of the alphabet `EOp`.  `session_step_out`: such a step of a live
session changes the session exactly as `execE` on the handle says — device, handle table (only entry `i`), result
token, `dead` flag (`StepOut`).
-/
namespace FatVerif.FileSim
open FatVerif FatVerif.Fat

/-- the covered file operations of the history driver -/
def fileOpOf : ApiOp → Option (Nat × EOp)
  | .read f n => some (f, .op (.read n))
  | .readx f n => some (f, .op (.readExact n))
  | .write f bs => some (f, .op (.write bs))
  | .writeall f bs => some (f, .op (.writeAll bs))
  | .seek f k n => some (f, .op (.seek (Session.seekFrom k n)))
  | .truncate f => some (f, .op .truncate)
  | .flush f => some (f, .flush)
  | _ => none

/-- the result token of the history driver for an observable result -/
def apiOfRes : Cursor.FileRes → ApiRes
  | .bytes l => .ok [Util.hexOfBytes l]
  | .count k => .ok [toString k]
  | .pos p => .ok [toString p]
  | .unit => .ok []
  | .err e => .err e
  | .errAt e _ => .err e

/-- the result is a panic or a hang (the session is dead afterwards) -/
def resFatal : Cursor.FileRes → Bool
  | .err e => e.isFatal
  | .errAt e _ => e.isFatal
  | _ => false

/-- what a step on handle `i` does to the session, in terms of the outcome `r` of `execE` -/
structure StepOut (s : Session) (op : ApiOp) (i : Nat) (r : Cursor.FileRes × FileH × Dev) : Prop where
  res : (s.step op).2 = apiOfRes r.1
  dev : (s.step op).1.dev = r.2.2
  files : ∀ j, (s.step op).1.files[j]? = if j = i then some r.2.1 else s.files[j]?
  dead : (s.step op).1.dead = resFatal r.1

theorem files_insert (s : Session) (i : Nat) (h : FileH) (j : Nat) :
    (s.files.insert i h)[j]? = if j = i then some h else s.files[j]? := by
  rw [Std.HashMap.getElem?_insert]
  by_cases hji : j = i
  · subst hji; simp
  · have : (i == j) = false := by simp; exact fun e => hji e.symm
    rw [this, if_neg hji]; rfl

theorem files_same (s : Session) (i : Nat) (h : FileH) (hf : s.files[i]? = some h) (j : Nat) :
    s.files[j]? = if j = i then some h else s.files[j]? := by
  by_cases hji : j = i
  · rw [if_pos hji, hji, hf]
  · rw [if_neg hji]

/-- the outcome of `Session.fatal` -/
theorem stepOut_fatal (s : Session) (hd : s.dead = false) (i : Nat) (h : FileH) (hf : s.files[i]? = some h) (d' : Dev)
    (e : Err) :
    (Session.fatal s d' e).2 = apiOfRes (.err e) ∧ (Session.fatal s d' e).1.dev = d' ∧
    (∀ j, (Session.fatal s d' e).1.files[j]? = if j = i then some h else s.files[j]?) ∧
    (Session.fatal s d' e).1.dead = resFatal (.err e) := by
  unfold Session.fatal
  by_cases hfe : e.isFatal = true
  · rw [if_pos hfe]
    exact ⟨rfl, rfl, files_same s i h hf, by simp [resFatal, hfe]⟩
  · rw [if_neg hfe]
    exact ⟨rfl, rfl, files_same s i h hf, by simp [resFatal, hfe, hd]⟩

/-- the four single calls and `flush`: `runOp` on the handle's program -/
theorem stepOut_read (s : Session) (hd : s.dead = false) (i n : Nat) (h : FileH) (hf : s.files[i]? = some h) :
    StepOut s (.read i n) i (execE (.op (.read n)) h s.dev) := by
  have hstep : s.step (.read i n) = Session.runOp s (h.read n) fun s (x : List Nat × FileH) =>
      ({ s with files := s.files.insert i x.2 }, .ok [Util.hexOfBytes x.1]) := by
    unfold Session.step
    simp only [hd, Bool.false_eq_true, if_false, Session.withFile, hf]
  have hex : execE (.op (.read n)) h s.dev = (match run (h.read n) s.dev with
      | (.ok (bs, f'), d') => (.bytes bs, f', d')
      | (.error e, d') => (.err e, h, d')) := rfl
  rw [hex]
  unfold Session.runOp Session.exec at hstep
  generalize run (h.read n) s.dev = r at hstep ⊢
  obtain ⟨(e | ⟨bs, h'⟩), d'⟩ := r
  · obtain ⟨a, b, c, dd⟩ := stepOut_fatal s hd i h hf d' e
    exact ⟨by rw [hstep]; exact a, by rw [hstep]; exact b, by rw [hstep]; exact c, by rw [hstep]; exact dd⟩
  · exact ⟨by rw [hstep]; rfl, by rw [hstep], fun j => by rw [hstep]; exact files_insert _ i h' j,
      by rw [hstep]; exact hd⟩

theorem stepOut_write (s : Session) (hd : s.dead = false) (i : Nat) (bs : List Nat) (h : FileH)
    (hf : s.files[i]? = some h) : StepOut s (.write i bs) i (execE (.op (.write bs)) h s.dev) := by
  have hstep : s.step (.write i bs) = Session.runOp s (h.write bs) fun s (x : Nat × FileH) =>
      ({ s with files := s.files.insert i x.2 }, .ok [toString x.1]) := by
    unfold Session.step
    simp only [hd, Bool.false_eq_true, if_false, Session.withFile, hf]
  have hex : execE (.op (.write bs)) h s.dev = (match run (h.write bs) s.dev with
      | (.ok (k, f'), d') => (.count k, f', d')
      | (.error e, d') => (.err e, h, d')) := rfl
  rw [hex]
  unfold Session.runOp Session.exec at hstep
  generalize run (h.write bs) s.dev = r at hstep ⊢
  obtain ⟨(e | ⟨k, h'⟩), d'⟩ := r
  · obtain ⟨a, b, c, dd⟩ := stepOut_fatal s hd i h hf d' e
    exact ⟨by rw [hstep]; exact a, by rw [hstep]; exact b, by rw [hstep]; exact c, by rw [hstep]; exact dd⟩
  · exact ⟨by rw [hstep]; rfl, by rw [hstep], fun j => by rw [hstep]; exact files_insert _ i h' j,
      by rw [hstep]; exact hd⟩

theorem stepOut_seek (s : Session) (hd : s.dead = false) (i : Nat) (k : SeekKind) (n : Int) (h : FileH)
    (hf : s.files[i]? = some h) :
    StepOut s (.seek i k n) i (execE (.op (.seek (Session.seekFrom k n))) h s.dev) := by
  have hstep : s.step (.seek i k n) = Session.runOp s (h.seek (Session.seekFrom k n)) fun s (x : Nat × FileH) =>
      ({ s with files := s.files.insert i x.2 }, .ok [toString x.1]) := by
    unfold Session.step
    simp only [hd, Bool.false_eq_true, if_false, Session.withFile, hf]
  have hex : execE (.op (.seek (Session.seekFrom k n))) h s.dev =
      (match run (h.seek (Session.seekFrom k n)) s.dev with
      | (.ok (p, f'), d') => (.pos p, f', d')
      | (.error e, d') => (.err e, h, d')) := rfl
  rw [hex]
  unfold Session.runOp Session.exec at hstep
  generalize run (h.seek (Session.seekFrom k n)) s.dev = r at hstep ⊢
  obtain ⟨(e | ⟨p, h'⟩), d'⟩ := r
  · obtain ⟨a, b, c, dd⟩ := stepOut_fatal s hd i h hf d' e
    exact ⟨by rw [hstep]; exact a, by rw [hstep]; exact b, by rw [hstep]; exact c, by rw [hstep]; exact dd⟩
  · exact ⟨by rw [hstep]; rfl, by rw [hstep], fun j => by rw [hstep]; exact files_insert _ i h' j,
      by rw [hstep]; exact hd⟩

theorem stepOut_truncate (s : Session) (hd : s.dead = false) (i : Nat) (h : FileH) (hf : s.files[i]? = some h) :
    StepOut s (.truncate i) i (execE (.op .truncate) h s.dev) := by
  have hstep : s.step (.truncate i) = Session.runOp s h.truncate fun s (x : FileH) =>
      ({ s with files := s.files.insert i x }, .ok []) := by
    unfold Session.step
    simp only [hd, Bool.false_eq_true, if_false, Session.withFile, hf]
  have hex : execE (.op .truncate) h s.dev = (match run h.truncate s.dev with
      | (.ok f', d') => (.unit, f', d')
      | (.error e, d') => (.err e, h, d')) := rfl
  rw [hex]
  unfold Session.runOp Session.exec at hstep
  generalize run h.truncate s.dev = r at hstep ⊢
  obtain ⟨(e | h'), d'⟩ := r
  · obtain ⟨a, b, c, dd⟩ := stepOut_fatal s hd i h hf d' e
    exact ⟨by rw [hstep]; exact a, by rw [hstep]; exact b, by rw [hstep]; exact c, by rw [hstep]; exact dd⟩
  · exact ⟨by rw [hstep]; rfl, by rw [hstep], fun j => by rw [hstep]; exact files_insert _ i h' j,
      by rw [hstep]; exact hd⟩

theorem stepOut_flush (s : Session) (hd : s.dead = false) (i : Nat) (h : FileH) (hf : s.files[i]? = some h) :
    StepOut s (.flush i) i (execE .flush h s.dev) := by
  have hstep : s.step (.flush i) = Session.runOp s h.flush fun s (x : FileH) =>
      ({ s with files := s.files.insert i x }, .ok []) := by
    unfold Session.step
    simp only [hd, Bool.false_eq_true, if_false, Session.withFile, hf]
  have hex : execE .flush h s.dev = (match run h.flush s.dev with
      | (.ok f', d') => (.unit, f', d')
      | (.error e, d') => (.err e, h, d')) := rfl
  rw [hex]
  unfold Session.runOp Session.exec at hstep
  generalize run h.flush s.dev = r at hstep ⊢
  obtain ⟨(e | h'), d'⟩ := r
  · obtain ⟨a, b, c, dd⟩ := stepOut_fatal s hd i h hf d' e
    exact ⟨by rw [hstep]; exact a, by rw [hstep]; exact b, by rw [hstep]; exact c, by rw [hstep]; exact dd⟩
  · exact ⟨by rw [hstep]; rfl, by rw [hstep], fun j => by rw [hstep]; exact files_insert _ i h' j,
      by rw [hstep]; exact hd⟩

/-- the shapes a loop can return -/
def LoopShape (r : Cursor.FileRes) : Prop :=
  (∃ l, r = .bytes l) ∨ r = .unit ∨ (∃ e p, r = .errAt e p) ∨ (∃ e, r = .err e)

theorem readxH_shape : ∀ (fuel : Nat) (h : FileH) (d : Dev) (n : Nat) (acc : List Nat),
    LoopShape (readxH fuel h d n acc).1
  | 0, _, _, _, _ => Or.inr (Or.inr (Or.inr ⟨_, rfl⟩))
  | fuel + 1, h, d, n, acc => by
    rw [readxH]
    by_cases hn : n = 0
    · simp only [hn, if_true]; exact Or.inl ⟨_, rfl⟩
    · simp only [hn, if_false]
      generalize run (h.read n) d = r
      obtain ⟨(e | ⟨bs, h'⟩), d'⟩ := r
      · exact Or.inr (Or.inr (Or.inr ⟨_, rfl⟩))
      · simp only
        by_cases hl : bs.length = 0
        · simp only [hl, if_true]; exact Or.inr (Or.inr (Or.inl ⟨_, _, rfl⟩))
        · simp only [hl, if_false]; exact readxH_shape fuel h' d' _ _

theorem writeallH_shape : ∀ (fuel : Nat) (h : FileH) (d : Dev) (bs : List Nat),
    (writeallH fuel h d bs).1 = .unit ∨ (∃ e p, (writeallH fuel h d bs).1 = .errAt e p) ∨
      (∃ e, (writeallH fuel h d bs).1 = .err e)
  | 0, _, _, _ => Or.inr (Or.inr ⟨_, rfl⟩)
  | fuel + 1, h, d, bs => by
    rw [writeallH]
    by_cases hn : bs.length = 0
    · simp only [hn, if_true]; exact Or.inl (by first | rfl | trivial)
    · simp only [hn, if_false]
      generalize run (h.write bs) d = r
      obtain ⟨(e | ⟨k, h'⟩), d'⟩ := r
      · exact Or.inr (Or.inl ⟨_, _, rfl⟩)
      · simp only
        by_cases hk : k = 0
        · simp only [hk, if_true]; exact Or.inr (Or.inl ⟨_, _, rfl⟩)
        · simp only [hk, if_false]; exact writeallH_shape fuel h' d' _

/-- the outcome of a loop of the history driver -/
theorem stepOut_loopOut (okv : List Nat → List String) (s : Session) (hd : s.dead = false) (i : Nat)
    (r : Cursor.FileRes × FileH × Dev) (hsh : LoopShape r.1)
    (hokv : ∀ l, r.1 = .bytes l → ApiRes.ok (okv l) = apiOfRes (.bytes l)) :
    (loopOut okv s i r).2 = apiOfRes r.1 ∧ (loopOut okv s i r).1.dev = r.2.2 ∧
    (∀ j, (loopOut okv s i r).1.files[j]? = if j = i then some r.2.1 else s.files[j]?) ∧
    (loopOut okv s i r).1.dead = resFatal r.1 := by
  obtain ⟨res, h, d⟩ := r
  have hfat : ∀ e, (Session.fatal { s with files := s.files.insert i h } d e).2 = .err e ∧
      (Session.fatal { s with files := s.files.insert i h } d e).1.dev = d ∧
      (∀ j, (Session.fatal { s with files := s.files.insert i h } d e).1.files[j]? =
        if j = i then some h else s.files[j]?) ∧
      (Session.fatal { s with files := s.files.insert i h } d e).1.dead = e.isFatal := by
    intro e
    unfold Session.fatal
    by_cases hfe : e.isFatal = true
    · rw [if_pos hfe]; exact ⟨rfl, rfl, files_insert s i h, by simp [hfe]⟩
    · rw [if_neg hfe]; exact ⟨rfl, rfl, files_insert s i h, by simp [hfe, hd]⟩
  rcases hsh with ⟨l, rfl⟩ | rfl | ⟨e, p, rfl⟩ | ⟨e, rfl⟩
  · exact ⟨hokv l rfl, rfl, files_insert s i h, hd⟩
  · exact ⟨rfl, rfl, files_insert s i h, hd⟩
  · simp only [loopOut]
    by_cases he : e = .eof ∨ e = .writeZero
    · rw [if_pos he]
      refine ⟨rfl, rfl, files_insert s i h, ?_⟩
      rcases he with rfl | rfl <;> exact hd
    · rw [if_neg he]; exact hfat e
  · exact hfat e

theorem stepOut_readx (s : Session) (hd : s.dead = false) (i n : Nat) (h : FileH) (hf : s.files[i]? = some h) :
    StepOut s (.readx i n) i (execE (.op (.readExact n)) h s.dev) := by
  have hstep := session_readx s i n h hd hf
  have hex : execE (.op (.readExact n)) h s.dev = execH (.readExact n) h s.dev := rfl
  rw [hex]
  obtain ⟨a, b, c, dd⟩ := stepOut_loopOut (fun l => [Util.hexOfBytes l]) s hd i (execH (.readExact n) h s.dev)
    (readxH_shape (n + 1) h s.dev n []) (fun _ _ => rfl)
  exact ⟨by rw [hstep]; exact a, by rw [hstep]; exact b, by rw [hstep]; exact c, by rw [hstep]; exact dd⟩

theorem stepOut_writeall (s : Session) (hd : s.dead = false) (i : Nat) (bs : List Nat) (h : FileH)
    (hf : s.files[i]? = some h) : StepOut s (.writeall i bs) i (execE (.op (.writeAll bs)) h s.dev) := by
  have hstep := session_writeall s i bs h hd hf
  have hex : execE (.op (.writeAll bs)) h s.dev = execH (.writeAll bs) h s.dev := rfl
  rw [hex]
  have hsh0 := writeallH_shape (bs.length + 1) h s.dev bs
  have hsh : LoopShape (execH (.writeAll bs) h s.dev).1 := by
    rcases hsh0 with h0 | h0 | h0
    · exact Or.inr (Or.inl h0)
    · exact Or.inr (Or.inr (Or.inl h0))
    · exact Or.inr (Or.inr (Or.inr h0))
  obtain ⟨a, b, c, dd⟩ := stepOut_loopOut (fun _ => []) s hd i (execH (.writeAll bs) h s.dev) hsh (fun l hl => by
    exfalso
    have hl' : (writeallH (bs.length + 1) h s.dev bs).1 = .bytes l := hl
    rcases hsh0 with h0 | ⟨e, p, h0⟩ | ⟨e, h0⟩ <;> rw [h0] at hl' <;> cases hl')
  exact ⟨by rw [hstep]; exact a, by rw [hstep]; exact b, by rw [hstep]; exact c, by rw [hstep]; exact dd⟩

/-- **`session_step_out`**: every covered file operation of a live session on an open handle -/
theorem session_step_out (s : Session) (hd : s.dead = false) (op : ApiOp) (i : Nat) (eop : EOp)
    (hop : fileOpOf op = some (i, eop)) (h : FileH) (hf : s.files[i]? = some h) :
    StepOut s op i (execE eop h s.dev) := by
  cases op with
  | read f n =>
    simp only [fileOpOf, Option.some.injEq, Prod.mk.injEq] at hop; obtain ⟨rfl, rfl⟩ := hop
    exact stepOut_read s hd _ _ h hf
  | readx f n =>
    simp only [fileOpOf, Option.some.injEq, Prod.mk.injEq] at hop; obtain ⟨rfl, rfl⟩ := hop
    exact stepOut_readx s hd _ _ h hf
  | write f bs =>
    simp only [fileOpOf, Option.some.injEq, Prod.mk.injEq] at hop; obtain ⟨rfl, rfl⟩ := hop
    exact stepOut_write s hd _ _ h hf
  | writeall f bs =>
    simp only [fileOpOf, Option.some.injEq, Prod.mk.injEq] at hop; obtain ⟨rfl, rfl⟩ := hop
    exact stepOut_writeall s hd _ _ h hf
  | seek f k n =>
    simp only [fileOpOf, Option.some.injEq, Prod.mk.injEq] at hop; obtain ⟨rfl, rfl⟩ := hop
    exact stepOut_seek s hd _ _ _ h hf
  | truncate f =>
    simp only [fileOpOf, Option.some.injEq, Prod.mk.injEq] at hop; obtain ⟨rfl, rfl⟩ := hop
    exact stepOut_truncate s hd _ h hf
  | flush f =>
    simp only [fileOpOf, Option.some.injEq, Prod.mk.injEq] at hop; obtain ⟨rfl, rfl⟩ := hop
    exact stepOut_flush s hd _ h hf
  | _ => simp [fileOpOf] at hop

/-- a result the oracle accepts is not a panic and not a hang -/
theorem check_ok_not_fatal {cs : Nat} {op : Cursor.FileOp} {res : Cursor.FileRes} {b b' : Cursor.ByteFile}
    (h : Cursor.ByteFile.check cs op res b = .ok b') : resFatal res = false := by
  cases res with
  | bytes l => rfl
  | count k => rfl
  | pos p => rfl
  | unit => rfl
  | err e =>
    cases e <;> first | rfl | (exfalso; cases op <;> simp [Cursor.ByteFile.check] at h)
  | errAt e p =>
    cases e <;> first | rfl | (exfalso; cases op <;>
      simp [Cursor.ByteFile.check, Cursor.ByteFile.checkWriteAllErr] at h)

end FatVerif.FileSim
