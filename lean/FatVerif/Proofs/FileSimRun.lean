import FatVerif.Model.File
import FatVerif.Proofs.MountRun1
import FatVerif.Proofs.SliceModel6
/-!
# FileSim, part 1: forward evaluation of the FAT reads on a fault-free device

`run` of `DiskSlice.read`, `read_exact`, `read_u16/u32_le`, `FatTrait::get_raw`, `get`, `ClusterIterator::next` and
`FileSystem::cluster_iter(c).next()` (`nextCluster`) on a device without a scheduled fault (`failAt = none`), for a
slice that lies inside the device: the result is computed from the image, the device changes only its position and
call counters (`SameStore`).
-/
namespace FatVerif.FileSim
open FatVerif

theorem run_inner_seek (s : DiskSlice) (off : Nat) (d : Dev) (h : d.failAt = none) :
    run (s.inner.seek () (.start off)) d = (.ok (off, ()), d.didSeek off) := by
  have : run (Prog.seek (.start off) >>= fun n => (pure (n, ()) : Prog (Nat × Unit))) d = (.ok (off, ()), d.didSeek off) := by
    have hs : run (Prog.seek (.start off)) d = (.ok off, d.didSeek off) := run_seekStart off d h
    rw [run_bind_ok hs]; rfl
  unfold DiskSlice.inner
  split <;> exact this

theorem run_inner_read (s : DiskSlice) (n : Nat) (d : Dev) (h : d.failAt = none) :
    run (s.inner.read () n) d =
      (.ok (d.img.read d.pos (min n (d.img.size - d.pos)), ()), d.didRead (min n (d.img.size - d.pos))) := by
  unfold DiskSlice.inner
  split <;> exact run_devStrm_read n d h

/-- ONE `DiskSlice::read` on a slice inside the device -/
theorem run_slice_read (s : DiskSlice) (n : Nat) (d : Dev) (h : d.failAt = none) (hle : s.offset ≤ s.size)
    (hdev : s.beginOff + s.size ≤ d.img.size) :
    ∃ d', run (s.read n) d =
      (.ok (d.img.read (s.beginOff + s.offset) (min n (s.size - s.offset)),
            { s with offset := s.offset + min n (s.size - s.offset) }), d') ∧ SameStore d d' := by
  have hmin : min (min n (s.size - s.offset)) ((d.didSeek (s.beginOff + s.offset)).img.size -
      (d.didSeek (s.beginOff + s.offset)).pos) = min n (s.size - s.offset) := by
    simp only [didSeek_img, didSeek_pos]; omega
  refine ⟨(d.didSeek (s.beginOff + s.offset)).didRead (min n (s.size - s.offset)), ?_,
    (sameStore_didSeek _ _).trans (sameStore_didRead _ _)⟩
  unfold DiskSlice.read
  show run (s.inner.seek () (.start (s.beginOff + s.offset)) >>= fun _ => _) d = _
  rw [run_bind_ok (run_inner_seek s _ d h)]
  show run (s.inner.read () (min n (s.size - s.offset)) >>= fun x => _) _ = _
  rw [run_bind_ok (run_inner_read s _ _ (by simpa using h)), hmin]
  simp only [didSeek_img, didSeek_pos, run_pure, Img.read_length]

theorem SameStore.failAt_none {d d' : Dev} (hs : SameStore d d') (h : d.failAt = none) : d'.failAt = none := by
  rw [hs.failAt]; exact h

/-- `read_exact(n)` on a slice with the `n` bytes inside it: the bytes of the image -/
theorem run_slice_readExact (s : DiskSlice) (n : Nat) (d : Dev) (h : d.failAt = none)
    (hfit : s.offset + n ≤ s.size) (hdev : s.beginOff + s.size ≤ d.img.size) :
    ∃ d', run (readExact DiskSlice.strm s n) d =
      (.ok (d.img.read (s.beginOff + s.offset) n, { s with offset := s.offset + n }), d') ∧ SameStore d d' := by
  unfold readExact
  cases n with
  | zero =>
    refine ⟨d, ?_, SameStore.refl d⟩
    simp [readExactLoop, Img.read_zero]
  | succ k =>
    obtain ⟨d1, h1, hs1⟩ := run_slice_read s (k + 1) d h (by omega) hdev
    have hmin : min (k + 1) (s.size - s.offset) = k + 1 := by omega
    rw [hmin] at h1
    refine ⟨d1, ?_, hs1⟩
    unfold readExactLoop
    rw [if_neg (by omega)]
    show run (s.read (k + 1) >>= fun x => _) d = _
    rw [run_bind_ok h1]
    simp only [Img.read_length]
    rw [if_neg (by omega)]
    simp only [Nat.sub_self]
    unfold readExactLoop
    simp

theorem run_slice_readU16 (s : DiskSlice) (d : Dev) (h : d.failAt = none)
    (hfit : s.offset + 2 ≤ s.size) (hdev : s.beginOff + s.size ≤ d.img.size) :
    ∃ d', run (readU16 DiskSlice.strm s) d =
      (.ok (d.img.le16 (s.beginOff + s.offset), { s with offset := s.offset + 2 }), d') ∧ SameStore d d' := by
  obtain ⟨d1, h1, hs1⟩ := run_slice_readExact s 2 d h hfit hdev
  refine ⟨d1, ?_, hs1⟩
  unfold readU16
  rw [run_bind_ok h1]
  simp only [run_pure, Img.read_getD _ _ _ _ (show 0 < 2 by omega), Img.read_getD _ _ _ _ (show 1 < 2 by omega)]
  simp [Img.le16, le16]

theorem run_slice_readU32 (s : DiskSlice) (d : Dev) (h : d.failAt = none)
    (hfit : s.offset + 4 ≤ s.size) (hdev : s.beginOff + s.size ≤ d.img.size) :
    ∃ d', run (readU32 DiskSlice.strm s) d =
      (.ok (d.img.le32 (s.beginOff + s.offset), { s with offset := s.offset + 4 }), d') ∧ SameStore d d' := by
  obtain ⟨d1, h1, hs1⟩ := run_slice_readExact s 4 d h hfit hdev
  refine ⟨d1, ?_, hs1⟩
  unfold readU32
  rw [run_bind_ok h1]
  simp only [run_pure, Img.read_getD _ _ _ _ (show 0 < 4 by omega), Img.read_getD _ _ _ _ (show 1 < 4 by omega),
    Img.read_getD _ _ _ _ (show 2 < 4 by omega), Img.read_getD _ _ _ _ (show 3 < 4 by omega)]
  simp [Img.le32, le32]

theorem run_slice_seekStart (s : DiskSlice) (n : Nat) (d : Dev) (hn : n ≤ s.size) :
    run (DiskSlice.strm.seek s (.start n)) d = (.ok (n, { s with offset := n }), d) := by
  show run (s.seek (.start n)) d = _
  unfold DiskSlice.seek
  simp only
  rw [if_neg (by omega)]
  rfl

/-- byte offset of entry `c` and the number of bytes read for it -/
def entOff : FatType → Nat → Nat
  | .fat12, c => c + c / 2
  | .fat16, c => c * 2
  | .fat32, c => c * 4

def entWidth : FatType → Nat
  | .fat12 => 2
  | .fat16 => 2
  | .fat32 => 4

/-- `get_raw` for an entry inside the FAT slice: the raw entry of the image -/
theorem run_getRaw (ft : FatType) (s : DiskSlice) (c : Nat) (d : Dev) (h : d.failAt = none)
    (hfit : entOff ft c + entWidth ft ≤ s.size) (hdev : s.beginOff + s.size ≤ d.img.size) :
    ∃ d', run (Table.getRaw DiskSlice.strm ft s c) d =
      (.ok (imgFatRaw ft s.beginOff d.img c, { s with offset := entOff ft c + entWidth ft }), d') ∧
      SameStore d d' := by
  cases ft with
  | fat12 =>
    simp only [entOff, entWidth] at hfit
    obtain ⟨d1, h1, hs1⟩ := run_slice_readU16 { s with offset := c + c / 2 } d h hfit hdev
    refine ⟨d1, ?_, hs1⟩
    unfold Table.getRaw
    simp only
    rw [run_bind_ok (run_slice_seekStart s _ d (by omega))]
    simp only
    rw [run_bind_ok h1]
    simp [imgFatRaw, entOff, entWidth]
  | fat16 =>
    simp only [entOff, entWidth] at hfit
    obtain ⟨d1, h1, hs1⟩ := run_slice_readU16 { s with offset := c * 2 } d h hfit hdev
    refine ⟨d1, ?_, hs1⟩
    unfold Table.getRaw
    simp only
    rw [run_bind_ok (run_slice_seekStart s _ d (by omega))]
    simp only
    rw [h1]
    simp [imgFatRaw, entOff, entWidth]
  | fat32 =>
    simp only [entOff, entWidth] at hfit
    obtain ⟨d1, h1, hs1⟩ := run_slice_readU32 { s with offset := c * 4 } d h hfit hdev
    refine ⟨d1, ?_, hs1⟩
    unfold Table.getRaw
    simp only
    rw [run_bind_ok (run_slice_seekStart s _ d (by omega))]
    simp only
    rw [h1]
    simp [imgFatRaw, entOff, entWidth]

end FatVerif.FileSim
