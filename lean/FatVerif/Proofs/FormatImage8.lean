import FatVerif.Proofs.FormatImage7
import FatVerif.Proofs.FormatBytes
/-! C06 image part, 8: the master lemma — a successful `format_volume` on a large enough device, with all facts. -/
namespace FatVerif
open Format

/-- the hypotheses of the image theorems: an accepted request, a successful run, a device of at least
    `total_sectors * bytes_per_sector` bytes -/
structure FormatRun (o : FormatOpts) (d d' : Dev) : Prop where
  acc : Accepted o
  rng : InRange o
  ok : run (formatVolume o) d = (.ok (), d')
  tot : fmtTotal o d < 4294967296
  size : fmtTotal o d * o.bps ≤ d.img.size

theorem serialize_len_of_ok {o : FormatOpts} {t : Nat} {boot : FBoot} {ft : FatType} (hacc : Accepted o)
    (hr : InRange o) (ht : t < 4294967296) (hc : formatChecked o t = .ok (boot, ft)) : boot.serialize.length = 512 := by
  obtain ⟨c, _, hspc, hbps, _, _, _, hfacts, hboot, h16, _, _⟩ := formatChecked_ok_layout hacc ht hc
  have hspf32 : spfOf t o.bps (c / o.bps) ft.bits (reservedFor ft)
      (determineRootDirSectors o.rootEntries o.bps ft) o.fats < 4294967296 := by unfold spfOf; omega
  have hb : o.bps < 65536 := by
    simp only [List.mem_cons, List.mem_nil_iff, or_false] at hbps; omega
  have hs : c / o.bps < 256 := by
    simp only [List.mem_cons, List.mem_nil_iff, or_false] at hspc; omega
  have hf : o.fats < 256 := by have := hacc.fats; omega
  obtain ⟨_, hl⟩ := decode_bootOf o t _ (c / o.bps) ft hr hb hf hacc.root ht hfacts.1 hspf32 h16 hs
  rw [← hboot] at hl
  exact hl

/-- everything known about a successful `format_volume` -/
structure FormatFacts (o : FormatOpts) (d d' : Dev) (boot : FBoot) (ft : FatType)
    (Lb Lk Lz Lf Lr Lt : List LogItem) : Prop where
  checked : formatChecked o (fmtTotal o d) = .ok (boot, ft)
  geom : FmtGeom o (fmtTotal o d) boot ft
  len : boot.serialize.length = 512
  writes : d'.writesOf = Lt ++ (Lr ++ (Lf ++ (Lz ++ (Lk ++ (Lb ++ d.writesOf)))))
  pos : d'.pos = 0
  regions : FmtRegions o boot ft Lb Lk Lz Lf Lr Lt
  log : ∃ d0, d0.log = d.log ∧ d0.img.size = d.img.size ∧ ImgRel d d0 ∧ FormatLog o boot ft d0 d' Lb Lk Lz Lf Lr Lt
  bootT : TileAt 0 (bootTile boot 0) Lb
  backupT : ft = .fat32 → TileAt (6 * boot.bpb.bps) (bootTile boot (6 * boot.bpb.bps)) Lk
  fatZeroT : TileAt (boot.bpb.reserved * boot.bpb.bps)
    (List.replicate (boot.bpb.fats * boot.bpb.sectorsPerFat * boot.bpb.bps) 0) Lz
  rootZeroT : TileAt ((boot.bpb.reserved + boot.bpb.fats * boot.bpb.sectorsPerFat) * boot.bpb.bps)
    (List.replicate (boot.bpb.rootDirSectors * boot.bpb.bps) 0) Lr

theorem FormatRun.facts {o : FormatOpts} {d d' : Dev} (h : FormatRun o d d') :
    ∃ boot ft Lb Lk Lz Lf Lr Lt, FormatFacts o d d' boot ft Lb Lk Lz Lf Lr Lt := by
  obtain ⟨boot, ft, hfc, Lb, Lk, Lz, Lf, Lr, Lt, d0, hl0, hs0, himg0, hlog⟩ := formatVolume_trace o d d' h.ok
  have hg := fmtGeom_of_ok h.acc h.tot hfc
  have hlen := serialize_len_of_ok h.acc h.rng h.tot hfc
  have hbps : boot.bpb.bps = o.bps := by
    obtain ⟨c, _, _, _, _, _, _, _, hboot, _⟩ := formatChecked_ok_layout h.acc h.tot hfc
    rw [hboot]; rfl
  have hreg := hlog.regions hg hlen (by rw [hbps, hs0]; exact h.size)
  obtain ⟨dK, _, _, _, hfr⟩ := hlog.rest
  refine ⟨boot, ft, Lb, Lk, Lz, Lf, Lr, Lt, hfc, hg, hlen, ?_, hlog.pos, hreg, ⟨d0, hl0, hs0, himg0, hlog⟩, hlog.bootT, ?_,
    hfr.fatZero, hfr.rootZero⟩
  · have := hlog.seg
    unfold Seg at this
    have hw : d0.writesOf = d.writesOf := by unfold Dev.writesOf; rw [hl0]
    rw [this, hw]; simp [List.append_assoc]
  · intro h32
    rcases hlog.backup with ⟨_, hk⟩ | ⟨hf, _⟩
    · rw [(hg.f32 h32).1] at hk; exact hk
    · have := hg.isFat32; rw [hf, h32] at this; simp at this

end FatVerif
