import FatVerif.Model.Format
/-! Inversion lemmas for the checked arithmetic of `Model/Format.lean` and flat characterisations of `try_fs_layout`. -/
namespace FatVerif.Format

theorem bind_ok_iff {α β : Type} {x : Except Err α} {f : α → Except Err β} {r : β} :
    (x >>= f) = .ok r ↔ ∃ a, x = .ok a ∧ f a = .ok r := by
  cases x <;> simp [bind, Except.bind]

theorem bind_err_iff {α β : Type} {x : Except Err α} {f : α → Except Err β} {e : Err} :
    (x >>= f) = .error e ↔ x = .error e ∨ ∃ a, x = .ok a ∧ f a = .error e := by
  cases x <;> simp [bind, Except.bind]

theorem chkSub_ok {a b r : Nat} : chkSub a b = .ok r ↔ r = a - b ∧ b ≤ a := by
  unfold chkSub; split <;> simp_all [eq_comm] <;> omega
theorem chkSub_err {a b : Nat} {e : Err} : chkSub a b = .error e ↔ e = .panic ∧ a < b := by
  unfold chkSub; split <;> simp_all [eq_comm] <;> omega
theorem chkAdd32_ok {a b r : Nat} : chkAdd32 a b = .ok r ↔ r = a + b ∧ a + b < 4294967296 := by
  unfold chkAdd32; split <;> simp_all [eq_comm] <;> omega
theorem chkAdd32_err {a b : Nat} {e : Err} : chkAdd32 a b = .error e ↔ e = .panic ∧ 4294967296 ≤ a + b := by
  unfold chkAdd32; split <;> simp_all [eq_comm] <;> omega
theorem chkMul32_ok {a b r : Nat} : chkMul32 a b = .ok r ↔ r = a * b ∧ a * b < 4294967296 := by
  unfold chkMul32; split <;> simp_all [eq_comm] <;> omega
theorem chkMul32_err {a b : Nat} {e : Err} : chkMul32 a b = .error e ↔ e = .panic ∧ 4294967296 ≤ a * b := by
  unfold chkMul32; split <;> simp_all [eq_comm] <;> omega
theorem chkDiv_ok {a b r : Nat} : chkDiv a b = .ok r ↔ r = a / b ∧ b ≠ 0 := by
  unfold chkDiv; split <;> simp_all [eq_comm]
theorem chkDiv_err {a b : Nat} {e : Err} : chkDiv a b = .error e ↔ e = .panic ∧ b = 0 := by
  unfold chkDiv; split <;> simp_all [eq_comm]

theorem ok_bind {α β : Type} (a : α) (f : α → Except Err β) : (Except.ok a >>= f) = f a := rfl
theorem err_bind {α β : Type} (e : Err) (f : α → Except Err β) : ((Except.error e : Except Err α) >>= f) = .error e := rfl

theorem chkSub_of_le {a b : Nat} (h : b ≤ a) : chkSub a b = .ok (a - b) := by simp [chkSub, h]
theorem chkSub_of_lt {a b : Nat} (h : ¬ b ≤ a) : chkSub a b = .error .panic := by simp [chkSub, h]
theorem chkAdd32_of_lt {a b : Nat} (h : a + b < 4294967296) : chkAdd32 a b = .ok (a + b) := by simp [chkAdd32, h]
theorem chkAdd32_of_ge {a b : Nat} (h : ¬ a + b < 4294967296) : chkAdd32 a b = .error .panic := by simp [chkAdd32, h]
theorem chkMul32_of_lt {a b : Nat} (h : a * b < 4294967296) : chkMul32 a b = .ok (a * b) := by simp [chkMul32, h]
theorem chkMul32_of_ge {a b : Nat} (h : ¬ a * b < 4294967296) : chkMul32 a b = .error .panic := by simp [chkMul32, h]
theorem chkDiv_of_ne {a b : Nat} (h : ¬ b = 0) : chkDiv a b = .ok (a / b) := by simp [chkDiv, h]
theorem chkDiv_of_eq {a b : Nat} (h : b = 0) : chkDiv a b = .error .panic := by simp [chkDiv, h]

/-- `t2` of `determine_sectors_per_fat` -/
def t2Of (bps spc bits fats : Nat) : Nat := spc * bps * 8 / bits + fats
/-- value of `determine_sectors_per_fat` when nothing panics -/
def spfOf (total bps spc bits reserved rds fats : Nat) : Nat :=
  ((total - reserved - rds + 2 * spc + t2Of bps spc bits fats - 1) / t2Of bps spc bits fats) % 4294967296
/-- cluster count of `try_fs_layout` when nothing panics -/
def clOf (total spc reserved rds fats spf : Nat) : Nat := (total - reserved - rds - spf * fats) / spc

/-- flat form of `determine_sectors_per_fat` -/
theorem determineSectorsPerFat_eq (total bps spc : Nat) (ft : FatType) (reserved rds fats : Nat) :
    determineSectorsPerFat total bps spc ft reserved rds fats =
      if reserved ≤ total ∧ rds ≤ total - reserved ∧
         1 ≤ total - reserved - rds + 2 * spc + t2Of bps spc ft.bits fats ∧ ¬ t2Of bps spc ft.bits fats = 0
      then .ok (spfOf total bps spc ft.bits reserved rds fats) else .error .panic := by
  unfold determineSectorsPerFat spfOf t2Of
  by_cases h1 : reserved ≤ total
  · rw [chkSub_of_le h1, ok_bind]
    by_cases h2 : rds ≤ total - reserved
    · rw [chkSub_of_le h2, ok_bind]
      by_cases h3 : 1 ≤ total - reserved - rds + 2 * spc + (spc * bps * 8 / ft.bits + fats)
      · rw [chkSub_of_le h3, ok_bind]
        by_cases h4 : spc * bps * 8 / ft.bits + fats = 0
        · rw [chkDiv_of_eq h4, err_bind, if_neg (by simp [h4])]
        · rw [chkDiv_of_ne h4, ok_bind, if_pos ⟨h1, h2, h3, h4⟩]
      · rw [chkSub_of_lt h3, err_bind, if_neg (fun h => h3 h.2.2.1)]
    · rw [chkSub_of_lt h2, err_bind, if_neg (fun h => h2 h.2.1)]
  · rw [chkSub_of_lt h1, err_bind, if_neg (fun h => h1 h.1)]

/-- flat form of the cluster-count computation of `try_fs_layout` -/
theorem layoutClusters_eq (total spc reserved rds fats spf : Nat) :
    layoutClusters total spc reserved rds fats spf =
      if spf * fats < 4294967296 ∧ reserved ≤ total ∧ rds ≤ total - reserved ∧
         spf * fats ≤ total - reserved - rds ∧ ¬ spc = 0
      then .ok (clOf total spc reserved rds fats spf) else .error .panic := by
  unfold layoutClusters clOf
  by_cases h0 : spf * fats < 4294967296
  · rw [chkMul32_of_lt h0, ok_bind]
    by_cases h1 : reserved ≤ total
    · rw [chkSub_of_le h1, ok_bind]
      by_cases h2 : rds ≤ total - reserved
      · rw [chkSub_of_le h2, ok_bind]
        by_cases h3 : spf * fats ≤ total - reserved - rds
        · rw [chkSub_of_le h3, ok_bind]
          by_cases h4 : spc = 0
          · rw [chkDiv_of_eq h4, if_neg (fun h => h.2.2.2.2 h4)]
          · rw [chkDiv_of_ne h4, if_pos ⟨h0, h1, h2, h3, h4⟩]
        · rw [chkSub_of_lt h3, err_bind, if_neg (fun h => h3 h.2.2.2.1)]
      · rw [chkSub_of_lt h2, err_bind, if_neg (fun h => h2 h.2.2.1)]
    · rw [chkSub_of_lt h1, err_bind, if_neg (fun h => h1 h.2.1)]
  · rw [chkMul32_of_ge h0, err_bind, if_neg (fun h => h0 h.1)]

/-- none of the checked operations of `try_fs_layout` (before the final cluster-count checks) fails -/
def LayoutArithOk (total bps spc bits reserved rds fats : Nat) : Prop :=
  (reserved ≤ total ∧ rds ≤ total - reserved ∧
    1 ≤ total - reserved - rds + 2 * spc + t2Of bps spc bits fats ∧ ¬ t2Of bps spc bits fats = 0) ∧
  (spfOf total bps spc bits reserved rds fats * fats < 4294967296 ∧ reserved ≤ total ∧ rds ≤ total - reserved ∧
    spfOf total bps spc bits reserved rds fats * fats ≤ total - reserved - rds ∧ ¬ spc = 0)

instance (total bps spc bits reserved rds fats : Nat) : Decidable (LayoutArithOk total bps spc bits reserved rds fats) := by
  unfold LayoutArithOk; infer_instance

/-- flat form of `try_fs_layout` -/
theorem tryFsLayout_eq (total bps spc : Nat) (ft : FatType) (rds fats : Nat) :
    tryFsLayout total bps spc ft rds fats =
      if total ≤ reservedFor ft + rds + 8 then .error .invalidInput
      else if LayoutArithOk total bps spc ft.bits (reservedFor ft) rds fats then
        checkClusters ft (reservedFor ft) (spfOf total bps spc ft.bits (reservedFor ft) rds fats)
          (clOf total spc (reservedFor ft) rds fats (spfOf total bps spc ft.bits (reservedFor ft) rds fats))
      else .error .panic := by
  unfold tryFsLayout
  rw [determineSectorsPerFat_eq]
  by_cases h0 : total ≤ reservedFor ft + rds + 8
  · rw [if_pos h0, if_pos h0]
  · rw [if_neg h0, if_neg h0]
    by_cases hA : LayoutArithOk total bps spc ft.bits (reservedFor ft) rds fats
    · rw [if_pos hA]
      have h1 := hA.1
      have h2 := hA.2
      rw [if_pos h1, ok_bind, layoutClusters_eq, if_pos h2, ok_bind]
    · rw [if_neg hA]
      by_cases h1 : reservedFor ft ≤ total ∧ rds ≤ total - reservedFor ft ∧
          1 ≤ total - reservedFor ft - rds + 2 * spc + t2Of bps spc ft.bits fats ∧ ¬ t2Of bps spc ft.bits fats = 0
      · rw [if_pos h1, ok_bind, layoutClusters_eq, if_neg (fun h2 => hA ⟨h1, h2⟩), err_bind]
      · rw [if_neg h1, err_bind]

end FatVerif.Format
