import FatVerif.Proofs.SlotTreeImg9
/-!
# Slot trees on a device image, part 10: facts about the model's results (kind of the root, no `hang`, the tree after an
error) used by the call machinery of part 20
-/
namespace FatVerif
namespace SlotTreeImg
open Lfn DirSlots DirAlias SlotTree DirSim FatVerif.FileSim FatVerif.Fat

theorem delEntry_isDir (e : LfnEntry) (n : Node) : (delEntry e n).isDir = n.isDir := by
  cases n <;> rfl

theorem rmFinal_isDir (up : Char → List Char) (t : Node) (p : List String) (l : String) :
    (rmFinal up t p l).tree.isDir = t.isDir := by
  unfold rmFinal
  repeat' split
  all_goals first | rfl | exact updS_isDir _ _ _ (fun _ => delEntry_isDir _ _)

theorem removeS_isDir (up : Char → List Char) (t : Node) (cwd : List String) (path : String) :
    (removeS up t cwd path).tree.isDir = t.isDir := by
  rw [removeS_eq]
  cases walkDirsS up t cwd (pathParts path).1 with
  | error e => rfl
  | ok p => exact rmFinal_isDir _ _ _ _

theorem removeS_no_hang (up : Char → List Char) (t : Node) (cwd : List String) (path : String) :
    (removeS up t cwd path).out ≠ .error .hang := by
  rw [removeS_eq]
  cases hw : walkDirsS up t cwd (pathParts path).1 with
  | error e =>
    intro h
    have : e = .hang := by simpa [fail] using h
    exact err_ne_hang_of_walk hw this
  | ok p => exact rmFinal_no_hang _ _ _ _

theorem rmFinal_err_tree (up : Char → List Char) (t : Node) (p : List String) (l : String) (e : Err)
    (h : (rmFinal up t p l).out = .error e) : (rmFinal up t p l).tree = t := by
  unfold rmFinal at h ⊢
  repeat' split
  all_goals first | rfl | skip
  all_goals simp_all [done]

theorem removeS_err_tree (up : Char → List Char) (t : Node) (cwd : List String) (path : String) (e : Err)
    (h : (removeS up t cwd path).out = .error e) : (removeS up t cwd path).tree = t := by
  rw [removeS_eq] at h ⊢
  cases hw : walkDirsS up t cwd (pathParts path).1 with
  | error e' => rfl
  | ok p =>
    rw [hw] at h
    exact rmFinal_err_tree _ _ _ _ e h

theorem addEntry_isDir (units sfn : List Nat) (child n : Node) : (addEntry units sfn child n).isDir = n.isDir := by
  cases n <;> rfl

theorem createFinal_isDir (up : Char → List Char) (fuel : Nat) (t : Node) (p : List String)
    (slots : List (List Nat)) (name : String) (w : Bool) (stamp : List Nat) :
    (createFinal up fuel t p slots name w stamp).tree.isDir = t.isDir := by
  unfold createFinal
  repeat' split
  all_goals first | rfl | exact updS_isDir _ _ _ (fun _ => addEntry_isDir _ _ _ _)

theorem createS_isDir (up : Char → List Char) (fuel : Nat) (t : Node) (cwd : List String) (path : String)
    (w : Bool) (stamp : List Nat) : (createS up fuel t cwd path w stamp).tree.isDir = t.isDir := by
  unfold createS
  repeat' split
  all_goals first | rfl | exact createFinal_isDir _ _ _ _ _ _ _ _

theorem isDir_iff_dir (t : Node) : t.isDir = true ↔ ∃ s c, t = .dir s c := by
  cases t with
  | file b => simp [Node.isDir]
  | dir s c => simp [Node.isDir]

theorem openS_no_hang (up : Char → List Char) (t : Node) (cwd : List String) (p : String) (w : Bool) :
    (openS up t cwd p w).out ≠ .error .hang := by
  rw [openS_eq]
  cases hres : openRes up t cwd (pathParts p) with
  | error e =>
    intro h
    have : e = .hang := by simpa [fail] using h
    exact openRes_err hres this
  | ok pn =>
    obtain ⟨_, n⟩ := pn
    simp only
    split <;> simp [fail, done]

end SlotTreeImg
end FatVerif
