import FatVerif.Proofs.FatImgBytes
import FatVerif.Props.C10slice
import FatVerif.Proofs.FormatImage12
/-! Reading the FAT through a `DiskSlice`: what the little-endian readers return in terms of the window's byte array,
    and the read-only table programs (`get`, `find_free`, `count_free`) = the pure byte-level functions of `FatAlgo`
    on `fatBytes`. -/
namespace FatVerif
open FatVerif.Fat

/-- the image bytes and the mounted state are the same (counters and the device position may differ) -/
def SameBytes (d d' : Dev) : Prop := (∀ q, d'.img.getByte q = d.img.getByte q) ∧ d'.fs = d.fs ∧ d'.img.WF ∧
  d'.img.size = d.img.size

theorem SameBytes.refl {d : Dev} (h : d.img.WF) : SameBytes d d := ⟨fun _ => rfl, rfl, h, rfl⟩

theorem SameBytes.trans {a b c : Dev} (h1 : SameBytes a b) (h2 : SameBytes b c) : SameBytes a c :=
  ⟨fun q => (h2.1 q).trans (h1.1 q), h2.2.1.trans h1.2.1, h2.2.2.1, h2.2.2.2.trans h1.2.2.2⟩

theorem SameBytes.bytes {d d' : Dev} (h : SameBytes d d') (B Z : Nat) : fatBytes B Z d'.img = fatBytes B Z d.img :=
  fatBytes_congr B Z d.img d'.img (fun i _ => h.1 _)

theorem SameBytes.of_eq {d d' : Dev} (hw : d.img.WF) (hi : d'.img = d.img) (hf : d'.fs = d.fs) : SameBytes d d' :=
  ⟨fun _ => by rw [hi], hf, by rw [hi]; exact hw, by rw [hi]⟩

/-- a program without write operations leaves the store alone, whatever its outcome -/
theorem quiet_sameBytes {α} {p : Prog α} (hq : QuietOps p) {d d' : Dev} {r : Except Err α} (hw : d.img.WF)
    (hr : run p d = (r, d')) : SameBytes d d' := by
  have hsw := noWriteOps_sound hq.noWriteOps d hr
  have := img_after_quiet hr hw hsw.2
  exact ⟨this.2, quietOps_fs hq d hr, this.1, run_img_size _ _ _ _ hr⟩

section window
variable {s0 : DiskSlice}

/-- successful `seek(Start n)` on a slice: pure -/
theorem slice_seek_at {s : DiskSlice} (hs : SliceInv s0 s) (n : Nat) (d : Dev) {t : Nat} {s1 : DiskSlice} {d' : Dev}
    (hr : run (DiskSlice.strm.seek s (.start n)) d = (.ok (t, s1), d')) :
    d' = d ∧ s1 = { s with offset := n } ∧ n ≤ s0.size ∧ SliceInv s0 s1 := by
  have hr' : run (s.seek (.start n)) d = (.ok (t, s1), d') := hr
  obtain ⟨h1, _, h3, h4⟩ := run_slice_seek_start s n d hr'
  refine ⟨h1, h3, by rw [← hs.size]; exact h4, ?_⟩
  rw [h3]; exact ⟨hs.beginOff, hs.size, hs.mirrors, hs.viaFs, h4⟩

theorem slice_readN_at {s : DiskSlice} (hs : SliceInv s0 s) (n : Nat) (d : Dev) (hw : d.img.WF)
    (hdev : s0.beginOff + s0.size ≤ d.img.size) {bs : List Nat} {s' : DiskSlice} {d' : Dev}
    (hr : run (readExact DiskSlice.strm s n) d = (.ok (bs, s'), d')) :
    s.offset + n ≤ s0.size ∧ (∀ k, k < n → bs.getD k 0 = rd (fatBytes s0.beginOff s0.size d.img) (s.offset + k)) ∧
    s' = { s with offset := s.offset + n } ∧ SliceInv s0 s' ∧ SameBytes d d' := by
  obtain ⟨h1, h2, h3, h4, h5⟩ := slice_readExact_ok s n d hs.le (by rw [hs.beginOff, hs.size]; exact hdev) hr
  rw [hs.size] at h1
  refine ⟨h1, ?_, h3, ?_, SameBytes.of_eq hw h4 h5⟩
  · intro k hk
    rw [h2, Img.read_getD' _ _ _ _ hk, rd_fatBytes, if_pos (by omega), hs.beginOff, Nat.add_assoc]
  · rw [h3]; exact ⟨hs.beginOff, hs.size, hs.mirrors, hs.viaFs, by show s.offset + n ≤ s.size; rw [hs.size]; exact h1⟩

theorem slice_readU8_at {s : DiskSlice} (hs : SliceInv s0 s) (d : Dev) (hw : d.img.WF)
    (hdev : s0.beginOff + s0.size ≤ d.img.size) {v : Nat} {s' : DiskSlice} {d' : Dev}
    (hr : run (readU8 DiskSlice.strm s) d = (.ok (v, s'), d')) :
    s.offset + 1 ≤ s0.size ∧ v = rd (fatBytes s0.beginOff s0.size d.img) s.offset ∧
    s' = { s with offset := s.offset + 1 } ∧ SliceInv s0 s' ∧ SameBytes d d' := by
  unfold readU8 at hr
  rcases run_bind_cases hr with ⟨⟨bs, s1⟩, d1, h1, h2⟩ | ⟨e, _, he⟩
  · obtain ⟨a, b, c, e, f⟩ := slice_readN_at hs 1 d hw hdev h1
    have h2' : run (Prog.pure (bs.getD 0 0, s1)) d1 = (.ok (v, s'), d') := h2
    simp only [run] at h2'; cases h2'
    exact ⟨a, by rw [b 0 (by omega)]; rfl, c, e, f⟩
  · cases he

theorem slice_readU16_at {s : DiskSlice} (hs : SliceInv s0 s) (d : Dev) (hw : d.img.WF)
    (hdev : s0.beginOff + s0.size ≤ d.img.size) {v : Nat} {s' : DiskSlice} {d' : Dev}
    (hr : run (readU16 DiskSlice.strm s) d = (.ok (v, s'), d')) :
    s.offset + 2 ≤ s0.size ∧ v = rd16 (fatBytes s0.beginOff s0.size d.img) s.offset ∧
    s' = { s with offset := s.offset + 2 } ∧ SliceInv s0 s' ∧ SameBytes d d' := by
  unfold readU16 at hr
  rcases run_bind_cases hr with ⟨⟨bs, s1⟩, d1, h1, h2⟩ | ⟨e, _, he⟩
  · obtain ⟨a, b, c, e, f⟩ := slice_readN_at hs 2 d hw hdev h1
    have h2' : run (Prog.pure (le16 (bs.getD 0 0) (bs.getD 1 0), s1)) d1 = (.ok (v, s'), d') := h2
    simp only [run] at h2'; cases h2'
    refine ⟨a, ?_, c, e, f⟩
    rw [b 0 (by omega), b 1 (by omega)]; rfl
  · cases he

theorem slice_readU32_at {s : DiskSlice} (hs : SliceInv s0 s) (d : Dev) (hw : d.img.WF)
    (hdev : s0.beginOff + s0.size ≤ d.img.size) {v : Nat} {s' : DiskSlice} {d' : Dev}
    (hr : run (readU32 DiskSlice.strm s) d = (.ok (v, s'), d')) :
    s.offset + 4 ≤ s0.size ∧ v = rd32 (fatBytes s0.beginOff s0.size d.img) s.offset ∧
    s' = { s with offset := s.offset + 4 } ∧ SliceInv s0 s' ∧ SameBytes d d' := by
  unfold readU32 at hr
  rcases run_bind_cases hr with ⟨⟨bs, s1⟩, d1, h1, h2⟩ | ⟨e, _, he⟩
  · obtain ⟨a, b, c, e, f⟩ := slice_readN_at hs 4 d hw hdev h1
    have h2' : run (Prog.pure (le32 (bs.getD 0 0) (bs.getD 1 0) (bs.getD 2 0) (bs.getD 3 0), s1)) d1 =
        (.ok (v, s'), d') := h2
    simp only [run] at h2'; cases h2'
    refine ⟨a, ?_, c, e, f⟩
    rw [b 0 (by omega), b 1 (by omega), b 2 (by omega), b 3 (by omega)]; rfl
  · cases he

end window
end FatVerif
