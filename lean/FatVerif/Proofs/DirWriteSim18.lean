import FatVerif.Proofs.DirWriteSim17
/-! Directory WRITES, part 18: growth, slot level — the geometry of the grown chain, list lemmas for `putK` on a slot
    list followed by zero slots, and `InfoOk` across directory writes. -/
namespace FatVerif.DirSim
open FatVerif.FileSim FatVerif.Fat DirEntryData

/-! ### `putK` and `writeAt` on a list followed by zero slots -/

theorem putK_append (L : List (List Nat)) (p : Nat) : ∀ (a b : List (List Nat)),
    putK L p (a ++ b) = putK (putK L p a) (p + a.length) b := by
  intro a
  induction a generalizing L p with
  | nil => intro b; rfl
  | cons x xs ih =>
    intro b
    simp only [List.cons_append, putK, List.length_cons]
    rw [ih, show p + 1 + xs.length = p + (xs.length + 1) by omega]

theorem putK_left (L Z : List (List Nat)) (p : Nat) (new : List (List Nat)) (h : p + new.length ≤ L.length) :
    putK (L ++ Z) p new = putK L p new ++ Z := by
  apply List.ext_getElem?
  intro i
  rw [putK_getElem? new (L ++ Z) p i (by rw [List.length_append]; omega)]
  by_cases hi : i < L.length
  · rw [List.getElem?_append_left (show i < (putK L p new).length by rw [putK_length]; exact hi),
      putK_getElem? new L p i h, List.getElem?_append_left hi]
  · rw [List.getElem?_append_right (show (putK L p new).length ≤ i by rw [putK_length]; omega), putK_length,
      if_neg (by omega), List.getElem?_append_right (by omega)]

/-- writing `new` at slot `p` of `slots ++ zeros`, reaching beyond `slots`: `DirSlots.writeAt` (the list grows) followed
    by the zero slots that remain -/
theorem putK_grow (slots : List (List Nat)) (K p : Nat) (new : List (List Nat)) (hp : p ≤ slots.length)
    (h1 : slots.length ≤ p + new.length) (h2 : p + new.length ≤ slots.length + K) :
    putK (slots ++ List.replicate K DirSlots.zeroSlot) p new =
      DirSlots.writeAt slots p new ++ List.replicate (slots.length + K - (p + new.length)) DirSlots.zeroSlot := by
  rw [putK_eq_writeAt _ _ _ (by rw [List.length_append, List.length_replicate]; exact h2)]
  unfold DirSlots.writeAt
  rw [List.take_append_of_le_length hp, List.drop_append, List.drop_eq_nil_of_le h1, List.append_nil,
    List.nil_append, List.drop_replicate]
  congr 2
  omega

/-! ### the geometry of the grown chain -/

theorem chainSrc_append_old (fs : FsState) (chain : List Nat) (c o : Nat) (h : o / fs.clusterSize < chain.length) :
    chainSrc fs (chain ++ [c]) o = chainSrc fs chain o := by
  unfold chainSrc
  rw [List.getD_eq_getElem?_getD, List.getD_eq_getElem?_getD, List.getElem?_append_left h]

theorem chainSrc_append_new (fs : FsState) (chain : List Nat) (c x : Nat) (hcs : 0 < fs.clusterSize)
    (hx : x < fs.clusterSize) :
    chainSrc fs (chain ++ [c]) (chain.length * fs.clusterSize + x) = clusterOff fs c + x := by
  unfold chainSrc
  have hd : (chain.length * fs.clusterSize + x) / fs.clusterSize = chain.length := by
    rw [Nat.mul_comm, Nat.mul_add_div hcs, Nat.div_eq_of_lt hx, Nat.add_zero]
  have hm : (chain.length * fs.clusterSize + x) % fs.clusterSize = x := by
    rw [Nat.mul_comm, Nat.mul_add_mod, Nat.mod_eq_of_lt hx]
  rw [hd, hm, List.getD_eq_getElem?_getD, List.getElem?_append_right (Nat.le_refl _), Nat.sub_self]
  rfl

/-- the slots of the grown directory, given what the growth slot did to the bytes -/
theorem srcSlots_grown (fs : FsState) (chain : List Nat) (c : Nat) (hcs : 0 < fs.clusterSize)
    (h32 : fs.clusterSize % 32 = 0) (img img' : Img) (bytes : List Nat) (hlen : bytes.length = 32)
    (hb : ∀ b ∈ bytes, b < 256)
    (hold : ∀ i, i < chain.length * (fs.clusterSize / 32) → ∀ x, x < 32 →
      img'.getByte (chainSrc fs chain (32 * i) + x) = img.getByte (chainSrc fs chain (32 * i) + x))
    (hnew : ∀ q, clusterOff fs c ≤ q → q < clusterOff fs c + fs.clusterSize →
      img'.getByte q = putBytes (fun _ => 0) (clusterOff fs c) bytes q) :
    srcSlots img' (chainSrc fs (chain ++ [c])) ((chain.length + 1) * (fs.clusterSize / 32)) =
      srcSlots img (chainSrc fs chain) (chain.length * (fs.clusterSize / 32)) ++ [bytes] ++
        List.replicate (fs.clusterSize / 32 - 1) DirSlots.zeroSlot := by
  have hK : 32 * (fs.clusterSize / 32) = fs.clusterSize := by
    have := Nat.div_add_mod fs.clusterSize 32; omega
  have hKpos : 0 < fs.clusterSize / 32 := by
    rcases Nat.eq_zero_or_pos (fs.clusterSize / 32) with h | h
    · rw [h] at hK; omega
    · exact h
  apply List.ext_getElem?
  intro i
  unfold srcSlots
  rw [List.getElem?_map]
  by_cases hi : i < (chain.length + 1) * (fs.clusterSize / 32)
  · rw [List.getElem?_range hi]
    simp only [Option.map]
    by_cases hio : i < chain.length * (fs.clusterSize / 32)
    · -- an old slot
      rw [List.append_assoc, List.getElem?_append_left (by simp; exact hio), List.getElem?_map,
        List.getElem?_range hio]
      simp only [Option.map]
      congr 1
      have hidx : 32 * i / fs.clusterSize < chain.length := by
        apply div_lt_of_lt_mul hcs
        have : 32 * (chain.length * (fs.clusterSize / 32)) = chain.length * fs.clusterSize := by
          rw [Nat.mul_left_comm, hK]
        omega
      rw [chainSrc_append_old fs chain c _ hidx]
      unfold Img.read
      apply List.map_congr_left
      intro x hx
      exact hold i hio x (List.mem_range.mp hx)
    · -- a slot of the new cluster
      obtain ⟨j, hj⟩ : ∃ j, i = chain.length * (fs.clusterSize / 32) + j := ⟨i - chain.length * (fs.clusterSize / 32), by omega⟩
      have hjK : j < fs.clusterSize / 32 := by
        rw [Nat.add_mul, Nat.one_mul] at hi; omega
      have hoff : 32 * i = chain.length * fs.clusterSize + 32 * j := by
        rw [hj, Nat.mul_add, Nat.mul_left_comm, hK]
      have hsrc : chainSrc fs (chain ++ [c]) (32 * i) = clusterOff fs c + 32 * j := by
        rw [hoff]; exact chainSrc_append_new fs chain c _ hcs (by omega)
      rw [hsrc, List.append_assoc, List.getElem?_append_right (by simp; omega)]
      simp only [List.length_map, List.length_range]
      have hsub : i - chain.length * (fs.clusterSize / 32) = j := by omega
      rw [hsub]
      cases j with
      | zero =>
        simp only [List.singleton_append, List.getElem?_cons_zero, Nat.mul_zero, Nat.add_zero]
        congr 1
        apply List.ext_getElem
        · simp [hlen]
        · intro x h1 h2
          simp only [Img.read, List.getElem_map, List.getElem_range]
          rw [hnew _ (by omega) (by omega)]
          unfold putBytes
          rw [if_pos (by omega), Nat.add_sub_cancel_left, List.getD_eq_getElem?_getD, List.getElem?_eq_getElem h2]
          simp only [Option.getD]
          exact Nat.mod_eq_of_lt (hb _ (List.getElem_mem h2))
      | succ j =>
        rw [List.singleton_append, List.getElem?_cons_succ, List.getElem?_replicate, if_pos (by omega)]
        congr 1
        apply List.ext_getElem
        · simp [DirSlots.zeroSlot]
        · intro x h1 h2
          have hx : x < 32 := by simpa using h1
          simp only [Img.read, List.getElem_map, List.getElem_range, DirSlots.zeroSlot, List.getElem_replicate]
          rw [hnew _ (by omega) (by omega)]
          unfold putBytes
          rw [if_neg (by omega)]
  · rw [List.getElem?_eq_none (by simp; omega)]
    simp only [Option.map]
    rw [List.getElem?_eq_none]
    simp only [List.length_append, List.length_map, List.length_range, List.length_singleton, List.length_replicate]
    rw [Nat.add_mul, Nat.one_mul] at hi
    omega

/-! ### `InfoOk` across a directory write -/

theorem infoOk_of_writesTo {d d' : Dev} {p : Nat} {bs : List Nat} (hw : WritesTo d d' p bs) (hwf : d.img.WF)
    (hgeo : Geo d.fs d.img.size) (hp : d.fs.firstDataSector * d.fs.bps ≤ p) (h : InfoOk d.fs d.img) :
    InfoOk d'.fs d'.img := by
  have hfat : FatAgree d.fs d.img d'.img := by
    intro q h1 h2
    have := hgeo.status_lt
    have := hgeo.fat_data
    have : (fatSliceOf d.fs).size ≤ (fatSliceOf d.fs).mirrors * (fatSliceOf d.fs).size :=
      Nat.le_mul_of_pos_left _ hgeo.mirrors_pos
    rw [hw.bytes hwf q (by omega)]
    unfold putBytes
    rw [if_neg (by omega)]
  exact infoOk_congr h hw.info hw.step.geom.totalClusters (by rw [hw.step.geom.tabView, tabView_congr hgeo hfat])

end FatVerif.DirSim
