import FatVerif.Proofs.DecodeAgree2
import FatVerif.Props.C07run
import FatVerif.Props.C01sim
/-! C08, part 1: the layout hypotheses the simulations keep (`FileSim.Geo`, `DirSim.RootReadable`) are consequences of a
    valid boot sector + the mount + three facts a specification-valid volume has (the FAT holds an entry for every
    cluster, the active FAT exists, the declared volume fits the device). -/
namespace FatVerif.DecodeAgree
open FatVerif FatVerif.Fat FatVerif.FileSim FatVerif.DirSim Bpb

/-- the mounted state of a volume whose boot sector decodes to `p` (what `mount_run_ok` hands out) -/
def fsOf (strict accDate lfnAlloc unicode : Bool) (p : Bpb) (fi : FsInfo) : FsState :=
  mountedFs strict accDate lfnAlloc unicode ⟨p, p.geoOf, fi⟩

/-- the three layout facts of a specification-valid volume that `FileSystem::new` does not check -/
structure LayoutOk (p : Bpb) (sz : Nat) : Prop where
  /-- each FAT copy has an entry for every cluster (`validate_total_clusters` only warns) -/
  fatFits : p.tcNat + 2 ≤ p.sectorsPerFat * p.bytesPerSector * 8 / (FatType.fromClusters p.tcNat).bits
  /-- with mirroring off the active FAT is one of the FATs (not validated: C07 `active_fat_counterexample`) -/
  activeOk : p.mirroringEnabled = false → p.activeFat < p.fats
  /-- one FAT copy is at most 4 GiB (entry offsets are `u32`; FAT32 needs at most 1 GiB) -/
  fat4g : p.sectorsPerFat * p.bytesPerSector ≤ 4294967296
  /-- the declared volume lies inside the device -/
  fitsDev : p.totalSectors * p.bytesPerSector ≤ sz

theorem fds_le {p : Bpb} (hv : p.Valid) : p.fdsNat + p.tcNat * p.sectorsPerCluster ≤ p.totalSectors := by
  have h1 : p.tcNat * p.sectorsPerCluster ≤ p.totalSectors - p.fdsNat := Nat.div_mul_le_self _ _
  have h2 := hv.fds
  omega

theorem bps_ge {p : Bpb} (hv : p.Valid) : 512 ≤ p.bytesPerSector ∧ p.bytesPerSector % 32 = 0 := by
  rcases hv.bps with h | h | h | h <;> rw [h] <;> decide

theorem spc_pos {p : Bpb} (hv : p.Valid) : 1 ≤ p.sectorsPerCluster := by
  rcases hv.spc with h | h | h | h | h | h | h | h <;> omega

/-- **`Geo` from the mount**: the layout record the file / directory simulations assume holds of the mounted state of a
    valid boot sector on a device that holds the volume -/
theorem geo_of_valid {p : Bpb} (hr : p.InRange) (hv : p.Valid) (sz : Nat) (hl : LayoutOk p sz)
    (strict accDate lfnAlloc unicode : Bool) (fi : FsInfo) : Geo (fsOf strict accDate lfnAlloc unicode p fi) sz := by
  obtain ⟨hB, _⟩ := bps_ge hv
  have hS := spc_pos hv
  have hR := hv.rsvd
  have hF := hv.fats
  have hfds := fds_le hv
  have hts := totalSectors_lt hr
  have hfdsdef : p.fdsNat = p.reservedSectors + p.fats * p.sectorsPerFat + p.rdsNat := rfl
  have hmulB : ∀ a b, a ≤ b → a * p.bytesPerSector ≤ b * p.bytesPerSector := fun a b h => Nat.mul_le_mul_right _ h
  have hslice : ∀ (m : Bool), p.mirroringEnabled = m →
      (fatSliceOf (fsOf strict accDate lfnAlloc unicode p fi)).size = p.sectorsPerFat * p.bytesPerSector ∧
      (fatSliceOf (fsOf strict accDate lfnAlloc unicode p fi)).beginOff =
        (if m then p.reservedSectors * p.bytesPerSector
         else (p.reservedSectors + p.activeFat * p.sectorsPerFat) * p.bytesPerSector) ∧
      (fatSliceOf (fsOf strict accDate lfnAlloc unicode p fi)).mirrors = (if m then p.fats else 1) := by
    intro m hm
    have : (fsOf strict accDate lfnAlloc unicode p fi).mirroring = m := hm
    unfold fatSliceOf
    rw [this]
    cases m <;> exact ⟨rfl, rfl, rfl⟩
  obtain ⟨hsz, hbeg, hmir⟩ := hslice p.mirroringEnabled rfl
  have hRB : 512 ≤ p.reservedSectors * p.bytesPerSector :=
    Nat.le_trans hB (Nat.le_mul_of_pos_left _ hR)
  have hfdsB : p.fdsNat * p.bytesPerSector =
      p.reservedSectors * p.bytesPerSector + p.fats * (p.sectorsPerFat * p.bytesPerSector) +
        p.rdsNat * p.bytesPerSector := by
    rw [hfdsdef, Nat.add_mul, Nat.add_mul, Nat.mul_assoc]
  refine ⟨by show 0 < p.bytesPerSector; omega, by show 0 < p.sectorsPerCluster; omega, ?_, ?_, ?_, ?_, ?_, ?_, ?_, ?_, ?_⟩
  · -- status byte before the FAT
    rw [hbeg]
    cases hm : p.mirroringEnabled
    · simp only [Bool.false_eq_true, if_false]
      have := hmulB p.reservedSectors (p.reservedSectors + p.activeFat * p.sectorsPerFat) (Nat.le_add_right _ _)
      omega
    · simp only [if_true]; omega
  · -- every entry of the table inside one FAT copy
    intro c hc
    rw [hsz]
    have hc' : c < p.tcNat + 2 := hc
    have hfit := hl.fatFits
    have hft : (fsOf strict accDate lfnAlloc unicode p fi).fatType = FatType.fromClusters p.tcNat := rfl
    rw [hft]
    generalize p.sectorsPerFat * p.bytesPerSector = X at hfit ⊢
    unfold FatType.fromClusters at hfit ⊢
    split
    · rename_i h1; rw [if_pos h1] at hfit
      simp only [FatType.bits, entOff, entWidth] at hfit ⊢; omega
    · rename_i h1; rw [if_neg h1] at hfit
      split
      · rename_i h2; rw [if_pos h2] at hfit
        simp only [FatType.bits, entOff, entWidth] at hfit ⊢; omega
      · rename_i h2; rw [if_neg h2] at hfit
        simp only [FatType.bits, entOff, entWidth] at hfit ⊢; omega
  · rw [hmir]; split <;> omega
  · -- the FAT copies end before the data region
    show _ ≤ p.fdsNat * p.bytesPerSector
    rw [hbeg, hmir, hsz, hfdsB]
    cases hm : p.mirroringEnabled
    · simp only [Bool.false_eq_true, if_false, Nat.one_mul]
      have ha := hl.activeOk hm
      have h1 : (p.activeFat + 1) * (p.sectorsPerFat * p.bytesPerSector) ≤ p.fats * (p.sectorsPerFat * p.bytesPerSector) :=
        Nat.mul_le_mul_right _ ha
      rw [Nat.add_mul, Nat.mul_assoc]
      rw [Nat.add_mul, Nat.one_mul] at h1
      omega
    · simp only [if_true]; omega
  · -- all clusters inside the device
    show (p.fdsNat + (p.tcNat + 2 - 2) * p.sectorsPerCluster) * p.bytesPerSector ≤ sz
    rw [Nat.add_sub_cancel]
    exact Nat.le_trans (hmulB _ _ hfds) hl.fitsDev
  · show p.tcNat * p.sectorsPerCluster < 4294967296; omega
  · show p.fdsNat + p.tcNat * p.sectorsPerCluster < 4294967296; omega
  · rw [hsz]; exact hl.fat4g
  · -- cluster numbers below the BAD mark
    show p.tcNat + 2 ≤ badMark (FatType.fromClusters p.tcNat)
    have hlim := hv.limit
    unfold FatType.fromClusters
    split
    · simp only [badMark]; omega
    · split
      · simp only [badMark]; omega
      · simp only [badMark]; omega

/-- **`RootReadable` from the mount** (FAT12/16): the fixed root region lies inside the device, consists of whole
    slots, and the scan fuel exceeds their number -/
theorem rootReadable_of_valid {p : Bpb} (hv : p.Valid) (d : Dev) (hl : LayoutOk p d.img.size)
    (strict accDate lfnAlloc unicode : Bool) (fi : FsInfo) (hfs : d.fs = fsOf strict accDate lfnAlloc unicode p fi)
    (hfa : d.failAt = none) : RootReadable d (p.rdsNat * (p.bytesPerSector / 32)) := by
  obtain ⟨hB, hB32⟩ := bps_ge hv
  have hS := spc_pos hv
  have hfds := fds_le hv
  have hroot : (rootSliceOf d.fs).beginOff = (p.fdsNat - p.rdsNat) * p.bytesPerSector ∧
      (rootSliceOf d.fs).size = p.rdsNat * p.bytesPerSector := by rw [hfs]; exact ⟨rfl, rfl⟩
  have hrds_le : p.rdsNat ≤ p.fdsNat := by unfold Bpb.fdsNat; omega
  have hBdiv : p.bytesPerSector = 32 * (p.bytesPerSector / 32) := by omega
  refine ⟨hfa, ?_, ?_, ?_⟩
  · rw [hroot.1, hroot.2, ← Nat.add_mul, Nat.sub_add_cancel hrds_le]
    have : p.fdsNat * p.bytesPerSector ≤ p.totalSectors * p.bytesPerSector :=
      Nat.mul_le_mul_right _ (by omega)
    exact Nat.le_trans this hl.fitsDev
  · rw [hroot.2]
    conv => lhs; rw [hBdiv]
    rw [← Nat.mul_assoc, Nat.mul_comm p.rdsNat 32, Nat.mul_assoc]
  · -- fuel
    show _ < (d.fs.totalClusters + 2) * (d.fs.clusterSize / 32) + d.fs.rootEntries + 64
    rw [hfs]
    show _ < (p.tcNat + 2) * (p.bytesPerSector * p.sectorsPerCluster / 32) + p.rootEntries + 64
    -- rds * bps ≤ rootEntries * 32 + bps - 1
    have h1 : p.rdsNat * p.bytesPerSector ≤ p.rootEntries * 32 + p.bytesPerSector - 1 := Nat.div_mul_le_self _ _
    have h2 : p.rdsNat * (p.bytesPerSector / 32) * 32 = p.rdsNat * p.bytesPerSector := by
      rw [Nat.mul_assoc, Nat.mul_comm (p.bytesPerSector / 32) 32, ← hBdiv]
    have h3 : p.bytesPerSector / 32 ≤ p.bytesPerSector * p.sectorsPerCluster / 32 :=
      Nat.div_le_div_right (Nat.le_mul_of_pos_right _ hS)
    have h4 : 2 * (p.bytesPerSector * p.sectorsPerCluster / 32) ≤
        (p.tcNat + 2) * (p.bytesPerSector * p.sectorsPerCluster / 32) := Nat.mul_le_mul_right _ (by omega)
    generalize p.rdsNat * (p.bytesPerSector / 32) = N at h2 ⊢
    generalize p.bytesPerSector * p.sectorsPerCluster / 32 = K at h3 h4 ⊢
    omega

end FatVerif.DecodeAgree
