import FatVerif.Proofs.DirWriteSim35
/-! Directory WRITES, part 36: the move of a DIRECTORY between two directories that lie apart (`rename_internal`):
    ancestor walk from the destination, new entry in the destination, old entry deleted in the source, and the `..`
    record of the moved directory rewritten with the cluster of the new parent. -/
namespace FatVerif.DirSim
open FatVerif.FileSim FatVerif.Fat DirEntryData DirAlias

namespace WView
variable {d : Dev} {st1 st2 : DirStream}

theorem rename_dir_apart_sim (V1 : WView d st1) (V2 : WView d st2) (env : Env) (srcName dstName : String)
    (hdots : (srcName = "." || srcName = ".." || dstName = "." || dstName = "..") = false)
    (hval : Names.validateLongName dstName = .ok ()) (ha : d.fs.lfnAlloc = true) (hgeo : Geo d.fs d.img.size)
    (le : LfnEntry)
    (hl : lookupL env.upper srcName.toList none (readDirEntries d.fs.lfnAlloc true (V1.slots d.img)) = .ok le)
    (hdir : Lfn.isDir le.sfn = true) (n : Nat)
    (hclimb : Climbs d env ((toDirEntryS V1.src le).firstCluster d.fs) st2 0 n) (hn : n < d.fs.totalClusters + 3)
    (a : List Nat)
    (hchk : DirAlias.checkForExistenceL env.upper (V2.slots d.img) dstName none 70000 = .ok (.alias a))
    (hfit : DirSlots.findFree (V2.slots d.img) (Lfn.numParts (Names.encodeUtf16 dstName.toList).length + 1) +
      (Lfn.numParts (Names.encodeUtf16 dstName.toList).length + 1) ≤ V2.N)
    (hkeep1 : ∀ d2 d3, V1.Inv d2 → VolStep d2 d3 → d3.clock = d2.clock →
      tabView d3.fs d3.img = tabView d2.fs d2.img → V1.Inv d3)
    (hkeep2 : ∀ d2 d3, V2.Inv d2 → VolStep d2 d3 → d3.clock = d2.clock →
      tabView d3.fs d3.img = tabView d2.fs d2.img → V2.Inv d3)
    (hbehind1 : ∀ j, j < V1.N → (fatSliceOf d.fs).beginOff + (fatSliceOf d.fs).size ≤ V1.src (32 * j))
    (hextra1 : ∀ q, V1.Extra q → (fatSliceOf d.fs).beginOff + (fatSliceOf d.fs).size ≤ q)
    (hbehind2 : ∀ j, j < V2.N → (fatSliceOf d.fs).beginOff + (fatSliceOf d.fs).size ≤ V2.src (32 * j))
    (hextra2 : ∀ q, V2.Extra q → (fatSliceOf d.fs).beginOff + (fatSliceOf d.fs).size ≤ q)
    (h12 : ∀ i, i < V1.N → ∀ x, x < 32 → ¬ V2.Extra (V1.src (32 * i) + x) ∧
      ∀ j, j < V2.N → ¬ (V2.src (32 * j) ≤ V1.src (32 * i) + x ∧ V1.src (32 * i) + x < V2.src (32 * j) + 32))
    (h21 : ∀ i, i < V2.N → ∀ x, x < 32 → ¬ V1.Extra (V2.src (32 * i) + x) ∧
      ∀ j, j < V1.N → ¬ (V1.src (32 * j) ≤ V2.src (32 * i) + x ∧ V2.src (32 * i) + x < V1.src (32 * j) + 32))
    -- the moved directory
    (c0 : Nat) (hfc : (toDirEntryS V1.src le).firstCluster d.fs = some c0) (mchain : List Nat)
    (hC : ChainDir d (FileH.new (some c0) (some (toDirEntryS V1.src le).editor)) c0 mchain)
    (hfuelm : mchain.length * (d.fs.clusterSize / 32) < dirFuel d.fs)
    (hm1 : ∀ i, i < mchain.length * (d.fs.clusterSize / 32) → ∀ x, x < 32 →
      ¬ V1.Extra (chainSrc d.fs mchain (32 * i) + x) ∧
      ∀ j, j < V1.N → ¬ (V1.src (32 * j) ≤ chainSrc d.fs mchain (32 * i) + x ∧
        chainSrc d.fs mchain (32 * i) + x < V1.src (32 * j) + 32))
    (hm2 : ∀ i, i < mchain.length * (d.fs.clusterSize / 32) → ∀ x, x < 32 →
      ¬ V2.Extra (chainSrc d.fs mchain (32 * i) + x) ∧
      ∀ j, j < V2.N → ¬ (V2.src (32 * j) ≤ chainSrc d.fs mchain (32 * i) + x ∧
        chainSrc d.fs mchain (32 * i) + x < V2.src (32 * j) + 32))
    (ldd : LfnEntry)
    (hldd : lookupL env.upper "..".toList (some true) (readDirEntries d.fs.lfnAlloc true
      (srcSlots d.img (chainSrc d.fs mchain) (mchain.length * (d.fs.clusterSize / 32)))) = .ok ldd)
    (hmove : (if st2.isRootDir then none else st2.firstCluster) ≠
      (toDirEntryS (chainSrc d.fs mchain) ldd).data.firstCluster d.fs.fatType) :
    ∃ d', run (renameInternal env st1 srcName st2 dstName) d = (.ok (), d') ∧
      VolStep d d' ∧ d'.fs.curDirty = true ∧ V1.Inv d' ∧ V2.Inv d' ∧
      V1.slots d'.img = DirSlots.deleteRange (V1.slots d.img) le.beginIdx le.endIdx ∧
      V2.slots d'.img = DirSlots.writeEntry (V2.slots d.img) (Names.encodeUtf16 dstName.toList)
        ((toDirEntryS V1.src le).data.renamed a).serialize ∧
      srcSlots d'.img (chainSrc d.fs mchain) (mchain.length * (d.fs.clusterSize / 32)) =
        (srcSlots d.img (chainSrc d.fs mchain) (mchain.length * (d.fs.clusterSize / 32))).set (ldd.endIdx - 1)
          ((toDirEntryS (chainSrc d.fs mchain) ldd).data.setFirstCluster
            (if st2.isRootDir then none else st2.firstCluster) d.fs.fatType).serialize ∧
      tabView d'.fs d'.img = tabView d.fs d.img := by
  obtain ⟨hmem, _, _⟩ := lookupL_ok _ _ _ _ _ hl
  have hslotok := srcEntries_slotOK _ _ _ _ _ le hmem
  have hisdir : (toDirEntryS V1.src le).isDir = true := by
    rw [toDirEntryS_isDir V1.src le hslotok]; exact hdir
  obtain ⟨dm, d4, newE, hrun, hnd, hs1, hs2, hcm, hc4, hd4, hinv2m, hinv1, hsl2, hfr2, _, htvm, hsl1, hfr1, _⟩ :=
    V1.rename_across_core V2 env srcName dstName hdots hval ha hgeo le hl (Or.inr ⟨n, hclimb, hn⟩) a hchk hfit hkeep1
      hbehind2 hextra2
  have hvs4 : VolStep d d4 := hs1.trans hs2
  have hg4 := hvs4.geom
  -- the FAT on `d4`
  have hgm : Geo dm.fs dm.img.size := by rw [hs1.size]; exact hgeo.frame hs1.geom
  have hagree : FatAgree dm.fs dm.img d4.img :=
    fatAgree_of_frameE hfr1 dm.fs (by rw [hs1.geom.fatSlice]; exact hgeo.status_lt)
      (fun j hj => by rw [hs1.geom.fatSlice]; exact hbehind1 j hj) (fun q hq => by rw [hs1.geom.fatSlice]; exact hextra1 q hq)
  have htv4 : tabView d4.fs d4.img = tabView d.fs d.img := by
    rw [hs2.geom.tabView, tabView_congr hgm hagree, htvm]
  have hinv2 : V2.Inv d4 := hkeep2 dm d4 hinv2m hs2 (hc4.trans hcm.symm) (by rw [htv4, htvm])
  -- the slots of the three directories on `d4`
  have e1 : V1.slots dm.img = V1.slots d.img :=
    srcSlots_frameE hfr2 V1.src V1.N (fun i hi x hx => by
      have := V1.geo.behind i hi
      exact ⟨by omega, (h12 i hi x hx).1, (h12 i hi x hx).2⟩)
  have e2 : V2.slots d4.img = V2.slots dm.img :=
    srcSlots_frameE hfr1 V2.src V2.N (fun i hi x hx => by
      have := V2.geo.behind i hi
      exact ⟨by omega, (h21 i hi x hx).1, (h21 i hi x hx).2⟩)
  have hm42 : ∀ i, i < mchain.length * (d.fs.clusterSize / 32) → ∀ x, x < 32 →
      0x42 ≤ chainSrc d.fs mchain (32 * i) + x := by
    intro i hi x hx
    have h1 := chainSrc_ge d.fs mchain (32 * i)
    have h2 := hgeo.fat_data
    have h3 := hgeo.status_lt
    omega
  have hmslots : srcSlots d4.img (chainSrc d.fs mchain) (mchain.length * (d.fs.clusterSize / 32)) =
      srcSlots d.img (chainSrc d.fs mchain) (mchain.length * (d.fs.clusterSize / 32)) := by
    rw [srcSlots_frameE hfr1 _ _ (fun i hi x hx => ⟨hm42 i hi x hx, (hm1 i hi x hx).1, (hm1 i hi x hx).2⟩),
      srcSlots_frameE hfr2 _ _ (fun i hi x hx => ⟨hm42 i hi x hx, (hm2 i hi x hx).1, (hm2 i hi x hx).2⟩)]
  -- the moved directory on `d4`
  have hnewdir : newE.isDir = true := by
    unfold DirEntry.isDir; rw [hnd, renamed_isDir]; exact hisdir
  have hnewfc : newE.firstCluster d.fs = some c0 := by
    unfold DirEntry.firstCluster; rw [hnd, renamed_firstCluster]; exact hfc
  have hds : DirEntry.dirStream d.fs newE = .file (FileH.new (some c0) (some newE.editor)) := by
    unfold DirEntry.dirStream; rw [hnewfc]
  have C4 := hC.reEdit hvs4 htv4 newE.editor rfl (by
    show newE.data.size? = none
    exact isDir_size? _ hnewdir)
  have hfuel4 : mchain.length * (d4.fs.clusterSize / 32) < dirFuel d4.fs := by
    rw [hg4.clusterSize, dirFuel_geom hg4]; exact hfuelm
  obtain ⟨Vm, hVm⟩ : ∃ Vm : DirView d4 (DirEntry.dirStream d.fs newE),
      Vm.lookup env ".." (some true) = .ok (toDirEntryS (chainSrc d.fs mchain) ldd) := by
    rw [hds]
    refine ⟨movedView C4 hfuel4, ?_⟩
    show (lookupL env.upper "..".toList (some true) (readDirEntries d4.fs.lfnAlloc true
      (srcSlots d4.img (chainSrc d4.fs mchain) (mchain.length * (d4.fs.clusterSize / 32))))).map
        (toDirEntryS (chainSrc d4.fs mchain)) = _
    have hla : d4.fs.lfnAlloc = d.fs.lfnAlloc := by
      have := hg4; unfold FsGeomEq at this; rw [this]
    rw [chainSrc_geom hg4, hg4.clusterSize, hla, hmslots, hldd]
    rfl
  -- the `..` entry
  obtain ⟨hmemdd, _, _⟩ := lookupL_ok _ _ _ _ _ hldd
  have hbdd := readLoop_bounds d.fs.lfnAlloc true _ 0 0 _ (Nat.le_refl _) ldd hmemdd
  rw [srcSlots_length, Nat.zero_add] at hbdd
  have hsfndd : ldd.sfn.length = 32 ∧ ∀ b ∈ ldd.sfn, b < 256 := by
    have hm := readLoop_sfn_mem d.fs.lfnAlloc true _ _ _ _ ldd hmemdd
    simp only [srcSlots, List.mem_map] at hm
    obtain ⟨j, _, hj⟩ := hm
    rw [← hj]
    exact ⟨Img.read_length _ _ _, Img.read_lt _ _ _⟩
  have hddwf : (toDirEntryS (chainSrc d.fs mchain) ldd).data.WF := deserializeFile_wf ldd.sfn hsfndd.1 hsfndd.2
  have hidx : ldd.endIdx - 1 < mchain.length * (d.fs.clusterSize / 32) := by omega
  have hpos : (toDirEntryS (chainSrc d.fs mchain) ldd).entryPos = chainSrc d.fs mchain (32 * (ldd.endIdx - 1)) := by
    show chainSrc d.fs mchain (32 * ldd.endIdx - 32) = _
    congr 1; omega
  have hgslot : SlotGeo (mchain.length * (d.fs.clusterSize / 32)) (chainSrc d.fs mchain) := hC.slotGeo
  have hinside : (toDirEntryS (chainSrc d.fs mchain) ldd).entryPos + 32 ≤ d4.img.size := by
    rw [hpos, hvs4.size]
    have hcs := hC.geo.cs_pos
    have h32 := hC.cs32
    obtain ⟨j, hj, hj1, hj2⟩ := hC.slot_in_cluster (ldd.endIdx - 1) hidx
    have := (clusterOff_end hgeo (hC.inTab _ hj).1 (hC.inTab _ hj).2).2
    omega
  obtain ⟨d5, h5, hs5, hfs5, hc5, hb5⟩ := fixDotDot_move env d.fs st2 newE hnewdir Vm _ hVm hmove hddwf.name_len d4
    (SameVol.refl d4) (by rw [hvs4.failAt]; exact V1.io.noFault d V1.here) (hvs4.wf (V1.io.wf d V1.here)) hinside
  rw [hpos] at hb5
  -- nothing but the slot of `..` changes
  have hout5 : ∀ q, (∀ x, x < 32 → q ≠ chainSrc d.fs mchain (32 * (ldd.endIdx - 1)) + x) →
      d5.img.getByte q = d4.img.getByte q := by
    intro q hq
    rw [hb5 q]
    unfold putBytes
    rw [if_neg]
    rintro ⟨h1, h2⟩
    rw [DirFileEntryData.serialize_length _ (hddwf.setFirstCluster _ _).name_len] at h2
    exact hq (q - chainSrc d.fs mchain (32 * (ldd.endIdx - 1))) (by omega) (by omega)
  have hagree5 : FatAgree d4.fs d4.img d5.img := by
    intro q h1 h2
    apply hout5
    intro x hx he
    have h3 := chainSrc_ge d.fs mchain (32 * (ldd.endIdx - 1))
    have h4 := hgeo.fat_data
    have h5 : (fatSliceOf d.fs).size ≤ (fatSliceOf d.fs).mirrors * (fatSliceOf d.fs).size :=
      Nat.le_mul_of_pos_left _ hgeo.mirrors_pos
    rw [hg4.fatSlice] at h2
    omega
  have htv5 : tabView d5.fs d5.img = tabView d4.fs d4.img := by
    rw [hs5.geom.tabView, tabView_congr (sz := d4.img.size) (by rw [hvs4.size]; exact hgeo.frame hg4) hagree5]
  have e15 : V1.slots d5.img = V1.slots d4.img := by
    unfold WView.slots
    refine srcSlots_congr (fun i hi x hx => hout5 _ (fun x' hx' he => ?_))
    exact (hm1 (ldd.endIdx - 1) hidx x' hx').2 i hi (by omega)
  have e25 : V2.slots d5.img = V2.slots d4.img := by
    unfold WView.slots
    refine srcSlots_congr (fun i hi x hx => hout5 _ (fun x' hx' he => ?_))
    exact (hm2 (ldd.endIdx - 1) hidx x' hx').2 i hi (by omega)
  refine ⟨d5, hrun.trans h5, hvs4.trans hs5, by rw [hfs5]; exact hd4,
    hkeep1 d4 d5 hinv1 hs5 hc5 htv5, hkeep2 d4 d5 hinv2 hs5 hc5 htv5, by rw [e15, hsl1, e1], by rw [e25, e2, hsl2], ?_,
    by rw [htv5, htv4]⟩
  rw [srcSlots_putBytes hgslot hb5 hidx (DirFileEntryData.serialize_length _ (hddwf.setFirstCluster _ _).name_len)
    (DirFileEntryData.serialize_lt _ (hddwf.setFirstCluster _ _)), hmslots]

end WView

end FatVerif.DirSim
