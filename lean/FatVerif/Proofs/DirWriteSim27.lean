import FatVerif.Proofs.DirWriteSim26
/-! Directory WRITES, part 27: helpers for `create_dir`: the record of a new directory, the one-cluster chain, and the
    stability of the new directory's own entry under the write-back of its (unchanged) stamp. -/
namespace FatVerif.DirSim
open FatVerif.FileSim FatVerif.Fat DirEntryData DirAlias

theorem sfnAt_geom {a b : FsState} (h : FsGeomEq a b) (t : Nat) (sn : List Nat) (attrs : Nat) (first : Option Nat) :
    sfnAt b t sn attrs first = sfnAt a t sn attrs first := by
  unfold sfnAt; rw [h.fatType]

theorem sfnAt_attrs (fs : FsState) (t : Nat) (sn : List Nat) (attrs : Nat) (first : Option Nat) :
    (sfnAt fs t sn attrs first).attrs = attrs := by
  simp only [sfnAt, DirFileEntryData.setModified, DirFileEntryData.setAccessed, DirFileEntryData.setCreated,
    DirFileEntryData.setFirstCluster, DirFileEntryData.new]

theorem sfnAt_name (fs : FsState) (t : Nat) (sn : List Nat) (attrs : Nat) (first : Option Nat) :
    (sfnAt fs t sn attrs first).name = sn := by
  simp only [sfnAt, DirFileEntryData.setModified, DirFileEntryData.setAccessed, DirFileEntryData.setCreated,
    DirFileEntryData.setFirstCluster, DirFileEntryData.new]

theorem sfnAt_isDir_true (fs : FsState) (t : Nat) (sn : List Nat) (first : Option Nat) :
    (sfnAt fs t sn 16 first).isDir = true := by
  simp only [sfnAt, DirFileEntryData.isDir, DirFileEntryData.setModified, DirFileEntryData.setAccessed,
    DirFileEntryData.setCreated, DirFileEntryData.setFirstCluster, DirFileEntryData.new]
  decide

theorem sfnAt_size?_dir (fs : FsState) (t : Nat) (sn : List Nat) (first : Option Nat) :
    (sfnAt fs t sn 16 first).size? = none := by
  unfold DirFileEntryData.size? DirFileEntryData.isFile
  rw [sfnAt_isDir_true]; rfl

/-- the record `create_sfn_entry` builds already carries the stamp of its own clock -/
theorem sfnAt_setModified (fs : FsState) (t : Nat) (sn : List Nat) (attrs : Nat) (first : Option Nat) :
    (sfnAt fs t sn attrs first).setModified (clockDateTime t) = sfnAt fs t sn attrs first := rfl

theorem chainSrc_single (fs : FsState) (c i : Nat) (h : 32 * i < fs.clusterSize) :
    chainSrc fs [c] (32 * i) = clusterOff fs c + 32 * i := by
  unfold chainSrc
  rw [Nat.div_eq_of_lt h, Nat.mod_eq_of_lt h]; rfl

theorem badMark_bound (ft : FatType) : badMark ft ≤ (if ft = .fat32 then 4294967296 else 65536) := by
  cases ft <;> decide

theorem serialize_getD_lt (e : DirFileEntryData) (h : e.WF) (k : Nat) : e.serialize.getD k 0 < 256 := by
  rw [List.getD_eq_getElem?_getD]
  cases hk : e.serialize[k]? with
  | none => simp
  | some b =>
    simp only [Option.getD_some]
    exact DirFileEntryData.serialize_lt e h b (List.mem_of_getElem? hk)

/-- the new directory's own entry keeps its bytes when a clone of the handle is dropped: the stamp of the (unchanged)
    clock re-writes the record as it is -/
theorem sub_entry_stable {ed0 : DirEntryEditor} {t0 N : Nat} {src : Nat → Nat} {X Y : Dev}
    (hmid : MidImg N src (subDropPost ed0 t0) X Y)
    (hst : ed0.data.setModified (clockDateTime t0) = ed0.data) (hwf : ed0.data.WF) (h42 : 0x42 ≤ ed0.pos)
    (hout : ∀ i, i < N → src (32 * i) + 32 ≤ ed0.pos ∨ ed0.pos + 32 ≤ src (32 * i))
    (hP : ∀ q, subExtra ed0 q → X.img.getByte q = ed0.data.serialize.getD (q - ed0.pos) 0) :
    ∀ q, subExtra ed0 q → Y.img.getByte q = X.img.getByte q := by
  obtain ⟨im, him, _, hdirty, hclean⟩ := hmid
  intro q hq
  have himq : im.getByte q = X.img.getByte q := by
    refine him q (by unfold subExtra at hq; omega) (fun i hi hc => ?_)
    have := hout i hi
    unfold subExtra at hq
    omega
  by_cases hd : (ed0.setModified (clockDateTime t0)).dirty = true
  · rw [hdirty hd q hq, hP q hq]
    have hdata : (ed0.setModified (clockDateTime t0)).data = ed0.data := by
      rcases ed_setModified_data ed0 (clockDateTime t0) with h1 | h1
      · exact h1
      · rw [h1, hst]
    rw [hdata]
    exact Nat.mod_eq_of_lt (serialize_getD_lt _ hwf _)
  · rw [hclean (by simpa using hd) q, himq]

end FatVerif.DirSim
