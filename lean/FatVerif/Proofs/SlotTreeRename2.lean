import FatVerif.Proofs.SlotTreeRename
/-!
# Slot trees: `rename` against `Spec.evalRename` — the theorem
-/
namespace FatVerif
namespace SlotTree
open Lfn DirSlots DirAlias

variable (u : Char → List Char)

/-- rename inside one directory: the new entry is written, then the old range deleted, in the same slot list -/
theorem same_dir_node {ss : List (List Nat)} {sch : List (LfnEntry × Node)} (hd : DirOk (upOf u) ss sch)
    (hch : ∀ y ∈ sch, TreeWf (upOf u) y.2) (x : LfnEntry × Node) (hx : x ∈ sch) (name : String)
    (hv : Names.validateLongName name = .ok ()) (sfn : List Nat)
    (hwf' : DirWf (upOf u) (writeEntry ss (Names.encodeUtf16 name.toList) sfn))
    (hcls : slotClass sfn = .file) (hkind : Lfn.isDir sfn = x.2.isDir)
    (hnf : findEntry (upOf u) ss name.toList = none) :
    TreeWf (upOf u) (delEntry x.1 (addEntry (Names.encodeUtf16 name.toList) sfn x.2 (.dir ss sch))) ∧
    abs (delEntry x.1 (addEntry (Names.encodeUtf16 name.toList) sfn x.2 (.dir ss sch))) =
      Spec.insertChild name (abs x.2) (Spec.eraseChild (cfgOf u) (entryName x.1) (abs (.dir ss sch))) := by
  obtain ⟨_, _, h1, h255, hu, hnz⟩ := valid_units (cs := name.toList) hv
  obtain ⟨hd', hsub, _, _⟩ := addEntry_dirOk hd _ sfn x.2 hwf' h1 h255 hu hnz hcls hkind
  have hxl := hd.mem_listing hx
  constructor
  · rw [addEntry_dir hd.wf.shape _ sfn x.2 sch h1 h255 hu hnz hcls, delEntry_dir]
    refine (all_dir _ _ _).2 ⟨delEntry_dirOk hd' x.1 (hsub x.1 hxl), ?_⟩
    intro y hy
    have hy' := (List.mem_filter.1 hy).1
    rcases List.mem_append.1 hy' with hy' | hy'
    · exact hch y hy'
    · simp only [List.mem_singleton] at hy'
      rw [hy']; exact hch x hx
  · rw [addEntry_dir hd.wf.shape _ sfn x.2 sch h1 h255 hu hnz hcls, abs_delEntry u hd' x.1 (hsub x.1 hxl),
      ← addEntry_dir hd.wf.shape _ sfn x.2 sch h1 h255 hu hnz hcls]
    rw [abs_addEntry hd.wf.shape _ sfn x.2 sch name h1 h255 hu hnz hcls (entryName_new name sfn _ _ hv)]
    apply erase_insert_comm
    cases hs : (cfgOf u).same name (entryName x.1) with
    | false => rfl
    | true =>
      rw [same_eq, sameName_iff, entryName_toList] at hs
      rw [findEntry_congr _ ss hs, findEntry_unique _ ss hd.wf _ x.1 hxl (matches_self _ x.1)] at hnf
      cases hnf

/-- the last part of `rename_internal`: ancestor check, `check_for_existence`, write, delete -/
theorem renameFinal_refines (fuel : Nat) (t : Node) (hwf : TreeWf (upOf u) t) (sp dp : List String)
    (hls : Lock (upOf u) t sp) (hld : Lock (upOf u) t dp)
    (ss : List (List Nat)) (sch : List (LfnEntry × Node)) (hgs : getAtS (upOf u) t sp = some (.dir ss sch))
    (ds : List (List Nat)) (dch : List (LfnEntry × Node)) (hgd : getAtS (upOf u) t dp = some (.dir ds dch))
    (x : LfnEntry × Node) (hxm : x ∈ sch) (dl : String) (hv : Names.validateLongName dl = .ok ())
    (hqd : NameHitOnly (upOf u) ds dl) :
    TreeWf (upOf u) (renameFinal (upOf u) fuel t sp x.1 x.2 dp ds dl).tree ∧
    (∀ e, (renameFinal (upOf u) fuel t sp x.1 x.2 dp ds dl).out = .error e →
      (renameFinal (upOf u) fuel t sp x.1 x.2 dp ds dl).tree = t) ∧
    Accepts
      (renameDecide (cfgOf u) (abs t) (.ok (sp, entryName x.1, abs x.2))
        (.ok (dp, dl, (lookupS (upOf u) ds dch dl).map fun y => entryName y.1)))
      (renameFinal (upOf u) fuel t sp x.1 x.2 dp ds dl) := by
  have hds := dirOk_at u hwf hgs
  have hdd := dirOk_at u hwf hgd
  have hchs := ((all_dir _ ss sch).1 (all_getAtS _ sp t _ hwf hgs)).2
  have hxl := hds.mem_listing hxm
  have hkind : (abs x.2).isDir = Lfn.isDir x.1.sfn := by rw [abs_isDir, hds.kind x hxm]
  have hsd : (sp.length == dp.length && Spec.isPrefixOf (cfgOf u) sp dp) = samePathS (upOf u) sp dp := by
    rw [isPrefixOf_eq]; rfl
  unfold renameFinal
  cases hcond : (Lfn.isDir x.1.sfn && prefixS (upOf u) (sp ++ [entryName x.1]) dp) with
  | true =>
    simp only [if_true]
    refine ⟨hwf, fun _ _ => rfl, accepts_fail _ _ _ (Or.inr ?_)⟩
    have hpre := (Bool.and_eq_true _ _ ▸ hcond : _ ∧ _).2
    have hlen := prefixS_length _ _ hpre
    have hne : (sp.length == dp.length) = false := by
      simp only [List.length_append, List.length_singleton] at hlen
      simp only [beq_eq_false_iff_ne]; omega
    cases hl : lookupS (upOf u) ds dch dl with
    | none => simp [renameDecide, hkind, isPrefixOf_eq, hcond, Spec.failWith]
    | some y => simp [renameDecide, hkind, isPrefixOf_eq, hcond, Spec.failWith, hne]
  | false =>
    simp only [Bool.false_eq_true, if_false]
    rcases check_cases (upOf u) ds dl none fuel with h | ⟨de, hde, hk, hchk⟩ | ⟨de, hde, hk, hchk⟩ | ⟨hnone, a, ha⟩
    · rw [h]
      exact ⟨hwf, fun _ _ => rfl, accepts_fail _ _ _ (Or.inl rfl)⟩
    · rw [hchk]
      obtain ⟨dc, hl, hmem⟩ := lookupS_of_find hdd hde
      rw [hl]
      simp only [Option.map]
      have hdel := hdd.mem_listing hmem
      have hA : (samePathS (upOf u) sp dp && (cfgOf u).same (entryName de) (entryName x.1)) =
          (samePathS (upOf u) sp dp && (de == x.1)) := by
        cases hsp : samePathS (upOf u) sp dp with
        | false => rfl
        | true =>
          simp only [Bool.true_and]
          have hgeq := getAtS_congr sp dp hsp t
          rw [hgs, hgd] at hgeq
          simp only [Option.some.injEq, Node.dir.injEq] at hgeq
          obtain ⟨e1, e2⟩ := hgeq
          subst e1 e2
          rw [same_eq, Bool.eq_iff_iff, sameName_iff, entryName_toList, entryName_toList]
          constructor
          · intro hs
            have h3 : de = x.1 := hds.name_hits_self hxl hdel (matches_of_nameHit _ _ _ hs)
            simp [h3]
          · intro hk'
            have : de = x.1 := by simpa using hk'
            rw [this]
      cases hB : (samePathS (upOf u) sp dp && (de == x.1)) with
      | true =>
        simp only [if_true]
        refine ⟨hwf, fun _ h => (by cases h), ?_⟩
        refine accepts_done _ _ ?_ ?_
        · simp [renameDecide, hsd, hA, hB]
        · simp [renameDecide, hsd, hA, hB]
      | false =>
        simp only [Bool.false_eq_true, if_false]
        refine ⟨hwf, fun _ _ => rfl, accepts_fail _ _ _ (Or.inr ?_)⟩
        have hsd' : (sp.length == dp.length && prefixS (upOf u) sp dp) = samePathS (upOf u) sp dp := rfl
        simp only [renameDecide, isPrefixOf_eq, hsd', hA, hB, Bool.false_eq_true, if_false, hkind, hcond]
        simp [Spec.failWith]
    · unfold kindResult at hk
      simp at hk
    · rw [ha]
      have hln : lookupS (upOf u) ds dch dl = none := by unfold lookupS; rw [hnone]
      rw [hln]
      simp only [Option.map]
      have hlen := C16dir.dir_alias_length _ _ _ _ _ _ ha
      obtain ⟨hwf', hcls⟩ := rename_write_wf ds hdd.wf dl fuel a x.1.sfn (listed_class hds.wf.shape hxl) hv ha
      have hkind' : Lfn.isDir (renamedSfn x.1.sfn a) = x.2.isDir := by
        rw [isDir_renamed _ a hlen]; exact hds.kind x hxm
      obtain ⟨_, _, h1, h255, hu, hnz⟩ := valid_units (cs := dl.toList) hv
      have hspec : (renameDecide (cfgOf u) (abs t) (.ok (sp, entryName x.1, abs x.2)) (.ok (dp, dl, none))).errs = [] ∧
          (renameDecide (cfgOf u) (abs t) (.ok (sp, entryName x.1, abs x.2)) (.ok (dp, dl, none))).tree =
            Spec.updateAt (cfgOf u) (Spec.insertChild dl (abs x.2)) dp
              (Spec.updateAt (cfgOf u) (Spec.eraseChild (cfgOf u) (entryName x.1)) sp (abs t)) := by
        simp [renameDecide, hkind, isPrefixOf_eq, hcond]
      cases hsp : samePathS (upOf u) sp dp with
      | true =>
        -- same directory
        have hgeq := getAtS_congr sp dp hsp t
        rw [hgs, hgd] at hgeq
        simp only [Option.some.injEq, Node.dir.injEq] at hgeq
        obtain ⟨e1, e2⟩ := hgeq
        subst e1 e2
        rw [← updS_congr _ sp dp hsp t, updS_comp]
        obtain ⟨n1, n2⟩ := same_dir_node u hds hchs x hxm dl hv _ hwf' hcls hkind' hnone
        have w1 : TreeWf (upOf u) (updS (upOf u)
            (delEntry x.1 ∘ addEntry (Names.encodeUtf16 dl.toList) (renamedSfn x.1.sfn a) x.2) sp t) := by
          apply wf_updS _ sp t hwf
          intro n hn
          rw [hgs] at hn
          cases hn
          exact ⟨n1, rfl⟩
        have w2 := abs_updS u (delEntry x.1 ∘ addEntry (Names.encodeUtf16 dl.toList) (renamedSfn x.1.sfn a) x.2)
          (Spec.insertChild dl (abs x.2) ∘ Spec.eraseChild (cfgOf u) (entryName x.1)) sp t hwf hls
          (by intro n hn; rw [hgs] at hn; cases hn; exact n2)
        refine ⟨w1, fun _ h => (by cases h), ?_⟩
        refine accepts_done _ _ hspec.1 ?_
        rw [hspec.2, ← updateAt_congr u _ sp dp hsp, updateAt_comp, w2]
      | false =>
        -- two directories
        obtain ⟨w1, w2⟩ := add_success u t hwf dp hld ds dch hgd dl (renamedSfn x.1.sfn a) x.2 hv hwf' hcls hkind'
          (hchs x hxm)
        have hext : ∀ n, getAtS (upOf u) t dp = some n →
            Ext (upOf u) n (addEntry (Names.encodeUtf16 dl.toList) (renamedSfn x.1.sfn a) x.2 n) := by
          intro n hn
          rw [hgd] at hn
          cases hn
          exact ext_addEntry hdd _ _ x.2 hwf' h1 h255 hu hnz hcls hkind'
        obtain ⟨lk1, ch1, hg1⟩ := frame_upd _ sp dp t hwf hls hld hsp hext ss sch hgs
        obtain ⟨v1, v2⟩ := del_success u _ w1 sp lk1 ss ch1 hg1 x.1 hxl
        refine ⟨v1, fun _ h => (by cases h), ?_⟩
        refine accepts_done _ _ hspec.1 ?_
        rw [hspec.2, v2, w2]
        exact (spec_comm u dl (entryName x.1) (abs x.2) sp dp
          (commCond_of_model u dl x.1 sp dp t hwf hls hld ss sch hgs hxl ds dch hgd hnone) (abs t)).symm

/-- **`rename`** -/
theorem rename_refines (fuel : Nat) (t : Node) (hwf : TreeWf (upOf u) t) (cwd : List String)
    (hc : CwdOk (upOf u) t cwd) (src : String) (hps : PathOk (upOf u) t src) (dcwd : List String)
    (hdc : CwdOk (upOf u) t dcwd) (dst : String) (hpd : PathOk (upOf u) t dst) :
    TreeWf (upOf u) (renameS (upOf u) fuel t cwd src dcwd dst).tree ∧
    (∀ e, (renameS (upOf u) fuel t cwd src dcwd dst).out = .error e →
      (renameS (upOf u) fuel t cwd src dcwd dst).tree = t) ∧
    Accepts (Spec.evalRename (cfgOf u) (abs t) cwd src dcwd dst) (renameS (upOf u) fuel t cwd src dcwd dst) := by
  rw [evalRename_eq]
  obtain ⟨sp1, sp2⟩ := resolveParent_corr u t hwf cwd hc src hps
  obtain ⟨dp1, dp2⟩ := resolveParent_corr u t hwf dcwd hdc dst hpd
  have hqs := hps.2.2
  have hqd := hpd.2.2
  unfold renameS
  cases hws : walkDirsS (upOf u) t cwd (pathParts src).1 with
  | error e =>
    obtain ⟨es, h1, h2⟩ := sp1 e hws
    rw [h1]
    exact ⟨hwf, fun _ _ => rfl, accepts_fail _ _ _ (Or.inr (decide_src_err _ _ es e h2 _))⟩
  | ok sp =>
    dsimp only
    cases hwd : walkDirsS (upOf u) t dcwd (pathParts dst).1 with
    | error e =>
      obtain ⟨es, h1, h2⟩ := dp1 e hwd
      rw [h1]
      exact ⟨hwf, fun _ _ => rfl, accepts_fail _ _ _ (Or.inr (decide_dst_err _ _ es e h2 _))⟩
    | ok dp =>
      dsimp only
      obtain ⟨ss, sch, hgs, hls, hsdot, hsnd⟩ := sp2 sp hws
      obtain ⟨ds, dch, hgd, hld, hddot, hdnd⟩ := dp2 dp hwd
      have hds := dirOk_at u hwf hgs
      unfold renameInternalS
      cases hsn : isDotName (pathParts src).2 with
      | true =>
        simp only [Bool.true_or, if_true]
        refine ⟨hwf, fun _ _ => rfl, accepts_fail _ _ _ (Or.inr ?_)⟩
        obtain ⟨d0, d1⟩ := hsdot hsn
        by_cases hp0 : sp = []
        · rw [d0 hp0]; exact decide_src_err _ _ _ _ (by simp) _
        · obtain ⟨r, hr⟩ := d1 hp0
          rw [hr]; exact decide_src_err _ _ _ _ (by simp) _
      | false =>
        cases hdn : isDotName (pathParts dst).2 with
        | true =>
          simp only [Bool.or_true, if_true]
          refine ⟨hwf, fun _ _ => rfl, accepts_fail _ _ _ (Or.inr ?_)⟩
          obtain ⟨d0, d1⟩ := hddot hdn
          by_cases hp0 : dp = []
          · rw [d0 hp0]; exact decide_dst_err _ _ _ _ (by simp) _
          · obtain ⟨r, hr⟩ := d1 hp0
            rw [hr]; exact decide_dst_err _ _ _ _ (by simp) _
        | false =>
          simp only [Bool.or_self, Bool.false_eq_true, if_false]
          rw [hgs, hgd, hsnd hsn, hdnd hdn]
          dsimp only
          cases hx : lookupS (upOf u) ss sch (pathParts src).2 with
          | none =>
            simp only [Option.map]
            exact ⟨hwf, fun _ _ => rfl, accepts_fail _ _ _ (Or.inr (decide_src_err _ _ _ _ (by simp) _))⟩
          | some x =>
            obtain ⟨_, hxm, _, _⟩ := lookupS_some hds hx
            have hsrc : srcROf (.ok (.entry sp (pathParts src).2
                ((some x).map fun x => (entryName x.1, abs x.2)))) = .ok (sp, entryName x.1, abs x.2) := rfl
            rw [hsrc]
            dsimp only
            have hqdd := qall_at u hqd hgd
            cases hv : Names.validateLongName (pathParts dst).2 with
            | error err =>
              dsimp only
              refine ⟨hwf, fun _ _ => rfl, accepts_fail _ _ _ (Or.inr ?_)⟩
              have hn := (lookup_none_of_bad hqdd (Or.inr (by rw [hv]; simp))).2
              rw [hn]
              have hdst : dstROf (cfgOf u) (.ok (.entry dp (pathParts dst).2
                  ((none : Option (LfnEntry × Node)).map fun x => (entryName x.1, abs x.2)))) = .error [err] := by
                simp only [Option.map, dstROf]
                by_cases he : (pathParts dst).2 = ""
                · rw [he] at hv ⊢
                  rw [validate_empty] at hv
                  cases hv
                  simp [nameErr_empty]
                · have hb : ((pathParts dst).2 == "") = false := by simpa using he
                  simp only [hb, Bool.false_eq_true, if_false, validName_eq, hv]
              rw [hdst]
              exact decide_dst_err _ _ _ _ (by simp) _
            | ok ok1 =>
              cases ok1
              dsimp only
              have he : (pathParts dst).2 ≠ "" := by
                intro h0; rw [h0, validate_empty] at hv; cases hv
              have hb : ((pathParts dst).2 == "") = false := by simpa using he
              have hdst : dstROf (cfgOf u) (.ok (.entry dp (pathParts dst).2
                  ((lookupS (upOf u) ds dch (pathParts dst).2).map fun x => (entryName x.1, abs x.2)))) =
                  .ok (dp, (pathParts dst).2, (lookupS (upOf u) ds dch (pathParts dst).2).map fun y => entryName y.1) := by
                cases lookupS (upOf u) ds dch (pathParts dst).2 with
                | none => simp only [Option.map, dstROf, hb, Bool.false_eq_true, if_false, validName_eq, hv]
                | some y => rfl
              rw [hdst]
              exact renameFinal_refines u fuel t hwf sp dp hls hld ss sch hgs ds dch hgd x hxm _ hv hqdd.nameHitOnly

end SlotTree
end FatVerif
