import FatVerif.Proofs.BpbProbe
/-! The converse of `Bpb.validate_ok`: a BPB with all the `Valid` facts passes `validate`; hence `probe` succeeds on a
    sector whose decoded BPB is valid (and whose signature is 55 AA). Used by `format_then_mount`. -/
namespace FatVerif
namespace Bpb

theorem validate_of_valid {p : Bpb} (hr : p.InRange) (hv : p.Valid) : p.validate = .ok () := by
  have hbps := hv.bps
  have hb : 512 ≤ p.bytesPerSector := by omega
  have hb0 : 0 < p.bytesPerSector := by omega
  unfold validate
  rw [if_neg (by rw [hv.fsVersion]; simp)]
  -- bytes per sector
  have s1 : p.validateBytesPerSector = .ok () := by
    unfold validateBytesPerSector
    have hp : isPowerOfTwo p.bytesPerSector = true := by
      rcases hbps with h | h | h | h <;> rw [h] <;> decide
    rw [hp]
    simp only [Bool.true_eq_false, if_false]
    rw [if_neg (by omega)]
  -- sectors per cluster
  have s2 : p.validateSectorsPerCluster = .ok () := by
    unfold validateSectorsPerCluster
    have hp : isPowerOfTwo p.sectorsPerCluster = true := by
      rcases hv.spc with h | h | h | h | h | h | h | h <;> rw [h] <;> decide
    rw [hp]
    simp only [Bool.true_eq_false, if_false]
    have : p.bytesPerSector * p.sectorsPerCluster < 4294967296 := by
      have := hv.spc
      have h2 : p.sectorsPerCluster ≤ 128 := by omega
      have : p.bytesPerSector * p.sectorsPerCluster ≤ 4096 * 128 := Nat.mul_le_mul (by omega) h2
      omega
    rw [u32Mul_of_lt this]; rfl
  have s3 : p.validateReservedSectors = .ok () := by
    unfold validateReservedSectors
    have := hv.rsvd
    rw [if_neg (by omega)]
    cases hf : p.isFat32
    · simp
    · have h1 := hv.backup hf; have h2 := hv.fsInfo hf
      rw [if_neg (by simp; omega), if_neg (by simp; omega)]
  have s4 : p.validateFats = .ok () := by
    unfold validateFats
    have := hv.fats
    rw [if_neg (by omega)]
  have s5 : p.validateRootEntries = .ok () := by
    unfold validateRootEntries
    have hre := hr.rootEntries
    cases hf : p.isFat32
    · have := hv.root16 hf
      rw [if_neg (by simp), if_neg (by simp [this]), u32Mul_of_lt (by omega), ebind_ok, u32Rem_of_ne (by omega)]
      rfl
    · have := hv.root32 hf
      rw [if_neg (by simp [this]), if_neg (by simp), u32Mul_of_lt (by omega), ebind_ok, u32Rem_of_ne (by omega)]
      rfl
  have hfdslt : p.fdsNat < 4294967296 := by
    have := hv.fds; have := totalSectors_lt hr; omega
  have hfds : p.firstDataSector = .ok p.fdsNat := (firstDataSector_ok hr hb0).2 ⟨hv.fatsXspf, hfdslt, rfl⟩
  have s6 : p.validateTotalSectors = .ok () := by
    unfold validateTotalSectors
    rw [if_neg (by rw [hv.tsFields]; simp), firstDataSector64_eq hr hb, ebind_ok, if_neg (by omega), hfds, ebind_ok]
    have := hv.fds
    rw [if_neg (by omega)]; rfl
  have s7 : p.validateSectorsPerFat = .ok () := by
    unfold validateSectorsPerFat
    cases hf : p.isFat32
    · simp
    · have hs := hv.spf
      unfold sectorsPerFat at hs
      rw [hf] at hs
      simp only [if_true] at hs
      rw [if_neg (by simp; omega)]
  have htc : p.totalClusters = .ok p.tcNat := by
    have hspc : p.sectorsPerCluster ≠ 0 := by have := hv.spc; omega
    exact (totalClusters_ok hr hb0).2 ⟨hv.fatsXspf, hfdslt, by have := hv.fds; omega, hspc, rfl⟩
  have s8 : p.validateTotalClusters = .ok () := by
    unfold validateTotalClusters
    rw [htc, ebind_ok]
    have hw := hv.width
    have hneq : ¬ (p.isFat32 ≠ decide (FatType.fromClusters p.tcNat = .fat32)) := by
      cases hf : p.isFat32
      · have : ¬ FatType.fromClusters p.tcNat = .fat32 := fun h => by have := hw.2 h; rw [hf] at this; cases this
        simp [this]
      · have := hw.1 hf; simp [this]
    rw [if_neg hneq]
    have hlim : ¬ (FatType.fromClusters p.tcNat = .fat32 ∧ p.tcNat > maxClusters (FatType.fromClusters p.tcNat)) := by
      rintro ⟨h32, hgt⟩
      rw [h32] at hgt
      simp only [maxClusters] at hgt
      have := hv.limit; omega
    rw [if_neg hlim]
    have hrc : ¬ p.rootClusterBad p.tcNat = true := by
      unfold rootClusterBad
      cases hf : p.isFat32
      · simp
      · have := hv.rootCluster hf
        simp only [Bool.true_and, Bool.or_eq_true, decide_eq_true_eq, not_or]
        omega
    rw [if_neg hrc, usableFatEntries_eq hr, ebind_ok]; rfl
  rw [s1, ebind_ok, s2, ebind_ok, s3, ebind_ok, s4, ebind_ok, s5, ebind_ok, s6, ebind_ok, s7, ebind_ok, s8]

end Bpb

/-- `probe` succeeds, with the geometry `geoOf`, on a sector whose BPB is valid and whose signature is present -/
theorem probe_of_valid {b : List Nat} (strict : Bool) (hb : IsSector b) (hv : (Bpb.deserialize b).Valid)
    (hsig : (BootSector.deserialize b).bootSig = [0x55, 0xAA]) :
    probe b strict = .ok (Bpb.deserialize b).geoOf := by
  have hr := Bpb.deserialize_inRange hb
  unfold probe probeBoot BootSector.validate
  rw [if_neg (by rw [hsig]; simp)]
  have e : (BootSector.deserialize b).bpb = Bpb.deserialize b := rfl
  rw [e, Bpb.validate_of_valid hr hv, ebind_ok, Bpb.geometry_eq hr hv]
  rfl

end FatVerif
