import FatVerif.Proofs.FormatBasic
/-! Per-geometry arithmetic of `try_fs_layout`: finite case split on (bytes/sector, sectors/cluster, FATs, width),
    `omega` on (total_sectors, root_dir_sectors). -/
namespace FatVerif.Format

/-- what `ValidBpb` needs from an accepted layout -/
def LayoutFacts (total bps spc bits reserved rds fats : Nat) : Prop :=
  1 ≤ spfOf total bps spc bits reserved rds fats ∧
  clOf total spc reserved rds fats (spfOf total bps spc bits reserved rds fats) + 2 ≤
    spfOf total bps spc bits reserved rds fats * bps * 8 / bits ∧
  reserved + fats * spfOf total bps spc bits reserved rds fats + rds < total ∧
  fats * spfOf total bps spc bits reserved rds fats < 4294967296 ∧
  clOf total spc reserved rds fats (spfOf total bps spc bits reserved rds fats) =
    (total - (reserved + fats * spfOf total bps spc bits reserved rds fats + rds)) / spc

set_option maxHeartbeats 4000000 in
theorem layout_arith_ok_32 (t bps spc rds fats : Nat) (ht : t < 4294967296) (hr : rds ≤ 4096)
    (hb : bps ∈ [512, 1024, 2048, 4096, 8192, 16384, 32768]) (hs : spc ∈ [1, 2, 4, 8, 16, 32, 64, 128])
    (hf : fats = 1 ∨ fats = 2) (h : ¬ t ≤ 8 + rds + 8) :
    LayoutArithOk t bps spc 32 8 rds fats := by
  simp only [List.mem_cons, List.mem_nil_iff, or_false] at hb hs
  rcases hb with rfl | rfl | rfl | rfl | rfl | rfl | rfl <;>
  rcases hs with rfl | rfl | rfl | rfl | rfl | rfl | rfl | rfl <;>
  rcases hf with rfl | rfl <;>
  (simp only [LayoutArithOk, spfOf, t2Of]; omega)

set_option maxHeartbeats 4000000 in
theorem layout_arith_ok_16 (t bps spc rds fats : Nat) (ht : t < 4294967296) (hr : rds ≤ 4096)
    (hb : bps ∈ [512, 1024, 2048, 4096, 8192, 16384, 32768]) (hs : spc ∈ [1, 2, 4, 8, 16, 32, 64, 128])
    (hf : fats = 1 ∨ fats = 2) (h : ¬ t ≤ 1 + rds + 8) :
    LayoutArithOk t bps spc 16 1 rds fats := by
  simp only [List.mem_cons, List.mem_nil_iff, or_false] at hb hs
  rcases hb with rfl | rfl | rfl | rfl | rfl | rfl | rfl <;>
  rcases hs with rfl | rfl | rfl | rfl | rfl | rfl | rfl | rfl <;>
  rcases hf with rfl | rfl <;>
  (simp only [LayoutArithOk, spfOf, t2Of]; omega)

set_option maxHeartbeats 4000000 in
theorem layout_arith_ok_12 (t bps spc rds fats : Nat) (ht : t < 4294967296) (hr : rds ≤ 4096)
    (hb : bps ∈ [512, 1024, 2048, 4096, 8192, 16384, 32768]) (hs : spc ∈ [1, 2, 4, 8, 16, 32, 64, 128])
    (hf : fats = 1 ∨ fats = 2) (h : ¬ t ≤ 1 + rds + 8) :
    LayoutArithOk t bps spc 12 1 rds fats := by
  simp only [List.mem_cons, List.mem_nil_iff, or_false] at hb hs
  rcases hb with rfl | rfl | rfl | rfl | rfl | rfl | rfl <;>
  rcases hs with rfl | rfl | rfl | rfl | rfl | rfl | rfl | rfl <;>
  rcases hf with rfl | rfl <;>
  (simp only [LayoutArithOk, spfOf, t2Of]; omega)

/-- no checked operation of `try_fs_layout` fails for a geometry the builder can produce with `spc ≥ 1` -/
theorem layout_arith_ok (t bps spc rds fats : Nat) (ft : FatType) (ht : t < 4294967296) (hr : rds ≤ 4096)
    (hb : bps ∈ [512, 1024, 2048, 4096, 8192, 16384, 32768]) (hs : spc ∈ [1, 2, 4, 8, 16, 32, 64, 128])
    (hf : fats = 1 ∨ fats = 2) (h : ¬ t ≤ reservedFor ft + rds + 8) :
    LayoutArithOk t bps spc ft.bits (reservedFor ft) rds fats := by
  cases ft
  · exact layout_arith_ok_12 t bps spc rds fats ht hr hb hs hf h
  · exact layout_arith_ok_16 t bps spc rds fats ht hr hb hs hf h
  · exact layout_arith_ok_32 t bps spc rds fats ht hr hb hs hf h

set_option maxHeartbeats 4000000 in
theorem layout_facts_32 (t bps spc rds fats : Nat) (ht : t < 4294967296) (hr : rds ≤ 4096)
    (hb : bps ∈ [512, 1024, 2048, 4096, 8192, 16384, 32768]) (hs : spc ∈ [1, 2, 4, 8, 16, 32, 64, 128])
    (hf : fats = 1 ∨ fats = 2) (h : ¬ t ≤ 8 + rds + 8) :
    LayoutFacts t bps spc 32 8 rds fats := by
  simp only [List.mem_cons, List.mem_nil_iff, or_false] at hb hs
  rcases hb with rfl | rfl | rfl | rfl | rfl | rfl | rfl <;>
  rcases hs with rfl | rfl | rfl | rfl | rfl | rfl | rfl | rfl <;>
  rcases hf with rfl | rfl <;>
  (simp only [LayoutFacts, clOf, spfOf, t2Of]; omega)

set_option maxHeartbeats 4000000 in
theorem layout_facts_16 (t bps spc rds fats : Nat) (ht : t < 4294967296) (hr : rds ≤ 4096)
    (hb : bps ∈ [512, 1024, 2048, 4096, 8192, 16384, 32768]) (hs : spc ∈ [1, 2, 4, 8, 16, 32, 64, 128])
    (hf : fats = 1 ∨ fats = 2) (h : ¬ t ≤ 1 + rds + 8) :
    LayoutFacts t bps spc 16 1 rds fats := by
  simp only [List.mem_cons, List.mem_nil_iff, or_false] at hb hs
  rcases hb with rfl | rfl | rfl | rfl | rfl | rfl | rfl <;>
  rcases hs with rfl | rfl | rfl | rfl | rfl | rfl | rfl | rfl <;>
  rcases hf with rfl | rfl <;>
  (simp only [LayoutFacts, clOf, spfOf, t2Of]; omega)

set_option maxHeartbeats 4000000 in
theorem layout_facts_12 (t bps spc rds fats : Nat) (ht : t < 4294967296) (hr : rds ≤ 4096)
    (hb : bps ∈ [512, 1024, 2048, 4096, 8192, 16384, 32768]) (hs : spc ∈ [1, 2, 4, 8, 16, 32, 64, 128])
    (hf : fats = 1 ∨ fats = 2) (h : ¬ t ≤ 1 + rds + 8) :
    LayoutFacts t bps spc 12 1 rds fats := by
  simp only [List.mem_cons, List.mem_nil_iff, or_false] at hb hs
  rcases hb with rfl | rfl | rfl | rfl | rfl | rfl | rfl <;>
  rcases hs with rfl | rfl | rfl | rfl | rfl | rfl | rfl | rfl <;>
  rcases hf with rfl | rfl <;>
  (simp only [LayoutFacts, clOf, spfOf, t2Of]; omega)

theorem layout_facts (t bps spc rds fats : Nat) (ft : FatType) (ht : t < 4294967296) (hr : rds ≤ 4096)
    (hb : bps ∈ [512, 1024, 2048, 4096, 8192, 16384, 32768]) (hs : spc ∈ [1, 2, 4, 8, 16, 32, 64, 128])
    (hf : fats = 1 ∨ fats = 2) (h : ¬ t ≤ reservedFor ft + rds + 8) :
    LayoutFacts t bps spc ft.bits (reservedFor ft) rds fats := by
  cases ft
  · exact layout_facts_12 t bps spc rds fats ht hr hb hs hf h
  · exact layout_facts_16 t bps spc rds fats ht hr hb hs hf h
  · exact layout_facts_32 t bps spc rds fats ht hr hb hs hf h

end FatVerif.Format
