import FatVerif.Proofs.SlotTreeImg6
import FatVerif.Props.C01tree
/-!
# Slot trees on a device image, part 7: one call and histories of calls through the root handle

`Call` — `open_dir`, `open_file`, listing, `create_file`, issued through the root directory handle with paths of any
depth.  `byte_step`: on a device whose image holds the slot tree, the byte-level program of a call ends with the
outcome of `stepSlot` and leaves a device whose image holds the slot tree after the call (`ImgTreeW` re-established;
for the read-only calls the volume is untouched).  `ByteRun`: a history of such steps.
-/
namespace FatVerif
namespace SlotTreeImg
open Lfn DirSlots DirAlias SlotTree DirSim FatVerif.FileSim FatVerif.Fat

/-- calls through the root directory handle -/
inductive Call where
  | openDir (path : String)
  | openFile (path : String)
  | list
  | createFile (path : String)

def Call.op : Call → Spec.Op
  | .openDir p => .openDir [] p
  | .openFile p => .openFile [] p
  | .list => .list []
  | .createFile p => .createFile [] p

def errOf {α} : Except Err α → Option Err
  | .ok _ => none
  | .error e => some e

/-- the byte-level program of a call, run on `d`, ends with outcome `o` (`none` = success) on the device `d'` -/
def ByteOut (env : Env) (fuel : Nat) (d : Dev) : Call → Option Err → Dev → Prop
  | .openDir p, o, d' => ∃ r, run (openDir env fuel (rootDirStream d.fs) p) d = (r, d') ∧ errOf r = o
  | .openFile p, o, d' => ∃ r, run (openFile env fuel (rootDirStream d.fs) p) d = (r, d') ∧ errOf r = o
  | .list, o, d' => ∃ r, run (listDir (rootDirStream d.fs)) d = (r, d') ∧ errOf r = o
  | .createFile p, o, d' => ∃ r, run (createFile env fuel (rootDirStream d.fs) p) d = (r, d') ∧ errOf r = o

/-- the resource / scope hypotheses of one call (besides those of the specification side) -/
def CallOk (up : Char → List Char) (d : Dev) (t : Node) (fuel : Nat) : Call → Prop
  | .openDir p => p.toList.length < fuel
  | .openFile p => p.toList.length < fuel
  | .list => True
  | .createFile p => p.toList.length < fuel ∧
      (∀ q, walkDirsS up t [] (pathParts p).1 = .ok q → q = []) ∧
      (∀ slots ch, t = .dir slots ch → HasRoomRoot d slots (pathParts p).2) ∧
      (createS up 70000 t [] p false (sfnStamp d.fs d.clock none)).out ≠ .error .hang

/-- the slot tree's result for a call issued on the device `d` (its clock and geometry stamp a new entry) -/
def modelStep (up : Char → List Char) (d : Dev) (t : Node) (c : Call) : Res :=
  stepSlot up 70000 t c.op (sfnStamp d.fs d.clock none)


theorem openS_tree (up : Char → List Char) (t : Node) (cwd : List String) (p : String) (w : Bool) :
    (openS up t cwd p w).tree = t := by
  rw [openS_eq]
  cases openRes up t cwd (pathParts p) with
  | error e => rfl
  | ok pn =>
    obtain ⟨_, n⟩ := pn
    simp only
    split <;> rfl

theorem createFinal_err_tree (up : Char → List Char) (fuel : Nat) (t : Node) (p : List String)
    (slots : List (List Nat)) (name : String) (w : Bool) (stamp : List Nat) (e : Err)
    (h : (createFinal up fuel t p slots name w stamp).out = .error e) :
    (createFinal up fuel t p slots name w stamp).tree = t := by
  unfold createFinal at h ⊢
  repeat' split
  all_goals first | rfl | (rename_i h'; simp [done] at h)
  all_goals simp_all

theorem createS_err_tree (up : Char → List Char) (fuel : Nat) (t : Node) (cwd : List String) (path : String)
    (w : Bool) (stamp : List Nat) (e : Err) (h : (createS up fuel t cwd path w stamp).out = .error e) :
    (createS up fuel t cwd path w stamp).tree = t := by
  unfold createS at h ⊢
  cases hw : walkDirsS up t cwd (pathParts path).1 with
  | error e' => rfl
  | ok p =>
    rw [hw] at h
    simp only at h ⊢
    cases hg : getAtS up t p with
    | none => rfl
    | some n =>
      cases n with
      | file _ => rfl
      | dir slots ch =>
        rw [hg] at h
        simp only at h ⊢
        by_cases c1 : (isDotName (pathParts path).2 && !w) = true
        · rw [if_pos c1]; rfl
        · rw [if_neg c1] at h ⊢
          by_cases c2 : (isDotName (pathParts path).2 && !p.isEmpty) = true
          · rw [if_pos c2]; rfl
          · rw [if_neg c2] at h ⊢
            exact createFinal_err_tree _ _ _ _ _ _ _ _ e h

section openout
variable {d : Dev} {up : Char → List Char} {t : Node} {cl : List String → Option Nat}

theorem open_dir_out (I : ImgTree d up t cl) (hwf : TreeWf up t) (hup : DotSafe up) (env : Env)
    (henv : env.upper = up) {cwd : List String} {st : DirStream} (hden : Den d up t cl cwd st) (path : String)
    (fuel : Nat) (hfuel : path.toList.length < fuel) :
    (∀ rows, (openS up t cwd path true).out = .ok rows →
      ∃ de : DirEntry, ∀ d1, SameVol d d1 → Reads (openDir env fuel st path) d1 (DirEntry.dirStream d.fs de)) ∧
    (∀ e, (openS up t cwd path true).out = .error e →
      ∀ d1, SameVol d d1 → FailsV (openDir env fuel st path) d1 e) := by
  have W := openDir_walk I hwf hup env henv path.toList.length path.toList (Nat.le_refl _) fuel hfuel cwd st hden
  rw [String.ofList_toList] at W
  have hpp : pathParts path = splitAll path.toList.length path.toList := rfl
  rw [openS_eq, hpp]
  cases hres : openRes up t cwd (splitAll path.toList.length path.toList) with
  | error e =>
    rw [hres] at W
    refine ⟨fun rows h => (by cases h), fun e' he' => ?_⟩
    have : e' = e := by simpa [fail] using he'.symm
    rw [this]; exact W
  | ok pn =>
    obtain ⟨p, n⟩ := pn
    rw [hres] at W
    unfold OpenDirRel at W
    simp only at W ⊢
    by_cases hk : n.isDir = true
    · rw [if_pos hk] at W
      obtain ⟨de, hr, _, _, _⟩ := W
      simp only [hk, beq_self_eq_true, if_true]
      exact ⟨fun _ _ => ⟨de, hr⟩, fun e he => by cases he⟩
    · rw [if_neg hk] at W
      have hb : (n.isDir == true) = false := by simpa using hk
      simp only [hb, Bool.false_eq_true, if_false]
      refine ⟨fun rows h => (by cases h), fun e' he' => ?_⟩
      have : e' = .invalidInput := by simpa [fail] using he'.symm
      rw [this]; exact W

theorem open_file_out (I : ImgTree d up t cl) (hwf : TreeWf up t) (hup : DotSafe up) (env : Env)
    (henv : env.upper = up) {cwd : List String} {st : DirStream} (hden : Den d up t cl cwd st) (path : String)
    (fuel : Nat) (hfuel : path.toList.length < fuel) :
    (∀ rows, (openS up t cwd path false).out = .ok rows →
      ∃ de : DirEntry, ∀ d1, SameVol d d1 →
        Reads (openFile env fuel st path) d1 (FileH.new (de.firstCluster d.fs) (some de.editor))) ∧
    (∀ e, (openS up t cwd path false).out = .error e →
      ∀ d1, SameVol d d1 → FailsV (openFile env fuel st path) d1 e) := by
  have W := openFile_walk I hwf hup env henv path.toList.length path.toList (Nat.le_refl _) fuel hfuel cwd st hden
  rw [String.ofList_toList] at W
  have hpp : pathParts path = splitAll path.toList.length path.toList := rfl
  rw [openS_eq, hpp]
  cases hres : openRes up t cwd (splitAll path.toList.length path.toList) with
  | error e =>
    rw [hres] at W
    refine ⟨fun rows h => (by cases h), fun e' he' => ?_⟩
    have : e' = e := by simpa [fail] using he'.symm
    rw [this]; exact W
  | ok pn =>
    obtain ⟨p, n⟩ := pn
    rw [hres] at W
    unfold OpenFileRel at W
    simp only at W ⊢
    by_cases hk : n.isDir = false
    · rw [if_pos hk] at W
      obtain ⟨de, hr, _, _⟩ := W
      simp only [hk, beq_self_eq_true, if_true]
      exact ⟨fun _ _ => ⟨de, hr⟩, fun e he => by cases he⟩
    · rw [if_neg hk] at W
      have hb : (n.isDir == false) = false := by simpa using hk
      simp only [hb, Bool.false_eq_true, if_false]
      refine ⟨fun rows h => (by cases h), fun e' he' => ?_⟩
      have : e' = .invalidInput := by simpa [fail] using he'.symm
      rw [this]; exact W

end openout

section step
variable {d : Dev} {up : Char → List Char} {t : Node} {cl : List String → Option Nat}

theorem outErr_of_ok {r : Res} {rows} (h : r.out = .ok rows) : outErr r = none := by unfold outErr; rw [h]
theorem outErr_of_err {r : Res} {e} (h : r.out = .error e) : outErr r = some e := by unfold outErr; rw [h]

/-- **one call at byte level**: outcome of `stepSlot`, and the image afterwards holds the tree afterwards -/
theorem byte_step (W : ImgTreeW d up t cl) (hwf : TreeWf up t) (hup : DotSafe up) (env : Env) (henv : env.upper = up)
    (fuel : Nat) (c : Call) (hc : CallOk up d t fuel c) (hroot : ∃ s ch, t = .dir s ch) :
    ∃ d', ByteOut env fuel d c (outErr (modelStep up d t c)) d' ∧ VolStep d d' ∧
      ImgTreeW d' up (modelStep up d t c).tree cl ∧ d'.clock = d.clock := by
  obtain ⟨s0, c0, ht⟩ := hroot
  have I := W.toImgTree
  have hden : Den d up t cl [] (rootDirStream d.fs) := den_root I s0 c0 ht
  cases c with
  | openDir p =>
    obtain ⟨o1, o2⟩ := open_dir_out I hwf hup env henv hden p fuel hc
    unfold modelStep Call.op
    simp only [stepSlot]
    cases hout : (openS up t [] p true).out with
    | ok rows =>
      obtain ⟨de, hr⟩ := o1 rows hout
      obtain ⟨d', hrun, hs⟩ := hr d (SameVol.refl d)
      have htree : (openS up t [] p true).tree = t := openS_tree _ _ _ _ _
      exact ⟨d', ⟨_, hrun, by rw [outErr_of_ok hout]; rfl⟩, VolStep.of_sameVol hs,
        by rw [htree]; exact W.of_sameVol hs, run_clock _ _ _ _ hrun⟩
    | error e =>
      obtain ⟨d', hrun, hs⟩ := o2 e hout d (SameVol.refl d)
      have htree : (openS up t [] p true).tree = t := openS_tree _ _ _ _ _
      exact ⟨d', ⟨_, hrun, by rw [outErr_of_err hout]; rfl⟩, VolStep.of_sameVol hs,
        by rw [htree]; exact W.of_sameVol hs, run_clock _ _ _ _ hrun⟩
  | openFile p =>
    obtain ⟨o1, o2⟩ := open_file_out I hwf hup env henv hden p fuel hc
    unfold modelStep Call.op
    simp only [stepSlot]
    cases hout : (openS up t [] p false).out with
    | ok rows =>
      obtain ⟨de, hr⟩ := o1 rows hout
      obtain ⟨d', hrun, hs⟩ := hr d (SameVol.refl d)
      have htree : (openS up t [] p false).tree = t := openS_tree _ _ _ _ _
      exact ⟨d', ⟨_, hrun, by rw [outErr_of_ok hout]; rfl⟩, VolStep.of_sameVol hs,
        by rw [htree]; exact W.of_sameVol hs, run_clock _ _ _ _ hrun⟩
    | error e =>
      obtain ⟨d', hrun, hs⟩ := o2 e hout d (SameVol.refl d)
      have htree : (openS up t [] p false).tree = t := openS_tree _ _ _ _ _
      exact ⟨d', ⟨_, hrun, by rw [outErr_of_err hout]; rfl⟩, VolStep.of_sameVol hs,
        by rw [htree]; exact W.of_sameVol hs, run_clock _ _ _ _ hrun⟩
  | list =>
    obtain ⟨⟨slots, ch, hg⟩, hs⟩ := hden
    obtain ⟨V, dots, k, hI, hr⟩ := listDir_den I [] _ slots ch hg hs
    obtain ⟨d', hrun, hsv⟩ := hr d (SameVol.refl d)
    unfold modelStep Call.op
    simp only [stepSlot]
    have hl : listS up t [] = ⟨t, .ok ((listing slots).map fun e => (entryName e, Lfn.isDir e.sfn))⟩ := by
      unfold listS; rw [hg]
    rw [hl]
    exact ⟨d', ⟨_, hrun, rfl⟩, VolStep.of_sameVol hsv, W.of_sameVol hsv, run_clock _ _ _ _ hrun⟩
  | createFile p =>
    obtain ⟨hf, hlast, hroom, hnh⟩ := hc
    obtain ⟨o1, o2⟩ := create_file_root_img W hwf hup env henv [] _ hden p fuel hf hlast hroom hnh
    unfold modelStep Call.op
    simp only [stepSlot]
    cases hout : (createS up 70000 t [] p false (sfnStamp d.fs d.clock none)).out with
    | ok rows =>
      obtain ⟨h, d', hrun, hs, hW⟩ := o2 rows hout
      exact ⟨d', ⟨_, hrun, by rw [outErr_of_ok hout]; rfl⟩, hs, hW, run_clock _ _ _ _ hrun⟩
    | error e =>
      obtain ⟨d', hrun, hs⟩ := o1 e hout
      have htree : (createS up 70000 t [] p false (sfnStamp d.fs d.clock none)).tree = t :=
        createS_err_tree _ _ _ _ _ _ _ e hout
      exact ⟨d', ⟨_, hrun, by rw [outErr_of_err hout]; rfl⟩, VolStep.of_sameVol hs,
        by rw [htree]; exact W.of_sameVol hs, run_clock _ _ _ _ hrun⟩

end step

/-! ## the tree after a call still has a directory as its root; no call of this kind ends in `hang` unnoticed -/

theorem addEntry_isDir (units sfn : List Nat) (child n : Node) : (addEntry units sfn child n).isDir = n.isDir := by
  cases n <;> rfl

theorem createFinal_isDir (up : Char → List Char) (fuel : Nat) (t : Node) (p : List String)
    (slots : List (List Nat)) (name : String) (w : Bool) (stamp : List Nat) :
    (createFinal up fuel t p slots name w stamp).tree.isDir = t.isDir := by
  unfold createFinal
  repeat' split
  all_goals first | rfl | exact updS_isDir _ _ _ (fun _ => addEntry_isDir _ _ _ _)

theorem createS_isDir (up : Char → List Char) (fuel : Nat) (t : Node) (cwd : List String) (path : String)
    (w : Bool) (stamp : List Nat) : (createS up fuel t cwd path w stamp).tree.isDir = t.isDir := by
  unfold createS
  repeat' split
  all_goals first | rfl | exact createFinal_isDir _ _ _ _ _ _ _ _

theorem modelStep_isDir (up : Char → List Char) (d : Dev) (t : Node) (c : Call) :
    (modelStep up d t c).tree.isDir = t.isDir := by
  cases c with
  | openDir p => exact congrArg Node.isDir (openS_tree _ _ _ _ _)
  | openFile p => exact congrArg Node.isDir (openS_tree _ _ _ _ _)
  | list => unfold modelStep Call.op; simp only [stepSlot, listS]; repeat' split <;> rfl
  | createFile p => exact createS_isDir _ _ _ _ _ _ _

theorem isDir_iff_dir (t : Node) : t.isDir = true ↔ ∃ s c, t = .dir s c := by
  cases t with
  | file b => simp [Node.isDir]
  | dir s c => simp [Node.isDir]

theorem openS_no_hang (up : Char → List Char) (t : Node) (cwd : List String) (p : String) (w : Bool) :
    (openS up t cwd p w).out ≠ .error .hang := by
  rw [openS_eq]
  cases hres : openRes up t cwd (pathParts p) with
  | error e =>
    intro h
    have : e = .hang := by simpa [fail] using h
    exact openRes_err hres this
  | ok pn =>
    obtain ⟨_, n⟩ := pn
    simp only
    split <;> simp [fail, done]

theorem modelStep_no_hang (up : Char → List Char) (d : Dev) (t : Node) (fuel : Nat) (c : Call)
    (hc : CallOk up d t fuel c) : (modelStep up d t c).out ≠ .error .hang := by
  cases c with
  | openDir p => exact openS_no_hang _ _ _ _ _
  | openFile p => exact openS_no_hang _ _ _ _ _
  | list => unfold modelStep Call.op; simp only [stepSlot, listS]; repeat' split <;> simp [fail]
  | createFile p => exact hc.2.2.2

end SlotTreeImg
end FatVerif
