import FatVerif.Proofs.SlotTreeImg6
import FatVerif.Props.C01tree
/-!
# Slot trees on a device image, part 7: helper facts for calls (trees after failing calls, the read-only outcomes)
-/
namespace FatVerif
namespace SlotTreeImg
open Lfn DirSlots DirAlias SlotTree DirSim FatVerif.FileSim FatVerif.Fat


theorem openS_tree (up : Char → List Char) (t : Node) (cwd : List String) (p : String) (w : Bool) :
    (openS up t cwd p w).tree = t := by
  rw [openS_eq]
  cases openRes up t cwd (pathParts p) with
  | error e => rfl
  | ok pn =>
    obtain ⟨_, n⟩ := pn
    simp only
    split <;> rfl

theorem createFinal_err_tree (up : Char → List Char) (fuel : Nat) (t : Node) (p : List String)
    (slots : List (List Nat)) (name : String) (w : Bool) (stamp : List Nat) (e : Err)
    (h : (createFinal up fuel t p slots name w stamp).out = .error e) :
    (createFinal up fuel t p slots name w stamp).tree = t := by
  unfold createFinal at h ⊢
  repeat' split
  all_goals first | rfl | (rename_i h'; simp [done] at h)
  all_goals simp_all

theorem createS_err_tree (up : Char → List Char) (fuel : Nat) (t : Node) (cwd : List String) (path : String)
    (w : Bool) (stamp : List Nat) (e : Err) (h : (createS up fuel t cwd path w stamp).out = .error e) :
    (createS up fuel t cwd path w stamp).tree = t := by
  unfold createS at h ⊢
  cases hw : walkDirsS up t cwd (pathParts path).1 with
  | error e' => rfl
  | ok p =>
    rw [hw] at h
    simp only at h ⊢
    cases hg : getAtS up t p with
    | none => rfl
    | some n =>
      cases n with
      | file _ => rfl
      | dir slots ch =>
        rw [hg] at h
        simp only at h ⊢
        by_cases c1 : (isDotName (pathParts path).2 && !w) = true
        · rw [if_pos c1]; rfl
        · rw [if_neg c1] at h ⊢
          by_cases c2 : (isDotName (pathParts path).2 && !p.isEmpty) = true
          · rw [if_pos c2]; rfl
          · rw [if_neg c2] at h ⊢
            exact createFinal_err_tree _ _ _ _ _ _ _ _ e h

section openout
variable {d : Dev} {up : Char → List Char} {t : Node} {cl : List String → Option Nat}

theorem open_dir_out (I : ImgTree d up t cl) (hwf : TreeWf up t) (hup : DotSafe up) (env : Env)
    (henv : env.upper = up) {cwd : List String} {st : DirStream} (hden : Den d up t cl cwd st) (path : String)
    (fuel : Nat) (hfuel : path.toList.length < fuel) :
    (∀ rows, (openS up t cwd path true).out = .ok rows →
      ∃ de : DirEntry, ∀ d1, SameVol d d1 → Reads (openDir env fuel st path) d1 (DirEntry.dirStream d.fs de)) ∧
    (∀ e, (openS up t cwd path true).out = .error e →
      ∀ d1, SameVol d d1 → FailsV (openDir env fuel st path) d1 e) := by
  have W := openDir_walk I hwf hup env henv path.toList.length path.toList (Nat.le_refl _) fuel hfuel cwd st hden
  rw [String.ofList_toList] at W
  have hpp : pathParts path = splitAll path.toList.length path.toList := rfl
  rw [openS_eq, hpp]
  cases hres : openRes up t cwd (splitAll path.toList.length path.toList) with
  | error e =>
    rw [hres] at W
    refine ⟨fun rows h => (by cases h), fun e' he' => ?_⟩
    have : e' = e := by simpa [fail] using he'.symm
    rw [this]; exact W
  | ok pn =>
    obtain ⟨p, n⟩ := pn
    rw [hres] at W
    unfold OpenDirRel at W
    simp only at W ⊢
    by_cases hk : n.isDir = true
    · rw [if_pos hk] at W
      obtain ⟨de, hr, _, _, _⟩ := W
      simp only [hk, beq_self_eq_true, if_true]
      exact ⟨fun _ _ => ⟨de, hr⟩, fun e he => by cases he⟩
    · rw [if_neg hk] at W
      have hb : (n.isDir == true) = false := by simpa using hk
      simp only [hb, Bool.false_eq_true, if_false]
      refine ⟨fun rows h => (by cases h), fun e' he' => ?_⟩
      have : e' = .invalidInput := by simpa [fail] using he'.symm
      rw [this]; exact W

theorem open_file_out (I : ImgTree d up t cl) (hwf : TreeWf up t) (hup : DotSafe up) (env : Env)
    (henv : env.upper = up) {cwd : List String} {st : DirStream} (hden : Den d up t cl cwd st) (path : String)
    (fuel : Nat) (hfuel : path.toList.length < fuel) :
    (∀ rows, (openS up t cwd path false).out = .ok rows →
      ∃ de : DirEntry, ∀ d1, SameVol d d1 →
        Reads (openFile env fuel st path) d1 (FileH.new (de.firstCluster d.fs) (some de.editor))) ∧
    (∀ e, (openS up t cwd path false).out = .error e →
      ∀ d1, SameVol d d1 → FailsV (openFile env fuel st path) d1 e) := by
  have W := openFile_walk I hwf hup env henv path.toList.length path.toList (Nat.le_refl _) fuel hfuel cwd st hden
  rw [String.ofList_toList] at W
  have hpp : pathParts path = splitAll path.toList.length path.toList := rfl
  rw [openS_eq, hpp]
  cases hres : openRes up t cwd (splitAll path.toList.length path.toList) with
  | error e =>
    rw [hres] at W
    refine ⟨fun rows h => (by cases h), fun e' he' => ?_⟩
    have : e' = e := by simpa [fail] using he'.symm
    rw [this]; exact W
  | ok pn =>
    obtain ⟨p, n⟩ := pn
    rw [hres] at W
    unfold OpenFileRel at W
    simp only at W ⊢
    by_cases hk : n.isDir = false
    · rw [if_pos hk] at W
      obtain ⟨de, hr, _, _⟩ := W
      simp only [hk, beq_self_eq_true, if_true]
      exact ⟨fun _ _ => ⟨de, hr⟩, fun e he => by cases he⟩
    · rw [if_neg hk] at W
      have hb : (n.isDir == false) = false := by simpa using hk
      simp only [hb, Bool.false_eq_true, if_false]
      refine ⟨fun rows h => (by cases h), fun e' he' => ?_⟩
      have : e' = .invalidInput := by simpa [fail] using he'.symm
      rw [this]; exact W

end openout


end SlotTreeImg
end FatVerif
