import FatVerif.Proofs.FaultSim10
import FatVerif.Proofs.NoWriteModel2
/-! Faults and forward evaluation, part 11: a `write_entry` hit by the fault (outside destructors) leaves the directory
    writable: the invariant of the directory holds of the device it ends on. With the invariant strengthened by the
    decoded FAT (`TvIs`), the FAT after the failed `write_entry` is the FAT before it — what the roll-back
    `free_cluster_chain(cluster)` of `create_dir` needs. -/
namespace FatVerif

/-- scope exit, taken apart: the body ran; unless it hung, the destructor ran one level deeper -/
theorem run_finallyDrop_cases {α} {p : Prog α} {c : Option α → Prog Unit} {d : Dev} {r d'}
    (hr : run (Prog.finallyDrop p c) d = (r, d')) :
    ∃ rb dq, run p d = (rb, dq) ∧ ((rb = .error .hang ∧ d' = dq) ∨
      ∃ rc d2, run (c rb.toOption) { dq with dropDepth := dq.dropDepth + 1 } = (rc, d2) ∧
        d' = { d2 with dropDepth := d2.dropDepth - 1 }) := by
  simp only [run] at hr
  rcases hq : run p d with ⟨rq, d1⟩
  rw [hq] at hr
  refine ⟨rq, d1, rfl, ?_⟩
  cases rq with
  | ok a =>
    simp only at hr
    rcases hcr : run (c (some a)) { d1 with dropDepth := d1.dropDepth + 1 } with ⟨rc, d2⟩
    rw [hcr] at hr
    right
    refine ⟨rc, d2, hcr, ?_⟩
    cases rc with
    | ok u => simp only at hr; cases hr; rfl
    | error e' =>
      simp only at hr
      split at hr <;> cases hr <;> rfl
  | error e =>
    simp only at hr
    split at hr
    · rename_i he
      cases hr
      subst he
      exact Or.inl ⟨rfl, rfl⟩
    · rcases hcr : run (c none) { d1 with dropDepth := d1.dropDepth + 1 } with ⟨rc, d2⟩
      rw [hcr] at hr
      right
      refine ⟨rc, d2, hcr, ?_⟩
      cases rc with
      | ok u => simp only at hr; cases hr; rfl
      | error e' =>
        simp only at hr
        split at hr <;> cases hr <;> rfl

/-- a scope exit that ends with the fault fired outside destructors: it fired in the (`IoSafe`) body, which failed with
    the I/O error -/
theorem finallyDrop_fired_body {α} {p : Prog α} {c : Option α → Prog Unit} (hp : IoSafe p) {d : Dev} (hd : d.fault = none)
    {r d'} (hr : run (Prog.finallyDrop p c) d = (r, d')) {f : Fault} (hf : d'.fault = some f) (hnd : f.inDrop = false) :
    ∃ dq, run p d = (.error (.io f.k), dq) ∧ dq.fault = some f ∧ dq.failAt = none := by
  obtain ⟨rb, dq, hb, hcase⟩ := run_finallyDrop_cases hr
  have key : dq.fault = some f := by
    rcases hcase with ⟨_, hd'⟩ | ⟨rc, d2, hc, hd'⟩
    · rw [← hd']; exact hf
    · have hf2 : d2.fault = some f := by rw [hd'] at hf; exact hf
      by_cases hq : dq.fault = none
      · exfalso
        rcases run_any _ { dq with dropDepth := dq.dropDepth + 1 } hq hc with h | ⟨_, f', hf', hin⟩
        · rw [h] at hf2; cases hf2
        · rw [hf2] at hf'
          cases hf'
          have := hin (Nat.succ_pos _)
          rw [hnd] at this; cases this
      · have hfa : dq.failAt = none := by
          rcases run_any _ d hd hb with h | ⟨h, _⟩
          · exact absurd h hq
          · exact h
        have := (fault_kept _ { dq with dropDepth := dq.dropDepth + 1 } hc hfa).1
        rw [hf2] at this
        exact this.symm
  rcases ioSafe_propagates hp d hd _ _ hb with h0 | ⟨hfa, f', hf', him⟩
  · rw [key] at h0; cases h0
  · rw [key] at hf'
    cases hf'
    have := him hnd
    cases rb with
    | ok a => simp [resErr] at this
    | error e =>
      simp only [resErr, Option.some.injEq] at this
      subst this
      exact ⟨dq, hb, key, hfa⟩

/-- scope exit whose body failed (not by a hang) and whose destructor succeeds -/
theorem run_finallyDrop_err {α} {p : Prog α} {c : Option α → Prog Unit} {d d1 d2 : Dev} {e : Err}
    (h : run p d = (.error e, d1)) (hh : e ≠ .hang)
    (hc : run (c none) { d1 with dropDepth := d1.dropDepth + 1 } = (.ok (), d2)) :
    run (Prog.finallyDrop p c) d = (.error e, { d2 with dropDepth := d2.dropDepth - 1 }) := by
  simp only [run, h, hc, if_neg hh]

/-- the continuation of an `IoSafe` step that returned a value, in a run that ends with the fault fired outside
    destructors, started with the fault not yet fired -/
theorem unfired_of_ok {α β} {p : Prog α} (hp : IoSafe p) {d d1 d' : Dev} (hd : d.fault = none) {a : α}
    (h1 : run p d = (.ok a, d1)) {q : Prog β} {r} (hk : run q d1 = (r, d')) {f : Fault} (hf' : d'.fault = some f)
    (hnd : f.inDrop = false) : d1.fault = none := by
  apply Classical.byContradiction
  intro hne
  have hfa1 : d1.failAt = none := by
    rcases run_any _ d hd h1 with h | ⟨h, _⟩
    · exact absurd h hne
    · exact h
  have hkept := fault_kept _ d1 hk hfa1
  obtain ⟨e, he⟩ := DirSim.ioSafe_fired_error hp hd h1 hne (fun f' hf'' => by
    rw [hkept.1, hf''] at hf'; cases hf'; exact hnd)
  cases he

namespace DirStream

theorem seek_quiet (st : DirStream) (p : SeekFrom) : QuietOps (st.seek p) := by
  cases st with
  | file f => simp only [seek]; quiet [FileH.seek_quiet]
  | root s => simp only [seek]; quiet [DiskSlice.seek_quiet]

end DirStream

section ro
variable {fs0 : FsState} (hacc : fs0.accDate = false)
include hacc

theorem findFreeLoop_ro (num : Nat) : ∀ fuel st firstFree numFree i, CleanStream st →
    RO fs0 (findFreeLoop num fuel st firstFree numFree i) CleanStream := by
  intro fuel
  induction fuel with
  | zero => intros; unfold findFreeLoop; exact RO.fail _
  | succ k ih =>
    intro st firstFree numFree i hst
    unfold findFreeLoop
    refine RO.bind (readSlot_ro hacc hst) ?_
    rintro ⟨raw, st'⟩ hst'
    dsimp only
    split
    · refine RO.bind (DirStream.seek_ro hst' _) ?_
      rintro ⟨_, st2⟩ hst2
      exact RO.pure hst2
    · split
      · split
        · refine RO.bind (DirStream.seek_ro hst' _) ?_
          rintro ⟨_, st2⟩ hst2
          exact RO.pure hst2
        · exact ih _ _ _ _ hst'
      · exact ih _ _ _ _ hst'

theorem findFreeEntries_ro {d : DirStream} (hd : CleanStream d) (num : Nat) :
    RO fs0 (findFreeEntries d num) CleanStream := by
  unfold findFreeEntries
  refine RO.bind RO.getFs (fun fs _ => ?_)
  refine RO.finallyDrop (findFreeLoop_ro hacc num _ _ _ _ _ hd) (fun a _ => RO.pure trivial) ?_
  exact DirStream.dropBody_clean_ro hd

end ro

/-- `let (pos, st) ← st0.seek(Current(0))` with the clone dropped on failure, on a clean stream -/
theorem seekCur_ro {fs0 : FsState} {st0 : DirStream} (h0 : CleanStream st0) :
    RO fs0 (Prog.finallyDrop (st0.seek (.cur 0)) (fun r =>
      match r with
      | some _ => pure ()
      | none => st0.dropBody)) (fun r => CleanStream r.2) :=
  RO.finallyDrop (DirStream.seek_ro h0 _) (fun _ _ => RO.pure trivial) (DirStream.dropBody_clean_ro h0)

end FatVerif

namespace FatVerif.DirSim
open FatVerif.FileSim DirEntryData

section generic
variable {Inv : Dev → Prop} {F G : Nat → DirStream} {N : Nat} {src room : Nat → Nat} {Extra : Nat → Prop}
  {DropPost : Img → Img → Prop}

/-- a read-only step that ends with the fault fired leaves the invariant -/
theorem inv_of_ro (IO : InvOK Inv) {d d' : Dev} (hd : d.fault = none) (hinv : Inv d.disarm) {α} {p : Prog α}
    {Post : α → Prop} (hp : RO d.fs p Post) {r} (h : run p d = (r, d')) (hf : d'.fault ≠ none) : Inv d' := by
  obtain ⟨hsw, hfs, _⟩ := hp.out d r d' rfl h
  have hfa : d'.failAt = none := by
    rcases run_any _ d hd h with h0 | ⟨h0, _⟩
    · exact absurd h0 hf
    · exact h0
  exact IO.vol d.disarm d' hinv ⟨hsw.1, hfs, hfa, hsw.2⟩ (by have := run_clock _ _ _ _ h; exact this)

/-- a quiet step that ends with the fault fired: the volume is the one before -/
theorem sameVol_of_quiet {α} {p : Prog α} (hp : QuietOps p) {d dq : Dev} {r} (hb : run p d = (r, dq))
    (hfa : dq.failAt = none) : SameVol d.disarm dq :=
  ⟨(quiet_img hp hb : dq.img = d.img), (quiet_fs hp hb : dq.fs = d.fs), hfa,
    ((noWriteOps_sound hp.noWriteOps d hb).2 : dq.writesOf = d.writesOf)⟩

/-- the invariant does not depend on the destructor depth -/
theorem inv_depth (IO : InvOK Inv) {d : Dev} (h : Inv d) (n : Nat) : Inv { d with dropDepth := n } :=
  IO.vol d _ h (sameVol_depth d n) rfl

/-- **the part of `write_entry` from `find_free_entries` on, hit by the fault outside destructors, ends on a device on
    which the directory is writable as before** (for the list `L` of long-name slots) -/
theorem writeEntry_core_keeps (IO : InvOK Inv) (W : WFam Inv F G N src room) (WG : WFam Inv G G N src room)
    (O : WOps Inv F G N src room Extra DropPost) {P : DirStream → Prop} (hFK : FaultKeeps Inv P)
    (hPF : ∀ q, q + 1 ≤ N → P (F (32 * q))) (hPG : ∀ q, q + 1 ≤ N → P (G (32 * q))) (hS : SeekG Inv G N)
    (hacc : ∀ dd, Inv dd → dd.fs.accDate = false) (hcl : ∀ o, CleanStream (F o))
    (L : List (List Nat)) (hL : ∀ sl ∈ L, sl.length = 32 ∧ (∀ b ∈ sl, b < 256) ∧ (deserialize sl).serialize = sl)
    (raw : DirFileEntryData) (hraw : raw.WF) (units : List Nat) (d : Dev) (hd : d.fault = none) (hinv : Inv d.disarm)
    (hfit : DirSlots.findFree (srcSlots d.img src N) (L.length + 1) + (L.length + 1) ≤ N) (fs : FsState)
    {r d'} (hr : run (do
      let st0 ← findFreeEntries (F 0) (L.length + 1)
      let (startPos, st) ← Prog.finallyDrop (st0.seek (.cur 0)) (fun r =>
        match r with
        | some _ => pure ()
        | none => st0.dropBody)
      let (err, st) ← writeSlotsKeep (L.map DirEntryData.deserialize ++ [.file raw]) st
      match err with
      | some e =>
        thenDrop st (do
          freeWrittenEntries st startPos
          .fail e)
      | none =>
        thenDrop st (do
          let (endPos, st) ← st.seek (.cur 0)
          let endAbs ← st.absPos fs
          match endAbs with
          | none => .fail .panic
          | some endAbs =>
            pure ({ data := raw, lfn := units, entryPos := endAbs - 32, rangeBegin := startPos, rangeEnd := endPos } : DirEntry))) d =
      (r, d')) {f : Fault} (hf' : d'.fault = some f) (hnd : f.inDrop = false) : Inv d' := by
  have hne' : d'.fault ≠ none := by rw [hf']; exact fun h => by cases h
  generalize hnum : L.length + 1 = num at hfit hr
  generalize hp : DirSlots.findFree (srcSlots d.img src N) num = p at hfit
  have hseek : ∀ d1, SameVol d.disarm d1 → ∀ o t, o ≤ 32 * N → t ≤ 32 * N → Reads ((F o).seek (.start t)) d1 (t, F t) :=
    fun d1 hv o t ho ht => O.seekStartF d.disarm hinv d1 hv o t ho ht
  -- 1. find_free_entries
  rcases run_bind_cases hr with ⟨st0, d1, h1, hk⟩ | ⟨e1, h1, _⟩
  rotate_left
  · exact inv_of_ro IO hd hinv (findFreeEntries_ro (hacc _ hinv) (hcl 0) num) h1 hne'
  clear hr
  have hf1 : d1.fault = none := unfired_of_ok (findFreeEntries_ioSafe _ _) hd h1 hk hf' hnd
  obtain ⟨d1g, h1g, hs1g⟩ := (O.dsrc d.disarm hinv).findFreeEntries_sim hseek (O.fuel d.disarm hinv) num d.disarm
    (SameVol.refl _)
  rw [run_disarm _ d h1 hd hf1] at h1g
  cases h1g
  have hp' : DirSlots.findFree (srcSlots d.disarm.img src N) num = p := hp
  rw [hp'] at hk
  have hinv1 : Inv d1.disarm := IO.vol _ _ hinv hs1g (by
    have := run_clock _ _ _ _ h1; exact this)
  -- 2. position
  rcases run_bind_cases hk with ⟨ps, d2, h2, hk2⟩ | ⟨e2, h2, _⟩
  rotate_left
  · exact inv_of_ro IO hf1 hinv1 (seekCur_ro (hcl _)) h2 hne'
  clear hk
  have hf2 : d2.fault = none := unfired_of_ok (by iosafe [DirStream.seek_ioSafe, DirStream.dropBody_nonFatal]) hf1 h2 hk2
    hf' hnd
  obtain ⟨d2g, h2g, hs2g⟩ := O.seekCurF d1.disarm hinv1 (32 * p) (by omega)
  have h2g' := run_finallyDrop_noop (c := fun r => match r with
      | some _ => (pure () : Prog Unit)
      | none => (F (32 * p)).dropBody) h2g (fun _ => rfl)
  rw [run_disarm _ d1 h2 hf1 hf2] at h2g'
  cases h2g'
  have hinv2 : Inv d2.disarm := IO.vol _ _ hinv1 hs2g (by
    have := run_clock _ _ _ _ h2; exact this)
  -- 3. the records
  have hes : ∀ e ∈ L.map deserialize ++ [DirEntryData.file raw], e.serialize.length = 32 ∧ ∀ b ∈ e.serialize, b < 256 := by
    intro e he
    rcases List.mem_append.mp he with he | he
    · obtain ⟨sl, hsl, rfl⟩ := List.mem_map.mp he
      obtain ⟨h32, hlt, hrt⟩ := hL sl hsl
      rw [hrt]; exact ⟨h32, hlt⟩
    · simp only [List.mem_singleton] at he
      subst he
      exact ⟨DirFileEntryData.serialize_length raw hraw.name_len, DirFileEntryData.serialize_lt raw hraw⟩
  have heslen : (L.map deserialize ++ [DirEntryData.file raw]).length = num := by
    rw [List.length_append, List.length_map, List.length_singleton]; exact hnum
  have hne : L.map deserialize ++ [DirEntryData.file raw] ≠ [] := by simp
  simp only at hk2
  rcases run_bind_cases hk2 with ⟨⟨err, st'⟩, d3, h3, hk3⟩ | ⟨e3, h3, _⟩
  rotate_left
  · exfalso
    rcases writeSlotsKeep_armed IO WG hFK hPG _ F W hPF p d2 hf2 hinv2 hes (by rw [heslen]; exact hfit) _ _ h3 with
      ⟨_, hval, _⟩ | ⟨f3, hff, _, hcase⟩
    · cases hval
    · rw [hf'] at hff
      cases hff
      rcases hcase with hin | ⟨j, _, hval, _⟩
      · rw [hnd] at hin; cases hin
      · cases hval
  clear hk2
  rcases writeSlotsKeep_armed IO WG hFK hPG _ F W hPF p d2 hf2 hinv2 hes (by rw [heslen]; exact hfit) _ _ h3 with
    ⟨hf3, hval, hinv3⟩ | ⟨f3, hff, hfa3, hcase⟩
  · -- all slots written, no fault yet: it fires in the final position queries
    rw [if_neg hne] at hval
    cases hval
    simp only at hk3
    unfold thenDrop at hk3
    obtain ⟨dq, hb, hfq, hfaq⟩ := finallyDrop_fired_body
      (by iosafe [DirStream.seek_ioSafe, DirStream.absPos_ioSafe]) hf3 hk3 hf' hnd
    have hinvq : Inv dq := IO.vol d3.disarm dq hinv3
      (sameVol_of_quiet (by quiet [DirStream.seek_quiet, DirStream.absPos_quiet]) hb hfaq)
      (by have := run_clock _ _ _ _ hb; exact this)
    obtain ⟨d5, h5, _, hinv5, _⟩ := O.dropG _ (inv_depth IO hinvq (dq.dropDepth + 1))
      (32 * (p + (L.map deserialize ++ [DirEntryData.file raw]).length)) (by rw [heslen]; omega)
    rw [run_finallyDrop_err hb (by intro h; cases h) h5] at hk3
    cases hk3
    exact inv_depth IO hinv5 _
  · -- the fault fired in a slot write
    have hkept := fault_kept _ d3 hk3 hfa3
    rw [hf', hff] at hkept
    have hf3f : f = f3 := by have := hkept.1; injection this with h
    subst hf3f
    rcases hcase with hin | ⟨j, hj, hval, hinv3⟩
    · rw [hnd] at hin; cases hin
    cases hval
    simp only at hk3
    rw [heslen] at hj
    -- the roll-back succeeds, then the clone is dropped
    have hroll : ∃ d4, run (freeWrittenEntries (if j = 0 then F (32 * p) else G (32 * (p + j))) (32 * p)) d3 =
        (.ok (), d4) ∧ Inv d4 := by
      by_cases hj0 : j = 0
      · subst hj0
        simp only [if_true]
        obtain ⟨d4, h4, hs4⟩ := O.seekCurF d3 hinv3 (32 * p) (by omega)
        exact ⟨d4, freeWrittenEntries_zero _ _ _ _ h4, IO.vol _ _ hinv3 hs4 (run_clock _ _ _ _ h4)⟩
      · have hcur : ∃ d4, run ((if j = 0 then F (32 * p) else G (32 * (p + j))).seek (.cur 0)) d3 =
            (.ok (32 * (p + j), if j = 0 then F (32 * p) else G (32 * (p + j))), d4) ∧ SameVol d3 d4 := by
          simp only [hj0, if_false]
          exact O.seekCurG d3 hinv3 (32 * (p + j)) (by omega)
        obtain ⟨d4, h4, hi4, _⟩ := freeWrittenEntries_ok IO WG hS (if j = 0 then F (32 * p) else G (32 * (p + j))) p j
          (fun hj0 => by simp only [hj0, if_false]) (by omega) d3 hinv3 hcur
        exact ⟨d4, h4, hi4⟩
    obtain ⟨d4, h4, hinv4⟩ := hroll
    have hbody : run (freeWrittenEntries (if j = 0 then F (32 * p) else G (32 * (p + j))) (32 * p) >>=
        fun _ => (Prog.fail (.io f.k) : Prog DirEntry)) d3 = (.error (.io f.k), d4) := by
      rw [run_bind_ok h4]
      rfl
    have hdrop : ∃ d5, run (if j = 0 then F (32 * p) else G (32 * (p + j))).dropBody
        { d4 with dropDepth := d4.dropDepth + 1 } = (.ok (), d5) ∧ Inv d5 := by
      have hinv4' := inv_depth IO hinv4 (d4.dropDepth + 1)
      by_cases hj0 : j = 0
      · simp only [hj0, if_true]
        obtain ⟨d5, h5, hs5⟩ := (O.dsrc _ hinv4').drop _ (SameVol.refl _) (32 * p) (by omega)
        exact ⟨d5, h5, IO.vol _ _ hinv4' hs5 (run_clock _ _ _ _ h5)⟩
      · simp only [hj0, if_false]
        obtain ⟨d5, h5, _, hinv5, _⟩ := O.dropG _ hinv4' (32 * (p + j)) (by omega)
        exact ⟨d5, h5, hinv5⟩
    obtain ⟨d5, h5, hinv5⟩ := hdrop
    unfold thenDrop at hk3
    have hk3' : run (Prog.finallyDrop (freeWrittenEntries (if j = 0 then F (32 * p) else G (32 * (p + j))) (32 * p) >>=
        fun _ => (Prog.fail (.io f.k) : Prog DirEntry)) (fun _ => (if j = 0 then F (32 * p) else G (32 * (p + j))).dropBody)) d3 =
        (r, d') := hk3
    rw [run_finallyDrop_err hbody (by intro h; cases h) h5] at hk3'
    cases hk3'
    exact inv_depth IO hinv5 _

end generic

open FatVerif.Fat in
theorem TvIs.of_fatAgree {tv : Nat → FatValue} {fs0 : FsState} {d d' : Dev} (h : TvIs tv d)
    (hgeo : FileSim.Geo d.fs d.img.size) (hg0 : FsGeomEq fs0 d.fs) (hg : FsGeomEq d.fs d'.fs)
    (hfat : FatAgree fs0 d.img d'.img) : TvIs tv d' := by
  have hfat1 : FatAgree d.fs d.img d'.img := fun x h1 h2 =>
    hfat x (by rw [← hg0.fatSlice]; exact h1) (by rw [← hg0.fatSlice]; exact h2)
  unfold TvIs at *
  rw [hg.tabView, tabView_congr hgeo hfat1]; exact h

theorem fatAgree_of_writesTo0 {Inv : Dev → Prop} {fs0 : FsState} {N : Nat} {src : Nat → Nat}
    (hF : FatBefore Inv fs0 N src) {d d' : Dev} {o : Nat} {bs : List Nat}
    (hw : WritesTo d d' (src o) bs) (hwf : d.img.WF) (ho : o + bs.length ≤ 32 * N) : FatAgree fs0 d.img d'.img := by
  by_cases hb : bs.length = 0
  · intro q h1 h2
    have := hF.h42
    rw [hw.bytes hwf q (by omega)]
    unfold putBytes
    rw [if_neg (by omega)]
  · exact fatAgree_of_writesTo' hF hw hwf (by omega)

/-- what a writable directory must satisfy, besides `FaultOK`, for its writes — faulted or not — to keep the FAT -/
structure TvKeep {d0 : Dev} {st : DirStream} (V : WView d0 st) (fs0 : FsState) : Prop where
  geo : ∀ dd, V.Inv dd → FileSim.Geo dd.fs dd.img.size
  geom : ∀ dd, V.Inv dd → FsGeomEq fs0 dd.fs
  before : FatBefore V.Inv fs0 V.N V.src
  extra : ∀ q, V.Extra q → (fatSliceOf fs0).beginOff + (fatSliceOf fs0).size ≤ q
  acc : fs0.accDate = false
  clean : ∀ o, CleanStream (V.F o)
  fat : ∀ (d1 d2 : Dev) (s : DirStream) (e : DirEntryData) (r : Except Err DirStream),
    (∃ q, q + 1 ≤ V.N ∧ (s = V.F (32 * q) ∨ s = V.G (32 * q))) → e.serialize.length = 32 → d1.fault = none →
    V.Inv d1.disarm → run (writeSlot s e) d1 = (r, d2) → d2.fault ≠ none →
    (∀ f, d2.fault = some f → f.inDrop = false) → FatAgree fs0 d1.img d2.img

namespace WView
variable {d : Dev} {st : DirStream}

open FatVerif.Fat in
/-- **a `write_entry(name, raw)` on a writable directory that ends with the fault fired outside destructors leaves the
    directory writable and the FAT as it was** -/
theorem writeEntry_keepsTv (V : WView d.disarm st) (hd : d.fault = none) (hOK : FaultOK V) {fs0 : FsState}
    (K : TvKeep V fs0) (name : String)
    (raw : DirFileEntryData) (hdot : (name = "." || name = "..") = false) (hraw : raw.WF)
    (hfit : DirSlots.findFree (V.slots d.img) (Lfn.numParts (Names.encodeUtf16 name.toList).length + 1) +
      (Lfn.numParts (Names.encodeUtf16 name.toList).length + 1) ≤ V.N)
    {r d'} (hr : run (FatVerif.writeEntry st name raw) d = (r, d')) {f : Fault} (hf' : d'.fault = some f)
    (hnd : f.inDrop = false) : V.Inv d' ∧ tabView d'.fs d'.img = tabView d.fs d.img := by
  have IO' := V.io.strengthen (TvIs (tabView d.fs d.img)) (fun _ _ hp hv => hp.of_sameVol hv)
  have hPw : ∀ d1 d2 o bs, V.Inv d1 → TvIs (tabView d.fs d.img) d1 → WritesTo d1 d2 (V.src o) bs → V.Inv d2 →
      o + bs.length ≤ 32 * V.N → TvIs (tabView d.fs d.img) d2 := fun d1 d2 o bs hi hp hw _ hfit =>
    hp.of_fatAgree (K.geo d1 hi) (K.geom d1 hi) hw.step.geom (fatAgree_of_writesTo0 K.before hw (V.io.wf d1 hi) hfit)
  have W' := V.w.strengthen (TvIs (tabView d.fs d.img)) hPw
  have WG' := V.wg.strengthen (TvIs (tabView d.fs d.img)) hPw
  have O' := V.ops.strengthen (TvIs (tabView d.fs d.img)) (fun d1 hi hp o d2 ho hr => by
    obtain ⟨d2', hr', hs', _, _, hfr, _⟩ := V.ops.dropG d1 hi o ho
    rw [hr] at hr'
    cases hr'
    refine hp.of_fatAgree (K.geo d1 hi) (K.geom d1 hi) hs'.geom (fun q h1 h2 => ?_)
    have := K.before.h42
    exact hfr q (by omega) (fun hq => by have := K.extra q hq; omega))
  have hFK' : FaultKeeps (fun x => V.Inv x ∧ TvIs (tabView d.fs d.img) x)
      (fun s => ∃ q, q + 1 ≤ V.N ∧ (s = V.F (32 * q) ∨ s = V.G (32 * q))) := by
    intro d1 d2 s e r hP hl hd1 hinv hw hf2 hnd2
    refine ⟨hOK.keeps d1 d2 s e r hP hl hd1 hinv.1 hw hf2 hnd2, ?_⟩
    have hg12 : FsGeomEq d1.fs d2.fs := Geo.fsGeomEq (writeSlot_geo s e) (d := d1) hw
    exact TvIs.of_fatAgree (d := d1.disarm) (d' := d2) hinv.2 (K.geo _ hinv.1) (K.geom _ hinv.1) hg12
      (K.fat d1 d2 s e r hP hl hd1 hinv.1 hw hf2 hnd2)
  have hS' : SeekG (fun x => V.Inv x ∧ TvIs (tabView d.fs d.img) x) V.G V.N := fun dd h => hOK.seekG dd h.1
  have hacc' : ∀ dd, (V.Inv dd ∧ TvIs (tabView d.fs d.img) dd) → dd.fs.accDate = false := fun dd h => by
    rw [(K.geom dd h.1).accDate]; exact K.acc
  rw [congrArg (fun s => run (FatVerif.writeEntry s name raw) d) V.start] at hr
  unfold FatVerif.writeEntry at hr
  cases hval : Names.validateLongName name with
  | error e =>
    rw [hval] at hr
    simp only [run] at hr
    cases hr
    rw [hd] at hf'; cases hf'
  | ok u =>
    rw [hval] at hr
    simp only [hdot, Bool.false_eq_true, if_false] at hr
    rw [run_bind_ok (run_getFs d)] at hr
    have hchk := lfnChecksum_lt raw.name
    have := writeEntry_core_keeps IO' W' WG' O' hFK' (fun q hq => ⟨q, hq, Or.inl rfl⟩)
      (fun q hq => ⟨q, hq, Or.inr rfl⟩) hS' hacc' K.clean
      (lfnGenerate (Names.encodeUtf16 name.toList) (lfnChecksum raw.name))
      (fun sl hsl => lfnGenerate_slot _ _ hchk sl hsl) raw hraw (Names.encodeUtf16 name.toList) d hd ⟨V.here, rfl⟩
      (by rw [lfnGenerate_length]; exact hfit) d.fs hr hf' hnd
    exact this

end WView

section kinds
open FatVerif.Fat

/-- the root of FAT32 keeps the FAT under (faulted) writes, `update_accessed_date` off -/
theorem tvKeep_ofChain (d : Dev) (c0 : Nat) (chain : List Nat) (C : ChainDir d (FileH.new (some c0) none) c0 chain)
    (hwf : d.img.WF) (hfuel : chain.length * (d.fs.clusterSize / 32) < dirFuel d.fs) (hacc : d.fs.accDate = false) :
    TvKeep (WView.ofChain d c0 chain C hwf hfuel) d.fs := by
  have hgeo := C.geo
  have hent : (FileH.new (some c0) none).entry = none := rfl
  have W := chain_wfam (fs0 := d.fs) (f0 := FileH.new (some c0) none) (c0 := c0) (chain := chain) hent
  have hK := chainWrite_keepsFat (fs0 := d.fs) (c0 := c0) (chain := chain)
    (Inv := ChainInv d.fs (FileH.new (some c0) none) c0 chain) (FileH.new (some c0) none)
    (fun _ h => h.dir.core) (fun _ h => h.geom) (fun _ h => h.wf)
  have hF : FatBefore (ChainInv d.fs (FileH.new (some c0) none) c0 chain) d.fs
      (chain.length * (d.fs.clusterSize / 32)) (chainSrc d.fs chain) := chain_fatBefore hgeo
  refine ⟨fun dd h => ?_, fun dd h => ?_, hF, fun q hq => ?_, hacc, fun o => ?_, ?_⟩
  · exact (h : ChainInv d.fs (FileH.new (some c0) none) c0 chain dd).dir.geo
  · exact (h : ChainInv d.fs (FileH.new (some c0) none) c0 chain dd).geom
  · exact absurd hq (fun h => h)
  · show CleanFile (dirFile (FileH.new (some c0) none) chain d.fs.clusterSize o)
    intro e he
    cases he
  · intro d1 d2 st e r hP hl hd hinv hw hf2 hnd
    obtain ⟨q, hq, hst⟩ := hP
    have hq' : q + 1 ≤ chain.length * (d.fs.clusterSize / 32) := hq
    have hstE : st = chainS (FileH.new (some c0) none) chain d.fs.clusterSize (32 * q) := by
      rcases hst with h | h <;> exact h
    subst hstE
    exact writeSlot_armed chainInv_ok hF W hK W hK (32 * q) (by omega) (by omega) e hl d1 hd hinv hw hnd

/-- sub-directories keep the FAT under (faulted) writes -/
theorem tvKeep_ofSub (d : Dev) (c0 : Nat) (ed0 : DirEntryEditor) (chain : List Nat)
    (C : ChainDir d (FileH.new (some c0) (some ed0)) c0 chain) (hwf : d.img.WF)
    (hfuel : chain.length * (d.fs.clusterSize / 32) < dirFuel d.fs) (hname : ed0.data.name.length = 11)
    (hepos : (fatSliceOf d.fs).beginOff + (fatSliceOf d.fs).mirrors * (fatSliceOf d.fs).size ≤ ed0.pos)
    (hein : ed0.pos + 32 ≤ d.img.size)
    (heout : ∀ i, i < chain.length * (d.fs.clusterSize / 32) →
      chainSrc d.fs chain (32 * i) + 32 ≤ ed0.pos ∨ ed0.pos + 32 ≤ chainSrc d.fs chain (32 * i)) :
    TvKeep (WView.ofSub d c0 ed0 chain C hwf hfuel hname hepos hein heout) d.fs := by
  have hgeo := C.geo
  have WF' := sub_wfam (fs0 := d.fs) (ed0 := ed0) (c0 := c0) (chain := chain) (t0 := d.clock)
    (FileH.new (some c0) (some ed0)) (fun _ h => h.dir.core) stamped_sub0
  have WG' := sub_wfam (fs0 := d.fs) (ed0 := ed0) (c0 := c0) (chain := chain) (t0 := d.clock)
    (subW ed0 c0 d.clock) (fun _ h => h.coreW) stamped_subW
  have hKF := chainWrite_keepsFat (fs0 := d.fs) (c0 := c0) (chain := chain)
    (Inv := SubInv d.fs ed0 c0 chain d.clock) (FileH.new (some c0) (some ed0))
    (fun _ h => h.dir.core) (fun _ h => h.geom) (fun _ h => h.wf)
  have hKG := chainWrite_keepsFat (fs0 := d.fs) (c0 := c0) (chain := chain)
    (Inv := SubInv d.fs ed0 c0 chain d.clock) (subW ed0 c0 d.clock)
    (fun _ h => h.coreW) (fun _ h => h.geom) (fun _ h => h.wf)
  have hF : FatBefore (SubInv d.fs ed0 c0 chain d.clock) d.fs
      (chain.length * (d.fs.clusterSize / 32)) (chainSrc d.fs chain) := chain_fatBefore hgeo
  have hacc : d.fs.accDate = false := by
    rcases C.noacc with h | h
    · exact h
    · cases h
  have hms : (fatSliceOf d.fs).size ≤ (fatSliceOf d.fs).mirrors * (fatSliceOf d.fs).size :=
    Nat.le_mul_of_pos_left _ hgeo.mirrors_pos
  refine ⟨fun dd h => ?_, fun dd h => ?_, hF, fun q hq => ?_, hacc, fun o => ?_, ?_⟩
  · exact (h : SubInv d.fs ed0 c0 chain d.clock dd).dir.geo
  · exact (h : SubInv d.fs ed0 c0 chain d.clock dd).geom
  · have hq' : subExtra ed0 q := hq
    unfold subExtra at hq'
    omega
  · show CleanFile (dirFile (FileH.new (some c0) (some ed0)) chain d.fs.clusterSize o)
    intro e he
    exact C.clean e he
  · intro d1 d2 st e r hP hl hd hinv hw hf2 hnd
    obtain ⟨q, hq, hst⟩ := hP
    have hq' : q + 1 ≤ chain.length * (d.fs.clusterSize / 32) := hq
    rcases hst with h | h
    · have h' : st = chainS (FileH.new (some c0) (some ed0)) chain d.fs.clusterSize (32 * q) := h
      subst h'
      exact writeSlot_armed subInv_ok hF WG' hKG WF' hKF (32 * q) (by omega) (by omega) e hl d1 hd hinv hw hnd
    · have h' : st = chainS (subW ed0 c0 d.clock) chain d.fs.clusterSize (32 * q) := h
      subst h'
      exact writeSlot_armed subInv_ok hF WG' hKG WG' hKG (32 * q) (by omega) (by omega) e hl d1 hd hinv hw hnd

end kinds

theorem TvKeep.step {d0 : Dev} {st : DirStream} {V : WView d0 st} {fs0 : FsState} (K : TvKeep V fs0) {d1 : Dev}
    (hi : V.Inv d1) : TvKeep (V.step hi) fs0 :=
  ⟨K.geo, K.geom, K.before, K.extra, K.acc, K.clean, K.fat⟩

namespace WView
variable {d : Dev} {st : DirStream}

open FatVerif.Fat DirAlias in
/-- **`create_dir(name)` through a writable directory whose writes keep the FAT (`TvKeep`: cluster-chain directories)
    propagates a storage error**: neither roll-back — of the slots written by the failed `write_entry`, of the cluster
    allocated for the new directory — can fail -/
theorem createDir_fo_tv (V : WView d.disarm st) (hd : d.fault = none) (hOK : FaultOK V) (K : TvKeep V d.fs) (env : Env)
    (path name : String)
    (hsp : Names.splitPath path = (name, none)) (hdot : (name = "." || name = "..") = false)
    (hval : Names.validateLongName name = .ok ()) (hla : d.fs.lfnAlloc = true)
    (hgeo : FileSim.Geo d.fs d.img.size) (hinfo : InfoOk d.fs d.img) (hacc : d.fs.accDate = false)
    (hcs32 : d.fs.clusterSize % 32 = 0) (hcs64 : 64 ≤ d.fs.clusterSize) (hu32 : d.fs.clusterSize < 4294967296)
    (hfuelN : d.fs.clusterSize / 32 < dirFuel d.fs) (a : List Nat)
    (hchk : DirAlias.checkForExistenceL env.upper (V.slots d.img) name (some true) 70000 = .ok (.alias a))
    (c : Nat) (hfind : allocFindV (tabView d.fs d.img) d.fs.fsInfo.next d.fs.totalClusters = some c)
    (hfit : DirSlots.findFree (V.slots d.img) (Lfn.numParts (Names.encodeUtf16 name.toList).length + 1) +
      (Lfn.numParts (Names.encodeUtf16 name.toList).length + 1) ≤ V.N)
    (hkeepA : ∀ d1 d2, SameVol d.disarm d1 → d1.clock = d.clock → AllocStep d1 d2 c → V.Inv d2)
    (hslots : ∀ i, i < V.N →
      (fatSliceOf d.fs).beginOff + (fatSliceOf d.fs).mirrors * (fatSliceOf d.fs).size ≤ V.src (32 * i) ∧
      V.src (32 * i) + 32 ≤ d.img.size ∧
      (V.src (32 * i) + 32 ≤ clusterOff d.fs c ∨ clusterOff d.fs c + d.fs.clusterSize ≤ V.src (32 * i)))
    (hextra : ∀ q, V.Extra q →
      (fatSliceOf d.fs).beginOff + (fatSliceOf d.fs).mirrors * (fatSliceOf d.fs).size ≤ q ∧
      ¬ (clusterOff d.fs c ≤ q ∧ q < clusterOff d.fs c + d.fs.clusterSize))
    (fuel : Nat) {r d'} (hr : run (FatVerif.createDir env (fuel + 1) st path) d = (r, d')) :
    FaultOutcome (resErr r) d' := by
  obtain ⟨hc2, hct, _⟩ := allocFindV_some _ _ _ _ hinfo.hint hfind
  refine faultOutcome_of_X (V.createDir_foX (fun _ _ => False) hd hOK env path name hsp hdot hval hla hgeo hinfo hacc hcs32
    hcs64 hu32 hfuelN a hchk c hfind hfit hkeepA hslots hextra
    (fun d2 d3 d4 raw rw f e hf2 hg2 hsz2 hwf2 htv2 hw hfa3 hff hfree hinv2 hrawwf hslots2 hdrop => ?_) fuel hr)
  obtain ⟨hinv3, htv3⟩ := (V.step hinv2).writeEntry_keepsTv hf2 (hOK.step hinv2) (K.step hinv2) name raw hdot hrawwf
    (by
      show DirSlots.findFree (V.slots d2.img) _ + _ ≤ V.N
      rw [hslots2]; exact hfit) hw hff hdrop
  have hg3 : FsGeomEq d.fs d3.fs := K.geom d3 hinv3
  obtain ⟨d4', h4⟩ := run_freeClusterChain_ok c [c] d3 hfa3 (V.io.wf d3 hinv3) (K.geo d3 hinv3)
    (Chain.last c (fun m => by rw [htv3, htv2]; simp [updV])) (by simp)
    (fun x hx => by
      simp only [List.mem_singleton] at hx
      subst hx
      rw [hg3.totalClusters]; exact hct)
  rw [h4] at hfree
  cases (congrArg Prod.fst hfree)

end WView

end FatVerif.DirSim
