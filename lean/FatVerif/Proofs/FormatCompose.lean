import FatVerif.Proofs.FormatBasic
/-! Structural decomposition of `format_bpb` / `format_boot_sector` / the hook (no arithmetic). -/
namespace FatVerif.Format

/-! ### the type loop -/

theorem tryTypes_ok {t bps spc root fats : Nat} {l : List FatType} {L : FsLayout}
    (h : tryTypes t bps spc root fats l = .ok L) :
    ∃ ft ∈ l, ∃ res spf, L = ⟨ft, res, spf, spc⟩ ∧
      tryFsLayout t bps spc ft (determineRootDirSectors root bps ft) fats = .ok (res, spf) := by
  induction l with
  | nil => simp [tryTypes] at h
  | cons ft rest ih =>
    unfold tryTypes at h
    split at h
    · rename_i res spf heq
      cases h
      exact ⟨ft, List.mem_cons_self, res, spf, rfl, heq⟩
    · cases h
    · obtain ⟨ft', hm, r⟩ := ih h
      exact ⟨ft', List.mem_cons_of_mem _ hm, r⟩

theorem tryTypes_err {t bps spc root fats : Nat} {l : List FatType} {e : Err}
    (h : tryTypes t bps spc root fats l = .error e) :
    e = .invalidInput ∨ (e = .panic ∧ ∃ ft ∈ l,
      tryFsLayout t bps spc ft (determineRootDirSectors root bps ft) fats = .error .panic) := by
  induction l with
  | nil => simp [tryTypes] at h; exact Or.inl h.symm
  | cons ft rest ih =>
    unfold tryTypes at h
    split at h
    · cases h
    · rename_i heq
      cases h
      exact Or.inr ⟨rfl, ft, List.mem_cons_self, heq⟩
    · rcases ih h with h1 | ⟨h1, ft', hm, h2⟩
      · exact Or.inl h1
      · exact Or.inr ⟨h1, ft', List.mem_cons_of_mem _ hm, h2⟩

/-! ### `determine_fs_layout`, `format_bpb` -/

theorem determineFsLayout_ok {o : FormatOpts} {t : Nat} {L : FsLayout} (h : determineFsLayout o t = .ok L) :
    ∃ c, effectiveBpc o t = .ok c ∧ o.bps ≠ 0 ∧ c / o.bps ≤ 255 ∧ L.spc = c / o.bps ∧
      L.fatType ∈ allowedTypes o.fatType ∧
      tryFsLayout t o.bps (c / o.bps) L.fatType (determineRootDirSectors o.rootEntries o.bps L.fatType) o.fats =
        .ok (L.reserved, L.spf) := by
  unfold determineFsLayout at h
  obtain ⟨c, hc, h⟩ := bind_ok_iff.mp h
  obtain ⟨s, hs, h⟩ := bind_ok_iff.mp h
  obtain ⟨rfl, hb⟩ := chkDiv_ok.mp hs
  split at h
  · cases h
  · split at h
    · cases h
    · rename_i h255
      obtain ⟨ft, hm, res, spf, rfl, h2⟩ := tryTypes_ok h
      exact ⟨c, hc, hb, by omega, rfl, hm, h2⟩

theorem formatBpb_ok {o : FormatOpts} {t : Nat} {b : FBpb} {ft : FatType} (h : formatBpb o t = .ok (b, ft)) :
    ∃ L s16, determineFsLayout o t = .ok L ∧ spf16Of L = .ok s16 ∧ L.fatType = ft ∧ b = mkBpb o t L s16 ∧
      ∃ cl, b.totalClusters = .ok cl ∧ FatType.fromClusters cl = ft := by
  unfold formatBpb at h
  obtain ⟨L, hL, h⟩ := bind_ok_iff.mp h
  obtain ⟨s16, hs, h⟩ := bind_ok_iff.mp h
  unfold checkBpbType at h
  obtain ⟨cl, hcl, h⟩ := bind_ok_iff.mp h
  split at h
  · cases h
  · rename_i hne
    cases h
    exact ⟨L, s16, hL, hs, rfl, rfl, cl, hcl, by simpa using hne⟩

theorem spf16Of_ok {L : FsLayout} {s : Nat} (h : spf16Of L = .ok s) :
    (L.fatType = .fat32 ∧ s = 0) ∨ (L.fatType ≠ .fat32 ∧ s = L.spf ∧ L.spf ≤ 65535) := by
  unfold spf16Of at h
  split at h
  · cases h; exact Or.inl ⟨‹_›, rfl⟩
  · split at h
    · cases h; exact Or.inr ⟨‹_›, rfl, ‹_›⟩
    · cases h

theorem formatBootSector_ok {o : FormatOpts} {t : Nat} {boot : FBoot} {ft : FatType}
    (h : formatBootSector o t = .ok (boot, ft)) :
    formatBpb o t = .ok (boot.bpb, ft) ∧ boot = ⟨bootJmpFor ft, oemName, boot.bpb, bootCodeFor ft, [0x55, 0xAA]⟩ := by
  unfold formatBootSector at h
  obtain ⟨⟨b, ft'⟩, hb, h⟩ := bind_ok_iff.mp h
  cases h
  exact ⟨hb, rfl⟩

theorem formatChecked_ok {o : FormatOpts} {t : Nat} {r : FBoot × FatType} (h : formatChecked o t = .ok r) :
    formatBootSector o t = .ok r ∧ validateBoot r.1 = .ok () := by
  unfold formatChecked at h
  obtain ⟨r', hr, h⟩ := bind_ok_iff.mp h
  split at h
  · cases h; exact ⟨hr, ‹_›⟩
  · cases h
  · cases h

/-! ### every failure is a panic or `InvalidInput` -/

theorem formatChecked_err {o : FormatOpts} {t : Nat} {e : Err} (h : formatChecked o t = .error e) :
    e = .panic ∨ e = .invalidInput := by
  unfold formatChecked at h
  rcases bind_err_iff.mp h with h | ⟨r, _, h⟩
  · unfold formatBootSector at h
    rcases bind_err_iff.mp h with h | ⟨r, _, h⟩
    · unfold formatBpb at h
      rcases bind_err_iff.mp h with h | ⟨L, _, h⟩
      · unfold determineFsLayout at h
        rcases bind_err_iff.mp h with h | ⟨c, _, h⟩
        · unfold effectiveBpc at h
          split at h
          · cases h
          · unfold determineBytesPerCluster at h
            rcases bind_err_iff.mp h with h | ⟨x, _, h⟩
            · generalize Option.getD o.fatType (estimateFatType (t * o.bps)) = ft at h
              cases ft <;> simp only [rawBytesPerCluster] at h
              · cases h
              · repeat' split at h
                all_goals first | cases h | exact Or.inl (chkMul32_err.mp h).1
              · repeat' split at h
                all_goals first | cases h | exact Or.inl (chkMul32_err.mp h).1
            · unfold clampCluster at h
              split at h
              · cases h; exact Or.inl rfl
              · split at h
                · cases h
                · cases h; exact Or.inl rfl
        · rcases bind_err_iff.mp h with h | ⟨s, _, h⟩
          · exact Or.inl (chkDiv_err.mp h).1
          · split at h
            · cases h; exact Or.inr rfl
            · split at h
              · cases h; exact Or.inr rfl
              · rcases tryTypes_err h with h | ⟨h, _⟩
                · exact Or.inr h
                · exact Or.inl h
      · rcases bind_err_iff.mp h with h | ⟨s, _, h⟩
        · unfold spf16Of at h
          repeat' split at h
          all_goals first | cases h | skip
          exact Or.inr rfl
        · unfold checkBpbType at h
          rcases bind_err_iff.mp h with h | ⟨cl, _, h⟩
          · unfold FBpb.totalClusters FBpb.firstDataSector at h
            simp only [bind_err_iff, chkMul32_err, chkAdd32_err, chkSub_err, chkDiv_err] at h
            rcases h with (⟨h, _⟩ | ⟨_, _, ⟨h, _⟩ | ⟨_, _, h, _⟩⟩) | ⟨_, _, ⟨h, _⟩ | ⟨_, _, h, _⟩⟩ <;> exact Or.inl h
          · split at h
            · cases h; exact Or.inr rfl
            · cases h
    · cases h
  · split at h
    · cases h
    · cases h; exact Or.inl rfl
    · cases h; exact Or.inr rfl

end FatVerif.Format
