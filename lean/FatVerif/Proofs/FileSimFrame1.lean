import FatVerif.Props.C14sim
/-!
# FileSim / frame, part 1: where the mutating file operations write (C11 at byte level)

`MayTouch fs img f e q`: position `q` is one the operations of handle `f` may modify, in C11's vocabulary —
the status byte; a byte of a cluster of `f`'s chain; a byte of a cluster that is FREE in the decoded FAT; the window of
the FAT entry (any copy) of such a cluster; `f`'s own 32-byte slot.
`file_write_footprint`: every byte in which the image after `write` / `truncate` / `flush` / drop differs from the
image before lies in `MayTouch` — and inside the device.
-/
namespace FatVerif.FileSim
open FatVerif FatVerif.Fat

/-- inside cluster `c` -/
def InCluster (fs : FsState) (c q : Nat) : Prop := clusterOff fs c ≤ q ∧ q < clusterOff fs c + fs.clusterSize

/-- a cluster of the volume that is free in the decoded FAT of the image -/
def FreeCluster (fs : FsState) (img : Img) (c : Nat) : Prop :=
  2 ≤ c ∧ c < fs.totalClusters + 2 ∧ tabView fs img c = .free

/-- the positions `write` / `truncate` of handle `f` may modify -/
def MayTouchData (fs : FsState) (img : Img) (f : FileH) (q : Nat) : Prop :=
  q = statusOff fs ∨
  (∃ c ∈ fileChain fs img f, InCluster fs c q) ∨
  (∃ c, FreeCluster fs img c ∧ InCluster fs c q) ∨
  (∃ c, (c ∈ fileChain fs img f ∨ FreeCluster fs img c) ∧ FatEntryPos fs c q)

/-- … plus the handle's own slot (`flush` / drop) -/
def MayTouch (fs : FsState) (img : Img) (f : FileH) (e : DirEntryEditor) (q : Nat) : Prop :=
  MayTouchData fs img f q ∨ (e.pos ≤ q ∧ q < e.pos + 32)

/-- the mutating operations -/
inductive MOp where
  | write (bs : List Nat)
  | truncate
  | flush
  | drop

/-- the device after the operation -/
def MOp.devAfter (op : MOp) (f : FileH) (d : Dev) : Dev :=
  match op with
  | .write bs => (run (f.write bs) d).2
  | .truncate => (run f.truncate d).2
  | .flush => (run f.flush d).2
  | .drop => (run f.drop d).2

theorem Geo.fatEntry_in_fat {fs : FsState} {sz : Nat} (g : Geo fs sz) {c q : Nat} (hc : c < fs.totalClusters + 2)
    (h : FatEntryPos fs c q) :
    (fatSliceOf fs).beginOff ≤ q ∧ q < (fatSliceOf fs).beginOff + (fatSliceOf fs).mirrors * (fatSliceOf fs).size := by
  obtain ⟨i, hi, h1, h2⟩ := h
  have hfit := g.ents c hc
  have : (i + 1) * (fatSliceOf fs).size ≤ (fatSliceOf fs).mirrors * (fatSliceOf fs).size :=
    Nat.mul_le_mul_right _ (by omega)
  rw [Nat.succ_mul] at this
  omega

/-- everything in `MayTouch` lies inside the device -/
theorem mayTouch_in_device {fs : FsState} {img : Img} {f : FileH} {e : DirEntryEditor} (g : Geo fs img.size)
    (hrep : FileRep fs img f) (hpos : e.pos + 32 ≤ img.size) {q : Nat} (h : MayTouch fs img f e q) : q < img.size := by
  have hfd := g.fat_dev
  have hdata := g.data_dev
  have hfatdata := g.fat_data
  have hfirst : fs.firstDataSector * fs.bps ≤ clusterOff fs (fs.totalClusters + 2) := by
    unfold clusterOff; exact Nat.mul_le_mul_right _ (Nat.le_add_right _ _)
  rcases h with (hs | ⟨c, hc, h1, h2⟩ | ⟨c, ⟨hc2, hct, _⟩, h1, h2⟩ | ⟨c, hc, hp⟩) | ⟨_, h2⟩
  · have : statusOff fs < 0x42 := by unfold statusOff; split <;> decide
    have := g.status_lt
    omega
  · obtain ⟨a, b⟩ := hrep.inTab c hc
    have := g.cluster_dev a b
    omega
  · have := g.cluster_dev hc2 hct
    omega
  · have hct : c < fs.totalClusters + 2 := by
      rcases hc with hc | hc
      · exact (hrep.inTab c hc).2
      · exact hc.2.1
    have := g.fatEntry_in_fat hct hp
    omega
  · omega

/-- the count of ONE write is the machine's `writeLen`: at most what is left in the cluster -/
theorem write_count_le {f : FileH} {d : Dev} (hrep : FileRep d.fs d.img f) (bs : List Nat) {k : Nat}
    (h : ((absFile d.fs d.img f).write (fatAllocator d.fs.totalClusters d.fs.fsInfo.next)
      (tabView d.fs d.img) bs).1 = .ok k) :
    k ≤ d.fs.clusterSize - f.offset % d.fs.clusterSize := by
  rcases hrep.inv.write_refines (fatAllocator_laws d.fs.totalClusters d.fs.fsInfo.next) bs with ⟨he, _⟩ | ⟨hres, _⟩
  · rw [he] at h; cases h
  · rw [h] at hres
    have hk : k = (absFile d.fs d.img f).writeLen bs.length := Except.ok.inj hres
    rw [hk]
    show min (min bs.length (d.fs.clusterSize - f.offset % d.fs.clusterSize)) _ ≤ _
    omega

/-- `File::write`: where the image may differ afterwards -/
theorem write_footprint (f : FileH) (bs : List Nat) (d : Dev) (h : SimInv f d) (hbytes : ∀ b ∈ bs, b < 256) :
    ∀ q, (run (f.write bs) d).2.img.getByte q ≠ d.img.getByte q → MayTouchData d.fs d.img f q := by
  obtain ⟨hfa, hwf, hg, hrep, hinfo⟩ := h
  have hcsp := hg.cs_pos
  have hmod : f.offset % d.fs.clusterSize < d.fs.clusterSize := Nat.mod_lt _ hcsp
  by_cases hno : (absFile d.fs d.img f).writeLen bs.length = 0 ∨ (absFile d.fs d.img f).readCluster ≠ none
  · obtain ⟨k, f', d', hr, _, hres, _, _, _, _, _, hdiff, _⟩ :=
      write_sim_noalloc (fatAllocator d.fs.totalClusters d.fs.fsInfo.next) (tabView d.fs d.img) f bs d hfa hg hrep
        hwf hbytes hno
    rw [hr]
    intro q hne
    rcases hdiff q hne with hs | ⟨cur, hrc, h1, h2⟩
    · exact Or.inl hs
    · have hci : (fileChain d.fs d.img f)[f.offset / d.fs.clusterSize]? = some cur := by
        have := hrep.inv.readCluster_eq; rw [hrc] at this; exact this.symm
      have hk := write_count_le hrep bs hres
      exact Or.inr (Or.inl ⟨cur, List.mem_of_getElem? hci, by omega, by omega⟩)
  · have hrcn : (absFile d.fs d.img f).readCluster = none := by
      cases hc : (absFile d.fs d.img f).readCluster with
      | none => rfl
      | some c => exact absurd (Or.inr (by rw [hc]; intro e; cases e)) hno
    have hw0 : (absFile d.fs d.img f).writeLen bs.length ≠ 0 := fun h0 => hno (Or.inl h0)
    obtain ⟨_, hend⟩ := hrep.inv.readCluster_none hrcn
    have hm : f.offset % d.fs.clusterSize = 0 := by
      have : f.offset = (fileChain d.fs d.img f).length * d.fs.clusterSize := hend
      rw [this]; exact Nat.mul_mod_left _ _
    rcases write_sim_alloc f bs d hfa hg hrep hwf hinfo hbytes hrcn hw0 with
      ⟨d', hr, _, _, _, _, _, hdiff, _⟩ | ⟨k, f', d', hr, hres, _, _, _, _, ⟨c, hsome, hdiff⟩, _, _, _⟩
    · rw [hr]
      intro q hne
      exact Or.inl (hdiff q hne)
    · rw [hr]
      intro q hne
      obtain ⟨hc2, hct, hcf⟩ := allocFindV_some _ _ _ _ hinfo.hint hsome
      have hk := write_count_le hrep bs hres
      rcases hdiff q hne with hs | hfe | ⟨p, hp, hfe⟩ | ⟨h1, h2⟩
      · exact Or.inl hs
      · exact Or.inr (Or.inr (Or.inr ⟨c, Or.inr ⟨hc2, hct, hcf⟩, hfe⟩))
      · have hpm : p ∈ fileChain d.fs d.img f := by
          have hc := hrep.inv.cur
          have hc' : f.currentCluster = if f.offset = 0 then none
              else (fileChain d.fs d.img f)[(f.offset - 1) / d.fs.clusterSize]? := hc
          rw [hp] at hc'
          by_cases h0 : f.offset = 0
          · rw [if_pos h0] at hc'; cases hc'
          · rw [if_neg h0] at hc'; exact List.mem_of_getElem? hc'.symm
        exact Or.inr (Or.inr (Or.inr ⟨p, Or.inl hpm, hfe⟩))
      · exact Or.inr (Or.inr (Or.inl ⟨c, ⟨hc2, hct, hcf⟩, h1, by omega⟩))

/-- `File::truncate`: the status byte and FAT entries of clusters of the chain -/
theorem truncate_footprint (f : FileH) (d : Dev) (h : SimInv f d) :
    ∀ q, (run f.truncate d).2.img.getByte q ≠ d.img.getByte q → MayTouchData d.fs d.img f q := by
  obtain ⟨hfa, hwf, hg, hrep, hinfo⟩ := h
  obtain ⟨f', d', hr, _, _, _, _, _, hdiff, _, _, _⟩ := truncate_sim f d hfa hg hrep hwf hinfo
  rw [hr]
  intro q hne
  rcases hdiff q hne with hs | ⟨x, hx, hfe⟩
  · exact Or.inl hs
  · exact Or.inr (Or.inr (Or.inr ⟨x, Or.inl hx, hfe⟩))

/-- a cluster of the handle's chain, or a free cluster of the volume -/
def OwnOrFree (fs : FsState) (img : Img) (f : FileH) (c : Nat) : Prop :=
  c ∈ fileChain fs img f ∨ FreeCluster fs img c

/-- **the write records of `File::write`**: the status byte, entry-window records (read-modify-write, one per FAT
    copy) of clusters of the chain or of clusters that were free, and one piece of such a cluster -/
theorem write_trace (f : FileH) (bs : List Nat) (d : Dev) (h : SimInv f d) (hbytes : ∀ b ∈ bs, b < 256) :
    Trace d.fs (OwnOrFree d.fs d.img f) (OwnOrFree d.fs d.img f) d (run (f.write bs) d).2 := by
  obtain ⟨hfa, hwf, hg, hrep, hinfo⟩ := h
  by_cases hno : (absFile d.fs d.img f).writeLen bs.length = 0 ∨ (absFile d.fs d.img f).readCluster ≠ none
  · obtain ⟨k, f', d', hr, _, _, _, _, _, _, _, _, htr⟩ :=
      write_sim_noalloc (fatAllocator d.fs.totalClusters d.fs.fsInfo.next) (tabView d.fs d.img) f bs d hfa hg hrep
        hwf hbytes hno
    rw [hr]
    exact htr _ _ (fun x hx => Or.inl hx)
  · have hrcn : (absFile d.fs d.img f).readCluster = none := by
      cases hc : (absFile d.fs d.img f).readCluster with
      | none => rfl
      | some c => exact absurd (Or.inr (by rw [hc]; intro e; cases e)) hno
    have hw0 : (absFile d.fs d.img f).writeLen bs.length ≠ 0 := fun h0 => hno (Or.inl h0)
    rcases write_sim_alloc f bs d hfa hg hrep hwf hinfo hbytes hrcn hw0 with
      ⟨d', hr, _, _, _, _, _, _, htr⟩ | ⟨k, f', d', hr, _, _, _, _, _, _, _, _, htr⟩
    · rw [hr]; exact htr _ _
    · rw [hr]
      exact htr _ _ (fun x hx => Or.inl hx) (fun x h2 ht hf => ⟨Or.inr ⟨h2, ht, hf⟩, Or.inr ⟨h2, ht, hf⟩⟩)

/-- **the write records of `File::truncate`**: the status byte and entry-window records of clusters of the chain -/
theorem truncate_trace (f : FileH) (d : Dev) (h : SimInv f d) :
    Trace d.fs (OwnOrFree d.fs d.img f) (OwnOrFree d.fs d.img f) d (run f.truncate d).2 := by
  obtain ⟨hfa, hwf, hg, hrep, hinfo⟩ := h
  obtain ⟨f', d', hr, _, _, _, _, _, _, _, _, htr⟩ := truncate_sim f d hfa hg hrep hwf hinfo
  rw [hr]
  exact htr _ _ (fun x hx => Or.inl hx)

end FatVerif.FileSim
