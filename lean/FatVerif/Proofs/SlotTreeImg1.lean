import FatVerif.Props.C01sim
import FatVerif.Proofs.SlotTreeNames
import FatVerif.Proofs.SlotTreeHang
/-!
# Slot trees on a device image, part 1: `ImgTree` and one path component

`ImgTree d up t cl` — "the slot tree `t` is what the image of `d` holds":

* `cl : List String → Option Nat` gives the first cluster of the directory at a canonical path (`none`: the root, whose
  stream is `rootDirStream` — the fixed region of FAT12/16 or the chain of `root_cluster` on FAT32);
* for every directory node `.dir slots ch` of `t` (at the canonical path `cur`) and every stream that denotes it
  (`StreamFor`: the root stream, or `to_dir` of ANY directory entry with that first cluster — the entry in the parent,
  the `.` entry of the directory itself, the `..` entry of a child), the directory is readable (`DirSim.DirView`: the
  side conditions `RootReadable` / `ChainReadable` of the read simulation) and the entries the reader finds in the
  image are: the two dot entries (none in the root) followed by exactly the listed entries of `slots` (slot indices
  shifted by the dot slots); `.` carries the directory's own cluster, `..` the parent's, and the entry of a child
  directory carries the child's cluster.

`step_img`: one path component (`find_entry(name, Some(kind))` on the image, `DirView.lookup`) against the slot
tree's `stepCompS` — found / wrong kind (`InvalidInput`) / `NotFound`, dot components through the dot entries on the
image and through the tree structure in the model.  Needs of the case folding only that nothing but `.`/`..` folds
like `.`/`..` (`DotSafe`).
-/
namespace FatVerif
namespace SlotTreeImg
open Lfn DirSlots DirAlias SlotTree DirSim

/-! ## small facts -/

/-- only `.` and `..` fold like `.` and `..` -/
structure DotSafe (up : Char → List Char) : Prop where
  dot : ∀ a : List Char, Names.fold up a = Names.fold up ['.'] → a = ['.']
  dotdot : ∀ a : List Char, Names.fold up a = Names.fold up ['.', '.'] → a = ['.', '.']

theorem UpperSafe.dotSafe {up : Char → List Char} (h : UpperSafe up) : DotSafe up := ⟨h.dot, h.dotdot⟩

def dotRaw : List Nat := 46 :: List.replicate 10 32
def dotDotRaw : List Nat := 46 :: 46 :: List.replicate 9 32

/-- a listed entry moved by `k` slots (the dot slots in front of a subdirectory's entries) -/
def shiftE (k : Nat) (e : LfnEntry) : LfnEntry := { e with beginIdx := e.beginIdx + k, endIdx := e.endIdx + k }

theorem matches_shift (up : Char → List Char) (k : Nat) (e : LfnEntry) (q : List Char) :
    matchesName up (shiftE k e) q = matchesName up e q := rfl

/-- a short-only entry with raw name `raw` answers exactly to the names that fold like the display form of `raw` -/
theorem matches_short (up : Char → List Char) (e : LfnEntry) (hu : e.units = []) (q : List Char) :
    matchesName up e q = (Names.fold up (Names.aliasDisplay (sfnName e.sfn)) == Names.fold up q) := by
  unfold matchesName Names.eqName Names.eqNameLfn Names.eqIgnoreCase
  rw [hu]; simp

theorem display_dot : Names.aliasDisplay dotRaw = ['.'] := by decide
theorem display_dotdot : Names.aliasDisplay dotDotRaw = ['.', '.'] := by decide

theorem FailsV.thenDrop {α} {st : DirStream} {body : Prog α} {d : Dev} {e : Err} (h : FailsV body d e)
    (hne : e ≠ .hang) (hd : ∀ d1, SameVol d d1 → Reads st.dropBody d1 ()) : FailsV (thenDrop st body) d e := by
  obtain ⟨d1, hr, hs⟩ := h
  have hs1 : SameVol d { d1 with dropDepth := d1.dropDepth + 1 } := ⟨hs.img, hs.fs, hs.failAt, hs.writesOf⟩
  obtain ⟨d2, hr2, hs2⟩ := hd _ hs1
  refine ⟨{ d2 with dropDepth := d2.dropDepth - 1 }, ?_, ?_⟩
  · unfold FatVerif.thenDrop
    simp only [run, hr, hne, if_false, hr2]
  · have := hs1.trans hs2
    exact ⟨this.img, this.fs, this.failAt, this.writesOf⟩

/-! ## `lookupL` -/

theorem lookupL_append_nomatch (up : Char → List Char) (q : List Char) (kd : Option Bool) :
    ∀ (a b : List LfnEntry), (∀ e ∈ a, matchesName up e q = false) → lookupL up q kd (a ++ b) = lookupL up q kd b
  | [], _, _ => rfl
  | x :: a, b, h => by
    simp only [List.cons_append, lookupL, h x (by simp), Bool.false_eq_true, if_false]
    exact lookupL_append_nomatch up q kd a b (fun e he => h e (by simp [he]))

theorem lookupL_shift (up : Char → List Char) (q : List Char) (kd : Option Bool) (k : Nat) :
    ∀ (l : List LfnEntry), lookupL up q kd (l.map (shiftE k)) = (lookupL up q kd l).map (shiftE k)
  | [] => rfl
  | x :: l => by
    have ih := lookupL_shift up q kd k l
    have hmm : matchesName up (shiftE k x) q = matchesName up x q := rfl
    simp only [List.map_cons, lookupL]
    by_cases hm : matchesName up x q = true
    · rw [if_pos (hmm ▸ hm), if_pos hm]
      show (if (kd.isSome && some (Lfn.isDir x.sfn) != kd) = true then _ else _) = _
      split <;> rfl
    · rw [if_neg (by rw [hmm]; exact hm), if_neg hm]
      exact ih

/-- the lookup with kind filter, in terms of the first entry answering to the name -/
theorem lookupL_find (up : Char → List Char) (q : List Char) (k : Bool) :
    ∀ (l : List LfnEntry), lookupL up q (some k) l =
      match l.find? (fun e => matchesName up e q) with
      | none => .error .notFound
      | some e => if Lfn.isDir e.sfn = k then .ok e else .error .invalidInput
  | [] => rfl
  | x :: l => by
    simp only [lookupL, List.find?_cons]
    cases hm : matchesName up x q with
    | true =>
      simp only [if_true, Option.isSome_some, Bool.true_and]
      by_cases hk : Lfn.isDir x.sfn = k
      · simp [hk]
      · simp [hk]
    | false =>
      simp only [Bool.false_eq_true, if_false]
      exact lookupL_find up q k l

/-! ## the hypothesis bundle -/

/-- the streams that denote the directory whose first cluster is `c` (`none`: the root) -/
def StreamFor (fs : FsState) (c : Option Nat) (st : DirStream) : Prop :=
  (c = none ∧ st = rootDirStream fs) ∨
  ∃ e : DirEntry, e.isDir = true ∧ e.firstCluster fs = c ∧ st = DirEntry.dirStream fs e

/-- the two dot entries of the subdirectory at `cur`, as the reader finds them -/
structure DotsOk (fs : FsState) (src : Nat → Nat) (cl : List String → Option Nat) (cur : List String)
    (e1 e2 : LfnEntry) : Prop where
  units1 : e1.units = []
  raw1 : sfnName e1.sfn = dotRaw
  dir1 : Lfn.isDir e1.sfn = true
  own : (toDirEntryS src e1).firstCluster fs = cl cur
  units2 : e2.units = []
  raw2 : sfnName e2.sfn = dotDotRaw
  dir2 : Lfn.isDir e2.sfn = true
  parent : (toDirEntryS src e2).firstCluster fs = cl cur.dropLast

/-- the directory node `.dir slots ch` at the canonical path `cur`, read through the stream `st` -/
structure DirImgV (d : Dev) (cl : List String → Option Nat) (cur : List String) (slots : List (List Nat))
    (ch : List (LfnEntry × Node)) {st : DirStream} (V : DirView d st) (dots : List LfnEntry) (k : Nat) : Prop where
  entries : V.lfnEntries = dots ++ (listing slots).map (shiftE k)
  rootDots : cur = [] → dots = []
  subDots : cur ≠ [] → ∃ e1 e2, dots = [e1, e2] ∧ DotsOk d.fs V.src cl cur e1 e2
  child : ∀ x ∈ ch, x.2.isDir = true →
    (toDirEntryS V.src (shiftE k x.1)).firstCluster d.fs = cl (cur ++ [entryName x.1])

def DirImg (d : Dev) (cl : List String → Option Nat) (cur : List String) (slots : List (List Nat))
    (ch : List (LfnEntry × Node)) (st : DirStream) : Prop :=
  ∃ (V : DirView d st) (dots : List LfnEntry) (k : Nat), DirImgV d cl cur slots ch V dots k

/-- **the slot tree `t` is what the image of `d` holds** (see the header) -/
structure ImgTree (d : Dev) (up : Char → List Char) (t : Node) (cl : List String → Option Nat) : Prop where
  root : cl [] = none
  dirs : ∀ cur slots ch, getAtS up t cur = some (.dir slots ch) → ∀ st, StreamFor d.fs (cl cur) st →
    DirImg d cl cur slots ch st

/-- the stream `st` denotes the directory of `t` at the canonical path `cur` -/
def Den (d : Dev) (up : Char → List Char) (t : Node) (cl : List String → Option Nat) (cur : List String)
    (st : DirStream) : Prop :=
  (∃ slots ch, getAtS up t cur = some (.dir slots ch)) ∧ StreamFor d.fs (cl cur) st

theorem den_root {d : Dev} {up : Char → List Char} {t : Node} {cl : List String → Option Nat}
    (I : ImgTree d up t cl) (s : List (List Nat)) (c : List (LfnEntry × Node)) (ht : t = .dir s c) :
    Den d up t cl [] (rootDirStream d.fs) :=
  ⟨⟨s, c, by rw [ht]; rfl⟩, Or.inl ⟨I.root, rfl⟩⟩

/-! ## one component -/

theorem string_eq_of_toList {a b : String} (h : a.toList = b.toList) : a = b := by
  rw [← String.ofList_toList (s := a), ← String.ofList_toList (s := b), h]

theorem beq_dot_false {name : String} (h : name.toList ≠ ['.']) : (name == ".") = false := by
  rw [beq_eq_false_iff_ne]
  intro h'; apply h; rw [h']; rfl

theorem beq_dotdot_false {name : String} (h : name.toList ≠ ['.', '.']) : (name == "..") = false := by
  rw [beq_eq_false_iff_ne]
  intro h'; apply h; rw [h']; rfl

section step
variable {d : Dev} {up : Char → List Char} {t : Node} {cl : List String → Option Nat}

/-- the result of one component on the image, for the slot tree's verdict `r` and the kind filter `k` -/
def StepRel (d : Dev) (up : Char → List Char) (t : Node) (cl : List String → Option Nat) (env : Env) {st : DirStream}
    (V : DirView d st) (name : String) (k : Bool) : Except Err (List String × Node) → Prop
  | .error e => e = .notFound ∧ V.lookup env name (some k) = .error .notFound
  | .ok (p, n) =>
    if n.isDir = k then
      ∃ de, V.lookup env name (some k) = .ok de ∧ de.isDir = k ∧ getAtS up t p = some n ∧
        (k = true → StreamFor d.fs (cl p) (DirEntry.dirStream d.fs de))
    else V.lookup env name (some k) = .error .invalidInput

theorem step_img (I : ImgTree d up t cl) (hwf : TreeWf up t) (hup : DotSafe up) (env : Env) (henv : env.upper = up)
    (cur : List String) (st : DirStream) (hden : Den d up t cl cur st) (name : String) (k : Bool) :
    ∃ V : DirView d st, StepRel d up t cl env V name k (stepCompS up t cur name) := by
  obtain ⟨⟨slots, ch, hg⟩, hs⟩ := hden
  obtain ⟨V, dots, kk, hI⟩ := I.dirs cur slots ch hg st hs
  refine ⟨V, ?_⟩
  have hd : DirOk up slots ch := ((all_dir _ slots ch).1 (all_getAtS _ cur t _ hwf hg)).1
  have hlk : V.lookup env name (some k) =
      (lookupL up name.toList (some k) (dots ++ (listing slots).map (shiftE kk))).map (toDirEntryS V.src) := by
    unfold DirView.lookup; rw [henv, hI.entries]
  have hok : ∀ e ∈ V.lfnEntries, SlotOK e.sfn := fun e he => srcEntries_slotOK _ _ _ _ _ e he
  unfold stepCompS
  rw [hg]
  simp only
  -- the component is `.` / `..` below the root: through the dot entries
  by_cases hroot : cur = []
  · -- in the root: no dot entries, the name is looked up like any other
    have hce : cur.isEmpty = true := by rw [hroot]; rfl
    simp only [hce, Bool.not_true, Bool.and_false, Bool.false_eq_true, if_false]
    rw [hI.rootDots hroot, List.nil_append, lookupL_shift, lookupL_find] at hlk
    unfold lookupS
    have hfe : DirSlots.findEntry up slots name.toList = (listing slots).find? (fun e => matchesName up e name.toList) := rfl
    rw [hfe]
    cases hf : (listing slots).find? (fun e => matchesName up e name.toList) with
    | none =>
      rw [hf] at hlk
      exact ⟨rfl, by rw [hlk]; rfl⟩
    | some e =>
      rw [hf] at hlk
      dsimp only at hlk
      have hfe' : DirSlots.findEntry up slots name.toList = some e := by rw [hfe, hf]
      obtain ⟨c, hl, hmem⟩ := lookupS_of_find hd hfe'
      have hfind : ch.find? (fun x => x.1 == e) = some (e, c) := by
        have := hl; unfold lookupS at this; rw [hfe'] at this; exact this
      simp only [hfind]
      have hkind : c.isDir = Lfn.isDir e.sfn := (hd.kind _ hmem).symm
      have hel : shiftE kk e ∈ V.lfnEntries := by
        rw [hI.entries, hI.rootDots hroot]
        exact List.mem_map.2 ⟨e, List.mem_of_find?_eq_some hf, rfl⟩
      unfold StepRel
      simp only
      by_cases hk : c.isDir = k
      · rw [if_pos hk]
        rw [if_pos (by rw [← hkind]; exact hk)] at hlk
        refine ⟨toDirEntryS V.src (shiftE kk e), by rw [hlk]; rfl, ?_, ?_, ?_⟩
        · rw [toDirEntryS_isDir V.src _ (hok _ hel)]; show Lfn.isDir e.sfn = k; exact hkind ▸ hk
        · rw [getAtS_append, hg]
          simp only [Option.bind, getAtS]
          rw [lookupS_self hd hmem]
        · intro hkt
          refine Or.inr ⟨_, ?_, hI.child (e, c) hmem (by rw [hk, hkt]), rfl⟩
          rw [toDirEntryS_isDir V.src _ (hok _ hel)]; show Lfn.isDir e.sfn = true; rw [← hkind, hk, hkt]
      · rw [if_neg hk]
        rw [if_neg (by rw [← hkind]; exact hk)] at hlk
        rw [hlk]; rfl
  · have hce : cur.isEmpty = false := by simpa using hroot
    obtain ⟨e1, e2, hdots, hD⟩ := hI.subDots hroot
    have hm1 : ∀ q, matchesName up e1 q = (Names.fold up ['.'] == Names.fold up q) := by
      intro q; rw [matches_short up e1 hD.units1, hD.raw1, display_dot]
    have hm2 : ∀ q, matchesName up e2 q = (Names.fold up ['.', '.'] == Names.fold up q) := by
      intro q; rw [matches_short up e2 hD.units2, hD.raw2, display_dotdot]
    have he1 : e1 ∈ V.lfnEntries := by rw [hI.entries, hdots]; simp
    have he2 : e2 ∈ V.lfnEntries := by rw [hI.entries, hdots]; simp
    simp only [hce, Bool.not_false, Bool.and_true]
    by_cases h1 : name.toList = ['.']
    · -- `.`
      have hn : name = "." := string_eq_of_toList (by rw [h1]; rfl)
      have hbn : (name == ".") = true := by rw [hn]; rfl
      simp only [hbn, if_true]
      rw [hdots] at hlk
      simp only [List.cons_append, lookupL, hm1, h1, beq_self_eq_true, if_true, Option.isSome_some, Bool.true_and] at hlk
      unfold StepRel
      simp only [Node.isDir]
      cases k with
      | true =>
        simp only [if_true]
        rw [hD.dir1] at hlk
        simp only [bne_self_eq_false, Bool.false_eq_true, if_false] at hlk
        refine ⟨toDirEntryS V.src e1, by rw [hlk]; rfl, ?_, hg, fun _ => Or.inr ⟨_, ?_, hD.own, rfl⟩⟩
        · rw [toDirEntryS_isDir V.src _ (hok _ he1)]; exact hD.dir1
        · rw [toDirEntryS_isDir V.src _ (hok _ he1)]; exact hD.dir1
      | false =>
        simp only [Bool.true_eq_false, if_false]
        rw [hD.dir1] at hlk
        rw [hlk]; rfl
    · have hb1 : (name == ".") = false := beq_dot_false h1
      have hnm1 : matchesName up e1 name.toList = false := by
        rw [hm1]
        cases hx : (Names.fold up ['.'] == Names.fold up name.toList) with
        | false => rfl
        | true => exact absurd (hup.dot _ (beq_iff_eq.1 hx).symm) h1
      simp only [hb1, Bool.false_eq_true, if_false]
      by_cases h2 : name.toList = ['.', '.']
      · -- `..`
        have hn : name = ".." := string_eq_of_toList (by rw [h2]; rfl)
        have hbn : (name == "..") = true := by rw [hn]; rfl
        simp only [hbn, if_true]
        obtain ⟨ps, pc, hp⟩ := getAtS_dropLast_dir t cur _ hroot hg
        rw [hp]
        simp only
        rw [hdots] at hlk
        simp only [List.cons_append, lookupL, hnm1, Bool.false_eq_true, if_false] at hlk
        simp only [hm2, h2, beq_self_eq_true, if_true, Option.isSome_some, Bool.true_and] at hlk
        unfold StepRel
        simp only [Node.isDir]
        cases k with
        | true =>
          simp only [if_true]
          rw [hD.dir2] at hlk
          simp only [bne_self_eq_false, Bool.false_eq_true, if_false] at hlk
          refine ⟨toDirEntryS V.src e2, by rw [hlk]; rfl, ?_, hp, fun _ => Or.inr ⟨_, ?_, hD.parent, rfl⟩⟩
          · rw [toDirEntryS_isDir V.src _ (hok _ he2)]; exact hD.dir2
          · rw [toDirEntryS_isDir V.src _ (hok _ he2)]; exact hD.dir2
        | false =>
          simp only [Bool.true_eq_false, if_false]
          rw [hD.dir2] at hlk
          rw [hlk]; rfl
      · -- an ordinary component
        have hb2 : (name == "..") = false := beq_dotdot_false h2
        have hnm2 : matchesName up e2 name.toList = false := by
          rw [hm2]
          cases hx : (Names.fold up ['.', '.'] == Names.fold up name.toList) with
          | false => rfl
          | true => exact absurd (hup.dotdot _ (beq_iff_eq.1 hx).symm) h2
        simp only [hb2, Bool.false_eq_true, if_false]
        rw [hdots, lookupL_append_nomatch up _ _ [e1, e2] _ (by
          intro e he
          simp only [List.mem_cons, List.not_mem_nil, or_false] at he
          rcases he with rfl | rfl
          · exact hnm1
          · exact hnm2), lookupL_shift, lookupL_find] at hlk
        unfold lookupS
        have hfe : DirSlots.findEntry up slots name.toList = (listing slots).find? (fun e => matchesName up e name.toList) := rfl
        rw [hfe]
        cases hf : (listing slots).find? (fun e => matchesName up e name.toList) with
        | none =>
          rw [hf] at hlk
          exact ⟨rfl, by rw [hlk]; rfl⟩
        | some e =>
          rw [hf] at hlk
          dsimp only at hlk
          have hfe' : DirSlots.findEntry up slots name.toList = some e := by rw [hfe, hf]
          obtain ⟨c, hl, hmem⟩ := lookupS_of_find hd hfe'
          have hfind : ch.find? (fun x => x.1 == e) = some (e, c) := by
            have := hl; unfold lookupS at this; rw [hfe'] at this; exact this
          simp only [hfind]
          have hkind : c.isDir = Lfn.isDir e.sfn := (hd.kind _ hmem).symm
          have hel : shiftE kk e ∈ V.lfnEntries := by
            rw [hI.entries]
            exact List.mem_append.2 (Or.inr (List.mem_map.2 ⟨e, List.mem_of_find?_eq_some hf, rfl⟩))
          unfold StepRel
          simp only
          by_cases hk : c.isDir = k
          · rw [if_pos hk]
            rw [if_pos (by rw [← hkind]; exact hk)] at hlk
            refine ⟨toDirEntryS V.src (shiftE kk e), by rw [hlk]; rfl, ?_, ?_, ?_⟩
            · rw [toDirEntryS_isDir V.src _ (hok _ hel)]; show Lfn.isDir e.sfn = k; exact hkind ▸ hk
            · rw [getAtS_append, hg]
              simp only [Option.bind, getAtS]
              rw [lookupS_self hd hmem]
            · intro hkt
              refine Or.inr ⟨_, ?_, hI.child (e, c) hmem (by rw [hk, hkt]), rfl⟩
              rw [toDirEntryS_isDir V.src _ (hok _ hel)]; show Lfn.isDir e.sfn = true; rw [← hkind, hk, hkt]
          · rw [if_neg hk]
            rw [if_neg (by rw [← hkind]; exact hk)] at hlk
            rw [hlk]; rfl

end step

end SlotTreeImg
end FatVerif
