import FatVerif.Proofs.SlotTreeImg5
/-!
# Slot trees on a device image, part 6: `create_file` on a path of any depth whose last directory is the root
-/
namespace FatVerif
namespace SlotTreeImg
open Lfn DirSlots DirAlias SlotTree DirSim FatVerif.FileSim FatVerif.Fat

theorem rootDirStream_geom {a b : FsState} (h : FsGeomEq a b) : rootDirStream b = rootDirStream a := by
  rw [h]; rfl

theorem dirStream_geom {a b : FsState} (h : FsGeomEq a b) (e : DirEntry) :
    DirEntry.dirStream b e = DirEntry.dirStream a e := by
  unfold DirEntry.dirStream
  rw [firstCluster_geom h, rootDirStream_geom h]

theorem streamFor_geom {a b : FsState} (h : FsGeomEq a b) {c : Option Nat} {st : DirStream}
    (hs : StreamFor a c st) : StreamFor b c st := by
  rcases hs with ⟨h1, h2⟩ | ⟨e, h1, h2, h3⟩
  · exact Or.inl ⟨h1, by rw [rootDirStream_geom h]; exact h2⟩
  · exact Or.inr ⟨e, h1, by rw [firstCluster_geom h]; exact h2, by rw [dirStream_geom h]; exact h3⟩

/-- the tree `createS` leaves at the root is the old one or the old one with one file entry added in the root -/
theorem cfFinal_tree_cases {up : Char → List Char} {slots : List (List Nat)} {ch : List (LfnEntry × Node)}
    (name : String) (stamp : List Nat) :
    (cfFinal up (.dir slots ch) [] name stamp).tree = .dir slots ch ∨
    ∃ al, checkForExistenceL up slots name (some false) 70000 = .ok (.alias al) ∧
      Names.validateLongName name = .ok () ∧
      (cfFinal up (.dir slots ch) [] name stamp).tree =
        addEntry (Names.encodeUtf16 name.toList) (sfnWith al (newBody false stamp)) (freshNode false) (.dir slots ch) := by
  unfold cfFinal
  simp only [getAtS]
  cases isDotName name with
  | true => left; rfl
  | false =>
    simp only [Bool.false_eq_true, if_false]
    unfold createFinal
    cases hc : checkForExistenceL up slots name (some false) 70000 with
    | error e => left; rfl
    | ok r =>
      cases r with
      | entry e => left; rfl
      | alias al =>
        simp only
        split
        · left; rfl
        · cases hv : Names.validateLongName name with
          | error e => left; rfl
          | ok u => cases u; right; exact ⟨al, rfl, rfl, rfl⟩

/-- the directories of the old tree are directories of the new one -/
theorem cfFinal_keeps_dirs {up : Char → List Char} {slots : List (List Nat)} {ch : List (LfnEntry × Node)}
    (hwf : TreeWf up (.dir slots ch)) (name : String) (stamp : List Nat) (p : List String)
    (h : ∃ s c, getAtS up (.dir slots ch) p = some (.dir s c)) :
    ∃ s c, getAtS up (cfFinal up (.dir slots ch) [] name stamp).tree p = some (.dir s c) := by
  rcases cfFinal_tree_cases (up := up) (slots := slots) (ch := ch) name stamp with h0 | ⟨al, hal, hval, h1⟩
  · rw [h0]; exact h
  · rw [h1]
    have hnb : newBody false stamp = 0 :: stamp := rfl
    rw [hnb]
    have hd : DirOk up slots ch := ((all_dir _ slots ch).1 hwf).1
    have hlen := C16dir.dir_alias_length _ _ _ _ _ _ hal
    obtain ⟨_, c1, c2, c3, c4, c5, _, _, _⟩ :=
      C16dir.dir_create_hyps up slots name (some false) 70000 al 0 stamp hval (by decide) hal
    have hwf' := C16dir.dir_create_wf up slots name (some false) 70000 al 0 stamp hd.wf hval (by decide) hal
    have hkindF : Lfn.isDir (sfnWith al (0 :: stamp)) = (freshNode false).isDir := by
      rw [← hnb, isDir_newBody al false _ hlen, fresh_isDir]
    obtain ⟨hd', hsub, _, _⟩ := addEntry_dirOk hd (Names.encodeUtf16 name.toList) (sfnWith al (0 :: stamp))
      (freshNode false) hwf' c1 c2 c3 c4 c5 hkindF
    rw [addEntry_dir hd.wf.shape _ _ _ ch c1 c2 c3 c4 c5]
    obtain ⟨s, c, hg⟩ := h
    cases p with
    | nil => exact ⟨_, _, rfl⟩
    | cons q r =>
      simp only [getAtS] at hg ⊢
      cases hl : lookupS up slots ch q with
      | none => rw [hl] at hg; cases hg
      | some x =>
        rw [hl] at hg
        rw [lookupS_addEntry hd _ _ _ hd' hsub q x hl]
        exact ⟨s, c, hg⟩

section top
variable {d : Dev} {up : Char → List Char} {t : Node} {cl : List String → Option Nat}

theorem den_is_dir (h : ∃ s c, getAtS up t ([] : List String) = some (.dir s c)) : ∃ s c, t = .dir s c := by
  obtain ⟨s, c, hg⟩ := h
  exact ⟨s, c, by simpa [getAtS] using hg⟩

theorem root_of_den {cur : List String} {st : DirStream} (h : Den d up t cl cur st) : ∃ s c, t = .dir s c := by
  obtain ⟨⟨s, c, hg⟩, _⟩ := h
  cases t with
  | dir s' c' => exact ⟨s', c', rfl⟩
  | file b =>
    obtain ⟨_, h2⟩ := getAtS_file b cur _ hg
    cases h2

/-- **`create_file` at byte level, last directory = the fixed root** (any path, any depth: `a/../x`, `./x`, `x`).
    `hlast`: the walk of the directory components, when it succeeds, ends in the root; `hroom`: the new entry fits
    into the root region; `hnh`: the model's fuel for the alias loop sufficed.  The program ends as `createS` says;
    on success the new image holds the new slot tree. -/
theorem create_file_root_img (W : ImgTreeW d up t cl) (hwf : TreeWf up t) (hup : DotSafe up) (env : Env)
    (henv : env.upper = up) (cwd : List String) (st : DirStream) (hden : Den d up t cl cwd st) (path : String)
    (fuel : Nat) (hfuel : path.toList.length < fuel)
    (hlast : ∀ p, walkDirsS up t cwd (pathParts path).1 = .ok p → p = [])
    (hroom : ∀ slots ch, t = .dir slots ch → HasRoomRoot d slots (pathParts path).2)
    (hnh : (createS up 70000 t cwd path false (sfnStamp d.fs d.clock none)).out ≠ .error .hang) :
    (∀ e, (createS up 70000 t cwd path false (sfnStamp d.fs d.clock none)).out = .error e →
      FailsV (createFile env fuel st path) d e) ∧
    (∀ rows, (createS up 70000 t cwd path false (sfnStamp d.fs d.clock none)).out = .ok rows →
      ∃ (h : FileH) (d' : Dev), run (createFile env fuel st path) d = (.ok h, d') ∧ VolStep d d' ∧
        ImgTreeW d' up (createS up 70000 t cwd path false (sfnStamp d.fs d.clock none)).tree cl) := by
  obtain ⟨slots, ch, rfl⟩ := root_of_den hden
  have I := W.toImgTree
  let stamp := sfnStamp d.fs d.clock none
  let L := (pathParts path).2
  let T' := (cfFinal up (.dir slots ch) [] L stamp).tree
  have hpp : pathParts path = splitAll path.toList.length path.toList := rfl
  have M := mut_walk I hwf hup env henv (createFile env) (createFile_unfold_step env)
    (fun (_ : FileH) d' => VolStep d d' ∧ ImgTreeW d' up T' cl)
    (fun _ d1 d2 hp hs => ⟨hp.1.trans (VolStep.of_sameVol hs), hp.2.of_sameVol hs⟩)
    (fun _ d' p sub hp hdn => by
      have hden' : Den d' up T' cl p sub :=
        ⟨cfFinal_keeps_dirs hwf L stamp p hdn.1, streamFor_geom hp.1.geom hdn.2⟩
      obtain ⟨V'⟩ := den_view hp.2.toImgTree hden'
      exact V'.drop_sim d' (SameVol.refl d'))
    (fun p => p = []) (fun p l => outErr (cfFinal up (.dir slots ch) p l stamp)) L
    (fun cur st' hgood hden' f chars a hsp hL d4 hv4 hc4 => by
      subst hgood
      have hst := den_root_stream W hden'
      subst hst
      have h0 := createFile_root_final W hwf env henv f chars a hsp (by rw [hL]; exact hroom slots ch rfl) d4 hv4 hc4
      rw [hL] at h0
      show MOut _ _ d4 (outErr (cfFinal up (.dir slots ch) [] (String.ofList a) stamp))
      rw [hL]
      exact h0)
    path.toList.length path.toList (Nat.le_refl _) fuel hfuel cwd st hden (by rw [← hpp]; exact hlast)
  rw [String.ofList_toList, ← hpp] at M
  have hS := createS_file_eq up (.dir slots ch) cwd path stamp
  have hverd : mverdict up (.dir slots ch) (fun p l => outErr (cfFinal up (.dir slots ch) p l stamp)) cwd (pathParts path) =
      outErr (createS up 70000 (.dir slots ch) cwd path false stamp) := by
    rw [hS]
    unfold mverdict
    cases walkDirsS up (.dir slots ch) cwd (pathParts path).1 <;> rfl
  have M' := M (by
      intro e he
      rw [hverd] at he
      intro hh
      apply hnh
      unfold outErr at he
      cases ho : (createS up 70000 (.dir slots ch) cwd path false stamp).out with
      | ok r => rw [ho] at he; cases he
      | error e' =>
        rw [ho] at he
        simp only [Option.some.injEq] at he
        rw [he, hh]) rfl d (SameVol.refl d) rfl
  rw [hverd] at M'
  constructor
  · intro e he
    unfold outErr at M'
    rw [he] at M'
    exact M'
  · intro rows hr
    unfold outErr at M'
    rw [hr] at M'
    obtain ⟨h, d', hrun, hvs, hW⟩ := M'
    refine ⟨h, d', hrun, hvs, ?_⟩
    -- the walk succeeded and ended in the root: the tree is that of `cfFinal` at the root
    have htree : (createS up 70000 (.dir slots ch) cwd path false stamp).tree = T' := by
      rw [hS]
      cases hw : walkDirsS up (.dir slots ch) cwd (pathParts path).1 with
      | error e =>
        rw [hS, hw] at hr
        cases hr
      | ok p =>
        have := hlast p hw
        subst this
        rfl
    rw [htree]
    exact hW

end top

end SlotTreeImg
end FatVerif
