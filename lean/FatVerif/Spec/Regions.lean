import FatVerif.Spec.Fsck
/-! Region / ownership classification of device byte ranges, for property C11.

    * `classify g off len` — the pieces of `[off, off+len)` by region of the volume layout;
    * `ownerMap g img` — cluster ↦ owning object (path) in an image;
    * `allowedWrite g preImg touched off len` — `some message` iff a write of that range is NOT one the operation
      may perform, judged against the image BEFORE the operation. -/
namespace FatVerif.Spec

inductive Region where
  /-- the one byte at 0x25 (FAT12/16) / 0x41 (FAT32) of sector 0 -/
  | bootStatusByte
  | bootOther
  /-- the FAT32 FS-information sector -/
  | fsInfo
  /-- the FAT32 backup boot sector (`BPB_BkBootSec`) -/
  | backupBoot
  | reservedOther
  | fat (copy : Nat)
  /-- fixed root directory region of FAT12/16 (whole sectors) -/
  | rootDir
  | cluster (c : Nat)
  /-- at or after the end of the last cluster (slack sectors included) or of the declared volume -/
  | beyondVolume
  deriving DecidableEq, Repr, Inhabited

def Region.name : Region → String
  | .bootStatusByte => "bootStatusByte" | .bootOther => "bootOther" | .fsInfo => "fsInfo"
  | .backupBoot => "backupBoot" | .reservedOther => "reservedOther" | .fat c => s!"fat{c}"
  | .rootDir => "rootDir" | .cluster c => s!"cluster{c}" | .beyondVolume => "beyondVolume"

/-- region of the byte at `off` and the end (exclusive) of the maximal piece of that region that contains it;
    `none` as end = unbounded -/
def regionAt (g : Geom) (off : Nat) : Region × Option Nat :=
  let bps := g.bps
  if off < g.fatStart then
    -- reserved area
    let sec := off / bps
    let secEnd := (sec + 1) * bps
    if sec = 0 then
      if off = g.statusByteOffset then (.bootStatusByte, some (off + 1))
      else if off < g.statusByteOffset then (.bootOther, some g.statusByteOffset)
      else (.bootOther, some secEnd)
    else if g.fatBits = 32 ∧ g.fsInfoSector ≠ 0 ∧ sec = g.fsInfoSector then (.fsInfo, some secEnd)
    else if g.fatBits = 32 ∧ g.backupSector ≠ 0 ∧ sec = g.backupSector then (.backupBoot, some secEnd)
    else (.reservedOther, some secEnd)
  else if off < g.rootStart then
    let copy := (off - g.fatStart) / g.fatSizeBytes
    (.fat copy, some (g.fatCopyStart (copy + 1)))
  else if off < g.dataStart then (.rootDir, some g.dataStart)
  else if off < g.dataEnd ∧ off < g.volumeBytes then
    let c := (off - g.dataStart) / g.clusterSize + 2
    (.cluster c, some (min (g.clusterOff (c + 1)) g.volumeBytes))
  else (.beyondVolume, none)

def classifyLoop (g : Geom) : (fuel : Nat) → (off stop : Nat) → Array (Region × Nat × Nat) → Array (Region × Nat × Nat)
  | 0, _, _, acc => acc
  | fuel + 1, off, stop, acc =>
    if off ≥ stop then acc else
    let (r, e) := regionAt g off
    let e' := match e with
      | some e => if e ≤ off then stop else min e stop
      | none => stop
    classifyLoop g fuel e' stop (acc.push (r, off, e' - off))

/-- the pieces `(region, offset, length)` of `[off, off+len)`, in order; adjacent pieces differ in region
    (clusters and FAT copies count as different regions) -/
def classify (g : Geom) (off len : Nat) : List (Region × Nat × Nat) :=
  (classifyLoop g (len + 1) off (off + len) #[]).toList

/-! ## Ownership -/

inductive Owner where
  | free
  | bad
  /-- allocated in the FAT but not reachable from any directory entry -/
  | lost
  /-- `/`-joined path with a leading `/` (the FAT32 root directory is `/`) -/
  | owned (path : String) (isDir : Bool)
  deriving DecidableEq, Repr, Inhabited

/-- cluster ↦ owner for every cluster that is reachable from a live directory entry (or is part of the FAT32
    root chain). Clusters absent from the map are free, bad or lost: see `ownerOf`. -/
def ownerMap (g : Geom) (img : Img) (upper : Char → List Char := asciiUpper) : Std.HashMap Nat Owner :=
  let st := walkTree upper g img
  st.owner.fold (fun m c id =>
    let o := st.owners.getD id default
    m.insert c (.owned o.path o.isDir)) {}

def ownerOf (g : Geom) (img : Img) (m : Std.HashMap Nat Owner) (c : Nat) : Owner :=
  match m[c]? with
  | some o => o
  | none =>
    match fatEntry g img c with
    | .free => .free
    | .bad => .bad
    | _ => .lost

def pathComps (p : String) : List String := (p.splitOn "/").filter (· ≠ "")

def compsPrefix (upper : Char → List Char) : List String → List String → Bool
  | [], _ => true
  | _ :: _, [] => false
  | a :: as, b :: bs => foldName upper a == foldName upper b && compsPrefix upper as bs

/-- the owner at `path` is one of the objects the operation names, or a directory on the way to one -/
def ownerNamed (upper : Char → List Char) (touched : List String) (path : String) : Bool :=
  touched.any fun t => compsPrefix upper (pathComps path) (pathComps t)

/-- Judge one write against the image before the operation. `touched` = paths (from the root, `/`-separated,
    compared ignoring case) of the objects the operation names; directories on the path of a named object count as
    named. Allowed: status byte, FS-info sector, FAT area, fixed root, clusters free in `pre`, clusters owned by a
    named object. `pre` may be passed with a precomputed `owners` map (one per operation, not per write). -/
def allowedWriteWith (g : Geom) (pre : Img) (owners : Std.HashMap Nat Owner) (touched : List String)
    (off len : Nat) (upper : Char → List Char := asciiUpper) : Option String :=
  (classify g off len).findSome? fun (r, o, l) =>
    match r with
    | .bootStatusByte | .fsInfo | .fat _ | .rootDir => none
    | .bootOther | .backupBoot | .reservedOther | .beyondVolume =>
      some s!"write-region {r.name} off={o} len={l}"
    | .cluster c =>
      match ownerOf g pre owners c with
      | .free => none
      | .bad => some s!"write-owner cluster {c} (marked bad) off={o} len={l}"
      | .lost => some s!"write-owner cluster {c} (allocated, unreferenced) off={o} len={l}"
      | .owned p _ =>
        if ownerNamed upper touched p then none
        else some s!"write-owner cluster {c} belongs to '{p}', not named by the operation, off={o} len={l}"

def allowedWrite (g : Geom) (preImg : Img) (touched : List String) (off len : Nat) : Option String :=
  allowedWriteWith g preImg (ownerMap g preImg) touched off len

end FatVerif.Spec
