import FatVerif.Spec.FatSpec
/-! The structural invariant of property C03 as an executable check on a raw image.

    `fsck img overlay` returns one message per violated clause instance, `"<clause> <detail>"`; the empty list
    means the image is consistent. Clause signatures:

    `geom`, `reserved-entries`, `fat-copies`, `fat-link-range`, `fat-cycle`, `cross-link`, `chain-broken`,
    `lost-cluster`, `size-chain`, `dot`, `after-end`, `lfn-run`, `dup-long`, `dup-short`.

    The FAT is scanned through the pages that exist in the sparse image only (a missing page is all zero, i.e.
    all entries free), so the cost is proportional to the touched part of a volume, not to its size. -/
namespace FatVerif.Spec

/-! ## Whole-FAT scans (present pages only) -/

/-- page indices that exist in the image and intersect `[lo, hi)` (byte offsets), ascending -/
def presentPages (img : Img) (lo hi : Nat) : Array Nat :=
  if hi ≤ lo then #[] else
  let p0 := lo / pageSize
  let p1 := (hi - 1) / pageSize
  if p1 - p0 + 1 ≤ img.pages.size then
    (Array.range (p1 - p0 + 1)).filterMap fun i => if img.pages.contains (p0 + i) then some (p0 + i) else none
  else
    (img.pages.keys.toArray.filter fun p => p0 ≤ p && p ≤ p1).qsort (· < ·)

/-- every byte of the page is 0 (early exit at the first non-zero byte) -/
def pageIsZero (p : ByteArray) : Bool := Id.run do
  for i in [0:p.size] do
    if p.get! i != 0 then return false
  return true

/-- pages that exist, intersect `[lo, hi)` and hold a non-zero byte -/
def nonZeroPages (img : Img) (lo hi : Nat) : Array Nat :=
  (presentPages img lo hi).filter fun pg =>
    match img.pages[pg]? with
    | some p => !pageIsZero p
    | none => false

/-- `(k, raw)` for every entry `k ∈ [2, total+2)` of FAT copy `copy` whose (masked) value is not 0 -/
def nonFreeEntries (g : Geom) (img : Img) (copy : Nat) : Array (Nat × Nat) := Id.run do
  let start := g.fatCopyStart copy
  let stop := start + g.fatSizeBytes
  let m := fatMask g.fatBits + 1
  let mut out : Array (Nat × Nat) := #[]
  let mut nextK := 2
  for pg in nonZeroPages img start stop do
    let lo := max start (pg * pageSize) - start
    let hi := min stop ((pg + 1) * pageSize) - start
    let k0 := max nextK (lo * 8 / g.fatBits)
    let k1 := min (g.totalClusters + 2) ((hi * 8 + g.fatBits - 1) / g.fatBits)
    for k in [k0:k1] do
      let raw := fatEntryRaw g img copy k
      if raw % m != 0 then out := out.push (k, raw)
    nextK := max nextK k1
  return out

/-- number of free entries in `[2, total+2)` of the active FAT copy -/
def fatFreeCount (g : Geom) (img : Img) : Nat :=
  g.totalClusters - (nonFreeEntries g img g.activeCopy).size

/-- FAT32 FS-information sector: `(free count, next free)`, each `none` when 0xFFFFFFFF;
    `none` when the volume is not FAT32 or a signature is wrong -/
def fsInfo (g : Geom) (img : Img) : Option (Option Nat × Option Nat) :=
  if g.fatBits ≠ 32 then none else
  let o := g.fsInfoSector * g.bps
  if img.le32 o ≠ 0x41615252 ∨ img.le32 (o + 484) ≠ 0x61417272 ∨ img.le32 (o + 508) ≠ 0xAA550000 then none
  else
    let f := img.le32 (o + 488)
    let n := img.le32 (o + 492)
    some (if f = 0xFFFFFFFF then none else some f, if n = 0xFFFFFFFF then none else some n)

/-! ## Clauses on the FAT area -/

/-- [reserved-entries] FAT[0] = media byte with all other bits set; FAT[1] = an end-of-chain mark, ignoring the
    clean-shutdown / hard-error bits (FAT16: bits 15, 14; FAT32: bits 27, 26). FAT32: top nibble ignored. -/
def checkReservedEntries (g : Geom) (img : Img) (copy : Nat) : List String :=
  let m := fatMask g.fatBits
  let e0 := fatEntryRaw g img copy 0 % (m + 1)
  let e1 := fatEntryRaw g img copy 1 % (m + 1)
  let want0 := m - 255 + g.media
  let flags := if g.fatBits = 16 then 0xC000 else if g.fatBits = 32 then 0x0C000000 else 0
  -- set the two flag bits, then compare with the EOC range
  let e1' := e1 ||| flags
  (if e0 ≠ want0 then [s!"reserved-entries FAT[0] of copy {copy} is {e0}, expected {want0}"] else []) ++
  (if e1' < m - 7 then [s!"reserved-entries FAT[1] of copy {copy} is {e1}, not an end-of-chain mark"] else [])

/-- [fat-copies] with mirroring on, all copies are byte-identical (whole copies; only pages present in the image
    can differ from zero, so only those are compared) -/
def checkFatCopies (g : Geom) (img : Img) : List String := Id.run do
  if !g.mirroring || g.fats ≤ 1 then return []
  for i in [0:g.fats] do
    let si := g.fatCopyStart i
    for pg in nonZeroPages img si (si + g.fatSizeBytes) do
      let lo := max si (pg * pageSize)
      let hi := min (si + g.fatSizeBytes) ((pg + 1) * pageSize)
      for j in [0:g.fats] do
        if j != i then
          let sj := g.fatCopyStart j
          if readBytes img lo (hi - lo) != readBytes img (sj + (lo - si)) (hi - lo) then
            for o in [lo:hi] do
              if img.getByte o != img.getByte (sj + (o - si)) then
                return [s!"fat-copies copies {i} and {j} differ at FAT byte {o - si}"]
  return []

/-! ## Clauses on one directory -/

/-- strict well-formedness of the long-name slots in front of a short entry -/
def strictRun (lfn : List Slot) (sfn : Slot) : Option String :=
  match lfn with
  | [] => none
  | first :: _ =>
    if first.lfnOrd / 64 % 2 ≠ 1 then some "first long-name slot lacks the 0x40 flag (incomplete run)"
    else match runName lfn sfn with
      | none => some "run is not valid for its short entry (order, count, checksum or length)"
      | some _ =>
        if !paddingOk (runUnits lfn) then some "bad padding after the name"
        else if !(lfn.all fun s => s.w16 26 == 0) then some "long-name slot with a non-zero cluster field"
        else none

def hasRepl (s : String) : Bool := s.toList.any (· == replChar)

/-- [after-end] [lfn-run] [dup-long] [dup-short] on the slots of one directory -/
def checkDirSlots (upper : Char → List Char) (fatBits : Nat) (path : String) (sc : DirScan) : Array String := Id.run do
  let mut msgs : Array String := #[]
  -- long-name slots in front of an entry but before the last slot that starts a run (0x40 flag) are orphans too
  let strays : Array Slot := sc.entries.foldl (fun acc e =>
    match lastRun e.lfn with
    | some run => acc ++ (e.lfn.take (e.lfn.length - run.length)).toArray
    | none => acc ++ e.lfn.toArray) #[]
  let sc := { sc with orphans := (sc.orphans ++ strays).qsort fun a b => a.pos < b.pos }
  if sc.afterEnd.size > 0 then
    msgs := msgs.push s!"after-end directory '{path}': {sc.afterEnd.size} used slot(s) after the end marker, first at {sc.afterEnd[0]!.pos}"
  if sc.orphans.size > 0 then
    msgs := msgs.push s!"lfn-run directory '{path}': {sc.orphans.size} orphan long-name slot(s), first at {sc.orphans[0]!.pos}"
  for e in sc.entries do
    match strictRun ((lastRun e.lfn).getD []) e.sfn with
    | some why => msgs := msgs.push s!"lfn-run directory '{path}' entry at {e.sfn.pos}: {why}"
    | none => pure ()
  -- names
  let metas := sc.entries.map (metaOfRaw fatBits)
  let mut shorts : Std.HashMap (List Nat) Nat := {}
  let mut shortDisp : Std.HashMap String Nat := {}
  let mut longs : Std.HashMap String Nat := {}
  for i in [0:metas.size] do
    let e := metas[i]!
    if shorts.contains e.shortRaw then
      msgs := msgs.push s!"dup-short directory '{path}': short name '{e.shortName}' occurs twice (slot {e.slotPos})"
    else
      shorts := shorts.insert e.shortRaw i
      if !hasRepl e.shortName then shortDisp := shortDisp.insert (foldName upper e.shortName) i
    if e.longName.isSome then
      let f := foldName upper e.name
      if longs.contains f then
        msgs := msgs.push s!"dup-long directory '{path}': long name '{e.name}' occurs twice ignoring case (slot {e.slotPos})"
      else longs := longs.insert f i
  for i in [0:metas.size] do
    let e := metas[i]!
    if e.longName.isSome then
      match shortDisp[foldName upper e.name]? with
      | some j =>
        if j != i then
          msgs := msgs.push s!"dup-long directory '{path}': long name '{e.name}' equals the short name of another entry (slot {metas[j]!.slotPos})"
      | none => pure ()
  return msgs

def slotCluster (fatBits : Nat) (s : Slot) : Nat :=
  s.w16 26 + (if fatBits = 32 then 65536 * s.w16 20 else 0)

/-- [dot] for a subdirectory at cluster `self` whose parent directory starts at `parent` (0 = root) -/
def checkDots (fatBits : Nat) (path : String) (slots : Array Slot) (self parent : Nat) : Array String := Id.run do
  let mut msgs : Array String := #[]
  let s0 := slots.getD 0 default
  let s1 := slots.getD 1 default
  if slots.size < 2 then return #[s!"dot directory '{path}' has fewer than two slots"]
  if slotKind s0 != .short || s0.name11 != dotName || s0.attr / 16 % 2 != 1 then
    msgs := msgs.push s!"dot directory '{path}': first slot is not a '.' directory entry"
  else if slotCluster fatBits s0 != self then
    msgs := msgs.push s!"dot directory '{path}': '.' points at cluster {slotCluster fatBits s0}, the directory is at {self}"
  if slotKind s1 != .short || s1.name11 != dotDotName || s1.attr / 16 % 2 != 1 then
    msgs := msgs.push s!"dot directory '{path}': second slot is not a '..' directory entry"
  else if slotCluster fatBits s1 != parent then
    msgs := msgs.push s!"dot directory '{path}': '..' points at cluster {slotCluster fatBits s1}, the parent is at {parent}"
  return msgs

/-- dot entries anywhere but in the first two slots of a subdirectory (and anywhere in the root) -/
def checkStrayDots (path : String) (isRoot : Bool) (sc : DirScan) : Array String :=
  let firstTwo (i : Nat) := !isRoot && i < 2
  let stray := (Array.range sc.entries.size).filter fun i =>
    let e := sc.entries[i]!
    (e.sfn.name11 == dotName || e.sfn.name11 == dotDotName) && !(firstTwo i && e.lfn.isEmpty)
  if stray.size > 0 then
    #[s!"dot directory '{path}': dot entry outside the first two slots (slot {sc.entries[stray[0]!]!.sfn.pos})"]
  else #[]

/-! ## The tree walk with cluster ownership -/

inductive ClaimStop where
  | eoc | cross (c other : Nat) | cycle (c : Nat) | free (c : Nat) | bad (c : Nat) | range (c : Nat)
  /-- the FAT entry of `c` holds a reserved / out-of-range value (reported by the whole-FAT scan) -/
  | badLink (c : Nat) | tooLong
  deriving Repr, DecidableEq, Inhabited

/-- an object that owns clusters -/
structure OwnerInfo where
  /-- `/`-joined names from the root with a leading `/`; the root is `/` -/
  path : String
  isDir : Bool
  entry : EntryMeta
  clusters : Array Nat
  deriving Inhabited

/-- follow the chain from `first` for owner `id`, claiming every allocated cluster not yet owned -/
def claimChain (g : Geom) (img : Img) (id first : Nat) (owner : Std.HashMap Nat Nat) :
    Std.HashMap Nat Nat × Array Nat × ClaimStop := Id.run do
  let mut owner := owner
  let mut cs : Array Nat := #[]
  let mut cur := first
  if !g.validCluster first then return (owner, cs, .range first)
  for _ in [0:g.totalClusters + 2] do
    let cl := fatEntry g img cur
    match cl with
    | .free => return (owner, cs, .free cur)
    | .bad => return (owner, cs, .bad cur)
    | _ => pure ()
    match owner[cur]? with
    | some o => return (owner, cs, if o = id then .cycle cur else .cross cur o)
    | none => pure ()
    owner := owner.insert cur id
    cs := cs.push cur
    match cl with
    | .next n => cur := n
    | .eoc => return (owner, cs, .eoc)
    | _ => return (owner, cs, .badLink cur)
  return (owner, cs, .tooLong)

structure WalkState where
  msgs : Array String := #[]
  /-- cluster ↦ index into `owners` -/
  owner : Std.HashMap Nat Nat := {}
  owners : Array OwnerInfo := #[]
  deriving Inhabited

structure DirJob where
  path : String
  loc : DirLoc
  /-- clusters of the directory (empty for the fixed root) -/
  clusters : Array Nat
  self : Nat
  /-- what `..` must hold -/
  parent : Nat
  isRoot : Bool
  deriving Inhabited

def claimMsg (path : String) (owners : Array OwnerInfo) : ClaimStop → Option String
  | .eoc => none
  | .cross c o => some s!"cross-link cluster {c} of '{path}' already belongs to '{(owners.getD o default).path}'"
  | .cycle c => some s!"fat-cycle chain of '{path}' loops back to cluster {c}"
  | .free c => some s!"chain-broken chain of '{path}' reaches cluster {c} which is free"
  | .bad c => some s!"chain-broken chain of '{path}' reaches cluster {c} which is marked bad"
  | .range c => some s!"fat-link-range '{path}': first cluster {c} is out of range"
  | .badLink _ => none
  | .tooLong => some s!"fat-cycle chain of '{path}' is longer than the volume"

def joinPath (dir name : String) : String := if dir = "/" then "/" ++ name else dir ++ "/" ++ name

/-- process one directory: slot-level clauses, claim the chains of its entries, return the subdirectories to visit -/
def walkDir (upper : Char → List Char) (g : Geom) (img : Img) (job : DirJob) (st : WalkState) :
    WalkState × Array DirJob := Id.run do
  let exts : Array (Nat × Nat) := match job.loc with
    | .fixedRoot => #[(g.rootStart, g.rootDirBytes)]
    | .chain _ => job.clusters.map fun c => (g.clusterOff c, g.clusterSize)
  let slots := readExtents img exts false
  let sc := scanDir slots.toList
  let mut st := st
  let mut jobs : Array DirJob := #[]
  st := { st with msgs := st.msgs ++ checkDirSlots upper g.fatBits job.path sc ++ checkStrayDots job.path job.isRoot sc }
  if !job.isRoot then
    st := { st with msgs := st.msgs ++ checkDots g.fatBits job.path slots job.self job.parent }
  for re in sc.entries do
    let e := metaOfRaw g.fatBits re
    if e.shortRaw == dotName || e.shortRaw == dotDotName then continue
    let path := joinPath job.path e.name
    let id := st.owners.size
    if e.isDir then
      if e.size != 0 then
        st := { st with msgs := st.msgs.push s!"size-chain directory '{path}' has size {e.size} in its entry" }
      if e.firstCluster == 0 then
        st := { st with msgs := st.msgs.push s!"dot directory '{path}' has no cluster"
                        owners := st.owners.push { path, isDir := true, entry := e, clusters := #[] } }
        continue
      let (owner, cs, stop) := claimChain g img id e.firstCluster st.owner
      st := { st with owner, owners := st.owners.push { path, isDir := true, entry := e, clusters := cs } }
      match claimMsg path st.owners stop with
      | some m => st := { st with msgs := st.msgs.push m }
      | none => pure ()
      if cs.size > 0 then
        jobs := jobs.push { path, loc := .chain e.firstCluster, clusters := cs, self := e.firstCluster
                            parent := if job.isRoot then 0 else job.self, isRoot := false }
    else
      if e.firstCluster == 0 then
        st := { st with owners := st.owners.push { path, isDir := false, entry := e, clusters := #[] } }
        if e.size != 0 then
          st := { st with msgs := st.msgs.push s!"size-chain file '{path}' has size {e.size} but no cluster" }
        continue
      let (owner, cs, stop) := claimChain g img id e.firstCluster st.owner
      st := { st with owner, owners := st.owners.push { path, isDir := false, entry := e, clusters := cs } }
      match claimMsg path st.owners stop with
      | some m => st := { st with msgs := st.msgs.push m }
      | none =>
        if stop != .eoc then pure ()
        else if e.size == 0 then
          st := { st with msgs := st.msgs.push s!"size-chain empty file '{path}' owns cluster {e.firstCluster}" }
        else if cs.size != ceilDiv e.size g.clusterSize then
          let m := s!"size-chain file '{path}' of size {e.size} needs {ceilDiv e.size g.clusterSize} cluster(s), its chain has {cs.size}"
          st := { st with msgs := st.msgs.push m }
  return (st, jobs)

/-- walk the whole tree from the root; every directory owns ≥ 1 cluster of its own, so `total+2` rounds suffice -/
def walkTree (upper : Char → List Char) (g : Geom) (img : Img) : WalkState := Id.run do
  let mut st : WalkState := {}
  let mut stack : Array DirJob := #[]
  if g.fatBits = 32 then
    let (owner, cs, stop) := claimChain g img 0 g.rootCluster st.owner
    st := { st with owner, owners := #[{ path := "/", isDir := true, entry := rootMeta g, clusters := cs }] }
    match claimMsg "/" st.owners stop with
    | some m => st := { st with msgs := st.msgs.push m }
    | none => pure ()
    stack := #[{ path := "/", loc := .chain g.rootCluster, clusters := cs, self := g.rootCluster, parent := 0, isRoot := true }]
  else
    st := { st with owners := #[{ path := "/", isDir := true, entry := rootMeta g, clusters := #[] }] }
    stack := #[{ path := "/", loc := .fixedRoot, clusters := #[], self := 0, parent := 0, isRoot := true }]
  for _ in [0:g.totalClusters + 2] do
    match stack.back? with
    | none => break
    | some job =>
      stack := stack.pop
      let (st', jobs) := walkDir upper g img job st
      st := st'
      stack := stack ++ jobs.reverse
  return st

/-- [lost-cluster] and [fat-link-range] over the whole active FAT -/
def checkFatEntries (g : Geom) (img : Img) (owner : Std.HashMap Nat Nat) : Array String := Id.run do
  let mut lost := 0
  let mut firstLost := 0
  let mut badLinks : Array String := #[]
  for (k, raw) in nonFreeEntries g img g.activeCopy do
    match fatClassify g raw with
    | .bad => pure ()
    | .free => pure ()
    | cl =>
      if cl == .reserved then
        if badLinks.size < 8 then
          badLinks := badLinks.push s!"fat-link-range FAT entry {k} holds {raw % (fatMask g.fatBits + 1)}, not a cluster of the volume nor a marker"
      if !owner.contains k then
        if lost == 0 then firstLost := k
        lost := lost + 1
  if lost > 0 then
    badLinks := badLinks.push s!"lost-cluster {lost} cluster(s) allocated but not referenced, first {firstLost}"
  return badLinks

def applyOverlay (img : Img) (overlay : List (Nat × List Nat)) : Img :=
  overlay.foldl (fun i (off, bs) => i.write off bs) img

/-- all checks on a parsed geometry (no overlay) -/
def fsckG (g : Geom) (img : Img) (upper : Char → List Char := asciiUpper) : List String :=
  let st := walkTree upper g img
  checkReservedEntries g img g.activeCopy ++ checkFatCopies g img ++ st.msgs.toList ++
    (checkFatEntries g img st.owner).toList

/-- The C03 invariant. `overlay` = pending 32-byte directory records of live handles `(absolute offset, bytes)`,
    applied to the image first. `upper` = simple upper-casing of one character used for name comparison (ASCII
    upper-casing is always applied as well). Returns every violation found; `[]` = consistent. -/
def fsck (img : Img) (overlay : List (Nat × List Nat) := []) (upper : Char → List Char := asciiUpper) : List String :=
  let img := applyOverlay img overlay
  match parseGeom img with
  | .error m => [s!"geom {m}"]
  | .ok g => fsckG g img upper

/-- clause signature (first word) of a message -/
def clauseOf (msg : String) : String := (msg.splitOn " ").headD ""

end FatVerif.Spec
