import Std.Data.HashMap
import Std.Data.HashSet
import FatVerif.Model.Image
/-! Independent decoder of FAT12/16/32 volumes, written from the Microsoft FAT specification
    ("FAT: General Overview of On-Disk Format", fatgen103) and NOT from the library under verification.

    Layers (each usable on its own):
    * `Geom` / `parseGeom`      — geometry from the BPB, unbounded `Nat` arithmetic;
    * `fatEntryRaw`, `classifyRaw`, `chainOf`   — FAT access and chain following (Brent cycle detection);
    * `Slot`, `scanSlots`, `lfnName`, `parseDir` — directory parsing on plain slot lists (pure, kernel-reducible);
    * `Node`, `decodeTree`, `lookup`, `flatten`  — the decoded tree.

    Functions whose core is independent of the sparse image take a byte reader `rd : Nat → Nat`
    (`…F` suffix) so that tiny instances can be checked by the kernel (`Props/SpecSanity.lean`). -/
namespace FatVerif.Spec

/-! ## Geometry -/

structure Geom where
  bps : Nat
  spc : Nat
  reserved : Nat
  fats : Nat
  rootEntries : Nat
  totalSectors : Nat
  spf : Nat
  /-- 12, 16 or 32 — decided from the cluster count only (< 4085, < 65525) -/
  fatBits : Nat
  rootCluster : Nat
  fsInfoSector : Nat
  backupSector : Nat
  /-- BPB_ExtFlags (FAT32; 0 on FAT12/16) -/
  extFlags : Nat
  media : Nat
  /-- offset of BS_Reserved1 (the "status byte"): 0x25 on FAT12/16, 0x41 on FAT32 -/
  statusByteOffset : Nat
  deriving Repr, DecidableEq, Inhabited

namespace Geom

def rootDirSectors (g : Geom) : Nat := (g.rootEntries * 32 + (g.bps - 1)) / g.bps
/-- byte offset of FAT copy 0 -/
def fatStart (g : Geom) : Nat := g.reserved * g.bps
/-- size in bytes of ONE FAT copy -/
def fatSizeBytes (g : Geom) : Nat := g.spf * g.bps
def fatCopyStart (g : Geom) (copy : Nat) : Nat := g.fatStart + copy * g.fatSizeBytes
/-- byte offset of the fixed root directory region (FAT12/16; on FAT32 it is empty and equals `dataStart`) -/
def rootStart (g : Geom) : Nat := (g.reserved + g.fats * g.spf) * g.bps
/-- size of the fixed root region in bytes (whole sectors) -/
def rootSizeBytes (g : Geom) : Nat := g.rootDirSectors * g.bps
/-- Bytes of the fixed root region that hold directory slots. The specification sizes the region in whole sectors and
    says `BPB_RootEntCnt * 32` "should" be a multiple of the sector size; for volumes where it is not (e.g. 16 entries,
    4096-byte sectors — the library formats such volumes on request and then uses the whole sector) the slots of the
    whole region are taken, so that decoder and library agree on off-specification volumes. -/
def rootDirBytes (g : Geom) : Nat := g.rootDirSectors * g.bps
def dataStartSector (g : Geom) : Nat := g.reserved + g.fats * g.spf + g.rootDirSectors
def dataStart (g : Geom) : Nat := g.dataStartSector * g.bps
def clusterSize (g : Geom) : Nat := g.bps * g.spc
/-- CountofClusters of the specification -/
def totalClusters (g : Geom) : Nat := (g.totalSectors - g.dataStartSector) / g.spc
def volumeBytes (g : Geom) : Nat := g.totalSectors * g.bps
/-- end of the last cluster (may be smaller than `volumeBytes`: slack sectors) -/
def dataEnd (g : Geom) : Nat := g.dataStart + g.totalClusters * g.clusterSize
def clusterOff (g : Geom) (c : Nat) : Nat := g.dataStart + (c - 2) * g.clusterSize
def validCluster (g : Geom) (c : Nat) : Bool := 2 ≤ c && c < g.totalClusters + 2
/-- FAT mirroring is on unless FAT32 sets bit 7 of ExtFlags -/
def mirroring (g : Geom) : Bool := g.fatBits != 32 || g.extFlags / 128 % 2 == 0
/-- the FAT copy that is read: copy 0 when mirroring, else ExtFlags bits 0-3 -/
def activeCopy (g : Geom) : Nat := if g.mirroring then 0 else g.extFlags % 16
/-- number of entries that fit in one FAT copy -/
def fatCapacity (g : Geom) : Nat := g.fatSizeBytes * 8 / g.fatBits

end Geom

def isPow2Upto128 (n : Nat) : Bool :=
  n == 1 || n == 2 || n == 4 || n == 8 || n == 16 || n == 32 || n == 64 || n == 128

def rd16 (rd : Nat → Nat) (o : Nat) : Nat := rd o + 256 * rd (o + 1)
def rd32 (rd : Nat → Nat) (o : Nat) : Nat :=
  rd o + 256 * rd (o + 1) + 65536 * rd (o + 2) + 16777216 * rd (o + 3)

/-- the raw BPB fields common to all widths -/
structure BpbRaw where
  bps : Nat
  spc : Nat
  reserved : Nat
  fats : Nat
  rootEntries : Nat
  totSec16 : Nat
  media : Nat
  fatSz16 : Nat
  totSec32 : Nat
  fatSz32 : Nat
  extFlags : Nat
  fsVer : Nat
  rootClus : Nat
  fsInfo : Nat
  bkBoot : Nat
  sig : Nat

def readBpb (rd : Nat → Nat) : BpbRaw :=
  { bps := rd16 rd 11, spc := rd 13, reserved := rd16 rd 14, fats := rd 16, rootEntries := rd16 rd 17
    totSec16 := rd16 rd 19, media := rd 21, fatSz16 := rd16 rd 22, totSec32 := rd32 rd 32
    fatSz32 := rd32 rd 36, extFlags := rd16 rd 40, fsVer := rd16 rd 42, rootClus := rd32 rd 44
    fsInfo := rd16 rd 48, bkBoot := rd16 rd 50, sig := rd16 rd 510 }

/-- geometry before validation -/
def geomOfBpb (b : BpbRaw) : Geom :=
  let spf := if b.fatSz16 ≠ 0 then b.fatSz16 else b.fatSz32
  let tot := if b.totSec16 ≠ 0 then b.totSec16 else b.totSec32
  let g0 : Geom :=
    { bps := b.bps, spc := b.spc, reserved := b.reserved, fats := b.fats, rootEntries := b.rootEntries
      totalSectors := tot, spf := spf, fatBits := 0, rootCluster := 0, fsInfoSector := 0, backupSector := 0
      extFlags := 0, media := b.media, statusByteOffset := 0x25 }
  let n := g0.totalClusters
  if n < 4085 then { g0 with fatBits := 12 }
  else if n < 65525 then { g0 with fatBits := 16 }
  else { g0 with fatBits := 32, rootCluster := b.rootClus, fsInfoSector := b.fsInfo, backupSector := b.bkBoot
                 extFlags := b.extFlags, statusByteOffset := 0x41 }

def checkGeom (b : BpbRaw) (g : Geom) : Except String Geom :=
  if b.sig ≠ 0xAA55 then .error "boot signature 0x55AA missing"
  else if !(g.bps == 512 || g.bps == 1024 || g.bps == 2048 || g.bps == 4096) then .error s!"bytes per sector {g.bps}"
  else if !isPow2Upto128 g.spc then .error s!"sectors per cluster {g.spc}"
  else if g.reserved = 0 then .error "no reserved sectors"
  else if g.fats = 0 then .error "no FAT"
  else if g.spf = 0 then .error "FAT size 0"
  else if g.totalSectors = 0 then .error "total sectors 0"
  else if !(g.media == 0xF0 || g.media ≥ 0xF8) then .error s!"media byte {g.media}"
  else if g.dataStartSector > g.totalSectors then .error "data region starts beyond the volume"
  else if g.totalClusters = 0 then .error "no data cluster"
  else if g.fatBits = 32 then
    if b.fatSz16 ≠ 0 then .error "cluster count says FAT32 but BPB_FATSz16 is set"
    else if g.rootEntries ≠ 0 then .error "FAT32 with a fixed root directory"
    else if b.fsVer ≠ 0 then .error s!"FAT32 version {b.fsVer}"
    else if g.totalClusters + 1 ≥ 0x0FFFFFF7 then .error "too many clusters"
    else if !g.validCluster g.rootCluster then .error s!"FAT32 root cluster {g.rootCluster} out of range"
    else if !g.mirroring && g.activeCopy ≥ g.fats then .error s!"active FAT {g.activeCopy} does not exist"
    else if g.fatCapacity < g.totalClusters + 2 then .error "FAT too small for the cluster count"
    else .ok g
  else
    if b.fatSz16 = 0 then .error "cluster count says FAT12/16 but BPB_FATSz16 is 0"
    else if g.rootEntries = 0 then .error "FAT12/16 without a root directory"
    else if g.fatCapacity < g.totalClusters + 2 then .error "FAT too small for the cluster count"
    else .ok g

def parseGeomF (rd : Nat → Nat) : Except String Geom :=
  let b := readBpb rd
  if b.bps = 0 ∨ b.spc = 0 then .error "bytes per sector / sectors per cluster is 0"
  else checkGeom b (geomOfBpb b)

/-- geometry from the boot sector at offset 0 -/
def parseGeom (img : Img) : Except String Geom := parseGeomF img.getByte

/-! ## FAT entries -/

inductive FatClass where
  | free
  | next (n : Nat)
  | bad
  | eoc
  /-- value 1, or a non-marker value above the last cluster (incl. the reserved range 0x?FF0–0x?FF6) -/
  | reserved
  deriving DecidableEq, Repr, Inhabited

def fatMask (bits : Nat) : Nat :=
  if bits = 12 then 0xFFF else if bits = 16 then 0xFFFF else 0x0FFFFFFF

/-- raw entry `k` of the FAT copy starting at byte `base` (FAT32: all 32 bits, not masked) -/
def fatEntryRawF (bits : Nat) (rd : Nat → Nat) (base k : Nat) : Nat :=
  if bits = 12 then
    let v := rd16 rd (base + k + k / 2)
    if k % 2 = 1 then v / 16 else v % 4096
  else if bits = 16 then rd16 rd (base + 2 * k)
  else rd32 rd (base + 4 * k)

/-- classification of a raw entry for a volume with `total` clusters -/
def classifyRaw (bits total raw : Nat) : FatClass :=
  let m := fatMask bits
  let v := raw % (m + 1)
  if v = 0 then .free
  else if v ≥ m - 7 then .eoc
  else if v = m - 8 then .bad
  else if 2 ≤ v ∧ v < total + 2 then .next v
  else .reserved

def fatEntryRaw (g : Geom) (img : Img) (copy k : Nat) : Nat :=
  fatEntryRawF g.fatBits img.getByte (g.fatCopyStart copy) k

def fatClassify (g : Geom) (raw : Nat) : FatClass := classifyRaw g.fatBits g.totalClusters raw

/-- classified entry `k` of the active copy -/
def fatEntry (g : Geom) (img : Img) (k : Nat) : FatClass :=
  fatClassify g (fatEntryRaw g img g.activeCopy k)

/-! ## Chains -/

inductive ChainStop where
  | eoc
  | cycle (at_ : Nat)
  | free (at_ : Nat)
  | bad (at_ : Nat)
  | range (at_ : Nat)
  | tooLong
  deriving DecidableEq, Repr, Inhabited

/-- Follow a chain with Brent's cycle detection. `cur` is visited now; `tort` is the remembered cluster,
    `lam` the number of steps since it was remembered, `power` the current window. -/
def chainLoop (entry : Nat → FatClass) :
    (fuel : Nat) → (cur tort power lam : Nat) → (acc : Array Nat) → Array Nat × ChainStop
  | 0, _, _, _, _, acc => (acc, .tooLong)
  | fuel + 1, cur, tort, power, lam, acc =>
    let acc := acc.push cur
    match entry cur with
    | .eoc => (acc, .eoc)
    | .free => (acc, .free cur)
    | .bad => (acc, .bad cur)
    | .reserved => (acc, .range cur)
    | .next n =>
      if power = lam then
        if n = cur then (acc, .cycle cur) else chainLoop entry fuel n cur (2 * power) 1 acc
      else
        if n = tort then (acc, .cycle cur) else chainLoop entry fuel n tort power (lam + 1) acc

/-- clusters of the chain starting at `first` and how it ended -/
def walkChainF (entry : Nat → FatClass) (total first : Nat) : Array Nat × ChainStop :=
  if 2 ≤ first ∧ first < total + 2 then chainLoop entry (total + 2) first first 1 1 #[]
  else (#[], .range first)

def chainResult (first : Nat) : Array Nat × ChainStop → Except String (Array Nat)
  | (cs, .eoc) => .ok cs
  | (_, .cycle c) => .error s!"fat-cycle chain from {first} loops at {c}"
  | (_, .free c) => .error s!"chain-broken chain from {first} reaches cluster {c} which is free"
  | (_, .bad c) => .error s!"chain-broken chain from {first} reaches cluster {c} which is marked bad"
  | (_, .range c) => .error s!"fat-link-range chain from {first}: cluster {c} is out of range or holds an out-of-range link"
  | (_, .tooLong) => .error s!"fat-cycle chain from {first} is longer than the volume"

def chainOfF (entry : Nat → FatClass) (total first : Nat) : Except String (Array Nat) :=
  chainResult first (walkChainF entry total first)

/-- the clusters of the chain starting at `first` (active FAT copy); error on cycle / out-of-range / free / bad -/
def chainOf (g : Geom) (img : Img) (first : Nat) : Except String (Array Nat) :=
  chainOfF (fatEntry g img) g.totalClusters first

/-! ## Directory slots -/

structure Slot where
  /-- absolute byte offset on the device -/
  pos : Nat
  /-- the 32 bytes -/
  bytes : Array Nat
  deriving Repr, DecidableEq, Inhabited

namespace Slot
@[inline] def b (s : Slot) (i : Nat) : Nat := s.bytes.getD i 0
def w16 (s : Slot) (i : Nat) : Nat := s.b i + 256 * s.b (i + 1)
def w32 (s : Slot) (i : Nat) : Nat := s.w16 i + 65536 * s.w16 (i + 2)
def attr (s : Slot) : Nat := s.b 11
/-- the 11 raw short-name bytes -/
def name11 (s : Slot) : List Nat := (List.range 11).map s.b
def lfnOrd (s : Slot) : Nat := s.b 0
def lfnChk (s : Slot) : Nat := s.b 13
/-- the 13 UTF-16 units of a long-name slot: bytes 1–10, 14–25, 28–31 -/
def lfnUnits (s : Slot) : List Nat :=
  [s.w16 1, s.w16 3, s.w16 5, s.w16 7, s.w16 9,
   s.w16 14, s.w16 16, s.w16 18, s.w16 20, s.w16 22, s.w16 24,
   s.w16 28, s.w16 30]
end Slot

inductive SlotKind where
  | endMark | deleted | lfn | label | short
  deriving DecidableEq, Repr, Inhabited

def slotKind (s : Slot) : SlotKind :=
  if s.b 0 = 0 then .endMark
  else if s.b 0 = 0xE5 then .deleted
  else if s.attr % 64 = 0x0F then .lfn
  else if s.attr / 8 % 2 = 1 then .label
  else .short

/-- short-name checksum of the specification: rotate right, add (unsigned char arithmetic) -/
def sfnChecksum (name : List Nat) : Nat :=
  name.foldl (fun sum c => ((if sum % 2 = 1 then 0x80 else 0) + sum / 2 + c) % 256) 0

/-- a short entry together with the long-name slots that directly precede it (disk order, possibly none) -/
structure RawEntry where
  lfn : List Slot
  sfn : Slot
  deriving Repr, Inhabited

structure DirScan where
  /-- short entries that are not volume labels, in disk order -/
  entries : Array RawEntry := #[]
  /-- long-name slots not directly followed by a short entry (followed by a deleted slot, a label, the end) -/
  orphans : Array Slot := #[]
  labels : Array Slot := #[]
  /-- position of the end marker, if one was seen -/
  endPos : Option Nat := none
  /-- slots after the end marker whose first byte is not 0 -/
  afterEnd : Array Slot := #[]
  /-- number of slots before the end marker (or all slots) -/
  used : Nat := 0
  deriving Inhabited

def scanAfterEnd : List Slot → Array Slot → Array Slot
  | [], acc => acc
  | s :: rest, acc => scanAfterEnd rest (if s.b 0 = 0 then acc else acc.push s)

/-- one pass over the slots of a directory; `pending` = long-name slots seen since the last non-LFN slot (reversed) -/
def scanSlots : List Slot → (pending : List Slot) → DirScan → DirScan
  | [], pending, sc => { sc with orphans := sc.orphans ++ pending.reverse.toArray }
  | s :: rest, pending, sc =>
    match slotKind s with
    | .endMark =>
      { sc with orphans := sc.orphans ++ pending.reverse.toArray, endPos := some s.pos
                afterEnd := scanAfterEnd rest #[] }
    | .deleted =>
      scanSlots rest [] { sc with orphans := sc.orphans ++ pending.reverse.toArray, used := sc.used + 1 }
    | .lfn => scanSlots rest (s :: pending) { sc with used := sc.used + 1 }
    | .label =>
      scanSlots rest [] { sc with orphans := sc.orphans ++ pending.reverse.toArray
                                  labels := sc.labels.push s, used := sc.used + 1 }
    | .short =>
      scanSlots rest [] { sc with entries := sc.entries.push { lfn := pending.reverse, sfn := s }
                                  used := sc.used + 1 }

def scanDir (slots : List Slot) : DirScan := scanSlots slots [] {}

/-! ### long names -/

/-- the suffix of a contiguous LFN slot list that starts at the LAST slot carrying the 0x40 flag -/
def lastRunAux : List Slot → Option (List Slot) → Option (List Slot)
  | [], acc => acc
  | s :: rest, acc => lastRunAux rest (if s.lfnOrd / 64 % 2 = 1 then some (s :: rest) else acc)

def lastRun (l : List Slot) : Option (List Slot) := lastRunAux l none

/-- orders `n, n-1, …, 1` after the first slot -/
def ordersDescend : List Slot → Nat → Bool
  | [], n => n == 0
  | s :: rest, n => n != 0 && s.lfnOrd == n && ordersDescend rest (n - 1)

def cutAtZero : List Nat → List Nat
  | [] => []
  | u :: rest => if u = 0 then [] else u :: cutAtZero rest

/-- all 13·n units of a run in name order (slot with order 1 first) -/
def runUnits (run : List Slot) : List Nat :=
  (run.reverse.map Slot.lfnUnits).flatten

/-- A run (first slot first) is valid for the short entry `sfn` iff its first slot has order `0x40|n`,
    1 ≤ n ≤ 20, it has n slots with orders n…1, every slot is a long-name slot and carries the checksum
    of `sfn`'s 11 name bytes; the name is the units up to the first 0x0000 and has 1…255 units. -/
def runName (run : List Slot) (sfn : Slot) : Option (List Nat) :=
  match run with
  | [] => none
  | first :: rest =>
    let o := first.lfnOrd
    let n := o % 64
    if o ≠ 64 + n then none
    else if n = 0 ∨ n > 20 then none
    else if !ordersDescend rest (n - 1) then none
    else if !(run.all fun s => s.attr % 64 == 0x0F) then none
    else
      let chk := sfnChecksum sfn.name11
      if !(run.all fun s => s.lfnChk == chk) then none
      else
        let name := cutAtZero (runUnits run)
        if name.length = 0 ∨ name.length > 255 then none else some name

/-- the long name of an entry, if the slots in front of it contain a valid run ending right before it -/
def lfnName (lfn : List Slot) (sfn : Slot) : Option (List Nat) :=
  match lastRun lfn with
  | none => none
  | some run => runName run sfn

/-- strict padding rule: exactly `13·n` units; a name whose length is not a multiple of 13 is followed by one
    0x0000 and then only 0xFFFF; a name of length `13·n` has neither; the first slot holds at least one name unit -/
def paddingOk (units : List Nat) : Bool :=
  let name := cutAtZero units
  let n := units.length / 13
  if name.length = units.length then true
  else
    (units.drop (name.length + 1)).all (· == 0xFFFF) && name.length > 13 * (n - 1)

/-! ### short names -/

def replChar : Char := Char.ofNat 0xFFFD

def oemChar (lower : Bool) (b : Nat) : Char :=
  if b ≥ 0x80 then replChar
  else if lower ∧ 0x41 ≤ b ∧ b ≤ 0x5A then Char.ofNat (b + 32)
  else Char.ofNat b

def trimTrailingSpaces (l : List Nat) : List Nat :=
  (l.reverse.dropWhile (· == 0x20)).reverse

/-- the bytes of the display form `BASE.EXT` (0x05 → 0xE5, case flags applied to ASCII letters, OEM bytes kept) -/
def shortDisplayBytes (name11 : List Nat) (ntRes : Nat) : List Nat :=
  let name11 := match name11 with
    | 0x05 :: rest => 0xE5 :: rest
    | l => l
  let low (on : Bool) (b : Nat) : Nat := if on ∧ 0x41 ≤ b ∧ b ≤ 0x5A then b + 32 else b
  let base := (trimTrailingSpaces (name11.take 8)).map (low (ntRes / 8 % 2 == 1))
  let ext := (trimTrailingSpaces (name11.drop 8)).map (low (ntRes / 16 % 2 == 1))
  if ext.isEmpty then base else base ++ 0x2E :: ext

/-- display form of an 11-byte short name with the NT case flags of byte 12 (bit 3: base, bit 4: extension) -/
def shortDisplay (name11 : List Nat) (ntRes : Nat) : String :=
  let name11 := match name11 with
    | 0x05 :: rest => 0xE5 :: rest
    | l => l
  let base := trimTrailingSpaces (name11.take 8)
  let ext := trimTrailingSpaces (name11.drop 8)
  let lb := ntRes / 8 % 2 == 1
  let le := ntRes / 16 % 2 == 1
  let bs := base.map (oemChar lb)
  let es := ext.map (oemChar le)
  String.ofList (if es.isEmpty then bs else bs ++ '.' :: es)

/-- lossy UTF-16 decoding (unpaired surrogates become U+FFFD) -/
def utf16Chars : List Nat → List Char
  | [] => []
  | [u] => if 0xD800 ≤ u ∧ u < 0xE000 then [replChar] else [Char.ofNat u]
  | u :: v :: rest =>
    if 0xD800 ≤ u ∧ u < 0xDC00 ∧ 0xDC00 ≤ v ∧ v < 0xE000 then
      Char.ofNat (0x10000 + (u - 0xD800) * 1024 + (v - 0xDC00)) :: utf16Chars rest
    else if 0xD800 ≤ u ∧ u < 0xE000 then replChar :: utf16Chars (v :: rest)
    else Char.ofNat u :: utf16Chars (v :: rest)

def utf16String (us : List Nat) : String := String.ofList (utf16Chars us)

/-! ### entries -/

structure EntryMeta where
  /-- UTF-16 units of the long name, if the entry has a valid long-name run -/
  longName : Option (List Nat)
  /-- the name shown to users: long name if any, else `shortName` -/
  name : String
  /-- 11 raw bytes -/
  shortRaw : List Nat
  /-- display form of the short name (case flags, 0x05, OEM bytes as U+FFFD) -/
  shortName : String
  attrs : Nat
  ntRes : Nat
  size : Nat
  firstCluster : Nat
  crtTenth : Nat
  crtTime : Nat
  crtDate : Nat
  accDate : Nat
  wrtTime : Nat
  wrtDate : Nat
  /-- absolute byte offset of the short-entry slot -/
  slotPos : Nat
  /-- absolute byte offset of the first slot that belongs to the entry (first LFN slot, or `slotPos`) -/
  firstSlotPos : Nat
  /-- number of slots of the entry (valid long-name slots + 1) -/
  slotCount : Nat
  deriving Repr, DecidableEq, Inhabited

def EntryMeta.isDir (e : EntryMeta) : Bool := e.attrs / 16 % 2 == 1

def metaOfRaw (fatBits : Nat) (e : RawEntry) : EntryMeta :=
  let s := e.sfn
  let run := match lastRun e.lfn with
    | some r => (match runName r s with | some n => some (r, n) | none => none)
    | none => none
  let short := shortDisplay s.name11 (s.b 12)
  let hi := if fatBits = 32 then s.w16 20 else 0
  { longName := run.map (·.2)
    name := match run with | some (_, n) => utf16String n | none => short
    shortRaw := s.name11, shortName := short
    attrs := s.attr, ntRes := s.b 12, size := s.w32 28, firstCluster := s.w16 26 + 65536 * hi
    crtTenth := s.b 13, crtTime := s.w16 14, crtDate := s.w16 16, accDate := s.w16 18
    wrtTime := s.w16 22, wrtDate := s.w16 24
    slotPos := s.pos
    firstSlotPos := match run with | some (r :: _, _) => r.pos | _ => s.pos
    slotCount := match run with | some (r, _) => r.length + 1 | none => 1 }

def dotName : List Nat := [0x2E, 0x20, 0x20, 0x20, 0x20, 0x20, 0x20, 0x20, 0x20, 0x20, 0x20]
def dotDotName : List Nat := [0x2E, 0x2E, 0x20, 0x20, 0x20, 0x20, 0x20, 0x20, 0x20, 0x20, 0x20]

structure ParsedDir where
  /-- live entries other than `.`/`..`, disk order -/
  entries : List EntryMeta
  /-- the `.` and `..` entries (any entry whose 11-byte name is one of the two), disk order -/
  dots : List EntryMeta
  deriving Repr, Inhabited

def splitDots : List EntryMeta → ParsedDir → ParsedDir
  | [], p => { entries := p.entries.reverse, dots := p.dots.reverse }
  | e :: rest, p =>
    if e.shortRaw = dotName ∨ e.shortRaw = dotDotName then splitDots rest { p with dots := e :: p.dots }
    else splitDots rest { p with entries := e :: p.entries }

/-- the live entries of a directory given its slots -/
def parseDir (fatBits : Nat) (slots : List Slot) : ParsedDir :=
  splitDots ((scanDir slots).entries.toList.map (metaOfRaw fatBits)) { entries := [], dots := [] }

/-! ## Reading from the image -/

/-- `len` bytes at `off`, copied page-wise -/
def readBytes (img : Img) (off len : Nat) : ByteArray := Id.run do
  if len = 0 then return ByteArray.empty
  let stop := off + len
  let mut out := ByteArray.emptyWithCapacity len
  for pg in [off / pageSize : (stop - 1) / pageSize + 1] do
    let base := pg * pageSize
    let lo := max off base
    let hi := min stop (base + pageSize)
    match img.pages[pg]? with
    | some p => out := out ++ p.extract (lo - base) (hi - base)
    | none => out := out ++ Img.zeroPage.extract 0 (hi - lo)
  return out

def readSlot (img : Img) (off : Nat) : Slot :=
  let o := off % pageSize
  if o + 32 ≤ pageSize then
    match img.pages[off / pageSize]? with
    | some p => { pos := off, bytes := (Array.range 32).map fun k => (p.get! (o + k)).toNat }
    | none => { pos := off, bytes := Array.replicate 32 0 }
  else { pos := off, bytes := (Array.range 32).map fun k => img.getByte (off + k) }

inductive DirLoc where
  /-- the fixed root region of FAT12/16 -/
  | fixedRoot
  | chain (first : Nat)
  deriving DecidableEq, Repr, Inhabited

/-- slots of the byte range `[off, off+len)`; stops after the end marker when `stopAtEnd` (the marker is included).
    Returns `(slots, sawEnd)` -/
def readSlotRange (img : Img) (off len : Nat) (stopAtEnd : Bool) (acc : Array Slot) : Array Slot × Bool := Id.run do
  let mut acc := acc
  for i in [0 : len / 32] do
    let s := readSlot img (off + 32 * i)
    acc := acc.push s
    if stopAtEnd && s.b 0 == 0 then return (acc, true)
  return (acc, false)

/-- the extents `(offset, length)` of a directory, in order, and the clusters of its chain -/
def dirExtents (g : Geom) (img : Img) : DirLoc → Except String (Array (Nat × Nat) × Array Nat)
  | .fixedRoot => .ok (#[(g.rootStart, g.rootDirBytes)], #[])
  | .chain first => do
    let cs ← chainOf g img first
    return (cs.map fun c => (g.clusterOff c, g.clusterSize), cs)

def readExtents (img : Img) (exts : Array (Nat × Nat)) (stopAtEnd : Bool) : Array Slot := Id.run do
  let mut acc : Array Slot := #[]
  for (off, len) in exts do
    let (a, fin) := readSlotRange img off len stopAtEnd acc
    acc := a
    if fin then return acc
  return acc

/-- all slots of a directory (up to and including the end marker if `stopAtEnd`) -/
def readDirSlots (g : Geom) (img : Img) (loc : DirLoc) (stopAtEnd : Bool := true) : Except String (Array Slot) := do
  let (exts, _) ← dirExtents g img loc
  return readExtents img exts stopAtEnd

/-- live entries of one directory -/
def listDir (g : Geom) (img : Img) (loc : DirLoc) : Except String ParsedDir := do
  let slots ← readDirSlots g img loc true
  return parseDir g.fatBits slots.toList

/-- location of the root directory -/
def rootLoc (g : Geom) : DirLoc := if g.fatBits = 32 then .chain g.rootCluster else .fixedRoot

/-! ## The decoded tree -/

inductive Node where
  | file (e : EntryMeta) (content : ByteArray)
  /-- `dots` = the `.`/`..` entries found in the directory (not children) -/
  | dir (e : EntryMeta) (dots : List EntryMeta) (children : List Node)
  deriving Inhabited

namespace Node
def entry : Node → EntryMeta
  | .file e _ => e
  | .dir e _ _ => e
def name (n : Node) : String := n.entry.name
def isDir : Node → Bool
  | .file .. => false
  | .dir .. => true
def children : Node → List Node
  | .file .. => []
  | .dir _ _ c => c
def dots : Node → List EntryMeta
  | .file .. => []
  | .dir _ d _ => d
def content : Node → ByteArray
  | .file _ c => c
  | .dir .. => ByteArray.empty
/-- rows `(name, is directory, size)` of the children of a directory node, disk order -/
def listing (n : Node) : List (String × Bool × Nat) :=
  n.children.map fun c => (c.name, c.isDir, c.entry.size)
end Node

def ceilDiv (a b : Nat) : Nat := (a + b - 1) / b

/-- content of a file entry: the clusters of its chain truncated to `size` -/
def fileContent (g : Geom) (img : Img) (e : EntryMeta) : Except String ByteArray := do
  if e.size = 0 then return ByteArray.empty
  if e.firstCluster = 0 then throw s!"size-chain file '{e.name}' has size {e.size} but no cluster"
  let cs ← chainOf g img e.firstCluster
  let need := ceilDiv e.size g.clusterSize
  if cs.size < need then
    throw s!"size-chain file '{e.name}' has size {e.size} but a chain of {cs.size} clusters"
  let mut out := ByteArray.emptyWithCapacity e.size
  let mut left := e.size
  for c in cs.extract 0 need do
    let n := min left g.clusterSize
    out := out ++ readBytes img (g.clusterOff c) n
    left := left - n
  return out

structure DecState where
  seenDirs : Std.HashSet Nat := {}

abbrev DecM := StateT DecState (Except String)

def rootMeta (g : Geom) : EntryMeta :=
  { longName := none, name := "", shortRaw := [], shortName := "", attrs := 0x10, ntRes := 0, size := 0
    firstCluster := if g.fatBits = 32 then g.rootCluster else 0
    crtTenth := 0, crtTime := 0, crtDate := 0, accDate := 0, wrtTime := 0, wrtDate := 0
    slotPos := 0, firstSlotPos := 0, slotCount := 0 }

/-- decode the directory at `loc`: its dot entries and children. `fuel` bounds the nesting depth; the set of
    visited first clusters bounds the number of directories by the cluster count. -/
def decodeDir (g : Geom) (img : Img) (withContent : Bool) : (fuel : Nat) → (path : String) → (loc : DirLoc) →
    DecM (List EntryMeta × List Node)
  | 0, path, _ => throw s!"directory '{path}' is nested deeper than 64 levels"
  | fuel + 1, path, loc => do
    let pd ← match listDir g img loc with
      | .ok pd => pure pd
      | .error m => throw s!"{m} (directory '{path}')"
    let children ← pd.entries.mapM fun e => do
      if e.isDir then
        let st ← get
        if st.seenDirs.contains e.firstCluster then
          throw s!"cross-link directory '{path}/{e.name}' starts at cluster {e.firstCluster} which is already a directory"
        set { st with seenDirs := st.seenDirs.insert e.firstCluster }
        let (dots, ch) ← decodeDir g img withContent fuel s!"{path}/{e.name}" (.chain e.firstCluster)
        pure (Node.dir e dots ch)
      else if !withContent then pure (Node.file e ByteArray.empty)
      else
        match fileContent g img e with
        | .ok c => pure (Node.file e c)
        | .error m => throw s!"{m} (in directory '{path}')"
    pure (pd.dots, children)

def decodeTreeG (g : Geom) (img : Img) (withContent : Bool := true) : Except String Node := do
  let init : DecState := { seenDirs := if g.fatBits = 32 then ({} : Std.HashSet Nat).insert g.rootCluster else {} }
  let ((dots, ch), _) ← (decodeDir g img withContent 65 "" (rootLoc g)).run init
  return Node.dir (rootMeta g) dots ch

/-- the whole tree of a volume; the root node has a synthetic `EntryMeta` with name `""` -/
def decodeTree (img : Img) : Except String Node := do
  let g ← match parseGeom img with
    | .ok g => pure g
    | .error m => throw s!"geom {m}"
  decodeTreeG g img

/-! ## Queries on decoded trees -/

def asciiUpper (c : Char) : List Char := [c.toUpper]

/-- case folding used for name comparison: the supplied `upper`, then ASCII upper-casing -/
def foldName (upper : Char → List Char) (s : String) : String :=
  String.ofList (s.toList.flatMap fun c => (upper c).map Char.toUpper)

def nameMatches (upper : Char → List Char) (e : EntryMeta) (q : String) : Bool :=
  let fq := foldName upper q
  (e.longName.isSome && foldName upper e.name == fq) || foldName upper e.shortName == fq

/-- child of a directory node by name: long name or short display name, ignoring case -/
def findChild (upper : Char → List Char) (n : Node) (q : String) : Option Node :=
  n.children.find? fun c => nameMatches upper c.entry q

/-- node at a path (list of components from this node) -/
def lookup (n : Node) (path : List String) (upper : Char → List Char := asciiUpper) : Option Node :=
  match path with
  | [] => some n
  | q :: rest =>
    match findChild upper n q with
    | some c => lookup c rest upper
    | none => none

structure FlatEntry where
  /-- `/`-joined names from the root, no leading slash -/
  path : String
  isDir : Bool
  size : Nat
  attrs : Nat
  content : ByteArray
  deriving Inhabited

def FlatEntry.render (f : FlatEntry) : String :=
  s!"{if f.isDir then "D" else "F"} {f.path} size={f.size} attrs={f.attrs} hash={hash f.content}"

mutual
def flattenNode (pre : String) : Node → Array FlatEntry → Array FlatEntry
  | .file e c, acc => acc.push { path := pre ++ e.name, isDir := false, size := e.size, attrs := e.attrs, content := c }
  | .dir e _ ch, acc =>
    flattenList (pre ++ e.name ++ "/") ch
      (acc.push { path := pre ++ e.name, isDir := true, size := e.size, attrs := e.attrs, content := ByteArray.empty })
def flattenList (pre : String) : List Node → Array FlatEntry → Array FlatEntry
  | [], acc => acc
  | n :: ns, acc => flattenList pre ns (flattenNode pre n acc)
end

/-- every entry below the root (the root itself is not listed), sorted by path -/
def flatten (root : Node) : List FlatEntry :=
  ((flattenList "" root.children #[]).qsort fun a b => a.path < b.path).toList

/-- number of nodes below this node -/
def countNodes (n : Node) : Nat := (flattenList "" n.children #[]).size

end FatVerif.Spec
