import FatVerif.Model.AFile
/-!
# `ByteFile` — the specification of property C02: a file is a growable byte array with a cursor

`content` is the byte array, `pos` the cursor (`pos ≤ content.length`).  Only the vocabulary of operations
(`SeekFrom`, `FileOp`, `FileRes`, `u32Max`) is shared with the model; nothing here mentions clusters except the
cluster size `cs` in `ByteFile.check`, which states the *documented short read / short write*:
ONE `read n` call returns the first `min n (cs − pos mod cs) (size − pos)` bytes of what `ByteFile.read n` returns,
ONE `write bs` call writes the first `min |bs| (cs − pos mod cs) (u32::MAX − pos)` bytes.

`ByteFile.check cs op res b` is the executable oracle: given the observed result `res` of `op` in state `b` it
returns the next specification state, or the signature of the violation.  The same function is the right-hand
side of the refinement theorems (`Props/C02.lean`) and the oracle the driver applies to the outputs of the real
`fatfs::File`.
-/
namespace FatVerif.Cursor

structure ByteFile where
  content : List Nat
  pos : Nat
  deriving DecidableEq, Repr, Inhabited

namespace ByteFile

/-- bytes that remain after the cursor -/
def remaining (b : ByteFile) : Nat := b.content.length - b.pos

/-- `read n`: the bytes most recently written at `pos, pos+1, …`, never more than remain -/
def read (b : ByteFile) (n : Nat) : List Nat × ByteFile :=
  ((b.content.drop b.pos).take n, { b with pos := b.pos + min n b.remaining })

/-- `write bs`: overwrite / extend at the cursor -/
def write (b : ByteFile) (bs : List Nat) : Nat × ByteFile :=
  (bs.length,
   { content := b.content.take b.pos ++ bs ++ b.content.drop (b.pos + bs.length), pos := b.pos + bs.length })

/-- the position a seek asks for -/
def seekTarget (b : ByteFile) : SeekFrom → Int
  | .start n => (n : Int)
  | .current d => (b.pos : Int) + d
  | .fromEnd d => (b.content.length : Int) + d

/-- `seek`: before the start (or not representable in 32 bits) is rejected with `invalidInput` and changes
    nothing; beyond the end clamps to the end -/
def seek (b : ByteFile) (w : SeekFrom) : Except Err Nat × ByteFile :=
  if b.seekTarget w < 0 ∨ b.seekTarget w > (u32Max : Int) then (.error .invalidInput, b)
  else (.ok (min (b.seekTarget w).toNat b.content.length),
        { b with pos := min (b.seekTarget w).toNat b.content.length })

/-- `truncate`: discard everything from the cursor onward -/
def truncate (b : ByteFile) : ByteFile :=
  { b with content := b.content.take b.pos }

/-- length of ONE read call: clipped at the cluster boundary and at the end of the file -/
def shortRead (cs n : Nat) (b : ByteFile) : Nat :=
  min (min n (cs - b.pos % cs)) b.remaining

/-- length of ONE write call: clipped at the cluster boundary and at `u32::MAX` -/
def shortWrite (cs n : Nat) (b : ByteFile) : Nat :=
  min (min n (cs - b.pos % cs)) (u32Max - b.pos)

def checkRead (cs n : Nat) (l : List Nat) (b : ByteFile) : Except String ByteFile :=
  if l.length > min n b.remaining then .error "read-too-long"
  else if l ≠ (b.read l.length).1 then .error "read-wrong-bytes"
  else if l.length ≠ b.shortRead cs n then .error "read-short-rule"
  else .ok (b.read l.length).2

def checkReadExact (n : Nat) (l : List Nat) (b : ByteFile) : Except String ByteFile :=
  if b.remaining < n ∨ l.length ≠ n then .error "read-too-long"
  else if l ≠ (b.read n).1 then .error "read-wrong-bytes"
  else .ok (b.read n).2

def checkWriteAllErr (cs : Nat) (bs : List Nat) (e : Err) (p : Nat) (b : ByteFile) : Except String ByteFile :=
  if b.pos ≤ p ∧ p - b.pos < bs.length ∧
      ((e = .noSpace ∧ p % cs = 0 ∧ b.content.length ≤ p) ∨ (e = .writeZero ∧ p = u32Max)) then
    .ok (b.write (bs.take (p - b.pos))).2
  else .error "write-count"

/-- The oracle.  `.ok b'`: the observation is allowed and `b'` is the next state; `.error sig`: violation. -/
def check (cs : Nat) (op : FileOp) (res : FileRes) (b : ByteFile) : Except String ByteFile :=
  match op, res with
  | .read n, .bytes l => checkRead cs n l b
  | .write bs, .count k =>
    if k = b.shortWrite cs bs.length then .ok (b.write (bs.take k)).2 else .error "write-count"
  | .write bs, .err .noSpace =>
    -- allocation can only be needed on a cluster boundary at the end of the file; nothing changes
    if b.pos % cs = 0 ∧ b.pos = b.content.length ∧ 0 < b.shortWrite cs bs.length then .ok b
    else .error "write-count"
  | .readExact n, .bytes l => checkReadExact n l b
  | .readExact n, .errAt .eof p =>
    if b.remaining < n ∧ p = b.content.length then .ok { b with pos := p } else .error "read-too-long"
  | .writeAll bs, .unit =>
    if b.pos + bs.length ≤ u32Max then .ok (b.write bs).2 else .error "write-count"
  | .writeAll bs, .errAt e p => checkWriteAllErr cs bs e p b
  | .seek w, .pos p =>
    match b.seek w with
    | (.ok q, b') => if p = q then .ok b' else .error "seek-result"
    | (.error _, _) => .error "seek-result"
  | .seek w, .err .invalidInput =>
    match b.seek w with
    | (.ok _, _) => .error "seek-result"
    | (.error _, b') => .ok b'
  | .truncate, .unit => .ok b.truncate
  | .flush, .unit => .ok b
  | .reopen, .bytes l => if l = b.content then .ok { b with pos := 0 } else .error "content"
  | _, _ => .error "result-shape"

/-- the oracle over a whole history -/
def checkRun (cs : Nat) : List FileOp → List FileRes → ByteFile → Except String ByteFile
  | [], [], b => .ok b
  | op :: ops, r :: rs, b =>
    match check cs op r b with
    | .ok b' => checkRun cs ops rs b'
    | .error e => .error e
  | _, _, _ => .error "result-shape"

end ByteFile
end FatVerif.Cursor
