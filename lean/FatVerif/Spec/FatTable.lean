import FatVerif.Model.Basic
/-!
# Independent FAT decoder, straight from the Microsoft FAT specification (§4 "FAT")

Written without reference to `Model/FatCodec.lean` (bitwise operators, `3k/2` addressing) so that the oracles in
`FatDriver` and the theorem `fatGet_spec` compare two independently written decoders.

* FAT12: entry `k` is the 12-bit field at bit `12k`: the 16-bit little-endian word at byte `⌊3k/2⌋`, low 12 bits
  for even `k`, high 12 bits for odd `k`.
* FAT16: the 16-bit little-endian word at byte `2k`.
* FAT32: the 32-bit little-endian word at byte `4k`; the high 4 bits are reserved and are not part of the value.
* value 0 = free; `0x?FF7` = bad cluster; `≥ 0x?FF8` = end of chain; anything else = allocated, value is the next
  cluster (the spec's "reserved" values 1 and `0x?FF0..0x?FF6` are not produced by conforming writers; a reader
  can only follow them, so they count as links here).
-/
namespace FatVerif.FatSpec

def byteAt (fat : Array Nat) (i : Nat) : Nat := fat.getD i 0

def word16 (fat : Array Nat) (o : Nat) : Nat := byteAt fat o ||| (byteAt fat (o + 1) <<< 8)

def word32 (fat : Array Nat) (o : Nat) : Nat :=
  byteAt fat o ||| (byteAt fat (o + 1) <<< 8) ||| (byteAt fat (o + 2) <<< 16) ||| (byteAt fat (o + 3) <<< 24)

/-- first byte of entry `k` -/
def entryOff (bits k : Nat) : Nat :=
  if bits = 12 then 3 * k / 2 else if bits = 16 then 2 * k else 4 * k

/-- number of bytes the entry touches -/
def entryBytes (bits : Nat) : Nat := if bits = 32 then 4 else 2

/-- all bytes of entry `k` exist -/
def entryIn (bits : Nat) (fat : Array Nat) (k : Nat) : Bool :=
  entryOff bits k + entryBytes bits ≤ fat.size

/-- value of entry `k` (FAT32: the low 28 bits) -/
def specEntry (bits : Nat) (fat : Array Nat) (k : Nat) : Nat :=
  if bits = 12 then
    (if k &&& 1 = 1 then word16 fat (3 * k / 2) >>> 4 else word16 fat (3 * k / 2) &&& 0x0FFF)
  else if bits = 16 then word16 fat (2 * k)
  else word32 fat (4 * k) &&& 0x0FFFFFFF

/-- FAT32: the reserved high 4 bits of entry `k` -/
def specTop (fat : Array Nat) (k : Nat) : Nat := word32 fat (4 * k) >>> 28

def badMark (bits : Nat) : Nat :=
  if bits = 12 then 0xFF7 else if bits = 16 then 0xFFF7 else 0x0FFFFFF7

/-- largest entry value of the width -/
def maxVal (bits : Nat) : Nat :=
  if bits = 12 then 0xFFF else if bits = 16 then 0xFFFF else 0x0FFFFFFF

/-- classification of an entry VALUE (already reduced to 12/16/28 bits) -/
def specClassify (bits v : Nat) : FatValue :=
  if v = 0 then .free
  else if v = badMark bits then .bad
  else if badMark bits < v then .eoc
  else .data v

def specValue (bits : Nat) (fat : Array Nat) (k : Nat) : FatValue :=
  specClassify bits (specEntry bits fat k)

/-- entries `0 … n-1` are all inside the bytes -/
def covers (bits : Nat) (fat : Array Nat) (n : Nat) : Bool :=
  n = 0 || entryIn bits fat (n - 1)

/-- number of whole entries in the byte string -/
def entryCount (bits : Nat) (fat : Array Nat) : Nat :=
  if bits = 12 then 2 * fat.size / 3
  else fat.size / entryBytes bits

/-- number of zero entries in `[2, total+2)` -/
def specCountFree (bits : Nat) (fat : Array Nat) (total : Nat) : Nat :=
  (List.range total).countP (fun i => specEntry bits fat (i + 2) = 0)

/-- some entry in `[2, total+2)` is zero -/
def specHasFree (bits : Nat) (fat : Array Nat) (total : Nat) : Bool :=
  (List.range total).any (fun i => specEntry bits fat (i + 2) = 0)

/-- entries `lo … hi-1` on which `a` and `b` differ (value or, for FAT32, reserved bits) -/
def diffEntries (bits : Nat) (a b : Array Nat) (lo hi : Nat) : List Nat :=
  (List.range (hi - lo)).filterMap fun i =>
    if specEntry bits a (lo + i) ≠ specEntry bits b (lo + i) ∨
       (bits = 32 ∧ specTop a (lo + i) ≠ specTop b (lo + i)) then some (lo + i) else none

/-- entries whose FAT32 reserved nibble differs -/
def topDiff (a b : Array Nat) (n : Nat) : List Nat :=
  (List.range n).filter fun k => specTop a k ≠ specTop b k

/-- follow links from `c` for at most `fuel` steps: `some cs` if the walk ends at a non-link within the fuel and
    every visited cluster is in `[2, n)`; `none` otherwise (out of range link, or too long = cyclic) -/
def specChain (bits : Nat) (fat : Array Nat) (n : Nat) : Nat → Nat → Option (List Nat)
  | 0, _ => none
  | fuel + 1, c =>
    if c < 2 ∨ n ≤ c then none
    else match specValue bits fat c with
      | .data nx => (specChain bits fat n fuel nx).map (c :: ·)
      | _ => some [c]

end FatVerif.FatSpec
