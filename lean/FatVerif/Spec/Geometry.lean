import FatVerif.Model.Basic
/-! Independent specification of a *coherent* FAT geometry and of the geometry an independent parse derives.

Written from the text of property C07 and from the Microsoft FAT specification (field offsets `BPB_*`, the
"FAT type determination" section), NOT from `/repo/src/boot_sector.rs`. All arithmetic is unbounded `Nat`
arithmetic; nothing here can wrap. A boot sector is a list of 512 bytes. -/
namespace FatVerif.GeoSpec

/-- little-endian unsigned field of `n` bytes at offset `off` -/
def field (b : List Nat) (off : Nat) : Nat → Nat
  | 0 => 0
  | n + 1 => b.getD off 0 + 256 * field b (off + 1) n

/-! `BPB_*` fields at their offsets in the boot sector (Microsoft FAT specification, section 3) -/
def bytsPerSec (b : List Nat) : Nat := field b 11 2
def secPerClus (b : List Nat) : Nat := field b 13 1
def rsvdSecCnt (b : List Nat) : Nat := field b 14 2
def numFATs (b : List Nat) : Nat := field b 16 1
def rootEntCnt (b : List Nat) : Nat := field b 17 2
def totSec16 (b : List Nat) : Nat := field b 19 2
def fatSz16 (b : List Nat) : Nat := field b 22 2
def totSec32 (b : List Nat) : Nat := field b 32 4
def fatSz32 (b : List Nat) : Nat := field b 36 4
def rootClus (b : List Nat) : Nat := field b 44 4
def fsInfo (b : List Nat) : Nat := field b 48 2
def bkBootSec (b : List Nat) : Nat := field b 50 2

/-- the volume uses the FAT32 layout of the boot sector iff `BPB_FATSz16` is zero -/
def layout32 (b : List Nat) : Bool := fatSz16 b == 0

def fatSz (b : List Nat) : Nat := if fatSz16 b ≠ 0 then fatSz16 b else fatSz32 b
def totSec (b : List Nat) : Nat := if totSec16 b ≠ 0 then totSec16 b else totSec32 b

/-- sectors of the fixed root directory, rounded up -/
def rootDirSectors (b : List Nat) : Nat := (rootEntCnt b * 32 + (bytsPerSec b - 1)) / bytsPerSec b

/-- reserved area + all FAT copies + fixed root directory -/
def metaSectors (b : List Nat) : Nat := rsvdSecCnt b + numFATs b * fatSz b + rootDirSectors b

def dataSec (b : List Nat) : Nat := totSec b - metaSectors b

def countOfClusters (b : List Nat) : Nat := dataSec b / secPerClus b

/-- "FAT type determination": by the count of clusters only -/
def fatTypeOfCount (n : Nat) : FatType :=
  if n < 4085 then .fat12 else if n < 65525 then .fat16 else .fat32

/-- `n` is `2^k` for some `k < 32` -/
def isPow2 (n : Nat) : Bool := (List.range 32).any fun k => n == 2 ^ k

/-- the clauses of "coherent geometry" in property C07 -/
inductive Clause where
  | sectorSize     -- power-of-two sector size 512..4096
  | clusterSize    -- power-of-two cluster size (sectors per cluster a power of two)
  | fatCount       -- non-zero FAT count
  | fatSize        -- non-zero FAT size
  | regionsFit     -- metadata regions fit inside the declared sector count without 32-bit wrap-around
  | fatWidth       -- FAT width (12/16 vs 32 layout) consistent with the cluster count
  | clusterLimit   -- FAT32: every cluster number is below the bad-cluster mark 0x0FFFFFF7
  | rootCluster    -- FAT32: root cluster in range
  | fsInfoSector   -- FAT32: information sector inside the reserved area
  | backupSector   -- FAT32: backup boot sector inside the reserved area
  deriving DecidableEq, Repr, Inhabited

def Clause.name : Clause → String
  | .sectorSize => "sector-size" | .clusterSize => "cluster-size" | .fatCount => "fat-count"
  | .fatSize => "fat-size" | .regionsFit => "regions-fit" | .fatWidth => "fat-width"
  | .clusterLimit => "cluster-limit" | .rootCluster => "root-cluster" | .fsInfoSector => "fsinfo-sector"
  | .backupSector => "backup-sector"

def Clause.all : List Clause :=
  [.sectorSize, .clusterSize, .fatCount, .fatSize, .regionsFit, .fatWidth, .clusterLimit, .rootCluster,
   .fsInfoSector, .backupSector]

def Clause.holds (b : List Nat) : Clause → Bool
  | .sectorSize => isPow2 (bytsPerSec b) && decide (512 ≤ bytsPerSec b) && decide (bytsPerSec b ≤ 4096)
  | .clusterSize => isPow2 (secPerClus b)
  | .fatCount => numFATs b != 0
  | .fatSize => fatSz b != 0
  | .regionsFit =>
      decide (1 ≤ rsvdSecCnt b) && decide (metaSectors b ≤ totSec b) && decide (metaSectors b < 2 ^ 32)
      && decide (totSec b < 2 ^ 32)
  | .fatWidth => layout32 b == decide (fatTypeOfCount (countOfClusters b) = .fat32)
  | .clusterLimit => !layout32 b || decide (countOfClusters b + 1 < 0x0FFFFFF7)
  | .rootCluster => !layout32 b || (decide (2 ≤ rootClus b) && decide (rootClus b < countOfClusters b + 2))
  | .fsInfoSector => !layout32 b || decide (fsInfo b < rsvdSecCnt b)
  | .backupSector => !layout32 b || decide (bkBootSec b < rsvdSecCnt b)

/-- the geometry of boot sector `b` is coherent -/
def Coherent (b : List Nat) : Prop := ∀ c : Clause, c.holds b = true

/-- first clause (in the order of `Clause.all`) that fails -/
def firstFailing (b : List Nat) : Option Clause := Clause.all.find? fun c => !c.holds b

def coherentB (b : List Nat) : Bool := (firstFailing b).isNone

/-- what an independent parse derives: FAT type, cluster size in bytes, number of clusters -/
def specGeometry (b : List Nat) : FatType × Nat × Nat :=
  (fatTypeOfCount (countOfClusters b), secPerClus b * bytsPerSec b, countOfClusters b)

/-- largest cluster size the library documents as fully compatible (it only warns above it) -/
def compatClusterSize (b : List Nat) : Bool := decide (secPerClus b * bytsPerSec b ≤ 32 * 1024)

/-! overflow sites named in the property ("fats*sectors_per_fat, reserved+fats+root,
sectors_per_fat*bytes_per_sector*8"), evaluated without wrap-around; used to classify a panic of the
implementation -/
def wrapClass (b : List Nat) : String :=
  if numFATs b * fatSz b ≥ 2 ^ 32 then "fats-x-spf"
  else if metaSectors b ≥ 2 ^ 32 then "region-sum"
  else if fatSz b * bytsPerSec b * 8 ≥ 2 ^ 32 then "spf-x-bps-x8"
  else "other"

end FatVerif.GeoSpec
