import FatVerif.Model.Basic
import FatVerif.Spec.FatSpec
/-! The specification side of property C01: a plain in-memory tree with case-insensitive, case-preserving names.

    * `TNode` — file (bytes) | dir (named children);
    * `TreeCfg` — the two parameters: per-character upper-casing and the name-validity predicate;
    * `evalOp` — what an operation must do: the set of *acceptable error kinds* (empty = must succeed), the tree
      after success, whether success needs new storage (then a resource error is an acceptable alternative);
    * `step` — the checker form: given the observed result, is it one the specification allows, and what is the
      tree afterwards;
    * `equivTree` / `TNode.ofNode` — comparison with / abstraction of a decoded image tree.

    Paths: `/`-separated, relative to a directory given by its canonical path `cwd` (stored names from the root).
    Empty components are dropped (`a//b/` = `a/b`). `.` is the directory itself and `..` its parent, except in the
    root, which has neither (`notFound`) — the library's root directory has no dot entries. -/
namespace FatVerif.Spec

inductive TNode where
  | file (content : ByteArray)
  | dir (children : List (String × TNode))
  deriving Inhabited

structure TreeCfg where
  /-- upper-casing of one character (ASCII upper-casing is applied on top) -/
  upper : Char → List Char := asciiUpper
  /-- `some e` = the name cannot be given to a new entry, the call fails with `e` -/
  validName : String → Option Err := fun _ => none

namespace TNode

def isDir : TNode → Bool
  | .file _ => false
  | .dir _ => true

def children : TNode → List (String × TNode)
  | .file _ => []
  | .dir c => c

def size : TNode → Nat
  | .file c => c.size
  | .dir _ => 0

def emptyDir : TNode := .dir []

end TNode

def TreeCfg.same (cfg : TreeCfg) (a b : String) : Bool := foldName cfg.upper a == foldName cfg.upper b

/-- child by name, ignoring case; returns the stored name -/
def findEntry (cfg : TreeCfg) (n : TNode) (q : String) : Option (String × TNode) :=
  n.children.find? fun (nm, _) => cfg.same nm q

/-- node at a canonical path -/
def getAt (cfg : TreeCfg) (n : TNode) : List String → Option TNode
  | [] => some n
  | q :: rest =>
    match findEntry cfg n q with
    | some (_, c) => getAt cfg c rest
    | none => none

/-- apply `f` to the node at a canonical path (no change if the path does not exist) -/
def updateAt (cfg : TreeCfg) (f : TNode → TNode) : List String → TNode → TNode
  | [], n => f n
  | q :: rest, n =>
    match n with
    | .file c => .file c
    | .dir ch => .dir (ch.map fun (nm, c) => if cfg.same nm q then (nm, updateAt cfg f rest c) else (nm, c))

def insertChild (name : String) (c : TNode) : TNode → TNode
  | .file b => .file b
  | .dir ch => .dir (ch ++ [(name, c)])

def eraseChild (cfg : TreeCfg) (name : String) : TNode → TNode
  | .file b => .file b
  | .dir ch => .dir (ch.filter fun (nm, _) => !cfg.same nm name)

/-- content of the file at a canonical path -/
def getContent (cfg : TreeCfg) (root : TNode) (path : List String) : Option ByteArray :=
  match getAt cfg root path with
  | some (.file c) => some c
  | _ => none

/-- replace the content of the file at a canonical path (used by the driver for write/truncate) -/
def setContent (cfg : TreeCfg) (root : TNode) (path : List String) (bytes : ByteArray) : TNode :=
  updateAt cfg (fun n => match n with | .file _ => .file bytes | d => d) path root

/-! ## Paths -/

def splitPath (p : String) : List String := (p.splitOn "/").filter (· ≠ "")

def isDot (s : String) : Bool := s == "." || s == ".."

/-- One component from the directory at canonical path `cur`. Result: canonical path and node of the target.
    Errors are the acceptable error kinds. -/
def stepComp (cfg : TreeCfg) (root : TNode) (cur : List String) (comp : String) :
    Except (List Err) (List String × TNode) :=
  match getAt cfg root cur with
  | none => .error [.notFound]
  | some (.file _) => .error [.invalidInput, .notFound]
  | some d =>
    if comp == "." then
      if cur.isEmpty then .error [.notFound] else .ok (cur, d)
    else if comp == ".." then
      if cur.isEmpty then .error [.notFound]
      else match getAt cfg root cur.dropLast with
        | some p => .ok (cur.dropLast, p)
        | none => .error [.notFound]
    else match findEntry cfg d comp with
      | some (nm, c) => .ok (cur ++ [nm], c)
      | none => .error [.notFound]

/-- walk directory components; every component must lead to a directory -/
def walkDirs (cfg : TreeCfg) (root : TNode) : (cur : List String) → (comps : List String) →
    Except (List Err) (List String)
  | cur, [] =>
    match getAt cfg root cur with
    | some (.dir _) => .ok cur
    | some (.file _) => .error [.invalidInput, .notFound]
    | none => .error [.notFound]
  | cur, c :: rest =>
    match stepComp cfg root cur c with
    | .error e => .error e
    | .ok (p, .dir _) => walkDirs cfg root p rest
    | .ok (_, .file _) => .error [.invalidInput, .notFound]

/-- the object a whole path names: canonical path and node -/
def resolve (cfg : TreeCfg) (root : TNode) (cwd : List String) (path : String) :
    Except (List Err) (List String × TNode) :=
  let comps := splitPath path
  match comps.getLast? with
  | none => .error [.notFound]
  | some last =>
    match walkDirs cfg root cwd comps.dropLast with
    | .error e => .error e
    | .ok p => stepComp cfg root p last

/-- what the final component of a path names, for operations that act on an entry of the parent directory -/
inductive Final where
  /-- `.` or `..` -/
  | dot (resolved : Option (List String × TNode))
  | entry (parent : List String) (given : String) (existing : Option (String × TNode))

def resolveParent (cfg : TreeCfg) (root : TNode) (cwd : List String) (path : String) :
    Except (List Err) Final :=
  let comps := splitPath path
  match comps.getLast? with
  | none => .ok (.entry cwd "" none)
  | some last =>
    match walkDirs cfg root cwd comps.dropLast with
    | .error e => .error e
    | .ok p =>
      if isDot last then
        match stepComp cfg root p last with
        | .ok r => .ok (.dot (some r))
        | .error _ => .ok (.dot none)
      else
        match getAt cfg root p with
        | some d => .ok (.entry p last (findEntry cfg d last))
        | none => .error [.notFound]

/-! ## Operations -/

inductive Op where
  | createFile (cwd : List String) (path : String)
  | createDir (cwd : List String) (path : String)
  | openFile (cwd : List String) (path : String)
  | openDir (cwd : List String) (path : String)
  | list (cwd : List String)
  | remove (cwd : List String) (path : String)
  | rename (cwd : List String) (src : String) (dstCwd : List String) (dst : String)
  deriving Repr, Inhabited

structure Outcome where
  /-- acceptable error kinds; `[]` = the call must succeed (or fail for lack of resources if `needsSpace`) -/
  errs : List Err := []
  /-- the tree after success -/
  tree : TNode
  /-- success stores something new: `noSpace` / `writeZero` are acceptable instead, leaving the tree unchanged -/
  needsSpace : Bool := false
  /-- canonical path of the object opened / created / listed -/
  target : List String := []
  /-- rows of a listing: stored name, is directory, size -/
  listing : List (String × Bool × Nat) := []
  /-- rename: canonical path before and after (for re-basing the paths of live handles) -/
  moved : Option (List String × List String) := none

def failWith (t : TNode) (errs : List Err) : Outcome := { errs := errs, tree := t }

/-- error for a name that cannot be created: the validity verdict, `invalidInput` if the predicate lets it pass -/
def nameErr (cfg : TreeCfg) (name : String) : List Err :=
  match cfg.validName name with
  | some e => [e]
  | none => [.invalidInput]

def evalCreate (cfg : TreeCfg) (t : TNode) (cwd : List String) (path : String) (wantDir : Bool) : Outcome :=
  match resolveParent cfg t cwd path with
  | .error e => failWith t e
  -- `.`/`..` can never be created: in the root (where they do not exist) the call is invalid input
  | .ok (.dot none) => failWith t [.invalidInput]
  | .ok (.dot (some (p, _))) => if wantDir then { tree := t, target := p } else failWith t [.invalidInput]
  | .ok (.entry parent _ (some (nm, c))) =>
    if c.isDir == wantDir then { tree := t, target := parent ++ [nm] } else failWith t [.invalidInput]
  | .ok (.entry parent given none) =>
    if given == "" then failWith t (nameErr cfg "")
    else match cfg.validName given with
      | some e => failWith t [e]
      | none =>
        let fresh := if wantDir then TNode.emptyDir else TNode.file ByteArray.empty
        { tree := updateAt cfg (insertChild given fresh) parent t, needsSpace := true, target := parent ++ [given] }

def evalOpen (cfg : TreeCfg) (t : TNode) (cwd : List String) (path : String) (wantDir : Bool) : Outcome :=
  match resolve cfg t cwd path with
  | .error e => failWith t e
  | .ok (p, n) => if n.isDir == wantDir then { tree := t, target := p } else failWith t [.invalidInput]

def evalList (cfg : TreeCfg) (t : TNode) (cwd : List String) : Outcome :=
  match getAt cfg t cwd with
  | some (.dir ch) => { tree := t, target := cwd, listing := ch.map fun (nm, c) => (nm, c.isDir, c.size) }
  | some (.file _) => failWith t [.invalidInput]
  | none => failWith t [.notFound]

def evalRemove (cfg : TreeCfg) (t : TNode) (cwd : List String) (path : String) : Outcome :=
  match resolveParent cfg t cwd path with
  | .error e => failWith t e
  | .ok (.dot none) => failWith t [.invalidInput]
  | .ok (.dot (some _)) => failWith t [.invalidInput]
  | .ok (.entry _ _ none) => failWith t [.notFound]
  | .ok (.entry parent _ (some (nm, c))) =>
    if c.isDir && !c.children.isEmpty then failWith t [.dirNotEmpty]
    else { tree := updateAt cfg (eraseChild cfg nm) parent t, target := parent ++ [nm] }

def isPrefixOf (cfg : TreeCfg) : List String → List String → Bool
  | [], _ => true
  | _ :: _, [] => false
  | a :: as, b :: bs => cfg.same a b && isPrefixOf cfg as bs

def evalRename (cfg : TreeCfg) (t : TNode) (cwd : List String) (src : String) (dcwd : List String) (dst : String) :
    Outcome :=
  -- source and destination are judged independently; every error that applies is acceptable
  let srcR : Except (List Err) (List String × String × TNode) :=
    match resolveParent cfg t cwd src with
    | .error e => .error e
    | .ok (.dot none) => .error [.invalidInput]
    | .ok (.dot (some _)) => .error [.invalidInput]
    | .ok (.entry _ _ none) => .error [.notFound]
    | .ok (.entry parent _ (some (nm, c))) => .ok (parent, nm, c)
  let dstR : Except (List Err) (List String × String × Option String) :=
    match resolveParent cfg t dcwd dst with
    | .error e => .error e
    | .ok (.dot none) => .error [.invalidInput]
    | .ok (.dot (some _)) => .error [.invalidInput]
    | .ok (.entry parent given none) =>
      if given == "" then .error (nameErr cfg "")
      else match cfg.validName given with
        | some e => .error [e]
        | none => .ok (parent, given, none)
    | .ok (.entry parent given (some (nm, _))) => .ok (parent, given, some nm)
  match srcR, dstR with
  | .error a, .error b => failWith t (a ++ b)
  | .error a, .ok (_, _, ex) => failWith t (a ++ if ex.isSome then [.alreadyExists] else [])
  | .ok _, .error b => failWith t b
  | .ok (sp, snm, node), .ok (dp, given, ex) =>
    let sameDir := sp.length == dp.length && isPrefixOf cfg sp dp
    match ex with
    | some dnm =>
      -- the destination exists: fine only if it is the source entry itself (also a case-only change): no-op
      if sameDir && cfg.same dnm snm then { tree := t, target := sp ++ [snm] }
      -- a directory moved into its own subtree onto an existing name: both errors apply
      else if node.isDir && isPrefixOf cfg (sp ++ [snm]) dp then failWith t [.alreadyExists, .invalidInput]
      else failWith t [.alreadyExists]
    | none =>
      if node.isDir && isPrefixOf cfg (sp ++ [snm]) dp then failWith t [.invalidInput]
      else
        let t1 := updateAt cfg (eraseChild cfg snm) sp t
        let t2 := updateAt cfg (insertChild given node) dp t1
        { tree := t2, needsSpace := true, target := dp ++ [given], moved := some (sp ++ [snm], dp ++ [given]) }

/-- what the specification says about one operation -/
def evalOp (cfg : TreeCfg) (t : TNode) : Op → Outcome
  | .createFile cwd p => evalCreate cfg t cwd p false
  | .createDir cwd p => evalCreate cfg t cwd p true
  | .openFile cwd p => evalOpen cfg t cwd p false
  | .openDir cwd p => evalOpen cfg t cwd p true
  | .list cwd => evalList cfg t cwd
  | .remove cwd p => evalRemove cfg t cwd p
  | .rename cwd s d p => evalRename cfg t cwd s d p

/-- re-base a canonical path after `old` was renamed to `new` -/
def remapPath (cfg : TreeCfg) (old new p : List String) : List String :=
  if isPrefixOf cfg old p then new ++ p.drop old.length else p

/-! ## Checker -/

inductive Obs where
  | ok
  /-- rows of a listing: name, is directory, size; `.` and `..` rows are ignored -/
  | okList (rows : List (String × Bool × Nat))
  | err (e : Err)
  deriving Repr, Inhabited

def errIsIo : Err → Bool
  | .io _ => true
  | _ => false

def errIsResource : Err → Bool
  | .noSpace => true
  | .writeZero => true
  | _ => false

def showErr (e : Err) : String := s!"{e.code}"

def sortRows (rows : List (String × Bool × Nat)) : List (String × Bool × Nat) :=
  (rows.toArray.qsort fun a b => a.1 < b.1).toList

/-- Is the observed result one the specification allows, and what is the tree afterwards?
    * success: must be allowed (`errs = []`), a listing must show exactly the children (names exact, order free);
    * an error among the acceptable kinds: tree unchanged;
    * `noSpace` / `writeZero`: allowed iff success would have needed new storage; tree unchanged;
    * `io`: always allowed (C09 is about those); the tree is returned unchanged — the caller should re-synchronise
      from the image, the property does not say what an I/O failure leaves behind. -/
def step (cfg : TreeCfg) (t : TNode) (op : Op) (obs : Obs) : Except String TNode :=
  let out := evalOp cfg t op
  match obs with
  | .err e =>
    if errIsIo e then .ok t
    else if out.errs.contains e then .ok t
    else if errIsResource e && out.errs.isEmpty && out.needsSpace then .ok t
    else if out.errs.isEmpty then .error s!"unexpected-error got {showErr e}, the call must succeed"
    else .error s!"wrong-error got {showErr e}, acceptable {out.errs.map showErr}"
  | .ok =>
    if out.errs.isEmpty then .ok out.tree
    else .error s!"unexpected-success acceptable errors {out.errs.map showErr}"
  | .okList rows =>
    if !out.errs.isEmpty then .error s!"unexpected-success acceptable errors {out.errs.map showErr}"
    else
      let got := sortRows (rows.filter fun r => !isDot r.1)
      let want := sortRows out.listing
      if got == want then .ok out.tree
      else
        let show3 (r : String × Bool × Nat) : String := s!"{r.1}{if r.2.1 then "/" else ""}:{r.2.2}"
        match (got.zip want).find? fun (a, b) => a != b with
        | some (a, b) => .error s!"listing-differs first difference: listed {show3 a}, spec {show3 b} ({got.length} vs {want.length} rows)"
        | none => .error s!"listing-differs listed {got.map (·.1)}, spec {want.map (·.1)}"

/-! ## Relation to decoded images -/

mutual
/-- names (exact, case-preserving), kinds and file contents agree; order of children is irrelevant -/
def equivTree : TNode → Node → Bool
  | .file c, .file _ c' => c == c'
  | .dir ch, .dir _ _ ch' => ch.length == ch'.length && equivChildren ch ch'
  | _, _ => false
/-- every spec child has an equal image child of the same name -/
def equivChildren : List (String × TNode) → List Node → Bool
  | [], _ => true
  | (nm, c) :: rest, ns => equivFind nm c ns && equivChildren rest ns
def equivFind (nm : String) (c : TNode) : List Node → Bool
  | [] => false
  | n :: ns => (n.name == nm && equivTree c n) || equivFind nm c ns
end

mutual
/-- abstraction of a decoded image tree -/
def TNode.ofNode : Node → TNode
  | .file _ c => .file c
  | .dir _ _ ch => .dir (ofNodes ch)
def ofNodes : List Node → List (String × TNode)
  | [] => []
  | n :: ns => (n.name, TNode.ofNode n) :: ofNodes ns
end

/-- first difference between the spec tree and a decoded image tree, for messages -/
def diffTree (cfg : TreeCfg) (t : TNode) (root : Node) : Option String :=
  if equivTree t root then none else
  let a := (flatten root).map fun f => (f.path, f.isDir, f.content)
  -- flatten the spec tree through its decoded-shape twin is not possible; report counts and the first image path
  -- that is missing from / different in the spec tree
  let bad := a.find? fun (p, isD, c) =>
    match getAt cfg t (p.splitOn "/") with
    | some (.file c') => isD || c' != c
    | some (.dir _) => !isD
    | none => true
  match bad with
  | some (p, _, _) => some s!"image entry '{p}' is missing from or differs in the spec tree"
  | none => some "spec tree has an entry the image lacks"

end FatVerif.Spec
