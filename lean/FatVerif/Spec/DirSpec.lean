import FatVerif.Model.Basic
/-!
# Independent specification parser for a directory's slot list (FAT long-name rules)

Written from the FAT specification (Microsoft "Long Directory Entries"), not from `LongNameBuilder`:
for each short entry the long name is found by scanning BACKWARDS from the short entry: the slot directly before it
must carry ordinal 1, the one before that ordinal 2, … until a slot carrying `LAST_LONG_ENTRY` (0x40); every slot of
the set must carry the checksum of the short name.  A set is at most 20 slots (255 characters).  The name is the
units up to the first 0x0000 terminator (0xFFFF padding after it), at most 255 units.

Conventions shared with the implementation (documented, not flagged):
* ordinal = `order & 0x1F`, `LAST_LONG_ENTRY = order & 0x40`; bits 0x20 and 0x80 of the order byte are ignored;
* a slot is a long-name slot iff `attr & 0x0F = 0x0F` after masking the attribute byte with 0x3F
  (the specification's test is `(attr & 0x3F) = 0x0F`);
* the range of an entry starts at the first slot of the block of long-name slots directly before the short entry
  (orphans included);
* a volume-label entry is an entry unless `skipVolume` (as `Dir::iter` does).
-/
namespace FatVerif.DirSpec

/-- byte `i` of a slot -/
def b (s : List Nat) (i : Nat) : Nat := s.getD i 0

/-- u16 little endian at offset `o` -/
def w (s : List Nat) (o : Nat) : Nat := b s o + 256 * b s (o + 1)

/-- LDIR_Name1 (5 units at 1), LDIR_Name2 (6 units at 14), LDIR_Name3 (2 units at 28) -/
def ldirName (s : List Nat) : List Nat :=
  [w s 1, w s 3, w s 5, w s 7, w s 9] ++ [w s 14, w s 16, w s 18, w s 20, w s 22, w s 24] ++ [w s 28, w s 30]

def ordNum (s : List Nat) : Nat := b s 0 % 32
def ordLast (s : List Nat) : Bool := b s 0 / 64 % 2 == 1
def ldirChk (s : List Nat) : Nat := b s 13

def isFree (s : List Nat) : Bool := b s 0 == 0xE5
def isEndMark (s : List Nat) : Bool := b s 0 == 0
def isLong (s : List Nat) : Bool := b s 11 % 64 % 16 == 15
def isLabel (s : List Nat) : Bool := b s 11 % 64 / 8 % 2 == 1

def shortName (s : List Nat) : List Nat := (List.range 11).map (b s)

/-- Backward scan.  `before` = the long-name slots preceding the short entry, NEAREST FIRST; `k` = the ordinal the
    head must carry; `acc` = units of ordinals `1 … k-1`.  Result: all `13·n` units of the complete set. -/
def specRun (c : Nat) : List (List Nat) → Nat → List Nat → Option (List Nat)
  | [], _, _ => none
  | s :: before, k, acc =>
    if k > 20 then none
    else if ldirChk s ≠ c then none
    else if ordNum s ≠ k then none
    else if ordLast s then some (acc ++ ldirName s)
    else specRun c before (k + 1) (acc ++ ldirName s)

/-- the name proper: units before the first 0x0000 -/
def nameOf (r : List Nat) : List Nat := r.takeWhile (· ≠ 0)

/-- after the name: nothing, or one 0x0000 then only 0xFFFF -/
def wellPadded (r : List Nat) : Bool :=
  match r.dropWhile (· ≠ 0) with
  | [] => true
  | _ :: pad => pad.all (· == 0xFFFF)

/-- what the implementation does instead: drop ALL trailing 0x0000 / 0xFFFF units -/
def dropTrailingPads (r : List Nat) : List Nat :=
  (r.reverse.dropWhile fun u => u == 0 || u == 0xFFFF).reverse

structure SpecEntry where
  sfn : List Nat
  /-- all units of the complete long-name set directly before the short entry, if there is one -/
  run : Option (List Nat)
  /-- index of the first slot of the block of long-name slots directly before the short entry -/
  beginIdx : Nat
  /-- index of the slot after the short entry -/
  endIdx : Nat
  deriving DecidableEq, Repr

/-- the long name per the specification: 1 … 255 units before the terminator -/
def SpecEntry.name (e : SpecEntry) : Option (List Nat) :=
  match e.run with
  | none => none
  | some r => if 1 ≤ (nameOf r).length ∧ (nameOf r).length ≤ 255 then some (nameOf r) else none

/-- `pending` = long-name slots since the last short/free/label slot, nearest first -/
def specLoop (skipVolume : Bool) : List (List Nat) → Nat → List (List Nat) → List SpecEntry
  | [], _, _ => []
  | s :: rest, idx, pending =>
    if isEndMark s then []
    else if isFree s then specLoop skipVolume rest (idx + 1) []
    else if isLong s then specLoop skipVolume rest (idx + 1) (s :: pending)
    else if skipVolume && isLabel s then specLoop skipVolume rest (idx + 1) []
    else
      ⟨s, specRun (lfnChecksum (shortName s)) pending 1 [], idx - pending.length, idx + 1⟩ ::
        specLoop skipVolume rest (idx + 1) []

/-- entries of a directory whose slots are `slots` (stops at the end marker or at the end of the list) -/
def specEntries (skipVolume : Bool) (slots : List (List Nat)) : List SpecEntry :=
  specLoop skipVolume slots 0 []

/-! ## the fields of a short entry (FAT specification §6 "Directory Structure"), independent of `Model/DirEntry.lean` -/

/-- u32 little endian at offset `o` -/
def d32 (s : List Nat) (o : Nat) : Nat := b s o + 256 * b s (o + 1) + 65536 * b s (o + 2) + 16777216 * b s (o + 3)

/-- a date word: bits 15–9 year since 1980, bits 8–5 month, bits 4–0 day -/
def specDate (raw : Nat) : Nat × Nat × Nat := (1980 + raw / 512, raw / 32 % 16, raw % 32)

/-- a time word (bits 15–11 hours, 10–5 minutes, 4–0 two-second count) and the 10 ms count (0–199) of `DIR_CrtTimeTenth`:
    (hour, minute, second, millisecond) -/
def specTime (raw tenth : Nat) : Nat × Nat × Nat × Nat :=
  (raw / 2048, raw / 32 % 64, 2 * (raw % 32) + tenth / 100, 10 * (tenth % 100))

/-- strip trailing spaces -/
def rstrip (l : List Nat) : List Nat := (l.reverse.dropWhile (· == 32)).reverse

/-- the displayed 8.3 name of an 11-byte `DIR_Name`: base without trailing spaces, `.` and the extension without
    trailing spaces if that is non-empty; a first byte `0x05` stands for `0xE5` -/
def displayShort (raw : List Nat) : List Nat :=
  let base := rstrip (raw.take 8)
  let ext := rstrip (raw.drop 8)
  let s := if ext.isEmpty then base else base ++ [46] ++ ext
  match s with
  | 5 :: t => 0xE5 :: t
  | _ => s

def lowerByte (c : Nat) : Nat := if 65 ≤ c ∧ c ≤ 90 then c + 32 else c

/-- the displayed name under the Windows-NT case flags of `DIR_NTRes` (bit 3: base, bit 4: extension in lower case) -/
def displayShortNT (flags : Nat) (raw : List Nat) : List Nat :=
  displayShort ((if flags / 8 % 2 = 1 then (raw.take 8).map lowerByte else raw.take 8) ++
                (if flags / 16 % 2 = 1 then (raw.drop 8).map lowerByte else raw.drop 8))

/-- what a listing shows of one entry -/
structure Row where
  /-- the long name (UTF-16 units), if the entry has a valid one -/
  longName : Option (List Nat)
  /-- the displayed 8.3 name (OEM bytes) -/
  shortName : List Nat
  /-- the 8.3 name with the NT case flags applied: what is shown as THE name when there is no long name -/
  shortNameNT : List Nat
  isDir : Bool
  /-- attribute bits (the six defined ones) -/
  attrs : Nat
  size : Nat
  /-- first cluster, `none` for 0; the high word counts on FAT32 only -/
  firstCluster : Option Nat
  created : (Nat × Nat × Nat) × (Nat × Nat × Nat × Nat)
  accessed : Nat × Nat × Nat
  modified : (Nat × Nat × Nat) × (Nat × Nat × Nat × Nat)
  /-- the slots the entry occupies: `[beginIdx, endIdx)` -/
  beginIdx : Nat
  endIdx : Nat
  deriving DecidableEq, Repr

def firstClusterOf (fat32 : Bool) (s : List Nat) : Option Nat :=
  let n := (if fat32 then w s 20 else 0) * 65536 + w s 26
  if n = 0 then none else some n

/-- the row of a specification entry -/
def rowOf (fat32 : Bool) (e : SpecEntry) : Row :=
  { longName := e.name
    shortName := displayShort (shortName e.sfn)
    shortNameNT := displayShortNT (b e.sfn 12) (shortName e.sfn)
    isDir := b e.sfn 11 % 64 / 16 % 2 == 1
    attrs := b e.sfn 11 % 64
    size := d32 e.sfn 28
    firstCluster := firstClusterOf fat32 e.sfn
    created := (specDate (w e.sfn 16), specTime (w e.sfn 14) (b e.sfn 13))
    accessed := specDate (w e.sfn 18)
    modified := (specDate (w e.sfn 24), specTime (w e.sfn 22) 0)
    beginIdx := e.beginIdx
    endIdx := e.endIdx }

/-- the rows of a directory whose slots are `slots` (what `Dir::iter()` must show) -/
def specRows (fat32 : Bool) (slots : List (List Nat)) : List Row :=
  (specEntries true slots).map (rowOf fat32)

end FatVerif.DirSpec
