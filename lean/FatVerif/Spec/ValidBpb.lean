/-!
# `ValidBpb` — what property C06 demands of the boot sector produced by formatting

Written from the property text, independent of the model in `Model/Format.lean`: own decoder of the 512 bytes,
unbounded `Nat` arithmetic, no reference to the library's sizing code.

"…its FAT width follows from its cluster count and equals any requested width, each table can address every
cluster, all regions fit inside the declared size…"
-/
namespace FatVerif.FormatSpec

/-- what the caller asked for (the part of `FormatVolumeOptions` + volume size that constrains the boot sector) -/
structure Request where
  bps : Nat
  total : Nat
  bpc : Option Nat := none
  width : Option Nat := none      -- 12 / 16 / 32
  rootEntries : Nat := 512
  fats : Nat := 2
  media : Nat := 0xF8
  spt : Nat := 0x20
  heads : Nat := 0x40
  driveNum : Option Nat := none
  volumeId : Nat := 0x12345678
  label : Option (List Nat) := none
  deriving DecidableEq, Repr

/-- decoded boot sector -/
structure BpbView where
  jmp : List Nat
  oem : List Nat
  bps : Nat
  spc : Nat
  reserved : Nat
  fats : Nat
  rootEntries : Nat
  ts16 : Nat
  media : Nat
  spf16 : Nat
  spt : Nat
  heads : Nat
  hidden : Nat
  ts32 : Nat
  spf32 : Nat
  extFlags : Nat
  fsVersion : Nat
  rootCluster : Nat
  fsInfo : Nat
  backup : Nat
  driveNum : Nat
  reserved1 : Nat
  extSig : Nat
  volumeId : Nat
  label : List Nat
  fsType : List Nat
  sig : List Nat
  deriving DecidableEq, Repr

def rd8 (bs : List Nat) (i : Nat) : Nat := bs.getD i 0
def rd16 (bs : List Nat) (i : Nat) : Nat := rd8 bs i + 256 * rd8 bs (i + 1)
def rd32 (bs : List Nat) (i : Nat) : Nat :=
  rd8 bs i + 256 * rd8 bs (i + 1) + 65536 * rd8 bs (i + 2) + 16777216 * rd8 bs (i + 3)
def rdN (bs : List Nat) (i n : Nat) : List Nat := (List.range n).map fun k => rd8 bs (i + k)

/-- decode per the on-disk layout (Microsoft FAT specification): common BPB at 11..36, then either the FAT32
    extension (36..64) followed by the extended boot record at 64, or the extended boot record at 36.
    The layout is selected by `BPB_FATSz16 = 0`. -/
def decodeBoot (bs : List Nat) : BpbView :=
  let ext32 := rd16 bs 22 = 0
  let e := if ext32 then 64 else 36
  { jmp := rdN bs 0 3
    oem := rdN bs 3 8
    bps := rd16 bs 11
    spc := rd8 bs 13
    reserved := rd16 bs 14
    fats := rd8 bs 16
    rootEntries := rd16 bs 17
    ts16 := rd16 bs 19
    media := rd8 bs 21
    spf16 := rd16 bs 22
    spt := rd16 bs 24
    heads := rd16 bs 26
    hidden := rd32 bs 28
    ts32 := rd32 bs 32
    spf32 := if ext32 then rd32 bs 36 else 0
    extFlags := if ext32 then rd16 bs 40 else 0
    fsVersion := if ext32 then rd16 bs 42 else 0
    rootCluster := if ext32 then rd32 bs 44 else 0
    fsInfo := if ext32 then rd16 bs 48 else 0
    backup := if ext32 then rd16 bs 50 else 0
    driveNum := rd8 bs e
    reserved1 := rd8 bs (e + 1)
    extSig := rd8 bs (e + 2)
    volumeId := rd32 bs (e + 3)
    label := rdN bs (e + 7) 11
    fsType := rdN bs (e + 18) 8
    sig := rdN bs 510 2 }

/-! ## derived geometry (unbounded arithmetic) -/

def BpbView.spf (v : BpbView) : Nat := if v.spf16 ≠ 0 then v.spf16 else v.spf32
def BpbView.total (v : BpbView) : Nat := if v.ts16 ≠ 0 then v.ts16 else v.ts32
def BpbView.rootSecs (v : BpbView) : Nat := (v.rootEntries * 32 + v.bps - 1) / v.bps
def BpbView.firstData (v : BpbView) : Nat := v.reserved + v.fats * v.spf + v.rootSecs
def BpbView.clusters (v : BpbView) : Nat := (v.total - v.firstData) / v.spc

/-- the FAT width is a function of the cluster count -/
def widthOf (clusters : Nat) : Nat := if clusters < 4085 then 12 else if clusters < 65525 then 16 else 32
def BpbView.width (v : BpbView) : Nat := widthOf v.clusters

def fsTypeText (w : Nat) : List Nat :=
  [0x46, 0x41, 0x54] ++ (if w = 12 then [0x31, 0x32] else if w = 16 then [0x31, 0x36] else [0x33, 0x32]) ++ [0x20, 0x20, 0x20]

/-! ## clauses -/

/-- sector size: a power of two in 512…4096, as requested -/
def CBps (v : BpbView) (r : Request) : Prop := v.bps ∈ [512, 1024, 2048, 4096] ∧ v.bps = r.bps
/-- sectors per cluster: a power of two ≤ 128 -/
def CSpc (v : BpbView) : Prop := v.spc ∈ [1, 2, 4, 8, 16, 32, 64, 128]
/-- cluster size: the requested one; chosen automatically it stays ≤ 32 KiB (greatest compatibility) -/
def CClusterSize (v : BpbView) (r : Request) : Prop :=
  match r.bpc with
  | some c => v.spc * v.bps = c
  | none => v.spc * v.bps ≤ 32768
def CReserved (v : BpbView) : Prop := 1 ≤ v.reserved
def CFats (v : BpbView) (r : Request) : Prop := (v.fats = 1 ∨ v.fats = 2) ∧ v.fats = r.fats
/-- declared size = the size formatted; exactly one of the two size fields is used -/
def CTotal (v : BpbView) (r : Request) : Prop :=
  v.total = r.total ∧ (v.ts16 ≠ 0 → v.ts32 = 0) ∧ v.ts16 < 65536 ∧ v.ts32 < 4294967296
/-- all regions fit inside the declared size and the data region is not empty -/
def CFits (v : BpbView) : Prop :=
  v.firstData < v.total ∧ v.reserved + v.fats * v.spf + v.rootSecs + v.clusters * v.spc ≤ v.total
/-- width follows from the cluster count, is what the layout says (`FATSz16 = 0` ⇔ FAT32), what was reported,
    what was requested, and what the type label says -/
def CWidth (v : BpbView) (r : Request) (reported : Nat) : Prop :=
  (v.spf16 = 0 ↔ v.width = 32) ∧ reported = v.width ∧ (∀ w, r.width = some w → w = v.width) ∧
  v.fsType = fsTypeText v.width
/-- each FAT holds an entry for every cluster plus the two reserved entries -/
def CCapacity (v : BpbView) : Prop := v.clusters + 2 ≤ v.spf * v.bps * 8 / v.width
/-- FAT32: cluster numbers stay below the reserved values 0x0FFFFFF7… -/
def CMaxClusters (v : BpbView) : Prop := v.width = 32 → v.clusters ≤ 0x0FFFFFF4
def CFat32Fields (v : BpbView) : Prop :=
  v.width = 32 → v.rootCluster = 2 ∧ v.fsInfo = 1 ∧ v.backup = 6 ∧ v.fsInfo < v.reserved ∧ v.backup < v.reserved ∧
    v.rootEntries = 0 ∧ v.spf16 = 0 ∧ v.spf32 ≠ 0 ∧ v.ts16 = 0 ∧ v.fsVersion = 0 ∧ v.extFlags = 0
def CFat1xFields (v : BpbView) (r : Request) : Prop :=
  v.width ≠ 32 → v.rootEntries = r.rootEntries ∧ v.rootEntries ≠ 0 ∧ v.spf16 ≠ 0
def CSignature (v : BpbView) : Prop :=
  v.sig = [0x55, 0xAA] ∧ v.extSig = 0x29 ∧ v.hidden = 0 ∧ v.reserved1 = 0 ∧ (v.jmp.head? = some 0xEB ∨ v.jmp.head? = some 0xE9)
/-- pass-through fields -/
def CEcho (v : BpbView) (r : Request) : Prop :=
  v.media = r.media ∧ v.spt = r.spt ∧ v.heads = r.heads ∧ v.volumeId = r.volumeId ∧
  v.label = r.label.getD [0x4E, 0x4F, 0x20, 0x4E, 0x41, 0x4D, 0x45, 0x20, 0x20, 0x20, 0x20] ∧
  v.driveNum = r.driveNum.getD (if v.width = 12 then 0 else 0x80)

/-- FAT12/16: the root directory entries fill whole sectors (Microsoft: "should"; the library documents it as the
    caller's responsibility and only warns). Kept OUT of `ValidBpb`; see `Props/C06.lean`. -/
def RootFillsSectors (v : BpbView) : Prop := v.width ≠ 32 → (v.rootEntries * 32) % v.bps = 0

instance (v r) : Decidable (CBps v r) := by unfold CBps; infer_instance
instance (v) : Decidable (CSpc v) := by unfold CSpc; infer_instance
instance (v r) : Decidable (CClusterSize v r) := by unfold CClusterSize; split <;> infer_instance
instance (v) : Decidable (CReserved v) := by unfold CReserved; infer_instance
instance (v r) : Decidable (CFats v r) := by unfold CFats; infer_instance
instance (v r) : Decidable (CTotal v r) := by unfold CTotal; infer_instance
instance (v) : Decidable (CFits v) := by unfold CFits; infer_instance
instance (v r n) : Decidable (CWidth v r n) := by
  unfold CWidth
  have : Decidable (∀ w, r.width = some w → w = v.width) :=
    match h : r.width with
    | none => isTrue (by intro w hw; cases hw)
    | some w0 => if h2 : w0 = v.width then isTrue (by intro w hw; cases hw; exact h2)
                 else isFalse (fun hh => h2 (hh w0 rfl))
  infer_instance
instance (v) : Decidable (CCapacity v) := by unfold CCapacity; infer_instance
instance (v) : Decidable (CMaxClusters v) := by unfold CMaxClusters; infer_instance
instance (v) : Decidable (CFat32Fields v) := by unfold CFat32Fields; infer_instance
instance (v r) : Decidable (CFat1xFields v r) := by unfold CFat1xFields; infer_instance
instance (v) : Decidable (CSignature v) := by unfold CSignature; infer_instance
instance (v r) : Decidable (CEcho v r) := by unfold CEcho; infer_instance
instance (v) : Decidable (RootFillsSectors v) := by unfold RootFillsSectors; infer_instance

/-- the boot sector `v`, reported as FAT`reported`, is a valid answer to request `r` -/
def ValidBpb (v : BpbView) (r : Request) (reported : Nat) : Prop :=
  CBps v r ∧ CSpc v ∧ CClusterSize v r ∧ CReserved v ∧ CFats v r ∧ CTotal v r ∧ CFits v ∧ CWidth v r reported ∧
  CCapacity v ∧ CMaxClusters v ∧ CFat32Fields v ∧ CFat1xFields v r ∧ CSignature v ∧ CEcho v r

/-- name of the first violated clause (the oracle's signature) -/
def firstFailing (v : BpbView) (r : Request) (reported : Nat) : Option String :=
  if ¬ CBps v r then some "bps"
  else if ¬ CSpc v then some "spc"
  else if ¬ CClusterSize v r then some "cluster-size"
  else if ¬ CReserved v then some "reserved"
  else if ¬ CFats v r then some "fats"
  else if ¬ CTotal v r then some "total"
  else if ¬ CFits v then some "regions-fit"
  else if ¬ CWidth v r reported then some "width"
  else if ¬ CCapacity v then some "fat-capacity"
  else if ¬ CMaxClusters v then some "max-clusters"
  else if ¬ CFat32Fields v then some "fat32-fields"
  else if ¬ CFat1xFields v r then some "fat1x-fields"
  else if ¬ CSignature v then some "signature"
  else if ¬ CEcho v r then some "echo"
  else none

theorem ite_not_some_eq_none {P : Prop} [Decidable P] {s : String} {x : Option String} :
    (if ¬ P then some s else x) = none ↔ P ∧ x = none := by
  by_cases h : P <;> simp [h]

theorem firstFailing_none_iff (v : BpbView) (r : Request) (n : Nat) :
    firstFailing v r n = none ↔ ValidBpb v r n := by
  unfold firstFailing ValidBpb
  simp only [ite_not_some_eq_none, and_true]

end FatVerif.FormatSpec
