import FatVerif.Spec.FatSpec
import FatVerif.Spec.Fsck
import FatVerif.Spec.Tree
import FatVerif.Spec.Regions
/-! Helpers of the history-mode property oracles that depend on the specification side only (no driver types):
    path canonicalisation on raw images, DOS timestamp decoding and listing rows, flattened views of trees. -/
namespace FatVerif.Spec

/-! ## Paths on raw images -/

/-- Best-effort simple upper-casing used for locating objects on raw images and for the C01 spec tree when the library
    is built with its `unicode` feature: ASCII, Latin-1, Latin Extended-A, the Ǆ group, Greek, Cyrillic. The library's
    full table (`char::to_uppercase`) is not available to the oracles (`OpView` does not carry it). -/
def simpleUpper (c : Char) : List Char :=
  let n := c.toNat
  let one (k : Nat) : List Char := [Char.ofNat k]
  if n < 0x80 then [c.toUpper]
  else if n = 0xDF then ['S', 'S']
  else if n = 0xFF then one 0x178
  else if 0xE0 ≤ n ∧ n ≤ 0xFE ∧ n ≠ 0xF7 then one (n - 0x20)
  else if (0x100 ≤ n ∧ n ≤ 0x137) ∨ (0x14A ≤ n ∧ n ≤ 0x177) then (if n % 2 = 1 then one (n - 1) else [c])
  else if (0x139 ≤ n ∧ n ≤ 0x148) ∨ (0x179 ≤ n ∧ n ≤ 0x17E) then (if n % 2 = 0 then one (n - 1) else [c])
  else if n = 0x17F then ['S']
  else if 0x1C4 ≤ n ∧ n ≤ 0x1CC then one (0x1C4 + (n - 0x1C4) / 3 * 3)
  else if n = 0x3C2 then one 0x3A3
  else if (0x3B1 ≤ n ∧ n ≤ 0x3C1) ∨ (0x3C3 ≤ n ∧ n ≤ 0x3CB) then one (n - 0x20)
  else if n = 0x3AC then one 0x386
  else if 0x3AD ≤ n ∧ n ≤ 0x3AF then one (n - 0x25)
  else if n = 0x3CC then one 0x38C
  else if n = 0x3CD ∨ n = 0x3CE then one (n - 0x3F)
  else if 0x430 ≤ n ∧ n ≤ 0x44F then one (n - 0x20)
  else if 0x450 ≤ n ∧ n ≤ 0x45F then one (n - 0x50)
  else [c]

def asciiFold (s : String) : String := foldName asciiUpper s
def simpleFold (s : String) : String := foldName simpleUpper s

/-- entry of a parsed directory by long or short name, ignoring case -/
def findMeta (pd : ParsedDir) (q : String) : Option EntryMeta :=
  -- exact, then ASCII case-insensitive, then best-effort Unicode case-insensitive
  let via (f : String → String) : Option EntryMeta :=
    let fq := f q
    pd.entries.find? fun e => f e.name == fq || f e.shortName == fq
  (via id).orElse fun _ => (via asciiFold).orElse fun _ => via simpleFold

/-- lexical resolution of `.` / `..` / empty components against a canonical directory path -/
def lexPath : (cur : List String) → (comps : List String) → List String
  | cur, [] => cur
  | cur, c :: rest =>
    if c == "" || c == "." then lexPath cur rest
    else if c == ".." then lexPath cur.dropLast rest
    else lexPath (cur ++ [c]) rest

/-- walk `path` from the root as far as it exists: canonical (stored) names for the existing prefix, given names
    for the rest; the entry of the last component if the whole path exists (`none` for the root) and its location
    if it is a directory -/
def canonLoop (g : Geom) (img : Img) : (path : List String) → (loc : DirLoc) → (acc : List String) →
    List String × Option EntryMeta × Option DirLoc
  | [], loc, acc => (acc, none, some loc)
  | c :: rest, loc, acc =>
    match listDir g img loc with
    | .error _ => (acc ++ c :: rest, none, none)
    | .ok pd =>
      match findMeta pd c with
      | none => (acc ++ c :: rest, none, none)
      | some e =>
        if rest.isEmpty then
          (acc ++ [e.name], some e, if e.isDir && e.firstCluster != 0 then some (.chain e.firstCluster) else none)
        else if e.isDir && e.firstCluster != 0 then canonLoop g img rest (.chain e.firstCluster) (acc ++ [e.name])
        else (acc ++ e.name :: rest, none, none)

structure PathInfo where
  /-- canonical path (stored names as far as the path exists) -/
  path : List String
  /-- the directory entry of the object, if it exists and is not the root -/
  entry : Option EntryMeta
  /-- where its slots are, if it is an existing directory (the root included) -/
  loc : Option DirLoc
  deriving Inhabited

def pathInfo (g : Geom) (img : Img) (path : List String) : PathInfo :=
  let (p, e, l) := canonLoop g img path (rootLoc g) []
  { path := p, entry := e, loc := l }

/-- directories a path passes through and leaves again by a `..` component (they are traversed, hence named, by the
    operation although they are not on the lexically resolved path) -/
def dotDotVisited : (cur : List String) → (comps : List String) → List (List String)
  | _, [] => []
  | cur, c :: rest =>
    if c == "" || c == "." then dotDotVisited cur rest
    else if c == ".." then cur :: dotDotVisited cur.dropLast rest
    else dotDotVisited (cur ++ [c]) rest

/-- canonical path named by `<dir handle path> <path argument>` in `img` -/
def resolveArg (g : Geom) (img : Img) (cwd : List String) (arg : String) : PathInfo :=
  pathInfo g img (lexPath cwd (arg.splitOn "/"))

/-- Replace every component of a `/`-separated path that names an existing entry by its 8.3 alias with that entry's
    real name (the spec tree has no aliases), walking from the directory `cwd` of `img`. `.`/`..`/empty components are
    kept; translation stops at the first component that does not exist. -/
def dealiasLoop (g : Geom) (img : Img) : (cur : Option (List String)) → (comps : List String) → List String
  | _, [] => []
  | none, comps => comps
  | some cur, c :: rest =>
    if c == "" || c == "." then c :: dealiasLoop g img (some cur) rest
    else if c == ".." then c :: dealiasLoop g img (if cur.isEmpty then none else some cur.dropLast) rest
    else
      match (pathInfo g img cur).loc with
      | none => c :: rest
      | some loc =>
        match listDir g img loc with
        | .error _ => c :: rest
        | .ok pd =>
          match findMeta pd c with
          | none => c :: rest
          | some e =>
            let c' := if simpleFold e.name == simpleFold c then c else e.name
            c' :: dealiasLoop g img (some (cur ++ [e.name])) rest

def dealias (g : Geom) (img : Img) (cwd : List String) (path : String) : String :=
  "/".intercalate (dealiasLoop g img (some cwd) (path.splitOn "/"))

/-- clusters of the object at `path` and of every directory on the way to it (the FAT32 root chain included) -/
def chainsAlong (g : Geom) (img : Img) : (path : List String) → (loc : DirLoc) → Std.HashSet Nat → Std.HashSet Nat
  | path, loc, acc =>
    let acc := match loc with
      | .chain first => (match chainOf g img first with
          | .ok cs => cs.foldl (fun s c => s.insert c) acc
          | .error _ => acc)
      | .fixedRoot => acc
    match path with
    | [] => acc
    | c :: rest =>
      match listDir g img loc with
      | .error _ => acc
      | .ok pd =>
        match findMeta pd c with
        | none => acc
        | some e =>
          if e.firstCluster == 0 then acc
          else if e.isDir then chainsAlong g img rest (.chain e.firstCluster) acc
          else match chainOf g img e.firstCluster with
            | .ok cs => cs.foldl (fun s c => s.insert c) acc
            | .error _ => acc

def showPath (p : List String) : String := "/" ++ "/".intercalate p

/-! ## Timestamps -/

def dosDate (d : Nat) : String := s!"{1980 + d / 512}-{d / 32 % 16}-{d % 32}"
def dosTimeMs (t tenth : Nat) : String := s!"{t / 2048}:{t / 32 % 64}:{t % 32 * 2 + tenth / 100}.{tenth % 100 * 10}"
def dosTime (t : Nat) : String := s!"{t / 2048}:{t / 32 % 64}:{t % 32 * 2}"

/-- the seven raw time fields -/
def EntryMeta.times (e : EntryMeta) : List Nat := [e.crtTenth, e.crtTime, e.crtDate, e.accDate, e.wrtTime, e.wrtDate]

def hexDigitC (n : Nat) : Char := if n < 10 then Char.ofNat (48 + n) else Char.ofNat (87 + n)
def hexOf (bs : List Nat) : String :=
  if bs.isEmpty then "-" else String.ofList (bs.flatMap fun b => [hexDigitC (b / 16 % 16), hexDigitC (b % 16)])
def hexUnits (us : List Nat) : String :=
  if us.isEmpty then "-" else
  String.ofList (us.flatMap fun u => [hexDigitC (u / 4096 % 16), hexDigitC (u / 256 % 16), hexDigitC (u / 16 % 16), hexDigitC (u % 16)])

/-- the `L` row (without the leading `L`) the harness prints for an entry, derived from the raw slot fields -/
def expectedRow (e : EntryMeta) : String :=
  let name := hexOf (e.name.toUTF8.toList.map (·.toNat))
  -- `short_file_name_as_bytes` is the 8.3 name as stored (case flags apply to `file_name()` only)
  let short := hexOf (shortDisplayBytes e.shortRaw 0)
  let lfn := match e.longName with | some us => hexUnits us | none => "-"
  s!"{name} {short} {e.attrs} {e.size} {dosDate e.crtDate} {dosTimeMs e.crtTime e.crtTenth} {dosDate e.accDate} {dosDate e.wrtDate} {dosTime e.wrtTime} {lfn}"

/-- expected listing rows of a directory (dot entries included), sorted -/
def expectedRows (pd : ParsedDir) : Array String :=
  ((pd.dots ++ pd.entries).map expectedRow).toArray.qsort (· < ·)

/-! ## Flattened views -/

mutual
def flatMetaNode (pre : String) : Node → Array (String × EntryMeta × ByteArray) → Array (String × EntryMeta × ByteArray)
  | .file e c, acc => acc.push (pre ++ "/" ++ e.name, e, c)
  | .dir e _ ch, acc => flatMetaList (pre ++ "/" ++ e.name) ch (acc.push (pre ++ "/" ++ e.name, e, ByteArray.empty))
def flatMetaList (pre : String) : List Node → Array (String × EntryMeta × ByteArray) → Array (String × EntryMeta × ByteArray)
  | [], acc => acc
  | n :: ns, acc => flatMetaList pre ns (flatMetaNode pre n acc)
end

/-- every entry below the root: (`/a/b` path, meta, content) -/
def flatMeta (root : Node) : Array (String × EntryMeta × ByteArray) := flatMetaList "" root.children #[]

mutual
def flatTNode (pre : String) (name : String) : TNode → Array (String × Bool × ByteArray) → Array (String × Bool × ByteArray)
  | .file c, acc => acc.push (pre ++ "/" ++ name, false, c)
  | .dir ch, acc => flatTList (pre ++ "/" ++ name) ch (acc.push (pre ++ "/" ++ name, true, ByteArray.empty))
def flatTList (pre : String) : List (String × TNode) → Array (String × Bool × ByteArray) → Array (String × Bool × ByteArray)
  | [], acc => acc
  | (nm, n) :: rest, acc => flatTList pre rest (flatTNode pre nm n acc)
end

/-- every entry of a spec tree below its root: (`/a/b` path, is directory, content) -/
def flatT (t : TNode) : Array (String × Bool × ByteArray) := flatTList "" t.children #[]

/-- names and kinds: first difference between the spec tree and a decoded image tree -/
def shapeDiff (t : TNode) (root : Node) : Option String :=
  let a := (flatT t).map fun (p, d, _) => (p, d)
  let b := (flatMeta root).map fun (p, e, _) => (p, e.isDir)
  let sa := a.qsort fun x y => x.1 < y.1
  let sb := b.qsort fun x y => x.1 < y.1
  if sa == sb then none else
  let inB : Std.HashMap String Bool := sb.foldl (fun m (p, d) => m.insert p d) {}
  let inA : Std.HashMap String Bool := sa.foldl (fun m (p, d) => m.insert p d) {}
  match sa.find? fun (p, d) => inB[p]? != some d with
  | some (p, d) =>
    match inB[p]? with
    | none => some s!"spec has {if d then "dir" else "file"} '{p}', the image does not"
    | some _ => some s!"'{p}' is a {if d then "dir" else "file"} in the spec, the other kind in the image"
  | none =>
    match sb.find? fun (p, _) => !inA.contains p with
    | some (p, d) => some s!"image has {if d then "dir" else "file"} '{p}', the spec does not"
    | none => some "same paths, different multiplicity (duplicate names in the image)"

end FatVerif.Spec
