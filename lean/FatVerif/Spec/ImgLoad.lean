import FatVerif.Model.Image
/-! Loader for textual image dumps ("hex pages"), used by the specification self-tests and usable by the driver.

    Format, one record per line:
    * `size <n>` or `dev <n>`      — device size in bytes (default: end of the last record);
    * `<offset> <hex>` or `w <offset> <hex>` — bytes at a decimal offset (any length, any alignment);
    * anything else is ignored. Bytes never mentioned are 0. -/
namespace FatVerif.Spec

def hexNibble (c : UInt8) : Nat :=
  if 48 ≤ c ∧ c ≤ 57 then (c - 48).toNat
  else if 97 ≤ c ∧ c ≤ 102 then (c - 87).toNat
  else if 65 ≤ c ∧ c ≤ 70 then (c - 55).toNat
  else 0

/-- bytes of a hex string (`-` or odd trailing digit: ignored) -/
def hexToBytes (s : String) : ByteArray := Id.run do
  let u := s.toUTF8
  let n := u.size / 2
  let mut out := ByteArray.emptyWithCapacity n
  for i in [0:n] do
    out := out.push (UInt8.ofNat (16 * hexNibble (u.get! (2 * i)) + hexNibble (u.get! (2 * i + 1))))
  return out

/-- write a byte array into an image (whole aligned pages are inserted without copying) -/
def imgWriteBA (img : Img) (off : Nat) (ba : ByteArray) : Img :=
  if off % pageSize = 0 ∧ ba.size = pageSize then
    { img with pages := img.pages.insert (off / pageSize) ba }
  else img.write off (ba.toList.map (·.toNat))

def loadLine (st : Img × Nat × Option Nat) (line : String) : Img × Nat × Option Nat :=
  let (img, hi, size) := st
  match line.splitOn " " with
  | ["size", n] => (img, hi, n.toNat?)
  | ["dev", n] => (img, hi, n.toNat?)
  | ["w", o, h] | [o, h] =>
    match o.toNat? with
    | some off =>
      let ba := hexToBytes h
      (imgWriteBA img off ba, max hi (off + ba.size), size)
    | none => st
  | _ => st

/-- image described by a dump (see the module comment) -/
def loadHexPages (text : String) : Img :=
  let (img, hi, size) := (text.splitOn "\n").foldl loadLine (Img.empty 0, 0, none)
  { img with size := size.getD hi }

/-- dump an image in the format `loadHexPages` reads (pages that are entirely zero are omitted) -/
def dumpHexPages (img : Img) : String := Id.run do
  let hexd (n : Nat) : Char := if n < 10 then Char.ofNat (48 + n) else Char.ofNat (87 + n)
  let mut out := s!"size {img.size}\n"
  let keys := img.pages.keys.toArray.qsort (· < ·)
  for pg in keys do
    match img.pages[pg]? with
    | some p =>
      if p.data.any (· != 0) then
        let cs : List Char := p.toList.flatMap fun b => [hexd (b.toNat / 16), hexd (b.toNat % 16)]
        out := out ++ s!"{pg * pageSize} " ++ String.ofList cs ++ "\n"
    | none => pure ()
  return out

end FatVerif.Spec
