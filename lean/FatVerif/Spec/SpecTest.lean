import FatVerif.Spec.FatSpec
import FatVerif.Spec.Fsck
import FatVerif.Spec.Tree
import FatVerif.Spec.Regions
import FatVerif.Spec.ImgLoad
/-! Cheap self-tests of the specification side (run by `lake build`; a failing check fails the build), and the
    small generators they use (`genRun`, `tinyImage`), which `Props/SpecSanity.lean` reuses for kernel-checked facts. -/
namespace FatVerif.Spec.Test
open FatVerif FatVerif.Spec

/-! ## Generators (written from the specification, test support only) -/

def padTo (n : Nat) (fill : Nat) (l : List Nat) : List Nat := l ++ List.replicate (n - l.length) fill

def le16b (v : Nat) : List Nat := [v % 256, v / 256 % 256]
def le32b (v : Nat) : List Nat := [v % 256, v / 256 % 256, v / 65536 % 256, v / 16777216 % 256]

/-- the 32 bytes of one long-name slot carrying 13 units -/
def lfnSlotBytes (ord chk : Nat) (units : List Nat) : List Nat :=
  let u := units.flatMap le16b
  [ord] ++ u.take 10 ++ [0x0F, 0, chk] ++ (u.drop 10).take 12 ++ [0, 0] ++ (u.drop 22).take 4

def chunk13 : (fuel : Nat) → List Nat → List (List Nat)
  | 0, _ => []
  | fuel + 1, l => if l.isEmpty then [] else l.take 13 :: chunk13 fuel (l.drop 13)

/-- the long-name slots (disk order) for `name` in front of the short entry with the 11-byte name `sfn` -/
def genRun (name : List Nat) (sfn : List Nat) : List (List Nat) :=
  let n := (name.length + 12) / 13
  let padded := padTo (13 * n) 0xFFFF (if name.length % 13 = 0 then name else name ++ [0])
  let chunks := chunk13 n padded
  let chk := sfnChecksum sfn
  ((List.range n).map fun i =>
    let ord := i + 1
    lfnSlotBytes (if ord = n then 0x40 + ord else ord) chk (chunks.getD i [])).reverse

def sfnSlotBytes (name11 : List Nat) (attr ntRes cluster size : Nat) : List Nat :=
  name11 ++ [attr, ntRes, 0, 0, 0, 0x21, 0x50, 0x21, 0x50] ++ le16b (cluster / 65536) ++ [0, 0, 0x21, 0x50] ++
    le16b (cluster % 65536) ++ le32b size

def mkSlots (pos : Nat) (l : List (List Nat)) : List Slot :=
  (List.range l.length).map fun i => { pos := pos + 32 * i, bytes := (l.getD i []).toArray }

def asciiUnits (s : String) : List Nat := s.toList.map Char.toNat
def name11Of (s : String) : List Nat := s.toList.map Char.toNat

/-- boot sector of a tiny FAT12 volume: 512-byte sectors, 1 sector per cluster, 1 reserved, 2 FATs of 1 sector,
    16 root entries, 24 sectors → 20 clusters; data starts at sector 4 -/
def tinyBoot : List Nat :=
  let b := [0xEB, 0x3C, 0x90] ++ name11Of "MSWIN4.1" ++ le16b 512 ++ [1] ++ le16b 1 ++ [2] ++ le16b 16 ++ le16b 24 ++
    [0xF8] ++ le16b 1 ++ le16b 1 ++ le16b 1 ++ le32b 0 ++ le32b 0 ++ [0x80, 0, 0x29] ++ le32b 0x12345678 ++
    name11Of "NO NAME    " ++ name11Of "FAT12   "
  padTo 510 0 b ++ [0x55, 0xAA]

/-- FAT12 bytes for a list of entry values -/
def fat12Bytes : List Nat → List Nat
  | a :: b :: rest => [a % 256, a / 256 + (b % 16) * 16, b / 16] ++ fat12Bytes rest
  | [a] => [a % 256, a / 256]
  | [] => []

/-- A tiny consistent volume:
    `/Hello World.txt` (alias `HELLOW~1.TXT`, 700 bytes, clusters 2→3), `/SUB` (cluster 4) with `/SUB/a.b`
    (lower-case flags, 5 bytes, cluster 5), one deleted slot in the root. -/
def tinyImage : Img :=
  let fat := fat12Bytes [0xFF8, 0xFFF, 3, 0xFFF, 0xFFF, 0xFFF]
  let sfn1 := name11Of "HELLOW~1TXT"
  let root := genRun (asciiUnits "Hello World.txt") sfn1 ++
    [sfnSlotBytes sfn1 0x20 0 2 700,
     0xE5 :: (sfnSlotBytes (name11Of "GONE    TXT") 0x20 0 0 0).drop 1,
     sfnSlotBytes (name11Of "SUB        ") 0x10 0 4 0]
  let sub := [sfnSlotBytes dotName 0x10 0 4 0, sfnSlotBytes dotDotName 0x10 0 0 0,
              sfnSlotBytes (name11Of "A       B  ") 0x20 0x18 5 5]
  let img := Img.empty (24 * 512)
  let img := img.write 0 tinyBoot
  let img := img.write 512 fat
  let img := img.write 1024 fat
  let img := img.write 1536 root.flatten
  let img := img.write (2048 + 0 * 512) ((List.range 512).map (· % 251))
  let img := img.write (2048 + 1 * 512) ((List.range 188).map (· % 7))
  let img := img.write (2048 + 2 * 512) sub.flatten
  img.write (2048 + 3 * 512) [104, 101, 108, 108, 111]

/-! ## Checks -/

def check (name : String) (b : Bool) : IO Unit :=
  unless b do throw (IO.userError s!"spec self-test failed: {name}")

def tinyTreeLines : List String :=
  match decodeTree tinyImage with
  | .ok root => (flatten root).map fun f => s!"{if f.isDir then "D" else "F"} {f.path} {f.size}"
  | .error e => [e]

#eval check "tiny geometry" (match parseGeom tinyImage with
  | .ok g => g.fatBits == 12 && g.totalClusters == 20 && g.dataStart == 2048 && g.rootStart == 1536 && g.clusterSize == 512
  | .error _ => false)
#eval check "tiny tree" (tinyTreeLines == ["F Hello World.txt 700", "D SUB 0", "F SUB/a.b 5"])
#eval check "tiny fsck clean" (fsck tinyImage == [])
#eval check "tiny content" (match decodeTree tinyImage with
  | .ok root => (lookup root ["sub", "A.B"]).map (·.content.toList) == some [104, 101, 108, 108, 111] &&
                (lookup root ["hellow~1.txt"]).map (·.content.size) == some 700 &&
                (lookup root ["HELLO WORLD.TXT"]).map (·.entry.slotCount) == some 3
  | .error _ => false)
#eval check "tiny free count" ((parseGeom tinyImage).toOption.map (fatFreeCount · tinyImage) == some 16)

/-- signatures reported after planting bytes -/
def sigsAfter (patches : List (Nat × List Nat)) : List String :=
  ((fsck (patches.foldl (fun i (o, b) => i.write o b) tinyImage)).map clauseOf).eraseDups

-- FAT12 entries 2,3 live in bytes 3..5 of each copy: [0x03, 0xF0, 0xFF]
#eval check "cross-link" (sigsAfter [(512 + 7, [0x2F, 0x00]), (1024 + 7, [0x2F, 0x00])] |>.contains "cross-link")       -- FAT[5] := 2
#eval check "fat-cycle" (sigsAfter [(512 + 4, [0x20, 0x00]), (1024 + 4, [0x20, 0x00])] == ["fat-cycle"]) -- FAT[3] := 2
#eval check "lost-cluster" (sigsAfter [(512 + 15, [0xFF, 0x0F]), (1024 + 15, [0xFF, 0x0F])] == ["lost-cluster"]) -- FAT[10] := EOC
#eval check "fat-copies" (sigsAfter [(1024 + 15, [0xFF, 0x0F])] == ["fat-copies"])
#eval check "size-chain" (sigsAfter [(1536 + 64 + 28, [0x01, 0x04])] == ["size-chain"])                       -- size 1025
#eval check "size-chain via overlay" ((fsck tinyImage [(1536 + 64, sfnSlotBytes (name11Of "HELLOW~1TXT") 0x20 0 2 1025)]).map clauseOf == ["size-chain"])
#eval check "dot" (sigsAfter [(2048 + 1024 + 32 + 26, [9])] == ["dot"])
#eval check "orphan lfn" (sigsAfter [(1536 + 64, [0xE5])] |>.contains "lfn-run")
#eval check "lfn checksum" (sigsAfter [(1536 + 13, [0])] == ["lfn-run"])
#eval check "lfn padding" (sigsAfter [(1536 + 30, [0x41])] == ["lfn-run"])   -- last unit of the 0x42 slot: 0xFF41 instead of 0xFFFF
#eval check "after-end" (sigsAfter [(1536 + 7 * 32, [0x41])] == ["after-end"])
#eval check "dup-short" (sigsAfter [(1536 + 128, name11Of "HELLOW~1TXT")] |>.contains "dup-short")
#eval check "reserved-entries" (sigsAfter [(512, [0xF0]), (1024, [0xF0])] == ["reserved-entries"])
#eval check "fat-link-range" (sigsAfter [(512 + 7, [0x5F, 0xFF]), (1024 + 7, [0x5F, 0xFF])] == ["fat-link-range"]) -- FAT[5] := 0xFF5

/-! ### tree specification -/

def cfgT : TreeCfg :=
  { validName := fun s => if s.toList.any (· == ':') then some .nameChar else if s.isEmpty || s.length > 255 then some .nameLen else none }

def runOps (t : TNode) (ops : List (Op × Obs)) : Except String TNode :=
  ops.foldlM (fun t (op, obs) => step cfgT t op obs) t

def t1 : Except String TNode := runOps TNode.emptyDir
  [(.createDir [] "Dir", .ok), (.createFile [] "dir/File.txt", .ok), (.createFile ["Dir"] "FILE.TXT", .ok),
   (.openFile [] "DIR/file.TXT", .ok), (.openDir [] "dir/file.txt", .err .invalidInput),
   (.openFile [] "dir", .err .invalidInput), (.openFile [] "nope", .err .notFound),
   (.openDir [] "..", .err .notFound), (.openDir ["Dir"] "..", .ok), (.openDir [] "dir/./../dir", .ok),
   (.remove [] "dir", .err .dirNotEmpty), (.createFile [] "bad:name", .err .nameChar),
   (.createFile [] "new", .err .noSpace), (.createDir [] "dir/sub", .ok),
   (.rename [] "dir" [] "dir/sub/x", .err .invalidInput), (.rename [] "dir/file.txt" [] "bad:name", .err .nameChar),
   (.rename [] "dir/file.txt" [] "dir", .err .alreadyExists), (.rename [] "dir/file.txt" ["Dir"] "FILE.txt", .ok),
   (.rename [] "nope" [] "x", .err .notFound), (.rename [] "dir/file.txt" [] "nodir/x", .err .notFound),
   (.rename [] "dir/file.txt" ["Dir", "sub"] "Moved.txt", .ok),
   (.list ["Dir"], .okList [(".", true, 0), ("..", true, 0), ("sub", true, 0)]),
   (.list ["Dir", "sub"], .okList [("Moved.txt", false, 0)]),
   (.remove ["Dir"] "sub/moved.TXT", .ok), (.remove [] "dir/sub", .ok), (.remove [] "dir/.", .err .invalidInput),
   (.remove [] "Dir", .ok), (.list [], .okList [])]

#eval check "tree ops accepted" (match t1 with | .ok (.dir []) => true | _ => false)
#eval check "tree rejects success on missing" ((step cfgT TNode.emptyDir (.openFile [] "x") .ok).toOption.isNone)
#eval check "tree rejects noSpace on open" ((step cfgT TNode.emptyDir (.openDir [] "x") (.err .noSpace)).toOption.isNone)
#eval check "tree rejects wrong listing" ((step cfgT TNode.emptyDir (.list []) (.okList [("x", false, 0)])).toOption.isNone)
#eval check "equivTree tiny" (match decodeTree tinyImage with
  | .ok root => equivTree (TNode.ofNode root) root &&
      !equivTree (setContent cfgT (TNode.ofNode root) ["sub", "a.b"] ByteArray.empty) root
  | .error _ => false)

/-! ### regions -/

def gT : Geom := (parseGeom tinyImage).toOption.getD default

#eval check "classify boot" ((classify gT 0x24 3).map (·.1) == [.bootOther, .bootStatusByte, .bootOther])
#eval check "classify straddle" ((classify gT 1000 1100) ==
  [(.fat 0, 1000, 24), (.fat 1, 1024, 512), (.rootDir, 1536, 512), (.cluster 2, 2048, 52)])
#eval check "classify end" ((classify gT (24 * 512 - 1) 2).map (·.1) == [.cluster 21, .beyondVolume])
#eval check "write own file ok" (allowedWrite gT tinyImage ["/Hello World.txt"] 2048 1024 == none)
#eval check "write free cluster ok" (allowedWrite gT tinyImage [] (2048 + 10 * 512) 512 == none)
#eval check "write parent dir ok" (allowedWrite gT tinyImage ["/sub/new.txt"] (2048 + 2 * 512) 32 == none)
#eval check "write other file" ((allowedWrite gT tinyImage ["/Hello World.txt"] (2048 + 3 * 512) 1).isSome)
#eval check "write boot code" ((allowedWrite gT tinyImage [] 3 1).isSome)
#eval check "write beyond" ((allowedWrite gT tinyImage [] (24 * 512) 1).isSome)

/-! ### loader -/
#eval check "dump/load round trip" (fsck (loadHexPages (dumpHexPages tinyImage)) == [] &&
  (loadHexPages (dumpHexPages tinyImage)).size == tinyImage.size)

end FatVerif.Spec.Test
