import FatVerif.Spec.OracleUtil
/-! Ground truth of the independent image builder (`G …` lines of scenarios `foreign` / `big`, see
    /verif/harness/src/imgbuild.rs) and its comparison with what the specification decoder finds on an image. -/
namespace FatVerif.Spec

/-! ## FNV-1a, 64 bit -/

def fnv64 (b : ByteArray) : UInt64 :=
  b.foldl (fun h x => (h ^^^ x.toUInt64) * 0x100000001b3) 0xcbf29ce484222325

def hex16 (h : UInt64) : String :=
  String.ofList ((List.range 16).map fun i => hexDigitC ((h.toNat >>> (4 * (15 - i))) % 16))

def fnvHex (b : ByteArray) : String := hex16 (fnv64 b)

/-! ## Parsing -/

def hexNib (c : Char) : Option Nat :=
  if '0' ≤ c ∧ c ≤ '9' then some (c.toNat - 48)
  else if 'a' ≤ c ∧ c ≤ 'f' then some (c.toNat - 87)
  else if 'A' ≤ c ∧ c ≤ 'F' then some (c.toNat - 55)
  else none

def hexBytesAux : List Char → Option (List Nat)
  | [] => some []
  | [_] => none
  | a :: b :: rest =>
    match hexNib a, hexNib b, hexBytesAux rest with
    | some x, some y, some r => some ((x * 16 + y) :: r)
    | _, _, _ => none

def hexBytes (s : String) : Option (List Nat) := if s = "-" then some [] else hexBytesAux s.toList

def hexText (s : String) : Option String :=
  (hexBytes s).bind fun bs => String.fromUTF8? ⟨(bs.map UInt8.ofNat).toArray⟩

def utf16Of (s : String) : List Nat :=
  s.toList.flatMap fun c =>
    let n := c.toNat
    if n < 0x10000 then [n] else [0xD800 + (n - 0x10000) / 1024, 0xDC00 + (n - 0x10000) % 1024]

/-- one `G ent` line -/
structure GEnt where
  dirHex : String
  long : Option String
  short : List Nat
  attrs : Nat
  size : Nat
  first : Nat
  times : List Nat
  hash : String
  nt : Nat
  deriving Inhabited

def GEnt.isDir (e : GEnt) : Bool := e.attrs / 16 % 2 == 1
def GEnt.isDot (e : GEnt) : Bool := e.short == dotName || e.short == dotDotName

/-- the entry as the specification decoder would describe it (slot positions are not known: 0) -/
def GEnt.toMeta (e : GEnt) : EntryMeta :=
  let units := e.long.map utf16Of
  let short := shortDisplay e.short e.nt
  { longName := units
    name := match units with | some us => utf16String us | none => short
    shortRaw := e.short, shortName := short, attrs := e.attrs, ntRes := e.nt, size := e.size, firstCluster := e.first
    crtTenth := e.times.getD 0 0, crtTime := e.times.getD 1 0, crtDate := e.times.getD 2 0, accDate := e.times.getD 3 0
    wrtTime := e.times.getD 4 0, wrtDate := e.times.getD 5 0, slotPos := 0, firstSlotPos := 0, slotCount := 0 }

structure GDir where
  pathHex : String
  ents : Array GEnt := #[]
  deriving Inhabited

structure Ground where
  geo : List String := []
  dirs : Array GDir := #[]
  /-- first cluster ↦ chain -/
  chains : Std.HashMap Nat (Array Nat) := {}
  rootChain : Array Nat := #[]
  /-- `big`: `(kind, cluster)` -/
  marks : List (String × Nat) := []
  hintKind : String := ""
  last : Option (Nat × Bool) := none
  /-- number of `G` lines this was parsed from -/
  lines : Nat := 0
  deriving Inhabited

def parseNatList (s : String) : Array Nat := ((s.splitOn ",").filterMap String.toNat?).toArray

def parseGEnt (t : List String) : Option GEnt :=
  match t with
  | [dir, name, short, attrs, size, first, t0, t1, t2, t3, t4, t5, hash, nt] => do
    let long ← if name = "-" then some none else (hexText name).map some
    let short ← hexBytes short
    let nums ← [attrs, size, first, t0, t1, t2, t3, t4, t5, nt].mapM String.toNat?
    pure { dirHex := dir, long, short, attrs := nums.getD 0 0, size := nums.getD 1 0, first := nums.getD 2 0
           times := (nums.drop 3).take 6, hash, nt := nums.getD 9 0 }
  | _ => none

def parseGround (lines : List String) : Ground :=
  lines.foldl (fun (g : Ground) line =>
    match line.splitOn " " with
    | "geo" :: kvs => { g with geo := kvs }
    | ["dir", p, _] => { g with dirs := g.dirs.push { pathHex := p } }
    | "ent" :: rest =>
      match parseGEnt rest, g.dirs.back? with
      | some e, some d => { g with dirs := g.dirs.pop.push { d with ents := d.ents.push e } }
      | _, _ => g
    | ["chain", "root", cs] => { g with rootChain := parseNatList cs }
    | ["chain", f, cs] =>
      match f.toNat? with
      | some f => { g with chains := g.chains.insert f (parseNatList cs) }
      | none => g
    | ["mark", k, c] => { g with marks := g.marks ++ [(k, c.toNat?.getD 0)] }
    | "hint" :: k :: _ => { g with hintKind := k }
    | ["last", c, st] => { g with last := some (c.toNat?.getD 0, st == "free") }
    | _ => g) { lines := lines.length }

def Ground.geoVal (g : Ground) (key : String) : Option String :=
  g.geo.findSome? fun kv =>
    match kv.splitOn "=" with
    | [k, v] => if k = key then some v else none
    | _ => none

def Ground.root (g : Ground) : Option GDir := g.dirs.find? fun d => d.pathHex == "-"

/-- the block of the subdirectory whose first cluster is `c` (its first entry is `.` pointing at `c`) -/
def Ground.dirAt (g : Ground) (c : Nat) : Option GDir :=
  g.dirs.find? fun d => d.pathHex != "-" && (match d.ents[0]? with
    | some e => e.short == dotName && e.first == c
    | none => false)

/-! ## Geometry -/

def geoDiff (gr : Ground) (g : Geom) (img : Img) : Option String :=
  let num (k : String) : Option Nat := (gr.geoVal k).bind String.toNat?
  let checks : List (String × Nat) :=
    [("bits", g.fatBits), ("bps", g.bps), ("spc", g.spc), ("reserved", g.reserved), ("fats", g.fats), ("spf", g.spf),
     ("root_entries", g.rootEntries), ("total_sectors", g.totalSectors), ("clusters", g.totalClusters),
     ("mirror", if g.mirroring then 1 else 0), ("active", g.activeCopy), ("root_cluster", g.rootCluster),
     ("free", fatFreeCount g img), ("status", img.getByte g.statusByteOffset),
     ("fat1", fatEntryRaw g img g.activeCopy 1)]
  let d := checks.findSome? fun (k, v) =>
    match num k with
    | some w => if w == v then none else some s!"geo {k}: ground truth {w}, decoder {v}"
    | none => none
  match d with
  | some m => some m
  | none =>
    let optS (o : Option Nat) : String := match o with | some n => toString n | none => "none"
    match fsInfo g img, gr.geoVal "fsinfo_free", gr.geoVal "fsinfo_next" with
    | some (f, n), some gf, some gn =>
      if optS f != gf then some s!"geo fsinfo_free: ground truth {gf}, decoder {optS f}"
      else if optS n != gn then some s!"geo fsinfo_next: ground truth {gn}, decoder {optS n}"
      else none
    | _, _, _ => none

/-! ## Entries -/

/-- first differing raw field between a ground-truth entry and a decoded one -/
def entDiff (e : GEnt) (m : EntryMeta) : Option String :=
  let gm := e.toMeta
  if gm.longName != m.longName then some s!"long name: ground truth {repr gm.name}, decoder {repr m.name} (units {m.longName.map List.length})"
  else if gm.shortRaw != m.shortRaw then some s!"short name: ground truth {hexOf gm.shortRaw}, decoder {hexOf m.shortRaw}"
  else if gm.attrs != m.attrs then some s!"attrs: ground truth {gm.attrs}, decoder {m.attrs}"
  else if gm.ntRes != m.ntRes then some s!"NT flags: ground truth {gm.ntRes}, decoder {m.ntRes}"
  else if gm.size != m.size then some s!"size: ground truth {gm.size}, decoder {m.size}"
  else if gm.firstCluster != m.firstCluster then some s!"first cluster: ground truth {gm.firstCluster}, decoder {m.firstCluster}"
  else if gm.times != m.times then some s!"time fields: ground truth {gm.times}, decoder {m.times}"
  else none

/-- the live entries of a directory (`.`/`..` included, labels not) in logical slot order — absolute positions are not
    monotonic along a fragmented chain -/
def orderedMetas (g : Geom) (img : Img) (loc : DirLoc) : Except String (List EntryMeta) := do
  let slots ← readDirSlots g img loc true
  return (scanDir slots.toList).entries.toList.map (metaOfRaw g.fatBits)

/-- `gen_big` gives its preallocated (all-zero, possibly huge) file the hash of the empty string: a non-empty file
    with that hash carries no content ground truth -/
def GEnt.hashKnown (e : GEnt) : Bool := !(e.size > 0 && e.hash == "cbf29ce484222325")

def contentHashDiff (g : Geom) (img : Img) (e : GEnt) (m : EntryMeta) : Option String :=
  if e.isDir || !e.hashKnown then none else
  match fileContent g img m with
  | .error err => some s!"content: decoder error {err}"
  | .ok c => if fnvHex c == e.hash then none else some s!"content hash: ground truth {e.hash}, decoder {fnvHex c} ({c.size} bytes)"

/-- full comparison of the directory at `loc` (and everything below) with its ground-truth block -/
def dirDiff (gr : Ground) (g : Geom) (img : Img) : (fuel : Nat) → (path : String) → (loc : DirLoc) → (gd : GDir) →
    Option String
  | 0, path, _, _ => some s!"directory '{path}': nesting too deep"
  | fuel + 1, path, loc, gd =>
    match orderedMetas g img loc with
    | .error e => some s!"directory '{path}': decoder error {e}"
    | .ok ms =>
      if ms.length != gd.ents.size then
        some s!"directory '{path}': ground truth has {gd.ents.size} entries, decoder {ms.length}"
      else
        (gd.ents.toList.zip ms).findSome? fun (e, m) =>
          let p := s!"{path}/{m.name}"
          match entDiff e m with
          | some d => some s!"entry '{p}' {d}"
          | none =>
            match contentHashDiff g img e m with
            | some d => some s!"entry '{p}' {d}"
            | none =>
              if e.isDir && !e.isDot then
                match gr.dirAt e.first with
                | none => some s!"directory '{p}': no ground-truth block"
                | some sub => dirDiff gr g img fuel p (.chain e.first) sub
              else none

/-- decoder vs ground truth for the whole volume -/
def groundDiff (gr : Ground) (g : Geom) (img : Img) : Option String :=
  match geoDiff gr g img with
  | some d => some d
  | none =>
    match gr.root with
    | none => none
    | some r => dirDiff gr g img 64 "" (rootLoc g) r

/-! ## Lookup by path -/

/-- ground-truth entry of a directory block by display or short name, ignoring case -/
def GDir.find (upper : Char → List Char) (d : GDir) (q : String) : Option GEnt :=
  let fq := foldName upper q
  d.ents.find? fun e =>
    let m := e.toMeta
    !e.isDot && (foldName upper m.name == fq || foldName upper m.shortName == fq)

/-- the block of the directory at `path` (display names from the root) and, for a non-root path, its entry -/
def Ground.walk (gr : Ground) (upper : Char → List Char) : (path : List String) → (cur : GDir) → (ent : Option GEnt) →
    Option (Option GDir × Option GEnt)
  | [], cur, ent => some (some cur, ent)
  | c :: rest, cur, _ =>
    match cur.find upper c with
    | none => none
    | some e =>
      if e.isDir then
        match gr.dirAt e.first with
        | some sub => gr.walk upper rest sub (some e)
        | none => if rest.isEmpty then some (none, some e) else none
      else if rest.isEmpty then some (none, some e) else none

def Ground.lookup (gr : Ground) (upper : Char → List Char) (path : List String) : Option (Option GDir × Option GEnt) :=
  match gr.root with
  | some r => gr.walk upper path r none
  | none => none

/-- the listing rows the ground truth implies for a directory block, sorted -/
def GDir.rows (d : GDir) : Array String :=
  (d.ents.map fun e => expectedRow e.toMeta).qsort (· < ·)

/-! ## Frame check after a mutation -/

/-- every ground-truth entry with its path (`/a/b`), the location of its directory and the path of that directory -/
def Ground.allEntries (gr : Ground) (g : Geom) : (fuel : Nat) → (path : String) → (loc : DirLoc) → (gd : GDir) →
    Array (String × DirLoc × GEnt) → Array (String × DirLoc × GEnt)
  | 0, _, _, _, acc => acc
  | fuel + 1, path, loc, gd, acc =>
    gd.ents.foldl (fun acc e =>
      if e.isDot then acc else
      let p := path ++ "/" ++ e.toMeta.name
      let acc := acc.push (p, loc, e)
      if e.isDir then
        match gr.dirAt e.first with
        | some sub => gr.allEntries g fuel p (.chain e.first) sub acc
        | none => acc
      else acc) acc

def Ground.entries (gr : Ground) (g : Geom) : Array (String × DirLoc × GEnt) :=
  match gr.root with
  | some r => gr.allEntries g 64 "" (rootLoc g) r #[]
  | none => #[]

end FatVerif.Spec
