import FatVerif.Spec.FatSpec
import FatVerif.Model.FatCodec
/-!
# The oracles read FAT entries exactly as the library's `get` does

The structural oracles decode allocation-table entries with `Spec.fatEntryRawF` / `Spec.classifyRaw` (written from the
FAT specification); the model of `table.rs` — the one the probe suite `fat` compares with the real `Fat12/16/32::get`
on every entry value — decodes them with `Fat.getRaw` / `Fat.classify`.  For every FAT width, every table and every
cluster number (on FAT32: not one of the special numbers ≥ 0x0FFFFFF7, which no mountable volume has):

* `oracle_raw_eq_model`: whenever the model's `get_raw` succeeds the oracle reads the same raw value;
* `oracle_class_eq_model`: the oracle's class of that value is the model's `FatValue`, refined by the range test the
  oracle adds to links (`.data v` with `2 ≤ v < total + 2` is `.next v`, any other `.data v` is `.reserved`).

So a disagreement between an oracle and the library about a chain can only come from the chain structure, never from
two different readings of one table entry.
-/
namespace FatVerif.Spec
open FatVerif FatVerif.Fat

/-- the oracle's range test on links, applied to the library's classification -/
def refineValue (total : Nat) : FatValue → FatClass
  | .free => .free
  | .bad => .bad
  | .eoc => .eoc
  | .data v => if 2 ≤ v ∧ v < total + 2 then .next v else .reserved

theorem oracle_raw_eq_model (ft : FatType) (f : Array Nat) (c v : Nat) (h : Fat.getRaw ft f c = .ok v) :
    fatEntryRawF ft.bits (fun i => Fat.rd f i) 0 c = v := by
  cases ft
  · simp only [Fat.getRaw, Fat.getRaw12] at h
    split at h
    · cases h
    · split at h
      · cases h
      · cases h
        simp only [fatEntryRawF, FatType.bits, if_true, Fat.val12, Spec.rd16, Fat.rd16, Nat.zero_add]
        rcases Nat.mod_two_eq_zero_or_one c with e | e <;> simp [e]
  · simp only [Fat.getRaw, Fat.getRaw16] at h
    split at h
    · cases h
    · split at h
      · cases h
      · cases h
        simp only [fatEntryRawF, FatType.bits, Spec.rd16, Fat.rd16, Nat.zero_add, Nat.mul_comm]
        simp
  · simp only [Fat.getRaw, Fat.getRaw32] at h
    split at h
    · cases h
    · split at h
      · cases h
      · cases h
        simp only [fatEntryRawF, FatType.bits, Spec.rd32, Fat.rd32, Nat.zero_add, Nat.mul_comm]
        simp

/-- raw values the codec can return fit the entry width -/
def RawFits : FatType → Nat → Prop
  | .fat12, v => v < 4096
  | .fat16, v => v < 65536
  | .fat32, _ => True

/-- the oracle's classification with the mask of each width written out -/
theorem classifyRaw_eq (bits m total v : Nat) (hm : fatMask bits = m) :
    classifyRaw bits total v =
      (if v % (m + 1) = 0 then .free
       else if v % (m + 1) ≥ m - 7 then .eoc
       else if v % (m + 1) = m - 8 then .bad
       else if 2 ≤ v % (m + 1) ∧ v % (m + 1) < total + 2 then .next (v % (m + 1))
       else .reserved) := by
  subst hm; rfl

theorem class_core (m total w : Nat) (hm : 16 ≤ m) (hw : w ≤ m) :
    (if w = 0 then FatClass.free
       else if w ≥ m - 7 then .eoc
       else if w = m - 8 then .bad
       else if 2 ≤ w ∧ w < total + 2 then .next w
       else .reserved) =
    refineValue total (if w = 0 then .free else if w = m - 8 then .bad else if m - 7 ≤ w ∧ w ≤ m then .eoc else .data w) := by
  by_cases h0 : w = 0
  · simp only [if_pos h0]; rfl
  · by_cases h1 : w = m - 8
    · have h2 : ¬ w ≥ m - 7 := by omega
      simp only [if_neg h0, if_neg h2, if_pos h1]; rfl
    · by_cases h2 : w ≥ m - 7
      · have h3 : m - 7 ≤ w ∧ w ≤ m := ⟨h2, hw⟩
        simp only [if_neg h0, if_pos h2, if_neg h1, if_pos h3]; rfl
      · have h3 : ¬ (m - 7 ≤ w ∧ w ≤ m) := fun h => h2 h.1
        simp only [if_neg h0, if_neg h2, if_neg h1, if_neg h3]; rfl

theorem oracle_class_eq_model (ft : FatType) (total c v : Nat) (hc : ft = .fat32 → ¬ Fat.special32 c)
    (hv : RawFits ft v) :
    classifyRaw ft.bits total v = refineValue total (Fat.classify ft c v) := by
  cases ft
  · have hv' : v < 4096 := hv
    show classifyRaw 12 total v = _
    rw [classifyRaw_eq 12 4095 total v rfl, Nat.mod_eq_of_lt (by omega), class_core 4095 total v (by omega) (by omega)]
    rfl
  · have hv' : v < 65536 := hv
    show classifyRaw 16 total v = _
    rw [classifyRaw_eq 16 65535 total v rfl, Nat.mod_eq_of_lt (by omega),
      class_core 65535 total v (by omega) (by omega)]
    rfl
  · have hw : v % 268435456 < 268435456 := Nat.mod_lt _ (by decide)
    show classifyRaw 32 total v = _
    rw [classifyRaw_eq 32 268435455 total v rfl]
    show _ = refineValue total (Fat.classify32 c (v % 268435456))
    have e : v % (268435455 + 1) = v % 268435456 := rfl
    rw [e]
    generalize v % 268435456 = w at hw
    rw [class_core 268435455 total w (by omega) (by omega)]
    simp only [Fat.classify32, hc rfl, if_false]

end FatVerif.Spec

namespace FatVerif.Spec
open FatVerif FatVerif.Fat
/-- **`oracle_entry_eq_model`.**  Both steps together, on the bytes of one FAT copy: if the model of the library's
    `get` answers `val` for cluster `c`, the oracle's class of entry `c` is `refineValue total val`. -/
theorem oracle_entry_eq_model (ft : FatType) (f : Array Nat) (total c : Nat) (val : FatValue)
    (hc : ft = .fat32 → ¬ Fat.special32 c) (hwf : ∀ i, Fat.rd f i < 256) (h : Fat.get ft f c = .ok val) :
    classifyRaw ft.bits total (fatEntryRawF ft.bits (fun i => Fat.rd f i) 0 c) = refineValue total val := by
  unfold Fat.get at h
  split at h
  · rename_i v hv
    cases h
    rw [oracle_raw_eq_model ft f c v hv]
    apply oracle_class_eq_model ft total c v hc
    cases ft
    · simp only [Fat.getRaw, Fat.getRaw12] at hv
      split at hv
      · cases hv
      · split at hv
        · cases hv
        · cases hv
          have h0 := hwf (c + c / 2); have h1 := hwf (c + c / 2 + 1)
          show Fat.val12 c (Fat.rd16 f (c + c / 2)) < 4096
          unfold Fat.val12 Fat.rd16
          split <;> omega
    · simp only [Fat.getRaw, Fat.getRaw16] at hv
      split at hv
      · cases hv
      · split at hv
        · cases hv
        · cases hv
          have h0 := hwf (c * 2); have h1 := hwf (c * 2 + 1)
          show Fat.rd16 f (c * 2) < 65536
          unfold Fat.rd16
          omega
    · trivial
  · cases h
end FatVerif.Spec
