import FatVerif.Proofs.FatSim
/-!
# C10 — reserved FAT bits and entries (the part that lives in `table.rs`)

Byte-level laws of `Fat12/16/32::{get,set}` on the bytes of one FAT copy, and "alloc / free / truncate never write
the reserved entries 0, 1 nor a padding entry ≥ total+2".
-/
namespace FatVerif.C10
open FatVerif.Fat

/-- `get (set f c v) c = v`, all three widths, on bytes. `set` succeeds exactly on in-range entries
    (`fat_set_defined`); `v` must be representable (`Data n` with `0 < n < 0x?FF7`; `Data 0` reads back as `Free`,
    `Data 0x?FF7` as `Bad`), and on FAT32 `c` must not be one of the special cluster numbers
    0x0FFFFFF7..0x0FFFFFFF (for those `get` always answers `Bad`/`EOC`). -/
theorem fat_get_set (ft : FatType) (f f' : Array Nat) (c : Nat) (v : FatValue) (hf : WfBytes f)
    (hv : Representable ft v) (hs : ft = .fat32 → ¬ special32 c) (h : set ft f c v = .ok f') :
    get ft f' c = .ok v :=
  get_set_same hf hv hs h

/-- `set` is defined on every in-range entry (the only refusal: `Free` on a special FAT32 cluster number panics) -/
theorem fat_set_defined (ft : FatType) (f : Array Nat) (c : Nat) (v : FatValue) (h : InRange ft f c)
    (hs : ft = .fat32 → v = .free → ¬ special32 c) : ∃ f', set ft f c v = .ok f' :=
  set_ok_of_inRange h hs

example : ∃ f', set .fat12 #[0xF8, 0xFF, 0xFF, 0x00, 0x40, 0x00] 2 (.data 3) = .ok f' ∧
    get .fat12 f' 2 = .ok (.data 3) ∧ get .fat12 f' 3 = .ok (.data 4) :=
  ⟨_, rfl, rfl, rfl⟩

example : WfBytes #[0xF8, 0xFF, 0xFF, 0x00, 0x40, 0x00] ∧ Representable .fat12 (.data 3) ∧
    InRange .fat12 #[0xF8, 0xFF, 0xFF, 0x00, 0x40, 0x00] 2 :=
  ⟨wfBytes_of_all _ (by decide), by decide, by decide⟩

/-- a non-representable link is NOT read back: `Data 0` becomes `Free` (why `Representable` is needed) -/
theorem fat_get_set_counterexample :
    ∃ f', set .fat16 #[0xF8, 0xFF, 0xFF, 0xFF, 0x05, 0x00] 2 (.data 0) = .ok f' ∧ get .fat16 f' 2 = .ok .free :=
  ⟨_, rfl, rfl⟩

/-- frame law: any OTHER entry keeps its raw value — FAT12: the byte shared with the neighbour keeps the neighbour's
    nibble; FAT32: including the reserved bits. `FitsWidth`: the written value fits 12/16/28 bits. -/
theorem fat_set_frame (ft : FatType) (f f' : Array Nat) (c c' : Nat) (v : FatValue) (hf : WfBytes f)
    (hv : FitsWidth ft v) (h : set ft f c v = .ok f') (hne : c' ≠ c) : getRaw ft f' c' = getRaw ft f c' :=
  getRaw_set_other hf hv h hne

example : ∃ f', set .fat12 #[0xF8, 0xFF, 0xFF, 0xAB, 0xCD, 0xEF] 3 .eoc = .ok f' ∧
    getRaw .fat12 f' 2 = getRaw .fat12 #[0xF8, 0xFF, 0xFF, 0xAB, 0xCD, 0xEF] 2 ∧ getRaw .fat12 f' 2 = .ok 0xDAB :=
  ⟨_, rfl, rfl, rfl⟩

/-- without `FitsWidth` the FAT12 frame law fails: a 16-bit "link" written to an even entry clobbers the odd
    neighbour's low nibble (no caller passes such a value; `raw_val as u16` does not mask to 12 bits) -/
theorem fat_set_frame_counterexample :
    ∃ f', set .fat12 #[0xF8, 0xFF, 0xFF, 0x00, 0x00, 0x00] 2 (.data 0xF000) = .ok f' ∧
      getRaw .fat12 #[0xF8, 0xFF, 0xFF, 0x00, 0x00, 0x00] 3 = .ok 0 ∧ getRaw .fat12 f' 3 = .ok 0xF :=
  ⟨_, rfl, rfl, rfl⟩

/-- FAT32: the reserved top four bits of the updated entry survive `set` -/
theorem fat32_reserved_bits (f f' : Array Nat) (c : Nat) (v : FatValue) (hf : WfBytes f)
    (hv : FitsWidth .fat32 v) (h : set .fat32 f c v = .ok f') :
    ∃ old new, getRaw .fat32 f c = .ok old ∧ getRaw .fat32 f' c = .ok new ∧
      new &&& 0xF0000000 = old &&& 0xF0000000 ∧ new / 268435456 = old / 268435456 := by
  obtain ⟨old, h1, h2⟩ := getRaw_set_same hf hv h
  refine ⟨old, _, h1, h2, ?_, ?_⟩
  · have ho : old < 4294967296 := getRaw32_lt hf h1
    simp only [FitsWidth, valLimit] at hv
    simp only [topBits]
    rw [and_top_nibble _ (by omega), and_top_nibble _ ho]; omega
  · simp only [FitsWidth, valLimit] at hv
    simp only [topBits]; omega

example : ∃ f', set .fat32 #[0xF8, 0xFF, 0xFF, 0x0F, 0xFF, 0xFF, 0xFF, 0xFF, 0x05, 0x00, 0x00, 0xA0] 2 .free = .ok f' ∧
    getRaw .fat32 f' 2 = .ok 0xA0000000 :=
  ⟨_, rfl, rfl⟩

/-- a caller-supplied link ≥ 2^28 is ORed into the reserved bits (`raw_val | old_reserved_bits`): `FitsWidth` is
    needed; `alloc_cluster` only ever passes cluster numbers `< total+2 ≤ 0x0FFFFFF7` -/
theorem fat32_reserved_bits_counterexample :
    ∃ f', set .fat32 #[0, 0, 0, 0x10] 0 (.data 0xF0000001) = .ok f' ∧ getRaw .fat32 f' 0 = .ok 0xF0000001 :=
  ⟨_, rfl, rfl⟩

/-- **the key law** tying bytes to the decoded view: on the view, `set` is a point update
    (`view (set f c v) = Function.update (view f) c v`) for every in-range `c` and representable `v` -/
theorem fat_view_set (ft : FatType) (f f' : Array Nat) (c : Nat) (v : FatValue) (hf : WfBytes f)
    (hv : Representable ft v) (hs : ft = .fat32 → ¬ special32 c) (h : set ft f c v = .ok f') :
    view ft f' = updV (view ft f) c v :=
  view_set hf hv hs h

/-- the byte length never changes — after a successful `set`, and after a failed one (`setAfter`) -/
theorem set_len (ft : FatType) (f f' : Array Nat) (c : Nat) (v : FatValue) (h : set ft f c v = .ok f') :
    f'.size = f.size :=
  set_size h

theorem setAfter_len (ft : FatType) (f : Array Nat) (c : Nat) (v : FatValue) : (setAfter ft f c v).size = f.size := by
  unfold setAfter
  split
  · rename_i f' h; exact set_size h
  · split
    · exact size_wr16 _ _ _
    · rfl

example : (setAfter .fat16 #[1, 2, 3] 1 .eoc).size = 3 ∧ setAfter .fat16 #[1, 2, 3] 1 .eoc = #[1, 2, 0xFF] :=
  ⟨rfl, rfl⟩

/-- **alloc** never writes entry 0, entry 1, or a padding entry `≥ total+2` (raw values incl. reserved bits), and the
    cluster it hands out is a real one. `prev`, when given, is a data cluster. -/
theorem reserved_entries_untouched_alloc (ft : FatType) (f : Array Nat) (total : Nat) (ht : TableOk ft f total)
    (prev hint : Option Nat) (hh : ∀ n, hint = some n → 2 ≤ n)
    (hp : ∀ p, prev = some p → 2 ≤ p ∧ p < total + 2) (i : Nat) (hi : i < 2 ∨ total + 2 ≤ i) :
    getRaw ft (allocCluster f ft prev hint total).fat i = getRaw ft f i ∧
    (∀ c, (allocCluster f ft prev hint total).out = .ok c → 2 ≤ c ∧ c < total + 2) := by
  cases hfind : allocFindV (view ft f) hint total with
  | none =>
    rw [allocCluster_noSpace ht prev hint hfind]
    exact ⟨rfl, fun c h => by cases h⟩
  | some c =>
    obtain ⟨hc1, hc2, _⟩ := allocFindV_some _ _ _ _ hh hfind
    obtain ⟨f', h1, _, _, _, h5⟩ := allocCluster_ok ht prev hint hh (fun p h => (hp p h).2) hfind
    rw [h1]
    refine ⟨h5 i (by omega) ?_, ?_⟩
    · intro e; have := hp i e; omega
    · intro c' h; cases h; exact ⟨hc1, hc2⟩

/-- **free** on an acyclic chain whose members are data clusters never writes any other entry -/
theorem reserved_entries_untouched_free (ft : FatType) (f : Array Nat) (total c : Nat) (cs : List Nat)
    (ht : TableOk ft f total) (hch : Chain (view ft f) c cs) (hnd : cs.Nodup)
    (hin : ∀ k, k ∈ cs → 2 ≤ k ∧ k < total + 2) (fuel : Nat) (hfuel : cs.length ≤ fuel)
    (i : Nat) (hi : i < 2 ∨ total + 2 ≤ i) :
    getRaw ft (freeChain ft f c fuel).fat i = getRaw ft f i := by
  obtain ⟨f', h1, _, _, _, h5⟩ := freeChain_sim ht.wf hch hnd (fun k hk => ht.plain (hin k hk).2) fuel hfuel
  rw [h1]
  exact h5 i (fun hmem => by have := hin i hmem; omega)

/-- **truncate** likewise -/
theorem reserved_entries_untouched_truncate (ft : FatType) (f : Array Nat) (total c : Nat) (t : List Nat)
    (ht : TableOk ft f total) (hch : Chain (view ft f) c (c :: t)) (hnd : (c :: t).Nodup)
    (hin : ∀ k, k ∈ c :: t → 2 ≤ k ∧ k < total + 2) (fuel : Nat) (hfuel : t.length ≤ fuel)
    (i : Nat) (hi : i < 2 ∨ total + 2 ≤ i) :
    getRaw ft (truncateChain ft f c fuel).fat i = getRaw ft f i := by
  obtain ⟨f', h1, _, _, _, _, h6⟩ := truncateChain_sim ht.wf hch hnd (fun k hk => ht.plain (hin k hk).2) fuel hfuel
  rw [h1]
  have hc := hin c (by simp)
  exact h6 i (by omega) (fun hmem => by have := hin i (List.mem_cons_of_mem _ hmem); omega)

/-- a concrete FAT16 table with 4 data clusters: chain 2→3→EOC, clusters 4, 5 free -/
def exTable : Array Nat := #[0xF8, 0xFF, 0xFF, 0xFF, 0x03, 0x00, 0xFF, 0xFF, 0x00, 0x00, 0x00, 0x00]

theorem exTable_ok : TableOk .fat16 exTable 4 :=
  ⟨wfBytes_of_all _ (by decide), fun c hc => by simp only [InRange, off, width, exTable, u32Lim]; simp; omega,
   by decide⟩

example : Chain (view .fat16 exTable) 2 [2, 3] ∧ [2, 3].Nodup :=
  ⟨Chain.cons 2 3 [3] rfl (Chain.last 3 (by intro n h; cases h)), by decide⟩

example : (allocCluster exTable .fat16 (some 3) (some 5) 4).out = .ok 5 ∧
    (freeChain .fat16 exTable 2 10).out = .ok 2 ∧ (truncateChain .fat16 exTable 2 10).out = .ok 1 :=
  ⟨rfl, rfl, rfl⟩

end FatVerif.C10
