import FatVerif.Props.C07run
import FatVerif.Model.File
/-! # C20 / C11.1 on the mounted state the mount PROGRAM produces

`offsetFromClusterP` (Model/File.lean), `fatSliceOf`, `rootSliceOf` (Model/Slice.lean) are the offset computations the
effectful model performs on the `FsState` installed by `mount`. For the state produced by a successful run of the mount
program they never panic and agree with the pure, checked computations of Model/Bpb.lean (`offsetFromCluster`,
`fatSlice`, `rootDirSlice`), whose bounds were proved in Props/C07.lean. -/
namespace FatVerif.C20run
open C07run

/-- the mounted states a successful mount can install: `mountedFs` of an accepted boot sector -/
def Accepted (fs : FsState) : Prop :=
  ∃ (bs : List Nat) (strict accDate lfnAlloc unicode : Bool) (g : Geometry) (fi : FsInfo),
    IsSector bs ∧ probe bs strict = .ok g ∧
    fs = mountedFs strict accDate lfnAlloc unicode ⟨(BootSector.deserialize bs).bpb, g, fi⟩

/-- a successful run of the mount program installs an `Accepted` state -/
theorem mount_run_accepted (strict accDate lfnAlloc unicode : Bool) {d : Dev} (hd : Mountable d)
    {fs : FsState} {d' : Dev} (hrun : run (mount strict accDate lfnAlloc unicode) d = (.ok fs, d')) :
    Accepted fs ∧ d'.fs = fs := by
  obtain ⟨g, fi, hp, hfs, hfs'⟩ := mount_run_ok strict accDate lfnAlloc unicode d hd.pos hd.noFault hd.size hrun
  exact ⟨⟨_, strict, accDate, lfnAlloc, unicode, g, fi, isSector_read _ _, hp, hfs⟩, hfs'⟩

/-- what `Accepted` gives: the validated BPB behind the state -/
theorem Accepted.bpb {fs : FsState} (h : Accepted fs) :
    ∃ p : Bpb, p.InRange ∧ p.Valid ∧ fs.bps = p.bytesPerSector ∧ fs.spc = p.sectorsPerCluster ∧
      fs.reserved = p.reservedSectors ∧ fs.fats = p.fats ∧ fs.spf = p.sectorsPerFat ∧
      fs.firstDataSector = p.fdsNat ∧ fs.rootDirSectors = p.rdsNat ∧ fs.totalClusters = p.tcNat ∧
      fs.totalSectors = p.totalSectors ∧ fs.mirroring = p.mirroringEnabled ∧ fs.activeFat = p.activeFat ∧
      fs.fatType = FatType.fromClusters p.tcNat := by
  obtain ⟨bs, strict, accDate, lfnAlloc, unicode, g, fi, hb, hp, rfl⟩ := h
  obtain ⟨hv, rfl⟩ := probe_ok hb hp
  exact ⟨Bpb.deserialize bs, Bpb.deserialize_inRange hb, hv, rfl, rfl, rfl, rfl, rfl, rfl, rfl, rfl, rfl, rfl, rfl,
    rfl⟩

/-- **`offsetFromClusterP_ok`**: for a data cluster `c` of a mounted volume, the `u32`-checked `offset_from_cluster`
    of the effectful model does not panic; the offset is exact; the whole cluster lies between the first data sector
    and the declared end of the volume, which is below 2^44 -/
theorem offsetFromClusterP_ok {fs : FsState} (h : Accepted fs) {c : Nat} (hc2 : 2 ≤ c)
    (hc : c < fs.totalClusters + 2) :
    offsetFromClusterP fs c = pure ((fs.firstDataSector + (c - 2) * fs.spc) * fs.bps) ∧
    fs.firstDataSector * fs.bps ≤ (fs.firstDataSector + (c - 2) * fs.spc) * fs.bps ∧
    (fs.firstDataSector + (c - 2) * fs.spc) * fs.bps + fs.clusterSize ≤ fs.totalSectors * fs.bps ∧
    fs.totalSectors * fs.bps < 2 ^ 44 := by
  obtain ⟨p, hr, hv, e1, e2, _, _, _, e6, _, e8, e9, _, _, _⟩ := h.bpb
  rw [e8] at hc
  have hts := Bpb.totalSectors_lt hr
  have hfds := hv.fds
  obtain ⟨b1, b2, b3, b4⟩ := offset_bounds (fds := p.fdsNat) hv.spc hv.bps hts hc2 (by unfold Bpb.tcNat at hc; exact hc)
  unfold FsState.clusterSize
  rw [e1, e2, e6, e9]
  refine ⟨?_, b2, by rw [Nat.mul_comm p.bytesPerSector]; exact b3, b4⟩
  unfold offsetFromClusterP
  rw [if_neg (by omega), e2, e6, if_neg (by omega), if_neg (by omega), e1]

/-- the same as a run: no device call, no state change -/
theorem run_offsetFromClusterP {fs : FsState} (h : Accepted fs) {c : Nat} (hc2 : 2 ≤ c)
    (hc : c < fs.totalClusters + 2) (d : Dev) :
    run (offsetFromClusterP fs c) d = (.ok ((fs.firstDataSector + (c - 2) * fs.spc) * fs.bps), d) := by
  rw [(offsetFromClusterP_ok h hc2 hc).1]; rfl

/-- … and it is the value of the pure checked `offsetFromCluster` of Model/Bpb.lean (`C07.offset_arith`) -/
theorem offsetFromClusterP_eq_pure {bs : List Nat} {strict accDate lfnAlloc unicode : Bool} {g : Geometry}
    {fi : FsInfo} (hb : IsSector bs) (hp : probe bs strict = .ok g) {c : Nat} (hc2 : 2 ≤ c)
    (hc : c < g.totalClusters + 2) :
    liftE (offsetFromCluster (Bpb.deserialize bs) g.firstDataSector c) =
      offsetFromClusterP (mountedFs strict accDate lfnAlloc unicode ⟨(BootSector.deserialize bs).bpb, g, fi⟩) c := by
  have hacc : Accepted (mountedFs strict accDate lfnAlloc unicode ⟨(BootSector.deserialize bs).bpb, g, fi⟩) :=
    ⟨bs, strict, accDate, lfnAlloc, unicode, g, fi, hb, hp, rfl⟩
  rw [(offsetFromClusterP_ok hacc hc2 hc).1]
  obtain ⟨hv, rfl⟩ := probe_ok hb hp
  show liftE (offsetFromCluster (Bpb.deserialize bs) (Bpb.deserialize bs).fdsNat c) = _
  rw [(offsetFromCluster_ok (Bpb.deserialize_inRange hb) hv hc2 hc).1]
  rfl

/-- **FAT slice**: `fatSliceOf fs` is the placement the pure `fatSlice` computes (begin, size, mirrors), it starts at or
    after the reserved area and all its mirrors end before the root directory / data area — when, with mirroring off,
    the active FAT index is below the number of FATs (not validated by the library: `C07.active_fat_counterexample`) -/
theorem fatSliceOf_placement {bs : List Nat} {strict accDate lfnAlloc unicode : Bool} {g : Geometry} {fi : FsInfo}
    (hb : IsSector bs) (hp : probe bs strict = .ok g) (hact : g.mirroring = false → g.activeFat < g.fats)
    (viaFs : Bool) :
    let fs := mountedFs strict accDate lfnAlloc unicode ⟨(BootSector.deserialize bs).bpb, g, fi⟩
    ∃ s : SlicePlace, fatSlice (Bpb.deserialize bs) = .ok s ∧
      fatSliceOf fs viaFs = { beginOff := s.sBegin, size := s.size, offset := 0, mirrors := s.mirrors, viaFs := viaFs } ∧
      fs.reserved * fs.bps ≤ s.sBegin ∧
      s.sBegin + s.mirrors * s.size ≤ (fs.reserved + fs.fats * fs.spf) * fs.bps ∧
      (fs.reserved + fs.fats * fs.spf + fs.rootDirSectors) * fs.bps = fs.firstDataSector * fs.bps := by
  intro fs
  obtain ⟨hv, rfl⟩ := probe_ok hb hp
  obtain ⟨first, h1, h2, h3, h4⟩ := fatSlice_ok (Bpb.deserialize_inRange hb) hv hact
  refine ⟨_, h2, ?_, Nat.mul_le_mul_right _ h3, ?_, rfl⟩
  · show fatSliceOf fs viaFs = _
    unfold fatSliceOf
    cases hm : (Bpb.deserialize bs).mirroringEnabled with
    | true =>
      have : fs.mirroring = true := hm
      rw [if_pos this]
      simp only [fatSliceFirstSector, hm, if_true, epure_eq, Except.ok.injEq] at h1
      subst h1
      simp only [fatSliceMirrors, hm, if_true]
      rfl
    | false =>
      have : fs.mirroring = false := hm
      rw [if_neg (by rw [this]; simp)]
      have ha := hact hm
      have hfx := hv.fatsXspf
      have hle : (Bpb.deserialize bs).activeFat * (Bpb.deserialize bs).sectorsPerFat
          ≤ (Bpb.deserialize bs).fats * (Bpb.deserialize bs).sectorsPerFat :=
        Nat.mul_le_mul_right _ (Nat.le_of_lt ha)
      have hfds := hv.fds
      have hts := Bpb.totalSectors_lt (Bpb.deserialize_inRange hb)
      simp only [fatSliceFirstSector, hm, Bool.false_eq_true, if_false] at h1
      rw [u32Mul_of_lt (by omega), ebind_ok, u32Add_of_lt (by unfold Bpb.fdsNat at hfds; omega)] at h1
      cases h1
      simp only [fatSliceMirrors, hm, Bool.false_eq_true, if_false]
      rfl
  · have : first * (Bpb.deserialize bs).bytesPerSector +
        fatSliceMirrors (Bpb.deserialize bs) * ((Bpb.deserialize bs).sectorsPerFat * (Bpb.deserialize bs).bytesPerSector)
        = (first + fatSliceMirrors (Bpb.deserialize bs) * (Bpb.deserialize bs).sectorsPerFat)
            * (Bpb.deserialize bs).bytesPerSector := by
      rw [Nat.add_mul, Nat.mul_assoc]
    show first * (Bpb.deserialize bs).bytesPerSector +
        fatSliceMirrors (Bpb.deserialize bs) * ((Bpb.deserialize bs).sectorsPerFat * (Bpb.deserialize bs).bytesPerSector) ≤ _
    rw [this]
    exact Nat.mul_le_mul_right _ h4

/-- **fixed root slice** (FAT12/16 `root_dir()`): `rootSliceOf fs` is the placement the pure `rootDirSlice` computes:
    right after the FATs, up to the first data sector -/
theorem rootSliceOf_placement {bs : List Nat} {strict accDate lfnAlloc unicode : Bool} {g : Geometry} {fi : FsInfo}
    (hb : IsSector bs) (hp : probe bs strict = .ok g) :
    let fs := mountedFs strict accDate lfnAlloc unicode ⟨(BootSector.deserialize bs).bpb, g, fi⟩
    ∃ s : SlicePlace, rootDirSlice (Bpb.deserialize bs) g.firstDataSector g.rootDirSectors = .ok s ∧
      rootSliceOf fs = { beginOff := s.sBegin, size := s.size, offset := 0, mirrors := 1, viaFs := true } ∧
      s.sBegin = (fs.reserved + fs.fats * fs.spf) * fs.bps ∧
      s.sBegin + s.size = fs.firstDataSector * fs.bps := by
  intro fs
  obtain ⟨hv, rfl⟩ := probe_ok hb hp
  have h := rootDirSlice_ok (Bpb.deserialize_inRange hb) hv
  have e : (Bpb.deserialize bs).fdsNat - (Bpb.deserialize bs).rdsNat =
      (Bpb.deserialize bs).reservedSectors + (Bpb.deserialize bs).fats * (Bpb.deserialize bs).sectorsPerFat := by
    unfold Bpb.fdsNat; omega
  refine ⟨_, h, ?_, rfl, ?_⟩
  · show rootSliceOf fs = _
    unfold rootSliceOf
    show DiskSlice.mk (((Bpb.deserialize bs).fdsNat - (Bpb.deserialize bs).rdsNat) * (Bpb.deserialize bs).bytesPerSector)
      _ _ _ _ = _
    rw [e]
    rfl
  · show ((Bpb.deserialize bs).reservedSectors + (Bpb.deserialize bs).fats * (Bpb.deserialize bs).sectorsPerFat)
        * (Bpb.deserialize bs).bytesPerSector + (Bpb.deserialize bs).rdsNat * (Bpb.deserialize bs).bytesPerSector
      = (Bpb.deserialize bs).fdsNat * (Bpb.deserialize bs).bytesPerSector
    rw [← Nat.add_mul]; rfl

/-! ## stated on the result of a run of the mount program -/

/-- after a successful mount, `offset_from_cluster` of every data cluster is exact, in range, and cannot panic -/
theorem mount_then_offset (strict accDate lfnAlloc unicode : Bool) {d : Dev} (hd : Mountable d)
    {fs : FsState} {d' : Dev} (hrun : run (mount strict accDate lfnAlloc unicode) d = (.ok fs, d'))
    {c : Nat} (hc2 : 2 ≤ c) (hc : c < fs.totalClusters + 2) (dl : Dev) :
    run (offsetFromClusterP fs c) dl = (.ok ((fs.firstDataSector + (c - 2) * fs.spc) * fs.bps), dl) ∧
    fs.firstDataSector * fs.bps ≤ (fs.firstDataSector + (c - 2) * fs.spc) * fs.bps ∧
    (fs.firstDataSector + (c - 2) * fs.spc) * fs.bps + fs.clusterSize ≤ fs.totalSectors * fs.bps ∧
    fs.totalSectors * fs.bps < 2 ^ 44 := by
  have hacc := (mount_run_accepted strict accDate lfnAlloc unicode hd hrun).1
  obtain ⟨_, h2, h3, h4⟩ := offsetFromClusterP_ok hacc hc2 hc
  exact ⟨run_offsetFromClusterP hacc hc2 hc dl, h2, h3, h4⟩

/-- after a successful mount, the FAT slice and the fixed root slice of the mounted state are the pure placements -/
theorem mount_then_slices (strict accDate lfnAlloc unicode : Bool) {d : Dev} (hd : Mountable d)
    {fs : FsState} {d' : Dev} (hrun : run (mount strict accDate lfnAlloc unicode) d = (.ok fs, d')) :
    (∃ s : SlicePlace, rootDirSlice (Bpb.deserialize (bootOf d)) fs.firstDataSector fs.rootDirSectors = .ok s ∧
      rootSliceOf fs = { beginOff := s.sBegin, size := s.size, offset := 0, mirrors := 1, viaFs := true } ∧
      s.sBegin = (fs.reserved + fs.fats * fs.spf) * fs.bps ∧ s.sBegin + s.size = fs.firstDataSector * fs.bps) ∧
    ((fs.mirroring = false → fs.activeFat < fs.fats) → ∀ viaFs,
      ∃ s : SlicePlace, fatSlice (Bpb.deserialize (bootOf d)) = .ok s ∧
        fatSliceOf fs viaFs =
          { beginOff := s.sBegin, size := s.size, offset := 0, mirrors := s.mirrors, viaFs := viaFs } ∧
        fs.reserved * fs.bps ≤ s.sBegin ∧
        s.sBegin + s.mirrors * s.size ≤ (fs.reserved + fs.fats * fs.spf) * fs.bps) := by
  obtain ⟨g, fi, hp, hfs, _⟩ := mount_run_ok strict accDate lfnAlloc unicode d hd.pos hd.noFault hd.size hrun
  have hb := isSector_bootOf d
  change probe (bootOf d) strict = .ok g at hp
  change fs = mountedFs strict accDate lfnAlloc unicode ⟨(BootSector.deserialize (bootOf d)).bpb, g, fi⟩ at hfs
  generalize bootOf d = bs at *
  subst hfs
  constructor
  · exact rootSliceOf_placement (strict := strict) (accDate := accDate) (lfnAlloc := lfnAlloc) (unicode := unicode)
      (fi := fi) hb hp
  · intro hact viaFs
    obtain ⟨s, h1, h2, h3, h4, _⟩ := fatSliceOf_placement (strict := strict) (accDate := accDate)
      (lfnAlloc := lfnAlloc) (unicode := unicode) (fi := fi) hb hp hact viaFs
    exact ⟨s, h1, h2, h3, h4⟩

/-! ## satisfiability -/

open C07run.Ex C07 in
/-- the mounted state of the FAT32 example device: last data cluster 68 553 at byte offset (1080 + 68 551)·512 -/
example : ∃ fs d', run (mount true false true true) dev32 = (.ok fs, d') ∧ 68553 < fs.totalClusters + 2 ∧
    run (offsetFromClusterP fs 68553) d' = (.ok ((1080 + 68551) * 512), d') ∧
    (fatSliceOf fs).beginOff = 8 * 512 ∧ (fatSliceOf fs).size = 536 * 512 ∧ (fatSliceOf fs).mirrors = 2 := by
  have hin : FsInfoInside true dev32 := by
    intro g _ _
    rw [boot32, fsInfoOffset32]; decide
  obtain ⟨d', h1, _, _, _⟩ := C07run.mount_run true false true true mountable32 hin
  rw [boot32, fsinfo32] at h1
  have hm : (mountGeometry goodFat32 (fsInfoSector 68552 68554) true).toOption.map
      (fun m => (m.geo, m.bpb.sectorsPerCluster)) = some ((Bpb.deserialize goodFat32).geoOf, 1) := by
    decide +kernel
  cases hg : mountGeometry goodFat32 (fsInfoSector 68552 68554) true with
  | error e => rw [hg] at hm; cases hm
  | ok m =>
    rw [hg] at hm h1
    simp only [Except.toOption, Option.map_some, Option.some.injEq, Prod.mk.injEq] at hm
    obtain ⟨m1, m2⟩ := hm
    have hfields : (mountedFs true false true true m).totalClusters = 68552 ∧
        (mountedFs true false true true m).firstDataSector = 1080 ∧ (mountedFs true false true true m).spc = 1 ∧
        (mountedFs true false true true m).bps = 512 ∧ (mountedFs true false true true m).mirroring = true ∧
        (mountedFs true false true true m).reserved = 8 ∧ (mountedFs true false true true m).spf = 536 ∧
        (mountedFs true false true true m).fats = 2 := by
      simp only [mountedFs, m1, m2]
      decide +kernel
    obtain ⟨f1, f2, f3, f4, f5, f6, f7, f8⟩ := hfields
    refine ⟨_, d', h1, by rw [f1]; decide, ?_, ?_, ?_, ?_⟩
    · have := (mount_then_offset true false true true mountable32 h1 (c := 68553) (by decide) (by rw [f1]; decide) d').1
      rw [f2, f3, f4] at this
      exact this
    · unfold fatSliceOf; rw [if_pos f5, f6, f4]
    · unfold fatSliceOf; rw [if_pos f5, f7, f4]
    · unfold fatSliceOf; rw [if_pos f5, f8]

end FatVerif.C20run
