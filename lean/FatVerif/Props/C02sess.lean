import FatVerif.Proofs.FileSimSess
/-!
# C02 at the level of the history driver: the file operations of `Session.step` on any number of open files

`SessInv s`: the session is alive and its table of open file handles satisfies `MultiInv` on its device (every handle
`FullInv`; chains pairwise disjoint; no slot is a position any handle may write; slots pairwise disjoint).
`session_file_step`: one of `read` / `readx` / `write` / `writeall` / `seek` / `truncate` / `flush` on an open handle is
exactly the step `execN` of `Props/C02multi.lean` (result token, device, handle table), the session stays alive and
`SessInv` holds again.  `session_files_refine_bytefiles`: a whole script of such operations on ANY number of open
files behaves as independent byte arrays with a cursor.
-/
namespace FatVerif.FileSim
open FatVerif FatVerif.Fat

/-- the handle table of a session as a function -/
def sessFiles (s : Session) : Nat → Option FileH := fun i => s.files[i]?

structure SessInv (s : Session) : Prop where
  alive : s.dead = false
  multi : MultiInv (sessFiles s) s.dev

/-- ONE covered file operation of the history driver on an open handle -/
theorem session_file_step (s : Session) (hs : SessInv s) (op : ApiOp) (i : Nat) (eop : EOp)
    (hop : fileOpOf op = some (i, eop)) (hi : (sessFiles s i).isSome = true) (hok : eop.BytesOk) :
    (s.step op).2 = apiOfRes (execN i eop (sessFiles s) s.dev).1 ∧
    sessFiles (s.step op).1 = (execN i eop (sessFiles s) s.dev).2.1 ∧
    (s.step op).1.dev = (execN i eop (sessFiles s) s.dev).2.2 ∧
    SessInv (s.step op).1 := by
  obtain ⟨h, hf⟩ := Option.isSome_iff_exists.mp hi
  have hf' : s.files[i]? = some h := hf
  have hout := session_step_out s hs.alive op i eop hop h hf'
  obtain ⟨hM', _, _, hchk⟩ := execN_refines i eop (sessFiles s) s.dev hs.multi hi hok
  have hex : execN i eop (sessFiles s) s.dev =
      ((execE eop h s.dev).1, updF (sessFiles s) i (execE eop h s.dev).2.1, (execE eop h s.dev).2.2) := by
    unfold execN; rw [hf]
  rw [hex] at hM' hchk ⊢
  have hfiles : sessFiles (s.step op).1 = updF (sessFiles s) i (execE eop h s.dev).2.1 := by
    funext j
    show (s.step op).1.files[j]? = _
    rw [hout.files j]
    rfl
  have hnf : resFatal (execE eop h s.dev).1 = false := by
    have hB : absN (sessFiles s) s.dev i = some (absFile s.dev.fs s.dev.img h).abs := by
      unfold absN; rw [hf]; rfl
    unfold checkN at hchk
    rw [hB] at hchk
    simp only at hchk
    cases hc : Cursor.ByteFile.check s.dev.fs.clusterSize eop.toOp (execE eop h s.dev).1
        (absFile s.dev.fs s.dev.img h).abs with
    | ok b' => exact check_ok_not_fatal hc
    | error e => rw [hc] at hchk; cases hchk
  refine ⟨hout.res, hfiles, hout.dev, ⟨by rw [hout.dead, hnf], ?_⟩⟩
  rw [hfiles, hout.dev]
  exact hM'

/-- a script -/
def sessRun : List ApiOp → Session → Session × List ApiRes
  | [], s => (s, [])
  | op :: ops, s =>
    let r := s.step op
    let rest := sessRun ops r.1
    (rest.1, r.2 :: rest.2)

/-- every operation of the script is a covered file operation on an open handle, with a buffer of bytes -/
def ScriptOk (ops : List ApiOp) (s : Session) : Prop :=
  ∀ op ∈ ops, ∃ i e, fileOpOf op = some (i, e) ∧ (sessFiles s i).isSome = true ∧ e.BytesOk

theorem scriptOk_filterMap {ops : List ApiOp} {s : Session} (h : ScriptOk ops s) :
    OpsOkN (ops.filterMap fileOpOf) (sessFiles s) := by
  intro x hx
  obtain ⟨op, hop, hfx⟩ := List.mem_filterMap.mp hx
  obtain ⟨i, e, h1, h2, h3⟩ := h op hop
  rw [h1] at hfx
  cases hfx
  exact ⟨h2, h3⟩

/-- the script of the session is the history `runN` on the handle table -/
theorem sessRun_eq_runN : ∀ (ops : List ApiOp) (s : Session), SessInv s → ScriptOk ops s →
    (sessRun ops s).2 = (runN (ops.filterMap fileOpOf) (sessFiles s) s.dev).1.map apiOfRes ∧
    sessFiles (sessRun ops s).1 = (runN (ops.filterMap fileOpOf) (sessFiles s) s.dev).2.1 ∧
    (sessRun ops s).1.dev = (runN (ops.filterMap fileOpOf) (sessFiles s) s.dev).2.2 ∧
    SessInv (sessRun ops s).1
  | [], s, hs, _ => ⟨rfl, rfl, rfl, hs⟩
  | op :: ops, s, hs, hok => by
    obtain ⟨i, e, hop, hi, hb⟩ := hok op (List.mem_cons_self ..)
    obtain ⟨h1, h2, h3, h4⟩ := session_file_step s hs op i e hop hi hb
    obtain ⟨_, _, hsome, _⟩ := execN_refines i e (sessFiles s) s.dev hs.multi hi hb
    have hok' : ScriptOk ops (s.step op).1 := by
      intro op' hop'
      obtain ⟨i', e', a, b, c⟩ := hok op' (List.mem_cons_of_mem _ hop')
      exact ⟨i', e', a, by rw [h2, hsome]; exact b, c⟩
    obtain ⟨r1, r2, r3, r4⟩ := sessRun_eq_runN ops (s.step op).1 h4 hok'
    have hfm : (op :: ops).filterMap fileOpOf = (i, e) :: ops.filterMap fileOpOf := by
      rw [List.filterMap_cons, hop]
    rw [hfm]
    simp only [sessRun, runN, List.map]
    rw [h2, h3] at r1 r2 r3
    exact ⟨by rw [h1, r1], r2, r3, r4⟩

/-- **`session_files_refine_bytefiles`.**  A live session whose open file handles are on distinct files of the
    volume (`SessInv`), any script of `read` / `readx` / `write` / `writeall` / `seek` / `truncate` / `flush` on ANY of
    the open handles, in any interleaving: there are observable results `results` — one per operation — such that the
    tokens the history driver prints are `results.map apiOfRes`, the byte-array specification accepts them with one
    independent `ByteFile` per handle (`checkRunN`; a step moves only the byte array of the handle it addresses), no
    operation panics or hangs (the session stays alive) and `SessInv` holds again. -/
theorem session_files_refine_bytefiles (ops : List ApiOp) (s : Session) (hs : SessInv s) (hok : ScriptOk ops s) :
    ∃ results : List Cursor.FileRes,
      (sessRun ops s).2 = results.map apiOfRes ∧ SessInv (sessRun ops s).1 ∧
      checkRunN s.dev.fs.clusterSize ((ops.filterMap fileOpOf).map fun x => (x.1, x.2.toOp)) results
        (absN (sessFiles s) s.dev) = .ok (absN (sessFiles (sessRun ops s).1) (sessRun ops s).1.dev) := by
  obtain ⟨r1, r2, r3, r4⟩ := sessRun_eq_runN ops s hs hok
  obtain ⟨_, _, hchk⟩ := files_refine_bytefiles (ops.filterMap fileOpOf) (sessFiles s) s.dev hs.multi
    (scriptOk_filterMap hok)
  exact ⟨_, r1, r4, by rw [r2, r3]; exact hchk⟩

end FatVerif.FileSim

/-! ## the statement is not vacuous: a session with the two open files of `Props/C02multi.lean` -/

namespace FatVerif.FileSim.ExS
open FatVerif FatVerif.Fat FatVerif.FileSim FatVerif.FileSim.Ex FatVerif.FileSim.Ex14 FatVerif.FileSim.Ex11
  FatVerif.FileSim.ExN

/-- a mounted session on the two-file volume with both files open: handle 1 and handle 2 -/
def s17 : Session :=
  { dev := dev17, env := ⟨fun c => [c]⟩, mounted := true,
    files := ((∅ : Std.HashMap Nat FileH).insert 1 file14).insert 2 fileG }

theorem sessFiles17 : sessFiles s17 = F17 := by
  funext i
  show (((∅ : Std.HashMap Nat FileH).insert 1 file14).insert 2 fileG)[i]? = F17 i
  rw [Std.HashMap.getElem?_insert, Std.HashMap.getElem?_insert]
  unfold F17
  by_cases h2 : i = 2
  · subst h2; rfl
  · have e2 : (2 == i) = false := by simp; exact fun e => h2 e.symm
    rw [e2]
    by_cases h1 : i = 1
    · subst h1; rfl
    · have e1 : (1 == i) = false := by simp; exact fun e => h1 e.symm
      rw [e1, if_neg h1, if_neg h2]
      simp

theorem sessInv17 : SessInv s17 := ⟨rfl, by rw [sessFiles17]; exact multi17⟩

/-- the script of `ExN.opsN`, as the history driver receives it -/
def script17 : List ApiOp :=
  [.seek 1 .start 1020, .readx 2 3, .writeall 1 [1, 2, 3, 4, 5, 6], .flush 1, .seek 2 .start 1, .write 2 [7], .flush 2,
   .seek 2 .start 0, .read 2 4]

theorem script17_ops : script17.filterMap fileOpOf = opsN := rfl

theorem scriptOk17 : ScriptOk script17 s17 := by
  intro op hop
  have hmem : ∀ x ∈ script17.filterMap fileOpOf, (F17 x.1).isSome = true ∧ x.2.BytesOk := by
    rw [script17_ops]; exact opsOkN
  simp only [script17, List.mem_cons, List.not_mem_nil, or_false] at hop
  rcases hop with rfl | rfl | rfl | rfl | rfl | rfl | rfl | rfl | rfl <;>
    refine ⟨_, _, rfl, ?_, ?_⟩ <;> first
      | (rw [sessFiles17]; rfl)
      | exact trivial
      | (intro bs e; rcases e with e | e <;> cases e <;> decide)
      | (intro bs e; rcases e with e | e <;> cases e)

/-- `session_files_refine_bytefiles` applied: the tokens printed are those of the results `ExN.runN17` evaluates, and
    the specification accepts them -/
theorem sessSpec17 :
    (sessRun script17 s17).2 =
      [ApiRes.ok ["1020"], .ok [Util.hexOfBytes [41, 42, 43]], .ok [], .ok [], .ok ["1"], .ok ["1"], .ok [], .ok ["0"],
       .ok [Util.hexOfBytes [41, 7, 43, 0]]] ∧
    SessInv (sessRun script17 s17).1 := by
  obtain ⟨r1, _, _, r4⟩ := sessRun_eq_runN script17 s17 sessInv17 scriptOk17
  refine ⟨?_, r4⟩
  rw [r1, script17_ops, sessFiles17]
  show (runN opsN F17 dev17).1.map apiOfRes = _
  rw [runN17.1]
  rfl

end FatVerif.FileSim.ExS
