import FatVerif.Proofs.GeoModel
import FatVerif.Props.C07run
import FatVerif.Props.C09
/-! # C12 on the programs: the mount-time status byte survives a whole session

`Geo p` (Proofs/GeoModel.lean): every run of `p`, whatever its outcome, keeps the immutable part of the mounted state
(`SameGeom`: everything but the FS-info cache and the current status flags) — proved for every program of the model by
structural descent, without any hypothesis on device, handles or geometry. Hence every API program other than `mount`
keeps `statusRaw`, `bpbDirty`, `bpbIoErr`, `fatType`; combined with `C07run.mount_run_status` and
`C12.unmount_restores_mount_byte`: the byte `unmount` writes back is the byte the image held when it was mounted. -/
namespace FatVerif

/-- `p` is not the mount program -/
def NotMount {α : Type} (p : Prog α) : Prop := ∀ a b c d, ¬ HEq p (FatVerif.mount a b c d)

theorem apiProg_geo {α : Type} {p : Prog α} (h : ApiProg p) (hnm : NotMount p) : Geo p := by
  cases h with
  | format o => exact formatVolume_geo o
  | mount a b c d => exact absurd HEq.rfl (hnm a b c d)
  | unmount root => exact Geo.bind _ _ root.drop_geo (fun _ => unmount_geo)
  | dropfs root => exact Geo.bind _ _ root.drop_geo (fun _ => dropFs_geo)
  | openDir => exact openDir_geo _ _ _ _
  | openFile => exact openFile_geo _ _ _ _
  | remove => exact remove_geo _ _ _ _
  | list => exact listDir_geo _
  | read f n => exact f.read_geo n
  | write f bs => exact f.write_geo bs
  | seek f p => exact f.seek_geo p
  | truncate f => exact f.truncate_geo
  | flush f => exact f.flush_geo
  | dropf f => exact f.drop_geo
  | dropd d => exact d.drop_geo
  | extents f => exact f.extents_geo
  | stats => exact stats_geo
  | status => exact readStatusFlags_geo
  | labelRoot => exact readVolumeLabelFromRootDir_geo

theorem apiProgAll_geo {α : Type} {p : Prog α} (h : ApiProgAll p) (hnm : NotMount p) : Geo p := by
  cases h with
  | base h => exact apiProg_geo h hnm
  | createDir env fuel d path => exact createDir_geo env fuel d path
  | createFile env fuel d path => exact createFile_geo env fuel d path
  | rename env fuel d src d2 dst => exact rename_geo env fuel d src d2 dst

/-- **`geometry_preserved`**: every API program other than `mount` — whatever its arguments and outcome — leaves the
    immutable part of the mounted state as it was -/
theorem geometry_preserved {α : Type} {p : Prog α} (h : ApiProgAll p) (hnm : NotMount p) (d : Dev) {r d'}
    (hr : run p d = (r, d')) : SameGeom d.fs d'.fs :=
  (apiProgAll_geo h hnm).out d r d' hr

/-- … in particular the mount-time status fields -/
theorem mount_time_fields_preserved {α : Type} {p : Prog α} (h : ApiProgAll p) (hnm : NotMount p) (d : Dev) {r d'}
    (hr : run p d = (r, d')) :
    d'.fs.statusRaw = d.fs.statusRaw ∧ d'.fs.bpbDirty = d.fs.bpbDirty ∧ d'.fs.bpbIoErr = d.fs.bpbIoErr ∧
    d'.fs.fatType = d.fs.fatType := by
  have hg := geometry_preserved h hnm d hr
  exact ⟨(hg.proj FsState.statusRaw).symm, (hg.proj FsState.bpbDirty).symm, (hg.proj FsState.bpbIoErr).symm,
    (hg.proj FsState.fatType).symm⟩

/-- any sequence of runs of API programs other than `mount` -/
inductive VolRuns : Dev → Dev → Prop where
  | refl (d : Dev) : VolRuns d d
  | run {α : Type} (p : Prog α) (d : Dev) (r : Except Err α) (d' : Dev) : ApiProgAll p → NotMount p →
      run p d = (r, d') → VolRuns d d'
  | trans {a b c : Dev} : VolRuns a b → VolRuns b c → VolRuns a c

theorem volRuns_geometry {d d' : Dev} (h : VolRuns d d') : SameGeom d.fs d'.fs := by
  induction h with
  | refl d => exact SameGeom.refl _
  | run p d r d' hp hnm hr => exact geometry_preserved hp hnm d hr
  | trans _ _ ih1 ih2 => exact ih1.trans ih2

/-- **`mounted_unmount_restores_status`** (closes F16 on the programs, no frame hypothesis): mount a volume
    successfully; run any sequence of API programs (any arguments, any outcomes, faults included); if `unmount_internal`
    then succeeds and has to write the status byte (the current flags differ from the mount-time ones), the record it
    appends carries exactly the byte the image held at 0x41 / 0x25 when it was mounted — all eight bits -/
theorem mounted_unmount_restores_status (strict accDate lfnAlloc unicode : Bool) {d : Dev} (hd : C07run.Mountable d)
    {fs : FsState} {d1 : Dev} (hrun : run (mount strict accDate lfnAlloc unicode) d = (.ok fs, d1))
    {dl : Dev} (hsess : VolRuns d1 dl) {u : Unit} {d' : Dev} (hu : run unmountInternal dl = (.ok u, d'))
    (hdiff : ¬ (dl.fs.curDirty = dl.fs.bpbDirty ∧ dl.fs.curIoErr = dl.fs.bpbIoErr)) :
    ∃ dm : Dev, run flushFsInfo dl = (.ok (), dm) ∧
      d'.log = .write (statusOff fs) [d.img.getByte (statusOff fs)] :: dm.log := by
  have hfs : d1.fs = fs := (C07run.mount_run_status strict accDate lfnAlloc unicode hd hrun).2.2.2.2.2.2
  have hg := volRuns_geometry hsess
  rw [hfs] at hg
  exact C07run.unmount_restores_mount_byte_run strict accDate lfnAlloc unicode hd hrun dl
    (hg.proj FsState.statusRaw).symm (hg.proj FsState.bpbDirty).symm (hg.proj FsState.bpbIoErr).symm
    (hg.proj FsState.fatType).symm hu hdiff

/-- the hypotheses are satisfiable: the 16 MiB FAT16 example device of `C07run` is mountable, and the empty session is a
    session -/
example : C07run.Mountable C07run.Ex.dev16 ∧ VolRuns C07run.Ex.dev16 C07run.Ex.dev16 :=
  ⟨C07run.Ex.mountable16, VolRuns.refl _⟩

end FatVerif
