import FatVerif.Props.SpecFatEntry
import FatVerif.Props.SpecChain
import FatVerif.Spec.FatTable
import FatVerif.Proofs.FatSpecEq
/-!
# The executable chain decoder of the oracles = the list-based specification decoder of the theorems

`Props/C04`, `Props/C08` state "the library's programs decode what the specification decoder `FatSpec.specChain`
decodes" (`fileChain_spec`); the oracles that search for a failing input run `Spec.chainOfF`.  Until now the two were
related on example images only.  Here, for every FAT width, every byte string of a FAT copy and every start cluster:
whatever chain the oracle returns is the chain `specChain` computes (`oracle_chain_eq_specChain`), by composing
`chainOfF_sound` (Props/SpecChain), `oracle_entry_eq_model` (Props/SpecFatEntry) and `get_spec` (C08.1).
-/
namespace FatVerif.Spec
open FatVerif

theorem refine_next {total : Nat} {v : FatValue} {d : Nat} (h : refineValue total v = .next d) :
    v = .data d ∧ 2 ≤ d ∧ d < total + 2 := by
  cases v with
  | free => cases h
  | bad => cases h
  | eoc => cases h
  | data w =>
    simp only [refineValue] at h
    split at h
    · rename_i hr; cases h; exact ⟨rfl, hr⟩
    · cases h

theorem refine_eoc {total : Nat} {v : FatValue} (h : refineValue total v = .eoc) : v = .eoc := by
  cases v with
  | free => cases h
  | bad => cases h
  | eoc => rfl
  | data w => simp only [refineValue] at h; split at h <;> cases h

/-- a link path of the oracle's table is the chain the list-based specification decoder (`FatSpec.specChain`, the one
    the theorems of C04 / C08 speak about) computes -/
theorem specChain_of_linkPath (bits : Nat) (fat : Array Nat) (total : Nat) (entry : Nat → FatClass)
    (hrel : ∀ c, 2 ≤ c → c < total + 2 → entry c = refineValue total (FatSpec.specValue bits fat c)) :
    ∀ (rest : List Nat) (c fuel : Nat), IsLinkPath entry (c :: rest) → 2 ≤ c → c < total + 2 → rest.length < fuel →
      FatSpec.specChain bits fat (total + 2) fuel c = some (c :: rest)
  | _, _, 0, _, _, _, hf => by omega
  | [], c, fuel + 1, hp, h2, ht, _ => by
    have he : entry c = .eoc := hp
    rw [hrel c h2 ht] at he
    have := refine_eoc he
    unfold FatSpec.specChain
    rw [if_neg (by omega), this]
  | d :: l, c, fuel + 1, hp, h2, ht, hf => by
    have he : entry c = .next d := hp.1
    rw [hrel c h2 ht] at he
    obtain ⟨hv, hd2, hdt⟩ := refine_next he
    have ih := specChain_of_linkPath bits fat total entry hrel l d fuel hp.2 hd2 hdt (by simp at hf; omega)
    unfold FatSpec.specChain
    rw [if_neg (by omega), hv]
    simp only [ih, Option.map_some]

/-- **`chainOfF_eq_specChain`.**  Whatever chain the executable oracle decoder returns is the chain of the
    specification decoder of the theorems, on every table on which the two read single entries alike. -/
theorem chainOfF_eq_specChain (bits : Nat) (fat : Array Nat) (total first : Nat) (entry : Nat → FatClass)
    (hrel : ∀ c, 2 ≤ c → c < total + 2 → entry c = refineValue total (FatSpec.specValue bits fat c))
    (cs : Array Nat) (h : chainOfF entry total first = .ok cs) :
    FatSpec.specChain bits fat (total + 2) (total + 2) first = some cs.toList := by
  obtain ⟨h2, ht, hh, hl⟩ := chainOfF_sound entry total first cs h
  have hlen := chainOfF_length entry total first cs h
  cases hc : cs.toList with
  | nil => rw [hc] at hl; exact hl.elim
  | cons a rest =>
    rw [hc] at hh hl hlen
    simp at hh
    subst hh
    exact specChain_of_linkPath bits fat total entry hrel rest a (total + 2) hl h2 ht (by simp at hlen; omega)

end FatVerif.Spec

namespace FatVerif.Spec
open FatVerif FatVerif.Fat

/-- the oracle's classified table over the bytes of one FAT copy -/
def oracleEntry (ft : FatType) (f : Array Nat) (total c : Nat) : FatClass :=
  classifyRaw ft.bits total (fatEntryRawF ft.bits (fun i => Fat.rd f i) 0 c)

/-- **`oracle_chain_eq_specChain`.**  On the bytes of ANY FAT copy (all widths) whose entries `2 … total+1` are
    readable: a chain the executable oracle decoder returns is exactly the chain of the list-based specification
    decoder `FatSpec.specChain` — the decoder the byte-level theorems of C04 / C08 (`fileChain_spec`, program =
    specification decoder) are stated with.  Composes `chainOfF_sound`, `oracle_entry_eq_model` and `get_spec`. -/
theorem oracle_chain_eq_specChain (ft : FatType) (f : Array Nat) (total first : Nat) (hf : WfBytes f)
    (hplain : ∀ c, 2 ≤ c → c < total + 2 → Plain ft f c) (cs : Array Nat)
    (h : chainOfF (oracleEntry ft f total) total first = .ok cs) :
    FatSpec.specChain ft.bits f (total + 2) (total + 2) first = some cs.toList := by
  apply chainOfF_eq_specChain ft.bits f total first (oracleEntry ft f total) _ cs h
  intro c h2 ht
  have hp := hplain c h2 ht
  exact oracle_entry_eq_model ft f total c _ hp.2 hf (get_spec ft f hf c hp)

end FatVerif.Spec
