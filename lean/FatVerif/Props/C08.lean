import FatVerif.Proofs.DecodeAgree6
/-!
# C08 — any specification-valid foreign volume is read faithfully

`SpecValidVolume d`: the device holds a volume that
* has a boot sector the library's characterised validity `Bpb.Valid` accepts (agent-bpb: `validate = ok ↔ Valid`; it
  implies the specification's `GeoSpec.Coherent`, C07.2) — the boot-sector clause;
* has the three layout properties of a specification-valid volume that `FileSystem::new` does not check (`LayoutOk`: every
  FAT copy has an entry for every cluster and is at most 4 GiB, the active FAT exists, the declared volume fits the
  device);
* has a specification-valid directory tree (`SpecValidTree`, stated with the SPECIFICATION's decoders only —
  `FatSpec.specChain`/`specValue` on the FAT bytes, `DirSpec.specRows` on the slots): every directory of the tree has a
  chain ending in an end-of-chain mark and is smaller than 4 GiB; every listed file has a chain long enough for its size
  (none and size 0 for an empty file).

`foreign_volume_read_faithful`: after a successful mount (heap long-name buffer, `update_accessed_date` off) the
geometry is the specification's, and EVERY directory reached from the root by `to_dir` on listed entries lists as the
specification decoder reads it, and EVERY listed file reads to its end as `specContent` — the hypotheses kept by
agent-effects (`RootReadable`, `ChainReadable`) and agent-cursor (`Geo`, `FileRep`) are DISCHARGED from
`SpecValidVolume` + mount (Proofs/DecodeAgree3–6).

`FatWf` of the table is NOT needed for reading (a terminating chain cannot repeat a cluster: `chain_nodup_of_finite`).
-/
namespace FatVerif
open DirSim FileSim DecodeAgree GeoSpec C07run

namespace C08

/-- the decoded boot sector of the device -/
def bpbOf (d : Dev) : Bpb := Bpb.deserialize (bootOf d)

structure SpecValidVolume (d : Dev) : Prop where
  mountable : Mountable d
  boot : (bpbOf d).Valid
  layout : LayoutOk (bpbOf d) d.img.size
  /-- the tree, for the geometry of the boot sector (the remaining fields of a mounted state — options, FS-info cache —
      do not enter `SpecValidTree`) -/
  tree : ∀ strict unicode fi, SpecValidTree (fsOf strict false true unicode (bpbOf d) fi) d.img

/-- the FS-info sector of a specification-valid FAT32 volume lies inside the device (it lies in the reserved area) -/
theorem fsInfoInside (strict : Bool) {d : Dev} (hv : SpecValidVolume d) : FsInfoInside strict d := by
  intro g hp h32
  obtain ⟨_, hg⟩ := probe_ok (isSector_bootOf d) hp
  have hval := hv.boot
  have hw : (bpbOf d).isFat32 = true := by
    rw [hval.width]
    have : g.fatType = FatType.fromClusters (bpbOf d).tcNat := by rw [hg]; rfl
    rw [← this]; exact h32
  have hfi := hval.fsInfo hw
  obtain ⟨hB, _⟩ := bps_ge hval
  have hfds := fds_le hval
  show (bpbOf d).fsInfoSector * (bpbOf d).bytesPerSector + 512 ≤ d.img.size
  have h1 : ((bpbOf d).fsInfoSector + 1) * (bpbOf d).bytesPerSector ≤ (bpbOf d).totalSectors * (bpbOf d).bytesPerSector := by
    apply Nat.mul_le_mul_right
    have : (bpbOf d).fdsNat = (bpbOf d).reservedSectors + (bpbOf d).fats * (bpbOf d).sectorsPerFat + (bpbOf d).rdsNat := rfl
    omega
  rw [Nat.add_mul, Nat.one_mul] at h1
  have := hv.layout.fitsDev
  omega

/-- the handles the LIBRARY derives while walking the tree: the root directory, and `to_dir` of a directory entry
    returned by `Dir::iter()` on a handle already derived (on any device with the same image / mounted state) -/
inductive Walk (d0 : Dev) : DirStream → Loc → Prop
  | root : Walk d0 (rootDirStream d0.fs) (rootLoc d0.fs)
  | step (st : DirStream) (loc : Loc) (d1 d2 : Dev) (L : List DirEntry) (e : DirEntry) (c : Nat) :
      Walk d0 st loc → d1.fs = d0.fs → d1.img = d0.img → d1.failAt = d0.failAt →
      run (listDir st) d1 = (.ok L, d2) → e ∈ L → e.isDir = true → e.firstCluster d0.fs = some c →
      Walk d0 (.file (FileH.new (some c) (some e.editor))) (.chain c)

/-- every derived handle is the handle of a directory of the specification's tree -/
theorem walk_sound {d0 : Dev} (hv : VolInv d0) {st : DirStream} {loc : Loc} (hw : Walk d0 st loc) :
    SpecDir d0.fs d0.img loc ∧ HandleFor d0.fs loc st := by
  induction hw with
  | root => exact ⟨SpecDir.root, handleFor_root d0.fs⟩
  | step st loc d1 d2 L e c _ hfs himg hfa hrun he hdir hc ih =>
    obtain ⟨hloc, hst⟩ := ih
    have hv1 := hv.of_same hfs himg hfa
    obtain ⟨slots, L', d', hslots, hrun', hrows, _, _⟩ :=
      dir_faithful hv1 loc (by rw [hfs, himg]; exact hloc) st (by rw [hfs]; exact hst)
    rw [hrun] at hrun'
    have hL : L = L' := by
      have := congrArg Prod.fst hrun'
      exact Except.ok.inj this
    subst hL
    obtain ⟨_, h2, h3⟩ := child_handle (d := d1) loc (by rw [hfs, himg]; exact hloc) slots hslots L hrows e he hdir c
      (by rw [hfs]; exact hc)
    rw [hfs, himg] at h2
    rw [hfs] at h3
    exact ⟨h2, h3⟩

/-- **C08 `foreign_volume_read_faithful`.**  Let `d` hold a specification-valid volume (`SpecValidVolume`) and let the
    mount (any `strict`/`unicode`; `update_accessed_date` off, heap long-name buffer) return `fs` on `d'`.  Then
    1. the boot sector is `Coherent` and FAT width, cluster size and cluster count of `fs` are the independent parse's
       (`specGeometry`); the image is untouched;
    2. for every handle `st` the library derives while walking the tree (`Walk`), on every device with that image and
       mounted state: `Dir::iter()` returns entries whose rows (long name, short names, kind, attributes, size, first
       cluster, timestamps, slot range) are EXACTLY the specification's rows `DirSpec.specRows` of the directory's slots
       in the image (`locSlots`: root region / clusters of the specification's chain);
    3. for every listed entry that is not a directory, `readall` on the handle `to_file` builds returns EXACTLY
       `specContent`: the clusters of the specification's chain of the row's first cluster, cut at the row's size. -/
theorem foreign_volume_read_faithful (strict unicode : Bool) {d : Dev} (hv : SpecValidVolume d) {fs : FsState}
    {d' : Dev} (hrun : run (mount strict false true unicode) d = (.ok fs, d')) :
    (Coherent (bootOf d) ∧ (fs.fatType, fs.clusterSize, fs.totalClusters) = specGeometry (bootOf d) ∧
      d'.fs = fs ∧ d'.img = d.img) ∧
    ∀ (st : DirStream) (loc : Loc), Walk d' st loc →
      ∀ d1 : Dev, d1.fs = d'.fs → d1.img = d'.img → d1.failAt = d'.failAt →
        ∃ slots L d2, locSlots fs d.img loc = some slots ∧ run (listDir st) d1 = (.ok L, d2) ∧
          L.map (libRow fs.fatType) = DirSpec.specRows (fs.fatType == .fat32) slots ∧
          d2.img = d.img ∧ d2.fs = fs ∧ d2.writesOf = d1.writesOf ∧
          ∀ e ∈ L, e.isDir = false → ∀ fuel, e.data.size < fuel → ∀ d3 : Dev, d3.fs = d'.fs → d3.img = d'.img →
            d3.failAt = d'.failAt →
            ∃ f' d4, run (Session.readAllLoop fuel (FileH.new (e.firstCluster fs) (some e.editor)) []) d3 =
                (.ok (specContent fs d.img (libRow fs.fatType e).firstCluster (libRow fs.fatType e).size, f'), d4) ∧
              d4.img = d.img ∧ d4.log = d3.log ∧ d4.fs = fs := by
  have hd := hv.mountable
  obtain ⟨g, fi, hp, hfs, hfs'⟩ := mount_run_ok strict false true unicode d hd.pos hd.noFault hd.size hrun
  obtain ⟨_, hg⟩ := probe_ok (isSector_bootOf d) hp
  have hcoh := mount_run_accepts_coherent strict false true unicode hd hrun
  have hgeo := (mount_run_geometry strict false true unicode hd hrun).1
  -- the frame of the mount
  have hframe : d'.img = d.img ∧ d'.failAt = none := by
    obtain ⟨d1, h1, hf, _⟩ := C07run.mount_run strict false true unicode hd (fsInfoInside strict hv)
    rw [hrun] at h1
    have : d' = d1 := congrArg Prod.snd h1
    subst this
    exact ⟨hf.img, hf.failAt⟩
  have hfsOf : d'.fs = fsOf strict false true unicode (bpbOf d) fi := by
    have e0 : ∀ b, (BootSector.deserialize b).bpb = Bpb.deserialize b := fun _ => rfl
    have e : (BootSector.deserialize (d.img.read 0 512)).bpb = bpbOf d := by
      rw [e0]; unfold bpbOf bootOf; rfl
    have hg' : g = (bpbOf d).geoOf := by rw [hg]; unfold bpbOf; rfl
    rw [hfs', hfs, e, hg']
    unfold fsOf; rfl
  have hinv : VolInv d' :=
    volInv_of_mount (Bpb.deserialize_inRange (isSector_bootOf d)) hv.boot d'
      (by rw [hframe.1]; exact hv.layout) strict unicode fi hfsOf hframe.2
      (by rw [hfsOf, hframe.1]; exact hv.tree strict unicode fi)
  refine ⟨⟨hcoh, hgeo, hfs', hframe.1⟩, ?_⟩
  intro st loc hw d1 h1fs h1img h1fa
  obtain ⟨hloc, hst⟩ := walk_sound hinv hw
  have hv1 := hinv.of_same h1fs h1img h1fa
  obtain ⟨slots, L, d2, hslots, hrunL, hrows, _, i1, i2, _, i4⟩ :=
    dir_faithful hv1 loc (by rw [h1fs, h1img]; exact hloc) st (by rw [h1fs]; exact hst)
  have e1 : d1.fs = fs := by rw [h1fs, hfs']
  have e2 : d1.img = d.img := by rw [h1img, hframe.1]
  refine ⟨slots, L, d2, by rw [← e1, ← e2]; exact hslots, hrunL, by rw [← e1]; exact hrows, by rw [i1, e2],
    by rw [i2, e1], i4, ?_⟩
  intro e he hfile fuel hfuel d3 h3fs h3img h3fa
  have hv3 := hinv.of_same h3fs h3img h3fa
  have e3 : d3.fs = fs := by rw [h3fs, hfs']
  have e4 : d3.img = d.img := by rw [h3img, hframe.1]
  obtain ⟨f', d4, hr, j1, j2, j3⟩ := file_faithful hv3 loc (by rw [h3fs, h3img]; exact hloc) slots
    (by rw [e3, e4, ← e1, ← e2]; exact hslots) L (by rw [e3, ← e1]; exact hrows) e he hfile fuel hfuel
  refine ⟨f', d4, ?_, by rw [j1, e4], j2, by rw [j3, e3]⟩
  rw [e3, e4] at hr
  exact hr

/-! ## the mount itself -/

/-- a specification-valid FAT12/16 volume with the boot signature is mounted (whatever the options) -/
theorem foreign_volume_mounts_fat1x (strict accDate lfnAlloc unicode : Bool) {d : Dev} (hv : SpecValidVolume d)
    (hsig : (BootSector.deserialize (bootOf d)).bootSig = [0x55, 0xAA])
    (h1x : FatType.fromClusters (bpbOf d).tcNat ≠ .fat32) :
    ∃ fs d', run (mount strict accDate lfnAlloc unicode) d = (.ok fs, d') := by
  have hp := probe_of_valid strict (isSector_bootOf d) hv.boot hsig
  obtain ⟨d', hr, _⟩ := mount_run_fat1x strict accDate lfnAlloc unicode hv.mountable hp h1x
  exact ⟨_, d', hr⟩

/-- a specification-valid FAT32 volume with the boot signature: the mount succeeds unless the FS-info sector fails its
    signature checks (then `CorruptedFileSystem`, nothing changed) — the FS-info sector is not part of
    `SpecValidVolume` -/
theorem foreign_volume_mounts_fat32 (strict accDate lfnAlloc unicode : Bool) {d : Dev} (hv : SpecValidVolume d)
    (hsig : (BootSector.deserialize (bootOf d)).bootSig = [0x55, 0xAA])
    (h32 : FatType.fromClusters (bpbOf d).tcNat = .fat32) :
    (∃ fs d', run (mount strict accDate lfnAlloc unicode) d = (.ok fs, d')) ∨
    (∃ d', run (mount strict accDate lfnAlloc unicode) d = (.error .corrupted, d') ∧ d'.fs = d.fs ∧ d'.img = d.img) := by
  have hp := probe_of_valid strict (isSector_bootOf d) hv.boot hsig
  have hin := fsInfoInside strict hv _ hp h32
  obtain ⟨d', hf, h | ⟨m, _, _, hr, _⟩⟩ := mount_run_fat32 strict accDate lfnAlloc unicode hv.mountable hp h32 hin
  · exact Or.inr ⟨d', h.1, h.2.1, hf.img⟩
  · exact Or.inl ⟨_, d', hr⟩

/-! ## non-vacuity 1: agent-bpb's 16 MiB FAT16 volume (valid boot sector, empty FAT and root) — the whole pipeline -/

namespace Ex16
open C07run.Ex

def p16 : Bpb := Bpb.deserialize C07.goodFat16

theorem bpbOf16 : bpbOf dev16 = p16 := by unfold bpbOf; rw [boot16]; rfl

theorem valid16 : p16.Valid := by
  have hb : IsSector C07.goodFat16 := by rw [← boot16]; exact isSector_bootOf dev16
  have hok : (probe C07.goodFat16 true).toOption.isSome = true := by decide +kernel
  cases h : probe C07.goodFat16 true with
  | error e => rw [h] at hok; cases hok
  | ok g => exact (probe_ok hb h).1

theorem layout16 : LayoutOk p16 dev16.img.size :=
  ⟨by decide +kernel, by decide +kernel, by decide +kernel, by decide +kernel⟩

/-- beyond its first page a one-page image reads as zero -/
theorem ofBytes_getByte_high (bytes : List Nat) (size k : Nat) (hk : 4096 ≤ k) :
    (Img.ofBytes bytes size).getByte k = 0 := by
  unfold Img.getByte Img.ofBytes pageSize
  have hne : ¬ (0 = k / 4096) := by
    intro h
    have := Nat.div_eq_zero_iff.1 h.symm
    omega
  simp [hne]

/-- a directory whose first slot is an end marker has no rows -/
theorem specRows_end_first (fat32 : Bool) (s0 : List Nat) (rest : List (List Nat)) (h : DirSpec.isEndMark s0 = true) :
    DirSpec.specRows fat32 (s0 :: rest) = [] := by
  simp [DirSpec.specRows, DirSpec.specEntries, DirSpec.specLoop, h]

/-- the root region of the mounted state, whatever the options, holds no entry -/
theorem rootSlots16 (strict unicode : Bool) (fi : FsInfo) :
    DirSpec.specRows false (rootDirSlots (fsOf strict false true unicode p16 fi) dev16.img) = [] := by
  have hB : (p16.fdsNat - p16.rdsNat) * p16.bytesPerSector = 33280 := by decide +kernel
  have hZ : p16.rdsNat * p16.bytesPerSector / 32 = 511 + 1 := by decide +kernel
  have : rootDirSlots (fsOf strict false true unicode p16 fi) dev16.img =
      (List.range (p16.rdsNat * p16.bytesPerSector / 32)).map
        fun j => dev16.img.read ((p16.fdsNat - p16.rdsNat) * p16.bytesPerSector + 32 * j) 32 := rfl
  rw [this, hZ, hB, List.range_succ_eq_map, List.map_cons]
  apply specRows_end_first
  show (DirSpec.b (dev16.img.read (33280 + 32 * 0) 32) 0 == 0) = true
  unfold DirSpec.b
  rw [Img.read_getD _ _ _ _ (by omega)]
  have : dev16.img.getByte (33280 + 32 * 0 + 0) = 0 := ofBytes_getByte_high _ _ _ (by omega)
  rw [this]; rfl

theorem fat16_16 (strict unicode : Bool) (fi : FsInfo) : (fsOf strict false true unicode p16 fi).fatType = .fat16 := by
  show FatType.fromClusters p16.tcNat = .fat16
  decide +kernel

/-- its tree: the root only, and that is empty -/
theorem specDir16 (strict unicode : Bool) (fi : FsInfo) :
    ∀ loc, SpecDir (fsOf strict false true unicode p16 fi) dev16.img loc → loc = .fixedRoot := by
  intro loc h
  induction h with
  | root => unfold rootLoc; rw [fat16_16]; rfl
  | sub loc slots r c _ hs hr _ _ ih =>
    subst ih
    simp only [locSlots, Option.some.injEq] at hs
    subst hs
    rw [fat16_16] at hr
    rw [show ((FatType.fat16 == FatType.fat32) = false) from rfl, rootSlots16] at hr
    cases hr

theorem tree16 (strict unicode : Bool) (fi : FsInfo) : SpecValidTree (fsOf strict false true unicode p16 fi) dev16.img := by
  constructor
  · intro c0 h
    have := specDir16 strict unicode fi _ h
    cases this
  · intro loc slots r hl hs hr _
    have := specDir16 strict unicode fi _ hl
    subst this
    simp only [locSlots, Option.some.injEq] at hs
    subst hs
    rw [fat16_16] at hr
    rw [show ((FatType.fat16 == FatType.fat32) = false) from rfl, rootSlots16] at hr
    cases hr

theorem specValid16 : SpecValidVolume dev16 :=
  ⟨mountable16, by rw [bpbOf16]; exact valid16, by rw [bpbOf16]; exact layout16,
    fun s u fi => by rw [bpbOf16]; exact tree16 s u fi⟩

/-- the volume mounts, and its root directory lists as the specification reads it: empty -/
example : ∃ fs d', run (mount true false true true) dev16 = (.ok fs, d') ∧
    ∃ L d2, run (listDir (rootDirStream d'.fs)) d' = (.ok L, d2) ∧ L.map (libRow fs.fatType) = [] := by
  obtain ⟨fs, d', hrun⟩ := foreign_volume_mounts_fat1x true false true true specValid16 (by rw [boot16]; decide +kernel)
    (by rw [bpbOf16]; decide +kernel)
  obtain ⟨⟨_, _, hfs, _⟩, hall⟩ := foreign_volume_read_faithful true true specValid16 hrun
  obtain ⟨slots, L, d2, hs, hr, hrows, _⟩ := hall _ _ Walk.root d' rfl rfl rfl
  refine ⟨fs, d', hrun, L, d2, hr, ?_⟩
  rw [hrows]
  -- the root of this FAT16 volume is the fixed root region, which holds no entry
  obtain ⟨g, fi, hp, hfs2, _⟩ := mount_run_ok true false true true dev16 mountable16.pos mountable16.noFault
    mountable16.size hrun
  obtain ⟨_, hg⟩ := probe_ok (isSector_bootOf dev16) hp
  have hfsOf : fs = fsOf true false true true p16 fi := by
    have e0 : ∀ b, (BootSector.deserialize b).bpb = Bpb.deserialize b := fun _ => rfl
    have e : (BootSector.deserialize (dev16.img.read 0 512)).bpb = p16 := by
      rw [e0]; rw [← bpbOf16]; unfold bpbOf bootOf; rfl
    have hg' : g = p16.geoOf := by rw [hg, ← bpbOf16]; unfold bpbOf; rfl
    rw [hfs2, e, hg']; unfold fsOf; rfl
  have hfs' : d'.fs = fsOf true false true true p16 fi := hfs.trans hfsOf
  rw [hfs'] at hs
  rw [hfsOf] at hs ⊢
  unfold rootLoc at hs
  rw [if_neg (by rw [fat16_16]; decide)] at hs
  simp only [locSlots, Option.some.injEq] at hs
  subst hs
  rw [fat16_16]
  exact rootSlots16 true true fi

end Ex16

/-! ## non-vacuity 2: agent-effects' volume `Ex3` (root → sub-directory `SUB` of two clusters → a long-named file) — the
   tree part: `SpecValidTree` holds, the invariants hold, the sub-directory reached through `to_dir` lists as the
   specification reads it (the listing crosses a cluster boundary through the FAT) -/

namespace Ex3v
open DirSim

def fs := DirSim.Ex2.fs
def img := DirSim.Ex3.dev.img

def rowSub : DirSpec.Row :=
  { longName := none, shortName := [83, 85, 66], shortNameNT := [83, 85, 66], isDir := true, attrs := 16, size := 0,
    firstCluster := some 2, created := ((1980, 0, 0), 0, 0, 0, 0), accessed := (1980, 0, 0),
    modified := ((1980, 0, 0), 0, 0, 0, 0), beginIdx := 0, endIdx := 1 }

def rowB : DirSpec.Row :=
  { longName := none, shortName := [66], shortNameNT := [66], isDir := true, attrs := 16, size := 0,
    firstCluster := none, created := ((1980, 0, 0), 0, 0, 0, 0), accessed := (1980, 0, 0),
    modified := ((1980, 0, 0), 0, 0, 0, 0), beginIdx := 0, endIdx := 1 }

def rowHello : DirSpec.Row :=
  { longName := some [72, 101, 108, 108, 111, 46, 116, 120, 116], shortName := [72, 69, 76, 76, 79, 46, 84, 88, 84],
    shortNameNT := [72, 69, 76, 76, 79, 46, 84, 88, 84], isDir := false, attrs := 32, size := 0,
    firstCluster := none, created := ((1980, 0, 0), 0, 0, 0, 0), accessed := (1980, 0, 0),
    modified := ((1980, 0, 0), 0, 0, 0, 0), beginIdx := 16, endIdx := 18 }

theorem rowsRoot : DirSpec.specRows (fs.fatType == .fat32) (rootDirSlots fs img) = [rowSub] := by decide +kernel
theorem chain2 : specChainOf fs img 2 = some [2, 3] := by decide +kernel
theorem rowsSub : DirSpec.specRows (fs.fatType == .fat32) (chainSlots fs img [2, 3]) = [rowB, rowHello] := by
  decide +kernel

theorem chainOk2 : SpecChainOk fs img 2 [2, 3] := by
  refine ⟨chain2, ?_⟩
  intro l hl
  have : l = 3 := by simpa using hl.symm
  subst this
  decide +kernel

theorem specDir3 : ∀ loc, SpecDir fs img loc → loc = .fixedRoot ∨ loc = .chain 2 := by
  intro loc h
  induction h with
  | root => left; rfl
  | sub loc slots r c _ hs hr hd hc ih =>
    rcases ih with rfl | rfl
    · simp only [locSlots, Option.some.injEq] at hs
      subst hs
      rw [rowsRoot] at hr
      have : r = rowSub := by simpa using hr
      subst this
      have : c = 2 := by
        have h2 : rowSub.firstCluster = some 2 := rfl
        rw [h2] at hc; exact (Option.some.inj hc).symm
      right; rw [this]
    · simp only [locSlots, chain2, Option.map_some, Option.some.injEq] at hs
      subst hs
      rw [rowsSub] at hr
      have : r = rowB ∨ r = rowHello := by simpa using hr
      rcases this with rfl | rfl
      · simp [rowB] at hc
      · exact absurd hd (by decide)

theorem tree3 : SpecValidTree fs img := by
  constructor
  · intro c0 h
    rcases specDir3 _ h with h' | h'
    · cases h'
    · cases h'
      exact ⟨[2, 3], chainOk2, by decide⟩
  · intro loc slots r hl hs hr hfile
    rcases specDir3 _ hl with rfl | rfl
    · simp only [locSlots, Option.some.injEq] at hs
      subst hs
      rw [rowsRoot] at hr
      have : r = rowSub := by simpa using hr
      subst this
      exact absurd hfile (by decide)
    · simp only [locSlots, chain2, Option.map_some, Option.some.injEq] at hs
      subst hs
      rw [rowsSub] at hr
      have : r = rowB ∨ r = rowHello := by simpa using hr
      rcases this with rfl | rfl
      · exact absurd hfile (by decide)
      · exact ⟨fun _ => rfl, fun c0 h => by cases h⟩

theorem geo3 : Geo DirSim.Ex3.dev.fs DirSim.Ex3.dev.img.size := by
  have e1 : DirSim.Ex3.dev.img.size = 4096 := rfl
  have e2 : DirSim.Ex2.dev.img.size = 4096 := rfl
  have e3 : DirSim.Ex3.dev.fs = DirSim.Ex2.dev.fs := rfl
  have := DirSim.Ex2.readable.dir.geo
  rw [e2] at this
  rw [e1, e3]
  exact this

theorem volInv3 : VolInv DirSim.Ex3.dev where
  noFault := rfl
  geo := geo3
  alloc := rfl
  noAcc := rfl
  cs32 := by decide
  root := fun _ => ⟨16, DirSim.Ex3.root⟩
  tree := tree3

/-- the root lists as the specification reads it; `to_dir` of its one entry is the handle of `.chain 2`; that directory
    lists as the specification reads the slots of clusters 2 and 3; its file reads (to the end) as the specification's
    content -/
example : ∃ L d1 e, run (listDir (rootDirStream DirSim.Ex3.dev.fs)) DirSim.Ex3.dev = (.ok L, d1) ∧
    L.map (libRow fs.fatType) = [rowSub] ∧ e ∈ L ∧
    ∃ L2 d2, run (listDir (.file (FileH.new (some 2) (some e.editor)))) d1 = (.ok L2, d2) ∧
      L2.map (libRow fs.fatType) = [rowB, rowHello] := by
  have hv := volInv3
  obtain ⟨slots, L, d1, hs, hr, hrows, _, i1, i2, i3, _⟩ :=
    dir_faithful hv (rootLoc DirSim.Ex3.dev.fs) SpecDir.root _ (handleFor_root _)
  have hs' : slots = rootDirSlots fs img := by
    have : locSlots DirSim.Ex3.dev.fs DirSim.Ex3.dev.img (rootLoc DirSim.Ex3.dev.fs) = some (rootDirSlots fs img) := rfl
    rw [this] at hs; exact (Option.some.inj hs).symm
  subst hs'
  have hrows' : L.map (libRow fs.fatType) = [rowSub] := by
    have := hrows
    rw [show DirSpec.specRows (DirSim.Ex3.dev.fs.fatType == FatType.fat32) (rootDirSlots fs img) = [rowSub] from rowsRoot]
      at this
    exact this
  -- the one entry
  obtain ⟨e, he, hrow⟩ : ∃ e, e ∈ L ∧ libRow fs.fatType e = rowSub := by
    cases L with
    | nil => simp at hrows'
    | cons e t => exact ⟨e, by simp, by simpa using (List.cons.inj hrows').1⟩
  have hdir : e.isDir = true := by
    have : (libRow fs.fatType e).isDir = true := by rw [hrow]; rfl
    exact this
  have hfc : e.firstCluster DirSim.Ex3.dev.fs = some 2 := by
    have : (libRow fs.fatType e).firstCluster = some 2 := by rw [hrow]; rfl
    exact this
  obtain ⟨_, hloc2, hh2⟩ := child_handle (d := DirSim.Ex3.dev) (rootLoc DirSim.Ex3.dev.fs) SpecDir.root _ hs L hrows e he
    hdir 2 hfc
  have hv1 := hv.of_same i2 i1 i3
  obtain ⟨slots2, L2, d2, hs2, hr2, hrows2, _⟩ :=
    dir_faithful hv1 (.chain 2) (by rw [i2, i1]; exact hloc2) _ (by rw [i2]; exact hh2)
  refine ⟨L, d1, e, hr, hrows', he, L2, d2, hr2, ?_⟩
  have : slots2 = chainSlots fs img [2, 3] := by
    rw [i2, i1] at hs2
    have h3 : locSlots DirSim.Ex3.dev.fs DirSim.Ex3.dev.img (.chain 2) = some (chainSlots fs img [2, 3]) := by
      show (specChainOf fs img 2).map (chainSlots fs img) = _
      rw [chain2]; rfl
    rw [h3] at hs2; exact (Option.some.inj hs2).symm
  subst this
  rw [i2] at hrows2
  rw [show DirSpec.specRows (DirSim.Ex3.dev.fs.fatType == FatType.fat32) (chainSlots fs img [2, 3]) = [rowB, rowHello]
    from rowsSub] at hrows2
  exact hrows2

end Ex3v

end C08
end FatVerif
