import FatVerif.Proofs.FileSimFrame1
import FatVerif.Proofs.FileSimFrame2
import FatVerif.Proofs.FileSimFrame3
import FatVerif.Proofs.FileSimFrame4
import FatVerif.Proofs.FileSimCut
/-!
# C11 at byte level for the file operations; non-interference between files

* `file_write_footprint`: where the image may differ after `write` / `truncate` / `flush` / drop of a handle.
* `other_file_untouched`: an operation of a history on `f` leaves every other represented file `g` (disjoint chain, slot
  not among the positions `f` may write) represented, with the same abstraction.
* `two_files_refine_bytefiles`: an interleaved history on two handles of one volume = two independent byte arrays with
  a cursor (C02's "several files open and modified in interleaved order", at byte level).
* `durable_across_other_files_partial`: flush `g`, then any history on `f`: re-opening `g` reads the flushed content.
-/
namespace FatVerif.FileSim
open FatVerif FatVerif.Fat

/-- **`file_write_footprint`** (C11 for the file operations, at byte level).  For `write` (with or without
    allocation; buffer of bytes), `truncate`, `flush` and drop of a represented handle whose record lives in a slot:
    every byte position in which the image after the call differs from the image before is (a) the status byte, or
    (b) inside a cluster of the handle's chain, or (c) inside a cluster that was free in the decoded FAT before the
    call, or (d) inside the window of the FAT entry — in any FAT copy — of a cluster of (b)/(c), or (e) inside the
    handle's own 32-byte slot; and it lies inside the device. -/
theorem file_write_footprint (op : MOp) (f : FileH) (e : DirEntryEditor) (d : Dev) (h : SimInv f d)
    (he : EntryRep d.fs d.img f e) (hbytes : ∀ bs, op = .write bs → ∀ b ∈ bs, b < 256) :
    ∀ q, (op.devAfter f d).img.getByte q ≠ d.img.getByte q → MayTouch d.fs d.img f e q ∧ q < d.img.size := by
  have key : ∀ q, (op.devAfter f d).img.getByte q ≠ d.img.getByte q → MayTouch d.fs d.img f e q := by
    cases op with
    | write bs => exact fun q hq => Or.inl (write_footprint f bs d h (hbytes bs rfl) q hq)
    | truncate => exact fun q hq => Or.inl (truncate_footprint f d h q hq)
    | flush =>
      obtain ⟨d', hr, _, _, hout, _⟩ := flush_sim f e d h he
      intro q hq
      have hq' : d'.img.getByte q ≠ d.img.getByte q := by
        have : (MOp.flush.devAfter f d) = d' := by show (run f.flush d).2 = d'; rw [hr]
        rw [this] at hq; exact hq
      by_cases hin : e.pos ≤ q ∧ q < e.pos + 32
      · exact Or.inr hin
      · exact absurd (hout q hin) hq'
    | drop =>
      obtain ⟨d', hr, _, _, hout, _⟩ := drop_sim f e d h he
      intro q hq
      have hq' : d'.img.getByte q ≠ d.img.getByte q := by
        have : (MOp.drop.devAfter f d) = d' := by show (run f.drop d).2 = d'; rw [hr]
        rw [this] at hq; exact hq
      by_cases hin : e.pos ≤ q ∧ q < e.pos + 32
      · exact Or.inr hin
      · exact absurd (hout q hin) hq'
  exact fun q hq => ⟨key q hq, mayTouch_in_device h.geo h.rep he.inDev (key q hq)⟩

/-- **`other_file_untouched`.**  One operation (`read` / `seek` / `write` / `truncate` / the loops `read_exact` /
    `write_all`) of a history on `f`; `g` is
    another represented file of the volume whose chain is disjoint from `f`'s and whose slot is not a position `f` may
    write.  Afterwards `g` is represented on the new image with the same chain and the same abstraction (`CoreEq`: same
    content, same cursor), its slot still carries its record, the chains are still disjoint and the slot is still
    outside what `f` may write. -/
theorem other_file_untouched (op : HOp) (f g : FileH) (eg : DirEntryEditor) (d : Dev) (h : SimInv f d)
    (hok : op.BytesOk)
    (hrepg : FileRep d.fs d.img g) (heg : EntryRep d.fs d.img g eg)
    (hap : ∀ c ∈ fileChain d.fs d.img f, c ∉ fileChain d.fs d.img g)
    (hslot : ∀ q, eg.pos ≤ q → q < eg.pos + 32 → ¬ MayTouchData d.fs d.img f q) :
    FileRep (execH op f d).2.2.fs (execH op f d).2.2.img g ∧
    EntryRep (execH op f d).2.2.fs (execH op f d).2.2.img g eg ∧
    CoreEq (absFile (execH op f d).2.2.fs (execH op f d).2.2.img g) (absFile d.fs d.img g) ∧
    (∀ c ∈ fileChain (execH op f d).2.2.fs (execH op f d).2.2.img (execH op f d).2.1,
      c ∉ fileChain (execH op f d).2.2.fs (execH op f d).2.2.img g) ∧
    (∀ q, eg.pos ≤ q → q < eg.pos + 32 →
      ¬ MayTouchData (execH op f d).2.2.fs (execH op f d).2.2.img (execH op f d).2.1 q) := by
  have hsum := execH_summary op f d h hok
  obtain ⟨hsim', _, _⟩ := execH_refines op f d h hok
  obtain ⟨hrep', hcore, hch, hap'⟩ := other_file_kept hsum h.geo h.rep hrepg hap
  exact ⟨hrep', other_entry_kept hsum heg hch hslot, hcore, hap',
    fun q h1 h2 hm => hslot q h1 h2 (mayTouchData_mono hsum h.rep hsim'.rep hm)⟩

/-! ### two handles, interleaved -/

/-- one operation on the first (`true`) or the second handle -/
def exec2H (w : Bool) (op : HOp) (f g : FileH) (d : Dev) : Cursor.FileRes × FileH × FileH × Dev :=
  if w then ((execH op f d).1, (execH op f d).2.1, g, (execH op f d).2.2)
  else ((execH op g d).1, f, (execH op g d).2.1, (execH op g d).2.2)

def run2H : List (Bool × HOp) → FileH → FileH → Dev → List Cursor.FileRes × FileH × FileH × Dev
  | [], f, g, d => ([], f, g, d)
  | (w, op) :: ops, f, g, d =>
    ((exec2H w op f g d).1 ::
      (run2H ops (exec2H w op f g d).2.1 (exec2H w op f g d).2.2.1 (exec2H w op f g d).2.2.2).1,
     (run2H ops (exec2H w op f g d).2.1 (exec2H w op f g d).2.2.1 (exec2H w op f g d).2.2.2).2)

/-- two represented handles of one volume with disjoint chains -/
structure PairInvH (f g : FileH) (d : Dev) : Prop where
  left : SimInv f d
  right : SimInv g d
  apart : ∀ c ∈ fileChain d.fs d.img f, c ∉ fileChain d.fs d.img g

theorem PairInvH.symm {f g : FileH} {d : Dev} (h : PairInvH f g d) : PairInvH g f d :=
  ⟨h.right, h.left, fun c hc hf => h.apart c hf hc⟩

def BytesOk2 : List (Bool × HOp) → Prop
  | [] => True
  | (_, .write bs) :: ops => (∀ b ∈ bs, b < 256) ∧ BytesOk2 ops
  | (_, .writeAll bs) :: ops => (∀ b ∈ bs, b < 256) ∧ BytesOk2 ops
  | _ :: ops => BytesOk2 ops

theorem BytesOk2.cons {w : Bool} {op : HOp} {ops : List (Bool × HOp)} (h : BytesOk2 ((w, op) :: ops)) :
    op.BytesOk ∧ BytesOk2 ops := by
  cases op with
  | write bs => exact ⟨fun bs' e => (by rcases e with e | e <;> cases e; exact h.1), h.2⟩
  | writeAll bs => exact ⟨fun bs' e => (by rcases e with e | e <;> cases e; exact h.1), h.2⟩
  | read n => exact ⟨fun bs' e => (by rcases e with e | e <;> cases e), h⟩
  | seek p => exact ⟨fun bs' e => (by rcases e with e | e <;> cases e), h⟩
  | truncate => exact ⟨fun bs' e => (by rcases e with e | e <;> cases e), h⟩
  | readExact n => exact ⟨fun bs' e => (by rcases e with e | e <;> cases e), h⟩

/-- one step on the first handle -/
theorem pair_step_left (op : HOp) (f g : FileH) (d : Dev) (h : PairInvH f g d)
    (hok : op.BytesOk) :
    PairInvH (execH op f d).2.1 g (execH op f d).2.2 ∧
    (execH op f d).2.2.fs.clusterSize = d.fs.clusterSize ∧
    Cursor.ByteFile.check d.fs.clusterSize op.toOp (execH op f d).1 (absFile d.fs d.img f).abs =
      .ok (absFile (execH op f d).2.2.fs (execH op f d).2.2.img (execH op f d).2.1).abs ∧
    (absFile (execH op f d).2.2.fs (execH op f d).2.2.img g).abs = (absFile d.fs d.img g).abs := by
  have hsum := execH_summary op f d h.left hok
  obtain ⟨hsim', hcs, hchk⟩ := execH_refines op f d h.left hok
  obtain ⟨hrep', hcore, _, hap'⟩ := other_file_kept hsum h.left.geo h.left.rep h.right.rep h.apart
  exact ⟨⟨hsim', ⟨hsim'.nofault, hsim'.wf, hsim'.geo, hrep', hsim'.info⟩, hap'⟩, hcs, hchk,
    hcore.abs_eq h.right.rep.inv.cs_pos h.right.rep.inv.cover⟩

/-- **`two_files_refine_bytefiles`.**  Any interleaving of `read` / `seek` / `write` / `truncate` / `read_exact` /
    `write_all` on two represented
    handles of one volume (disjoint chains, shared device, shared FAT and FS-info): every result is the one the byte
    array with a cursor prescribes for the file it was issued on (`Cursor.checkRun2`: two independent `ByteFile`s),
    as if the other file did not exist; the invariants hold again. -/
theorem two_files_refine_bytefiles : ∀ (ops : List (Bool × HOp)) (f g : FileH) (d : Dev), PairInvH f g d →
    BytesOk2 ops →
    PairInvH (run2H ops f g d).2.1 (run2H ops f g d).2.2.1 (run2H ops f g d).2.2.2 ∧
    (run2H ops f g d).2.2.2.fs.clusterSize = d.fs.clusterSize ∧
    Cursor.checkRun2 d.fs.clusterSize d.fs.clusterSize (ops.map fun o => (o.1, o.2.toOp)) (run2H ops f g d).1
      (absFile d.fs d.img f).abs (absFile d.fs d.img g).abs =
      .ok ((absFile (run2H ops f g d).2.2.2.fs (run2H ops f g d).2.2.2.img (run2H ops f g d).2.1).abs,
           (absFile (run2H ops f g d).2.2.2.fs (run2H ops f g d).2.2.2.img (run2H ops f g d).2.2.1).abs)
  | [], f, g, d, h, _ => ⟨h, rfl, rfl⟩
  | (w, op) :: ops, f, g, d, h, hok => by
    have hop := hok.cons
    cases w with
    | true =>
      obtain ⟨hp, hcs, hchk, hother⟩ := pair_step_left op f g d h hop.1
      obtain ⟨ri, rcs, rchk⟩ := two_files_refine_bytefiles ops _ _ _ hp hop.2
      have hexec : exec2H true op f g d = ((execH op f d).1, (execH op f d).2.1, g, (execH op f d).2.2) := rfl
      simp only [run2H, hexec, List.map]
      refine ⟨ri, rcs.trans hcs, ?_⟩
      simp only [Cursor.checkRun2, if_true, hchk]
      rw [hcs, hother] at rchk
      exact rchk
    | false =>
      obtain ⟨hp, hcs, hchk, hother⟩ := pair_step_left op g f d h.symm hop.1
      obtain ⟨ri, rcs, rchk⟩ := two_files_refine_bytefiles ops _ _ _ hp.symm hop.2
      have hexec : exec2H false op f g d = ((execH op g d).1, f, (execH op g d).2.1, (execH op g d).2.2) := rfl
      simp only [run2H, hexec, List.map]
      refine ⟨ri, rcs.trans hcs, ?_⟩
      simp only [Cursor.checkRun2, Bool.false_eq_true, if_false, hchk]
      rw [hcs, hother] at rchk
      exact rchk

/-! ### durability across operations on other files -/

/-- a represented handle with a clean editor: re-opening the file from its slot and reading to the end gives its
    content -/
theorem reopen_reads (g : FileH) (eg : DirEntryEditor) (d : Dev) (h : SimInv g d) (he : EntryRep d.fs d.img g eg)
    (hcl : eg.dirty = false) :
    ∃ g' d', run (readExact FileH.strm (reopen d.fs d.img eg.pos) (absFile d.fs d.img g).size) d =
      (.ok ((absFile d.fs d.img g).content, g'), d') := by
  obtain ⟨_, hrepk, hcont, hsize⟩ := read_footprint (img' := d.img) h.geo h.rep he hcl (fun _ _ => rfl)
  have hoff0 : (reopen d.fs d.img eg.pos).offset = 0 := rfl
  obtain ⟨g', d', hrd, _⟩ := readExact_sim (reopen d.fs d.img eg.pos) (absFile d.fs d.img g).size d h.nofault h.geo hrepk
    (by rw [hoff0, hsize]; omega)
  refine ⟨g', d', ?_⟩
  rw [hrd, hoff0, List.drop_zero, hcont,
    List.take_of_length_le (by rw [Cursor.AFile.content_length]; exact Nat.le_refl _)]

/-- a whole history on `f` leaves `g` alone -/
theorem other_file_untouched_run : ∀ (ops : List HOp) (f g : FileH) (eg : DirEntryEditor) (d : Dev), SimInv f d →
    BytesOk ops → FileRep d.fs d.img g → EntryRep d.fs d.img g eg →
    (∀ c ∈ fileChain d.fs d.img f, c ∉ fileChain d.fs d.img g) →
    (∀ q, eg.pos ≤ q → q < eg.pos + 32 → ¬ MayTouchData d.fs d.img f q) →
    SimInv g (runH ops f d).2.2 ∧
    EntryRep (runH ops f d).2.2.fs (runH ops f d).2.2.img g eg ∧
    CoreEq (absFile (runH ops f d).2.2.fs (runH ops f d).2.2.img g) (absFile d.fs d.img g)
  | [], f, g, eg, d, h, _, hrepg, heg, _, _ =>
    ⟨⟨h.nofault, h.wf, h.geo, hrepg, h.info⟩, heg, CoreEq.refl _⟩
  | op :: ops, f, g, eg, d, h, hok, hrepg, heg, hap, hslot => by
    have hop := hok.cons
    obtain ⟨hsim', _, _⟩ := execH_refines op f d h hop.1
    obtain ⟨hrep', heg', hcore, hap', hslot'⟩ := other_file_untouched op f g eg d h hop.1 hrepg heg hap hslot
    obtain ⟨r1, r2, r3⟩ := other_file_untouched_run ops _ g eg _ hsim' hop.2 hrep' heg' hap' hslot'
    simp only [runH]
    refine ⟨r1, r2, ?_⟩
    exact ⟨r3.cs.trans hcore.cs, r3.chain.trans hcore.chain,
      fun c hc j hj => by
        have hc' : c ∈ (absFile (execH op f d).2.2.fs (execH op f d).2.2.img g).chain := by rw [hcore.chain]; exact hc
        have hj' : j < (absFile (execH op f d).2.2.fs (execH op f d).2.2.img g).cs := by rw [hcore.cs]; exact hj
        rw [r3.data c hc' j hj', hcore.data c hc j hj],
      r3.size.trans hcore.size, r3.first.trans hcore.first, r3.offset.trans hcore.offset,
      r3.current.trans hcore.current⟩

/-- flushing `g` does not disturb `f`: the common first step of the two durability statements below -/
theorem flush_other_setup (f g : FileH) (eg : DirEntryEditor) (d : Dev) (hf : SimInv f d)
    (hgs : SimInv g d) (heg : EntryRep d.fs d.img g eg)
    (hap : ∀ c ∈ fileChain d.fs d.img f, c ∉ fileChain d.fs d.img g)
    (hslot : ∀ q, eg.pos ≤ q → q < eg.pos + 32 → ¬ MayTouchData d.fs d.img f q) :
    ∃ d1, run g.flush d = (.ok { g with entry := some { eg with dirty := false } }, d1) ∧
      SimInv f d1 ∧ SimInv { g with entry := some { eg with dirty := false } } d1 ∧
      EntryRep d1.fs d1.img { g with entry := some { eg with dirty := false } } { eg with dirty := false } ∧
      CoreEq (absFile d1.fs d1.img { g with entry := some { eg with dirty := false } }) (absFile d.fs d.img g) ∧
      (∀ c ∈ fileChain d1.fs d1.img f, c ∉ fileChain d1.fs d1.img { g with entry := some { eg with dirty := false } }) ∧
      (∀ q, eg.pos ≤ q → q < eg.pos + 32 → ¬ MayTouchData d1.fs d1.img f q) := by
  obtain ⟨d1, hr, hst, hfs, hout, _, _, _, hsim1, hent1, hcore1⟩ := flush_sim g eg d hgs heg
  refine ⟨d1, hr, ?_, hsim1, hent1, hcore1, ?_, ?_⟩
  all_goals
    have hfat : FatAgree d.fs d.img d1.img := by
      intro q h1 h2
      exact hout q (by rcases heg.offFat with h | h <;> omega)
    have hnotslot : ∀ c ∈ fileChain d.fs d.img f, ∀ j, j < d.fs.clusterSize →
        d1.img.getByte (clusterOff d.fs c + j) = d.img.getByte (clusterOff d.fs c + j) := by
      intro c hc j hj
      apply hout
      intro hin
      exact hslot _ hin.1 hin.2 (Or.inr (Or.inl ⟨c, hc, Nat.le_add_right _ _, by omega⟩))
    have htv1 : tabView d1.fs d1.img = tabView d.fs d.img := by rw [hfs]; exact tabView_congr hf.geo hfat
    obtain ⟨hrepf1, hcoref, hchf⟩ := hf.rep.of_sem_agree (fs' := d1.fs) (img' := d1.img) hst.geom
      (fun c _ => by rw [htv1]) hnotslot
  · exact ⟨hsim1.nofault, hsim1.wf, hsim1.geo, hrepf1, hsim1.info⟩
  · have hchg : fileChain d1.fs d1.img { g with entry := some { eg with dirty := false } } = fileChain d.fs d.img g :=
      hcore1.chain
    intro c hc; rw [hchf] at hc; rw [hchg]; exact hap c hc
  · intro q h1 h2 hm
    apply hslot q h1 h2
    unfold MayTouchData FreeCluster at hm ⊢
    rw [hchf, htv1, hfs] at hm
    exact hm

/-- **`durable_across_other_files_partial`.**  `g` is flushed; then any history of `read` / `seek` / `write` /
    `truncate` / `read_exact` / `write_all` runs on ANOTHER represented file `f` (disjoint chain; `g`'s slot is not a
    position `f` may write).  Re-opening `g` from its slot on the resulting device and reading to the end returns exactly
    the content `g` had when it was flushed.

    PARTIAL: the cut point is an operation boundary of the later history.  `durable_across_other_files` below removes
    the restriction: the cut may fall between any two device writes of the later history. -/
theorem durable_across_other_files_partial (f g : FileH) (eg : DirEntryEditor) (d : Dev) (hf : SimInv f d)
    (hgs : SimInv g d) (heg : EntryRep d.fs d.img g eg)
    (hap : ∀ c ∈ fileChain d.fs d.img f, c ∉ fileChain d.fs d.img g)
    (hslot : ∀ q, eg.pos ≤ q → q < eg.pos + 32 → ¬ MayTouchData d.fs d.img f q)
    (ops : List HOp) (hok : BytesOk ops) :
    ∃ d1, run g.flush d = (.ok { g with entry := some { eg with dirty := false } }, d1) ∧
      ∃ g' d', run (readExact FileH.strm
          (reopen (runH ops f d1).2.2.fs (runH ops f d1).2.2.img eg.pos) (absFile d.fs d.img g).size)
          (runH ops f d1).2.2 = (.ok ((absFile d.fs d.img g).content, g'), d') := by
  obtain ⟨d1, hr, hsimf1, hsim1, hent1, hcore1, hap1, hslot1⟩ := flush_other_setup f g eg d hf hgs heg hap hslot
  refine ⟨d1, hr, ?_⟩
  generalize hg1 : ({ g with entry := some { eg with dirty := false } } : FileH) = g1 at hsim1 hent1 hcore1 hap1
  obtain ⟨r1, r2, r3⟩ := other_file_untouched_run ops f g1 { eg with dirty := false } d1 hsimf1 hok hsim1.rep hent1
    hap1 hslot1
  obtain ⟨g', d', hrd⟩ := reopen_reads g1 { eg with dirty := false } (runH ops f d1).2.2 r1 r2 rfl
  have habs1 := r3.abs_eq hsim1.rep.inv.cs_pos hsim1.rep.inv.cover
  have habs0 := hcore1.abs_eq hgs.rep.inv.cs_pos hgs.rep.inv.cover
  have hcont : (absFile (runH ops f d1).2.2.fs (runH ops f d1).2.2.img g1).content = (absFile d.fs d.img g).content :=
    (congrArg Cursor.ByteFile.content habs1).trans (congrArg Cursor.ByteFile.content habs0)
  have hsize : (absFile (runH ops f d1).2.2.fs (runH ops f d1).2.2.img g1).size = (absFile d.fs d.img g).size :=
    r3.size.trans hcore1.size
  rw [hcont, hsize] at hrd
  exact ⟨g', d', hrd⟩

/-- the positions of classified records lie where the handle may write -/
theorem classified_positions {fs : FsState} {img0 : Img} {f : FileH} :
    ∀ (recs : List Rec) (img : Img), Classified fs (OwnOrFree fs img0 f) (OwnOrFree fs img0 f) img recs →
      ∀ r ∈ recs, ∀ q, r.1 ≤ q → q < r.1 + r.2.length → MayTouchData fs img0 f q
  | [], _, _, r, hr, _, _, _ => by cases hr
  | r0 :: rs, img, hc, r, hr, q, h1, h2 => by
    rcases List.mem_cons.mp hr with rfl | hr'
    · rcases hc.1 with ⟨e1, e2⟩ | ⟨c, hcc, c2, ct, a1, a2⟩ | ⟨c, i, hcc, ct, hi, e1, e2, _⟩
      · exact Or.inl (by omega)
      · rcases hcc with hcc | hcc
        · exact Or.inr (Or.inl ⟨c, hcc, by omega, by omega⟩)
        · exact Or.inr (Or.inr (Or.inl ⟨c, hcc, by omega, by omega⟩))
      · exact Or.inr (Or.inr (Or.inr ⟨c, hcc, i, hi, by omega, by omega⟩))
    · exact classified_positions rs _ hc.2 r hr' q h1 h2

/-- **`file_write_records_in_footprint`** (record-level `file_write_footprint`).  One operation `read` / `seek` / `write`
    / `truncate` / `read_exact` / `write_all` on a represented handle appends the device write records `recs` (in this
    order) to the log; the image afterwards is the image before with them applied; each record is the status byte, a
    piece of ONE cluster of the handle's chain or of a cluster that was free, or the complete window of the FAT entry of
    such a cluster in one FAT copy written as a read-modify-write that keeps the decoded value of every other entry
    (`Classified`); in particular every position of every record is one the handle may write (`MayTouchData`).
    (`flush` / drop: `flush_sim` / `drop_sim` give the records — the pieces of the 32-byte slot.) -/
theorem file_write_records_in_footprint (op : HOp) (f : FileH) (d : Dev) (h : SimInv f d) (hok : op.BytesOk) :
    ∃ recs : List Rec, (execH op f d).2.2.log = recItems recs ++ d.log ∧
      (execH op f d).2.2.img = applyRecs d.img recs ∧
      Classified d.fs (OwnOrFree d.fs d.img f) (OwnOrFree d.fs d.img f) d.img recs ∧
      ∀ r ∈ recs, ∀ q, r.1 ≤ q → q < r.1 + r.2.length → MayTouchData d.fs d.img f q := by
  obtain ⟨recs, hl, hi, hc⟩ := (execH_summary op f d h hok).trace
  exact ⟨recs, hl, hi, hc, classified_positions recs d.img hc⟩

/-- **`durable_across_other_files`.**  `g` is flushed; then any history of `read` / `seek` / `write` / `truncate` /
    `read_exact` / `write_all` runs on ANOTHER represented file `f` (disjoint chain; `g`'s slot is not a position `f` may
    write).  Let `recs` be ALL device write records of that history, in order (the log grew by exactly these; the final
    image is the flushed image with them applied).  For EVERY cut point `k` — also between two device writes of one
    call, e.g. between the two FAT copies of one entry update, or between the allocation and the data write — and every
    fault-free device `dk` holding the flushed image with the surviving prefix `recs.take k` applied: re-opening `g` from
    its slot on `dk` and reading to the end returns exactly the content `g` had when it was flushed.
    Records are atomic (the granularity of the device log).  All three FAT types: on FAT12 the record that updates an
    entry of `f` next to an entry of `g` rewrites the shared byte with `g`'s nibble unchanged (read-modify-write), which
    is what `Classified` records and `Keeps` uses. -/
theorem durable_across_other_files (f g : FileH) (eg : DirEntryEditor) (d : Dev) (hf : SimInv f d)
    (hgs : SimInv g d) (heg : EntryRep d.fs d.img g eg)
    (hap : ∀ c ∈ fileChain d.fs d.img f, c ∉ fileChain d.fs d.img g)
    (hslot : ∀ q, eg.pos ≤ q → q < eg.pos + 32 → ¬ MayTouchData d.fs d.img f q)
    (ops : List HOp) (hok : BytesOk ops) :
    ∃ d1, run g.flush d = (.ok { g with entry := some { eg with dirty := false } }, d1) ∧
      ∃ recs : List Rec, (runH ops f d1).2.2.log = recItems recs ++ d1.log ∧
        (runH ops f d1).2.2.img = applyRecs d1.img recs ∧
        ∀ (k : Nat) (dk : Dev), dk.img = applyRecs d1.img (recs.take k) → dk.fs = d1.fs → dk.failAt = none →
          ∃ g' d', run (readExact FileH.strm (reopen dk.fs dk.img eg.pos) (absFile d.fs d.img g).size) dk =
            (.ok ((absFile d.fs d.img g).content, g'), d') := by
  obtain ⟨d1, hr, hsimf1, hsim1, hent1, hcore1, hap1, hslot1⟩ := flush_other_setup f g eg d hf hgs heg hap hslot
  refine ⟨d1, hr, ?_⟩
  generalize hg1 : ({ g with entry := some { eg with dirty := false } } : FileH) = g1 at hsim1 hent1 hcore1 hap1
  obtain ⟨recs, hl, hi, hc⟩ := (runH_summary ops f d1 hsimf1 hok).trace
  refine ⟨recs, hl, hi, fun k dk himg hfsk hfak => ?_⟩
  have hkeeps := classified_keeps (fs := d1.fs) (pos := eg.pos) (L := fileChain d1.fs d1.img g1)
    (fun c hc => by
      obtain ⟨a, b⟩ := hsim1.rep.inTab c hc
      have hlive : tabView d1.fs d1.img c ≠ .free := hsim1.rep.inv.live c hc
      refine ⟨a, b, ?_, ?_⟩ <;>
      · rintro (h | ⟨_, _, h⟩)
        · exact hap1 c h hc
        · exact hlive h)
    (fun q h1 h2 => by
      have hn := hslot1 q h1 h2
      refine ⟨fun e => hn (Or.inl e), fun c hcD c2 ct hin => ?_, fun c hcE hfe => hn (Or.inr (Or.inr (Or.inr ⟨c, hcE, hfe⟩)))⟩
      rcases hcD with hcD | hcD
      · exact hn (Or.inr (Or.inl ⟨c, hcD, hin⟩))
      · exact hn (Or.inr (Or.inr (Or.inl ⟨c, hcD, hin⟩))))
    recs d1.img hsim1.geo hsim1.wf hc k
  rw [← himg] at hkeeps
  obtain ⟨g', d', hrd⟩ := reopen_reads_keeps hsim1.geo hsim1.rep hent1 rfl dk hkeeps hfsk hfak
  have habs0 := hcore1.abs_eq hgs.rep.inv.cs_pos hgs.rep.inv.cover
  have hcont : (absFile d1.fs d1.img g1).content = (absFile d.fs d.img g).content :=
    congrArg Cursor.ByteFile.content habs0
  rw [hcont, hcore1.size] at hrd
  exact ⟨g', d', hrd⟩

end FatVerif.FileSim

namespace FatVerif.FileSim
open FatVerif FatVerif.Fat

/-! ### the loops of the history driver -/

/-- the history driver's `readx` on an open file handle is the `readExact` operation of `execH`, plus bookkeeping -/
theorem session_readx (s : Session) (f n : Nat) (h : FileH) (hd : s.dead = false) (hf : s.files[f]? = some h) :
    s.step (.readx f n) = loopOut (fun l => [Util.hexOfBytes l]) s f (execH (.readExact n) h s.dev) := by
  unfold Session.step
  simp only [hd, Bool.false_eq_true, if_false, Session.withFile, hf]
  exact readxLoop_eq (n + 1) s f h n []

/-- the history driver's `writeall` on an open file handle is the `writeAll` operation of `execH`, plus bookkeeping -/
theorem session_writeall (s : Session) (f : Nat) (bs : List Nat) (h : FileH) (hd : s.dead = false)
    (hf : s.files[f]? = some h) :
    s.step (.writeall f bs) = loopOut (fun _ => []) s f (execH (.writeAll bs) h s.dev) := by
  unfold Session.step
  simp only [hd, Bool.false_eq_true, if_false, Session.withFile, hf]
  exact writeAllLoopS_eq (bs.length + 1) s f h bs

/-- a slot in the fixed root-directory area (between the FAT copies and the data region) is never a position a file
    operation may write -/
theorem rootSlot_not_mayTouchData {fs : FsState} {img : Img} {f : FileH} (hg : Geo fs img.size)
    (hrep : FileRep fs img f) {pos : Nat}
    (h1 : (fatSliceOf fs).beginOff + (fatSliceOf fs).mirrors * (fatSliceOf fs).size ≤ pos)
    (h2 : pos + 32 ≤ fs.firstDataSector * fs.bps) :
    ∀ q, pos ≤ q → q < pos + 32 → ¬ MayTouchData fs img f q := by
  intro q hq1 hq2
  have hst := hg.status_lt
  have hco : ∀ c, fs.firstDataSector * fs.bps ≤ clusterOff fs c := fun c => by
    unfold clusterOff; exact Nat.mul_le_mul_right _ (Nat.le_add_right _ _)
  rintro (hs | ⟨c, _, h'⟩ | ⟨c, _, h'⟩ | ⟨c, hc, hp⟩)
  · have : statusOff fs < 0x42 := by unfold statusOff; split <;> decide
    omega
  · have := hco c; have := h'.1; omega
  · have := hco c; have := h'.1; omega
  · have hct : c < fs.totalClusters + 2 := by
      rcases hc with h | h
      · exact (hrep.inTab c h).2
      · exact h.2.1
    have := hg.fatEntry_in_fat hct hp
    omega

end FatVerif.FileSim

/-! ## the statements are not vacuous: two files on the FAT16 volume -/

namespace FatVerif.FileSim.Ex11
open FatVerif FatVerif.Fat FatVerif.FileSim FatVerif.FileSim.Ex FatVerif.FileSim.Ex14

/-- the image of `Props/C02sim.lean` with a second chain: cluster 4, end of chain; its first bytes marked -/
def img17 : Img := (img16.write 520 [0xFF, 0xFF]).write 3072 [41, 42, 43]

/-- two free clusters remain (2 and 6) -/
def fs17 : FsState := { fs16 with fsInfo := { free := some 2 } }
def dev17 : Dev := { img := img17, fs := fs17 }

/-- the second file: cluster 4, 100 bytes, record in the second slot of the root directory -/
def entryG : DirFileEntryData :=
  { DirFileEntryData.new (List.replicate 11 66) 0 with size := 100, firstClusterLo := 4 }
def fileG : FileH := { firstCluster := some 4, entry := some ⟨entryG, 1568, true⟩ }

theorem wf17 : img17.WF := Img.wf_write _ (Img.wf_write _ wf16 _ _) _ _

theorem chainF17 : fileChain fs17 img17 file14 = [3, 5] := by decide +kernel
theorem chainG17 : fileChain fs17 img17 fileG = [4] := by decide +kernel

theorem geo17 : Geo fs17 img17.size := by
  have : img17.size = img16.size := by
    show ((img16.write 520 _).write 3072 _).size = _
    rw [Img.write_size, Img.write_size]
  rw [this]
  exact geo16.frame rfl

theorem repF17 : FileRep fs17 img17 file14 where
  file := ⟨1020, by decide⟩
  inv := {
    cs_pos := by decide
    nodup := by show (fileChain fs17 img17 file14).Nodup; rw [chainF17]; decide
    first := by show some 3 = (fileChain fs17 img17 file14).head?; rw [chainF17]; rfl
    cover := by show 1020 ≤ (fileChain fs17 img17 file14).length * 512; rw [chainF17]; decide
    off_le := by decide
    size_le := by decide
    cur := by
      show some 3 = if 509 = 0 then none else (fileChain fs17 img17 file14)[(509 - 1) / 512]?
      rw [chainF17]; rfl
    live := by
      intro c hc
      have hc' : c ∈ fileChain fs17 img17 file14 := hc
      rw [chainF17] at hc'
      have : c = 3 ∨ c = 5 := by simpa using hc'
      rcases this with rfl | rfl <;> (unfold viewFree; decide +kernel) }
  chain := by
    intro c hc
    have : c = 3 := (Option.some.inj hc).symm
    subst this
    rw [chainF17]
    exact Chain.cons 3 5 [5] (by decide +kernel)
      (Chain.last 5 (by intro n; have : tabView fs17 img17 5 = .eoc := by decide +kernel
                        rw [this]; intro h; cases h))
  inTab := by
    intro c hc
    rw [chainF17] at hc
    have : c = 3 ∨ c = 5 := by simpa using hc
    rcases this with rfl | rfl <;> decide
  last_eoc := by
    intro c hc
    rw [chainF17] at hc
    have : c = 5 := by simpa using hc.symm
    subst this
    decide +kernel

theorem repG17 : FileRep fs17 img17 fileG where
  file := ⟨100, by decide⟩
  inv := {
    cs_pos := by decide
    nodup := by show (fileChain fs17 img17 fileG).Nodup; rw [chainG17]; decide
    first := by show some 4 = (fileChain fs17 img17 fileG).head?; rw [chainG17]; rfl
    cover := by show 100 ≤ (fileChain fs17 img17 fileG).length * 512; rw [chainG17]; decide
    off_le := by decide
    size_le := by decide
    cur := rfl
    live := by
      intro c hc
      have hc' : c ∈ fileChain fs17 img17 fileG := hc
      rw [chainG17] at hc'
      have : c = 4 := by simpa using hc'
      subst this
      unfold viewFree; decide +kernel }
  chain := by
    intro c hc
    have : c = 4 := (Option.some.inj hc).symm
    subst this
    rw [chainG17]
    exact Chain.last 4 (by intro n; have : tabView fs17 img17 4 = .eoc := by decide +kernel
                           rw [this]; intro h; cases h)
  inTab := by
    intro c hc
    rw [chainG17] at hc
    have : c = 4 := by simpa using hc
    subst this; decide
  last_eoc := by
    intro c hc
    rw [chainG17] at hc
    have : c = 4 := by simpa using hc.symm
    subst this
    decide +kernel

theorem info17 : InfoOk fs17 img17 where
  hint := by intro n h; cases h
  count := by
    intro n h
    have : n = 2 := (Option.some.inj h).symm
    subst this
    decide +kernel

theorem pair17 : PairInvH file14 fileG dev17 where
  left := ⟨rfl, wf17, geo17, repF17, info17⟩
  right := ⟨rfl, wf17, geo17, repG17, info17⟩
  apart := by
    intro c hc hg
    have hc' : c ∈ fileChain fs17 img17 file14 := hc
    have hg' : c ∈ fileChain fs17 img17 fileG := hg
    rw [chainF17] at hc'; rw [chainG17] at hg'
    have h1 : c = 3 ∨ c = 5 := by simpa using hc'
    have h2 : c = 4 := by simpa using hg'
    omega

/-- an interleaved history: `f` grows by a cluster in the middle of a `write_all` (the allocator takes cluster 2, not
    `g`'s cluster 4), `g` is read (`read_exact`), overwritten and read back, `f` is truncated -/
def ops17 : List (Bool × HOp) :=
  [(true, .seek (.start 1020)), (false, .readExact 3), (true, .writeAll [1, 2, 3, 4, 5, 6]),
   (false, .seek (.start 1)), (false, .write [7]), (false, .seek (.start 0)), (false, .read 4),
   (true, .seek (.start 600)), (true, .truncate), (false, .read 2)]

theorem bytesOk17 : BytesOk2 ops17 := ⟨by decide, by decide, trivial⟩

set_option maxRecDepth 100000 in
/-- the byte-level model, evaluated -/
theorem run17 : (run2H ops17 file14 fileG dev17).1 =
    [.pos 1020, .bytes [41, 42, 43], .unit, .pos 1, .count 1, .pos 0, .bytes [41, 7, 43, 0],
     .pos 600, .unit, .bytes [0, 0]] := by
  decide +kernel

/-- `two_files_refine_bytefiles` applied: the evaluated results are those of two independent byte arrays -/
theorem spec17 :
    Cursor.checkRun2 512 512 (ops17.map fun o => (o.1, o.2.toOp))
      [.pos 1020, .bytes [41, 42, 43], .unit, .pos 1, .count 1, .pos 0, .bytes [41, 7, 43, 0],
       .pos 600, .unit, .bytes [0, 0]]
      (absFile fs17 img17 file14).abs (absFile fs17 img17 fileG).abs =
    .ok ((absFile (run2H ops17 file14 fileG dev17).2.2.2.fs (run2H ops17 file14 fileG dev17).2.2.2.img
            (run2H ops17 file14 fileG dev17).2.1).abs,
         (absFile (run2H ops17 file14 fileG dev17).2.2.2.fs (run2H ops17 file14 fileG dev17).2.2.2.img
            (run2H ops17 file14 fileG dev17).2.2.1).abs) := by
  have := (two_files_refine_bytefiles ops17 file14 fileG dev17 pair17 bytesOk17).2.2
  rw [run17] at this
  exact this

/-- `EntryRep` for the second file: its slot `[1568, 1600)` lies in the root-directory sector -/
theorem entryRepG : EntryRep fs17 img17 fileG ⟨entryG, 1568, true⟩ where
  entry := rfl
  wf := ⟨by decide, by decide, by decide, by decide, by decide, by decide, by decide, by decide, by decide, by decide,
    by decide, by decide, by decide⟩
  notLfn := by decide
  inDev := by
    have : img17.size = 8192 := by
      show ((img16.write 520 _).write 3072 _).size = _
      rw [Img.write_size, Img.write_size]; rfl
    rw [this]; decide
  offFat := by decide
  offData := by
    intro c hc
    rw [chainG17] at hc
    have : c = 4 := by simpa using hc
    subst this; decide
  first := by decide
  sync := by intro h; cases h

/-- `durable_across_other_files_partial` applied: flush the second file, then let the first one grow and shrink;
    re-opening the second file reads its 100 bytes -/
theorem durable17 :
    ∃ d1, run fileG.flush dev17 = (.ok { fileG with entry := some ⟨entryG, 1568, false⟩ }, d1) ∧
      ∃ g' d', run (readExact FileH.strm
          (reopen (runH ops14 file14 d1).2.2.fs (runH ops14 file14 d1).2.2.img 1568)
            (absFile fs17 img17 fileG).size)
          (runH ops14 file14 d1).2.2 = (.ok ((absFile fs17 img17 fileG).content, g'), d') :=
  durable_across_other_files_partial file14 fileG ⟨entryG, 1568, true⟩ dev17 pair17.left pair17.right entryRepG
    pair17.apart
    (rootSlot_not_mayTouchData (fs := fs17) (img := img17) geo17 repF17 (by decide) (by decide))
    ops14 ⟨by decide, by decide, trivial⟩

theorem entryRepF : EntryRep fs17 img17 file14 ⟨entry14, 1536, true⟩ where
  entry := rfl
  wf := ⟨by decide, by decide, by decide, by decide, by decide, by decide, by decide, by decide, by decide,
    by decide, by decide, by decide, by decide⟩
  notLfn := by decide
  inDev := by
    have : img17.size = 8192 := by
      show ((img16.write 520 _).write 3072 _).size = _
      rw [Img.write_size, Img.write_size]; rfl
    rw [this]; decide
  offFat := by decide
  offData := by
    intro c hc
    rw [chainF17] at hc
    have : c = 3 ∨ c = 5 := by simpa using hc
    rcases this with rfl | rfl <;> decide
  first := by decide
  sync := by intro h; cases h

/-- `file_write_footprint` applied to the allocating write of the first file -/
theorem footprint17 : ∀ q,
    ((MOp.write [1, 2]).devAfter file14 dev17).img.getByte q ≠ dev17.img.getByte q →
      MayTouch fs17 img17 file14 ⟨entry14, 1536, true⟩ q ∧ q < img17.size :=
  file_write_footprint (.write [1, 2]) file14 ⟨entry14, 1536, true⟩ dev17 pair17.left entryRepF
    (fun bs e => by cases e; decide)

/-- `other_file_untouched` applied: the allocating write of the first file keeps the second file's representation,
    record and content -/
theorem untouched17 :
    CoreEq (absFile (execH (.write [1, 2]) file14 dev17).2.2.fs (execH (.write [1, 2]) file14 dev17).2.2.img fileG)
      (absFile fs17 img17 fileG) :=
  (other_file_untouched (.write [1, 2]) file14 fileG ⟨entryG, 1568, true⟩ dev17 pair17.left
    (fun bs e => by rcases e with e | e <;> cases e; decide) repG17 entryRepG pair17.apart
    (rootSlot_not_mayTouchData (fs := fs17) (img := img17) geo17 repF17 (by decide) (by decide))).2.2.1

/-- `durable_across_other_files` applied: flush the second file; then the first one grows by a cluster; the cut may
    fall between any two of the device writes of that history -/
theorem durableFull17 :
    ∃ d1, run fileG.flush dev17 = (.ok { fileG with entry := some ⟨entryG, 1568, false⟩ }, d1) ∧
      ∃ recs : List Rec, (runH ops14 file14 d1).2.2.log = recItems recs ++ d1.log ∧
        (runH ops14 file14 d1).2.2.img = applyRecs d1.img recs ∧
        ∀ (k : Nat) (dk : Dev), dk.img = applyRecs d1.img (recs.take k) → dk.fs = d1.fs → dk.failAt = none →
          ∃ g' d', run (readExact FileH.strm (reopen dk.fs dk.img 1568) (absFile fs17 img17 fileG).size) dk =
            (.ok ((absFile fs17 img17 fileG).content, g'), d') :=
  durable_across_other_files file14 fileG ⟨entryG, 1568, true⟩ dev17 pair17.left pair17.right entryRepG
    pair17.apart
    (rootSlot_not_mayTouchData (fs := fs17) (img := img17) geo17 repF17 (by decide) (by decide))
    ops14 ⟨by decide, by decide, trivial⟩

/-- the device after the flush of the second file -/
def dG1 : Dev := (run fileG.flush dev17).2

/-- the seven write records of the history `ops14` on the first file: status byte; 4 data bytes up to the cluster
    boundary; the end-of-chain mark of the new cluster 2 in both FAT copies; the link `5 → 2` in both FAT copies; the
    remaining 2 data bytes in cluster 2 -/
def recsF : List Rec :=
  [(37, [1]), (4092, [1, 2, 3, 4]), (516, [255, 255]), (1028, [255, 255]), (522, [2, 0]), (1034, [2, 0]),
   (2048, [5, 6])]

set_option maxRecDepth 100000 in
theorem log17 : (runH ops14 file14 dG1).2.2.log = recItems recsF ++ dG1.log := by decide +kernel

/-- power cut after the third record: cluster 2 is marked in the first FAT copy only, not yet linked -/
def dCutF : Dev := { dG1 with img := applyRecs dG1.img (recsF.take 3) }

set_option maxRecDepth 100000 in
/-- … and the second file reads back as flushed -/
theorem cutF17 :
    ((run (readExact FileH.strm (reopen dCutF.fs dCutF.img 1568) 100) dCutF).1.toOption.map
      fun r => (r.1.length, r.1.take 4)) = some (100, [41, 42, 43, 0]) := by
  decide +kernel

end FatVerif.FileSim.Ex11
