import FatVerif.Proofs.Stamping
import FatVerif.Props.C14
import FatVerif.Props.C18
/-!
# C18.4 — the stamping rules, as theorems about the model's programs

All time values come from the configured clock: the primitive ops `Op.now` / `Op.today` return the device's clock
counter `d.clock` and change nothing.  The counter advances once per API operation, at its start (`Dev.resetOp`,
`resetOp_clock`), never inside one (`NoClockChange`): whatever an operation does, every stamp it writes is derived from
the one value `d.clock` it started with, however many `TimeProvider` calls it makes.  `clockDateTime`/`clockDate`
(Model/File.lean) turn the counter into the `DateTime`/`Date` the harness' `TimeProvider` returns; they always lie in
the ranges `Date::new`/`Time::new` accept.
-/
namespace FatVerif.C18

/-! ## (0) one clock value per API operation -/

/-- **`NoClockChange`** — no program changes the clock: for EVERY program `p` (device calls, clock reads, error
    handlers, destructors), every device and every outcome, the clock counter and mode after the run are those before.
    Hence all `now`/`today` reads inside one API operation return the same value. -/
theorem NoClockChange {α : Type} (p : Prog α) (d : Dev) {r : Except Err α} {d' : Dev} (hr : run p d = (r, d')) :
    d'.clock = d.clock ∧ d'.tick = d.tick :=
  run_sameClock hr

/-- **`resetOp_clock`** — the only place the clock moves: the start of an API operation advances it by one step in
    tick mode and not at all with the constant clock. -/
theorem resetOp_clock (d : Dev) (failAt : Option Nat) :
    (d.resetOp failAt).clock = (if d.tick then d.clock + Dev.clockStep else d.clock) ∧
    (d.resetOp failAt).tick = d.tick :=
  FatVerif.resetOp_clock d failAt

/-- a clock read is a pure observation of the operation's clock value -/
theorem clock_read (d : Dev) : run Prog.now d = (.ok d.clock, d) ∧ run Prog.today d = (.ok d.clock, d) :=
  ⟨run_now d, run_today d⟩

/-- what the per-operation clock buys: a record created ANYWHERE inside an operation — after any prefix program `p`,
    whatever `p` did and however often it read the clock — is stamped with the value the operation started with -/
theorem createSfnEntry_after {β : Type} (p : Prog β) (sn : List Nat) (attrs : Nat) (first : Option Nat) (d : Dev)
    {r : DirFileEntryData} {d' : Dev}
    (hr : run (Prog.bind p fun _ => createSfnEntry sn attrs first) d = (.ok r, d')) :
    r.created = ⟨clockDate d.clock, (clockTime d.clock).round10⟩ ∧ r.accessed = clockDate d.clock ∧
    r.modified = ⟨clockDate d.clock, (clockTime d.clock).round2s⟩ := by
  rcases run_bind_cases hr with ⟨b, d1, h1, h2⟩ | ⟨e, _, he⟩
  · have hc := (run_sameClock h1).1
    rw [createSfnEntry_run] at h2
    cases h2
    rw [← hc]
    exact ⟨DirFileEntryData.created_setCreated
        ((DirFileEntryData.new sn attrs).setFirstCluster first d'.fs.fatType) (clockDateTime d'.clock)
        (clockDate_inRange _) (clockTime_inRange _),
      DirFileEntryData.accessed_setAccessed
        (((DirFileEntryData.new sn attrs).setFirstCluster first d'.fs.fatType).setCreated (clockDateTime d'.clock))
        (clockDate d'.clock) (clockDate_inRange _),
      DirFileEntryData.modified_setModified _ (clockDateTime d'.clock) (clockDate_inRange _) (clockTime_inRange _)⟩
  · cases he

/-! ## (1) creation stamps all three from ONE clock value -/

/-- **`createSfnEntry_stamps`** — on any device `create_sfn_entry` succeeds and leaves the device exactly as it was
    (no device call, clock untouched); the record has created = the operation's clock value at 10 ms, accessed = its
    date, modified = the clock value at 2 s — all three from the single value `d.clock`. -/
theorem createSfnEntry_stamps (sn : List Nat) (attrs : Nat) (first : Option Nat) (d : Dev) :
    ∃ r : DirFileEntryData, run (createSfnEntry sn attrs first) d = (.ok r, d) ∧
      r.created = ⟨clockDate d.clock, (clockTime d.clock).round10⟩ ∧
      r.accessed = clockDate d.clock ∧
      r.modified = ⟨clockDate d.clock, (clockTime d.clock).round2s⟩ ∧
      r.name = sn ∧ r.attrs = attrs := by
  refine ⟨_, createSfnEntry_run sn attrs first d, ?_, ?_, ?_, rfl, rfl⟩
  · exact DirFileEntryData.created_setCreated ((DirFileEntryData.new sn attrs).setFirstCluster first d.fs.fatType)
      (clockDateTime d.clock) (clockDate_inRange _) (clockTime_inRange _)
  · exact DirFileEntryData.accessed_setAccessed
      (((DirFileEntryData.new sn attrs).setFirstCluster first d.fs.fatType).setCreated (clockDateTime d.clock))
      (clockDate d.clock) (clockDate_inRange _)
  · exact DirFileEntryData.modified_setModified _ (clockDateTime d.clock) (clockDate_inRange _) (clockTime_inRange _)

/-- a device in tick mode whose clock reads 2020-02-02 12:34:57.789 during the current operation -/
def tickDev : Dev := { C14ex.dev16 with tick := true, clock := 45297789 }

example : clockDateTime tickDev.clock = ⟨⟨2020, 2, 2⟩, ⟨12, 34, 57, 789⟩⟩ := by decide

example :
    ((run (createSfnEntry (List.replicate 11 65) 0x20 none) tickDev).1.toOption.map fun r =>
        (r.created, r.accessed, r.modified)) =
      some (⟨⟨2020, 2, 2⟩, ⟨12, 34, 57, 780⟩⟩, ⟨2020, 2, 2⟩, ⟨⟨2020, 2, 2⟩, ⟨12, 34, 56, 0⟩⟩) ∧
    (run (createSfnEntry (List.replicate 11 65) 0x20 none) tickDev).2.clock = 45297789 ∧
    (tickDev.resetOp none).clock = 45297789 + 2010 ∧ ((C14ex.dev16).resetOp none).clock = C14ex.dev16.clock := by
  decide +kernel

/-! ## (2) a write that stores data stamps modified -/

/-- **`write_stamps_modified`** — a successful `File::write` never changes the clock; returning `n > 0` on a handle
    with a directory entry it leaves the editor's modified stamp reading back the operation's clock value `d.clock` at
    2 s resolution, and created, accessed and the entry position as before.  Returning 0 leaves every time field (and
    the position) of the editor as it was.
    (The editor itself may still change on a 0-byte return: if a first cluster was allocated before a device write
    that stored nothing, `first_cluster` is already recorded — as in `file.rs`.) -/
theorem write_stamps_modified (f : FileH) (buf : List Nat) (d : Dev) {n : Nat} {f' : FileH} {d' : Dev}
    (hr : run (f.write buf) d = (.ok (n, f'), d')) :
    (d'.clock = d.clock ∧ d'.tick = d.tick) ∧
    (n = 0 → SameStamps f.entry f'.entry) ∧
    (0 < n → ∀ e, f.entry = some e →
      ∃ e', f'.entry = some e' ∧
        e'.data.modified = ⟨clockDate d.clock, (clockTime d.clock).round2s⟩ ∧
        e'.data.created = e.data.created ∧ e'.data.accessed = e.data.accessed ∧ e'.pos = e.pos) := by
  have h := write_stamps f buf d hr
  exact ⟨h.1, h.2.1, fun hn => (h.2.2 hn).2⟩

/-- the root-directory handle has no entry to stamp, before or after -/
theorem write_no_entry (f : FileH) (buf : List Nat) (d : Dev) {n : Nat} {f' : FileH} {d' : Dev}
    (hr : run (f.write buf) d = (.ok (n, f'), d')) (hf : f.entry = none) : f'.entry = none := by
  have h := write_stamps f buf d hr
  rcases Nat.eq_zero_or_pos n with hn | hn
  · have hs := h.2.1 hn
    rw [hf] at hs
    exact hs.none_inv
  · exact (h.2.2 hn).1 hf

/-- an empty buffer stores nothing: handle and clock exactly as before -/
theorem write_empty (f : FileH) (d : Dev) : run (f.write []) d = (.ok (0, f), d) := by
  simp [FileH.write, bind, pure, Prog.getFs, run, stepOp]

/-- a successful 3-byte write: 3 bytes stored, modified := 12:34:56 (2 s) of the operation's clock, clock unchanged -/
example :
    ((run (C14ex.dirtyFile.write [7, 8, 9]) tickDev).1.toOption.map fun r =>
        (r.1, r.2.entry.map fun e => (e.data.modified, e.data.created, e.dirty))) =
      some (3, some (⟨⟨2020, 2, 2⟩, ⟨12, 34, 56, 0⟩⟩, ⟨⟨1980, 0, 0⟩, ⟨0, 0, 0, 0⟩⟩, true)) ∧
    (run (C14ex.dirtyFile.write [7, 8, 9]) tickDev).2.clock = 45297789 := by
  decide +kernel

/-! ## (3) a read stamps accessed only under the option -/

/-- **`read_stamps_accessed`** — a successful `File::read` never changes the clock, and
    * with `update_accessed_date` off the editor is unchanged;
    * in general, if the editor changed at all then the option is on, data was returned, and the new editor is the old
      one after `set_accessed (date of the operation's clock value d.clock)`: its record differs from the old one in
      no field other than `access_date`, `accessed()` returns the clock's date, created / modified / position are as
      before. -/
theorem read_stamps_accessed (f : FileH) (n : Nat) (d : Dev) {bs : List Nat} {f' : FileH} {d' : Dev}
    (hr : run (f.read n) d = (.ok (bs, f'), d')) :
    (d'.clock = d.clock ∧ d'.tick = d.tick) ∧
    (d.fs.accDate = false → f'.entry = f.entry) ∧
    (f'.entry = f.entry ∨
     (d.fs.accDate = true ∧ bs ≠ [] ∧
      ∃ e e', f.entry = some e ∧ f'.entry = some e' ∧ e' = e.setAccessed (clockDate d.clock) ∧
        e'.data = { e.data with accessDate := e'.data.accessDate } ∧
        e'.data.accessed = clockDate d.clock ∧
        e'.data.created = e.data.created ∧ e'.data.modified = e.data.modified ∧ e'.pos = e.pos)) := by
  obtain ⟨hclk, h⟩ := read_stamps f n d hr
  refine ⟨hclk, fun hoff => ?_, ?_⟩
  · rcases h with h | ⟨hon, _⟩
    · exact h
    · rw [hoff] at hon; cases hon
  · rcases h with h | ⟨hon, hbs, e, he, he'⟩
    · exact Or.inl h
    · have hrd := DirEntryEditor.setAccessed_reads e (clockDate d.clock) (clockDate_inRange _)
      exact Or.inr ⟨hon, hbs, e, _, he, he', rfl, DirEntryEditor.setAccessed_data e _, hrd.1, hrd.2.1,
        hrd.2.2.1, hrd.2.2.2⟩

/-- a 5-byte file at cluster 2, clean entry -/
def dataFile : FileH :=
  { firstCluster := some 2, currentCluster := none, offset := 0,
    entry := some { data := { DirFileEntryData.new (List.replicate 11 65) 0x20 with size := 5 }, pos := 1056,
                    dirty := false } }

/-- option on: 3 bytes read, accessed := the clock's date, latch set; option off: editor unchanged; clock unchanged -/
example :
    ((run (dataFile.read 3) { tickDev with fs := { tickDev.fs with accDate := true } }).1.toOption.map fun r =>
        (r.1.length, r.2.entry.map fun e => (e.data.accessed, e.dirty))) = some (3, some (⟨2020, 2, 2⟩, true)) ∧
    (run (dataFile.read 3) { tickDev with fs := { tickDev.fs with accDate := true } }).2.clock = 45297789 ∧
    ((run (dataFile.read 3) tickDev).1.toOption.map fun r => (r.1.length, decide (r.2.entry = dataFile.entry))) =
      some (3, true) ∧
    (run (dataFile.read 3) tickDev).2.clock = 45297789 := by
  decide +kernel

/-! ## (4) an explicit `set_*` followed by a write-less flush is what gets stored -/

/-- `File::flush` on a handle whose editor is `ed` (32-byte record): the editor ends up clean; if it was dirty the
    record is written at its position (tiled by the write records just before the closing device flush), if it was
    clean nothing but the device flush happens; the clock is unchanged. -/
theorem flush_with_entry (f1 : FileH) (ed : DirEntryEditor) (h1 : f1.entry = some ed)
    (hlen : ed.data.serialize.length = 32) (d : Dev) {f' : FileH} {d' : Dev}
    (hr : run f1.flush d = (.ok f', d')) :
    f'.entry = some { ed with dirty := false } ∧
    (ed.dirty = true →
      ∃ items, d'.log = .flush :: (items.reverse ++ d.log) ∧ Pieces ed.pos ed.data.serialize items) ∧
    (ed.dirty = false → d'.log = .flush :: d.log) ∧
    SameClock d d' := by
  obtain ⟨_, _, hd, hc⟩ := flush_persists f1 d hr
  have htake : ed.data.serialize.take 32 = ed.data.serialize := List.take_of_length_le (by omega)
  refine ⟨?_, fun hdirty => ?_, fun hclean => ?_, run_sameClock hr⟩
  · cases hdd : ed.dirty with
    | true => rw [(hd ed h1 hdd).1]
    | false =>
      have := (hc (fun e0 he0 => by rw [h1] at he0; cases he0; exact hdd)).1
      rw [this, h1]
      congr 1
      cases ed; simp only at hdd; subst hdd; rfl
  · obtain ⟨_, items, hl, hp⟩ := hd ed h1 hdirty
    rw [htake] at hp
    exact ⟨items, hl, hp⟩
  · exact (hc (fun e0 he0 => by rw [h1] at he0; cases he0; exact hclean)).2

/-- **`explicit_set_survives_flush` (created)** — `f.set_created(dt)` then `flush` with no write in between:
    the handle ends up clean; if the value differs from the stored one, the record written at the entry position is
    the old record with bytes 13–17 replaced by the encoded hi-res byte, time and date, nothing else; whatever was
    written, the 32 bytes the entry now consists of deserialize to a short entry whose `created()` is `dt` at 10 ms
    and whose accessed / modified are as before (set → flush → reopen at model level). -/
theorem set_created_survives_flush (f : FileH) (e : DirEntryEditor) (hf : f.entry = some e) (hw : e.data.WF)
    (hl : attrsIsLfn e.data.attrs = false) (y m dd h mi s ms : Nat) (dt : DateTime)
    (hdt : DateTime.new? y m dd h mi s ms = some dt) (d : Dev) {f' : FileH} {d' : Dev}
    (hr : run (f.setCreated dt).flush d = (.ok f', d')) :
    f'.entry = some { e.setCreated dt with dirty := false } ∧ (e.setCreated dt).pos = e.pos ∧
    ((e.setCreated dt).dirty = true →
      ∃ items, d'.log = .flush :: (items.reverse ++ d.log) ∧ Pieces e.pos (e.setCreated dt).data.serialize items) ∧
    ((e.setCreated dt).dirty = false → d'.log = .flush :: d.log) ∧
    (dt ≠ e.data.created → (e.setCreated dt).dirty = true ∧
      (e.setCreated dt).data.serialize =
        e.data.serialize.take 13 ++ ([dt.time.encode.2] ++ bytesLe16 dt.time.encode.1 ++ bytesLe16 dt.date.encode) ++
          e.data.serialize.drop 18) ∧
    (∃ g, DirEntryData.deserialize (e.setCreated dt).data.serialize = .file g ∧
      g.created = ⟨⟨y, m, dd⟩, ⟨h, mi, s, ms / 10 * 10⟩⟩ ∧ g.accessed = e.data.accessed ∧
      g.modified = e.data.modified) ∧
    SameClock d d' := by
  obtain ⟨rd, rt, rfl⟩ := DateTime.new?_eq_some hdt
  have rd' := rd; have rt' := rt
  unfold Date.inRange at rd'; unfold Time.inRange at rt'
  have hentry : (f.setCreated ⟨⟨y, m, dd⟩, ⟨h, mi, s, ms⟩⟩).entry = some (e.setCreated ⟨⟨y, m, dd⟩, ⟨h, mi, s, ms⟩⟩) := by
    simp [FileH.setCreated, hf]
  have hreads := DirEntryEditor.setCreated_reads e ⟨⟨y, m, dd⟩, ⟨h, mi, s, ms⟩⟩ rd rt
  have hwf : (e.setCreated ⟨⟨y, m, dd⟩, ⟨h, mi, s, ms⟩⟩).data.WF ∧
      (e.setCreated ⟨⟨y, m, dd⟩, ⟨h, mi, s, ms⟩⟩).data.attrs = e.data.attrs := by
    unfold DirEntryEditor.setCreated
    split
    · exact ⟨hw.setCreated _ (by simp only; omega) (by simp only; omega), rfl⟩
    · exact ⟨hw, rfl⟩
  have hlen := DirFileEntryData.serialize_length _ hwf.1.name_len
  obtain ⟨h1, h2, h3, h4⟩ := flush_with_entry _ _ hentry hlen d hr
  refine ⟨h1, hreads.2.2.2, ?_, h3, ?_, ?_, h4⟩
  · intro hdirty
    obtain ⟨items, hl', hp⟩ := h2 hdirty
    rw [hreads.2.2.2] at hp
    exact ⟨items, hl', hp⟩
  · intro hne
    have hdata : (e.setCreated ⟨⟨y, m, dd⟩, ⟨h, mi, s, ms⟩⟩) =
        { e with data := e.data.setCreated ⟨⟨y, m, dd⟩, ⟨h, mi, s, ms⟩⟩, dirty := true } := by
      unfold DirEntryEditor.setCreated; rw [if_pos hne]
    rw [hdata]
    exact ⟨rfl, DirFileEntryData.serialize_setCreated e.data _ hw.name_len⟩
  · refine ⟨_, DirEntryData.deserialize_serialize_file _ hwf.1 (by rw [hwf.2]; exact hl), ?_, hreads.2.1, hreads.2.2.1⟩
    rw [hreads.1]; rfl

/-- **`explicit_set_survives_flush` (modified)** — as above for `set_modified`: bytes 22–25, read back at 2 s. -/
theorem set_modified_survives_flush (f : FileH) (e : DirEntryEditor) (hf : f.entry = some e) (hw : e.data.WF)
    (hl : attrsIsLfn e.data.attrs = false) (y m dd h mi s ms : Nat) (dt : DateTime)
    (hdt : DateTime.new? y m dd h mi s ms = some dt) (d : Dev) {f' : FileH} {d' : Dev}
    (hr : run (f.setModified dt).flush d = (.ok f', d')) :
    f'.entry = some { e.setModified dt with dirty := false } ∧ (e.setModified dt).pos = e.pos ∧
    ((e.setModified dt).dirty = true →
      ∃ items, d'.log = .flush :: (items.reverse ++ d.log) ∧ Pieces e.pos (e.setModified dt).data.serialize items) ∧
    ((e.setModified dt).dirty = false → d'.log = .flush :: d.log) ∧
    (dt ≠ e.data.modified → (e.setModified dt).dirty = true ∧
      (e.setModified dt).data.serialize =
        e.data.serialize.take 22 ++ (bytesLe16 dt.time.encode.1 ++ bytesLe16 dt.date.encode) ++
          e.data.serialize.drop 26) ∧
    (∃ g, DirEntryData.deserialize (e.setModified dt).data.serialize = .file g ∧
      g.modified = ⟨⟨y, m, dd⟩, ⟨h, mi, s / 2 * 2, 0⟩⟩ ∧ g.created = e.data.created ∧
      g.accessed = e.data.accessed) ∧
    SameClock d d' := by
  obtain ⟨rd, rt, rfl⟩ := DateTime.new?_eq_some hdt
  have rd' := rd; have rt' := rt
  unfold Date.inRange at rd'; unfold Time.inRange at rt'
  have hentry : (f.setModified ⟨⟨y, m, dd⟩, ⟨h, mi, s, ms⟩⟩).entry = some (e.setModified ⟨⟨y, m, dd⟩, ⟨h, mi, s, ms⟩⟩) := by
    simp [FileH.setModified, hf]
  have hreads := DirEntryEditor.setModified_reads e ⟨⟨y, m, dd⟩, ⟨h, mi, s, ms⟩⟩ rd rt
  have hwf : (e.setModified ⟨⟨y, m, dd⟩, ⟨h, mi, s, ms⟩⟩).data.WF ∧
      (e.setModified ⟨⟨y, m, dd⟩, ⟨h, mi, s, ms⟩⟩).data.attrs = e.data.attrs := by
    unfold DirEntryEditor.setModified
    split
    · exact ⟨hw.setModified _ (by simp only; omega) (by simp only; omega), rfl⟩
    · exact ⟨hw, rfl⟩
  have hlen := DirFileEntryData.serialize_length _ hwf.1.name_len
  obtain ⟨h1, h2, h3, h4⟩ := flush_with_entry _ _ hentry hlen d hr
  refine ⟨h1, hreads.2.2.2, ?_, h3, ?_, ?_, h4⟩
  · intro hdirty
    obtain ⟨items, hl', hp⟩ := h2 hdirty
    rw [hreads.2.2.2] at hp
    exact ⟨items, hl', hp⟩
  · intro hne
    have hdata : (e.setModified ⟨⟨y, m, dd⟩, ⟨h, mi, s, ms⟩⟩) =
        { e with data := e.data.setModified ⟨⟨y, m, dd⟩, ⟨h, mi, s, ms⟩⟩, dirty := true } := by
      unfold DirEntryEditor.setModified; rw [if_pos hne]
    rw [hdata]
    exact ⟨rfl, DirFileEntryData.serialize_setModified e.data _ hw.name_len⟩
  · refine ⟨_, DirEntryData.deserialize_serialize_file _ hwf.1 (by rw [hwf.2]; exact hl), ?_, hreads.2.1, hreads.2.2.1⟩
    rw [hreads.1]; rfl

/-- **`explicit_set_survives_flush` (accessed)** — as above for `set_accessed`: bytes 18–19, the date exactly. -/
theorem set_accessed_survives_flush (f : FileH) (e : DirEntryEditor) (hf : f.entry = some e) (hw : e.data.WF)
    (hl : attrsIsLfn e.data.attrs = false) (y m dd : Nat) (dte : Date) (hdt : Date.new? y m dd = some dte) (d : Dev)
    {f' : FileH} {d' : Dev} (hr : run (f.setAccessed dte).flush d = (.ok f', d')) :
    f'.entry = some { e.setAccessed dte with dirty := false } ∧ (e.setAccessed dte).pos = e.pos ∧
    ((e.setAccessed dte).dirty = true →
      ∃ items, d'.log = .flush :: (items.reverse ++ d.log) ∧ Pieces e.pos (e.setAccessed dte).data.serialize items) ∧
    ((e.setAccessed dte).dirty = false → d'.log = .flush :: d.log) ∧
    (dte ≠ e.data.accessed → (e.setAccessed dte).dirty = true ∧
      (e.setAccessed dte).data.serialize =
        e.data.serialize.take 18 ++ bytesLe16 dte.encode ++ e.data.serialize.drop 20) ∧
    (∃ g, DirEntryData.deserialize (e.setAccessed dte).data.serialize = .file g ∧
      g.accessed = ⟨y, m, dd⟩ ∧ g.created = e.data.created ∧ g.modified = e.data.modified) ∧
    SameClock d d' := by
  obtain ⟨rd, rfl⟩ := Date.new?_eq_some hdt
  have rd' := rd
  unfold Date.inRange at rd'
  have hentry : (f.setAccessed ⟨y, m, dd⟩).entry = some (e.setAccessed ⟨y, m, dd⟩) := by
    simp [FileH.setAccessed, hf]
  have hreads := DirEntryEditor.setAccessed_reads e ⟨y, m, dd⟩ rd
  have hwf : (e.setAccessed ⟨y, m, dd⟩).data.WF ∧ (e.setAccessed ⟨y, m, dd⟩).data.attrs = e.data.attrs := by
    unfold DirEntryEditor.setAccessed
    split
    · exact ⟨hw.setAccessed _ (by simp only; omega), rfl⟩
    · exact ⟨hw, rfl⟩
  have hlen := DirFileEntryData.serialize_length _ hwf.1.name_len
  obtain ⟨h1, h2, h3, h4⟩ := flush_with_entry _ _ hentry hlen d hr
  refine ⟨h1, hreads.2.2.2, ?_, h3, ?_, ?_, h4⟩
  · intro hdirty
    obtain ⟨items, hl', hp⟩ := h2 hdirty
    rw [hreads.2.2.2] at hp
    exact ⟨items, hl', hp⟩
  · intro hne
    have hdata : (e.setAccessed ⟨y, m, dd⟩) = { e with data := e.data.setAccessed ⟨y, m, dd⟩, dirty := true } := by
      unfold DirEntryEditor.setAccessed; rw [if_pos hne]
    rw [hdata]
    exact ⟨rfl, DirFileEntryData.serialize_setAccessed e.data _ hw.name_len⟩
  · exact ⟨_, DirEntryData.deserialize_serialize_file _ hwf.1 (by rw [hwf.2]; exact hl), hreads.1, hreads.2.1,
      hreads.2.2.1⟩

/-- a clean handle on `README.TXT` (the sample record of `Props/C18.lean`) at device offset 1056 -/
def cleanFile : FileH :=
  { firstCluster := some 2, currentCluster := none, offset := 0,
    entry := some { data := sampleEntry, pos := 1056, dirty := false } }

/-- `set_created(2021-03-04 05:06:07.089)` + flush on `tickDev`: succeeds, 12 chunk writes from offset 1056 then the
    device flush, the bytes at 1069.. are hi-res 108, time 0x28C3, date 0x5264, and the clock is unchanged -/
example :
    resErr (run (cleanFile.setCreated ⟨⟨2021, 3, 4⟩, ⟨5, 6, 7, 89⟩⟩).flush tickDev).1 = none ∧
    (run (cleanFile.setCreated ⟨⟨2021, 3, 4⟩, ⟨5, 6, 7, 89⟩⟩).flush tickDev).2.log.length = 13 ∧
    (run (cleanFile.setCreated ⟨⟨2021, 3, 4⟩, ⟨5, 6, 7, 89⟩⟩).flush tickDev).2.img.read 1069 5 =
      [108, 0xC3, 0x28, 0x64, 0x52] ∧
    (run (cleanFile.setCreated ⟨⟨2021, 3, 4⟩, ⟨5, 6, 7, 89⟩⟩).flush tickDev).2.clock = tickDev.clock ∧
    DateTime.new? 2021 3 4 5 6 7 89 = some ⟨⟨2021, 3, 4⟩, ⟨5, 6, 7, 89⟩⟩ ∧
    sampleEntry.WF ∧ attrsIsLfn sampleEntry.attrs = false := by
  refine ⟨by decide +kernel, by decide +kernel, by decide +kernel, by decide +kernel, by decide, sampleEntry_wf,
    by decide⟩

/-! ## (5) rename keeps the time stamps -/

/-- **`rename_keeps_times`** — `renamed` changes the 11 name bytes only: all time fields, hence all three getters, and
    bytes 11–31 of the serialised record (in particular 13–19 and 22–25) are the source's. -/
theorem rename_keeps_times (e : DirFileEntryData) (sn : List Nat) (he : e.name.length = 11) (hs : sn.length = 11) :
    (e.renamed sn).timeFields = e.timeFields ∧
    (e.renamed sn).created = e.created ∧ (e.renamed sn).accessed = e.accessed ∧
    (e.renamed sn).modified = e.modified ∧
    (e.renamed sn).serialize = sn ++ e.serialize.drop 11 ∧
    (e.renamed sn).serialize.drop 11 = e.serialize.drop 11 := by
  have h1 : (e.renamed sn).serialize = sn ++ e.serialize.drop 11 := by
    simp only [DirFileEntryData.serialize, DirFileEntryData.renamed]
    rw [List.drop_left' he]
    rfl
  refine ⟨rfl, rfl, rfl, rfl, h1, ?_⟩
  rw [h1, List.drop_left' hs]

/-- the record `rename_internal` writes for the moved entry is the source's record under the new short name: a
    successful `rename_internal` either found the destination name to denote the source entry itself (nothing is
    written) or wrote, through `write_entry`, a `DirEntry` whose record has the source's time fields and getters. -/
theorem rename_record_keeps_times (env : Env) (st : DirStream) (srcName : String) (dst : DirStream)
    (dstName : String) (d : Dev) {d' : Dev}
    (hr : run (renameInternal env st srcName dst dstName) d = (.ok (), d')) :
    ∃ e dA, run (findEntry env st srcName none) d = (.ok e, dA) ∧
      ((∃ dstE : DirEntry, e.entryPos = dstE.entryPos) ∨
       (∃ sn dB newEntry dC, run (writeEntry dst dstName (e.data.renamed sn)) dB = (.ok newEntry, dC) ∧
          newEntry.data = e.data.renamed sn ∧
          newEntry.data.timeFields = e.data.timeFields ∧ newEntry.data.created = e.data.created ∧
          newEntry.data.accessed = e.data.accessed ∧ newEntry.data.modified = e.data.modified)) := by
  obtain ⟨e, dA, hf, h⟩ := renameInternal_record env st srcName dst dstName d hr
  refine ⟨e, dA, hf, ?_⟩
  rcases h with h | ⟨sn, dB, ne, dC, hw, hd⟩
  · exact Or.inl h
  · exact Or.inr ⟨sn, dB, ne, dC, hw, hd, by rw [hd]; rfl, by rw [hd]; rfl, by rw [hd]; rfl, by rw [hd]; rfl⟩

example : (sampleEntry.renamed [78, 69, 87, 32, 32, 32, 32, 32, 66, 73, 78]).serialize =
    [78, 69, 87, 32, 32, 32, 32, 32, 66, 73, 78] ++ sampleEntry.serialize.drop 11 ∧
    (sampleEntry.renamed [78, 69, 87, 32, 32, 32, 32, 32, 66, 73, 78]).created = ⟨⟨2020, 2, 2⟩, ⟨12, 37, 47, 230⟩⟩ := by
  decide

/-! ## (6) setting the stored value is not a change -/

/-- **`set_same_value_not_dirty`** — each setter called with the value its getter returns is the identity on the
    editor (the latch stays as it was, so a clean editor stays clean); called with any other value it stores the
    encoded value and sets the latch. -/
theorem set_same_value_not_dirty (ed : DirEntryEditor) :
    ed.setCreated ed.data.created = ed ∧ ed.setAccessed ed.data.accessed = ed ∧
    ed.setModified ed.data.modified = ed ∧
    (∀ dt, dt ≠ ed.data.created →
      ed.setCreated dt = { ed with data := ed.data.setCreated dt, dirty := true }) ∧
    (∀ dd, dd ≠ ed.data.accessed →
      ed.setAccessed dd = { ed with data := ed.data.setAccessed dd, dirty := true }) ∧
    (∀ dt, dt ≠ ed.data.modified →
      ed.setModified dt = { ed with data := ed.data.setModified dt, dirty := true }) := by
  refine ⟨DirEntryEditor.setCreated_same ed, DirEntryEditor.setAccessed_same ed, DirEntryEditor.setModified_same ed,
    fun dt h => ?_, fun dd h => ?_, fun dt h => ?_⟩
  · unfold DirEntryEditor.setCreated; rw [if_pos h]
  · unfold DirEntryEditor.setAccessed; rw [if_pos h]
  · unfold DirEntryEditor.setModified; rw [if_pos h]

/-- consequence at the handle: re-setting all three stamps of a clean handle to their stored values and flushing
    writes nothing back — the only log item is the device flush, and the handle is unchanged -/
theorem set_same_value_no_writeback (f : FileH) (e : DirEntryEditor) (hf : f.entry = some e) (hclean : e.dirty = false)
    (d : Dev) {f' : FileH} {d' : Dev}
    (hr : run (((f.setCreated e.data.created).setAccessed e.data.accessed).setModified e.data.modified).flush d =
      (.ok f', d')) :
    f' = f ∧ d'.log = .flush :: d.log := by
  have hsame : ((f.setCreated e.data.created).setAccessed e.data.accessed).setModified e.data.modified = f := by
    cases f with
    | mk fc cc off entry =>
      simp only at hf
      subst hf
      simp [FileH.setCreated, FileH.setAccessed, FileH.setModified, DirEntryEditor.setCreated_same,
        DirEntryEditor.setAccessed_same, DirEntryEditor.setModified_same]
  rw [hsame] at hr
  obtain ⟨_, _, _, hc⟩ := flush_persists f d hr
  exact hc (fun e0 he0 => by rw [hf] at he0; cases he0; exact hclean)

/-- the converse at the handle: a different value makes the next flush write the record back -/
theorem set_other_value_writeback (f : FileH) (e : DirEntryEditor) (hf : f.entry = some e) (hn : e.data.name.length = 11)
    (dt : DateTime) (hne : dt ≠ e.data.modified) (d : Dev) {f' : FileH} {d' : Dev}
    (hr : run (f.setModified dt).flush d = (.ok f', d')) :
    ∃ items, d'.log = .flush :: (items.reverse ++ d.log) ∧ Pieces e.pos (e.data.setModified dt).serialize items := by
  have hed := (set_same_value_not_dirty e).2.2.2.2.2 dt hne
  have hentry : (f.setModified dt).entry = some (e.setModified dt) := by simp [FileH.setModified, hf]
  have hlen : (e.setModified dt).data.serialize.length = 32 := by
    rw [hed]; exact DirFileEntryData.serialize_length _ hn
  obtain ⟨_, h2, _, _⟩ := flush_with_entry _ _ hentry hlen d hr
  obtain ⟨items, hl, hp⟩ := h2 (by rw [hed])
  rw [hed] at hp
  exact ⟨items, hl, hp⟩

example : cleanFile.entry.map (fun e => decide (e.setModified e.data.modified = e)) = some true ∧
    cleanFile.entry.map (fun e => (e.setModified ⟨⟨2021, 3, 4⟩, ⟨5, 6, 7, 89⟩⟩).dirty) = some true ∧
    (run (cleanFile.setModified ⟨⟨2020, 2, 2⟩, ⟨12, 34, 56, 0⟩⟩).flush tickDev).2.log = [.flush] := by
  refine ⟨by decide, by decide, by decide +kernel⟩

end FatVerif.C18
