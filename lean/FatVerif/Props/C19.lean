import FatVerif.Props.C17
/-!
# C19 — build features change only what they document (long-name buffer part)

`alloc = true`: `LfnBuffer` is a `Vec<u16>`; `alloc = false`: `[u16; 260]` + `len`.
-/
namespace FatVerif
open Lfn

/-- **C19.1** `LfnBuffer::from_ucs2_units` → `as_ucs2_units` → `LfnEntriesGenerator` produce identical slots in both
    variants for at most 260 units, and neither indexes out of range (`lfnGenerateVia` = `none` would be a panic). -/
theorem lfnbuf_equiv_write (name : List Nat) (chk : Nat) (h : name.length ≤ 260) :
    lfnGenerateVia true name chk = some (lfnGenerate name chk) ∧
    lfnGenerateVia false name chk = some (lfnGenerate name chk) := by
  have hcap := bufCap_eq
  constructor
  · simp [lfnGenerateVia, LfnBuf.fromUnits?, LfnBuf.asUnits?]
  · have h' : name.length ≤ bufCap := by omega
    simp [lfnGenerateVia, LfnBuf.fromUnits?, LfnBuf.asUnits?, h']

example : lfnGenerateVia false ((List.range 30).map (· + 0x61)) 7 =
    lfnGenerateVia true ((List.range 30).map (· + 0x61)) 7 :=
  ((lfnbuf_equiv_write _ 7 (by simp)).2).trans ((lfnbuf_equiv_write _ 7 (by simp)).1).symm

/-- beyond 260 units (never reached: names are validated to ≤ 255 first) the fixed buffer indexes out of range -/
theorem lfnbuf_write_over260 (name : List Nat) (chk : Nat) (h : 260 < name.length) :
    lfnGenerateVia false name chk = none ∧ lfnGenerateVia true name chk = some (lfnGenerate name chk) := by
  have hcap := bufCap_eq
  constructor
  · have h' : ¬ name.length ≤ bufCap := by omega
    simp [lfnGenerateVia, LfnBuf.fromUnits?, h']
  · simp [lfnGenerateVia, LfnBuf.fromUnits?, LfnBuf.asUnits?]

/-- **C19.2** On EVERY slot list the reader returns identical entries in both variants (both equal the specification
    parser's, `dirIter_spec`).  Before commit 11043bc this held only on the `cleanStarts` domain (F18). -/
theorem lfnbuf_equiv_read (skipVolume : Bool) (slots : List (List Nat)) :
    readDirEntries true skipVolume slots = readDirEntries false skipVolume slots := by
  rw [dirIter_spec true, dirIter_spec false]

/-- regression: the former F18 witness (off the old domain) now reads identically -/
example : cleanStarts false C17.f18Witness = false ∧
    readDirEntries true true C17.f18Witness = readDirEntries false true C17.f18Witness :=
  ⟨by decide +kernel, lfnbuf_equiv_read true _⟩

end FatVerif
