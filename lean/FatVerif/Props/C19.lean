import FatVerif.Props.C17
/-!
# C19 — build features change only what they document (long-name buffer part)

`alloc = true`: `LfnBuffer` is a `Vec<u16>`; `alloc = false`: `[u16; 260]` + `len`.
-/
namespace FatVerif
open Lfn

/-- **C19.1** `LfnBuffer::from_ucs2_units` → `as_ucs2_units` → `LfnEntriesGenerator` produce identical slots in both
    variants for at most 260 units, and neither indexes out of range (`lfnGenerateVia` = `none` would be a panic). -/
theorem lfnbuf_equiv_write (name : List Nat) (chk : Nat) (h : name.length ≤ 260) :
    lfnGenerateVia true name chk = some (lfnGenerate name chk) ∧
    lfnGenerateVia false name chk = some (lfnGenerate name chk) := by
  have hcap := bufCap_eq
  constructor
  · simp [lfnGenerateVia, LfnBuf.fromUnits?, LfnBuf.asUnits?]
  · have h' : name.length ≤ bufCap := by omega
    simp [lfnGenerateVia, LfnBuf.fromUnits?, LfnBuf.asUnits?, h']

example : lfnGenerateVia false ((List.range 30).map (· + 0x61)) 7 =
    lfnGenerateVia true ((List.range 30).map (· + 0x61)) 7 :=
  ((lfnbuf_equiv_write _ 7 (by simp)).2).trans ((lfnbuf_equiv_write _ 7 (by simp)).1).symm

/-- beyond 260 units (never reached: names are validated to ≤ 255 first) the fixed buffer indexes out of range -/
theorem lfnbuf_write_over260 (name : List Nat) (chk : Nat) (h : 260 < name.length) :
    lfnGenerateVia false name chk = none ∧ lfnGenerateVia true name chk = some (lfnGenerate name chk) := by
  have hcap := bufCap_eq
  constructor
  · have h' : ¬ name.length ≤ bufCap := by omega
    simp [lfnGenerateVia, LfnBuf.fromUnits?, h']
  · simp [lfnGenerateVia, LfnBuf.fromUnits?, LfnBuf.asUnits?]

/-- **C19.2** On every slot list in which no valid `0x40`-flagged long-name slot directly follows another long-name slot
    (`cleanStarts`: each run starts after a short / deleted / label slot, after a corrupt-ordinal slot's successor is
    unflagged, or at the start), the reader returns identical entries in both variants. -/
theorem lfnbuf_equiv_read (skipVolume : Bool) (slots : List (List Nat)) (hclean : cleanStarts false slots = true) :
    readDirEntries true skipVolume slots = readDirEntries false skipVolume slots :=
  readLoop_equiv skipVolume slots 0 0 false _ _ hclean Sim_new (fun _ => DeadPair_new)

/-- the domain contains everything `lfnGenerate` + a short/label/deleted slot produces, in any context -/
theorem cleanStarts_generated (name : List Nat) (chk : Nat) (sfn : List Nat) (rest : List (List Nat))
    (h1 : 1 ≤ name.length) (h260 : name.length ≤ 260) (hu : ∀ x ∈ name, x < 65536)
    (hsfn : slotClass sfn = .file ∨ slotClass sfn = .volume ∨ slotClass sfn = .deleted) :
    cleanStarts false (lfnGenerate name chk ++ sfn :: rest) = cleanStarts false rest := by
  obtain ⟨g1, _, g3, _⟩ := generate_complete name chk h1 h260 hu
  exact cleanStarts_run chk _ sfn rest g1 g3 hsfn

/-- a plain short / deleted / label slot keeps a directory in the domain -/
theorem cleanStarts_nonlfn (s : List Nat) (rest : List (List Nat))
    (hs : slotClass s = .file ∨ slotClass s = .volume ∨ slotClass s = .deleted) (p : Bool) :
    cleanStarts p (s :: rest) = cleanStarts false rest := by
  rw [cleanStarts]
  rcases hs with h | h | h <;> simp [h]

example : readDirEntries true true
      (lfnGenerate ((List.range 20).map (· + 0x61)) (lfnChecksum C17.leakName) ++
        [C17.sfnOf C17.leakName, 0xE5 :: List.replicate 31 0, C17.sfnOf C17.longName]) =
    readDirEntries false true
      (lfnGenerate ((List.range 20).map (· + 0x61)) (lfnChecksum C17.leakName) ++
        [C17.sfnOf C17.leakName, 0xE5 :: List.replicate 31 0, C17.sfnOf C17.longName]) :=
  lfnbuf_equiv_read true _ (by decide +kernel)

/-- off the domain the variants differ (F18) -/
theorem lfnbuf_equiv_read_counterexample :
    cleanStarts false C17.f18Witness = false ∧
      readDirEntries true true C17.f18Witness ≠ readDirEntries false true C17.f18Witness := by
  decide +kernel

end FatVerif
