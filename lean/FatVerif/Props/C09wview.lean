import FatVerif.Props.C09
import FatVerif.Proofs.FaultSim11
import FatVerif.Props.C01sim
/-! # C09, continued: the roll-back of `write_entry` never fails on a writable directory

(A separate file from Props/C09.lean because of its imports: the simulation layer and `GeoModel`, whose predicate
`FatVerif.Geo` would shadow `FileSim.Geo` in the files that build on C09/C11.) -/
namespace FatVerif

/-! ## the residual case excluded: directories that are writable on the image (`WView`)

`…_propagates_partial` leave one case open: the fault hit a slot write of `write_entry` and the roll-back
`free_written_entries`, run afterwards, itself ended in an error. On every device on which the directory is writable in
the sense of the simulation layer (`DirSim.WView`, stated of the DISARMED device `d.disarm = { d with failAt := none }`;
the fault schedule of `d` itself is arbitrary) that cannot happen — Proofs/FaultSim1–4:

* `run_disarm`: a run during which the fault does not fire is the run on the disarmed device, so up to the failing call
  the forward-evaluation theorems of the simulation layer apply;
* `writeSlotsKeep_armed`: after `j` complete slot writes the fault fires inside slot `j`: `writeSlotsKeep` returns
  `(some (io k), stream before slot j)` on a device on which the directory is still writable (`FaultOK`);
* `freeWrittenEntries_ok`: on that device `free_written_entries` SUCCEEDS (it asks for the position, then for each of
  the `j` slots seeks to its start and writes `0xE5`), so `write_entry` returns exactly `io k`.

`DirSim.FaultOK V` is the per-kind obligation "a slot write hit by the fault leaves the directory's invariant intact":
PROVED for all three kinds — the fixed root (`faultOK_ofRoot`: size, well-formedness of the page table and geometry
survive every run), the root of FAT32 (`faultOK_ofChain`) and sub-directories (`faultOK_ofSub`): a `File::write` inside
the allocated clusters that is hit by the fault leaves the first FAT copy alone (`fileWrite_fatKept`: the status byte,
then reads, then one device write in the data region — the allocation branch is not taken, as on the disarmed device),
hence the chain of the directory is still in the FAT (Proofs/FaultSim8–10). The fault may hit ANY device call of the operation. Single-component paths; the new
entry fits into the allocated slots (no growth). -/

open DirSim in
/-- **`create_file`, plain `Propagates` on writable directories** (the outcome part of `Propagates` for this device) -/
theorem createFile_propagates_wview {d : Dev} {st : DirStream} (V : WView d.disarm st) (hd : d.fault = none)
    (hOK : FaultOK V) (env : Env) (path name : String) (hsp : Names.splitPath path = (name, none))
    (ha : d.fs.lfnAlloc = true)
    (hfit : ∀ a, DirAlias.checkForExistenceL env.upper (V.slots d.img) name (some false) 70000 = .ok (.alias a) →
      DirSlots.findFree (V.slots d.img) (Lfn.numParts (Names.encodeUtf16 name.toList).length + 1) +
        (Lfn.numParts (Names.encodeUtf16 name.toList).length + 1) ≤ V.N) (fuel : Nat) :
    ∀ r d', run (createFile env (fuel + 1) st path) d = (r, d') → FaultOutcome (resErr r) d' :=
  fun _ _ hr => V.createFile_fo hd hOK env path name hsp ha hfit fuel hr

open DirSim in
/-- **`rename` (both paths single components), plain `Propagates`**: source readable (`V1`), destination writable
    (`V2`); a directory to be moved comes with the climb from the destination to the root (`Climbs`) -/
theorem rename_propagates_wview {d : Dev} {st1 st2 : DirStream} (V1 : DirView d.disarm st1) (V2 : WView d.disarm st2)
    (hd : d.fault = none) (hOK : FaultOK V2) (env : Env) (srcPath dstPath srcName dstName : String)
    (hs1 : Names.splitPath srcPath = (srcName, none)) (hs2 : Names.splitPath dstPath = (dstName, none))
    (ha : d.fs.lfnAlloc = true)
    (hclimb : ∀ e, V1.lookup env srcName none = .ok e → e.isDir = true →
      ∃ n, Climbs d.disarm env (e.firstCluster d.fs) st2 0 n ∧ n < d.fs.totalClusters + 3)
    (hfit : ∀ a, DirAlias.checkForExistenceL env.upper (V2.slots d.img) dstName none 70000 = .ok (.alias a) →
      DirSlots.findFree (V2.slots d.img) (Lfn.numParts (Names.encodeUtf16 dstName.toList).length + 1) +
        (Lfn.numParts (Names.encodeUtf16 dstName.toList).length + 1) ≤ V2.N) (fuel : Nat) :
    ∀ r d', run (rename env (fuel + 1) st1 srcPath st2 dstPath) d = (r, d') → FaultOutcome (resErr r) d' := by
  intro r d' hr
  unfold rename at hr
  refine faultOutcome_bind' (ioSafe_propagates IoSafe.progGetFs) hd hr (fun fs d0 h0 _ r1 d1 hr1 => ?_)
  have hd0 : d0 = d := by
    have := FileSim.run_getFs d
    rw [this] at h0
    exact (congrArg Prod.snd h0).symm
  rw [hd0, hs1] at hr1
  simp only [hs2] at hr1
  exact WView.renameInternal_fo V1 V2 hd hOK env srcName dstName ha hclimb hfit hr1

open DirSim in
/-- the fixed root directory: `create_file(name)` propagates a storage error on EVERY device (any fault schedule) whose
    root region is readable and whose image is well formed -/
theorem createFile_propagates_root {d : Dev} {N : Nat} (h : RootReadable d.disarm N) (hwf : d.img.WF)
    (hB : 0x42 ≤ (rootSliceOf d.fs).beginOff) (hd : d.fault = none) (env : Env) (path name : String)
    (hsp : Names.splitPath path = (name, none)) (ha : d.fs.lfnAlloc = true)
    (hfit : ∀ a, DirAlias.checkForExistenceL env.upper (rootDirSlots d.fs d.img) name (some false) 70000 = .ok (.alias a) →
      DirSlots.findFree (rootDirSlots d.fs d.img) (Lfn.numParts (Names.encodeUtf16 name.toList).length + 1) +
        (Lfn.numParts (Names.encodeUtf16 name.toList).length + 1) ≤ N) (fuel : Nat) :
    ∀ r d', run (createFile env (fuel + 1) (rootAt d.fs 0) path) d = (r, d') → FaultOutcome (resErr r) d' := by
  have hsl : srcSlots d.img (fun o => (rootSliceOf d.fs).beginOff + o) N = rootDirSlots d.fs d.img :=
    srcSlots_root (d := d.disarm) h
  exact createFile_propagates_wview
    (WView.ofRoot (rootSliceOf d.fs) N h.slots rfl rfl hB d.disarm h.noFault h.inside hwf h.fuel) hd
    (faultOK_ofRoot _ _ _ _ _ _ _ _ _ _ _) env path name hsp ha
    (fun a hc => by
      have hc' : DirAlias.checkForExistenceL env.upper (rootDirSlots d.fs d.img) name (some false) 70000 = .ok (.alias a) := by
        rw [← hsl]; exact hc
      have := hfit a hc'
      rw [← hsl] at this
      exact this) fuel

/-! ### non-vacuity: `create_file("New file.txt")` on the root of `Ex4` with the fault scheduled at ANY call `k` -/

open DirSim in
/-- the hypotheses of `createFile_propagates_root` hold of `Ex4.dev` armed with a fault at call `k`, for every `k` -/
example (k : Nat) : ∀ r d', run (createFile DirSim.Ex3.env 1 (rootAt Ex4.dev.fs 0) "New file.txt")
      { Ex4.dev with failAt := some k } = (r, d') → FaultOutcome (resErr r) d' :=
  createFile_propagates_root (d := { Ex4.dev with failAt := some k }) (N := 16)
    ⟨rfl, Ex4.readable.inside, Ex4.readable.slots, Ex4.readable.fuel⟩
    Ex4.wf (show 0x42 ≤ (rootSliceOf Ex4.dev.fs).beginOff by decide) rfl Ex3.env "New file.txt" "New file.txt" (by decide +kernel) rfl
    (fun a _ => by
      have : DirSlots.findFree (rootDirSlots Ex4.dev.fs Ex4.dev.img)
          (Lfn.numParts (Names.encodeUtf16 "New file.txt".toList).length + 1) +
          (Lfn.numParts (Names.encodeUtf16 "New file.txt".toList).length + 1) ≤ 16 := by decide +kernel
      exact this) 0

open DirSim in
/-- … and the run evaluated for `k = 340` (the fault hits a later `write` of the SHORT slot, after the long-name slot
    was written): the result is `io 340`; the long-name slot (slot 3) carries the deleted mark `0xE5` — the roll-back ran
    and succeeded. (In the MODEL the partially written short slot, slot 4, keeps its new first bytes: `writeSlotsKeep`
    hands the roll-back the stream as it was BEFORE the failing slot, whereas in Rust the stream has advanced into that
    slot and `free_written_entries` marks it too.) -/
example :
    let d' := (run (createFile Ex3.env 1 (rootAt Ex4.dev.fs 0) "New file.txt") { Ex4.dev with failAt := some 340 })
    resErr d'.1 = some (.io 340) ∧ ((rootDirSlots d'.2.fs d'.2.img).getD 3 []).getD 0 0 = 0xE5 ∧
      ((rootDirSlots d'.2.fs d'.2.img).getD 4 []).take 2 = [78, 69] := by
  decide +kernel

/-! ## `create_dir`

`create_dir` writes three entries with `write_entry` (one in the parent, `.` and `..` in the new directory) and gives the
new cluster back when the first cannot be written. On writable directories the roll-back of `write_entry` never fails
(for `.` and `..` nothing has to be rolled back: one slot; only `seek(Current(0))` runs, which does not touch the device
for a cluster-chain handle), so of `ApiX = RollbackErr ∨ EntryRollbackX` only `RollbackErr` remains: the error of
`free_cluster_chain(cluster)` run after the fault. For the FIXED ROOT as parent that case is excluded too
(`createDir_propagates_root_plain`): EVERY run of `write_entry` on the root — also one hit by the fault — appends only
records inside the root region or on the status byte (`writeEntry_root_gs`, the descent of SliceModel5 for the record
class `RootC`), so the FAT entry of the new cluster still ends a chain and `free_cluster_chain` succeeds
(`run_freeClusterChain_ok`, no hypothesis on the FS-info cache). For cluster-chain parents it is excluded by a different
argument at the end of this file (`createDir_propagates_wview_plain`, `createDir_propagates_chain_plain`). -/

open DirSim FileSim Fat in
/-- **`create_dir`, `Propagates` up to `RollbackErr` only** on writable directories (hypotheses of `WView.createDir_sim`,
    stated of the device without its fault schedule, plus `FaultOK`) -/
theorem createDir_propagates_wview {d : Dev} {st : DirStream} (V : WView d.disarm st) (hd : d.fault = none)
    (hOK : FaultOK V) (env : Env) (path name : String)
    (hsp : Names.splitPath path = (name, none)) (hdot : (name = "." || name = "..") = false)
    (hval : Names.validateLongName name = .ok ()) (hla : d.fs.lfnAlloc = true)
    (hgeo : FileSim.Geo d.fs d.img.size) (hinfo : InfoOk d.fs d.img) (hacc : d.fs.accDate = false)
    (hcs32 : d.fs.clusterSize % 32 = 0) (hcs64 : 64 ≤ d.fs.clusterSize) (hu32 : d.fs.clusterSize < 4294967296)
    (hfuelN : d.fs.clusterSize / 32 < dirFuel d.fs) (a : List Nat)
    (hchk : DirAlias.checkForExistenceL env.upper (V.slots d.img) name (some true) 70000 = .ok (.alias a))
    (c : Nat) (hfind : allocFindV (tabView d.fs d.img) d.fs.fsInfo.next d.fs.totalClusters = some c)
    (hfit : DirSlots.findFree (V.slots d.img) (Lfn.numParts (Names.encodeUtf16 name.toList).length + 1) +
      (Lfn.numParts (Names.encodeUtf16 name.toList).length + 1) ≤ V.N)
    (hkeepA : ∀ d1 d2, SameVol d.disarm d1 → d1.clock = d.clock → AllocStep d1 d2 c → V.Inv d2)
    (hslots : ∀ i, i < V.N →
      (fatSliceOf d.fs).beginOff + (fatSliceOf d.fs).mirrors * (fatSliceOf d.fs).size ≤ V.src (32 * i) ∧
      V.src (32 * i) + 32 ≤ d.img.size ∧
      (V.src (32 * i) + 32 ≤ clusterOff d.fs c ∨ clusterOff d.fs c + d.fs.clusterSize ≤ V.src (32 * i)))
    (hextra : ∀ q, V.Extra q →
      (fatSliceOf d.fs).beginOff + (fatSliceOf d.fs).mirrors * (fatSliceOf d.fs).size ≤ q ∧
      ¬ (clusterOff d.fs c ≤ q ∧ q < clusterOff d.fs c + d.fs.clusterSize))
    (fuel : Nat) :
    ∀ r d', run (createDir env (fuel + 1) st path) d = (r, d') → FaultOutcomeX RollbackErr (resErr r) d' :=
  fun _ _ hr => V.createDir_fo hd hOK env path name hsp hdot hval hla hgeo hinfo hacc hcs32 hcs64 hu32 hfuelN a hchk c
    hfind hfit hkeepA hslots hextra fuel hr

open DirSim FileSim Fat in
/-- the fixed root as parent: on EVERY device (any fault schedule) whose root region is readable -/
theorem createDir_propagates_root {d : Dev} {N : Nat} (h : RootReadable d.disarm N) (hwf : d.img.WF)
    (hB : 0x42 ≤ (rootSliceOf d.fs).beginOff) (hd : d.fault = none) (hgeo : FileSim.Geo d.fs d.img.size)
    (hinfo : InfoOk d.fs d.img)
    (hout : (fatSliceOf d.fs).beginOff + (fatSliceOf d.fs).mirrors * (fatSliceOf d.fs).size ≤ (rootSliceOf d.fs).beginOff)
    (hend : (rootSliceOf d.fs).beginOff + (rootSliceOf d.fs).size ≤ d.fs.firstDataSector * d.fs.bps)
    (ha : d.fs.lfnAlloc = true) (hacc : d.fs.accDate = false) (hcs32 : d.fs.clusterSize % 32 = 0)
    (hcs64 : 64 ≤ d.fs.clusterSize) (hu32 : d.fs.clusterSize < 4294967296)
    (hfuelN : d.fs.clusterSize / 32 < dirFuel d.fs) (env : Env) (path name : String)
    (hsp : Names.splitPath path = (name, none)) (hdot : (name = "." || name = "..") = false)
    (hval : Names.validateLongName name = .ok ()) (a : List Nat)
    (hchk : DirAlias.checkForExistenceL env.upper (rootDirSlots d.fs d.img) name (some true) 70000 = .ok (.alias a))
    (c : Nat) (hfind : allocFindV (tabView d.fs d.img) d.fs.fsInfo.next d.fs.totalClusters = some c)
    (hfit : DirSlots.findFree (rootDirSlots d.fs d.img) (Lfn.numParts (Names.encodeUtf16 name.toList).length + 1) +
      (Lfn.numParts (Names.encodeUtf16 name.toList).length + 1) ≤ N) (fuel : Nat) :
    ∀ r d', run (createDir env (fuel + 1) (rootAt d.fs 0) path) d = (r, d') → FaultOutcomeX RollbackErr (resErr r) d' := by
  have hsl : srcSlots d.img (fun o => (rootSliceOf d.fs).beginOff + o) N = rootDirSlots d.fs d.img :=
    srcSlots_root (d := d.disarm) h
  have h0 : RootInv d.fs (rootSliceOf d.fs) N d.disarm := ⟨h.noFault, h.inside, hwf, FsGeomEq.refl _, h.fuel⟩
  have hsz := h.slots
  have hin : (rootSliceOf d.fs).beginOff + (rootSliceOf d.fs).size ≤ d.img.size := h.inside
  exact createDir_propagates_wview
    (WView.ofRoot (rootSliceOf d.fs) N h.slots rfl rfl hB d.disarm h.noFault h.inside hwf h.fuel) hd
    (faultOK_ofRoot _ _ _ _ _ _ _ _ _ _ _) env path name hsp hdot hval ha hgeo hinfo hacc hcs32 hcs64 hu32 hfuelN a
    (by rw [← hsl] at hchk; exact hchk) c hfind (by rw [← hsl] at hfit; exact hfit)
    (fun d1 d2 hv _ hal => h0.of_alloc hv hal)
    (fun i hi => by
      have hi' : i < N := hi
      have hs : (rootSliceOf d.fs).size = 32 * N := hsz
      have := clusterOff_ge d.fs c
      exact ⟨by show _ ≤ _ + 32 * i; omega, by show _ + 32 * i + 32 ≤ _; omega,
        Or.inl (by show _ + 32 * i + 32 ≤ _; omega)⟩)
    (fun q hq => hq.elim) fuel

/-- … hence plain `Propagates` (at this device) under the hypothesis that freeing the new cluster cannot fail once the
    fault has fired -/
theorem faultOutcome_of_rollbackErr {e? : Option Err} {d' : Dev} (h : FaultOutcomeX RollbackErr e? d')
    (hfree : ∀ (c : Nat) (d1 d2 : Dev) (e : Err), d1.failAt = none → d1.fault ≠ none →
      run (freeClusterChain c) d1 ≠ (.error e, d2)) : FaultOutcome e? d' := by
  rcases h with h | ⟨h1, f, h2, h3⟩
  · exact Or.inl h
  · refine Or.inr ⟨h1, f, h2, fun hf => ?_⟩
    rcases h3 hf with h4 | ⟨e, _, c, d1, d2, h5, h6, h7⟩
    · exact h4
    · exact absurd h7 (hfree c d1 d2 e h5 (by rw [h6]; simp))

open DirSim FileSim Fat in
/-- non-vacuity: `create_dir("New dir")` on the root of `Ex4` with the fault scheduled at ANY call `k` -/
example (k : Nat) : ∀ r d', run (createDir Ex3.env 1 (rootAt Ex4.dev.fs 0) "New dir") { Ex4.dev with failAt := some k }
      = (r, d') → FaultOutcomeX RollbackErr (resErr r) d' :=
  createDir_propagates_root (d := { Ex4.dev with failAt := some k }) (N := 16)
    ⟨rfl, Ex4.readable.inside, Ex4.readable.slots, Ex4.readable.fuel⟩ Ex4.wf
    (show 0x42 ≤ (rootSliceOf Ex4.dev.fs).beginOff by decide) rfl Ex4.geo
    ⟨fun n hn => (by cases hn), fun n hn => (by cases hn)⟩
    (show (fatSliceOf Ex4.dev.fs).beginOff + (fatSliceOf Ex4.dev.fs).mirrors * (fatSliceOf Ex4.dev.fs).size ≤
      (rootSliceOf Ex4.dev.fs).beginOff by decide)
    (show (rootSliceOf Ex4.dev.fs).beginOff + (rootSliceOf Ex4.dev.fs).size ≤
      Ex4.dev.fs.firstDataSector * Ex4.dev.fs.bps by decide)
    rfl rfl (show Ex4.dev.fs.clusterSize % 32 = 0 by decide) (show 64 ≤ Ex4.dev.fs.clusterSize by decide)
    (show Ex4.dev.fs.clusterSize < 4294967296 by decide) (show Ex4.dev.fs.clusterSize / 32 < dirFuel Ex4.dev.fs by decide)
    Ex3.env "New dir" "New dir" (by decide +kernel) (by decide) (by decide +kernel)
    [78, 69, 87, 68, 73, 82, 126, 49, 32, 32, 32]
    (show DirAlias.checkForExistenceL Ex3.env.upper (rootDirSlots Ex4.dev.fs Ex4.dev.img) "New dir" (some true) 70000 = _
      by decide +kernel) 2
    (show allocFindV (tabView Ex4.dev.fs Ex4.dev.img) Ex4.dev.fs.fsInfo.next Ex4.dev.fs.totalClusters = some 2
      by decide +kernel)
    (show DirSlots.findFree (rootDirSlots Ex4.dev.fs Ex4.dev.img)
      (Lfn.numParts (Names.encodeUtf16 "New dir".toList).length + 1) +
      (Lfn.numParts (Names.encodeUtf16 "New dir".toList).length + 1) ≤ 16 by decide +kernel) 0

open DirSim FileSim Fat in
/-- **`create_dir` in the fixed root: plain `Propagates`** on every device (any fault schedule) whose root region is
    readable — neither roll-back can fail -/
theorem createDir_propagates_root_plain {d : Dev} {N : Nat} (h : RootReadable d.disarm N) (hwf : d.img.WF)
    (hB : 0x42 ≤ (rootSliceOf d.fs).beginOff) (hd : d.fault = none) (hgeo : FileSim.Geo d.fs d.img.size)
    (hinfo : InfoOk d.fs d.img)
    (hout : (fatSliceOf d.fs).beginOff + (fatSliceOf d.fs).mirrors * (fatSliceOf d.fs).size ≤ (rootSliceOf d.fs).beginOff)
    (hend : (rootSliceOf d.fs).beginOff + (rootSliceOf d.fs).size ≤ d.fs.firstDataSector * d.fs.bps)
    (ha : d.fs.lfnAlloc = true) (hacc : d.fs.accDate = false) (hcs32 : d.fs.clusterSize % 32 = 0)
    (hcs64 : 64 ≤ d.fs.clusterSize) (hu32 : d.fs.clusterSize < 4294967296)
    (hfuelN : d.fs.clusterSize / 32 < dirFuel d.fs) (env : Env) (path name : String)
    (hsp : Names.splitPath path = (name, none)) (hdot : (name = "." || name = "..") = false)
    (hval : Names.validateLongName name = .ok ()) (a : List Nat)
    (hchk : DirAlias.checkForExistenceL env.upper (rootDirSlots d.fs d.img) name (some true) 70000 = .ok (.alias a))
    (c : Nat) (hfind : allocFindV (tabView d.fs d.img) d.fs.fsInfo.next d.fs.totalClusters = some c)
    (hfit : DirSlots.findFree (rootDirSlots d.fs d.img) (Lfn.numParts (Names.encodeUtf16 name.toList).length + 1) +
      (Lfn.numParts (Names.encodeUtf16 name.toList).length + 1) ≤ N) (fuel : Nat) :
    ∀ r d', run (createDir env (fuel + 1) (rootAt d.fs 0) path) d = (r, d') → FaultOutcome (resErr r) d' := by
  intro r d' hr
  have hsl : srcSlots d.img (fun o => (rootSliceOf d.fs).beginOff + o) N = rootDirSlots d.fs d.img :=
    srcSlots_root (d := d.disarm) h
  have h0 : RootInv d.fs (rootSliceOf d.fs) N d.disarm := ⟨h.noFault, h.inside, hwf, FsGeomEq.refl _, h.fuel⟩
  have hsz := h.slots
  have hin : (rootSliceOf d.fs).beginOff + (rootSliceOf d.fs).size ≤ d.img.size := h.inside
  obtain ⟨hc2, hct, _⟩ := allocFindV_some _ _ _ _ hinfo.hint hfind
  refine faultOutcome_of_X ((WView.ofRoot (rootSliceOf d.fs) N h.slots rfl rfl hB d.disarm h.noFault h.inside hwf
      h.fuel).createDir_foX (fun _ _ => False) hd
    (faultOK_ofRoot _ _ _ _ _ _ _ _ _ _ _) env path name hsp hdot hval ha hgeo hinfo hacc hcs32 hcs64 hu32 hfuelN a
    (by rw [← hsl] at hchk; exact hchk) c hfind (by rw [← hsl] at hfit; exact hfit)
    (fun d1 d2 hv _ hal => h0.of_alloc hv hal)
    (fun i hi => by
      have hi' : i < N := hi
      have hs : (rootSliceOf d.fs).size = 32 * N := hsz
      have := clusterOff_ge d.fs c
      exact ⟨by show _ ≤ _ + 32 * i; omega, by show _ + 32 * i + 32 ≤ _; omega,
        Or.inl (by show _ + 32 * i + 32 ≤ _; omega)⟩)
    (fun q hq => hq.elim)
    (fun d2 d3 d4 raw rw f e _ hg2 hsz2 hwf2 htv2 hw hfa3 _ hfree _ _ _ _ =>
      root_free_after_writeEntry d N hsz hin hgeo hout c ⟨hc2, hct⟩ d2 d3 d4 name raw rw e hg2 hsz2 hwf2 htv2 hw hfa3 hfree)
    fuel hr)

open DirSim FileSim Fat in
/-- non-vacuity: for EVERY `k`, `create_dir("New dir")` on the root of `Ex4` armed with a fault at call `k` -/
example (k : Nat) : ∀ r d', run (createDir Ex3.env 1 (rootAt Ex4.dev.fs 0) "New dir") { Ex4.dev with failAt := some k }
      = (r, d') → FaultOutcome (resErr r) d' :=
  createDir_propagates_root_plain (d := { Ex4.dev with failAt := some k }) (N := 16)
    ⟨rfl, Ex4.readable.inside, Ex4.readable.slots, Ex4.readable.fuel⟩ Ex4.wf
    (show 0x42 ≤ (rootSliceOf Ex4.dev.fs).beginOff by decide) rfl Ex4.geo
    ⟨fun n hn => (by cases hn), fun n hn => (by cases hn)⟩
    (show (fatSliceOf Ex4.dev.fs).beginOff + (fatSliceOf Ex4.dev.fs).mirrors * (fatSliceOf Ex4.dev.fs).size ≤
      (rootSliceOf Ex4.dev.fs).beginOff by decide)
    (show (rootSliceOf Ex4.dev.fs).beginOff + (rootSliceOf Ex4.dev.fs).size ≤
      Ex4.dev.fs.firstDataSector * Ex4.dev.fs.bps by decide)
    rfl rfl (show Ex4.dev.fs.clusterSize % 32 = 0 by decide) (show 64 ≤ Ex4.dev.fs.clusterSize by decide)
    (show Ex4.dev.fs.clusterSize < 4294967296 by decide) (show Ex4.dev.fs.clusterSize / 32 < dirFuel Ex4.dev.fs by decide)
    Ex3.env "New dir" "New dir" (by decide +kernel) (by decide) (by decide +kernel)
    [78, 69, 87, 68, 73, 82, 126, 49, 32, 32, 32]
    (show DirAlias.checkForExistenceL Ex3.env.upper (rootDirSlots Ex4.dev.fs Ex4.dev.img) "New dir" (some true) 70000 = _
      by decide +kernel) 2
    (show allocFindV (tabView Ex4.dev.fs Ex4.dev.img) Ex4.dev.fs.fsInfo.next Ex4.dev.fs.totalClusters = some 2
      by decide +kernel)
    (show DirSlots.findFree (rootDirSlots Ex4.dev.fs Ex4.dev.img)
      (Lfn.numParts (Names.encodeUtf16 "New dir".toList).length + 1) +
      (Lfn.numParts (Names.encodeUtf16 "New dir".toList).length + 1) ≤ 16 by decide +kernel) 0

open DirSim in
/-- **`rename` inside the fixed root: plain `Propagates`** on every device (any fault schedule) whose root region is
    readable; `hfc`: a directory to be renamed has a first cluster (otherwise `rename` fails with `InvalidInput` in the
    ancestor walk — not covered here) -/
theorem rename_propagates_root {d : Dev} {N : Nat} (h : RootReadable d.disarm N) (hwf : d.img.WF)
    (hB : 0x42 ≤ (rootSliceOf d.fs).beginOff) (hd : d.fault = none) (env : Env)
    (srcPath dstPath srcName dstName : String)
    (hs1 : Names.splitPath srcPath = (srcName, none)) (hs2 : Names.splitPath dstPath = (dstName, none))
    (ha : d.fs.lfnAlloc = true)
    (hfc : ∀ e, (DirView.ofRoot h).lookup env srcName none = .ok e → e.isDir = true → e.firstCluster d.fs ≠ none)
    (hfit : ∀ a, DirAlias.checkForExistenceL env.upper (rootDirSlots d.fs d.img) dstName none 70000 = .ok (.alias a) →
      DirSlots.findFree (rootDirSlots d.fs d.img) (Lfn.numParts (Names.encodeUtf16 dstName.toList).length + 1) +
        (Lfn.numParts (Names.encodeUtf16 dstName.toList).length + 1) ≤ N) (fuel : Nat) :
    ∀ r d', run (rename env (fuel + 1) (rootAt d.fs 0) srcPath (rootAt d.fs 0) dstPath) d = (r, d') →
      FaultOutcome (resErr r) d' := by
  have hsl : srcSlots d.img (fun o => (rootSliceOf d.fs).beginOff + o) N = rootDirSlots d.fs d.img :=
    srcSlots_root (d := d.disarm) h
  exact rename_propagates_wview (DirView.ofRoot h)
    (WView.ofRoot (rootSliceOf d.fs) N h.slots rfl rfl hB d.disarm h.noFault h.inside hwf h.fuel) hd
    (faultOK_ofRoot _ _ _ _ _ _ _ _ _ _ _) env srcPath dstPath srcName dstName hs1 hs2 ha
    (fun e hl hdir => ⟨0, Climbs.top (DirView.ofRoot h) (by
        have := hfc e hl hdir
        show ((rootAt d.disarm.fs 0).firstCluster == e.firstCluster d.fs) = false
        cases hc : e.firstCluster d.fs with
        | none => exact absurd hc this
        | some c => rfl) rfl, by omega⟩)
    (fun a hc => by
      have hc' : DirAlias.checkForExistenceL env.upper (rootDirSlots d.fs d.img) dstName none 70000 = .ok (.alias a) := by
        rw [← hsl]; exact hc
      have := hfit a hc'
      rw [← hsl] at this
      exact this) fuel

open DirSim in
/-- non-vacuity: for EVERY `k`, `rename("hello.txt", "Moved.txt")` on the root of `Ex4` armed with a fault at call `k` -/
example (k : Nat) : ∀ r d', run (rename Ex3.env 1 (rootAt Ex4.dev.fs 0) "hello.txt" (rootAt Ex4.dev.fs 0) "Moved.txt")
      { Ex4.dev with failAt := some k } = (r, d') → FaultOutcome (resErr r) d' :=
  rename_propagates_root (d := { Ex4.dev with failAt := some k }) (N := 16)
    ⟨rfl, Ex4.readable.inside, Ex4.readable.slots, Ex4.readable.fuel⟩ Ex4.wf
    (show 0x42 ≤ (rootSliceOf Ex4.dev.fs).beginOff by decide) rfl Ex3.env "hello.txt" "Moved.txt" "hello.txt" "Moved.txt"
    (by decide +kernel) (by decide +kernel) rfl
    (fun e hl hdir => by
      have h1 : (DirView.ofRoot Ex4.readable).lookup Ex3.env "hello.txt" none =
          .ok (toDirEntryS (DirView.ofRoot Ex4.readable).src Ex4.hello) := by decide +kernel
      have hl' : (DirView.ofRoot Ex4.readable).lookup Ex3.env "hello.txt" none = .ok e := hl
      rw [h1] at hl'
      injection hl' with h2
      subst h2
      have : (toDirEntryS (DirView.ofRoot Ex4.readable).src Ex4.hello).isDir = false := by decide +kernel
      rw [this] at hdir; cases hdir)
    (fun a _ => by
      have : DirSlots.findFree (rootDirSlots Ex4.dev.fs Ex4.dev.img)
          (Lfn.numParts (Names.encodeUtf16 "Moved.txt".toList).length + 1) +
          (Lfn.numParts (Names.encodeUtf16 "Moved.txt".toList).length + 1) ≤ 16 := by decide +kernel
      exact this) 0

/-! ## cluster-chain directories -/

open DirSim FileSim in
/-- **`create_file` in a cluster-chain directory without an entry (the root of FAT32): plain `Propagates`** on every
    device (any fault schedule) on which the directory is readable; the entry fits into the allocated clusters -/
theorem createFile_propagates_chain {d : Dev} {c0 : Nat} {chain : List Nat} (h : ChainReadable d.disarm c0 none chain)
    (hwf : d.img.WF) (hd : d.fault = none) (env : Env) (path name : String)
    (hsp : Names.splitPath path = (name, none)) (ha : d.fs.lfnAlloc = true)
    (hfit : ∀ a, DirAlias.checkForExistenceL env.upper (chainSlots d.fs d.img chain) name (some false) 70000 = .ok (.alias a) →
      DirSlots.findFree (chainSlots d.fs d.img chain) (Lfn.numParts (Names.encodeUtf16 name.toList).length + 1) +
        (Lfn.numParts (Names.encodeUtf16 name.toList).length + 1) ≤ chain.length * (d.fs.clusterSize / 32)) (fuel : Nat) :
    ∀ r d', run (createFile env (fuel + 1) (.file (FileH.new (some c0) none)) path) d = (r, d') →
      FaultOutcome (resErr r) d' := by
  have hsl : srcSlots d.img (chainSrc d.fs chain) (chain.length * (d.fs.clusterSize / 32)) = chainSlots d.fs d.img chain :=
    h.slots_eq
  exact createFile_propagates_wview (WView.ofChain d.disarm c0 chain h.dir hwf h.fuel) hd
    (faultOK_ofChain _ _ _ _ _ _) env path name hsp ha
    (fun a hc => by
      have hc' : DirAlias.checkForExistenceL env.upper (chainSlots d.fs d.img chain) name (some false) 70000 =
          .ok (.alias a) := by rw [← hsl]; exact hc
      have := hfit a hc'
      rw [← hsl] at this
      exact this) fuel

open DirSim in
/-- non-vacuity: for EVERY `k`, `create_file("N")` in the two-cluster directory of `Ex5` armed with a fault at call `k` -/
example (k : Nat) : ∀ r d', run (createFile Ex3.env 1 (.file (FileH.new (some 2) none)) "N")
      { Ex5.dev with failAt := some k } = (r, d') → FaultOutcome (resErr r) d' :=
  createFile_propagates_chain (d := { Ex5.dev with failAt := some k }) (c0 := 2) (chain := [2, 3])
    ⟨Ex5.readable.dir, Ex5.readable.fuel⟩ Ex5.wf rfl Ex3.env "N" "N" (by decide +kernel) rfl
    (fun a _ => by
      have : DirSlots.findFree (chainSlots Ex5.dev.fs Ex5.dev.img [2, 3])
          (Lfn.numParts (Names.encodeUtf16 "N".toList).length + 1) +
          (Lfn.numParts (Names.encodeUtf16 "N".toList).length + 1) ≤ [2, 3].length * (Ex5.dev.fs.clusterSize / 32) := by
        decide +kernel
      exact this) 0

open DirSim in
/-- non-vacuity for a SUB-DIRECTORY: for EVERY `k`, `create_file("H")` in the directory `A` of `Ex8` armed with a fault at
    call `k` (`Ex8.VA` with `faultOK_ofSub`) -/
example (k : Nat) : ∀ r d', run (createFile Ex3.env 1 (.file (FileH.new (some 2) (some Ex8.edA))) "H")
      { Ex8.dev with failAt := some k } = (r, d') → FaultOutcome (resErr r) d' :=
  createFile_propagates_wview (d := { Ex8.dev with failAt := some k }) Ex8.VA rfl
    (faultOK_ofSub _ _ _ _ _ _ _ _ _ _ _) Ex3.env "H" "H" (by decide +kernel) rfl
    (fun a _ => by
      have : DirSlots.findFree (Ex8.VA.slots Ex8.dev.img) (Lfn.numParts (Names.encodeUtf16 "H".toList).length + 1) +
          (Lfn.numParts (Names.encodeUtf16 "H".toList).length + 1) ≤ Ex8.VA.N := by decide +kernel
      exact this) 0

/-! ## `create_dir` with a cluster-chain parent: plain `Propagates`

The remaining tolerated outcome of `createDir_propagates_wview` — an error of the roll-back `free_cluster_chain(cluster)`
after a failed `write_entry` in the parent — cannot happen either when the parent is a cluster-chain directory
(Proofs/FaultSim11): a `write_entry` hit by the fault outside destructors ends on a device on which the directory is
still writable AND whose decoded FAT is the one before the call (`WView.writeEntry_keepsTv`: `find_free_entries` and the
position query are read-only on the clean handle, a faulted slot write keeps the first FAT copy, the roll-back writes
into the slots, the destructor of the clone at most rewrites the directory's own entry), so the freshly allocated
cluster is still an end-of-chain there and freeing it succeeds. `DirSim.TvKeep V fs` is the per-kind obligation, PROVED
for the root of FAT32 (`tvKeep_ofChain`) and for sub-directories (`tvKeep_ofSub`). -/

open DirSim FileSim Fat in
/-- **`create_dir`, plain `Propagates` on writable directories whose writes keep the FAT** -/
theorem createDir_propagates_wview_plain {d : Dev} {st : DirStream} (V : WView d.disarm st) (hd : d.fault = none)
    (hOK : FaultOK V) (K : TvKeep V d.fs) (env : Env) (path name : String)
    (hsp : Names.splitPath path = (name, none)) (hdot : (name = "." || name = "..") = false)
    (hval : Names.validateLongName name = .ok ()) (hla : d.fs.lfnAlloc = true)
    (hgeo : FileSim.Geo d.fs d.img.size) (hinfo : InfoOk d.fs d.img) (hacc : d.fs.accDate = false)
    (hcs32 : d.fs.clusterSize % 32 = 0) (hcs64 : 64 ≤ d.fs.clusterSize) (hu32 : d.fs.clusterSize < 4294967296)
    (hfuelN : d.fs.clusterSize / 32 < dirFuel d.fs) (a : List Nat)
    (hchk : DirAlias.checkForExistenceL env.upper (V.slots d.img) name (some true) 70000 = .ok (.alias a))
    (c : Nat) (hfind : allocFindV (tabView d.fs d.img) d.fs.fsInfo.next d.fs.totalClusters = some c)
    (hfit : DirSlots.findFree (V.slots d.img) (Lfn.numParts (Names.encodeUtf16 name.toList).length + 1) +
      (Lfn.numParts (Names.encodeUtf16 name.toList).length + 1) ≤ V.N)
    (hkeepA : ∀ d1 d2, SameVol d.disarm d1 → d1.clock = d.clock → AllocStep d1 d2 c → V.Inv d2)
    (hslots : ∀ i, i < V.N →
      (fatSliceOf d.fs).beginOff + (fatSliceOf d.fs).mirrors * (fatSliceOf d.fs).size ≤ V.src (32 * i) ∧
      V.src (32 * i) + 32 ≤ d.img.size ∧
      (V.src (32 * i) + 32 ≤ clusterOff d.fs c ∨ clusterOff d.fs c + d.fs.clusterSize ≤ V.src (32 * i)))
    (hextra : ∀ q, V.Extra q →
      (fatSliceOf d.fs).beginOff + (fatSliceOf d.fs).mirrors * (fatSliceOf d.fs).size ≤ q ∧
      ¬ (clusterOff d.fs c ≤ q ∧ q < clusterOff d.fs c + d.fs.clusterSize))
    (fuel : Nat) :
    ∀ r d', run (createDir env (fuel + 1) st path) d = (r, d') → FaultOutcome (resErr r) d' :=
  fun _ _ hr => V.createDir_fo_tv hd hOK K env path name hsp hdot hval hla hgeo hinfo hacc hcs32 hcs64 hu32 hfuelN a hchk c
    hfind hfit hkeepA hslots hextra fuel hr

open DirSim FileSim Fat in
/-- **`create_dir` in a cluster-chain directory without an entry (the root of FAT32): plain `Propagates`** on every
    device (any fault schedule) on which the directory is readable; the entry fits into the allocated clusters
    (`hlastv`: the last cluster of the chain is not marked free, as in `createDir_chain_sim`) -/
theorem createDir_propagates_chain_plain {d : Dev} {c0 : Nat} {chain : List Nat}
    (h : ChainReadable d.disarm c0 none chain) (hwf : d.img.WF) (hd : d.fault = none) (hinfo : InfoOk d.fs d.img)
    (ha : d.fs.lfnAlloc = true) (hacc : d.fs.accDate = false)
    (hcs64 : 64 ≤ d.fs.clusterSize) (hu32 : d.fs.clusterSize < 4294967296)
    (hfuelN : d.fs.clusterSize / 32 < dirFuel d.fs) (env : Env) (path name : String)
    (hsp : Names.splitPath path = (name, none)) (hdot : (name = "." || name = "..") = false)
    (hval : Names.validateLongName name = .ok ()) (a : List Nat)
    (hchk : DirAlias.checkForExistenceL env.upper (chainSlots d.fs d.img chain) name (some true) 70000 = .ok (.alias a))
    (c : Nat) (hfind : allocFindV (tabView d.fs d.img) d.fs.fsInfo.next d.fs.totalClusters = some c)
    (hlastv : ∀ l, chain.getLast? = some l → tabView d.fs d.img l ≠ .free)
    (hfit : DirSlots.findFree (chainSlots d.fs d.img chain) (Lfn.numParts (Names.encodeUtf16 name.toList).length + 1) +
      (Lfn.numParts (Names.encodeUtf16 name.toList).length + 1) ≤ chain.length * (d.fs.clusterSize / 32)) (fuel : Nat) :
    ∀ r d', run (createDir env (fuel + 1) (.file (FileH.new (some c0) none)) path) d = (r, d') →
      FaultOutcome (resErr r) d' := by
  have hgeo : FileSim.Geo d.fs d.img.size := h.dir.geo
  obtain ⟨hc2, hct, hcf⟩ := allocFindV_some _ _ _ _ hinfo.hint hfind
  have hcnot : c ∉ chain := free_not_in_chain h.dir.link hcf hlastv
  have hsl : srcSlots d.img (chainSrc d.fs chain) (chain.length * (d.fs.clusterSize / 32)) = chainSlots d.fs d.img chain :=
    h.slots_eq
  have hinv0 := h.inv hwf
  exact createDir_propagates_wview_plain (WView.ofChain d.disarm c0 chain h.dir hwf h.fuel) hd
    (faultOK_ofChain _ _ _ _ _ _) (tvKeep_ofChain d.disarm c0 chain h.dir hwf h.fuel hacc) env path name hsp hdot hval ha
    hgeo hinfo hacc h.dir.cs32 hcs64 hu32 hfuelN a (by rw [← hsl] at hchk; exact hchk) c hfind
    (by rw [← hsl] at hfit; exact hfit)
    (fun d1 d2 hv _ hal => hinv0.of_alloc hv hal hcnot)
    (fun i hi => by
      obtain ⟨x, hx, h1, h2⟩ := h.dir.core.slot_in_cluster i hi
      have h1' : clusterOff d.fs x ≤ chainSrc d.fs chain (32 * i) := h1
      have h2' : chainSrc d.fs chain (32 * i) + 32 ≤ clusterOff d.fs x + d.fs.clusterSize := h2
      have hxt : 2 ≤ x ∧ x < d.fs.totalClusters + 2 := h.dir.inTab x hx
      have h3 := hgeo.fat_data
      have h4 := clusterOff_ge d.fs x
      have h5 := (clusterOff_end hgeo hxt.1 hxt.2).2
      have hxc : x ≠ c := fun e => hcnot (e ▸ hx)
      have h6 := cluster_ranges_disjoint d.fs hxt.1 hc2 hxc
      exact ⟨by show _ ≤ chainSrc d.fs chain (32 * i); omega, by show chainSrc d.fs chain (32 * i) + 32 ≤ _; omega,
        by show chainSrc d.fs chain (32 * i) + 32 ≤ _ ∨ _ ≤ chainSrc d.fs chain (32 * i); omega⟩)
    (fun q hq => hq.elim) fuel

open DirSim FileSim Fat in
/-- non-vacuity: for EVERY `k`, `create_dir("N")` in the two-cluster directory of `Ex5` armed with a fault at call `k` -/
example (k : Nat) : ∀ r d', run (createDir Ex3.env 1 (.file (FileH.new (some 2) none)) "N")
      { Ex5.dev with failAt := some k } = (r, d') → FaultOutcome (resErr r) d' := by
  have h3 : FileSim.tabView Ex5.dev.fs Ex5.dev.img 3 = .eoc := by decide +kernel
  exact createDir_propagates_chain_plain (d := { Ex5.dev with failAt := some k }) (c0 := 2) (chain := [2, 3])
    ⟨Ex5.readable.dir, Ex5.readable.fuel⟩ Ex5.wf rfl ⟨fun n hn => (by cases hn), fun n hn => (by cases hn)⟩ rfl rfl
    (show 64 ≤ Ex5.dev.fs.clusterSize by decide) (show Ex5.dev.fs.clusterSize < 4294967296 by decide)
    (show Ex5.dev.fs.clusterSize / 32 < dirFuel Ex5.dev.fs by decide) Ex3.env "N" "N" (by decide +kernel) (by decide)
    (by decide +kernel)
    [78, 32, 32, 32, 32, 32, 32, 32, 32, 32, 32]
    (show DirAlias.checkForExistenceL Ex3.env.upper (DirSim.chainSlots Ex5.dev.fs Ex5.dev.img [2, 3]) "N" (some true) 70000 = _
      by decide +kernel) 4
    (show allocFindV (tabView Ex5.dev.fs Ex5.dev.img) Ex5.dev.fs.fsInfo.next Ex5.dev.fs.totalClusters = some 4
      by decide +kernel)
    (fun l hl => by
      have : l = 3 := by simpa using hl.symm
      rw [this]; show FileSim.tabView Ex5.dev.fs Ex5.dev.img 3 ≠ _; rw [h3]; exact fun h => by cases h)
    (show DirSlots.findFree (DirSim.chainSlots Ex5.dev.fs Ex5.dev.img [2, 3])
      (Lfn.numParts (Names.encodeUtf16 "N".toList).length + 1) +
      (Lfn.numParts (Names.encodeUtf16 "N".toList).length + 1) ≤ [2, 3].length * (Ex5.dev.fs.clusterSize / 32)
      by decide +kernel) 0

open DirSim FileSim Fat in
/-- non-vacuity for a SUB-DIRECTORY as parent: for EVERY `k`, `create_dir("N")` in the directory `A` of `Ex8` armed with
    a fault at call `k` (`Ex8.VA` with `faultOK_ofSub`, `tvKeep_ofSub`) -/
example (k : Nat) : ∀ r d', run (createDir Ex3.env 1 (.file (FileH.new (some 2) (some Ex8.edA))) "N")
      { Ex8.dev with failAt := some k } = (r, d') → FaultOutcome (resErr r) d' := by
  have hhere : SubInv Ex8.dev.fs Ex8.edA 2 [2] Ex8.dev.clock Ex8.dev := Ex8.VA.here
  have hfe : (fatSliceOf Ex8.dev.fs).beginOff + (fatSliceOf Ex8.dev.fs).mirrors * (fatSliceOf Ex8.dev.fs).size = 1024 := by
    decide
  have hcs : Ex8.dev.fs.clusterSize = 512 := by decide
  have hsz : Ex8.dev.img.size = 4096 := by decide
  exact createDir_propagates_wview_plain (d := { Ex8.dev with failAt := some k }) Ex8.VA rfl
    (faultOK_ofSub _ _ _ _ _ _ _ _ _ _ _) (tvKeep_ofSub _ _ _ _ _ _ _ _ _ _ _) Ex3.env "N" "N" (by decide +kernel)
    (by decide) (by decide +kernel) rfl Ex8.geo ⟨fun n hn => (by cases hn), fun n hn => (by cases hn)⟩ rfl
    (show Ex8.dev.fs.clusterSize % 32 = 0 by decide) (show 64 ≤ Ex8.dev.fs.clusterSize by decide)
    (show Ex8.dev.fs.clusterSize < 4294967296 by decide) (show Ex8.dev.fs.clusterSize / 32 < dirFuel Ex8.dev.fs by decide)
    [78, 32, 32, 32, 32, 32, 32, 32, 32, 32, 32]
    (show DirAlias.checkForExistenceL Ex3.env.upper (Ex8.VA.slots Ex8.dev.img) "N" (some true) 70000 = _ by decide +kernel) 5
    (show allocFindV (tabView Ex8.dev.fs Ex8.dev.img) Ex8.dev.fs.fsInfo.next Ex8.dev.fs.totalClusters = some 5
      by decide +kernel)
    (show DirSlots.findFree (Ex8.VA.slots Ex8.dev.img) (Lfn.numParts (Names.encodeUtf16 "N".toList).length + 1) +
      (Lfn.numParts (Names.encodeUtf16 "N".toList).length + 1) ≤ Ex8.VA.N by decide +kernel)
    (fun d1 d2 hv hc hal => SubInv.of_alloc hhere hv hc hal (by decide))
    (fun i hi => by
      have hi' : i < 16 := hi
      have e : Ex8.VA.src (32 * i) = chainSrc Ex8.dev.fs [2] (32 * i) := rfl
      rw [e, Ex8.src 2 i hi', Ex8.off]
      show _ ≤ _ ∧ _ ≤ Ex8.dev.img.size ∧ (_ ≤ clusterOff Ex8.dev.fs 5 ∨ clusterOff Ex8.dev.fs 5 + Ex8.dev.fs.clusterSize ≤ _)
      rw [Ex8.off, hfe, hcs, hsz]
      omega)
    (fun q hq => by
      have hq' : subExtra Ex8.edA q := hq
      unfold subExtra at hq'
      have : Ex8.edA.pos = 1024 := rfl
      show _ ≤ q ∧ ¬ (clusterOff Ex8.dev.fs 5 ≤ q ∧ q < clusterOff Ex8.dev.fs 5 + Ex8.dev.fs.clusterSize)
      rw [Ex8.off, hfe, hcs]
      omega) 0

end FatVerif
