import FatVerif.Proofs.DecodeAgree1
import FatVerif.Proofs.DecodeAgree2
import FatVerif.Spec.FatSpec
/-!
# C04 — what the session observes = what an independent decoder reads from the image

Composition of
* C01sim (agent-effects): `run (listDir …)` on a fault-free device = the pure reader `DirSlots.listing` on the 32-byte
  records of the directory read from the IMAGE (`rootDirSlots` / `chainSlots`), mapped to the library's `DirEntry`;
* C17 `dirIter_spec`: the pure reader = the independent backward-scanning specification parser `DirSpec.specEntries`;
* C18 `shortName_spec`, `lowercaseName_spec` and the field layout of `DirEntryData::deserialize`: the accessors of a
  `DirEntry` = the specification's reading of the 32 bytes (`DirSpec.rowOf`);
* C02sim `read_sim` (agent-cursor): one `File::read` = the cursor machine's step on `absFile`;
* C03img / `view_spec` (agent-fat): the table the programs follow = `FatSpec.specValue` of the FAT bytes of the image.

Fields covered by (a) — `DirSpec.Row`: long name (UTF-16 units, `None` when there is no valid run), displayed short name,
short name under the NT case flags (the fallback of `file_name()`), `is_dir`, attribute bits, size, first cluster
(FAT32 high word included), created / accessed / modified (decoded), and the entry's slot range.  `file_name()` itself is
a function of the row (`fileName_of_row`).  Not covered: `entry_pos` (a device offset, no specification counterpart).
-/
namespace FatVerif
open DirSim FileSim DecodeAgree

/-! ## (a) listings -/

/-- **C04 (a), fixed root.**  On a fault-free device whose root region is readable (`RootReadable`), with the default
    heap long-name buffer, `Dir::iter()` on the root directory returns entries whose observable rows are EXACTLY the rows
    the independent specification parser `DirSpec.specRows` computes from the slots of the root region of the image;
    image, log, mounted state untouched. -/
theorem list_equals_decode_root {d : Dev} {N : Nat} (h : RootReadable d N) (ha : d.fs.lfnAlloc = true) :
    ∃ L d', run (listDir (rootAt d.fs 0)) d = (.ok L, d') ∧
      L.map (libRow d.fs.fatType) = DirSpec.specRows (d.fs.fatType == .fat32) (rootDirSlots d.fs d.img) ∧
      d'.img = d.img ∧ d'.log = d.log ∧ d'.fs = d.fs ∧ d'.failAt = none := by
  obtain ⟨d', hr, h1, h2, h3, h4⟩ := listDir_root_listing h ha
  refine ⟨_, d', hr, ?_, h1, h2, h3, h4⟩
  exact rows_agree_root _ _ _ (fun s hs => by rw [rootDirSlots_len32 _ _ s hs]; omega)

/-- **C04 (a), cluster-chain directories** (sub-directories, the FAT32 root): the same for the slots of the clusters of
    the directory's chain, in chain order (the log gains `flush` records only: the iterator's clone is dropped). -/
theorem list_equals_decode_chain {d : Dev} {c0 : Nat} {ent : Option DirEntryEditor} {chain : List Nat}
    (h : ChainReadable d c0 ent chain) (ha : d.fs.lfnAlloc = true) :
    ∃ L d', run (listDir (.file (FileH.new (some c0) ent))) d = (.ok L, d') ∧
      L.map (libRow d.fs.fatType) = DirSpec.specRows (d.fs.fatType == .fat32) (chainSlots d.fs d.img chain) ∧
      d'.img = d.img ∧ d'.writesOf = d.writesOf ∧ d'.fs = d.fs ∧ d'.failAt = none := by
  obtain ⟨d', hr, h1, h2, h3, h4⟩ := listDir_chain_listing h ha
  refine ⟨_, d', hr, ?_, h1, h2, h3, h4⟩
  exact rows_agree _ _ _ (fun s hs => by rw [chainSlots_len32 _ _ _ s hs]; omega)

/-- the chain of such a directory IS the chain the specification's FAT decoder walks from its first cluster -/
theorem chainReadable_specChain {d : Dev} {c0 : Nat} {ent : Option DirEntryEditor} {chain : List Nat}
    (h : ChainReadable d c0 ent chain) (hnd : chain.Nodup) : specChainOf d.fs d.img c0 = some chain := by
  unfold specChainOf
  exact specChain_of_chain _ _ _ (tabView d.fs d.img) (fun c hc => tabView_spec h.dir.geo d.img c hc) c0 chain
    h.dir.link h.dir.inTab _ (nodup_length_le hnd (fun c hc => (h.dir.inTab c hc).2))

/-- the example of C01sim: two rows, the first with the long name "Hello.txt" (units), both with their decoded fields -/
example : DirSpec.specRows false (rootDirSlots Ex.dev.fs Ex.dev.img) =
    [ { longName := some (Names.encodeUtf16 "Hello.txt".toList), shortName := "HELLO.TXT".toList.map Char.toNat,
        shortNameNT := "HELLO.TXT".toList.map Char.toNat, isDir := false, attrs := 0x20, size := 0,
        firstCluster := none, created := ((1980, 0, 0), (0, 0, 0, 0)), accessed := (1980, 0, 0),
        modified := ((1980, 0, 0), (0, 0, 0, 0)), beginIdx := 0, endIdx := 2 },
      { longName := none, shortName := [66], shortNameNT := [66], isDir := true, attrs := 0x10, size := 0,
        firstCluster := none, created := ((1980, 0, 0), (0, 0, 0, 0)), accessed := (1980, 0, 0),
        modified := ((1980, 0, 0), (0, 0, 0, 0)), beginIdx := 2, endIdx := 3 } ] := by
  decide +kernel

/-! ## (b) file contents -/

/-- **C04 (b).**  For a represented file handle at offset 0 (`FileRep`: what `open_file`/`to_file` build from a slot —
    first cluster and size from the 32-byte record), on a fault-free device with layout `Geo`: `readall` (`read(4096)`
    until it returns nothing) returns exactly `specContent`: the clusters of the chain that the SPECIFICATION's FAT
    decoder (`FatSpec.specChain` on the FAT bytes of the image, `FatSpec.specValue` entry by entry) walks from the
    first cluster, concatenated and cut at the recorded size; image, log and mounted state untouched. -/
theorem read_equals_decode (f : FileH) (d : Dev) (hfa : d.failAt = none) (hg : Geo d.fs d.img.size)
    (hrep : FileRep d.fs d.img f) (h0 : f.offset = 0) (fuel : Nat) (hfuel : f.size?.getD 0 < fuel) :
    ∃ f' d', run (Session.readAllLoop fuel f []) d =
        (.ok (specContent d.fs d.img f.firstCluster (f.size?.getD 0), f'), d') ∧
      d'.img = d.img ∧ d'.log = d.log ∧ d'.fs = d.fs ∧ FileRep d.fs d.img f' := by
  obtain ⟨f', d', hr, hs, hrep'⟩ := readAll_specContent f d hfa hg hrep h0 fuel hfuel
  exact ⟨f', d', hr, hs.img, hs.log, hs.fs, hrep'⟩

/-- … for the handle `to_file` builds from a listed FILE entry: first cluster and size are those of the
    specification's row of that entry -/
theorem read_listed_equals_decode (e : DirSpec.SpecEntry) (src : Nat → Nat) (d : Dev) (hlen : 11 ≤ e.sfn.length)
    (hfile : (DirSpec.rowOf (d.fs.fatType == .fat32) e).isDir = false)
    (hfa : d.failAt = none) (hg : Geo d.fs d.img.size)
    (hrep : FileRep d.fs d.img
      (FileH.new ((toDirEntryS src ⟨e.sfn, e.name.getD [], e.beginIdx, e.endIdx⟩).firstCluster d.fs)
        (some (toDirEntryS src ⟨e.sfn, e.name.getD [], e.beginIdx, e.endIdx⟩).editor)))
    (fuel : Nat) (hfuel : (DirSpec.rowOf (d.fs.fatType == .fat32) e).size < fuel) :
    ∃ f' d', run (Session.readAllLoop fuel
        (FileH.new ((toDirEntryS src ⟨e.sfn, e.name.getD [], e.beginIdx, e.endIdx⟩).firstCluster d.fs)
          (some (toDirEntryS src ⟨e.sfn, e.name.getD [], e.beginIdx, e.endIdx⟩).editor)) []) d =
        (.ok (specContent d.fs d.img (DirSpec.rowOf (d.fs.fatType == .fat32) e).firstCluster
          (DirSpec.rowOf (d.fs.fatType == .fat32) e).size, f'), d') ∧
      d'.img = d.img ∧ d'.log = d.log ∧ d'.fs = d.fs := by
  have hrow := libRow_toDirEntryS d.fs.fatType src e hlen
  have hfc : (toDirEntryS src ⟨e.sfn, e.name.getD [], e.beginIdx, e.endIdx⟩).firstCluster d.fs =
      (DirSpec.rowOf (d.fs.fatType == .fat32) e).firstCluster := by rw [← hrow]; rfl
  have hdir : (toDirEntryS src ⟨e.sfn, e.name.getD [], e.beginIdx, e.endIdx⟩).isDir = false := by
    have : (libRow d.fs.fatType (toDirEntryS src ⟨e.sfn, e.name.getD [], e.beginIdx, e.endIdx⟩)).isDir = false := by
      rw [hrow]; exact hfile
    exact this
  have hsz : (FileH.new ((toDirEntryS src ⟨e.sfn, e.name.getD [], e.beginIdx, e.endIdx⟩).firstCluster d.fs)
      (some (toDirEntryS src ⟨e.sfn, e.name.getD [], e.beginIdx, e.endIdx⟩).editor)).size?.getD 0 =
      (DirSpec.rowOf (d.fs.fatType == .fat32) e).size := by
    rw [← hrow]
    simp only [FileH.size?, FileH.new, DirEntry.editor, DirEntryEditor.new, DirFileEntryData.size?,
      DirFileEntryData.isFile]
    have hd : (toDirEntryS src ⟨e.sfn, e.name.getD [], e.beginIdx, e.endIdx⟩).data.isDir = false := hdir
    simp [hd, libRow]
  obtain ⟨f', d', hr, h1, h2, h3, _⟩ := read_equals_decode _ d hfa hg hrep rfl fuel (by rw [hsz]; exact hfuel)
  refine ⟨f', d', ?_, h1, h2, h3⟩
  rw [hr, hsz]
  show _ = (Except.ok (specContent d.fs d.img _ _, f'), d')
  rw [← hfc]
  rfl

/-- non-vacuity on agent-cursor's FAT16 volume: the two-cluster file (chain `3 → 5`, 1020 bytes) read from offset 0 -/
example : specChainOf Ex.fs16 Ex.img16 3 = some [3, 5] ∧
    (specContent Ex.fs16 Ex.img16 (some 3) 1020).length = 1020 ∧
    ((specContent Ex.fs16 Ex.img16 (some 3) 1020).drop 509).take 6 = [11, 12, 13, 21, 22, 23] := by
  decide +kernel

/-! ## (c) the EXECUTABLE decoder of the run-time oracle (`Spec/FatSpec.lean`)

The run-time oracle decodes images with `Spec.listDir` / `Spec.fileContent` / `Spec.chainOf` (array- and loop-based, with
Brent cycle detection, page-wise reads).  A general proof that these agree with `DirSpec.specRows` / `specContent` /
`FatSpec.specChain` is NOT given here (gap: three things would have to be related — `Spec.fatEntry` with
`FatSpec.specValue`, the `for`-loops of `readSlotRange`/`readExtents`/`fileContent` over `Array`/`ByteArray` with the
list functions, and `Spec.scanDir`/`runName` with `DirSpec.specLoop`/`specRun`).  What IS checked, by kernel evaluation,
is their agreement on the example images of C01sim / C02sim, field by field. -/

namespace C04
open Spec

/-- the fields of an entry of the executable decoder that `DirSpec` also computes, slot position as an index -/
structure Key where
  longName : Option (List Nat)
  shortRaw : List Nat
  attrs : Nat
  ntRes : Nat
  size : Nat
  firstCluster : Nat
  crt : Nat × Nat × Nat
  acc : Nat
  wrt : Nat × Nat
  endIdx : Nat
  deriving DecidableEq, Repr

def metaKey (base : Nat) (m : EntryMeta) : Key :=
  ⟨m.longName, m.shortRaw, m.attrs % 64, m.ntRes, m.size, m.firstCluster,
   (m.crtDate, m.crtTime, m.crtTenth), m.accDate, (m.wrtDate, m.wrtTime), (m.slotPos - base) / 32 + 1⟩

def specKey (fat32 : Bool) (e : DirSpec.SpecEntry) : Key :=
  ⟨e.name, DirSpec.shortName e.sfn, DirSpec.b e.sfn 11 % 64, DirSpec.b e.sfn 12, DirSpec.d32 e.sfn 28,
   DirSpec.w e.sfn 26 + 65536 * (if fat32 then DirSpec.w e.sfn 20 else 0),
   (DirSpec.w e.sfn 16, DirSpec.w e.sfn 14, DirSpec.b e.sfn 13), DirSpec.w e.sfn 18,
   (DirSpec.w e.sfn 24, DirSpec.w e.sfn 22), e.endIdx⟩

def okEntries (base : Nat) : Except String ParsedDir → Option (List Key)
  | .ok p => some (p.entries.map (metaKey base))
  | .error _ => none

/-- the geometry of the example volumes of C01sim as the executable decoder wants it -/
def geomEx (totalClusters : Nat) : Geom :=
  { bps := 512, spc := 1, reserved := 1, fats := 1, rootEntries := 16, totalSectors := 3 + totalClusters, spf := 1,
    fatBits := 16, rootCluster := 0, fsInfoSector := 0, backupSector := 0, extFlags := 0, media := 0xF8,
    statusByteOffset := 0x25 }

/-- `Ex` (fixed root with a long-named and a short-named entry): executable decoder = `DirSpec` -/
example : okEntries 1024 (Spec.listDir (geomEx 8) DirSim.Ex.dev.img .fixedRoot) =
    some ((DirSpec.specEntries true (rootDirSlots DirSim.Ex.dev.fs DirSim.Ex.dev.img)).map (specKey false)) := by
  decide +kernel

/-- `Ex2` (a directory of two clusters, listing crosses the cluster boundary through the FAT): the executable chain walk
    = `FatSpec.specChain`, the executable listing = `DirSpec` on `chainSlots` -/
example : (match Spec.chainOf (geomEx 4) DirSim.Ex2.dev.img 2 with | .ok a => some a.toList | .error _ => none) =
      specChainOf DirSim.Ex2.dev.fs DirSim.Ex2.dev.img 2 ∧
    okEntries 1536 (Spec.listDir (geomEx 4) DirSim.Ex2.dev.img (.chain 2)) =
      some ((DirSpec.specEntries true (chainSlots DirSim.Ex2.dev.fs DirSim.Ex2.dev.img [2, 3])).map (specKey false)) := by
  decide +kernel

/-- agent-cursor's FAT16 volume as the executable decoder wants it, and the entry of the two-cluster file -/
def geom16 : Geom :=
  { bps := 512, spc := 1, reserved := 1, fats := 2, rootEntries := 16, totalSectors := 9, spf := 1,
    fatBits := 16, rootCluster := 0, fsInfoSector := 0, backupSector := 0, extFlags := 0, media := 0xF8,
    statusByteOffset := 0x25 }

def meta16 : EntryMeta := { (default : EntryMeta) with size := 1020, firstCluster := 3 }

def okBytes : Except String ByteArray → Option (List Nat)
  | .ok b => some (b.toList.map (·.toNat))
  | .error _ => none

/- `Spec.fileContent` = `specContent` on that file (evaluated by the compiler: `#guard`, not a kernel proof — the
   page-wise `ByteArray` loops of `readBytes` do not reduce in the kernel in reasonable time) -/
#guard okBytes (Spec.fileContent geom16 FileSim.Ex.img16 meta16) ==
  some (specContent FileSim.Ex.fs16 FileSim.Ex.img16 (some 3) 1020)

#guard (match Spec.chainOf geom16 FileSim.Ex.img16 3 with | .ok a => some a.toList | .error _ => none) ==
  specChainOf FileSim.Ex.fs16 FileSim.Ex.img16 3

end C04

end FatVerif
