import FatVerif.Proofs.FatMore
/-!
# C05 — free-space accounting at the FAT-table level (`table.rs`)

`count_free` (all widths, incl. the FAT12 streaming decoder), soundness/completeness of `NotEnoughSpace`,
reclamation by `ClusterIterator::free`, and (C08.1) classification = specification.
-/
namespace FatVerif.C05
open FatVerif.Fat FatVerif.FatSpec

/-- byte-level `count_free_clusters` = number of `c ∈ [2,total+2)` with `view c = Free`, for FAT12 (streaming
    decoder with `prev_packed_val`), FAT16 and FAT32 — and that is the count of the independent spec decoder -/
theorem countFree_spec (ft : FatType) (f : Array Nat) (total : Nat) (ht : TableOk ft f total) :
    countFree ft f total = .ok (countFreeV (view ft f) total) ∧
    countFreeV (view ft f) total = specCountFree ft.bits f total :=
  ⟨countFree_sim ht, countFreeV_spec ht⟩

/-- FAT12, 5 data clusters (entries 2..6 = 3, EOC, 0, 0, BAD): two free -/
def exFat12 : Array Nat := #[0xF8, 0xFF, 0xFF, 0x03, 0xF0, 0xFF, 0x00, 0x00, 0x00, 0xF7, 0x0F]

theorem exFat12_ok : TableOk .fat12 exFat12 5 :=
  ⟨wfBytes_of_all _ (by decide), fun c hc => by simp only [InRange, off, width, exFat12, u32Lim]; simp; omega,
   by decide⟩

set_option maxRecDepth 8000 in
example : countFree .fat12 exFat12 5 = .ok 2 := rfl

/-- `NotEnoughSpace` is sound: it is returned only if no entry of `[2,total+2)` is free — for every hint value and
    every `total`, zero included (the former side condition "the first scan starts inside the table" was only needed
    for the FAT12 empty-range defect F21, repaired in commit 8aee7d6). -/
theorem alloc_nospace_sound (ft : FatType) (f : Array Nat) (total : Nat) (ht : TableOk ft f total)
    (prev hint : Option Nat)
    (h : (allocCluster f ft prev hint total).out = .error .noSpace) :
    ∀ i, 2 ≤ i → i < total + 2 → view ft f i ≠ .free :=
  allocFindV_none _ _ _ (allocCluster_noSpace_inv ht prev hint h)

/-- converse (completeness): if no entry of `[2,total+2)` is free the call fails with `NotEnoughSpace` and leaves the
    bytes alone. Needs the hint to be absent or `≥ 2`: a hint of 0/1 makes the scan look at the reserved entries. -/
theorem alloc_nospace_complete (ft : FatType) (f : Array Nat) (total : Nat) (ht : TableOk ft f total)
    (prev hint : Option Nat) (hh : ∀ n, hint = some n → 2 ≤ n)
    (h : ∀ i, 2 ≤ i → i < total + 2 → view ft f i ≠ .free) :
    allocCluster f ft prev hint total = ⟨.error .noSpace, f⟩ := by
  apply allocCluster_noSpace ht prev hint
  cases hf : allocFindV (view ft f) hint total with
  | none => rfl
  | some c =>
    obtain ⟨a, b, c'⟩ := allocFindV_some _ _ _ _ hh hf
    exact absurd c' (h c a b)

/-- F9 regression (repaired in commit 42d2b2d: the retry arm is `Err(Error::NotEnoughSpace) if start_cluster > 2`).
    The table is too short for `total = 5` (entries 4.. are past the end). Before the repair the hinted call swallowed
    the read error of the first scan and answered `NotEnoughSpace`; now both calls report the read error. -/
theorem alloc_error_propagated_regression :
    (allocCluster #[0xF8, 0xFF, 0xFF, 0xFF, 0xFF, 0xFF, 0xFF, 0xFF] .fat16 none none 5).out = .error .eof ∧
    (allocCluster #[0xF8, 0xFF, 0xFF, 0xFF, 0xFF, 0xFF, 0xFF, 0xFF] .fat16 none (some 4) 5).out = .error .eof :=
  ⟨rfl, rfl⟩

/-- in general: an error of the first scan other than `NotEnoughSpace` is the result of `allocFind` -/
theorem alloc_first_scan_error_propagates (ft : FatType) (f : Array Nat) (start endc : Nat) (e : Err)
    (h : findFree ft f start endc = .error e) (he : e ≠ .noSpace) : allocFind ft f start endc = .error e := by
  unfold allocFind
  rw [h]; simp only
  rw [if_neg (fun hh => he hh.1)]

/-- a full FAT16 table: 3 data clusters, all taken -/
def exFull : Array Nat := #[0xF8, 0xFF, 0xFF, 0xFF, 0x03, 0x00, 0x04, 0x00, 0xFF, 0xFF]

example : TableOk .fat16 exFull 3 ∧ (allocCluster exFull .fat16 none (some 3) 3).out = .error .noSpace :=
  ⟨⟨wfBytes_of_all _ (by decide), fun c hc => by simp only [InRange, off, width, exFull, u32Lim]; simp; omega,
    by decide⟩, rfl⟩

/-- with a hint of 0 the completeness direction fails: the scan "finds" a zero reserved entry 0 -/
theorem alloc_nospace_complete_counterexample :
    (allocCluster #[0x00, 0x00, 0xFF, 0xFF, 0xFF, 0xFF] .fat16 none (some 0) 1).out = .ok 0 := rfl

/-- `ClusterIterator::free` on an acyclic chain of allocated data clusters returns its length, frees exactly its
    members, leaves every other entry's raw value alone, and `count_free` grows by exactly that length -/
theorem free_reclaims (ft : FatType) (f : Array Nat) (total c : Nat) (cs : List Nat) (ht : TableOk ft f total)
    (hch : Chain (view ft f) c cs) (hnd : cs.Nodup)
    (hin : ∀ k, k ∈ cs → 2 ≤ k ∧ k < total + 2 ∧ view ft f k ≠ .free) (fuel : Nat) (hfuel : cs.length ≤ fuel) :
    ∃ f' n, freeChain ft f c fuel = ⟨.ok cs.length, f'⟩ ∧
      (∀ k, k ∈ cs → view ft f' k = .free) ∧ (∀ k, k ∉ cs → getRaw ft f' k = getRaw ft f k) ∧
      countFree ft f total = .ok n ∧ countFree ft f' total = .ok (n + cs.length) := by
  obtain ⟨f', h1, h2, h3, h4, h5⟩ :=
    freeChain_sim ht.wf hch hnd (fun k hk => ht.plain (hin k hk).2.1) fuel hfuel
  have ht' : TableOk ft f' total :=
    ⟨h3, fun k hk => by have := ht.covers k hk; unfold InRange at *; rw [h2]; exact this, ht.small⟩
  refine ⟨f', countFreeV (view ft f) total, h1, h4, h5, countFree_sim ht, ?_⟩
  rw [countFree_sim ht']
  congr 1
  exact countFreeV_free_list cs (view ft f) (view ft f') total hnd hin h4
    (fun k hk => by rw [view_eq_of_getRaw_eq (h5 k hk)])

set_option maxRecDepth 8000 in
example : Chain (view .fat12 exFat12) 2 [2, 3] ∧ (freeChain .fat12 exFat12 2 5).out = .ok 2 ∧
    countFree .fat12 (freeChain .fat12 exFat12 2 5).fat 5 = .ok 4 :=
  ⟨Chain.cons 2 3 [3] rfl (Chain.last 3 (by intro n h; cases h)), rfl, rfl⟩

set_option maxRecDepth 8000 in
/-- the chain must consist of allocated entries: "freeing" a chain that starts at a free entry returns 1 although
    nothing was reclaimed (the callers never do this: a file's first cluster is allocated) -/
theorem free_reclaims_counterexample :
    (freeChain .fat12 exFat12 4 5).out = .ok 1 ∧ countFree .fat12 (freeChain .fat12 exFat12 4 5).fat 5 = .ok 2 :=
  ⟨rfl, rfl⟩

/-- **C08.1** classification = specification for EVERY raw value: all 2^12 FAT12 values and all 2^16 FAT16 values
    (kernel evaluation over the complete domain), all 2^28 FAT32 values (range lemma; the reserved top nibble is
    ignored; cluster NUMBERS 0x0FFFFFF7..0x0FFFFFFF excluded — for those the library deliberately answers `Bad`). -/
theorem fatGet_spec :
    (∀ v, v < 4096 → classify .fat12 0 v = specClassify 12 v) ∧
    (∀ v, v < 65536 → classify .fat16 0 v = specClassify 16 v) ∧
    (∀ c v, ¬ special32 c → v < 4294967296 → classify .fat32 c v = specClassify 32 (v % 268435456)) :=
  ⟨classify12_spec, classify16_spec, fun c v hc _ => classify32_spec c _ hc (Nat.mod_lt _ (by decide))⟩

/-- … and byte-level `get` = the specification decoder on every readable entry (right bits, right class) -/
theorem fatGet_spec_bytes (ft : FatType) (f : Array Nat) (hf : WfBytes f) (c : Nat) (h : Plain ft f c) :
    get ft f c = .ok (specValue ft.bits f c) :=
  get_spec ft f hf c h

example : get .fat12 exFat12 6 = .ok .bad ∧ specValue 12 exFat12 6 = .bad ∧ Plain .fat12 exFat12 6 :=
  ⟨rfl, by decide, ⟨by decide, by intro h; cases h⟩⟩

/-- the deliberate deviation: FAT32 entry NUMBER 0x0FFFFFF7 reads as `Bad` whatever it holds, the spec decoder
    would say `Free` for a zero entry -/
theorem fatGet_spec_counterexample : classify .fat32 0x0FFFFFF7 0 = .bad ∧ specClassify 32 0 = .free :=
  ⟨by decide, by decide⟩

end FatVerif.C05
