import FatVerif.Proofs.FileSimEntry2
import FatVerif.Props.C11img
/-!
# C02 / C14: histories with `flush` inside; durability after ANY history that ends in a successful flush

`Props/C02sim.lean` runs histories of `read` / `seek` / `write` / `truncate` / `read_exact` / `write_all` under `SimInv`.
`File::flush` needs more: the handle's record must live in a slot (`EntryRep`) that the handle's own operations do not
overwrite (`SlotApart`).  Proofs/FileSimEntry1/2.lean show that this record invariant is carried through every operation
(the editor changes: size, first cluster, time stamps, dirty bit).  Here:

* `EOp` = `HOp` + `flush`; `FullInv f e d` = `SimInv` + `EntryRep` + `SlotApart`;
* `fileh_flush_refines_bytefile`: histories over `EOp` refine the byte array with a cursor (`flush` is the identity
  of the specification); `FullInv` holds again;
* `durable_after_history_flush` / `durable_after_history_drop`: after any such history, `flush` (drop) succeeds and
  what a later re-open reads — for every cut of later writes that avoid the file's footprint — is the content the
  specification prescribes for the whole history.
-/
namespace FatVerif.FileSim
open FatVerif FatVerif.Fat

/-- operations of a history on one handle, `flush` included -/
inductive EOp where
  | op (o : HOp)
  | flush
  deriving Repr

def EOp.toOp : EOp → Cursor.FileOp
  | .op o => o.toOp
  | .flush => .flush

def EOp.BytesOk : EOp → Prop
  | .op o => o.BytesOk
  | .flush => True

/-- run ONE operation -/
def execE (op : EOp) (f : FileH) (d : Dev) : Cursor.FileRes × FileH × Dev :=
  match op with
  | .op o => execH o f d
  | .flush =>
    match run f.flush d with
    | (.ok f', d') => (.unit, f', d')
    | (.error e, d') => (.err e, f, d')

def runE : List EOp → FileH → Dev → List Cursor.FileRes × FileH × Dev
  | [], f, d => ([], f, d)
  | op :: ops, f, d =>
    let r := execE op f d
    let rest := runE ops r.2.1 r.2.2
    (r.1 :: rest.1, rest.2)

def EBytesOk : List EOp → Prop
  | [] => True
  | op :: ops => op.BytesOk ∧ EBytesOk ops

/-- the standing hypotheses of a history with flushes: `SimInv`, the record lives in slot `e.pos` (`EntryRep`), and the
    slot is not a position the handle's `write` / `truncate` may modify -/
structure FullInv (f : FileH) (e : DirEntryEditor) (d : Dev) : Prop where
  sim : SimInv f d
  ent : EntryRep d.fs d.img f e
  apart : SlotApart d.fs d.img f e

/-- `flush` changes nothing `write` / `truncate` look at -/
theorem flush_full (f : FileH) (e : DirEntryEditor) (d : Dev) (h : FullInv f e d) :
    ∃ d', run f.flush d = (.ok { f with entry := some { e with dirty := false } }, d') ∧
      FullInv { f with entry := some { e with dirty := false } } { e with dirty := false } d' ∧
      d'.fs = d.fs ∧
      (absFile d'.fs d'.img { f with entry := some { e with dirty := false } }).abs = (absFile d.fs d.img f).abs := by
  obtain ⟨d', hr, hst, hfs, hout, _, _, _, hsim, hent, hcore⟩ := flush_sim f e d h.sim h.ent
  refine ⟨d', hr, ⟨hsim, hent, ?_⟩, hfs, hcore.abs_eq h.sim.rep.inv.cs_pos h.sim.rep.inv.cover⟩
  have hfat : FatAgree d.fs d.img d'.img := by
    intro q h1 h2
    exact hout q (by rcases h.ent.offFat with h | h <;> omega)
  have htv : tabView d'.fs d'.img = tabView d.fs d.img := by rw [hfs]; exact tabView_congr h.sim.geo hfat
  have hch : fileChain d'.fs d'.img { f with entry := some { e with dirty := false } } = fileChain d.fs d.img f :=
    hcore.chain
  intro q h1 h2 hm
  apply h.apart q h1 h2
  unfold MayTouchData FreeCluster at hm ⊢
  rw [hch, htv, hfs] at hm
  exact hm

/-- one step of a history with flushes -/
theorem execE_refines (op : EOp) (f : FileH) (e : DirEntryEditor) (d : Dev) (h : FullInv f e d) (hok : op.BytesOk) :
    (∃ e', FullInv (execE op f d).2.1 e' (execE op f d).2.2 ∧ e'.pos = e.pos) ∧
    (execE op f d).2.2.fs.clusterSize = d.fs.clusterSize ∧
    Cursor.ByteFile.check d.fs.clusterSize op.toOp (execE op f d).1 (absFile d.fs d.img f).abs =
      .ok (absFile (execE op f d).2.2.fs (execE op f d).2.2.img (execE op f d).2.1).abs := by
  cases op with
  | op o =>
    obtain ⟨hsim', hcs, hchk⟩ := execH_refines o f d h.sim hok
    obtain ⟨e', he', hap', hrel⟩ := execH_entry o f d h.sim hok e h.ent h.apart
    exact ⟨⟨e', ⟨hsim', he', hap'⟩, hrel.pos⟩, hcs, hchk⟩
  | flush =>
    obtain ⟨d', hr, hfull, hfs, habs⟩ := flush_full f e d h
    simp only [execE, hr, EOp.toOp]
    refine ⟨⟨_, hfull, rfl⟩, by rw [hfs], ?_⟩
    rw [habs]; rfl

/-- **`fileh_flush_refines_bytefile`.**  For every finite sequence of `read` / `seek` / `write` / `truncate` /
    `read_exact` / `write_all` / `flush` on one handle of the byte-level model, started in a state satisfying `FullInv`
    (the invariants of `fileh_refines_bytefile`, plus: the handle's record lives in a 32-byte slot inside the device,
    outside the FAT, outside the clusters of the file and outside every free cluster): the observable results are
    exactly what the byte array with a cursor prescribes (`flush` succeeds and is the identity of the specification);
    `FullInv` holds again, with the record still in the same slot. -/
theorem fileh_flush_refines_bytefile : ∀ (ops : List EOp) (f : FileH) (e : DirEntryEditor) (d : Dev),
    FullInv f e d → EBytesOk ops →
    (∃ e', FullInv (runE ops f d).2.1 e' (runE ops f d).2.2 ∧ e'.pos = e.pos) ∧
    (runE ops f d).2.2.fs.clusterSize = d.fs.clusterSize ∧
    Cursor.ByteFile.checkRun d.fs.clusterSize (ops.map EOp.toOp) (runE ops f d).1 (absFile d.fs d.img f).abs =
      .ok (absFile (runE ops f d).2.2.fs (runE ops f d).2.2.img (runE ops f d).2.1).abs
  | [], f, e, d, h, _ => ⟨⟨e, h, rfl⟩, rfl, rfl⟩
  | op :: ops, f, e, d, h, hok => by
    obtain ⟨⟨e1, hi, hp1⟩, hcs, hchk⟩ := execE_refines op f e d h hok.1
    obtain ⟨⟨e2, ri, hp2⟩, rcs, rchk⟩ := fileh_flush_refines_bytefile ops _ e1 _ hi hok.2
    simp only [runE, List.map]
    refine ⟨⟨e2, ri, hp2.trans hp1⟩, rcs.trans hcs, ?_⟩
    simp only [Cursor.ByteFile.checkRun, hchk]
    rw [hcs] at rchk
    exact rchk

/-- **`durable_after_history_flush`** (strengthens `durable_after_flush`).  Start from `FullInv`; run ANY history of
    `read` / `seek` / `write` / `truncate` / `read_exact` / `write_all` / `flush`; then `flush`.  The flush succeeds, its
    mark in the device log follows every write of the history; and for all later writes `ws` that avoid the footprint of
    the file (its slot, the first-copy FAT entries of its chain, its data up to the size), every cut point `k` and every
    fault-free device `dk` holding the flushed image with the surviving prefix `ws.take k` applied: re-opening the file
    from the ORIGINAL slot `e.pos` on `dk` and reading to the end returns exactly `b.content`, where `b` is the state the
    byte-array specification reaches by the observed history (`ByteFile.checkRun … = .ok b`). -/
theorem durable_after_history_flush (ops : List EOp) (f : FileH) (e : DirEntryEditor) (d : Dev)
    (h : FullInv f e d) (hok : EBytesOk ops) :
    ∃ b e1 d2, Cursor.ByteFile.checkRun d.fs.clusterSize (ops.map EOp.toOp) (runE ops f d).1 (absFile d.fs d.img f).abs =
        .ok b ∧
      e1.pos = e.pos ∧
      run (runE ops f d).2.1.flush (runE ops f d).2.2 =
        (.ok { (runE ops f d).2.1 with entry := some { e1 with dirty := false } }, d2) ∧
      d2.fs = (runE ops f d).2.2.fs ∧ d2.failAt = none ∧
      (∃ items : List LogItem, d2.log = .flush :: (items.reverse ++ (runE ops f d).2.2.log)) ∧
      ∀ (ws : List (Nat × List Nat)) (k : Nat) (dk : Dev),
        WritesAvoid (Footprint (runE ops f d).2.2.fs (runE ops f d).2.2.img (runE ops f d).2.1 e1) ws →
        dk.img = applyWrites d2.img (ws.take k) → dk.fs = (runE ops f d).2.2.fs → dk.failAt = none →
        ∃ g' d', run (readExact FileH.strm (reopen dk.fs dk.img e.pos) b.content.length) dk =
          (.ok (b.content, g'), d') := by
  obtain ⟨⟨e1, hfull, hpos⟩, _, hchk⟩ := fileh_flush_refines_bytefile ops f e d h hok
  obtain ⟨d2, hr, hfs, hfa, hlog, hdur⟩ := durable_after_flush _ e1 _ hfull.sim hfull.ent
  refine ⟨_, e1, d2, hchk, hpos, hr, hfs, hfa, hlog, fun ws k dk hav himg hfsk hfak => ?_⟩
  obtain ⟨g', d', hrd⟩ := hdur ws k dk hav himg hfsk hfak
  refine ⟨g', d', ?_⟩
  rw [← hpos]
  simpa using hrd

/-- **`durable_after_history_drop`**: the same when the handle is dropped after the history instead of flushed. -/
theorem durable_after_history_drop (ops : List EOp) (f : FileH) (e : DirEntryEditor) (d : Dev)
    (h : FullInv f e d) (hok : EBytesOk ops) :
    ∃ b e1 d2, Cursor.ByteFile.checkRun d.fs.clusterSize (ops.map EOp.toOp) (runE ops f d).1 (absFile d.fs d.img f).abs =
        .ok b ∧
      e1.pos = e.pos ∧
      run (runE ops f d).2.1.drop (runE ops f d).2.2 = (.ok (), d2) ∧
      d2.fs = (runE ops f d).2.2.fs ∧ d2.failAt = none ∧
      (∃ items : List LogItem, d2.log = .flush :: (items.reverse ++ (runE ops f d).2.2.log)) ∧
      ∀ (ws : List (Nat × List Nat)) (k : Nat) (dk : Dev),
        WritesAvoid (Footprint (runE ops f d).2.2.fs (runE ops f d).2.2.img (runE ops f d).2.1 e1) ws →
        dk.img = applyWrites d2.img (ws.take k) → dk.fs = (runE ops f d).2.2.fs → dk.failAt = none →
        ∃ g' d', run (readExact FileH.strm (reopen dk.fs dk.img e.pos) b.content.length) dk =
          (.ok (b.content, g'), d') := by
  obtain ⟨⟨e1, hfull, hpos⟩, _, hchk⟩ := fileh_flush_refines_bytefile ops f e d h hok
  obtain ⟨d2, hr, hfs, hfa, hlog, hdur⟩ := durable_after_drop _ e1 _ hfull.sim hfull.ent
  refine ⟨_, e1, d2, hchk, hpos, hr, hfs, hfa, hlog, fun ws k dk hav himg hfsk hfak => ?_⟩
  obtain ⟨g', d', hrd⟩ := hdur ws k dk hav himg hfsk hfak
  refine ⟨g', d', ?_⟩
  rw [← hpos]
  simpa using hrd

end FatVerif.FileSim


/-! ## the statements are not vacuous: the two-file FAT16 volume of `Props/C11img.lean` -/

namespace FatVerif.FileSim.ExH
open FatVerif FatVerif.Fat FatVerif.FileSim FatVerif.FileSim.Ex FatVerif.FileSim.Ex14 FatVerif.FileSim.Ex11

theorem full17 : FullInv file14 ⟨entry14, 1536, true⟩ dev17 :=
  ⟨pair17.left, entryRepF,
   rootSlot_not_mayTouchData (fs := fs17) (img := img17) geo17 repF17 (by decide) (by decide)⟩

/-- grow the file across a cluster boundary (`write_all` allocates cluster 2), flush, read back, flush again -/
def opsE : List EOp :=
  [.op (.seek (.start 1020)), .op (.writeAll [1, 2, 3, 4, 5, 6]), .flush, .op (.seek (.start 1022)),
   .op (.readExact 4), .flush]

theorem bytesOkE : EBytesOk opsE :=
  ⟨fun bs e => (by rcases e with e | e <;> cases e), fun bs e => (by rcases e with e | e <;> cases e; decide), trivial,
   fun bs e => (by rcases e with e | e <;> cases e), fun bs e => (by rcases e with e | e <;> cases e), trivial, trivial⟩

set_option maxRecDepth 100000 in
/-- the byte-level model, evaluated: both flushes succeed, and the first one put the new size 1026 and first cluster 3
    into the slot at 1536 -/
theorem runE17 : (runE opsE file14 dev17).1 = [.pos 1020, .unit, .unit, .pos 1022, .bytes [3, 4, 5, 6], .unit] ∧
    (slotData (runE opsE file14 dev17).2.2.img 1536).size = 1026 ∧
    (slotData (runE opsE file14 dev17).2.2.img 1536).firstClusterLo = 3 := by
  decide +kernel

/-- `fileh_flush_refines_bytefile` applied -/
theorem specE17 : ∃ b, Cursor.ByteFile.checkRun 512 (opsE.map EOp.toOp)
    [.pos 1020, .unit, .unit, .pos 1022, .bytes [3, 4, 5, 6], .unit] (absFile fs17 img17 file14).abs = .ok b := by
  have := (fileh_flush_refines_bytefile opsE file14 _ dev17 full17 bytesOkE).2.2
  rw [runE17.1] at this
  exact ⟨_, this⟩

/-- `durable_after_history_flush` applied: after the history, flush; whatever prefix of later writes that avoid the
    footprint survives, re-opening from the slot at 1536 reads the content the specification prescribes -/
theorem durableE17 :
    ∃ b e1 d2, Cursor.ByteFile.checkRun dev17.fs.clusterSize (opsE.map EOp.toOp) (runE opsE file14 dev17).1
        (absFile dev17.fs dev17.img file14).abs = .ok b ∧
      e1.pos = 1536 ∧
      run (runE opsE file14 dev17).2.1.flush (runE opsE file14 dev17).2.2 =
        (.ok { (runE opsE file14 dev17).2.1 with entry := some { e1 with dirty := false } }, d2) ∧
      ∀ (ws : List (Nat × List Nat)) (k : Nat) (dk : Dev),
        WritesAvoid (Footprint (runE opsE file14 dev17).2.2.fs (runE opsE file14 dev17).2.2.img
          (runE opsE file14 dev17).2.1 e1) ws →
        dk.img = applyWrites d2.img (ws.take k) → dk.fs = (runE opsE file14 dev17).2.2.fs → dk.failAt = none →
        ∃ g' d', run (readExact FileH.strm (reopen dk.fs dk.img 1536) b.content.length) dk =
          (.ok (b.content, g'), d') := by
  obtain ⟨b, e1, d2, h1, h2, h3, _, _, _, h7⟩ := durable_after_history_flush opsE file14 _ dev17 full17 bytesOkE
  exact ⟨b, e1, d2, h1, h2, h3, h7⟩

end FatVerif.FileSim.ExH
