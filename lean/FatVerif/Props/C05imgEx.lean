import FatVerif.Props.C05img
/-! Non-vacuity of `unmount_fsinfo_img` / `session_free_count_exact` on the FAT32 miniature of `C05img.Ex`: the run
    `stats; alloc_cluster(None); unmount` evaluated by the kernel (≈ 2.5 min: the 512-byte FS-info write on the
    page-based image), kept in its own file. -/
namespace FatVerif.C05img.Ex
open FatVerif FatVerif.Fat

/-- after `unmount` the FS-info sector of the image deserialises to count 1 — the number of free entries of the image's
    table — and hint 5 ∈ [2, total+1] -/
example : FsInfo.deserialize (devEnd.img.read 1024 512) =
    .ok { freeClusterCount := some 1, nextFreeCluster := some 5, dirty := false } := by decide +kernel


end FatVerif.C05img.Ex
