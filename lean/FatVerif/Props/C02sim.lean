import FatVerif.Proofs.FileSimRead
import FatVerif.Proofs.FileSimSeek
import FatVerif.Proofs.FileSimWrite
import FatVerif.Proofs.FileSimWriteAlloc
import FatVerif.Proofs.FileSimTruncate
import FatVerif.Proofs.FileSimLoop
/-!
# C02, simulation: the byte-level `File` of Model/File.lean refines the byte array with a cursor

`Props/C02.lean` proves that the cursor machine `Cursor.AFile` refines the specification `Cursor.ByteFile`.
This file ties the byte-level, call-exact model `FileH` (programs over `Prog`, run on a device image) to that machine on
the fault-free path (`failAt = none`), and composes the two.

* abstraction `FileSim.absFile fs img f`, representation invariant `FileSim.FileRep fs img f`, layout `FileSim.Geo`
  (Proofs/FileSimIter.lean, Proofs/FileSimDefs.lean);
* `FileSim.read_sim`, `FileSim.seek_sim` (Proofs/FileSimRead.lean, Proofs/FileSimSeek.lean);
* `FileSim.write_sim_noalloc` (Proofs/FileSimWrite.lean), `FileSim.write_sim_alloc` (Proofs/FileSimWriteAlloc.lean),
  `FileSim.truncate_sim` (Proofs/FileSimTruncate.lean), on top of the forward evaluation of the FAT operations on the
  image (Proofs/FileSimFat*.lean);
* `fileh_refines_bytefile` below.
-/
namespace FatVerif.FileSim
open FatVerif FatVerif.Fat

/-- operations of a history on one byte-level handle -/
inductive HOp where
  | read (n : Nat)
  | seek (p : FatVerif.SeekFrom)
  | write (bs : List Nat)
  | truncate
  /-- `Read::read_exact` on the handle: the loop of io.rs over single `read` calls -/
  | readExact (n : Nat)
  /-- `Write::write_all` on the handle: the loop of io.rs over single `write` calls -/
  | writeAll (bs : List Nat)
  deriving Repr

/-- the corresponding operation of the cursor machine / the specification -/
def HOp.toOp : HOp → Cursor.FileOp
  | .read n => .read n
  | .seek p => .seek (convSeek p)
  | .write bs => .write bs
  | .truncate => .truncate
  | .readExact n => .readExact n
  | .writeAll bs => .writeAll bs

/-- the operations that are one call of `File` (the other two are loops over such calls) -/
def HOp.isPrim : HOp → Prop
  | .readExact _ => False
  | .writeAll _ => False
  | _ => True

/-- `read_exact` as the history driver runs it (`Session.readxLoop` of Model/Api.lean, on the device alone): single `read`
    calls until the buffer is full; a call returning nothing is `UnexpectedEof` (reported with the cursor, as the probe
    does); mutations of completed calls persist -/
def readxH : Nat → FileH → Dev → Nat → List Nat → Cursor.FileRes × FileH × Dev
  | 0, h, d, _, _ => (.err .hang, h, d)
  | fuel + 1, h, d, n, acc =>
    if n = 0 then (.bytes acc, h, d)
    else match run (h.read n) d with
      | (.ok (bs, h'), d') =>
        if bs.length = 0 then (.errAt .eof h'.offset, h', d')
        else readxH fuel h' d' (n - bs.length) (acc ++ bs)
      | (.error e, d') => (.err e, h, d')

/-- `write_all` as the history driver runs it (`Session.writeAllLoopS`): single `write` calls until the buffer is
    consumed; a call returning 0 is `WriteZero`; an error ends the loop with the handle as the last completed call
    left it -/
def writeallH : Nat → FileH → Dev → List Nat → Cursor.FileRes × FileH × Dev
  | 0, h, d, _ => (.err .hang, h, d)
  | fuel + 1, h, d, bs =>
    if bs.length = 0 then (.unit, h, d)
    else match run (h.write bs) d with
      | (.ok (n, h'), d') =>
        if n = 0 then (.errAt .writeZero h'.offset, h', d')
        else writeallH fuel h' d' (bs.drop n)
      | (.error e, d') => (.errAt e h.offset, h, d')

/-- run ONE operation of the byte-level model: observable result, new handle (the old one after an error), device -/
def execH (op : HOp) (f : FileH) (d : Dev) : Cursor.FileRes × FileH × Dev :=
  match op with
  | .read n =>
    match run (f.read n) d with
    | (.ok (bs, f'), d') => (.bytes bs, f', d')
    | (.error e, d') => (.err e, f, d')
  | .seek p =>
    match run (f.seek p) d with
    | (.ok (pos, f'), d') => (.pos pos, f', d')
    | (.error e, d') => (.err e, f, d')
  | .write bs =>
    match run (f.write bs) d with
    | (.ok (k, f'), d') => (.count k, f', d')
    | (.error e, d') => (.err e, f, d')
  | .truncate =>
    match run f.truncate d with
    | (.ok f', d') => (.unit, f', d')
    | (.error e, d') => (.err e, f, d')
  | .readExact n => readxH (n + 1) f d n []
  | .writeAll bs => writeallH (bs.length + 1) f d bs

/-- a history -/
def runH : List HOp → FileH → Dev → List Cursor.FileRes × FileH × Dev
  | [], f, d => ([], f, d)
  | op :: ops, f, d =>
    let r := execH op f d
    let rest := runH ops r.2.1 r.2.2
    (r.1 :: rest.1, rest.2)

/-- the standing hypotheses: no scheduled fault, well-formed page table of the image, the layout fits the device,
    the handle is represented, the FS-info bookkeeping (next-free hint, cached free count) matches the FAT -/
structure SimInv (f : FileH) (d : Dev) : Prop where
  nofault : d.failAt = none
  wf : d.img.WF
  geo : Geo d.fs d.img.size
  rep : FileRep d.fs d.img f
  info : InfoOk d.fs d.img

/-- the buffers of the writes of a history carry bytes -/
def BytesOk : List HOp → Prop
  | [] => True
  | .write bs :: ops => (∀ b ∈ bs, b < 256) ∧ BytesOk ops
  | .writeAll bs :: ops => (∀ b ∈ bs, b < 256) ∧ BytesOk ops
  | _ :: ops => BytesOk ops

/-- the buffer of one operation carries bytes -/
def HOp.BytesOk (op : HOp) : Prop := ∀ bs, op = .write bs ∨ op = .writeAll bs → ∀ b ∈ bs, b < 256

theorem BytesOk.cons {op : HOp} {ops : List HOp} (h : BytesOk (op :: ops)) : op.BytesOk ∧ BytesOk ops := by
  cases op with
  | write bs => exact ⟨fun bs' e => (by rcases e with e | e <;> cases e; exact h.1), h.2⟩
  | writeAll bs => exact ⟨fun bs' e => (by rcases e with e | e <;> cases e; exact h.1), h.2⟩
  | read n => exact ⟨fun bs' e => (by rcases e with e | e <;> cases e), h⟩
  | seek p => exact ⟨fun bs' e => (by rcases e with e | e <;> cases e), h⟩
  | truncate => exact ⟨fun bs' e => (by rcases e with e | e <;> cases e), h⟩
  | readExact n => exact ⟨fun bs' e => (by rcases e with e | e <;> cases e), h⟩

/-- one single call: the invariants are kept, the cluster size stays, and the observable result is accepted by the
    `ByteFile` oracle, which moves from the abstraction of the old state to that of the new one -/
theorem execH_refines_prim (op : HOp) (hp : op.isPrim) (f : FileH) (d : Dev) (h : SimInv f d)
    (hok : op.BytesOk) :
    SimInv (execH op f d).2.1 (execH op f d).2.2 ∧
    (execH op f d).2.2.fs.clusterSize = d.fs.clusterSize ∧
    Cursor.ByteFile.check d.fs.clusterSize op.toOp (execH op f d).1 (absFile d.fs d.img f).abs =
      .ok (absFile (execH op f d).2.2.fs (execH op f d).2.2.img (execH op f d).2.1).abs := by
  obtain ⟨hfa, hwf, hg, hrep, hinfo⟩ := h
  cases op with
  | read n =>
    obtain ⟨bs, f', d', hr, hs, hres, hab, hrep'⟩ := read_sim f n d hfa hg hrep
    obtain ⟨l, hl, hchk⟩ := hrep.inv.read_refines n
    rw [hres] at hl; cases hl
    simp only [execH, hr, HOp.toOp]
    refine ⟨⟨by rw [hs.failAt]; exact hfa, by rw [hs.img]; exact hwf, by rw [hs.fs, hs.img]; exact hg,
      by rw [hs.fs, hs.img]; exact hrep', by rw [hs.fs, hs.img]; exact hinfo⟩, by rw [hs.fs], ?_⟩
    rw [hs.fs, hs.img, hab]; exact hchk
  | seek p =>
    rcases seek_sim f p d hfa hg hrep with ⟨pos, f', d', hr, hs, hres, hab, hrep'⟩ | ⟨hr, hm⟩
    · rcases hrep.inv.seek_refines (convSeek p) with ⟨q, hq, hchk⟩ | ⟨he, _, _⟩
      · rw [hres] at hq; cases hq
        simp only [execH, hr, HOp.toOp]
        refine ⟨⟨by rw [hs.failAt]; exact hfa, by rw [hs.img]; exact hwf, by rw [hs.fs, hs.img]; exact hg,
          by rw [hs.fs, hs.img]; exact hrep', by rw [hs.fs, hs.img]; exact hinfo⟩, by rw [hs.fs], ?_⟩
        rw [hs.fs, hs.img, hab]; exact hchk
      · rw [hres] at he; cases he
    · rcases hrep.inv.seek_refines (convSeek p) with ⟨q, hq, _⟩ | ⟨_, _, hchk⟩
      · rw [hm] at hq; cases hq
      · simp only [execH, hr, HOp.toOp]
        exact ⟨⟨hfa, hwf, hg, hrep, hinfo⟩, trivial, hchk⟩
  | readExact n => exact hp.elim
  | writeAll bs => exact hp.elim
  | write bs =>
    have hbytes := hok bs (Or.inl rfl)
    have hspec := hrep.inv.write_refines (fatAllocator_laws d.fs.totalClusters d.fs.fsInfo.next) bs
    by_cases hno : (absFile d.fs d.img f).writeLen bs.length = 0 ∨ (absFile d.fs d.img f).readCluster ≠ none
    · -- no allocation
      obtain ⟨k, f', d', hr, hs, hres, _, hcore, hrep', htv', hfi', _⟩ :=
        write_sim_noalloc (fatAllocator d.fs.totalClusters d.fs.fsInfo.next) (tabView d.fs d.img) f bs d hfa hg hrep
          hwf hbytes hno
      simp only [execH, hr, HOp.toOp]
      refine ⟨⟨by rw [hs.failAt]; exact hfa, hs.wf hwf, by rw [hs.size]; exact hg.frame hs.geom, hrep',
        ⟨by rw [hfi']; exact hinfo.hint, by rw [hfi', htv', hs.geom.totalClusters]; exact hinfo.count⟩⟩,
        hs.geom.clusterSize, ?_⟩
      rcases hspec with ⟨he, _⟩ | ⟨hres', hi, _, _, hchk⟩
      · rw [he] at hres; cases hres
      · rw [hres] at hres'
        have hk : k = (absFile d.fs d.img f).writeLen bs.length := Except.ok.inj hres'
        rw [hk, hcore.abs_eq hi.cs_pos hi.cover]; exact hchk
    · -- a cluster is needed
      have hrcn : (absFile d.fs d.img f).readCluster = none := by
        cases h : (absFile d.fs d.img f).readCluster with
        | none => rfl
        | some c => exact absurd (Or.inr (by rw [h]; intro e; cases e)) hno
      have hw0 : (absFile d.fs d.img f).writeLen bs.length ≠ 0 := fun h0 => hno (Or.inl h0)
      rcases write_sim_alloc f bs d hfa hg hrep hwf hinfo hbytes hrcn hw0 with
        ⟨d', hr, hma, hs, hab, hrep', hinfo', _⟩ | ⟨k, f', d', hr, hres, hs, hcore, hrep', hinfo', _, _, _⟩
      · simp only [execH, hr, HOp.toOp]
        refine ⟨⟨by rw [hs.failAt]; exact hfa, hs.wf hwf, by rw [hs.size]; exact hg.frame hs.geom, hrep', hinfo'⟩,
          hs.geom.clusterSize, ?_⟩
        rcases hspec with ⟨_, _, _, _, hchk⟩ | ⟨hres', _⟩
        · rw [hab]; exact hchk
        · rw [hma] at hres'; cases hres'
      · simp only [execH, hr, HOp.toOp]
        refine ⟨⟨by rw [hs.failAt]; exact hfa, hs.wf hwf, by rw [hs.size]; exact hg.frame hs.geom, hrep', hinfo'⟩,
          hs.geom.clusterSize, ?_⟩
        rcases hspec with ⟨he, _⟩ | ⟨hres', hi, _, _, hchk⟩
        · rw [he] at hres; cases hres
        · rw [hres] at hres'
          have hk : k = (absFile d.fs d.img f).writeLen bs.length := Except.ok.inj hres'
          rw [hk, hcore.abs_eq hi.cs_pos hi.cover]; exact hchk
  | truncate =>
    obtain ⟨f', d', hr, hs, _, hcore, hrep', hinfo', _, _, _⟩ := truncate_sim f d hfa hg hrep hwf hinfo
    obtain ⟨_, hi, hab, _⟩ := hrep.inv.truncate_refines (fatAllocator_laws d.fs.totalClusters d.fs.fsInfo.next)
    simp only [execH, hr, HOp.toOp]
    refine ⟨⟨by rw [hs.failAt]; exact hfa, hs.wf hwf, by rw [hs.size]; exact hg.frame hs.geom, hrep', hinfo'⟩,
      hs.geom.clusterSize, ?_⟩
    simp only [Cursor.ByteFile.check]
    rw [hcore.abs_eq hi.cs_pos hi.cover, hab]

/-! ### the loops `read_exact` / `write_all` over single calls -/

theorem SimInv.abs_facts {f : FileH} {d : Dev} (h : SimInv f d) :
    (absFile d.fs d.img f).abs.pos ≤ (absFile d.fs d.img f).abs.content.length ∧
    (absFile d.fs d.img f).abs.content.length ≤ Cursor.u32Max ∧ 0 < d.fs.clusterSize ∧
    (absFile d.fs d.img f).abs.pos = f.offset := by
  have hi := h.rep.inv
  refine ⟨?_, ?_, hi.cs_pos, rfl⟩
  · simpa using hi.off_le
  · simpa using hi.size_le

/-- `read_exact` on the byte-level handle: with enough bytes left, exactly the next `need` bytes of the abstraction and
    the cursor behind them; otherwise `UnexpectedEof` with the cursor at the end of the file -/
theorem readxH_refines : ∀ (fuel : Nat) (h : FileH) (d : Dev) (need : Nat) (acc : List Nat), SimInv h d → need < fuel →
    SimInv (readxH fuel h d need acc).2.1 (readxH fuel h d need acc).2.2 ∧
    (readxH fuel h d need acc).2.2.fs.clusterSize = d.fs.clusterSize ∧
    (need ≤ (absFile d.fs d.img h).abs.remaining →
      (readxH fuel h d need acc).1 = .bytes (acc ++ ((absFile d.fs d.img h).abs.read need).1) ∧
      (absFile (readxH fuel h d need acc).2.2.fs (readxH fuel h d need acc).2.2.img (readxH fuel h d need acc).2.1).abs =
        ((absFile d.fs d.img h).abs.read need).2) ∧
    ((absFile d.fs d.img h).abs.remaining < need →
      (readxH fuel h d need acc).1 = .errAt .eof (absFile d.fs d.img h).abs.content.length ∧
      (absFile (readxH fuel h d need acc).2.2.fs (readxH fuel h d need acc).2.2.img (readxH fuel h d need acc).2.1).abs =
        { (absFile d.fs d.img h).abs with pos := (absFile d.fs d.img h).abs.content.length })
  | 0, _, _, _, _, _, hf => by omega
  | fuel + 1, h, d, need, acc, hinv, hf => by
    obtain ⟨hpl, _, hcs0, _⟩ := hinv.abs_facts
    by_cases hn : need = 0
    · subst hn
      simp only [readxH, if_true]
      refine ⟨hinv, (by first | rfl | trivial), fun _ => ⟨by simp [Cursor.ByteFile.read],
        by simp [Cursor.ByteFile.read, Cursor.AFile.abs]⟩, fun hlt => by omega⟩
    · have hstep := execH_refines_prim (.read need) (by exact True.intro) h d hinv
        (fun bs e => by rcases e with e | e <;> cases e)
      rw [readxH]
      simp only [hn, if_false]
      simp only [execH, HOp.toOp] at hstep
      generalize run (h.read need) d = r at hstep ⊢
      obtain ⟨(e | ⟨bs, h'⟩), d'⟩ := r
      · exact (Cursor.ByteFile.of_checkReadErr hstep.2.2).elim
      · simp only at hstep ⊢
        obtain ⟨hinv', hcs', hchk⟩ := hstep
        simp only [Cursor.ByteFile.check] at hchk
        obtain ⟨e1, e2, e3⟩ := Cursor.ByteFile.of_checkRead hchk
        generalize (absFile d.fs d.img h).abs = b at *
        have hmod := Nat.mod_lt b.pos hcs0
        have hk : bs.length ≤ need ∧ bs.length ≤ b.remaining := by
          rw [e1]; unfold Cursor.ByteFile.shortRead; omega
        by_cases hl : bs.length = 0
        · simp only [hl, if_true]
          have hrem : b.remaining = 0 := by
            rw [hl] at e1; unfold Cursor.ByteFile.shortRead at e1; omega
          have hpe : b.pos = b.content.length := by unfold Cursor.ByteFile.remaining at hrem; omega
          refine ⟨hinv', hcs', fun hle => by omega, fun _ => ⟨?_, ?_⟩⟩
          · have : h'.offset = b.pos + bs.length := congrArg Cursor.ByteFile.pos e3
            rw [this, hl, hpe, Nat.add_zero]
          · rw [e3, hl, hpe, Nat.add_zero]
        · simp only [hl, if_false]
          obtain ⟨i1, i2, i3, i4⟩ := readxH_refines fuel h' d' (need - bs.length) (acc ++ bs) hinv' (by omega)
          rw [e3] at i3 i4
          obtain ⟨s1, s2⟩ := Cursor.ByteFile.read_split b need bs.length hk.1 hk.2
          rw [← e2] at s1
          refine ⟨i1, i2.trans hcs', fun hle => ?_, fun hlt => ?_⟩
          · obtain ⟨j1, j2⟩ := i3 (by simp only [Cursor.ByteFile.remaining] at hle hk ⊢; omega)
            refine ⟨?_, ?_⟩
            · rw [j1, List.append_assoc, s1]
            · rw [j2, s2 hle]
          · obtain ⟨j1, j2⟩ := i4 (by simp only [Cursor.ByteFile.remaining] at hlt hk ⊢; omega)
            exact ⟨j1, j2⟩

/-- `write_all` on the byte-level handle: either the whole buffer is written at the cursor, or the loop stopped after
    `k < |bs|` bytes — `NotEnoughSpace` on a cluster boundary at the end of the file, or `WriteZero` at `u32::MAX` -/
theorem writeallH_refines : ∀ (fuel : Nat) (h : FileH) (d : Dev) (bs : List Nat), SimInv h d → (∀ x ∈ bs, x < 256) →
    bs.length < fuel →
    SimInv (writeallH fuel h d bs).2.1 (writeallH fuel h d bs).2.2 ∧
    (writeallH fuel h d bs).2.2.fs.clusterSize = d.fs.clusterSize ∧
    (((writeallH fuel h d bs).1 = .unit ∧
      (absFile (writeallH fuel h d bs).2.2.fs (writeallH fuel h d bs).2.2.img (writeallH fuel h d bs).2.1).abs =
        ((absFile d.fs d.img h).abs.write bs).2 ∧
      (absFile d.fs d.img h).abs.pos + bs.length ≤ Cursor.u32Max) ∨
     (∃ e k, (writeallH fuel h d bs).1 = .errAt e ((absFile d.fs d.img h).abs.pos + k) ∧ k < bs.length ∧
      (absFile (writeallH fuel h d bs).2.2.fs (writeallH fuel h d bs).2.2.img (writeallH fuel h d bs).2.1).abs =
        ((absFile d.fs d.img h).abs.write (bs.take k)).2 ∧
      ((e = .noSpace ∧ ((absFile d.fs d.img h).abs.pos + k) % d.fs.clusterSize = 0 ∧
          (absFile d.fs d.img h).abs.content.length ≤ (absFile d.fs d.img h).abs.pos + k) ∨
       (e = .writeZero ∧ (absFile d.fs d.img h).abs.pos + k = Cursor.u32Max))))
  | 0, _, _, _, _, _, hf => by omega
  | fuel + 1, h, d, bs, hinv, hbytes, hf => by
    obtain ⟨hpl, hlu, hcs0, hpo⟩ := hinv.abs_facts
    by_cases hn : bs.length = 0
    · have hn' : bs = [] := List.eq_nil_of_length_eq_zero hn
      subst hn'
      simp only [writeallH, List.length_nil, if_true]
      exact ⟨hinv, (by first | rfl | trivial), Or.inl ⟨(by first | rfl | trivial),
        by rw [Cursor.ByteFile.write_nil], by simp only [Nat.add_zero]; omega⟩⟩
    · have hstep := execH_refines_prim (.write bs) (by exact True.intro) h d hinv
        (fun bs' e => by rcases e with e | e <;> cases e; exact hbytes)
      rw [writeallH]
      simp only [hn, if_false]
      simp only [execH, HOp.toOp] at hstep
      generalize run (h.write bs) d = r at hstep ⊢
      obtain ⟨(e | ⟨k, h'⟩), d'⟩ := r
      · simp only at hstep ⊢
        obtain ⟨hinv', hcs', hchk⟩ := hstep
        obtain ⟨c1, c2, c3, _, c5⟩ := Cursor.ByteFile.of_checkWriteErr hchk
        refine ⟨hinv', hcs', Or.inr ⟨e, 0, by rw [hpo, Nat.add_zero], by omega, ?_, Or.inl ⟨c1, ?_, ?_⟩⟩⟩
        · rw [c5, List.take_zero, Cursor.ByteFile.write_nil]
        · simpa using c2
        · omega
      · simp only at hstep ⊢
        obtain ⟨hinv', hcs', hchk⟩ := hstep
        obtain ⟨c1, c2⟩ := Cursor.ByteFile.of_checkWrite hchk
        generalize (absFile d.fs d.img h).abs = b at *
        have hmod := Nat.mod_lt b.pos hcs0
        have hkl : k ≤ bs.length := by rw [c1]; unfold Cursor.ByteFile.shortWrite; omega
        have htl : (bs.take k).length = k := by rw [List.length_take]; omega
        have hp' : (b.write (bs.take k)).2.pos = b.pos + k := by simp [Cursor.ByteFile.write, htl]
        have hl' : (b.write (bs.take k)).2.content.length = max b.content.length (b.pos + k) := by
          rw [Cursor.ByteFile.write_content_length _ _ hpl, htl]
        by_cases hk0 : k = 0
        · simp only [hk0, if_true]
          have hpu : b.pos = Cursor.u32Max := by
            rw [hk0] at c1; unfold Cursor.ByteFile.shortWrite at c1; omega
          refine ⟨hinv', hcs', Or.inr ⟨.writeZero, 0, ?_, by omega, ?_, Or.inr ⟨rfl, by omega⟩⟩⟩
          · have : h'.offset = (b.write (bs.take k)).2.pos := congrArg Cursor.ByteFile.pos c2
            rw [this, hp', hk0]
          · rw [c2, hk0]
        · simp only [hk0, if_false]
          obtain ⟨i1, i2, i3⟩ := writeallH_refines fuel h' d' (bs.drop k) hinv'
            (fun x hx => hbytes x (List.mem_of_mem_drop hx)) (by rw [List.length_drop]; omega)
          rw [c2] at i3
          refine ⟨i1, i2.trans hcs', ?_⟩
          rcases i3 with ⟨j1, j2, j3⟩ | ⟨e, k2, j1, j2, j3, j4⟩
          · left
            refine ⟨j1, ?_, ?_⟩
            · rw [j2, Cursor.ByteFile.write_write _ _ _ hpl, List.take_append_drop]
            · rw [hp', List.length_drop] at j3; omega
          · right
            rw [hp'] at j1 j4
            rw [List.length_drop] at j2
            refine ⟨e, k + k2, by rw [j1, Nat.add_assoc], by omega, ?_, ?_⟩
            · rw [j3, Cursor.ByteFile.write_write _ _ _ hpl, List.take_add]
            · rw [hl', hcs'] at j4
              rcases j4 with ⟨a1, a2, a3⟩ | ⟨a1, a2⟩
              · exact Or.inl ⟨a1, by rw [← Nat.add_assoc]; exact a2, by omega⟩
              · exact Or.inr ⟨a1, by omega⟩

/-- one step of a history (a single call or a loop): the invariants are kept, the cluster size stays, and the
    observable result is accepted by the `ByteFile` oracle, which moves from the abstraction of the old state to that of
    the new one -/
theorem execH_refines (op : HOp) (f : FileH) (d : Dev) (h : SimInv f d) (hok : op.BytesOk) :
    SimInv (execH op f d).2.1 (execH op f d).2.2 ∧
    (execH op f d).2.2.fs.clusterSize = d.fs.clusterSize ∧
    Cursor.ByteFile.check d.fs.clusterSize op.toOp (execH op f d).1 (absFile d.fs d.img f).abs =
      .ok (absFile (execH op f d).2.2.fs (execH op f d).2.2.img (execH op f d).2.1).abs := by
  cases op with
  | read n => exact execH_refines_prim _ (by exact True.intro) f d h hok
  | seek p => exact execH_refines_prim _ (by exact True.intro) f d h hok
  | write bs => exact execH_refines_prim _ (by exact True.intro) f d h hok
  | truncate => exact execH_refines_prim _ (by exact True.intro) f d h hok
  | readExact n =>
    obtain ⟨i1, i2, i3, i4⟩ := readxH_refines (n + 1) f d n [] h (by omega)
    refine ⟨i1, i2, ?_⟩
    show Cursor.ByteFile.check d.fs.clusterSize (.readExact n) (readxH (n + 1) f d n []).1 _ =
      .ok (absFile (readxH (n + 1) f d n []).2.2.fs (readxH (n + 1) f d n []).2.2.img (readxH (n + 1) f d n []).2.1).abs
    by_cases hle : n ≤ (absFile d.fs d.img f).abs.remaining
    · obtain ⟨j1, j2⟩ := i3 hle
      rw [j1, j2, List.nil_append]
      exact Cursor.ByteFile.checkReadExact_ok n _ hle
    · obtain ⟨j1, j2⟩ := i4 (by omega)
      rw [j1, j2]
      simp only [Cursor.ByteFile.check]
      rw [if_pos ⟨by omega, (by first | rfl | trivial)⟩]
  | writeAll bs =>
    obtain ⟨i1, i2, i3⟩ := writeallH_refines (bs.length + 1) f d bs h (hok bs (Or.inr rfl)) (by omega)
    refine ⟨i1, i2, ?_⟩
    show Cursor.ByteFile.check d.fs.clusterSize (.writeAll bs) (writeallH (bs.length + 1) f d bs).1 _ =
      .ok (absFile (writeallH (bs.length + 1) f d bs).2.2.fs (writeallH (bs.length + 1) f d bs).2.2.img
        (writeallH (bs.length + 1) f d bs).2.1).abs
    rcases i3 with ⟨j1, j2, j3⟩ | ⟨e, k, j1, j2, j3, j4⟩
    · rw [j1, j2]
      simp only [Cursor.ByteFile.check]
      rw [if_pos j3]
    · rw [j1, j3]
      simp only [Cursor.ByteFile.check, Cursor.ByteFile.checkWriteAllErr]
      have hk : (absFile d.fs d.img f).abs.pos + k - (absFile d.fs d.img f).abs.pos = k := by omega
      rw [if_pos ⟨by omega, by omega, j4⟩, hk]

/-- **`fileh_refines_bytefile`.**  For every finite sequence of `read` / `seek` (all three forms) / `write` /
    `truncate` / `read_exact` / `write_all` (the io.rs loops over single calls, as the history driver runs them) on one
    handle of the byte-level model `FileH` (programs of Model/File.lean run on a device image), started
    in a state satisfying the invariants (no scheduled device fault, well-formed image pages, layout `Geo`,
    representation invariant `FileRep`, FS-info bookkeeping `InfoOk`) and with write buffers made of bytes: the
    observable results — the bytes of every read, the position or the `InvalidInput` of every seek, the count or the
    `NotEnoughSpace` of every write, the success of every truncate — are exactly what the byte array with a cursor
    prescribes (`ByteFile.checkRun`: short-read / short-write rule, clamping, rejection, `take pos` after truncate),
    from `abs (absFile …)` of the initial handle on the initial image to that of the final handle on the final image;
    the invariants hold again.  Allocation scans the FAT of the image (`alloc_cluster`, all three FAT types), links
    the new cluster, updates the FS-info hint and count; truncation frees the tail of the chain in the FAT.

    Restrictions that remain: one handle; fault-free device; the handle's 32-byte directory record is not flushed
    (no `flush`/drop in the alphabet — C14 covers it).  For the loops the oracle is `ByteFile.check` on `.readExact` /
    `.writeAll`: all `n` bytes or `UnexpectedEof` with the cursor at the end; the whole buffer or the error
    (`NotEnoughSpace` / `WriteZero`) with the prefix written up to the reported cursor. -/
theorem fileh_refines_bytefile : ∀ (ops : List HOp) (f : FileH) (d : Dev), SimInv f d → BytesOk ops →
    SimInv (runH ops f d).2.1 (runH ops f d).2.2 ∧
    (runH ops f d).2.2.fs.clusterSize = d.fs.clusterSize ∧
    Cursor.ByteFile.checkRun d.fs.clusterSize (ops.map HOp.toOp) (runH ops f d).1 (absFile d.fs d.img f).abs =
      .ok (absFile (runH ops f d).2.2.fs (runH ops f d).2.2.img (runH ops f d).2.1).abs
  | [], f, d, h, _ => ⟨h, rfl, rfl⟩
  | op :: ops, f, d, h, hok => by
    have hop := hok.cons
    obtain ⟨hi, hcs, hchk⟩ := execH_refines op f d h hop.1
    obtain ⟨ri, rcs, rchk⟩ := fileh_refines_bytefile ops _ _ hi hop.2
    simp only [runH, List.map]
    refine ⟨ri, rcs.trans hcs, ?_⟩
    simp only [Cursor.ByteFile.checkRun, hchk]
    rw [hcs] at rchk
    exact rchk

end FatVerif.FileSim

/-! ## the statements are not vacuous: a FAT16 volume with a two-cluster file -/

namespace FatVerif.FileSim.Ex
open FatVerif FatVerif.Fat FatVerif.FileSim

/-- FAT16, 512-byte clusters, 1 reserved sector, 2 FATs of 1 sector (`[512, 1536)`), 1 root sector, data from sector 4:
    cluster `c` at byte `(4 + (c - 2)) * 512`; 5 data clusters -/
def fs16 : FsState :=
  { fatType := .fat16, bps := 512, spc := 1, reserved := 1, fats := 2, spf := 1, totalClusters := 5,
    firstDataSector := 4, rootEntries := 16, rootDirSectors := 1, fsInfo := { free := some 3 } }

/-- FAT: `3 → 5 → EOC`; the last three bytes of cluster 3 (`[2560, 3072)`) and the first three of cluster 5
    (`[3584, 4096)`) are marked -/
def img16 : Img :=
  ((((Img.empty 8192).write 518 [5, 0]).write 522 [0xFF, 0xFF]).write 3069 [11, 12, 13]).write 3584 [21, 22, 23]

def dev16 : Dev := { img := img16, fs := fs16 }

/-- a 1020-byte file on the chain `[3, 5]`, cursor at 509 (three bytes before the cluster boundary) -/
def file16 : FileH :=
  { firstCluster := some 3, currentCluster := some 3, offset := 509,
    entry := some (DirEntryEditor.new { DirFileEntryData.new (List.replicate 11 65) 0 with size := 1020 } 1536) }

theorem chain16 : fileChain fs16 img16 file16 = [3, 5] := by decide +kernel

theorem geo16 : Geo fs16 img16.size where
  bps_pos := by decide
  spc_pos := by decide
  status_lt := by decide
  ents := by
    intro c hc
    have : c < 7 := hc
    show c * 2 + 2 ≤ 512
    omega
  mirrors_pos := by decide
  fat_data := by decide
  data_dev := by decide
  u32a := by decide
  u32b := by decide
  fat_u32 := by decide
  small := by decide

theorem rep16 : FileRep fs16 img16 file16 where
  file := ⟨1020, by decide⟩
  inv := {
    cs_pos := by decide
    nodup := by show (fileChain fs16 img16 file16).Nodup; rw [chain16]; decide
    first := by show some 3 = (fileChain fs16 img16 file16).head?; rw [chain16]; rfl
    cover := by show 1020 ≤ (fileChain fs16 img16 file16).length * 512; rw [chain16]; decide
    off_le := by decide
    size_le := by decide
    cur := by
      show some 3 = if 509 = 0 then none else (fileChain fs16 img16 file16)[(509 - 1) / 512]?
      rw [chain16]; rfl
    live := by
      intro c hc
      have hc' : c ∈ fileChain fs16 img16 file16 := hc
      rw [chain16] at hc'
      have : c = 3 ∨ c = 5 := by simpa using hc'
      rcases this with rfl | rfl <;> (unfold viewFree; decide +kernel) }
  chain := by
    intro c hc
    have : c = 3 := (Option.some.inj hc).symm
    subst this
    rw [chain16]
    exact Chain.cons 3 5 [5] (by decide +kernel)
      (Chain.last 5 (by intro n; have : tabView fs16 img16 5 = .eoc := by decide +kernel
                        rw [this]; intro h; cases h))
  inTab := by
    intro c hc
    rw [chain16] at hc
    have : c = 3 ∨ c = 5 := by simpa using hc
    rcases this with rfl | rfl <;> decide
  last_eoc := by
    intro c hc
    rw [chain16] at hc
    have : c = 5 := by simpa using hc.symm
    subst this
    decide +kernel

theorem wf16 : img16.WF :=
  Img.wf_write _ (Img.wf_write _ (Img.wf_write _ (Img.wf_write _ (Img.wf_empty _) _ _) _ _) _ _) _ _

theorem info16 : InfoOk fs16 img16 where
  hint := by intro n h; cases h
  count := by
    intro n h
    have : n = 3 := (Option.some.inj h).symm
    subst this
    decide +kernel

/-- the hypotheses of the simulation theorems hold for this device and handle -/
theorem simInv16 : SimInv file16 dev16 := ⟨rfl, wf16, geo16, rep16, info16⟩

/-- a history: read up to the cluster boundary, overwrite the first two bytes of the next cluster, go back, read
    across the boundary in two calls, an invalid seek, a seek beyond the end (clamps to 1020); then append 6 bytes:
    the first call fills cluster 5 (4 bytes, short write), the second one allocates a cluster through the FAT of the
    image; finally truncate at 600 (frees the new cluster) and read at the end -/
def ops16 : List HOp :=
  [.read 10, .write [7, 8], .seek (.start 510), .read 10, .read 4, .seek (.cur (-600)), .seek (.start 9999),
   .write [1, 2, 3, 4, 5, 6], .write [5, 6], .seek (.start 600), .truncate, .seek (.fromEnd 5), .read 3]

theorem bytesOk16 : BytesOk ops16 := ⟨by decide, by decide, by decide, trivial⟩

/-- the byte-level model, evaluated -/
theorem run16 : (runH ops16 file16 dev16).1 =
    [.bytes [11, 12, 13], .count 2, .pos 510, .bytes [12, 13], .bytes [7, 8, 23, 0], .err .invalidInput, .pos 1020,
     .count 4, .count 2, .pos 600, .unit, .pos 600, .bytes []] := by
  decide +kernel

/-- the new cluster was taken from the FAT of the image (cluster 2, the first free one) and linked after 5 -/
theorem fat16_alloc :
    fileChain (runH (ops16.take 9) file16 dev16).2.2.fs (runH (ops16.take 9) file16 dev16).2.2.img
      (runH (ops16.take 9) file16 dev16).2.1 = [3, 5, 2] := by
  decide +kernel

/-- … and freed again by the truncate: afterwards the chain of the file is `3 → 5` and cluster 2 is free -/
theorem fat16_after :
    fileChain (runH ops16 file16 dev16).2.2.fs (runH ops16 file16 dev16).2.2.img (runH ops16 file16 dev16).2.1 = [3, 5] ∧
    tabView (runH ops16 file16 dev16).2.2.fs (runH ops16 file16 dev16).2.2.img 2 = .free := by
  decide +kernel

/-- … and the cursor machine on the abstraction of the same handle gives the same results -/
theorem machine16 :
    (Cursor.AFile.run (fatAllocator 5 none) (ops16.map HOp.toOp)
      (absFile fs16 img16 file16) (tabView fs16 img16)).1 =
    [.bytes [11, 12, 13], .count 2, .pos 510, .bytes [12, 13], .bytes [7, 8, 23, 0], .err .invalidInput, .pos 1020,
     .count 4, .count 2, .pos 600, .unit, .pos 600, .bytes []] := by
  decide +kernel

/-- the conclusion theorem applied to the example: the evaluated results are accepted by the specification -/
theorem spec16 :
    Cursor.ByteFile.checkRun 512 (ops16.map HOp.toOp)
      [.bytes [11, 12, 13], .count 2, .pos 510, .bytes [12, 13], .bytes [7, 8, 23, 0], .err .invalidInput, .pos 1020,
       .count 4, .count 2, .pos 600, .unit, .pos 600, .bytes []]
      (absFile fs16 img16 file16).abs =
    .ok (absFile (runH ops16 file16 dev16).2.2.fs (runH ops16 file16 dev16).2.2.img (runH ops16 file16 dev16).2.1).abs := by
  have := (fileh_refines_bytefile ops16 file16 dev16 simInv16 bytesOk16).2.2
  rw [run16] at this
  exact this

end FatVerif.FileSim.Ex
