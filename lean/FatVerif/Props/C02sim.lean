import FatVerif.Proofs.FileSimRead
import FatVerif.Proofs.FileSimSeek
import FatVerif.Proofs.FileSimWrite
/-!
# C02, simulation: the byte-level `File` of Model/File.lean refines the byte array with a cursor

`Props/C02.lean` proves that the cursor machine `Cursor.AFile` refines the specification `Cursor.ByteFile`.
This file ties the byte-level, call-exact model `FileH` (programs over `Prog`, run on a device image) to that machine on
the fault-free path (`failAt = none`), and composes the two.

* abstraction `FileSim.absFile fs img f`, representation invariant `FileSim.FileRep fs img f`, layout `FileSim.Geo`
  (Proofs/FileSimIter.lean, Proofs/FileSimDefs.lean);
* `FileSim.read_sim`, `FileSim.seek_sim` (Proofs/FileSimRead.lean, Proofs/FileSimSeek.lean);
* `FileSim.write_sim_noalloc` (Proofs/FileSimWrite.lean);
* `fileh_refines_bytefile_partial` below.
-/
namespace FatVerif.FileSim
open FatVerif FatVerif.Fat

/-- operations of a history on one byte-level handle -/
inductive HOp where
  | read (n : Nat)
  | seek (p : FatVerif.SeekFrom)
  | write (bs : List Nat)
  deriving Repr

/-- the corresponding operation of the cursor machine / the specification -/
def HOp.toOp : HOp → Cursor.FileOp
  | .read n => .read n
  | .seek p => .seek (convSeek p)
  | .write bs => .write bs

/-- run ONE operation of the byte-level model: observable result, new handle (the old one after an error), device -/
def execH (op : HOp) (f : FileH) (d : Dev) : Cursor.FileRes × FileH × Dev :=
  match op with
  | .read n =>
    match run (f.read n) d with
    | (.ok (bs, f'), d') => (.bytes bs, f', d')
    | (.error e, d') => (.err e, f, d')
  | .seek p =>
    match run (f.seek p) d with
    | (.ok (pos, f'), d') => (.pos pos, f', d')
    | (.error e, d') => (.err e, f, d')
  | .write bs =>
    match run (f.write bs) d with
    | (.ok (k, f'), d') => (.count k, f', d')
    | (.error e, d') => (.err e, f, d')

/-- a history -/
def runH : List HOp → FileH → Dev → List Cursor.FileRes × FileH × Dev
  | [], f, d => ([], f, d)
  | op :: ops, f, d =>
    let r := execH op f d
    let rest := runH ops r.2.1 r.2.2
    (r.1 :: rest.1, rest.2)

/-- the standing hypotheses: no scheduled fault, well-formed page table of the image, the layout fits the device,
    the handle is represented -/
structure SimInv (f : FileH) (d : Dev) : Prop where
  nofault : d.failAt = none
  wf : d.img.WF
  geo : Geo d.fs d.img.size
  rep : FileRep d.fs d.img f

/-- side condition of the partial theorem on ONE operation: a `write` carries bytes and does not need a new
    cluster (it has nothing to write, or the cursor is inside a cluster, or on a boundary with a next cluster) -/
def OpOk (op : HOp) (f : FileH) (d : Dev) : Prop :=
  match op with
  | .write bs => (∀ b ∈ bs, b < 256) ∧
      ((absFile d.fs d.img f).writeLen bs.length = 0 ∨ (absFile d.fs d.img f).readCluster ≠ none)
  | _ => True

/-- … along a history -/
def RunOk : List HOp → FileH → Dev → Prop
  | [], _, _ => True
  | op :: ops, f, d => OpOk op f d ∧ RunOk ops (execH op f d).2.1 (execH op f d).2.2

/-- the allocator of the machine for steps that do not allocate -/
def noAlloc : Cursor.Allocator (Nat → FatValue) where
  alloc := fun _ => none
  release := fun _ s => s

theorem noAlloc_laws : Cursor.AllocLaws noAlloc viewFree where
  alloc_free := by intro s c s' h; cases h
  alloc_frame := by intro s c s' d h; cases h
  release_sub := by intro l s d h; exact Or.inl h

/-- one step: the invariants are kept, the cluster size stays, and the observable result is accepted by the
    `ByteFile` oracle, which moves from the abstraction of the old state to that of the new one -/
theorem execH_refines (op : HOp) (f : FileH) (d : Dev) (h : SimInv f d) (hok : OpOk op f d) :
    SimInv (execH op f d).2.1 (execH op f d).2.2 ∧
    (execH op f d).2.2.fs.clusterSize = d.fs.clusterSize ∧
    Cursor.ByteFile.check d.fs.clusterSize op.toOp (execH op f d).1 (absFile d.fs d.img f).abs =
      .ok (absFile (execH op f d).2.2.fs (execH op f d).2.2.img (execH op f d).2.1).abs := by
  obtain ⟨hfa, hwf, hg, hrep⟩ := h
  cases op with
  | read n =>
    obtain ⟨bs, f', d', hr, hs, hres, hab, hrep'⟩ := read_sim f n d hfa hg hrep
    obtain ⟨l, hl, hchk⟩ := hrep.inv.read_refines n
    rw [hres] at hl; cases hl
    simp only [execH, hr, HOp.toOp]
    refine ⟨⟨by rw [hs.failAt]; exact hfa, by rw [hs.img]; exact hwf, by rw [hs.fs, hs.img]; exact hg,
      by rw [hs.fs, hs.img]; exact hrep'⟩, by rw [hs.fs], ?_⟩
    rw [hs.fs, hs.img, hab]; exact hchk
  | seek p =>
    rcases seek_sim f p d hfa hg hrep with ⟨pos, f', d', hr, hs, hres, hab, hrep'⟩ | ⟨hr, hm⟩
    · rcases hrep.inv.seek_refines (convSeek p) with ⟨q, hq, hchk⟩ | ⟨he, _, _⟩
      · rw [hres] at hq; cases hq
        simp only [execH, hr, HOp.toOp]
        refine ⟨⟨by rw [hs.failAt]; exact hfa, by rw [hs.img]; exact hwf, by rw [hs.fs, hs.img]; exact hg,
          by rw [hs.fs, hs.img]; exact hrep'⟩, by rw [hs.fs], ?_⟩
        rw [hs.fs, hs.img, hab]; exact hchk
      · rw [hres] at he; cases he
    · rcases hrep.inv.seek_refines (convSeek p) with ⟨q, hq, _⟩ | ⟨_, _, hchk⟩
      · rw [hm] at hq; cases hq
      · simp only [execH, hr, HOp.toOp]
        exact ⟨⟨hfa, hwf, hg, hrep⟩, trivial, hchk⟩
  | write bs =>
    obtain ⟨hbytes, hno⟩ := hok
    obtain ⟨k, f', d', hr, hs, hres, _, hcore, hrep', _, _, _⟩ :=
      write_sim_noalloc noAlloc (tabView d.fs d.img) f bs d hfa hg hrep hwf hbytes hno
    simp only [execH, hr, HOp.toOp]
    refine ⟨⟨by rw [hs.failAt]; exact hfa, hs.wf hwf, by rw [hs.size]; exact hg.frame hs.geom, hrep'⟩,
      hs.geom.clusterSize, ?_⟩
    rcases hrep.inv.write_refines noAlloc_laws bs with ⟨he, _⟩ | ⟨hres', hi, _, _, hchk⟩
    · rw [he] at hres; cases hres
    · rw [hres] at hres'
      have hk : k = (absFile d.fs d.img f).writeLen bs.length := Except.ok.inj hres'
      rw [hk]
      have habs := hcore.abs_eq hi.cs_pos hi.cover
      rw [habs]; exact hchk

/-- **`fileh_refines_bytefile_partial`.**  For every finite sequence of `read` / `seek` (all three forms) /
    `write` on one handle of the byte-level model `FileH`, started in a state satisfying the invariants (no scheduled
    device fault, well-formed image pages, layout `Geo`, representation invariant `FileRep`): the observable results
    — the bytes of every read, the position or the `InvalidInput` of every seek, the count of every write — are
    exactly what the byte array with a cursor prescribes (`ByteFile.checkRun`, short-read / short-write rule
    included), from `abs (absFile …)` of the initial handle on the initial image to that of the final handle on the
    final image; the invariants hold again.

    PARTIAL.  Missing pieces, spelled out by `RunOk`: (1) every `write` of the history carries bytes `< 256` and does
    NOT need a new cluster (overwrite / extension inside the chain); the simulation of `alloc_cluster` on the FAT bytes
    is not done.  (2) `truncate` is not in the alphabet.  (3) single handle, fault-free device. -/
theorem fileh_refines_bytefile_partial : ∀ (ops : List HOp) (f : FileH) (d : Dev), SimInv f d → RunOk ops f d →
    SimInv (runH ops f d).2.1 (runH ops f d).2.2 ∧
    (runH ops f d).2.2.fs.clusterSize = d.fs.clusterSize ∧
    Cursor.ByteFile.checkRun d.fs.clusterSize (ops.map HOp.toOp) (runH ops f d).1 (absFile d.fs d.img f).abs =
      .ok (absFile (runH ops f d).2.2.fs (runH ops f d).2.2.img (runH ops f d).2.1).abs
  | [], f, d, h, _ => ⟨h, rfl, rfl⟩
  | op :: ops, f, d, h, hok => by
    obtain ⟨hi, hcs, hchk⟩ := execH_refines op f d h hok.1
    obtain ⟨ri, rcs, rchk⟩ := fileh_refines_bytefile_partial ops _ _ hi hok.2
    simp only [runH, List.map]
    refine ⟨ri, rcs.trans hcs, ?_⟩
    simp only [Cursor.ByteFile.checkRun, hchk]
    rw [hcs] at rchk
    exact rchk

/-- read-only histories need no side condition -/
theorem runOk_of_readonly : ∀ (ops : List HOp) (f : FileH) (d : Dev),
    (∀ op ∈ ops, ∀ bs, op ≠ .write bs) → RunOk ops f d
  | [], _, _, _ => trivial
  | op :: ops, f, d, h => by
    refine ⟨?_, runOk_of_readonly ops _ _ (fun o ho => h o (List.mem_cons_of_mem _ ho))⟩
    cases op with
    | write bs => exact absurd rfl (h _ (List.mem_cons_self) bs)
    | read n => trivial
    | seek p => trivial

end FatVerif.FileSim

/-! ## the statements are not vacuous: a FAT16 volume with a two-cluster file -/

namespace FatVerif.FileSim.Ex
open FatVerif FatVerif.Fat FatVerif.FileSim

/-- FAT16, 512-byte clusters, 1 reserved sector, 2 FATs of 1 sector (`[512, 1536)`), 1 root sector, data from sector 4:
    cluster `c` at byte `(4 + (c - 2)) * 512`; 5 data clusters -/
def fs16 : FsState :=
  { fatType := .fat16, bps := 512, spc := 1, reserved := 1, fats := 2, spf := 1, totalClusters := 5,
    firstDataSector := 4, rootEntries := 16, rootDirSectors := 1, fsInfo := { free := some 3 } }

/-- FAT: `3 → 5 → EOC`; the last three bytes of cluster 3 (`[2560, 3072)`) and the first three of cluster 5
    (`[3584, 4096)`) are marked -/
def img16 : Img :=
  ((((Img.empty 8192).write 518 [5, 0]).write 522 [0xFF, 0xFF]).write 3069 [11, 12, 13]).write 3584 [21, 22, 23]

def dev16 : Dev := { img := img16, fs := fs16 }

/-- a 700-byte file on the chain `[3, 5]`, cursor at 509 (three bytes before the cluster boundary) -/
def file16 : FileH :=
  { firstCluster := some 3, currentCluster := some 3, offset := 509,
    entry := some (DirEntryEditor.new { DirFileEntryData.new (List.replicate 11 65) 0 with size := 700 } 1536) }

theorem chain16 : fileChain fs16 img16 file16 = [3, 5] := by decide +kernel

theorem geo16 : Geo fs16 img16.size where
  bps_pos := by decide
  spc_pos := by decide
  status_lt := by decide
  ents := by
    intro c hc
    have : c < 7 := hc
    show c * 2 + 2 ≤ 512
    omega
  mirrors_pos := by decide
  fat_data := by decide
  data_dev := by decide
  u32a := by decide
  u32b := by decide
  fat_u32 := by decide
  small := by decide

theorem rep16 : FileRep fs16 img16 file16 where
  file := ⟨700, by decide⟩
  inv := {
    cs_pos := by decide
    nodup := by show (fileChain fs16 img16 file16).Nodup; rw [chain16]; decide
    first := by show some 3 = (fileChain fs16 img16 file16).head?; rw [chain16]; rfl
    cover := by show 700 ≤ (fileChain fs16 img16 file16).length * 512; rw [chain16]; decide
    off_le := by decide
    size_le := by decide
    cur := by
      show some 3 = if 509 = 0 then none else (fileChain fs16 img16 file16)[(509 - 1) / 512]?
      rw [chain16]; rfl
    live := by
      intro c hc
      have hc' : c ∈ fileChain fs16 img16 file16 := hc
      rw [chain16] at hc'
      have : c = 3 ∨ c = 5 := by simpa using hc'
      rcases this with rfl | rfl <;> (unfold viewFree; decide +kernel) }
  chain := by
    intro c hc
    have : c = 3 := (Option.some.inj hc).symm
    subst this
    rw [chain16]
    exact Chain.cons 3 5 [5] (by decide +kernel)
      (Chain.last 5 (by intro n; have : tabView fs16 img16 5 = .eoc := by decide +kernel
                        rw [this]; intro h; cases h))
  inTab := by
    intro c hc
    rw [chain16] at hc
    have : c = 3 ∨ c = 5 := by simpa using hc
    rcases this with rfl | rfl <;> decide
  last_eoc := by
    intro c hc
    rw [chain16] at hc
    have : c = 5 := by simpa using hc.symm
    subst this
    decide +kernel

theorem wf16 : img16.WF :=
  Img.wf_write _ (Img.wf_write _ (Img.wf_write _ (Img.wf_write _ (Img.wf_empty _) _ _) _ _) _ _) _ _

/-- the hypotheses of the simulation theorems hold for this device and handle -/
theorem simInv16 : SimInv file16 dev16 := ⟨rfl, wf16, geo16, rep16⟩

/-- a history: read up to the cluster boundary, overwrite the first two bytes of the next cluster, go back, read
    across the boundary in two calls, an invalid seek, a seek beyond the end -/
def ops16 : List HOp :=
  [.read 10, .write [7, 8], .seek (.start 510), .read 10, .read 4, .seek (.cur (-600)), .seek (.start 9999)]

/-- the side condition of the partial theorem holds: the write happens on a boundary with a next cluster -/
theorem runOk16 : RunOk ops16 file16 dev16 := by
  refine ⟨trivial, ⟨by decide, ?_⟩, trivial, trivial, trivial, trivial, trivial, trivial⟩
  right
  decide +kernel

/-- the byte-level model, evaluated: a read of 10 bytes three bytes before the cluster boundary returns the 3 bytes up
    to the boundary (short read); the write lands in cluster 5 (found through the FAT of the image); the reads after
    the seek return `12 13` and then the overwritten `7 8` followed by `23 0`; a seek before the start is rejected; a
    seek beyond the end clamps to the size 700 -/
theorem run16 : (runH ops16 file16 dev16).1 =
    [.bytes [11, 12, 13], .count 2, .pos 510, .bytes [12, 13], .bytes [7, 8, 23, 0], .err .invalidInput, .pos 700] := by
  decide +kernel

/-- … and the cursor machine on the abstraction of the same handle gives the same results -/
theorem machine16 :
    (Cursor.AFile.run Cursor.counterAllocator (ops16.map HOp.toOp)
      (absFile fs16 img16 file16) { next := 7, free := 3 }).1 =
    [.bytes [11, 12, 13], .count 2, .pos 510, .bytes [12, 13], .bytes [7, 8, 23, 0], .err .invalidInput, .pos 700] := by
  decide +kernel

/-- the conclusion theorem applied to the example: the evaluated results are accepted by the specification -/
theorem spec16 :
    Cursor.ByteFile.checkRun 512 (ops16.map HOp.toOp)
      [.bytes [11, 12, 13], .count 2, .pos 510, .bytes [12, 13], .bytes [7, 8, 23, 0], .err .invalidInput, .pos 700]
      (absFile fs16 img16 file16).abs =
    .ok (absFile (runH ops16 file16 dev16).2.2.fs (runH ops16 file16 dev16).2.2.img (runH ops16 file16 dev16).2.1).abs := by
  have := (fileh_refines_bytefile_partial ops16 file16 dev16 simInv16 runOk16).2.2
  rw [run16] at this
  exact this

end FatVerif.FileSim.Ex
