import FatVerif.Proofs.SlotTreeImg2
import FatVerif.Props.C01tree
/-!
# C01, read-only half END TO END at byte level: `open_dir`, `open_file`, listing on a device image

Chain of ties: the programs of the byte-level model (`Model/DirOps.lean`: `openDir`, `openFile`, `listDir`, run over
a device `Dev`) — by agent-effects' read simulation (`Props/C01sim.lean`, `DirSim`) — are the pure readers on the
slots of the image; here they are composed along paths and tied to the slot-tree model (`Model/SlotTree.lean`), which
`Props/C01tree.lean` ties to the specification `Spec/Tree.lean`.

Hypothesis bundle `SlotTreeImg.ImgTree d up t cl` (Proofs/SlotTreeImg1.lean): "the slot tree `t` is what the image of
`d` holds" — for every directory node and every stream denoting it (the root stream, or `to_dir` of any directory
entry carrying its first cluster `cl path`), the directory is readable in the sense of the read simulation
(`DirSim.DirView`: no fault scheduled, geometry, chain of the FAT inside the table, scan fuel — `RootReadable` /
`ChainReadable`) and the entries the reader finds are the two dot entries (none in the root; `.` carries the
directory's cluster, `..` the parent's) followed by exactly the listed entries of the node's slot list; the entry of
a child directory carries the child's cluster.

* `open_dir_img`, `open_file_img`, `list_img`: under `ImgTree`, `TreeWf t`, `DotSafe up` (only `.`/`..` fold like
  `.`/`..`), for EVERY path, every depth, `.`/`..` components included, any fuel larger than the path length: the
  program ends exactly as `SlotTree.openS` / `listS` say — same success, same error kind —, a returned directory
  stream denotes (`Den`) the directory the slot tree resolves to, and the volume is untouched (`Reads`/`FailsV` carry
  `SameVol`: image, mounted state, fault schedule and write records equal; only `flush` records may be logged by the
  destructors of cluster-chain directory handles).  No alias hypothesis: the model answers alias queries like the code.
* `readonly_calls_refine_spec_img`: composed with `C01tree.slot_step_refines` — the byte-level outcome is accepted by
  `Spec.evalOp` on `abs t` (hypotheses `OpOk`: `SplitAgree`, `QAll`, live handle — as in `C01tree`).

`decodeImage` of `Model/SlotTreeOracle.lean` (the executable image → slot tree used by the run-time correspondence)
reads slots through `Spec/FatSpec`'s array reader; it is NOT proved equal to the `DirSim` slot readers here.  `ImgTree`
is stated directly over the `DirSim` readers; the two are related by the correspondence runs (the oracle compares
`decodeImage` of every image with the model's tree) and by the example below.

Not covered: the mutating calls (they need the write simulation: see `create_file_img_statement` at the end for the
exact lemmas required), `update_accessed_date` on (a `ChainReadable` side condition), faults.
-/
namespace FatVerif
namespace C01img
open Lfn DirSlots DirAlias SlotTree DirSim SlotTreeImg C01tree

section
variable {d : Dev} {up : Char → List Char} {t : Node} {cl : List String → Option Nat}

/-- **`open_dir` on the image = `openS` on the slot tree** -/
theorem open_dir_img (I : ImgTree d up t cl) (hwf : TreeWf up t) (hup : DotSafe up) (env : Env)
    (henv : env.upper = up) (cwd : List String) (st : DirStream) (hden : Den d up t cl cwd st) (path : String)
    (fuel : Nat) (hfuel : path.toList.length < fuel) :
    (∀ rows, (openS up t cwd path true).out = .ok rows →
      ∃ (de : DirEntry) (p : List String) (n : Node),
        (∀ d1, SameVol d d1 → Reads (openDir env fuel st path) d1 (DirEntry.dirStream d.fs de)) ∧
        openRes up t cwd (pathParts path) = .ok (p, n) ∧ Den d up t cl p (DirEntry.dirStream d.fs de)) ∧
    (∀ e, (openS up t cwd path true).out = .error e →
      ∀ d1, SameVol d d1 → FailsV (openDir env fuel st path) d1 e) := by
  have W := openDir_walk I hwf hup env henv path.toList.length path.toList (Nat.le_refl _) fuel hfuel cwd st hden
  rw [String.ofList_toList] at W
  have hpp : pathParts path = splitAll path.toList.length path.toList := rfl
  rw [openS_eq, hpp]
  cases hres : openRes up t cwd (splitAll path.toList.length path.toList) with
  | error e =>
    rw [hres] at W
    refine ⟨fun rows h => (by cases h), fun e' he' => ?_⟩
    have : e' = e := by simpa [fail] using he'.symm
    rw [this]; exact W
  | ok pn =>
    obtain ⟨p, n⟩ := pn
    rw [hres] at W
    unfold OpenDirRel at W
    simp only at W ⊢
    by_cases hk : n.isDir = true
    · rw [if_pos hk] at W
      obtain ⟨de, hr, _, hden', _⟩ := W
      simp only [hk, beq_self_eq_true, if_true]
      exact ⟨fun _ _ => ⟨de, p, n, hr, rfl, hden'⟩, fun e he => by cases he⟩
    · rw [if_neg hk] at W
      have hb : (n.isDir == true) = false := by simpa using hk
      simp only [hb, Bool.false_eq_true, if_false]
      refine ⟨fun rows h => (by cases h), fun e' he' => ?_⟩
      have : e' = .invalidInput := by simpa [fail] using he'.symm
      rw [this]; exact W

/-- **`open_file` on the image = `openS` on the slot tree** -/
theorem open_file_img (I : ImgTree d up t cl) (hwf : TreeWf up t) (hup : DotSafe up) (env : Env)
    (henv : env.upper = up) (cwd : List String) (st : DirStream) (hden : Den d up t cl cwd st) (path : String)
    (fuel : Nat) (hfuel : path.toList.length < fuel) :
    (∀ rows, (openS up t cwd path false).out = .ok rows →
      ∃ (de : DirEntry) (p : List String) (n : Node),
        (∀ d1, SameVol d d1 →
          Reads (openFile env fuel st path) d1 (FileH.new (de.firstCluster d.fs) (some de.editor))) ∧
        de.isDir = false ∧ openRes up t cwd (pathParts path) = .ok (p, n) ∧ getAtS up t p = some n) ∧
    (∀ e, (openS up t cwd path false).out = .error e →
      ∀ d1, SameVol d d1 → FailsV (openFile env fuel st path) d1 e) := by
  have W := openFile_walk I hwf hup env henv path.toList.length path.toList (Nat.le_refl _) fuel hfuel cwd st hden
  rw [String.ofList_toList] at W
  have hpp : pathParts path = splitAll path.toList.length path.toList := rfl
  rw [openS_eq, hpp]
  cases hres : openRes up t cwd (splitAll path.toList.length path.toList) with
  | error e =>
    rw [hres] at W
    refine ⟨fun rows h => (by cases h), fun e' he' => ?_⟩
    have : e' = e := by simpa [fail] using he'.symm
    rw [this]; exact W
  | ok pn =>
    obtain ⟨p, n⟩ := pn
    rw [hres] at W
    unfold OpenFileRel at W
    simp only at W ⊢
    by_cases hk : n.isDir = false
    · rw [if_pos hk] at W
      obtain ⟨de, hr, hdir, hg⟩ := W
      simp only [hk, beq_self_eq_true, if_true]
      exact ⟨fun _ _ => ⟨de, p, n, hr, hdir, rfl, hg⟩, fun e he => by cases he⟩
    · rw [if_neg hk] at W
      have hb : (n.isDir == false) = false := by simpa using hk
      simp only [hb, Bool.false_eq_true, if_false]
      refine ⟨fun rows h => (by cases h), fun e' he' => ?_⟩
      have : e' = .invalidInput := by simpa [fail] using he'.symm
      rw [this]; exact W

/-- **the listing on the image = `listS` on the slot tree**: `Dir::iter()` through a stream denoting the directory at
    `cwd` returns the dot entries (none in the root) and then, entry for entry, the image records of the entries
    `listS` lists (same names — long-name units and raw short name —, same kinds), and nothing else -/
theorem list_img (I : ImgTree d up t cl) (cwd : List String) (st : DirStream) (hden : Den d up t cl cwd st) :
    ∃ (slots : List (List Nat)) (src : Nat → Nat) (dots : List LfnEntry) (k : Nat),
      (listS up t cwd).out = .ok ((listing slots).map fun e => (entryName e, Lfn.isDir e.sfn)) ∧
      (cwd = [] → dots = []) ∧ (cwd ≠ [] → dots.length = 2) ∧
      ∀ d1, SameVol d d1 →
        Reads (listDir st) d1 ((dots ++ (listing slots).map (shiftE k)).map (toDirEntryS src)) := by
  obtain ⟨⟨slots, ch, hg⟩, hs⟩ := hden
  obtain ⟨V, dots, k, hI, hr⟩ := listDir_den I cwd st slots ch hg hs
  refine ⟨slots, V.src, dots, k, by unfold listS; rw [hg], hI.rootDots, ?_, hr⟩
  intro hne
  obtain ⟨e1, e2, h, _⟩ := hI.subDots hne
  rw [h]; rfl

end

/-! ## composed with the refinement of the specification -/

/-- **C01, read-only calls, byte level ⟶ specification.**  On a fault-free device whose image holds the well-formed
    slot tree `t` (`ImgTree`), for `open_dir`, `open_file` and the listing, on every path: the byte-level program either
    succeeds — and the specification `Spec.evalOp` on `abs t` demands success and keeps its tree — or fails with an
    error kind the specification accepts; in both cases the volume (image, write records) is untouched, so `abs` of
    what the image holds is unchanged. -/
theorem readonly_calls_refine_spec_img (u : Char → List Char) {d : Dev} {t : Node} {cl : List String → Option Nat}
    (I : ImgTree d (upOf u) t cl) (hwf : TreeWf (upOf u) t) (hup : DotSafe (upOf u)) (env : Env)
    (henv : env.upper = upOf u) (cwd : List String) (st : DirStream) (hden : Den d (upOf u) t cl cwd st)
    (path : String) (fuel : Nat) (hfuel : path.toList.length < fuel) :
    -- open_dir
    (OpOk (upOf u) t (.openDir cwd path) →
      ((∃ de : DirEntry, ∀ d1, SameVol d d1 → Reads (openDir env fuel st path) d1 (DirEntry.dirStream d.fs de)) ∧
        (Spec.evalOp (cfgOf u) (abs t) (.openDir cwd path)).errs = [] ∧
        (Spec.evalOp (cfgOf u) (abs t) (.openDir cwd path)).tree = abs t) ∨
      (∃ e, (∀ d1, SameVol d d1 → FailsV (openDir env fuel st path) d1 e) ∧
        e ∈ (Spec.evalOp (cfgOf u) (abs t) (.openDir cwd path)).errs)) ∧
    -- open_file
    (OpOk (upOf u) t (.openFile cwd path) →
      ((∃ de : DirEntry, ∀ d1, SameVol d d1 →
          Reads (openFile env fuel st path) d1 (FileH.new (de.firstCluster d.fs) (some de.editor))) ∧
        (Spec.evalOp (cfgOf u) (abs t) (.openFile cwd path)).errs = [] ∧
        (Spec.evalOp (cfgOf u) (abs t) (.openFile cwd path)).tree = abs t) ∨
      (∃ e, (∀ d1, SameVol d d1 → FailsV (openFile env fuel st path) d1 e) ∧
        e ∈ (Spec.evalOp (cfgOf u) (abs t) (.openFile cwd path)).errs)) ∧
    -- list
    (OpOk (upOf u) t (.list cwd) →
      (∃ es : List DirEntry, ∀ d1, SameVol d d1 → Reads (listDir st) d1 es) ∧
        (Spec.evalOp (cfgOf u) (abs t) (.list cwd)).errs = [] ∧
        (Spec.evalOp (cfgOf u) (abs t) (.list cwd)).tree = abs t) := by
  refine ⟨fun hok => ?_, fun hok => ?_, fun hok => ?_⟩
  · obtain ⟨_, _, hacc⟩ := slot_step_refines u 0 t hwf (.openDir cwd path) [] hok
    obtain ⟨o1, o2⟩ := open_dir_img I hwf hup env henv cwd st hden path fuel hfuel
    simp only [stepSlot] at hacc
    unfold Accepts at hacc
    cases hout : (openS (upOf u) t cwd path true).out with
    | ok rows =>
      rw [hout] at hacc
      obtain ⟨de, _, _, hr, _, _⟩ := o1 rows hout
      have htree : (openS (upOf u) t cwd path true).tree = t := (open_refines u t hwf cwd hok.1 path hok.2 true).1
      exact Or.inl ⟨⟨de, hr⟩, hacc.1, by rw [hacc.2, htree]⟩
    | error e =>
      rw [hout] at hacc
      refine Or.inr ⟨e, o2 e hout, ?_⟩
      rcases hacc with h | h
      · exfalso
        rw [openS_eq] at hout
        cases hres : openRes (upOf u) t cwd (pathParts path) with
        | error e' =>
          rw [hres] at hout
          have : e = e' := by simpa [fail] using hout.symm
          exact openRes_err hres (this ▸ h)
        | ok pn =>
          rw [hres] at hout
          simp only at hout
          split at hout
          · cases hout
          · have : e = .invalidInput := by simpa [fail] using hout.symm
            rw [this] at h; cases h
      · exact h
  · obtain ⟨_, _, hacc⟩ := slot_step_refines u 0 t hwf (.openFile cwd path) [] hok
    obtain ⟨o1, o2⟩ := open_file_img I hwf hup env henv cwd st hden path fuel hfuel
    simp only [stepSlot] at hacc
    unfold Accepts at hacc
    cases hout : (openS (upOf u) t cwd path false).out with
    | ok rows =>
      rw [hout] at hacc
      obtain ⟨de, _, _, hr, _, _, _⟩ := o1 rows hout
      have htree : (openS (upOf u) t cwd path false).tree = t := (open_refines u t hwf cwd hok.1 path hok.2 false).1
      exact Or.inl ⟨⟨de, hr⟩, hacc.1, by rw [hacc.2, htree]⟩
    | error e =>
      rw [hout] at hacc
      refine Or.inr ⟨e, o2 e hout, ?_⟩
      rcases hacc with h | h
      · exfalso
        rw [openS_eq] at hout
        cases hres : openRes (upOf u) t cwd (pathParts path) with
        | error e' =>
          rw [hres] at hout
          have : e = e' := by simpa [fail] using hout.symm
          exact openRes_err hres (this ▸ h)
        | ok pn =>
          rw [hres] at hout
          simp only at hout
          split at hout
          · cases hout
          · have : e = .invalidInput := by simpa [fail] using hout.symm
            rw [this] at h; cases h
      · exact h
  · obtain ⟨_, _, hacc⟩ := slot_step_refines u 0 t hwf (.list cwd) [] hok
    obtain ⟨slots, src, dots, k, hout, _, _, hr⟩ := list_img I cwd st hden
    simp only [stepSlot] at hacc
    unfold Accepts at hacc
    rw [hout] at hacc
    have htree : (listS (upOf u) t cwd).tree = t := (list_refines u t hwf cwd hok).1
    exact ⟨⟨_, hr⟩, hacc.1, by rw [hacc.2, htree]⟩

/-! ## non-vacuity: a FAT16 image holding `/sub/Hello World.txt`, `sub` a directory of two clusters

The slot tree is `C01tree.Ex.root0` with the cluster of `sub` (2) in its short slot; the image is built from the
model's own slot lists: boot sector, one FAT sector (2 → 3 → end of chain), the root region (sector 2) holding the two
slots of `sub`, cluster 2 holding `.`, `..` and the three slots of `Hello World.txt`, cluster 3 empty. -/

namespace Ex4
open C01tree.Ex

def fs : FsState := DirSim.Ex2.fs
/-- body bytes 12…31 of a short slot whose first cluster is 2 -/
def stampC2 : List Nat := List.replicate 14 0 ++ [2, 0] ++ List.replicate 4 0
def sfnSub2 : List Nat := sfnWith aliasSub (newBody true stampC2)
def unitsSub : List Nat := Names.encodeUtf16 "sub".toList
def unitsHello : List Nat := Names.encodeUtf16 "Hello World.txt".toList
def rootSlots : List (List Nat) := DirSlots.writeEntry [] unitsSub sfnSub2
def subSlots : List (List Nat) := DirSlots.writeEntry [] unitsHello sfnHello
def dotSlot : List Nat := dotRaw ++ 16 :: stampC2
def dotDotSlot : List Nat := dotDotRaw ++ 16 :: List.replicate 20 0

/-- the slot tree -/
def root4 : Node := addEntry unitsSub sfnSub2 sub0 (.dir [] [])

def pad512 (l : List Nat) : List Nat := l ++ List.replicate (512 - l.length) 0

def bytes : List Nat :=
  List.replicate 512 0 ++
  pad512 [0xF8, 0xFF, 0xFF, 0xFF, 3, 0, 0xFF, 0xFF] ++
  pad512 rootSlots.flatten ++
  pad512 (dotSlot ++ dotDotSlot ++ subSlots.flatten)

def dev : Dev := { img := Img.ofBytes bytes 4096, fs := fs }
def env : Env := ⟨up0⟩
def cl (p : List String) : Option Nat := if p = [] then none else some 2

theorem root4_wf : TreeWf up0 root4 := by
  have hchk : checkForExistenceL up0 [] "sub" (some true) 20 = .ok (.alias aliasSub) := by decide +kernel
  exact (add_success Names.upperAscii (.dir [] []) (treeWf_fresh _ true) [] trivial [] [] rfl "sub"
    sfnSub2 sub0 rfl
    (C16dir.dir_create_wf up0 [] "sub" (some true) 20 aliasSub 16 stampC2 (dirWf_nil _) rfl (by decide) hchk)
    (by decide +kernel) (by decide +kernel) sub0_wf).1

def eSub : LfnEntry := newEntry [] unitsSub sfnSub2
def eHello : LfnEntry := newEntry [] unitsHello sfnHello

theorem root4_eq : root4 = .dir rootSlots [(eSub, sub0)] :=
  addEntry_dir (dirWf_nil up0).shape unitsSub sfnSub2 sub0 [] (by decide) (by decide) (by decide) (by decide)
    (by decide +kernel)

theorem sub0_eq : sub0 = .dir subSlots [(eHello, .file [])] :=
  addEntry_dir (dirWf_nil up0).shape unitsHello sfnHello (.file []) [] (by decide) (by decide) (by decide) (by decide)
    (by decide +kernel)

theorem rootReadable : RootReadable dev 16 := ⟨rfl, by decide, by decide, by decide⟩

open FatVerif.FileSim FatVerif.Fat in
/-- the directory at cluster 2 is readable through the handle of any clean directory entry -/
theorem subReadable (ent : Option DirEntryEditor) (hsz : (FileH.new (some 2) ent).size? = none)
    (hcl : ∀ e, ent = some e → e.dirty = false) : ChainReadable dev 2 ent [2, 3] := by
  have h2 : tabView fs dev.img 2 = .data 3 := by decide +kernel
  have h3 : tabView fs dev.img 3 = .eoc := by decide +kernel
  refine ⟨⟨rfl, ⟨by decide, by decide, by decide, by decide, by decide, by decide, by decide, by decide, by decide,
    by decide, by decide⟩,
    rfl, ?_, by decide, hsz, Or.inl rfl, (fun e he => hcl e he), by decide, by decide⟩, by decide⟩
  exact Chain.cons 2 3 [3] h2 (Chain.last 3 (fun n hn => by
    have : tabView dev.fs dev.img 3 = .eoc := h3
    rw [this] at hn; cases hn))

theorem subReadable_entry (e : DirEntry) (hd : e.isDir = true) : ChainReadable dev 2 (some e.editor) [2, 3] := by
  apply subReadable
  · show e.data.size? = none
    unfold DirFileEntryData.size? DirFileEntryData.isFile
    have : e.data.isDir = true := hd
    simp [this]
  · intro ed hed
    cases hed
    rfl

/-- the directories of the slot tree: the root and `sub` (under any spelling of its name that resolves) -/
theorem dirs_of_root4 (cur : List String) (s : List (List Nat)) (c : List (LfnEntry × Node))
    (h : getAtS up0 root4 cur = some (.dir s c)) :
    (cur = [] ∧ s = rootSlots ∧ c = [(eSub, sub0)]) ∨
    (∃ q, cur = [q] ∧ s = subSlots ∧ c = [(eHello, .file [])]) := by
  rw [root4_eq] at h
  cases cur with
  | nil =>
    simp only [getAtS, Option.some.injEq, Node.dir.injEq] at h
    exact Or.inl ⟨rfl, h.1.symm, h.2.symm⟩
  | cons q r =>
    right
    simp only [getAtS] at h
    cases hl : lookupS up0 rootSlots [(eSub, sub0)] q with
    | none => rw [hl] at h; cases h
    | some x =>
      rw [hl] at h
      have hx := lookupS_mem hl
      simp only [List.mem_singleton] at hx
      rw [hx] at h
      simp only at h
      rw [sub0_eq] at h
      cases r with
      | nil =>
        simp only [getAtS, Option.some.injEq, Node.dir.injEq] at h
        exact ⟨q, rfl, h.1.symm, h.2.symm⟩
      | cons q' r' =>
        exfalso
        simp only [getAtS] at h
        cases hl' : lookupS up0 subSlots [(eHello, .file [])] q' with
        | none => rw [hl'] at h; cases h
        | some y =>
          rw [hl'] at h
          have hy := lookupS_mem hl'
          simp only [List.mem_singleton] at hy
          rw [hy] at h
          cases r' with
          | nil => simp [getAtS] at h
          | cons _ _ => simp [getAtS] at h

theorem shiftE_zero (e : LfnEntry) : shiftE 0 e = e := rfl

/-- **the image holds the slot tree** -/
theorem imgTree : ImgTree dev up0 root4 cl := by
  refine ⟨rfl, ?_⟩
  intro cur s c hg st hs
  rcases dirs_of_root4 cur s c hg with ⟨rfl, rfl, rfl⟩ | ⟨q, rfl, rfl, rfl⟩
  · -- the root: the fixed region
    have hst : st = rootAt dev.fs 0 := by
      rcases hs with ⟨_, h⟩ | ⟨e, _, he, h⟩
      · exact h
      · rw [h]; unfold DirEntry.dirStream
        have : e.firstCluster dev.fs = none := he
        rw [this]; rfl
    subst hst
    refine ⟨DirView.ofRoot rootReadable, [], 0, ?_, fun _ => rfl, fun h => absurd rfl h, ?_⟩
    · show readDirEntries dev.fs.lfnAlloc true (srcSlots dev.img (fun o => (rootSliceOf dev.fs).beginOff + o) 16) =
        [] ++ (listing rootSlots).map (shiftE 0)
      decide +kernel
    · intro x hx _
      simp only [List.mem_singleton] at hx
      rw [hx]
      show (toDirEntryS (fun o => (rootSliceOf dev.fs).beginOff + o) (shiftE 0 eSub)).firstCluster dev.fs = cl _
      have : cl ([] ++ [entryName eSub]) = some 2 := by simp [cl]
      rw [this]
      decide +kernel
  · -- `sub`: the chain of cluster 2
    have hcl : cl [q] = some 2 := by simp [cl]
    obtain ⟨e, hd, he, hst⟩ : ∃ e : DirEntry, e.isDir = true ∧ e.firstCluster dev.fs = some 2 ∧
        st = .file (FileH.new (some 2) (some e.editor)) := by
      rcases hs with ⟨h, _⟩ | ⟨e, hd, he, h⟩
      · rw [hcl] at h; cases h
      · rw [hcl] at he
        refine ⟨e, hd, he, ?_⟩
        rw [h]; unfold DirEntry.dirStream; rw [he]
    subst hst
    have hlist : readDirEntries dev.fs.lfnAlloc true (srcSlots dev.img (chainSrc dev.fs [2, 3]) 32) =
        [⟨dotSlot, [], 0, 1⟩, ⟨dotDotSlot, [], 1, 2⟩] ++ (listing subSlots).map (shiftE 2) := by
      decide +kernel
    refine ⟨DirView.ofChain (subReadable_entry e hd), [⟨dotSlot, [], 0, 1⟩, ⟨dotDotSlot, [], 1, 2⟩], 2, hlist,
      fun h => (by cases h), fun _ => ⟨_, _, rfl, ?_⟩, ?_⟩
    · refine ⟨rfl, by decide, by decide, ?_, rfl, by decide, by decide, ?_⟩
      · rw [hcl]
        show (toDirEntryS (chainSrc dev.fs [2, 3]) ⟨dotSlot, [], 0, 1⟩).firstCluster dev.fs = some 2
        decide +kernel
      · show (toDirEntryS (chainSrc dev.fs [2, 3]) ⟨dotDotSlot, [], 1, 2⟩).firstCluster dev.fs = cl []
        decide +kernel
    · intro x hx hdir
      simp only [List.mem_singleton] at hx
      rw [hx] at hdir
      cases hdir

theorem dotSafe : DotSafe up0 := UpperSafe.dotSafe upperSafe_ascii

/-- the root handle denotes the root of the tree -/
theorem den_root4 : Den dev up0 root4 cl [] (rootDirStream dev.fs) := den_root imgTree _ _ root4_eq

/-- what the slot tree says about some calls … -/
example : [(openS up0 root4 [] "SUB/hello world.TXT" false).out, (openS up0 root4 [] "sub/./../SUB" true).out,
    (openS up0 root4 [] "sub/nothing" false).out, (openS up0 root4 [] "sub/Hello World.txt/x" true).out,
    (openS up0 root4 [] "sub" false).out] =
    [.ok [], .ok [], .error .notFound, .error .invalidInput, .error .invalidInput] := by decide +kernel

/-- … is what the byte-level programs do on the image (`open_file_img`, `open_dir_img`), e.g. `open_file` of
    `SUB/hello world.TXT` from the root succeeds with the handle of a file entry, on every device with this volume -/
example : ∃ de : DirEntry, de.isDir = false ∧ ∀ d1, SameVol dev d1 →
    Reads (openFile env 30 (rootDirStream dev.fs) "SUB/hello world.TXT") d1
      (FileH.new (de.firstCluster dev.fs) (some de.editor)) := by
  obtain ⟨o1, _⟩ := open_file_img imgTree root4_wf dotSafe env rfl [] _ den_root4 "SUB/hello world.TXT" 30
    (by decide)
  obtain ⟨de, _, _, hr, hd, _, _⟩ := o1 [] (by decide +kernel)
  exact ⟨de, hd, hr⟩

/-- `open_dir("sub/./../SUB")` walks through the dot entries of cluster 2 back to the root and into `SUB` again … -/
example : ∃ de : DirEntry, ∀ d1, SameVol dev d1 →
    Reads (openDir env 30 (rootDirStream dev.fs) "sub/./../SUB") d1 (DirEntry.dirStream dev.fs de) := by
  obtain ⟨o1, _⟩ := open_dir_img imgTree root4_wf dotSafe env rfl [] _ den_root4 "sub/./../SUB" 30 (by decide)
  obtain ⟨de, _, _, hr, _, _⟩ := o1 [] (by decide +kernel)
  exact ⟨de, hr⟩

/-- … and the error kinds: a missing entry, a file used as a directory -/
example : (∀ d1, SameVol dev d1 → FailsV (openFile env 30 (rootDirStream dev.fs) "sub/nothing") d1 .notFound) ∧
    (∀ d1, SameVol dev d1 → FailsV (openDir env 30 (rootDirStream dev.fs) "sub/Hello World.txt/x") d1 .invalidInput) :=
  ⟨(open_file_img imgTree root4_wf dotSafe env rfl [] _ den_root4 "sub/nothing" 30 (by decide)).2 _ (by decide +kernel),
   (open_dir_img imgTree root4_wf dotSafe env rfl [] _ den_root4 "sub/Hello World.txt/x" 30 (by decide)).2 _
     (by decide +kernel)⟩

end Ex4

/-! ## prepared: `create_file` on the image — the statement, and what it needs from the WRITE simulation

The walk of `create_file` is that of `open_file` (`SlotTreeImg.walk_step`, `walk_fail` are generic in the program run
on the last directory), and `check_for_existence` on the last directory is covered by
`DirSim.DirSrc.checkForExistence_sim` (outcome = `DirAlias.checkForExistenceL` on the image slots).  Missing are:

* **(W1) `writeEntry_sim`** (agent-effects): for a `DirView V` of `st`, a valid name and a short record `raw`,
  `run (DirOps.writeEntry st name raw) d = (.ok de, d')` with `de = toDirEntryS V.src ⟨raw.serialize, units, p, p+n⟩`
  (`p = DirSlots.findFree slots n`) and the slots of the directory in `d'.img` equal to
  `DirSlots.writeEntry (slots in d.img) units raw.serialize` — inside the allocated space, or after the chain has grown
  by one zero-filled cluster;
* **(W1-frame)** (as delivered by agent-effects, `Proofs/DirWriteSim13`: `WView.writeEntry_sim`): NOT "`d'.fs = d.fs`
  and every other byte equal" — the first write marks the volume dirty (status byte in the image, `fs.curDirty`).
  What holds and suffices: `VolStep d d'` (fault schedule, image size and `Img.WF` kept, `FsGeomEq d.fs d'.fs`: the
  geometry part of `fs` equal) and `FrameOutG N src d d'` (every byte at offset ≥ 0x42 outside ALL slots of the written
  directory unchanged) — so that every OTHER directory's slots are unchanged (`srcSlots_frame`), the FAT is unchanged
  (`fatAgree_of_frame`), and its `DirView` carries over (`ChainDir.of_agree`, `RootReadable.of_volStep`),
  re-establishing `ImgTree` on `d'`;
* **(W2) `createSfnEntry_sim`**: `createSfnEntry sn attrs first` returns a record whose serialisation is
  `sfnWith sn (attrs :: stamp)` for the 20 bytes `stamp` the clock and `first` determine;
* **(W3) `deleteEntry_sim`** (+ frame), for `remove`/`rename`: the slots become `DirSlots.deleteRange slots b e`;
* and one lemma on THIS side: `check_for_existence` on the image slots of a subdirectory (dot entries in front, zero
  slots behind) chooses the alias `checkForExistenceL` chooses on the node's slots (the generator is fed the two dot
  names in addition: they mark nothing a legal candidate could equal) — today validated by the run-time
  correspondence (`corr-slot-tree alias`), not proved.

`WriteSim` packages (W1)+(W1-frame)+(W2) as ONE hypothesis in the form the composition needs: after the program the
image holds the slot tree with the entry added.  `create_file_img_statement` is the theorem to prove from it. -/

/-- (W1)+(W1-frame)+(W2) at the level of `ImgTree`: writing the entry for `name` with alias `a` through a stream that
    denotes the directory at `p` succeeds and leaves an image that holds the tree with that entry added (for some body
    bytes `stamp`) -/
def WriteSim (d : Dev) (up : Char → List Char) (t : Node) (cl : List String → Option Nat) : Prop :=
  ∀ (p : List String) (st : DirStream) (name : String) (a : List Nat) (attrs : Nat) (first : Option Nat),
    Den d up t cl p st → Names.validateLongName name = .ok () →
    ∃ (stamp : List Nat) (d' : Dev) (de : DirEntry),
      run (Prog.bind (createSfnEntry a attrs first) fun sfn => writeEntry st name sfn) d = (.ok de, d') ∧
      de.isDir = false ∧ d'.failAt = none ∧
      ImgTree d' up
        (updS up (addEntry (Names.encodeUtf16 name.toList) (sfnWith a (attrs :: stamp)) (.file [])) p t) cl

/-- the statement for `create_file` (not proved here): under `ImgTree`, `TreeWf`, `DotSafe` and the write simulation,
    the byte-level `create_file` ends as `createS` says — same error kind, or success with an image that holds the new
    slot tree -/
def create_file_img_statement : Prop :=
  ∀ (d : Dev) (up : Char → List Char) (t : Node) (cl : List String → Option Nat) (env : Env) (cwd : List String)
    (st : DirStream) (path : String) (fuel : Nat),
    ImgTree d up t cl → TreeWf up t → DotSafe up → env.upper = up → Den d up t cl cwd st →
    path.toList.length < fuel → WriteSim d up t cl →
    ∃ stamp : List Nat,
      (∀ e, (createS up 70000 t cwd path false stamp).out = .error e → e ≠ .hang →
        ∀ d1, SameVol d d1 → FailsV (createFile env fuel st path) d1 e) ∧
      (∀ rows, (createS up 70000 t cwd path false stamp).out = .ok rows →
        ∃ (h : FileH) (d' : Dev), (run (createFile env fuel st path) d).1 = .ok h ∧
          (run (createFile env fuel st path) d).2 = d' ∧
          ImgTree d' up (createS up 70000 t cwd path false stamp).tree cl)

end C01img
end FatVerif
