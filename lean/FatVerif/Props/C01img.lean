import FatVerif.Proofs.SlotTreeImg24
import FatVerif.Props.C01tree
/-!
# C01, read-only half END TO END at byte level: `open_dir`, `open_file`, listing on a device image

Chain of ties: the programs of the byte-level model (`Model/DirOps.lean`: `openDir`, `openFile`, `listDir`, run over
a device `Dev`) — by agent-effects' read simulation (`Props/C01sim.lean`, `DirSim`) — are the pure readers on the
slots of the image; here they are composed along paths and tied to the slot-tree model (`Model/SlotTree.lean`), which
`Props/C01tree.lean` ties to the specification `Spec/Tree.lean`.

Hypothesis bundle `SlotTreeImg.ImgTree d up t cl` (Proofs/SlotTreeImg1.lean): "the slot tree `t` is what the image of
`d` holds" — for every directory node and every stream denoting it (the root stream, or `to_dir` of any directory
entry carrying its first cluster `cl path`), the directory is readable in the sense of the read simulation
(`DirSim.DirView`: no fault scheduled, geometry, chain of the FAT inside the table, scan fuel — `RootReadable` /
`ChainReadable`) and the entries the reader finds are the two dot entries (none in the root; `.` carries the
directory's cluster, `..` the parent's) followed by exactly the listed entries of the node's slot list; the entry of
a child directory carries the child's cluster.

* `open_dir_img`, `open_file_img`, `list_img`: under `ImgTree`, `TreeWf t`, `DotSafe up` (only `.`/`..` fold like
  `.`/`..`), for EVERY path, every depth, `.`/`..` components included, any fuel larger than the path length: the
  program ends exactly as `SlotTree.openS` / `listS` say — same success, same error kind —, a returned directory
  stream denotes (`Den`) the directory the slot tree resolves to, and the volume is untouched (`Reads`/`FailsV` carry
  `SameVol`: image, mounted state, fault schedule and write records equal; only `flush` records may be logged by the
  destructors of cluster-chain directory handles).  No alias hypothesis: the model answers alias queries like the code.
* `readonly_calls_refine_spec_img`: composed with `C01tree.slot_step_refines` — the byte-level outcome is accepted by
  `Spec.evalOp` on `abs t` (hypotheses `OpOk`: `SplitAgree`, `QAll`, live handle — as in `C01tree`).

`decodeImage` of `Model/SlotTreeOracle.lean` (the executable image → slot tree used by the run-time correspondence)
reads slots through `Spec/FatSpec`'s array reader; it is NOT proved equal to the `DirSim` slot readers here.  `ImgTree`
is stated directly over the `DirSim` readers; the two are related by the correspondence runs (the oracle compares
`decodeImage` of every image with the model's tree) and by the example below.

Mutating half (second part of this file), every call with the image invariant `ImgTreeW` RE-ESTABLISHED and composed
with the specification (`…_refines_spec_img_partial`), all with LAST DIRECTORY = THE FIXED ROOT (FAT12/16):
`create_file` and `create_dir` and `remove` of a file on paths of any depth that lead back to the root
(`create_file_img_partial`, `create_dir_img_partial` — the cluster map is extended, `ClAgree` —,
`remove_file_img_partial`), `rename` of a file inside the root under single names (`rename_file_img_partial`);
histories of these and the read-only calls through the root handle (`history_refines_spec_img_partial`; non-vacuity:
a three-call history on `Ex4`).  The FAT-level side conditions (`FreedApart`, `DirRes.apart`) follow from `FatWf` of
the decoded FAT and facts about chain heads (`fat_side_conditions_of_fatWf`, over agent-fat's chain lemmas).
Groundwork for a last directory BELOW the root: `create_file_subdir_slots_partial` (one directory, slot level:
`check_for_existence`, `find_free_entries`, `write_entry` behind the two dot slots) — not composed into a tree
step (the write re-stamps the directory's record in its parent).  Not covered: `remove` of a directory, `rename` of
a directory / between directories / on deeper paths, directory growth, FAT32 roots, `update_accessed_date` on,
faults, a full volume — what is missing for each is said at the theorems.
-/
namespace FatVerif
namespace C01img
open Lfn DirSlots DirAlias SlotTree DirSim SlotTreeImg C01tree

section
variable {d : Dev} {up : Char → List Char} {t : Node} {cl : List String → Option Nat}

/-- **`open_dir` on the image = `openS` on the slot tree** -/
theorem open_dir_img (I : ImgTree d up t cl) (hwf : TreeWf up t) (hup : DotSafe up) (env : Env)
    (henv : env.upper = up) (cwd : List String) (st : DirStream) (hden : Den d up t cl cwd st) (path : String)
    (fuel : Nat) (hfuel : path.toList.length < fuel) :
    (∀ rows, (openS up t cwd path true).out = .ok rows →
      ∃ (de : DirEntry) (p : List String) (n : Node),
        (∀ d1, SameVol d d1 → Reads (openDir env fuel st path) d1 (DirEntry.dirStream d.fs de)) ∧
        openRes up t cwd (pathParts path) = .ok (p, n) ∧ Den d up t cl p (DirEntry.dirStream d.fs de)) ∧
    (∀ e, (openS up t cwd path true).out = .error e →
      ∀ d1, SameVol d d1 → FailsV (openDir env fuel st path) d1 e) := by
  have W := openDir_walk I hwf hup env henv path.toList.length path.toList (Nat.le_refl _) fuel hfuel cwd st hden
  rw [String.ofList_toList] at W
  have hpp : pathParts path = splitAll path.toList.length path.toList := rfl
  rw [openS_eq, hpp]
  cases hres : openRes up t cwd (splitAll path.toList.length path.toList) with
  | error e =>
    rw [hres] at W
    refine ⟨fun rows h => (by cases h), fun e' he' => ?_⟩
    have : e' = e := by simpa [fail] using he'.symm
    rw [this]; exact W
  | ok pn =>
    obtain ⟨p, n⟩ := pn
    rw [hres] at W
    unfold OpenDirRel at W
    simp only at W ⊢
    by_cases hk : n.isDir = true
    · rw [if_pos hk] at W
      obtain ⟨de, hr, _, hden', _⟩ := W
      simp only [hk, beq_self_eq_true, if_true]
      exact ⟨fun _ _ => ⟨de, p, n, hr, rfl, hden'⟩, fun e he => by cases he⟩
    · rw [if_neg hk] at W
      have hb : (n.isDir == true) = false := by simpa using hk
      simp only [hb, Bool.false_eq_true, if_false]
      refine ⟨fun rows h => (by cases h), fun e' he' => ?_⟩
      have : e' = .invalidInput := by simpa [fail] using he'.symm
      rw [this]; exact W

/-- **`open_file` on the image = `openS` on the slot tree** -/
theorem open_file_img (I : ImgTree d up t cl) (hwf : TreeWf up t) (hup : DotSafe up) (env : Env)
    (henv : env.upper = up) (cwd : List String) (st : DirStream) (hden : Den d up t cl cwd st) (path : String)
    (fuel : Nat) (hfuel : path.toList.length < fuel) :
    (∀ rows, (openS up t cwd path false).out = .ok rows →
      ∃ (de : DirEntry) (p : List String) (n : Node),
        (∀ d1, SameVol d d1 →
          Reads (openFile env fuel st path) d1 (FileH.new (de.firstCluster d.fs) (some de.editor))) ∧
        de.isDir = false ∧ openRes up t cwd (pathParts path) = .ok (p, n) ∧ getAtS up t p = some n) ∧
    (∀ e, (openS up t cwd path false).out = .error e →
      ∀ d1, SameVol d d1 → FailsV (openFile env fuel st path) d1 e) := by
  have W := openFile_walk I hwf hup env henv path.toList.length path.toList (Nat.le_refl _) fuel hfuel cwd st hden
  rw [String.ofList_toList] at W
  have hpp : pathParts path = splitAll path.toList.length path.toList := rfl
  rw [openS_eq, hpp]
  cases hres : openRes up t cwd (splitAll path.toList.length path.toList) with
  | error e =>
    rw [hres] at W
    refine ⟨fun rows h => (by cases h), fun e' he' => ?_⟩
    have : e' = e := by simpa [fail] using he'.symm
    rw [this]; exact W
  | ok pn =>
    obtain ⟨p, n⟩ := pn
    rw [hres] at W
    unfold OpenFileRel at W
    simp only at W ⊢
    by_cases hk : n.isDir = false
    · rw [if_pos hk] at W
      obtain ⟨de, hr, hdir, hg⟩ := W
      simp only [hk, beq_self_eq_true, if_true]
      exact ⟨fun _ _ => ⟨de, p, n, hr, hdir, rfl, hg⟩, fun e he => by cases he⟩
    · rw [if_neg hk] at W
      have hb : (n.isDir == false) = false := by simpa using hk
      simp only [hb, Bool.false_eq_true, if_false]
      refine ⟨fun rows h => (by cases h), fun e' he' => ?_⟩
      have : e' = .invalidInput := by simpa [fail] using he'.symm
      rw [this]; exact W

/-- **the listing on the image = `listS` on the slot tree**: `Dir::iter()` through a stream denoting the directory at
    `cwd` returns the dot entries (none in the root) and then, entry for entry, the image records of the entries
    `listS` lists (same names — long-name units and raw short name —, same kinds), and nothing else -/
theorem list_img (I : ImgTree d up t cl) (cwd : List String) (st : DirStream) (hden : Den d up t cl cwd st) :
    ∃ (slots : List (List Nat)) (src : Nat → Nat) (dots : List LfnEntry) (k : Nat),
      (listS up t cwd).out = .ok ((listing slots).map fun e => (entryName e, Lfn.isDir e.sfn)) ∧
      (cwd = [] → dots = []) ∧ (cwd ≠ [] → dots.length = 2) ∧
      ∀ d1, SameVol d d1 →
        Reads (listDir st) d1 ((dots ++ (listing slots).map (shiftE k)).map (toDirEntryS src)) := by
  obtain ⟨⟨slots, ch, hg⟩, hs⟩ := hden
  obtain ⟨V, dots, k, hI, hr⟩ := listDir_den I cwd st slots ch hg hs
  refine ⟨slots, V.src, dots, k, by unfold listS; rw [hg], hI.rootDots, ?_, hr⟩
  intro hne
  obtain ⟨e1, e2, h, _⟩ := hI.subDots hne
  rw [h]; rfl

end

/-! ## composed with the refinement of the specification -/

/-- **C01, read-only calls, byte level ⟶ specification.**  On a fault-free device whose image holds the well-formed
    slot tree `t` (`ImgTree`), for `open_dir`, `open_file` and the listing, on every path: the byte-level program either
    succeeds — and the specification `Spec.evalOp` on `abs t` demands success and keeps its tree — or fails with an
    error kind the specification accepts; in both cases the volume (image, write records) is untouched, so `abs` of
    what the image holds is unchanged. -/
theorem readonly_calls_refine_spec_img (u : Char → List Char) {d : Dev} {t : Node} {cl : List String → Option Nat}
    (I : ImgTree d (upOf u) t cl) (hwf : TreeWf (upOf u) t) (hup : DotSafe (upOf u)) (env : Env)
    (henv : env.upper = upOf u) (cwd : List String) (st : DirStream) (hden : Den d (upOf u) t cl cwd st)
    (path : String) (fuel : Nat) (hfuel : path.toList.length < fuel) :
    -- open_dir
    (OpOk (upOf u) t (.openDir cwd path) →
      ((∃ de : DirEntry, ∀ d1, SameVol d d1 → Reads (openDir env fuel st path) d1 (DirEntry.dirStream d.fs de)) ∧
        (Spec.evalOp (cfgOf u) (abs t) (.openDir cwd path)).errs = [] ∧
        (Spec.evalOp (cfgOf u) (abs t) (.openDir cwd path)).tree = abs t) ∨
      (∃ e, (∀ d1, SameVol d d1 → FailsV (openDir env fuel st path) d1 e) ∧
        e ∈ (Spec.evalOp (cfgOf u) (abs t) (.openDir cwd path)).errs)) ∧
    -- open_file
    (OpOk (upOf u) t (.openFile cwd path) →
      ((∃ de : DirEntry, ∀ d1, SameVol d d1 →
          Reads (openFile env fuel st path) d1 (FileH.new (de.firstCluster d.fs) (some de.editor))) ∧
        (Spec.evalOp (cfgOf u) (abs t) (.openFile cwd path)).errs = [] ∧
        (Spec.evalOp (cfgOf u) (abs t) (.openFile cwd path)).tree = abs t) ∨
      (∃ e, (∀ d1, SameVol d d1 → FailsV (openFile env fuel st path) d1 e) ∧
        e ∈ (Spec.evalOp (cfgOf u) (abs t) (.openFile cwd path)).errs)) ∧
    -- list
    (OpOk (upOf u) t (.list cwd) →
      (∃ es : List DirEntry, ∀ d1, SameVol d d1 → Reads (listDir st) d1 es) ∧
        (Spec.evalOp (cfgOf u) (abs t) (.list cwd)).errs = [] ∧
        (Spec.evalOp (cfgOf u) (abs t) (.list cwd)).tree = abs t) := by
  refine ⟨fun hok => ?_, fun hok => ?_, fun hok => ?_⟩
  · obtain ⟨_, _, hacc⟩ := slot_step_refines u 0 t hwf (.openDir cwd path) [] hok
    obtain ⟨o1, o2⟩ := open_dir_img I hwf hup env henv cwd st hden path fuel hfuel
    simp only [stepSlot] at hacc
    unfold Accepts at hacc
    cases hout : (openS (upOf u) t cwd path true).out with
    | ok rows =>
      rw [hout] at hacc
      obtain ⟨de, _, _, hr, _, _⟩ := o1 rows hout
      have htree : (openS (upOf u) t cwd path true).tree = t := (open_refines u t hwf cwd hok.1 path hok.2 true).1
      exact Or.inl ⟨⟨de, hr⟩, hacc.1, by rw [hacc.2, htree]⟩
    | error e =>
      rw [hout] at hacc
      refine Or.inr ⟨e, o2 e hout, ?_⟩
      rcases hacc with h | h
      · exfalso
        rw [openS_eq] at hout
        cases hres : openRes (upOf u) t cwd (pathParts path) with
        | error e' =>
          rw [hres] at hout
          have : e = e' := by simpa [fail] using hout.symm
          exact openRes_err hres (this ▸ h)
        | ok pn =>
          rw [hres] at hout
          simp only at hout
          split at hout
          · cases hout
          · have : e = .invalidInput := by simpa [fail] using hout.symm
            rw [this] at h; cases h
      · exact h
  · obtain ⟨_, _, hacc⟩ := slot_step_refines u 0 t hwf (.openFile cwd path) [] hok
    obtain ⟨o1, o2⟩ := open_file_img I hwf hup env henv cwd st hden path fuel hfuel
    simp only [stepSlot] at hacc
    unfold Accepts at hacc
    cases hout : (openS (upOf u) t cwd path false).out with
    | ok rows =>
      rw [hout] at hacc
      obtain ⟨de, _, _, hr, _, _, _⟩ := o1 rows hout
      have htree : (openS (upOf u) t cwd path false).tree = t := (open_refines u t hwf cwd hok.1 path hok.2 false).1
      exact Or.inl ⟨⟨de, hr⟩, hacc.1, by rw [hacc.2, htree]⟩
    | error e =>
      rw [hout] at hacc
      refine Or.inr ⟨e, o2 e hout, ?_⟩
      rcases hacc with h | h
      · exfalso
        rw [openS_eq] at hout
        cases hres : openRes (upOf u) t cwd (pathParts path) with
        | error e' =>
          rw [hres] at hout
          have : e = e' := by simpa [fail] using hout.symm
          exact openRes_err hres (this ▸ h)
        | ok pn =>
          rw [hres] at hout
          simp only at hout
          split at hout
          · cases hout
          · have : e = .invalidInput := by simpa [fail] using hout.symm
            rw [this] at h; cases h
      · exact h
  · obtain ⟨_, _, hacc⟩ := slot_step_refines u 0 t hwf (.list cwd) [] hok
    obtain ⟨slots, src, dots, k, hout, _, _, hr⟩ := list_img I cwd st hden
    simp only [stepSlot] at hacc
    unfold Accepts at hacc
    rw [hout] at hacc
    have htree : (listS (upOf u) t cwd).tree = t := (list_refines u t hwf cwd hok).1
    exact ⟨⟨_, hr⟩, hacc.1, by rw [hacc.2, htree]⟩

/-! ## non-vacuity: a FAT16 image holding `/sub/Hello World.txt`, `sub` a directory of two clusters

The slot tree is `C01tree.Ex.root0` with the cluster of `sub` (2) in its short slot; the image is built from the
model's own slot lists: boot sector, one FAT sector (2 → 3 → end of chain), the root region (sector 2) holding the two
slots of `sub`, cluster 2 holding `.`, `..` and the three slots of `Hello World.txt`, cluster 3 empty. -/

namespace Ex4
open C01tree.Ex

def fs : FsState := DirSim.Ex2.fs
/-- body bytes 12…31 of a short slot whose first cluster is 2 -/
def stampC2 : List Nat := List.replicate 14 0 ++ [2, 0] ++ List.replicate 4 0
def sfnSub2 : List Nat := sfnWith aliasSub (newBody true stampC2)
def unitsSub : List Nat := Names.encodeUtf16 "sub".toList
def unitsHello : List Nat := Names.encodeUtf16 "Hello World.txt".toList
def rootSlots : List (List Nat) := DirSlots.writeEntry [] unitsSub sfnSub2
def subSlots : List (List Nat) := DirSlots.writeEntry [] unitsHello sfnHello
def dotSlot : List Nat := dotRaw ++ 16 :: stampC2
def dotDotSlot : List Nat := dotDotRaw ++ 16 :: List.replicate 20 0

/-- the slot tree -/
def root4 : Node := addEntry unitsSub sfnSub2 sub0 (.dir [] [])

def pad512 (l : List Nat) : List Nat := l ++ List.replicate (512 - l.length) 0

def bytes : List Nat :=
  List.replicate 512 0 ++
  pad512 [0xF8, 0xFF, 0xFF, 0xFF, 3, 0, 0xFF, 0xFF] ++
  pad512 rootSlots.flatten ++
  pad512 (dotSlot ++ dotDotSlot ++ subSlots.flatten)

/-- `bytes` padded to one page of 4096 bytes (`Img.WF`), written out (so that the kernel does not re-run the model's
    slot-list functions for every byte it reads) -/
def imgBytes : List Nat :=
  List.replicate 512 0 ++
  [248, 255, 255, 255, 3, 0, 255, 255] ++
  List.replicate 504 0 ++
  [65, 115, 0, 117, 0, 98, 0, 0, 0, 255, 255, 15, 0, 191, 255, 255, 255, 255, 255, 255, 255, 255, 255, 255, 255, 255, 0, 0, 255, 255, 255, 255, 83, 85, 66, 32, 32, 32, 32, 32, 32, 32, 32, 16] ++
  List.replicate 14 0 ++
  [2] ++
  List.replicate 453 0 ++
  [46, 32, 32, 32, 32, 32, 32, 32, 32, 32, 32, 16] ++
  List.replicate 14 0 ++
  [2, 0, 0, 0, 0, 0, 46, 46, 32, 32, 32, 32, 32, 32, 32, 32, 32, 16] ++
  List.replicate 20 0 ++
  [66, 120, 0, 116, 0, 0, 0, 255, 255, 255, 255, 15, 0, 27, 255, 255, 255, 255, 255, 255, 255, 255, 255, 255, 255, 255, 0, 0, 255, 255, 255, 255, 1, 72, 0, 101, 0, 108, 0, 108, 0, 111, 0, 15, 0, 27, 32, 0, 87, 0, 111, 0, 114, 0, 108, 0, 100, 0, 0, 0, 46, 0, 116, 0, 72, 69, 76, 76, 79, 87, 126, 49, 84, 88, 84] ++
  List.replicate 373 0 ++
  List.replicate 2048 0

def dev : Dev := { img := Img.ofBytes imgBytes 4096, fs := fs }
def env : Env := ⟨up0⟩
def cl (p : List String) : Option Nat := if p = [] then none else some 2

theorem wf : dev.img.WF := by
  intro k p hk
  simp only [dev, Img.ofBytes, Std.HashMap.getElem?_insert] at hk
  split at hk
  · cases hk; decide +kernel
  · simp at hk

theorem root4_wf : TreeWf up0 root4 := by
  have hchk : checkForExistenceL up0 [] "sub" (some true) 20 = .ok (.alias aliasSub) := by decide +kernel
  exact (add_success Names.upperAscii (.dir [] []) (treeWf_fresh _ true) [] trivial [] [] rfl "sub"
    sfnSub2 sub0 rfl
    (C16dir.dir_create_wf up0 [] "sub" (some true) 20 aliasSub 16 stampC2 (dirWf_nil _) rfl (by decide) hchk)
    (by decide +kernel) (by decide +kernel) sub0_wf).1

def eSub : LfnEntry := newEntry [] unitsSub sfnSub2
def eHello : LfnEntry := newEntry [] unitsHello sfnHello

theorem root4_eq : root4 = .dir rootSlots [(eSub, sub0)] :=
  addEntry_dir (dirWf_nil up0).shape unitsSub sfnSub2 sub0 [] (by decide) (by decide) (by decide) (by decide)
    (by decide +kernel)

theorem sub0_eq : sub0 = .dir subSlots [(eHello, .file [])] :=
  addEntry_dir (dirWf_nil up0).shape unitsHello sfnHello (.file []) [] (by decide) (by decide) (by decide) (by decide)
    (by decide +kernel)

theorem rootReadable : RootReadable dev 16 := ⟨rfl, by decide, by decide, by decide⟩

open FatVerif.FileSim FatVerif.Fat in
/-- the directory at cluster 2 is readable through the handle of any clean directory entry -/
theorem subReadable (ent : Option DirEntryEditor) (hsz : (FileH.new (some 2) ent).size? = none)
    (hcl : ∀ e, ent = some e → e.dirty = false) : ChainReadable dev 2 ent [2, 3] := by
  have h2 : tabView fs dev.img 2 = .data 3 := by decide +kernel
  have h3 : tabView fs dev.img 3 = .eoc := by decide +kernel
  refine ⟨⟨rfl, ⟨by decide, by decide, by decide, by decide, by decide, by decide, by decide, by decide, by decide,
    by decide, by decide⟩,
    rfl, ?_, by decide, hsz, Or.inl rfl, (fun e he => hcl e he), by decide, by decide⟩, by decide⟩
  exact Chain.cons 2 3 [3] h2 (Chain.last 3 (fun n hn => by
    have : tabView dev.fs dev.img 3 = .eoc := h3
    rw [this] at hn; cases hn))

theorem subReadable_entry (e : DirEntry) (hd : e.isDir = true) : ChainReadable dev 2 (some e.editor) [2, 3] := by
  apply subReadable
  · show e.data.size? = none
    unfold DirFileEntryData.size? DirFileEntryData.isFile
    have : e.data.isDir = true := hd
    simp [this]
  · intro ed hed
    cases hed
    rfl

/-- the directories of the slot tree: the root and `sub` (under any spelling of its name that resolves) -/
theorem dirs_of_root4 (cur : List String) (s : List (List Nat)) (c : List (LfnEntry × Node))
    (h : getAtS up0 root4 cur = some (.dir s c)) :
    (cur = [] ∧ s = rootSlots ∧ c = [(eSub, sub0)]) ∨
    (∃ q, cur = [q] ∧ s = subSlots ∧ c = [(eHello, .file [])]) := by
  rw [root4_eq] at h
  cases cur with
  | nil =>
    simp only [getAtS, Option.some.injEq, Node.dir.injEq] at h
    exact Or.inl ⟨rfl, h.1.symm, h.2.symm⟩
  | cons q r =>
    right
    simp only [getAtS] at h
    cases hl : lookupS up0 rootSlots [(eSub, sub0)] q with
    | none => rw [hl] at h; cases h
    | some x =>
      rw [hl] at h
      have hx := lookupS_mem hl
      simp only [List.mem_singleton] at hx
      rw [hx] at h
      simp only at h
      rw [sub0_eq] at h
      cases r with
      | nil =>
        simp only [getAtS, Option.some.injEq, Node.dir.injEq] at h
        exact ⟨q, rfl, h.1.symm, h.2.symm⟩
      | cons q' r' =>
        exfalso
        simp only [getAtS] at h
        cases hl' : lookupS up0 subSlots [(eHello, .file [])] q' with
        | none => rw [hl'] at h; cases h
        | some y =>
          rw [hl'] at h
          have hy := lookupS_mem hl'
          simp only [List.mem_singleton] at hy
          rw [hy] at h
          cases r' with
          | nil => simp [getAtS] at h
          | cons _ _ => simp [getAtS] at h

theorem shiftE_zero (e : LfnEntry) : shiftE 0 e = e := rfl

theorem layout : Layout dev :=
  ⟨by decide, wf, rfl, rfl, by decide, by decide, by decide, by decide⟩

/-- the first two root slots of the image are the model's root slot list … -/
theorem ex_h1 : (rootDirSlots dev.fs dev.img).take 2 = rootSlots := by decide +kernel
/-- … and the other fourteen begin with a zero byte (end markers) -/
theorem ex_h1z : ∀ j, j < 16 → 2 ≤ j → dev.img.getByte (1024 + 32 * j) = 0 := by decide +kernel
theorem ex_h3 : (toDirEntryS (rootSrc fs) eSub).firstCluster fs = some 2 := by decide +kernel
theorem ex_k1 : listing (chainSlots dev.fs dev.img [2, 3]) =
    [⟨dotSlot, [], 0, 1⟩, ⟨dotDotSlot, [], 1, 2⟩] ++ (listing subSlots).map (shiftE 2) := by decide +kernel
theorem ex_k2 : (toDirEntryS (chainSrc fs [2, 3]) ⟨dotSlot, [], 0, 1⟩).firstCluster fs = some 2 := by
  decide +kernel
theorem ex_k3 : (toDirEntryS (chainSrc fs [2, 3]) ⟨dotDotSlot, [], 1, 2⟩).firstCluster fs = none := by
  decide +kernel

/-- **the image holds the slot tree** (concrete bundle) -/
theorem imgTreeW : ImgTreeW dev up0 root4 cl := by
  refine ⟨layout, rfl, ?_, ?_⟩
  · intro s c ht
    rw [root4_eq] at ht
    simp only [Node.dir.injEq] at ht
    obtain ⟨rfl, rfl⟩ := ht
    have hlen := rootDirSlots_length rootReadable
    have h1 : rootDirSlots dev.fs dev.img = rootSlots ++ (rootDirSlots dev.fs dev.img).drop 2 := by
      rw [← ex_h1]; exact (List.take_append_drop 2 _).symm
    have h2 : ∀ x ∈ (rootDirSlots dev.fs dev.img).drop 2, Lfn.isEnd x = true := by
      intro x hx
      obtain ⟨i, hi, rfl⟩ := List.mem_iff_getElem.1 hx
      rw [List.length_drop, hlen] at hi
      rw [List.getElem_drop]
      have hg := rootDirSlots_get rootReadable (2 + i) (by omega)
      rw [List.getD_eq_getElem?_getD, List.getElem?_eq_getElem (by rw [hlen]; omega), Option.getD_some] at hg
      rw [hg]
      unfold Lfn.isEnd Lfn.byte
      rw [Img.read_getD _ _ _ _ (by omega)]
      have := ex_h1z (2 + i) (by omega) (by omega)
      simp only [beq_iff_eq]
      exact this
    have h3 := ex_h3
    unfold RootImg
    refine ⟨16, (rootDirSlots dev.fs dev.img).drop 2, rootReadable, h1, h2, ?_⟩
    intro x hx _
    simp only [List.mem_singleton] at hx
    rw [hx]
    have : cl [entryName eSub] = some 2 := by simp [cl]
    rw [this]
    exact h3
  · intro cur s c hne hg
    rcases dirs_of_root4 cur s c hg with ⟨rfl, _, _⟩ | ⟨q, rfl, rfl, rfl⟩
    · exact absurd rfl hne
    · have hcl : cl [q] = some 2 := by simp [cl]
      have k1 := ex_k1
      have k2 := ex_k2
      have k3 := ex_k3
      unfold SubImg
      refine ⟨2, [2, 3], ⟨dotSlot, [], 0, 1⟩, ⟨dotDotSlot, [], 1, 2⟩, hcl,
        subReadable none rfl (fun e he => by cases he), k1, ?_, ?_⟩
      · exact ⟨rfl, by decide, by decide, by rw [hcl]; exact k2, rfl, by decide, by decide, k3⟩
      · intro x hx hdir
        simp only [List.mem_singleton] at hx
        rw [hx] at hdir
        cases hdir

/-- … hence the abstract one: the read-only theorems apply -/
theorem imgTree : ImgTree dev up0 root4 cl := imgTreeW.toImgTree

theorem dotSafe : DotSafe up0 := UpperSafe.dotSafe upperSafe_ascii

/-- the root handle denotes the root of the tree -/
theorem den_root4 : Den dev up0 root4 cl [] (rootDirStream dev.fs) := den_root imgTree _ _ root4_eq

/-- what the slot tree says about some calls … -/
example : [(openS up0 root4 [] "SUB/hello world.TXT" false).out, (openS up0 root4 [] "sub/./../SUB" true).out,
    (openS up0 root4 [] "sub/nothing" false).out, (openS up0 root4 [] "sub/Hello World.txt/x" true).out,
    (openS up0 root4 [] "sub" false).out] =
    [.ok [], .ok [], .error .notFound, .error .invalidInput, .error .invalidInput] := by decide +kernel

/-- … is what the byte-level programs do on the image (`open_file_img`, `open_dir_img`), e.g. `open_file` of
    `SUB/hello world.TXT` from the root succeeds with the handle of a file entry, on every device with this volume -/
example : ∃ de : DirEntry, de.isDir = false ∧ ∀ d1, SameVol dev d1 →
    Reads (openFile env 30 (rootDirStream dev.fs) "SUB/hello world.TXT") d1
      (FileH.new (de.firstCluster dev.fs) (some de.editor)) := by
  obtain ⟨o1, _⟩ := open_file_img imgTree root4_wf dotSafe env rfl [] _ den_root4 "SUB/hello world.TXT" 30
    (by decide)
  obtain ⟨de, _, _, hr, hd, _, _⟩ := o1 [] (by decide +kernel)
  exact ⟨de, hd, hr⟩

/-- `open_dir("sub/./../SUB")` walks through the dot entries of cluster 2 back to the root and into `SUB` again … -/
example : ∃ de : DirEntry, ∀ d1, SameVol dev d1 →
    Reads (openDir env 30 (rootDirStream dev.fs) "sub/./../SUB") d1 (DirEntry.dirStream dev.fs de) := by
  obtain ⟨o1, _⟩ := open_dir_img imgTree root4_wf dotSafe env rfl [] _ den_root4 "sub/./../SUB" 30 (by decide)
  obtain ⟨de, _, _, hr, _, _⟩ := o1 [] (by decide +kernel)
  exact ⟨de, hr⟩

/-- … and the error kinds: a missing entry, a file used as a directory -/
example : (∀ d1, SameVol dev d1 → FailsV (openFile env 30 (rootDirStream dev.fs) "sub/nothing") d1 .notFound) ∧
    (∀ d1, SameVol dev d1 → FailsV (openDir env 30 (rootDirStream dev.fs) "sub/Hello World.txt/x") d1 .invalidInput) :=
  ⟨(open_file_img imgTree root4_wf dotSafe env rfl [] _ den_root4 "sub/nothing" 30 (by decide)).2 _ (by decide +kernel),
   (open_dir_img imgTree root4_wf dotSafe env rfl [] _ den_root4 "sub/Hello World.txt/x" 30 (by decide)).2 _
     (by decide +kernel)⟩

end Ex4

/-! ## the MUTATING half, first part: `create_file` whose last directory is the fixed root (FAT12/16)

Concrete bundle `SlotTreeImg.ImgTreeW d up t cl` (Proofs/SlotTreeImg3.lean; `ImgTreeW.toImgTree`): layout facts, the
root region holds the root node's slot list followed by end markers (slot level), every sub-directory is a readable
cluster chain listing its dot entries and the node's entries.  It is RE-ESTABLISHED after the write
(`imgTreeW_root_step`): every other directory is carried over by the frame of the write.

* `create_file_img_partial` (= `SlotTreeImg.create_file_root_img`): `create_file` through any handle, on a path of
  any depth whose directory components lead back to the root (`x`, `./x`, `sub/../x`, …): the byte-level program ends
  as `createS` says — `InvalidInput` (dot name, existing directory, a file used as a directory on the way),
  `NotFound`, the error of `validate_long_name`, the existing file, or a new entry — and after success the image holds
  the new slot tree (`ImgTreeW d' up t' cl`), the short record being `sfnWith alias (0 :: sfnStamp fs clock none)`
  with the alias of `check_for_existence` (C16).  Resource hypothesis `HasRoomRoot`: the entry fits into the root
  region.  `_partial` because of `hlast` (last directory = root).  MISSING for a last directory below the root:
  (i) listing-invariance of the PARENT under the re-stamping of the directory's own entry (bytes 22–25 of one short
  slot; agent-effects' `WView.ofSub` / `stamped_record` give the byte facts) — with it `ImgTree`'s entries equation has
  to be stated modulo those bytes; (ii) slot-level relation for sub-directories (dot slots in front:
  `find_free_entries`/`write_entry` shift by 2) and the neutrality of the two dot names for the alias generator;
  (iii) growth of a directory by a cluster.
* `create_file_refines_spec_img_partial`: composed with `C01tree.slot_step_refines`.
* `history_refines_spec_img_partial`: any finite history of `open_dir`, `open_file`, listing and such `create_file`
  calls through the root handle, the hypotheses holding at each step: the byte-level outcomes are the slot tree's,
  the specification's checker accepts them in turn, and the final image holds a slot tree whose abstraction is the
  specification's final tree.  The alphabet also has `remove` of a file (`remove_file_img_partial`) and `create_dir`
  (`create_dir_img_partial`), both with last directory = root; after `create_dir` the cluster map of the bundle is
  extended (`ClAgree`), so the history theorem quantifies the map existentially; and `rename` of a file inside the
  root under single names (`rename_file_img_partial`).  MISSING calls: `rename` of a directory / between directories
  / on deeper paths, `remove` of a directory, any mutating call whose last directory lies below the root, handles other than the root's; the
  FAT-level side conditions (`FreedApart`, `DirRes.apart`: freed / allocated clusters are on no directory chain)
  are hypotheses. -/

section mutating
open SlotTreeImg

/-- **`create_file` at byte level, last directory = the fixed root.** -/
theorem create_file_img_partial {d : Dev} {up : Char → List Char} {t : Node} {cl : List String → Option Nat}
    (W : ImgTreeW d up t cl) (hwf : TreeWf up t) (hup : DotSafe up) (env : Env)
    (henv : env.upper = up) (cwd : List String) (st : DirStream) (hden : Den d up t cl cwd st) (path : String)
    (fuel : Nat) (hfuel : path.toList.length < fuel)
    (hlast : ∀ p, walkDirsS up t cwd (pathParts path).1 = .ok p → p = [])
    (hroom : ∀ slots ch, t = .dir slots ch → HasRoomRoot d slots (pathParts path).2)
    (hnh : (createS up 70000 t cwd path false (sfnStamp d.fs d.clock none)).out ≠ .error .hang) :
    (∀ e, (createS up 70000 t cwd path false (sfnStamp d.fs d.clock none)).out = .error e →
      FailsV (createFile env fuel st path) d e) ∧
    (∀ rows, (createS up 70000 t cwd path false (sfnStamp d.fs d.clock none)).out = .ok rows →
      ∃ (h : FileH) (d' : Dev), run (createFile env fuel st path) d = (.ok h, d') ∧ VolStep d d' ∧
        ImgTreeW d' up (createS up 70000 t cwd path false (sfnStamp d.fs d.clock none)).tree cl) :=
  create_file_root_img W hwf hup env henv cwd st hden path fuel hfuel hlast hroom hnh

/-- … composed with the refinement of the specification: the outcome is accepted by `Spec.evalOp` on `abs t`; after
    success the new image holds a well-formed slot tree whose abstraction is the specification's new tree -/
theorem create_file_refines_spec_img_partial (u : Char → List Char) {d : Dev} {t : Node}
    {cl : List String → Option Nat} (W : ImgTreeW d (upOf u) t cl) (hwf : TreeWf (upOf u) t)
    (hup : DotSafe (upOf u)) (env : Env) (henv : env.upper = upOf u) (cwd : List String) (st : DirStream)
    (hden : Den d (upOf u) t cl cwd st) (path : String) (fuel : Nat) (hfuel : path.toList.length < fuel)
    (hlast : ∀ p, walkDirsS (upOf u) t cwd (pathParts path).1 = .ok p → p = [])
    (hroom : ∀ slots ch, t = .dir slots ch → HasRoomRoot d slots (pathParts path).2)
    (hnh : (createS (upOf u) 70000 t cwd path false (sfnStamp d.fs d.clock none)).out ≠ .error .hang)
    (hok : OpOk (upOf u) t (.createFile cwd path)) :
    (∃ e, FailsV (createFile env fuel st path) d e ∧
      e ∈ (Spec.evalOp (cfgOf u) (abs t) (.createFile cwd path)).errs) ∨
    (∃ (h : FileH) (d' : Dev) (t' : Node), run (createFile env fuel st path) d = (.ok h, d') ∧ VolStep d d' ∧
      ImgTreeW d' (upOf u) t' cl ∧ TreeWf (upOf u) t' ∧
      (Spec.evalOp (cfgOf u) (abs t) (.createFile cwd path)).errs = [] ∧
      (Spec.evalOp (cfgOf u) (abs t) (.createFile cwd path)).tree = abs t') := by
  obtain ⟨o1, o2⟩ := create_file_img_partial W hwf hup env henv cwd st hden path fuel hfuel hlast hroom hnh
  obtain ⟨hwf', _, hacc⟩ := slot_step_refines u 70000 t hwf (.createFile cwd path) (sfnStamp d.fs d.clock none) hok
  simp only [stepSlot] at hwf' hacc
  unfold Accepts at hacc
  cases hout : (createS (upOf u) 70000 t cwd path false (sfnStamp d.fs d.clock none)).out with
  | error e =>
    rw [hout] at hacc
    rcases hacc with h | h
    · exact absurd (h ▸ hout) hnh
    · exact Or.inl ⟨e, o1 e hout, h⟩
  | ok rows =>
    rw [hout] at hacc
    obtain ⟨h, d', hr, hs, hW⟩ := o2 rows hout
    exact Or.inr ⟨h, d', _, hr, hs, hW, hwf', hacc.1, hacc.2⟩


/-- **`remove` of a file at byte level, parent = the fixed root** (`SlotTreeImg.remove_file_root_img`): any path whose
    directory components lead back to the root; `RemoveRes`: `Geo`, `InfoOk`, the named entry is a file, its cluster
    chain (`cs = []` for a file without clusters, e.g. one made by `create_file` and never written) is a chain of
    allocated clusters and is apart from every directory chain of the tree (`FreedApart` — to be discharged from
    agent-fat's cross-link freedom).  The program ends as `removeS` says (`InvalidInput` for a dot name, `NotFound`, …);
    after success the image holds the slot tree without the entry (`ImgTreeW` re-established across the release of
    the chain — `ImgTreeW.of_freed` — and the deletion of the slot range).  `_partial`: last directory = root; the
    entry is a file (an empty DIRECTORY needs `remove_dir_sim` and the release of its cluster, a non-empty one the
    relation between `is_empty` on the image and `nodeEmpty`: not composed). -/
theorem remove_file_img_partial {d : Dev} {up : Char → List Char} {t : Node} {cl : List String → Option Nat}
    (W : ImgTreeW d up t cl) (hwf : TreeWf up t) (hup : DotSafe up) (env : Env)
    (henv : env.upper = up) (cwd : List String) (st : DirStream) (hden : Den d up t cl cwd st) (path : String)
    (fuel : Nat) (hfuel : path.toList.length < fuel)
    (hlast : ∀ p, walkDirsS up t cwd (pathParts path).1 = .ok p → p = [])
    (hres : ∀ slots ch, t = .dir slots ch → RemoveRes d up t cl slots ch (pathParts path).2) :
    (∀ e, (removeS up t cwd path).out = .error e → FailsV (FatVerif.remove env fuel st path) d e) ∧
    (∀ rows, (removeS up t cwd path).out = .ok rows →
      ∃ d' : Dev, run (FatVerif.remove env fuel st path) d = (.ok (), d') ∧ VolStep d d' ∧
        ImgTreeW d' up (removeS up t cwd path).tree cl) :=
  remove_file_root_img W hwf hup env henv cwd st hden path fuel hfuel hlast hres

/-- … composed with the refinement of the specification -/
theorem remove_file_refines_spec_img_partial (u : Char → List Char) {d : Dev} {t : Node}
    {cl : List String → Option Nat} (W : ImgTreeW d (upOf u) t cl) (hwf : TreeWf (upOf u) t)
    (hup : DotSafe (upOf u)) (env : Env) (henv : env.upper = upOf u) (cwd : List String) (st : DirStream)
    (hden : Den d (upOf u) t cl cwd st) (path : String) (fuel : Nat) (hfuel : path.toList.length < fuel)
    (hlast : ∀ p, walkDirsS (upOf u) t cwd (pathParts path).1 = .ok p → p = [])
    (hres : ∀ slots ch, t = .dir slots ch → RemoveRes d (upOf u) t cl slots ch (pathParts path).2)
    (hok : OpOk (upOf u) t (.remove cwd path)) :
    (∃ e, FailsV (FatVerif.remove env fuel st path) d e ∧
      e ∈ (Spec.evalOp (cfgOf u) (abs t) (.remove cwd path)).errs) ∨
    (∃ (d' : Dev) (t' : Node), run (FatVerif.remove env fuel st path) d = (.ok (), d') ∧ VolStep d d' ∧
      ImgTreeW d' (upOf u) t' cl ∧ TreeWf (upOf u) t' ∧
      (Spec.evalOp (cfgOf u) (abs t) (.remove cwd path)).errs = [] ∧
      (Spec.evalOp (cfgOf u) (abs t) (.remove cwd path)).tree = abs t') := by
  obtain ⟨o1, o2⟩ := remove_file_img_partial W hwf hup env henv cwd st hden path fuel hfuel hlast hres
  obtain ⟨hwf', _, hacc⟩ := slot_step_refines u 70000 t hwf (.remove cwd path) [] hok
  simp only [stepSlot] at hwf' hacc
  unfold Accepts at hacc
  cases hout : (removeS (upOf u) t cwd path).out with
  | error e =>
    rw [hout] at hacc
    rcases hacc with h | h
    · exact absurd (h ▸ hout) (removeS_no_hang _ _ _ _)
    · exact Or.inl ⟨e, o1 e hout, h⟩
  | ok rows =>
    rw [hout] at hacc
    obtain ⟨d', hr, hs, hW⟩ := o2 rows hout
    exact Or.inr ⟨d', _, hr, hs, hW, hwf', hacc.1, hacc.2⟩

/-- **`create_dir` at byte level, last directory = the fixed root** (`SlotTreeImg.create_dir_root_img`): any path whose
    directory components lead back to the root.  `DirRes`: `Geo`, `InfoOk`, cluster size a multiple of 32, at least 64
    and below 2^32, fewer slots per cluster than the scan fuel, the allocator finds the cluster `c` in the FAT of the
    image (`allocFindV … = some c`; a full volume — `NotEnoughSpace` — is NOT covered), at most 65534 clusters
    (FAT12/16), the entry fits into the root region, and `c` is on no directory chain of the tree (`apart`: follows from
    `c` being free once the FAT is known to be well formed with allocated chain heads — not discharged here).
    The program ends as `createS … true` says (the existing directory is opened; `InvalidInput` for an existing file or
    a dot name; the error of `validate_long_name`; a file used as a directory on the way; `NotFound`); after success
    the image holds the new slot tree — the root gained the entry `sfnWith alias (16 :: sfnStamp fs clock (some c))`,
    its child is the empty directory, which the image holds in cluster `c` (`.`, `..`, zero slots; `SubImg.fresh`) —
    under a cluster map `cl'` that agrees with `cl` on every directory of the old tree (`ClAgree`; `cl'` sends the
    paths that name the new entry to `c`).  Every other directory is carried across the allocation and the writes
    (`SubImg.of_dirStep`).  `_partial`: last directory = root. -/
theorem create_dir_img_partial {d : Dev} {up : Char → List Char} {t : Node} {cl : List String → Option Nat}
    (W : ImgTreeW d up t cl) (hwf : TreeWf up t) (hup : DotSafe up) (env : Env)
    (henv : env.upper = up) (cwd : List String) (st : DirStream) (hden : Den d up t cl cwd st) (path : String)
    (fuel : Nat) (hfuel : path.toList.length < fuel)
    (hlast : ∀ p, walkDirsS up t cwd (pathParts path).1 = .ok p → p = []) (c : Nat)
    (hres : ∀ slots ch, t = .dir slots ch → DirRes d up t cl slots (pathParts path).2 c)
    (hnh : (createS up 70000 t cwd path true (sfnStamp d.fs d.clock (some c))).out ≠ .error .hang) :
    (∀ e, (createS up 70000 t cwd path true (sfnStamp d.fs d.clock (some c))).out = .error e →
      FailsV (createDir env fuel st path) d e) ∧
    (∀ rows, (createS up 70000 t cwd path true (sfnStamp d.fs d.clock (some c))).out = .ok rows →
      ∃ (s : DirStream) (d' : Dev), run (createDir env fuel st path) d = (.ok s, d') ∧ VolStep d d' ∧
        ∃ cl', ImgTreeW d' up (createS up 70000 t cwd path true (sfnStamp d.fs d.clock (some c))).tree cl' ∧
          ClAgree up t cl cl') :=
  create_dir_root_img W hwf hup env henv cwd st hden path fuel hfuel hlast c hres hnh

/-- … composed with the refinement of the specification -/
theorem create_dir_refines_spec_img_partial (u : Char → List Char) {d : Dev} {t : Node}
    {cl : List String → Option Nat} (W : ImgTreeW d (upOf u) t cl) (hwf : TreeWf (upOf u) t)
    (hup : DotSafe (upOf u)) (env : Env) (henv : env.upper = upOf u) (cwd : List String) (st : DirStream)
    (hden : Den d (upOf u) t cl cwd st) (path : String) (fuel : Nat) (hfuel : path.toList.length < fuel)
    (hlast : ∀ p, walkDirsS (upOf u) t cwd (pathParts path).1 = .ok p → p = []) (c : Nat)
    (hres : ∀ slots ch, t = .dir slots ch → DirRes d (upOf u) t cl slots (pathParts path).2 c)
    (hnh : (createS (upOf u) 70000 t cwd path true (sfnStamp d.fs d.clock (some c))).out ≠ .error .hang)
    (hok : OpOk (upOf u) t (.createDir cwd path)) :
    (∃ e, FailsV (createDir env fuel st path) d e ∧
      e ∈ (Spec.evalOp (cfgOf u) (abs t) (.createDir cwd path)).errs) ∨
    (∃ (s : DirStream) (d' : Dev) (t' : Node) (cl' : List String → Option Nat),
      run (createDir env fuel st path) d = (.ok s, d') ∧ VolStep d d' ∧
      ImgTreeW d' (upOf u) t' cl' ∧ ClAgree (upOf u) t cl cl' ∧ TreeWf (upOf u) t' ∧
      (Spec.evalOp (cfgOf u) (abs t) (.createDir cwd path)).errs = [] ∧
      (Spec.evalOp (cfgOf u) (abs t) (.createDir cwd path)).tree = abs t') := by
  obtain ⟨o1, o2⟩ := create_dir_img_partial W hwf hup env henv cwd st hden path fuel hfuel hlast c hres hnh
  obtain ⟨hwf', _, hacc⟩ := slot_step_refines u 70000 t hwf (.createDir cwd path) (sfnStamp d.fs d.clock (some c)) hok
  simp only [stepSlot] at hwf' hacc
  unfold Accepts at hacc
  cases hout : (createS (upOf u) 70000 t cwd path true (sfnStamp d.fs d.clock (some c))).out with
  | error e =>
    rw [hout] at hacc
    rcases hacc with h | h
    · exact absurd (h ▸ hout) hnh
    · exact Or.inl ⟨e, o1 e hout, h⟩
  | ok rows =>
    rw [hout] at hacc
    obtain ⟨s, d', hr, hs, cl', hW, hA⟩ := o2 rows hout
    exact Or.inr ⟨s, d', _, cl', hr, hs, hW, hA, hwf', hacc.1, hacc.2⟩

/-- **`rename` of a file inside the fixed root at byte level** (`SlotTreeImg.rename_file_root_img`): both paths are
    single names (`splitPathL … = (_, none)`: no `/` inside; a trailing `/` is allowed), both handles the root's.
    `RenameRes`: the source entry, if found, is a FILE whose attribute byte has no undefined bits (`< 64`: the reader
    masks bits 6–7 — `attrsTruncate` — and the record written back carries the masked byte, whereas the model's
    `renamedSfn` copies the byte), and the new entry fits into the root region (it is written BEFORE the old slots are
    marked deleted).  The program ends as `renameS` says: `InvalidInput` for a dot name, `NotFound`, the error of
    `validate_long_name`, `AlreadyExists`, nothing at all when the new name answers to the source entry itself, or
    the move; after the move the image holds the new slot tree (`ImgTreeW` re-established by one root step: the
    renamed record `renamedSfn sfn alias` under the long name, then the old slot range deleted; the cluster chain of
    the file is not touched).  `_partial`: root only, single names, files only (a directory needs the `..` re-link
    and the ancestor walk: `rename_dir_sim` is not composed), no move between directories. -/
theorem rename_file_img_partial {d : Dev} {up : Char → List Char} {t : Node} {cl : List String → Option Nat}
    (W : ImgTreeW d up t cl) (hwf : TreeWf up t) (env : Env) (henv : env.upper = up)
    (fuel : Nat) (src dst : String) (sa da : List Char) (h1 : Names.splitPathL src.toList = (sa, none))
    (h2 : Names.splitPathL dst.toList = (da, none)) (hroot : ∃ s c, t = .dir s c)
    (hres : ∀ slots ch, t = .dir slots ch → RenameRes d up slots ch (String.ofList sa) (String.ofList da))
    (hnh : (renameS up 70000 t [] src [] dst).out ≠ .error .hang) :
    (∀ e, (renameS up 70000 t [] src [] dst).out = .error e →
      FailsV (FatVerif.rename env (fuel + 1) (rootDirStream d.fs) src (rootDirStream d.fs) dst) d e) ∧
    (∀ rows, (renameS up 70000 t [] src [] dst).out = .ok rows →
      ∃ d' : Dev, run (FatVerif.rename env (fuel + 1) (rootDirStream d.fs) src (rootDirStream d.fs) dst) d =
          (.ok (), d') ∧ VolStep d d' ∧ ImgTreeW d' up (renameS up 70000 t [] src [] dst).tree cl) :=
  rename_file_root_img W hwf env henv fuel src dst sa da h1 h2 hroot hres hnh

/-- … composed with the refinement of the specification -/
theorem rename_file_refines_spec_img_partial (u : Char → List Char) {d : Dev} {t : Node}
    {cl : List String → Option Nat} (W : ImgTreeW d (upOf u) t cl) (hwf : TreeWf (upOf u) t) (env : Env)
    (henv : env.upper = upOf u) (fuel : Nat) (src dst : String) (sa da : List Char)
    (h1 : Names.splitPathL src.toList = (sa, none)) (h2 : Names.splitPathL dst.toList = (da, none))
    (hroot : ∃ s c, t = .dir s c)
    (hres : ∀ slots ch, t = .dir slots ch → RenameRes d (upOf u) slots ch (String.ofList sa) (String.ofList da))
    (hnh : (renameS (upOf u) 70000 t [] src [] dst).out ≠ .error .hang)
    (hok : OpOk (upOf u) t (.rename [] src [] dst)) :
    (∃ e, FailsV (FatVerif.rename env (fuel + 1) (rootDirStream d.fs) src (rootDirStream d.fs) dst) d e ∧
      e ∈ (Spec.evalOp (cfgOf u) (abs t) (.rename [] src [] dst)).errs) ∨
    (∃ (d' : Dev) (t' : Node),
      run (FatVerif.rename env (fuel + 1) (rootDirStream d.fs) src (rootDirStream d.fs) dst) d = (.ok (), d') ∧
      VolStep d d' ∧ ImgTreeW d' (upOf u) t' cl ∧ TreeWf (upOf u) t' ∧
      (Spec.evalOp (cfgOf u) (abs t) (.rename [] src [] dst)).errs = [] ∧
      (Spec.evalOp (cfgOf u) (abs t) (.rename [] src [] dst)).tree = abs t') := by
  obtain ⟨o1, o2⟩ := rename_file_img_partial W hwf env henv fuel src dst sa da h1 h2 hroot hres hnh
  obtain ⟨hwf', _, hacc⟩ := slot_step_refines u 70000 t hwf (.rename [] src [] dst) [] hok
  simp only [stepSlot] at hwf' hacc
  unfold Accepts at hacc
  cases hout : (renameS (upOf u) 70000 t [] src [] dst).out with
  | error e =>
    rw [hout] at hacc
    rcases hacc with h | h
    · exact absurd (h ▸ hout) hnh
    · exact Or.inl ⟨e, o1 e hout, h⟩
  | ok rows =>
    rw [hout] at hacc
    obtain ⟨d', hr, hs, hW⟩ := o2 rows hout
    exact Or.inr ⟨d', _, hr, hs, hW, hwf', hacc.1, hacc.2⟩

/-- **the FAT-level side conditions from a well-formed FAT** (`SlotTreeImg.apart_of_fatWf`,
    `SlotTreeImg.freedApart_of_fatWf`, over agent-fat's `FatDisjoint.free_not_in_any_chain` /
    `head_chains_disjoint`): if the decoded FAT of the image is `FatWf`, then
    (a) `DirRes.apart` holds for every FREE cluster `c` once the directory heads named by the cluster map are
        allocated (`DirHeadsAlloc`) — `DirRes.of_fatWf` builds the whole bundle that way;
    (b) `FreedApart` holds for the chain `cs` of a head `n` to which no link points, once the directory heads are
        other heads (`DirHeadsApartFrom`).
    NOT proved: that `DirHeadsAlloc` / `DirHeadsApartFrom` are invariants of the histories (they are facts about the
    FAT which `ImgTreeW` does not record; `ChainReadable` only says that each chain is a chain of the FAT). -/
theorem fat_side_conditions_of_fatWf {d : Dev} {up : Char → List Char} {t : Node} {cl : List String → Option Nat}
    (hw : Fat.FatWf (FileSim.tabView d.fs d.img) d.fs.totalClusters) :
    (∀ c, DirHeadsAlloc d up t cl → FileSim.tabView d.fs d.img c = .free →
      ∀ cur s ch, cur ≠ [] → getAtS up t cur = some (.dir s ch) → ∀ c0 chain, cl cur = some c0 →
        Fat.Chain (FileSim.tabView d.fs d.img) c0 chain → c ∉ chain) ∧
    (∀ n cs, Fat.Chain (FileSim.tabView d.fs d.img) n cs → (∀ q, FileSim.tabView d.fs d.img q ≠ .data n) →
      DirHeadsApartFrom d up t cl n → FreedApart d up t cl cs) :=
  ⟨fun _ hh hf => apart_of_fatWf hw hh hf, fun _ _ hn hnh hd => freedApart_of_fatWf hw hn hnh hd⟩

/-- **`create_file(name)` through the handle of a SUB-directory, slot level** (`SlotTreeImg.createFile_sub_slots`;
    groundwork for the case "last directory below the root", which is NOT composed into a tree step).
    `SubSlots d chain s1 s2 slots tail`: the cluster chain holds the `.` slot, the `..` slot, then the slot list `slots`
    of the model's node, then end markers.  Through the handle `File::new(Some(c0), Some(ed0))` (hypotheses of
    agent-effects' `WView.ofSub`: the directory's own record `ed0` lies behind the FAT copies, inside the device, apart
    from the directory's slots) and for a name other than `.`/`..` the program ends as the slot model says on `slots`:
    the error / existing entry / alias of `checkForExistenceL up slots name (some false)` (`check_dots`: the dot entries
    answer to no other name and leave the alias generator as it is), the error of `validate_long_name`, or the write —
    after which the chain holds `s1 :: s2 :: DirSlots.writeEntry slots …` and end markers (`findFree_cons_live`,
    `writeEntry_cons_live`: the two functions shift by the dot slots), the FAT and every byte from `0x42` on outside
    the directory's slots and outside the 32 bytes of its own record being kept (`FrameOutE … (subExtra ed0)`).
    MISSING for the tree step: (i) the 32 bytes at `ed0.pos` — the destructor of the handle re-writes the record with
    the clock's modification stamp (agent-effects: `MidImg … subDropPost`), so the PARENT's slot list on the image
    differs from the model tree's in bytes 22–25 of one short slot unless the stamp was already the clock's;
    `ImgTreeW` would have to hold modulo those bytes (or of a re-stamped tree with the same abstraction);
    (ii) transport of the other directories (their chains must be disjoint from this one: `FatWf` + distinct heads);
    (iii) the growth of the directory by a cluster (`hroom` excludes it). -/
theorem create_file_subdir_slots_partial {d : Dev} {up : Char → List Char} (hup : DotSafe up) (env : Env)
    (henv : env.upper = up) (c0 : Nat) (ed0 : DirEntryEditor) (chain : List Nat)
    (C : DirSim.ChainDir d (FileH.new (some c0) (some ed0)) c0 chain) (hwfI : d.img.WF)
    (hfuel : chain.length * (d.fs.clusterSize / 32) < dirFuel d.fs) (hnm : ed0.data.name.length = 11)
    (hepos : (fatSliceOf d.fs).beginOff + (fatSliceOf d.fs).mirrors * (fatSliceOf d.fs).size ≤ ed0.pos)
    (hein : ed0.pos + 32 ≤ d.img.size)
    (heout : ∀ i, i < chain.length * (d.fs.clusterSize / 32) →
      DirSim.chainSrc d.fs chain (32 * i) + 32 ≤ ed0.pos ∨ ed0.pos + 32 ≤ DirSim.chainSrc d.fs chain (32 * i))
    (halloc : d.fs.lfnAlloc = true) (s1 s2 : List Nat) (slots tail : List (List Nat))
    (S : SubSlots d chain s1 s2 slots tail) (path name : String) (hsp : Names.splitPath path = (name, none))
    (hdot : isDotName name = false)
    (hroom : DirSlots.findFree slots (Lfn.numParts (Names.encodeUtf16 name.toList).length + 1) +
      (Lfn.numParts (Names.encodeUtf16 name.toList).length + 1) + 2 ≤ chain.length * (d.fs.clusterSize / 32))
    (f : Nat) :
    match DirAlias.checkForExistenceL up slots name (some false) 70000 with
    | .error e => FailsV (createFile env (f + 1) (.file (FileH.new (some c0) (some ed0))) path) d e
    | .ok (.entry _) => ∃ h, Reads (createFile env (f + 1) (.file (FileH.new (some c0) (some ed0))) path) d h
    | .ok (.alias a) =>
      match Names.validateLongName name with
      | .error e => FailsV (createFile env (f + 1) (.file (FileH.new (some c0) (some ed0))) path) d e
      | .ok () =>
        ∃ (h : FileH) (d' : Dev) (tail' : List (List Nat)),
          run (createFile env (f + 1) (.file (FileH.new (some c0) (some ed0))) path) d = (.ok h, d') ∧ VolStep d d' ∧
          SubSlots d' chain s1 s2
            (DirSlots.writeEntry slots (Names.encodeUtf16 name.toList)
              (DirAlias.sfnWith a (0 :: sfnStamp d.fs d.clock none))) tail' ∧
          DirSim.FrameOutE (chain.length * (d.fs.clusterSize / 32)) (DirSim.chainSrc d.fs chain)
            (DirSim.subExtra ed0) d d' :=
  createFile_sub_slots hup env henv c0 ed0 chain C hwfI hfuel hnm hepos hein heout halloc s1 s2 slots tail S path name
    hsp hdot hroom f

/-! ### histories through the root handle -/

/-- a history of calls at byte level with the slot tree beside it: the observed outcomes, the final device and tree -/
inductive ByteRun (env : Env) (fuel : Nat) (up : Char → List Char) :
    Dev → Node → List Call → List (Spec.Op × Spec.Obs) → Dev → Node → Prop
  | nil (d : Dev) (t : Node) : ByteRun env fuel up d t [] [] d t
  | cons {d d1 d' : Dev} {t t' : Node} {c : Call} {rest : List Call} {obs : List (Spec.Op × Spec.Obs)} :
      ByteOut env fuel d c (outErr (modelStep up d t c)) d1 →
      ByteRun env fuel up d1 (modelStep up d t c).tree rest obs d' t' →
      ByteRun env fuel up d t (c :: rest) ((c.op, obsOf (modelStep up d t c)) :: obs) d' t'

/-- the hypotheses hold at every step of the history, whatever device the step before ended in and whatever cluster
    map (agreeing with the one before on the directories that were there) the image holds the tree under -/
def HistOk (up : Char → List Char) (fuel : Nat) : (List String → Option Nat) → Dev → Node → List Call → Prop
  | _, _, _, [] => True
  | cl, d, t, c :: rest => CallOk up cl d t fuel c ∧ OpOk up t c.op ∧
      ∀ d1 cl1, VolStep d d1 → d1.clock = d.clock → ImgTreeW d1 up (modelStep up d t c).tree cl1 →
        ClAgree up t cl cl1 → HistOk up fuel cl1 d1 (modelStep up d t c).tree rest

/-- **C01 at byte level for histories (partial: calls `open_dir`, `open_file`, listing, `create_file`, `create_dir`
    and `remove` of a file with last directory = root, `rename` of a file inside the root under single names, all
    through the root handle)**: from a device whose image
    holds a well-formed slot tree, every call's byte-level program ends with the slot tree's outcome (`ByteRun`), the
    specification's checker accepts the outcomes in turn and ends in the abstraction of the final slot tree, which
    the final image holds (under some cluster map). -/
theorem history_refines_spec_img_partial (u : Char → List Char) (hup : DotSafe (upOf u)) (env : Env)
    (henv : env.upper = upOf u) (fuel : Nat) :
    ∀ (calls : List Call) (cl : List String → Option Nat) (d : Dev) (t : Node), ImgTreeW d (upOf u) t cl →
    TreeWf (upOf u) t → t.isDir = true → HistOk (upOf u) fuel cl d t calls →
    ∃ (obs : List (Spec.Op × Spec.Obs)) (d' : Dev) (t' : Node) (cl' : List String → Option Nat),
      ByteRun env fuel (upOf u) d t calls obs d' t' ∧ ImgTreeW d' (upOf u) t' cl' ∧ TreeWf (upOf u) t' ∧
      specRun (cfgOf u) (abs t) obs = .ok (abs t')
  | [], cl, d, t, W, hwf, _, _ => ⟨[], d, t, cl, ByteRun.nil d t, W, hwf, rfl⟩
  | c :: rest, cl, d, t, W, hwf, hdir, hh => by
    obtain ⟨hc, hok, hnext⟩ := hh
    obtain ⟨d1, cl1, hbo, hs, hW1, hA, hclk⟩ := byte_step W hwf hup env henv fuel c hc ((isDir_iff_dir t).1 hdir)
    have hnh := modelStep_no_hang (upOf u) cl d t fuel c hc
    have hstep := slot_step_spec_step u 70000 t hwf c.op (stampOf d c) hok hnh
    have hwf1 := (slot_step_refines u 70000 t hwf c.op (stampOf d c) hok).1
    have hdir1 : (modelStep (upOf u) d t c).tree.isDir = true := by rw [modelStep_isDir]; exact hdir
    obtain ⟨obs, d', t', cl', hrun, hW', hwf', hspec⟩ :=
      history_refines_spec_img_partial u hup env henv fuel rest cl1 d1 _ hW1 hwf1 hdir1 (hnext d1 cl1 hs hclk hW1 hA)
    refine ⟨_, d', t', cl', ByteRun.cons hbo hrun, hW', hwf', ?_⟩
    simp only [specRun]
    have : Spec.step (cfgOf u) (abs t) c.op (obsOf (modelStep (upOf u) d t c)) =
        .ok (abs (modelStep (upOf u) d t c).tree) := hstep
    rw [this]
    exact hspec

end mutating


/-! ### non-vacuity of the mutating part: `create_file("sub/../New File.txt")` on the image of `Ex4` -/

namespace Ex4
open C01tree.Ex SlotTreeImg

def stampNew : List Nat := sfnStamp dev.fs dev.clock none

/-- what the slot tree says: success, and the root then lists `sub` and `New File.txt` -/
theorem model_create :
    (createS up0 70000 root4 [] "sub/../New File.txt" false stampNew).out = .ok [] ∧
    (abs (createS up0 70000 root4 [] "sub/../New File.txt" false stampNew).tree).children.map (·.1) =
      ["sub", "New File.txt"] := by decide +kernel

theorem walk_back : walkDirsS up0 root4 [] (pathParts "sub/../New File.txt").1 = .ok [] := by decide +kernel

theorem room_new : DirSlots.findFree rootSlots (numParts (Names.encodeUtf16 "New File.txt".toList).length + 1) +
    (numParts (Names.encodeUtf16 "New File.txt".toList).length + 1) ≤ 16 := by decide +kernel

/-- **the byte-level `create_file` on the image**: walks into `sub` (cluster 2), back through its `..` entry, writes
    the two slots of `New File.txt` into the root region; afterwards the image holds the new slot tree -/
example : ∃ (h : FileH) (d' : Dev),
    run (createFile env 30 (rootDirStream dev.fs) "sub/../New File.txt") dev = (.ok h, d') ∧ VolStep dev d' ∧
    ImgTreeW d' up0 (createS up0 70000 root4 [] "sub/../New File.txt" false stampNew).tree cl := by
  obtain ⟨_, o2⟩ := create_file_img_partial imgTreeW root4_wf dotSafe env rfl [] _ den_root4 "sub/../New File.txt" 30
    (by decide)
    (fun p hp => by rw [walk_back] at hp; cases hp; rfl)
    (fun slots ch ht => by
      rw [root4_eq] at ht
      simp only [Node.dir.injEq] at ht
      obtain ⟨rfl, _⟩ := ht
      intro N hN
      have hpp : (pathParts "sub/../New File.txt").2 = "New File.txt" := by decide +kernel
      rw [hpp]
      have h16 : N = 16 := by
        have h1 := hN.slots
        have h2 : (rootSliceOf dev.fs).size = 512 := by decide
        omega
      rw [h16]
      exact room_new)
    (by rw [show sfnStamp dev.fs dev.clock none = stampNew from rfl, model_create.1]; simp)
  exact o2 [] model_create.1

end Ex4

/-! ### non-vacuity: `create_dir("sub/../New dir")` on the image of `Ex4` (the allocator finds cluster 4) -/

namespace Ex4
open C01tree.Ex SlotTreeImg FatVerif.FileSim FatVerif.Fat

def stampDir : List Nat := sfnStamp dev.fs dev.clock (some 4)

theorem model_mkdir :
    (createS up0 70000 root4 [] "sub/../New dir" true stampDir).out = .ok [] ∧
    (abs (createS up0 70000 root4 [] "sub/../New dir" true stampDir).tree).children.map (·.1) =
      ["sub", "New dir"] := by decide +kernel

theorem walk_back2 : walkDirsS up0 root4 [] (pathParts "sub/../New dir").1 = .ok [] := by decide +kernel

theorem room_dir : DirSlots.findFree rootSlots (numParts (Names.encodeUtf16 "New dir".toList).length + 1) +
    (numParts (Names.encodeUtf16 "New dir".toList).length + 1) ≤ 16 := by decide +kernel

theorem geo : Geo dev.fs dev.img.size :=
  ⟨by decide, by decide, by decide, by decide, by decide, by decide, by decide, by decide, by decide, by decide, by decide⟩

theorem fat2 : tabView dev.fs dev.img 2 = .data 3 := by decide +kernel
theorem fat3 : tabView dev.fs dev.img 3 = .eoc := by decide +kernel
theorem find4 : allocFindV (tabView dev.fs dev.img) dev.fs.fsInfo.next dev.fs.totalClusters = some 4 := by
  decide +kernel

theorem tab4 : ∀ c, c < 6 → tabView dev.fs dev.img c =
    [FatValue.eoc, .eoc, .data 3, .eoc, .free, .free].getD c .bad := by decide +kernel

/-- the FAT of the image is well formed: its only link is 2 → 3 -/
theorem fatwf4 : FatWf (tabView dev.fs dev.img) dev.fs.totalClusters := by
  have key : ∀ c n, tabView dev.fs dev.img c = .data n → c = 2 ∧ n = 3 := by
    intro c n h
    have hc : c < 6 := by
      apply Classical.byContradiction
      intro hc
      unfold tabView at h
      rw [if_neg (show ¬ c < dev.fs.totalClusters + 2 from hc)] at h; cases h
    rw [tab4 c hc] at h
    have : c = 0 ∨ c = 1 ∨ c = 2 ∨ c = 3 ∨ c = 4 ∨ c = 5 := by omega
    rcases this with rfl | rfl | rfl | rfl | rfl | rfl <;> first | (cases h; omega) | cases h
  refine ⟨?_, ?_, ?_, ⟨fun c => 10 - c, ?_⟩⟩
  · intro c n h; obtain ⟨_, rfl⟩ := key c n h; decide
  · intro c n h
    obtain ⟨_, rfl⟩ := key c n h
    rw [fat3]; decide
  · intro a b n ha hb
    obtain ⟨rfl, _⟩ := key a n ha
    obtain ⟨rfl, _⟩ := key b n hb
    rfl
  · intro c n h; obtain ⟨rfl, rfl⟩ := key c n h; decide

/-- **the byte-level `create_dir` on the image**: walks into `sub` and back, allocates cluster 4, writes the two slots
    of `New dir` into the root region and the dot entries into cluster 4 (`DirRes.apart` is discharged from the
    well-formedness of the FAT, `DirRes.of_fatWf`: the head of `sub`'s chain is allocated, cluster 4 is free); afterwards the image holds the new slot
    tree under a cluster map that agrees with `cl` on the old directories -/
example : ∃ (s : DirStream) (d' : Dev),
    run (createDir env 30 (rootDirStream dev.fs) "sub/../New dir") dev = (.ok s, d') ∧ VolStep dev d' ∧
    ∃ cl', ImgTreeW d' up0 (createS up0 70000 root4 [] "sub/../New dir" true stampDir).tree cl' ∧
      ClAgree up0 root4 cl cl' := by
  obtain ⟨_, o2⟩ := create_dir_img_partial imgTreeW root4_wf dotSafe env rfl [] _ den_root4 "sub/../New dir" 30
    (by decide)
    (fun p hp => by rw [walk_back2] at hp; cases hp; rfl) 4
    (fun slots ch ht => by
      rw [root4_eq] at ht
      simp only [Node.dir.injEq] at ht
      obtain ⟨rfl, _⟩ := ht
      have hpp : (pathParts "sub/../New dir").2 = "New dir" := by decide +kernel
      rw [hpp]
      refine DirRes.of_fatWf geo ⟨(fun n h => by cases h), (fun n h => by cases h)⟩ (by decide) (by decide) (by decide)
        (by decide) find4 (by decide) ?_ fatwf4 ?_
      · intro N hN
        have h16 : N = 16 := by
          have h1 := hN.slots
          have h2 : (rootSliceOf dev.fs).size = 512 := by decide
          omega
        rw [h16]
        exact room_dir
      · intro cur s c' hne _ c0 hcl
        have h2 : c0 = 2 := by
          unfold cl at hcl
          rw [if_neg hne] at hcl
          cases hcl; rfl
        subst h2
        rw [fat2]; decide)
    (by rw [show sfnStamp dev.fs dev.clock (some 4) = stampDir from rfl, model_mkdir.1]; simp)
  exact o2 [] model_mkdir.1

end Ex4

/-! ### non-vacuity: `create_file("New.txt")` through the handle of `sub` (slot level, `create_file_subdir_slots_partial`) -/

namespace Ex4
open C01tree.Ex SlotTreeImg FatVerif.FileSim FatVerif.Fat

theorem isEnd_read (img : Img) (off : Nat) (h : img.getByte off = 0) : Lfn.isEnd (img.read off 32) = true := by
  unfold Lfn.isEnd Lfn.byte
  rw [Img.read_getD _ _ _ _ (by omega)]
  simp only [Nat.add_zero, beq_iff_eq]
  exact h

theorem ex_s1 : (chainSlots dev.fs dev.img [2, 3]).take 5 = dotSlot :: dotDotSlot :: subSlots := by decide +kernel
theorem ex_s1z : ∀ j, j < 32 → 5 ≤ j → dev.img.getByte (chainSrc dev.fs [2, 3] (32 * j)) = 0 := by decide +kernel

/-- the chain of `sub` at slot level: `.`, `..`, the three slots of `Hello World.txt`, 27 end markers -/
theorem subSlots4 : SubSlots dev [2, 3] dotSlot dotDotSlot subSlots ((chainSlots dev.fs dev.img [2, 3]).drop 5) := by
  have hsrc : chainSlots dev.fs dev.img [2, 3] = srcSlots dev.img (chainSrc dev.fs [2, 3]) 32 :=
    (srcSlots_chain dev.fs dev.img (by decide) (by decide) [2, 3]).symm
  refine ⟨?_, ?_, by decide, by decide, by decide, by decide⟩
  · have := (List.take_append_drop 5 (chainSlots dev.fs dev.img [2, 3])).symm
    rw [ex_s1] at this
    exact this
  · intro x hx
    rw [hsrc] at hx
    obtain ⟨i, hi, rfl⟩ := List.mem_iff_getElem.1 hx
    rw [List.length_drop, srcSlots_length] at hi
    rw [List.getElem_drop]
    unfold srcSlots
    rw [List.getElem_map, List.getElem_range]
    exact isEnd_read _ _ (ex_s1z (5 + i) (by omega) (by omega))

def eSubEntry : DirEntry := toDirEntryS (rootSrc fs) eSub

theorem eSub_isDir : eSubEntry.isDir = true := by decide +kernel
theorem eSub_name : eSubEntry.editor.data.name.length = 11 := by decide +kernel
theorem eSub_pos : eSubEntry.editor.pos = 1056 := by decide +kernel

theorem model_check_sub :
    checkForExistenceL up0 subSlots "New.txt" (some false) 70000 =
      .ok (.alias [78, 69, 87, 32, 32, 32, 32, 32, 84, 88, 84]) := by decide +kernel

/-- **`create_file("New.txt")` through the handle of `sub`** (cluster chain `[2, 3]`, reached through its record in the
    root at offset 1056): the program succeeds and the chain then holds the dot slots, the model's slot list after
    `write_entry`, and end markers -/
example : ∃ (h : FileH) (d' : Dev) (tail' : List (List Nat)),
    run (createFile env 1 (.file (FileH.new (some 2) (some eSubEntry.editor))) "New.txt") dev = (.ok h, d') ∧
    VolStep dev d' ∧
    SubSlots d' [2, 3] dotSlot dotDotSlot
      (DirSlots.writeEntry subSlots (Names.encodeUtf16 "New.txt".toList)
        (sfnWith [78, 69, 87, 32, 32, 32, 32, 32, 84, 88, 84] (0 :: sfnStamp dev.fs dev.clock none))) tail' := by
  have T := create_file_subdir_slots_partial dotSafe env rfl 2 eSubEntry.editor [2, 3]
    (subReadable_entry eSubEntry eSub_isDir).dir wf (by decide) eSub_name (by rw [eSub_pos]; decide)
    (by rw [eSub_pos]; decide) (by rw [eSub_pos]; decide) rfl dotSlot dotDotSlot subSlots _ subSlots4 "New.txt" "New.txt"
    (by decide +kernel) (by decide) (by decide +kernel) 0
  rw [model_check_sub] at T
  simp only at T
  have hval : Names.validateLongName "New.txt" = .ok () := by decide +kernel
  rw [hval] at T
  obtain ⟨h, d', tail', hr, hs, hS, _⟩ := T
  exact ⟨h, d', tail', hr, hs, hS⟩

end Ex4

/-! ### non-vacuity of the history theorem: three calls on the image of `Ex4` -/

namespace Ex4
open C01tree.Ex SlotTreeImg FatVerif.FileSim FatVerif.Fat

theorem parts_new : pathParts "New File.txt" = ([], "New File.txt") := by decide +kernel
theorem walk_new : walkDirsS up0 root4 [] (pathParts "New File.txt").1 = .ok [] := by decide +kernel
theorem model_create2 : (createS up0 70000 root4 [] "New File.txt" false stampNew).out = .ok [] := by decide +kernel

theorem listing_root4 : listing rootSlots = [eSub] := by decide +kernel
theorem listing_sub4 : listing subSlots = [eHello] := by decide +kernel

/-- "New File.txt" answers to no entry of the tree (so trivially to no alias only) -/
theorem qall_new : QAll up0 root4 "New File.txt" := by
  unfold QAll
  rw [root4_eq, all_dir]
  refine ⟨?_, ?_⟩
  · unfold QHit
    rw [listing_root4]
    decide +kernel
  · intro x hx
    simp only [List.mem_singleton] at hx
    rw [hx]
    show Node.All _ sub0
    rw [sub0_eq, all_dir]
    refine ⟨?_, ?_⟩
    · unfold QHit
      rw [listing_sub4]
      decide +kernel
    · intro y hy
      simp only [List.mem_singleton] at hy
      rw [hy]
      trivial

def aliasNew : List Nat := [78, 69, 87, 70, 73, 76, 126, 49, 84, 88, 84]
def unitsNew : List Nat := Names.encodeUtf16 "New File.txt".toList
def sfnNew : List Nat := sfnWith aliasNew (newBody false stampNew)
def eNew : LfnEntry := newEntry rootSlots unitsNew sfnNew
def slots1 : List (List Nat) := DirSlots.writeEntry rootSlots unitsNew sfnNew
def tree1 : Node := .dir slots1 [(eSub, sub0), (eNew, .file [])]

theorem check_new : checkForExistenceL up0 rootSlots "New File.txt" (some false) 70000 = .ok (.alias aliasNew) := by
  decide +kernel

/-- the tree after the first call, in constructor form -/
theorem tree1_eq : (createS up0 70000 root4 [] "New File.txt" false stampNew).tree = tree1 := by
  rw [createS_file_eq, walk_new]
  show (cfFinal up0 root4 [] (pathParts "New File.txt").2 stampNew).tree = _
  rw [parts_new]
  unfold cfFinal
  rw [root4_eq]
  simp only [getAtS]
  have hd : isDotName "New File.txt" = false := by decide
  simp only [hd, Bool.false_eq_true, if_false]
  unfold createFinal
  rw [check_new]
  have hv : Names.validateLongName "New File.txt" = .ok () := by decide +kernel
  simp only [hd, Bool.false_eq_true, if_false, hv, done]
  show addEntry unitsNew sfnNew (freshNode false) (.dir rootSlots [(eSub, sub0)]) = _
  have hshape : Shape rootSlots := by
    have h := root4_wf
    rw [root4_eq] at h
    exact ((all_dir _ _ _).1 h).1.wf.shape
  rw [addEntry_dir hshape unitsNew sfnNew (freshNode false) [(eSub, sub0)] (by decide) (by decide) (by decide)
    (by decide) (by decide +kernel)]
  rfl

theorem listing_slots1 : listing slots1 = [eSub, eNew] := by decide +kernel

/-- "b.txt" answers to no entry of the tree after the first call -/
theorem qall_b : QAll up0 tree1 "b.txt" := by
  unfold QAll tree1
  rw [all_dir]
  refine ⟨?_, ?_⟩
  · unfold QHit
    rw [listing_slots1]
    decide +kernel
  · intro x hx
    simp only [List.mem_cons, List.not_mem_nil, or_false] at hx
    rcases hx with rfl | rfl
    · show Node.All _ sub0
      rw [sub0_eq, all_dir]
      refine ⟨?_, ?_⟩
      · unfold QHit
        rw [listing_sub4]
        decide +kernel
      · intro y hy
        simp only [List.mem_singleton] at hy
        rw [hy]
        trivial
    · trivial

theorem parts_b : pathParts "b.txt" = ([], "b.txt") := by decide +kernel
theorem walk_b : walkDirsS up0 tree1 [] (pathParts "b.txt").1 = .ok [] := by decide +kernel
theorem room_b : DirSlots.findFree slots1 (numParts (Names.encodeUtf16 "b.txt".toList).length + 1) +
    (numParts (Names.encodeUtf16 "b.txt".toList).length + 1) ≤ 16 := by decide +kernel
theorem model_create_b : (createS up0 70000 tree1 [] "b.txt" false stampNew).out = .ok [] := by decide +kernel

/-- **a history of three calls at byte level**: `create_file("New File.txt")`, `create_file("b.txt")`, then a listing
    of the root, through the root handle on the image of `Ex4` — the hypotheses of `history_refines_spec_img_partial`
    hold (given the string facts `SplitAgree`), in particular the continuation clauses of `HistOk` for WHATEVER device
    the call before leaves: the room in the root region follows from the geometry, which a `VolStep` keeps; the
    model's answers are computed on the model's tree; the stamp is the clock's, which does not move -/
example (hsa : SplitAgree "New File.txt") (hsb : SplitAgree "b.txt") :
    ∃ (obs : List (Spec.Op × Spec.Obs)) (d' : Dev) (t' : Node) (cl' : List String → Option Nat),
      ByteRun env 30 up0 dev root4 [.createFile "New File.txt", .createFile "b.txt", .list] obs d' t' ∧
      ImgTreeW d' up0 t' cl' ∧ TreeWf up0 t' ∧
      C01tree.specRun (cfgOf Names.upperAscii) (abs root4) obs = .ok (abs t') := by
  refine history_refines_spec_img_partial Names.upperAscii dotSafe env rfl 30 _ cl dev root4 imgTreeW root4_wf rfl ?_
  show HistOk up0 30 cl dev root4 [.createFile "New File.txt", .createFile "b.txt", .list]
  have hcwd : ∀ t : Node, t.isDir = true → CwdOk up0 t [] := by
    intro t ht
    obtain ⟨s, c, rfl⟩ := (isDir_iff_dir t).1 ht
    exact ⟨trivial, s, c, rfl⟩
  have hroom16 : ∀ d1 : Dev, VolStep dev d1 → ∀ N, RootReadable d1 N → N = 16 := by
    intro d1 hs N hN
    have h1 := hN.slots
    have h2 : (rootSliceOf d1.fs).size = 512 := by rw [rootSliceOf_geomEq hs.geom]; decide
    omega
  refine ⟨⟨by decide, ?_, ?_, ?_⟩, ⟨hcwd root4 rfl, hsa, ?_, ?_⟩, ?_⟩
  · intro p hp
    rw [walk_new] at hp; cases hp; rfl
  · intro slots ch ht
    rw [root4_eq] at ht
    simp only [Node.dir.injEq] at ht
    obtain ⟨rfl, _⟩ := ht
    intro N hN
    rw [parts_new, hroom16 dev (VolStep.of_sameVol (SameVol.refl dev)) N hN]
    exact room_new
  · show (createS up0 70000 root4 [] "New File.txt" false stampNew).out ≠ _
    rw [model_create2]; simp
  · intro q hq
    rw [parts_new] at hq; cases hq
  · rw [parts_new]; exact qall_new
  · intro d1 cl1 hs1 hclk1 _ _
    have ht1 : (modelStep up0 dev root4 (.createFile "New File.txt")).tree = tree1 := tree1_eq
    rw [ht1]
    have hstamp : sfnStamp d1.fs d1.clock none = stampNew := by
      rw [sfnStamp_geom hs1.geom, hclk1]; rfl
    have hm2 : modelStep up0 d1 tree1 (.createFile "b.txt") = createS up0 70000 tree1 [] "b.txt" false stampNew := by
      unfold modelStep Call.op stampOf
      simp only [stepSlot]
      rw [hstamp]
    refine ⟨⟨by decide, ?_, ?_, ?_⟩, ⟨hcwd tree1 rfl, hsb, ?_, ?_⟩, ?_⟩
    · intro p hp
      rw [walk_b] at hp; cases hp; rfl
    · intro slots ch ht
      have : slots = slots1 := by
        unfold tree1 at ht
        simp only [Node.dir.injEq] at ht
        exact ht.1.symm
      subst this
      intro N hN
      rw [parts_b, hroom16 d1 hs1 N hN]
      exact room_b
    · rw [hm2, model_create_b]; simp
    · intro q hq
      rw [parts_b] at hq; cases hq
    · rw [parts_b]; exact qall_b
    · intro d2 cl2 _ _ _ _
      refine ⟨trivial, hcwd _ (by rw [modelStep_isDir]; rfl), fun _ _ _ _ _ _ => trivial⟩

end Ex4

/-! ## prepared: `create_file` on the image — the statement, and what it needs from the WRITE simulation

The walk of `create_file` is that of `open_file` (`SlotTreeImg.walk_step`, `walk_fail` are generic in the program run
on the last directory), and `check_for_existence` on the last directory is covered by
`DirSim.DirSrc.checkForExistence_sim` (outcome = `DirAlias.checkForExistenceL` on the image slots).  Missing are:

* **(W1) `writeEntry_sim`** (agent-effects): for a `DirView V` of `st`, a valid name and a short record `raw`,
  `run (DirOps.writeEntry st name raw) d = (.ok de, d')` with `de = toDirEntryS V.src ⟨raw.serialize, units, p, p+n⟩`
  (`p = DirSlots.findFree slots n`) and the slots of the directory in `d'.img` equal to
  `DirSlots.writeEntry (slots in d.img) units raw.serialize` — inside the allocated space, or after the chain has grown
  by one zero-filled cluster;
* **(W1-frame)** (as delivered by agent-effects, `Proofs/DirWriteSim13`: `WView.writeEntry_sim`): NOT "`d'.fs = d.fs`
  and every other byte equal" — the first write marks the volume dirty (status byte in the image, `fs.curDirty`).
  What holds and suffices: `VolStep d d'` (fault schedule, image size and `Img.WF` kept, `FsGeomEq d.fs d'.fs`: the
  geometry part of `fs` equal) and `FrameOutG N src d d'` (every byte at offset ≥ 0x42 outside ALL slots of the written
  directory unchanged) — so that every OTHER directory's slots are unchanged (`srcSlots_frame`), the FAT is unchanged
  (`fatAgree_of_frame`), and its `DirView` carries over (`ChainDir.of_agree`, `RootReadable.of_volStep`),
  re-establishing `ImgTree` on `d'`;
* **(W2) `createSfnEntry_sim`**: `createSfnEntry sn attrs first` returns a record whose serialisation is
  `sfnWith sn (attrs :: stamp)` for the 20 bytes `stamp` the clock and `first` determine;
* **(W3) `deleteEntry_sim`** (+ frame), for `remove`/`rename`: the slots become `DirSlots.deleteRange slots b e`;
* and one lemma on THIS side: `check_for_existence` on the image slots of a subdirectory (dot entries in front, zero
  slots behind) chooses the alias `checkForExistenceL` chooses on the node's slots (the generator is fed the two dot
  names in addition: they mark nothing a legal candidate could equal) — today validated by the run-time
  correspondence (`corr-slot-tree alias`), not proved.

`WriteSim` packages (W1)+(W1-frame)+(W2) as ONE hypothesis in the form the composition needs: after the program the
image holds the slot tree with the entry added.  `create_file_img_statement` is the theorem to prove from it. -/

/-- (W1)+(W1-frame)+(W2) at the level of `ImgTree`: writing the entry for `name` with alias `a` through a stream that
    denotes the directory at `p` succeeds and leaves an image that holds the tree with that entry added (for some body
    bytes `stamp`) -/
def WriteSim (d : Dev) (up : Char → List Char) (t : Node) (cl : List String → Option Nat) : Prop :=
  ∀ (p : List String) (st : DirStream) (name : String) (a : List Nat) (attrs : Nat) (first : Option Nat),
    Den d up t cl p st → Names.validateLongName name = .ok () →
    ∃ (stamp : List Nat) (d' : Dev) (de : DirEntry),
      run (Prog.bind (createSfnEntry a attrs first) fun sfn => writeEntry st name sfn) d = (.ok de, d') ∧
      de.isDir = false ∧ d'.failAt = none ∧
      ImgTree d' up
        (updS up (addEntry (Names.encodeUtf16 name.toList) (sfnWith a (attrs :: stamp)) (.file [])) p t) cl

/-- the statement for `create_file` (not proved here): under `ImgTree`, `TreeWf`, `DotSafe` and the write simulation,
    the byte-level `create_file` ends as `createS` says — same error kind, or success with an image that holds the new
    slot tree -/
def create_file_img_statement : Prop :=
  ∀ (d : Dev) (up : Char → List Char) (t : Node) (cl : List String → Option Nat) (env : Env) (cwd : List String)
    (st : DirStream) (path : String) (fuel : Nat),
    ImgTree d up t cl → TreeWf up t → DotSafe up → env.upper = up → Den d up t cl cwd st →
    path.toList.length < fuel → WriteSim d up t cl →
    ∃ stamp : List Nat,
      (∀ e, (createS up 70000 t cwd path false stamp).out = .error e → e ≠ .hang →
        ∀ d1, SameVol d d1 → FailsV (createFile env fuel st path) d1 e) ∧
      (∀ rows, (createS up 70000 t cwd path false stamp).out = .ok rows →
        ∃ (h : FileH) (d' : Dev), (run (createFile env fuel st path) d).1 = .ok h ∧
          (run (createFile env fuel st path) d).2 = d' ∧
          ImgTree d' up (createS up 70000 t cwd path false stamp).tree cl)

end C01img
end FatVerif
