import FatVerif.Props.SpecRegions
import FatVerif.Props.C07
import FatVerif.Spec.Geometry
/-!
# The oracles' geometry = the C07 specification's geometry = the mounted model's geometry

`Spec.parseGeomF` (the geometry record every structural oracle works with: region map, chain decoder, Fsck) and
`GeoSpec.specGeometry` (the independent parse C07 is stated with) were written separately.  For every boot sector the
oracles accept they give the same FAT width, cluster size and cluster count (`oracle_geom_eq_spec`), hence — by C07
`mount_geometry` — the same as the model of `FileSystem::new` mounts (`oracle_geom_eq_mount`).
-/
namespace FatVerif.Spec
open FatVerif FatVerif.GeoSpec

/-- the base fields of the oracle's geometry record, whatever the width -/
structure BaseEq (b : BpbRaw) (g : Geom) : Prop where
  bps : g.bps = b.bps
  spc : g.spc = b.spc
  reserved : g.reserved = b.reserved
  fats : g.fats = b.fats
  rootEntries : g.rootEntries = b.rootEntries
  totalSectors : g.totalSectors = (if b.totSec16 ≠ 0 then b.totSec16 else b.totSec32)
  spf : g.spf = (if b.fatSz16 ≠ 0 then b.fatSz16 else b.fatSz32)

theorem Geom.totalClusters_congr {g h : Geom} (e1 : g.bps = h.bps) (e2 : g.spc = h.spc) (e3 : g.reserved = h.reserved)
    (e4 : g.fats = h.fats) (e5 : g.rootEntries = h.rootEntries) (e6 : g.totalSectors = h.totalSectors)
    (e7 : g.spf = h.spf) : g.totalClusters = h.totalClusters := by
  unfold Geom.totalClusters Geom.dataStartSector Geom.rootDirSectors
  rw [e1, e2, e3, e4, e5, e6, e7]

theorem geomOfBpb_shape (b : BpbRaw) : ∃ g0 : Geom, BaseEq b g0 ∧
    geomOfBpb b =
      (if g0.totalClusters < 4085 then { g0 with fatBits := 12 }
       else if g0.totalClusters < 65525 then { g0 with fatBits := 16 }
       else { g0 with fatBits := 32, rootCluster := b.rootClus, fsInfoSector := b.fsInfo, backupSector := b.bkBoot
                      extFlags := b.extFlags, statusByteOffset := 0x41 }) := by
  unfold geomOfBpb
  exact ⟨_, ⟨rfl, rfl, rfl, rfl, rfl, rfl, rfl⟩, rfl⟩

theorem geomOfBpb_base (b : BpbRaw) : BaseEq b (geomOfBpb b) ∧
    (geomOfBpb b).fatBits =
      (if (geomOfBpb b).totalClusters < 4085 then 12 else if (geomOfBpb b).totalClusters < 65525 then 16 else 32) := by
  obtain ⟨g0, hb0, hg⟩ := geomOfBpb_shape b
  by_cases h1 : g0.totalClusters < 4085
  · rw [if_pos h1] at hg
    rw [hg]
    have e : ({ g0 with fatBits := 12 } : Geom).totalClusters = g0.totalClusters :=
      Geom.totalClusters_congr rfl rfl rfl rfl rfl rfl rfl
    exact ⟨⟨hb0.bps, hb0.spc, hb0.reserved, hb0.fats, hb0.rootEntries, hb0.totalSectors, hb0.spf⟩, by rw [e, if_pos h1]⟩
  · rw [if_neg h1] at hg
    by_cases h2 : g0.totalClusters < 65525
    · rw [if_pos h2] at hg
      rw [hg]
      have e : ({ g0 with fatBits := 16 } : Geom).totalClusters = g0.totalClusters :=
        Geom.totalClusters_congr rfl rfl rfl rfl rfl rfl rfl
      exact ⟨⟨hb0.bps, hb0.spc, hb0.reserved, hb0.fats, hb0.rootEntries, hb0.totalSectors, hb0.spf⟩,
        by rw [e, if_neg h1, if_pos h2]⟩
    · rw [if_neg h2] at hg
      rw [hg]
      refine ⟨⟨hb0.bps, hb0.spc, hb0.reserved, hb0.fats, hb0.rootEntries, hb0.totalSectors, hb0.spf⟩, ?_⟩
      have e : ({ g0 with fatBits := 32, rootCluster := b.rootClus, fsInfoSector := b.fsInfo, backupSector := b.bkBoot
                          extFlags := b.extFlags, statusByteOffset := 0x41 } : Geom).totalClusters = g0.totalClusters :=
        Geom.totalClusters_congr rfl rfl rfl rfl rfl rfl rfl
      rw [e, if_neg h1, if_neg h2]
theorem field1 (b : List Nat) (o : Nat) : field b o 1 = b.getD o 0 := by simp [field]
theorem field2 (b : List Nat) (o : Nat) : field b o 2 = rd16 (fun i => b.getD i 0) o := by simp [field, rd16]
theorem field4 (b : List Nat) (o : Nat) : field b o 4 = rd32 (fun i => b.getD i 0) o := by
  simp only [field, rd32]
  have e1 : o + 1 + 1 = o + 2 := rfl
  have e2 : o + 1 + 1 + 1 = o + 3 := rfl
  rw [e1, e2]
  omega

/-- the oracle's geometry record read field by field as the C07 specification reads the boot sector -/
theorem readBpb_fields (b : List Nat) :
    let r := readBpb (fun i => b.getD i 0)
    r.bps = bytsPerSec b ∧ r.spc = secPerClus b ∧ r.reserved = rsvdSecCnt b ∧ r.fats = numFATs b ∧
    r.rootEntries = rootEntCnt b ∧ r.totSec16 = totSec16 b ∧ r.fatSz16 = fatSz16 b ∧ r.totSec32 = totSec32 b ∧
    r.fatSz32 = fatSz32 b := by
  simp only [readBpb, bytsPerSec, secPerClus, rsvdSecCnt, numFATs, rootEntCnt, GeoSpec.totSec16, GeoSpec.fatSz16,
    GeoSpec.totSec32, GeoSpec.fatSz32, field1, field2, field4, and_self]

/-- FAT width as a `FatType` -/
def ftOfBits (bits : Nat) : FatType := if bits = 12 then .fat12 else if bits = 16 then .fat16 else .fat32

/-- **`oracle_geom_eq_spec`.**  For every boot sector the oracles accept, the geometry they work with (FAT width,
    cluster size, cluster count) is `GeoSpec.specGeometry` — the independent parse that `mount_geometry` /
    `mount_run_geometry` (C07) prove equal to what the model of `FileSystem::new` mounts.  So oracle, C07 specification
    and mounted model agree on the geometry of every volume they all accept. -/
theorem oracle_geom_eq_spec (b : List Nat) (g : Geom) (h : parseGeomF (fun i => b.getD i 0) = .ok g) :
    (ftOfBits g.fatBits, g.clusterSize, g.totalClusters) = specGeometry b := by
  unfold parseGeomF at h
  simp only at h
  split at h
  · cases h
  · obtain ⟨e, _⟩ := checkGeom_ok _ _ _ h
    subst e
    obtain ⟨hb, hbits⟩ := geomOfBpb_base (readBpb (fun i => b.getD i 0))
    obtain ⟨f1, f2, f3, f4, f5, f6, f7, f8, f9⟩ := readBpb_fields b
    generalize geomOfBpb (readBpb fun i => b.getD i 0) = g at hb hbits
    generalize readBpb (fun i => b.getD i 0) = r at hb f1 f2 f3 f4 f5 f6 f7 f8 f9
    have htc : g.totalClusters = countOfClusters b := by
      unfold Geom.totalClusters Geom.dataStartSector Geom.rootDirSectors countOfClusters dataSec metaSectors
        GeoSpec.rootDirSectors totSec fatSz
      rw [hb.bps, hb.spc, hb.reserved, hb.fats, hb.rootEntries, hb.totalSectors, hb.spf, f1, f2, f3, f4, f5, f6, f7,
        f8, f9]
    have hcs : g.clusterSize = secPerClus b * bytsPerSec b := by
      unfold Geom.clusterSize; rw [hb.bps, hb.spc, f1, f2, Nat.mul_comm]
    unfold specGeometry
    rw [hcs, htc]
    congr 1
    rw [hbits, htc]
    unfold ftOfBits fatTypeOfCount
    split
    · rfl
    · split <;> rfl

end FatVerif.Spec

namespace FatVerif.Spec
open FatVerif FatVerif.GeoSpec

/-- **`oracle_geom_eq_mount`.**  Whenever the model of the library's mount accepts a boot sector AND the oracles parse
    it, both work with the same FAT width, cluster size and cluster count. -/
theorem oracle_geom_eq_mount {b : List Nat} {strict : Bool} {gm : Geometry} (hb : IsSector b)
    (hm : probe b strict = .ok gm) (g : Geom) (h : parseGeomF (fun i => b.getD i 0) = .ok g) :
    (gm.fatType, gm.clusterSize, gm.totalClusters) = (ftOfBits g.fatBits, g.clusterSize, g.totalClusters) := by
  rw [oracle_geom_eq_spec b g h]
  exact C07.mount_geometry hb hm

end FatVerif.Spec

namespace FatVerif.Spec
open FatVerif FatVerif.C07
/-- both hypotheses hold together on the FAT32 and the FAT16 witness sectors of C07 -/
example : (probe goodFat32 true).toOption.isSome = true ∧
    (parseGeomF (fun i => goodFat32.getD i 0)).toOption.isSome = true ∧
    (probe goodFat16 true).toOption.isSome = true ∧
    (parseGeomF (fun i => goodFat16.getD i 0)).toOption.isSome = true := by decide +kernel
end FatVerif.Spec

namespace FatVerif.Spec

theorem parseGeomF_cs_pos (rd : Nat → Nat) (g : Geom) (h : parseGeomF rd = .ok g) : 0 < g.clusterSize := by
  unfold parseGeomF at h
  simp only at h
  split at h
  · cases h
  · rename_i hz
    obtain ⟨e, _⟩ := checkGeom_ok _ _ _ h
    subst e
    obtain ⟨hb, _⟩ := geomOfBpb_base (readBpb rd)
    unfold Geom.clusterSize
    rw [hb.bps, hb.spc]
    have h1 : (readBpb rd).bps ≠ 0 := fun e => hz (.inl e)
    have h2 : (readBpb rd).spc ≠ 0 := fun e => hz (.inr e)
    exact Nat.mul_pos (Nat.pos_of_ne_zero h1) (Nat.pos_of_ne_zero h2)

end FatVerif.Spec

namespace FatVerif.Spec

/-- **`allowedWrite_iff_bytes_parsed`.**  `allowedWrite_iff_bytes` for the geometry parsed from ANY boot sector the
    oracles accept — no hypothesis left: the C11 oracle is silent on a write iff every written byte is allowed. -/
theorem allowedWrite_iff_bytes_parsed (rd : Nat → Nat) (g : Geom) (h : parseGeomF rd = .ok g) (pre : Img)
    (owners : Std.HashMap Nat Owner) (touched : List String) (off len : Nat) (upper : Char → List Char) :
    allowedWriteWith g pre owners touched off len upper = none ↔
      ∀ q, off ≤ q → q < off + len → regionAllowed g pre owners touched upper (regionAt g q).1 = true :=
  allowedWrite_iff_bytes g (parseGeomF_status rd g h) pre owners touched off len upper

/-- **`regionAt_cluster_iff_parsed`.**  … and on such a geometry "cluster `c`" is exactly `[clusterOff c, clusterOff (c+1))`
    inside the data region and the declared volume. -/
theorem regionAt_cluster_iff_parsed (rd : Nat → Nat) (g : Geom) (h : parseGeomF rd = .ok g) (q c : Nat) :
    (regionAt g q).1 = .cluster c ↔
      (2 ≤ c ∧ g.clusterOff c ≤ q ∧ q < g.clusterOff (c + 1) ∧ q < g.dataEnd ∧ q < g.volumeBytes) :=
  regionAt_cluster_iff g (parseGeomF_cs_pos rd g h) q c

end FatVerif.Spec
