import FatVerif.Proofs.LfnGen
import FatVerif.Proofs.LfnFallback
/-!
# C17 — directory decoding is total on arbitrary slot contents

`readDirEntries alloc skipVolume slots` is the model of `DirIter` (dir.rs) over a list of 32-byte slots, in both
`LfnBuffer` variants (`alloc = true`: `Vec`; `alloc = false`: `[u16; 260]` + `len`).
-/
namespace FatVerif
open Lfn

/-! ## witnesses -/

namespace C17
/-- a short slot: 11 name bytes, attribute 0x20, 20 zero bytes -/
def sfnOf (name : List Nat) : List Nat := name ++ 0x20 :: List.replicate 20 0

/-- "LONG260 TXT" -/
def longName : List Nat := [76, 79, 78, 71, 50, 54, 48, 32, 84, 88, 84]
/-- "LEAK    TXT" -/
def leakName : List Nat := [76, 69, 65, 75, 32, 32, 32, 32, 84, 88, 84]

/-- F17 witness: ordinals `0x54, 19, …, 1`, every unit `'A'`, then the short entry whose checksum they carry -/
def f17Witness : List (List Nat) :=
  ((List.range 20).map fun i =>
      lfnSlotBytes (if i = 0 then 0x54 else 20 - i) (lfnChecksum longName) (List.replicate 13 0x41)) ++
    [sfnOf longName]

/-- F18 witness: an abandoned 2-slot run (`0x42`, units `'X'`) directly followed by a complete 1-slot run
    (`0x41`, units `'a'`) and the short entry -/
def f18Witness : List (List Nat) :=
  [lfnSlotBytes 0x42 (lfnChecksum leakName) (List.replicate 13 0x58),
   lfnSlotBytes 0x41 (lfnChecksum leakName) (List.replicate 13 0x61),
   sfnOf leakName]
end C17

/-! ## 1. totality -/

/-- **C17.1** The reader is a structural recursion on the slot list (so it terminates), and none of its explicit
    panic sites fires: `readDirEntries?` is the same loop with the bounds checks of `buf[pos..pos+13]` (`process`) and
    `ucs2_units[..len]` (`as_ucs2_units`) written out (`none` = panic); it never returns `none`. -/
theorem dirIter_total (alloc skipVolume : Bool) (slots : List (List Nat)) :
    readDirEntries? alloc skipVolume slots = some (readDirEntries alloc skipVolume slots) :=
  readLoop?_eq alloc skipVolume slots 0 0 _ (WF_new alloc)

/-- the single step: in a reachable builder state the slice `[13·(index−1), 13·index)` is inside the buffer —
    `Vec`: after `set_len(index·13)`; fixed: `260 ≥ 20·13` -/
theorem process_slice_in_range (alloc : Bool) (b : LongNameBuilder) (s : List Nat) (h : WF alloc b) :
    b.process? alloc s = some (b.process alloc s) ∧ WF alloc (b.process alloc s) :=
  process?_eq alloc b s h

example : readDirEntries? false true C17.f18Witness ≠ none := by
  rw [dirIter_total]; simp

/-! ## 2. name length -/

/-- **C17.2** (as it holds of the code) a returned long name has at most 260 units -/
theorem name_len_le_260 (alloc skipVolume : Bool) (slots : List (List Nat)) :
    ∀ e ∈ readDirEntries alloc skipVolume slots, e.units.length ≤ 260 :=
  readLoop_units_le alloc skipVolume slots 0 0 _ (WF_new alloc)

/-- **F17** `name_len_le_255` is false of the code: a crafted 20-slot run is returned as a 260-unit name,
    in both buffer variants -/
theorem name_len_255_counterexample :
    (∀ alloc, readDirEntries alloc true C17.f17Witness =
        [⟨C17.sfnOf C17.longName, List.replicate 260 0x41, 0, 21⟩]) ∧
      ¬ (∀ alloc sv slots, ∀ e ∈ readDirEntries alloc sv slots, e.units.length ≤ 255) := by
  have h : ∀ alloc, readDirEntries alloc true C17.f17Witness =
      [⟨C17.sfnOf C17.longName, List.replicate 260 0x41, 0, 21⟩] := by decide +kernel
  refine ⟨h, fun hall => ?_⟩
  have := hall true true C17.f17Witness _ (by rw [h true]; exact List.mem_singleton.2 rfl)
  simp only [List.length_replicate] at this
  omega

/-! ## 3. a long name comes from a complete run directly before the short entry -/

/-- **C17.3** (`Vec` build) if an entry carries a long name then the slots directly before its short slot form a
    complete run (first slot `0x40 | n`, `n = ` number of slots `≤ 20`, then ordinals `n−1 … 1` unflagged, one
    checksum, equal to `lfnChecksum(sfn)`), and the name is that run's units with trailing `0x0000`/`0xFFFF`
    stripped.  (Otherwise `units = []`: the short name is used.) -/
theorem broken_run_falls_back (skipVolume : Bool) (slots : List (List Nat)) :
    ∀ e ∈ readDirEntries true skipVolume slots, e.units ≠ [] →
      ∃ pre R post, slots = pre ++ R ++ e.sfn :: post ∧ e.endIdx = pre.length + R.length + 1 ∧
        CompleteRun (lfnChecksum (sfnName e.sfn)) R ∧ (∀ s ∈ R, slotClass s = .lfn) ∧
        e.units = stripTrailing (runUnits R) := by
  intro e he hne
  have hspec := readLoop_spec skipVolume slots 0 [] (LongNameBuilder.new true) DeadV_new (Nat.le_refl 0)
  simp only [List.length_nil, Nat.sub_zero, runB, List.foldr_nil] at hspec
  unfold readDirEntries at he
  rw [hspec] at he
  obtain ⟨e', he', rfl⟩ := List.mem_map.1 he
  cases hr : e'.run with
  | none => simp [specToModel, hr] at hne
  | some r =>
    obtain ⟨pre, R, post, h1, h2, h3, h4, h5⟩ :=
      specLoop_run_sound skipVolume slots 0 [] [] rfl ⟨[], rfl⟩ (by simp) e' he' r hr
    refine ⟨pre, R, post, by simpa [specToModel] using h1, h2, h3, h4, ?_⟩
    simp [specToModel, hr, ← stripTrailing_eq_spec, h5]

/-- the converse: a complete run directly before a file entry whose checksum it carries IS honoured (both variants) -/
theorem complete_run_honoured (alloc skipVolume : Bool) (R : List (List Nat)) (sfn : List Nat)
    (hR : CompleteRun (lfnChecksum (sfnName sfn)) R) (hl : ∀ s ∈ R, slotClass s = .lfn)
    (hsfn : slotClass sfn = .file) :
    readDirEntries alloc skipVolume (R ++ [sfn]) = [⟨sfn, stripTrailing (runUnits R), 0, R.length + 1⟩] :=
  read_complete_run alloc skipVolume R sfn hR hl hsfn

/-- **F18** C17.3 is false in the fixed-buffer build: `truncate` scans the whole 260-unit array, so the units of an
    abandoned longer run leak into the next name.  Same slots, `Vec` build: 13 × `'a'`; fixed buffer: 13 × `'a'` followed
    by the 13 × `'X'` of the abandoned slot. -/
theorem fixedbuf_leak_counterexample :
    readDirEntries true true C17.f18Witness =
        [⟨C17.sfnOf C17.leakName, List.replicate 13 0x61, 0, 3⟩] ∧
      readDirEntries false true C17.f18Witness =
        [⟨C17.sfnOf C17.leakName, List.replicate 13 0x61 ++ List.replicate 13 0x58, 0, 3⟩] ∧
      cleanStarts false C17.f18Witness = false := by
  decide +kernel

/-- **C17.3, fixed-buffer build, partial.**  Forced hypothesis: no valid `0x40`-flagged long-name slot directly
    follows another long-name slot (`cleanStarts`) — true of every directory the library writes; off it: F18. -/
theorem broken_run_falls_back_partial (skipVolume : Bool) (slots : List (List Nat))
    (hclean : cleanStarts false slots = true) :
    ∀ e ∈ readDirEntries false skipVolume slots, e.units ≠ [] →
      ∃ pre R post, slots = pre ++ R ++ e.sfn :: post ∧ e.endIdx = pre.length + R.length + 1 ∧
        CompleteRun (lfnChecksum (sfnName e.sfn)) R ∧ (∀ s ∈ R, slotClass s = .lfn) ∧
        e.units = stripTrailing (runUnits R) := by
  have : readDirEntries true skipVolume slots = readDirEntries false skipVolume slots :=
    readLoop_equiv skipVolume slots 0 0 false _ _ hclean Sim_new (fun _ => DeadPair_new)
  rw [← this]
  exact broken_run_falls_back skipVolume slots

/-- the hypothesis is satisfiable by a non-trivial directory: a generated 2-slot run, its short entry, a deleted
    slot, another short entry -/
example : cleanStarts false
    (lfnGenerate ((List.range 20).map (· + 0x61)) (lfnChecksum C17.leakName) ++
      [C17.sfnOf C17.leakName, 0xE5 :: List.replicate 31 0, C17.sfnOf C17.longName]) = true := by decide +kernel

/-! ## 4. model = independent specification parser (C01.1 `dirIter_spec`) -/

/-- **C17.4 / C01.1** On EVERY slot list the `Vec`-variant reader returns exactly the entries of the independent
    backward-scanning specification parser `DirSpec.specEntries` — same short slots, same ranges, and as long name the
    parser's complete run under the implementation's strip-all-trailing-padding convention (`specToModel`), i.e. modulo
    the 255-unit cap and the terminator convention of `SpecEntry.name`. -/
theorem dirIter_spec (skipVolume : Bool) (slots : List (List Nat)) :
    readDirEntries true skipVolume slots = (DirSpec.specEntries skipVolume slots).map specToModel := by
  have := readLoop_spec skipVolume slots 0 [] (LongNameBuilder.new true) DeadV_new (Nat.le_refl 0)
  simpa [runB, readDirEntries, DirSpec.specEntries] using this

/-- fixed-buffer build: the same on the `cleanStarts` domain (off it: F18) -/
theorem dirIter_spec_fixed_partial (skipVolume : Bool) (slots : List (List Nat))
    (hclean : cleanStarts false slots = true) :
    readDirEntries false skipVolume slots = (DirSpec.specEntries skipVolume slots).map specToModel := by
  rw [← dirIter_spec]
  exact (readLoop_equiv skipVolume slots 0 0 false _ _ hclean Sim_new (fun _ => DeadPair_new)).symm

/-- where the two conventions coincide: a run with well-formed padding whose name does not end in `0xFFFF` -/
theorem strip_eq_specName (name : List Nat) (hne : name ≠ []) (hlast : isPad (name.getLast hne) = false)
    (pad : List Nat) (hpad : ∀ x ∈ pad, isPad x = true) : stripTrailing (name ++ pad) = name := by
  rw [stripTrailing_append_pads _ _ hpad, stripTrailing_of_last_good _ hne hlast]

end FatVerif
