import FatVerif.Proofs.LfnGen
import FatVerif.Proofs.LfnFallback
/-!
# C17 — directory decoding is total on arbitrary slot contents

`readDirEntries alloc skipVolume slots` is the model of `DirIter` (dir.rs) over a list of 32-byte slots, in both
`LfnBuffer` variants (`alloc = true`: `Vec`; `alloc = false`: `[u16; 260]` + `len`).
-/
namespace FatVerif
open Lfn

/-! ## witnesses -/

namespace C17
/-- a short slot: 11 name bytes, attribute 0x20, 20 zero bytes -/
def sfnOf (name : List Nat) : List Nat := name ++ 0x20 :: List.replicate 20 0

/-- "LONG260 TXT" -/
def longName : List Nat := [76, 79, 78, 71, 50, 54, 48, 32, 84, 88, 84]
/-- "LEAK    TXT" -/
def leakName : List Nat := [76, 69, 65, 75, 32, 32, 32, 32, 84, 88, 84]

/-- former F17 witness (regression input): ordinals `0x54, 19, …, 1`, every unit `'A'`, then the short entry whose checksum they carry -/
def f17Witness : List (List Nat) :=
  ((List.range 20).map fun i =>
      lfnSlotBytes (if i = 0 then 0x54 else 20 - i) (lfnChecksum longName) (List.replicate 13 0x41)) ++
    [sfnOf longName]

/-- former F18 witness (regression input): an abandoned 2-slot run (`0x42`, units `'X'`) directly followed by a complete 1-slot run
    (`0x41`, units `'a'`) and the short entry -/
def f18Witness : List (List Nat) :=
  [lfnSlotBytes 0x42 (lfnChecksum leakName) (List.replicate 13 0x58),
   lfnSlotBytes 0x41 (lfnChecksum leakName) (List.replicate 13 0x61),
   sfnOf leakName]
end C17

/-! ## 1. totality -/

/-- **C17.1** The reader is a structural recursion on the slot list (so it terminates), and none of its explicit
    panic sites fires: `readDirEntries?` is the same loop with the bounds checks of `buf[pos..pos+13]` (`process`) and
    `ucs2_units[..len]` (`as_ucs2_units`, in `truncate` and on the returned buffer) written out (`none` = panic);
    it never returns `none`. -/
theorem dirIter_total (alloc skipVolume : Bool) (slots : List (List Nat)) :
    readDirEntries? alloc skipVolume slots = some (readDirEntries alloc skipVolume slots) :=
  readLoop?_eq alloc skipVolume slots 0 0 _ (WF_new alloc)

/-- the single step: in a reachable builder state the slice `[13·(index−1), 13·index)` is inside the buffer —
    `Vec`: after `set_len(index·13)`; fixed: `260 ≥ 20·13` -/
theorem process_slice_in_range (alloc : Bool) (b : LongNameBuilder) (s : List Nat) (h : WF alloc b) :
    b.process? alloc s = some (b.process alloc s) ∧ WF alloc (b.process alloc s) :=
  process?_eq alloc b s h

example : readDirEntries? false true C17.f18Witness ≠ none := by
  rw [dirIter_total]; simp

/-! ## 2. name length -/

/-- **C17.2** a returned long name has at most 255 units — every slot list, both buffer variants
    (since commit 6c58f9d; before it the bound was 260: F17) -/
theorem name_len_le_255 (alloc skipVolume : Bool) (slots : List (List Nat)) :
    ∀ e ∈ readDirEntries alloc skipVolume slots, e.units.length ≤ 255 :=
  readLoop_units_le alloc skipVolume slots 0 0 _ (WF_new alloc)

/-- regression (former F17 witness): the crafted 20-slot run of 260 × `'A'` now yields no long name — the entry falls
    back to its short name — in both variants -/
theorem name_len_255_regression :
    ∀ alloc, readDirEntries alloc true C17.f17Witness = [⟨C17.sfnOf C17.longName, [], 0, 21⟩] := by
  decide +kernel

example : ∀ alloc, ∀ e ∈ readDirEntries alloc true C17.f17Witness, e.longName = none := by
  intro alloc e he
  rw [name_len_255_regression alloc] at he
  rw [List.mem_singleton.1 he]; rfl

/-! ## 3. a long name comes from a complete run directly before the short entry -/

/-- **C17.3** (both buffer variants, every slot list) if an entry carries a long name then the slots directly before
    its short slot form a complete run (first slot `0x40 | n`, `n = ` number of slots `≤ 20`, then ordinals `n−1 … 1`
    unflagged, one checksum, equal to `lfnChecksum(sfn)`), and the name is that run's units up to (excluding) the first
    `0x0000` unit — all of them if there is none —, at most 255 of them.  (Otherwise `units = []`: the short name is
    used.) -/
theorem broken_run_falls_back (alloc skipVolume : Bool) (slots : List (List Nat)) :
    ∀ e ∈ readDirEntries alloc skipVolume slots, e.units ≠ [] →
      ∃ pre R post, slots = pre ++ R ++ e.sfn :: post ∧ e.endIdx = pre.length + R.length + 1 ∧
        CompleteRun (lfnChecksum (sfnName e.sfn)) R ∧ (∀ s ∈ R, slotClass s = .lfn) ∧
        e.units = cutAtNul (runUnits R) ∧ e.units.length ≤ 255 := by
  intro e he hne
  have hlen := name_len_le_255 alloc skipVolume slots e he
  have hspec := readLoop_spec alloc skipVolume slots 0 [] (LongNameBuilder.new alloc) (Dead_new alloc) (Nat.le_refl 0)
  simp only [List.length_nil, Nat.sub_zero, runB, List.foldr_nil] at hspec
  unfold readDirEntries at he
  rw [hspec] at he
  obtain ⟨e', he', rfl⟩ := List.mem_map.1 he
  cases hr : e'.run with
  | none => simp [specToModel, DirSpec.SpecEntry.name, hr] at hne
  | some r =>
    obtain ⟨pre, R, post, h1, h2, h3, h4, h5⟩ :=
      specLoop_run_sound skipVolume slots 0 [] [] rfl ⟨[], rfl⟩ (by simp) e' he' r hr
    refine ⟨pre, R, post, by simpa [specToModel] using h1, h2, h3, h4, ?_, hlen⟩
    simp only [specToModel, DirSpec.SpecEntry.name, hr] at hne ⊢
    split at hne
    · rename_i hle
      rw [if_pos hle, Option.getD_some, ← cutAtNul_eq_spec, h5]
    · exact absurd rfl hne

/-- the converse: a complete run directly before a file entry whose checksum it carries IS honoured (both variants):
    the name is the run's units before the first `0x0000` — unless more than 255 units remain (then: no long name).
    In particular a run WITHOUT terminator whose tail is `0xFFFF` "padding" has those `0xFFFF` units as part of its
    name (on the implementation's and on the specification's side alike). -/
theorem complete_run_honoured (alloc skipVolume : Bool) (R : List (List Nat)) (sfn : List Nat)
    (hR : CompleteRun (lfnChecksum (sfnName sfn)) R) (hl : ∀ s ∈ R, slotClass s = .lfn)
    (hsfn : slotClass sfn = .file) :
    readDirEntries alloc skipVolume (R ++ [sfn]) =
      [⟨sfn, if (cutAtNul (runUnits R)).length > 255 then [] else cutAtNul (runUnits R), 0,
        R.length + 1⟩] :=
  read_complete_run alloc skipVolume R sfn hR hl hsfn

/-- regression (former F18 witness): an abandoned longer run directly followed by a complete 1-slot run — both variants
    return the 13 × `'a'` of the complete run and nothing of the abandoned one -/
theorem fixedbuf_leak_regression :
    ∀ alloc, readDirEntries alloc true C17.f18Witness =
      [⟨C17.sfnOf C17.leakName, List.replicate 13 0x61, 0, 3⟩] := by
  decide +kernel

/-! ## 4. model = independent specification parser (C01.1 `dirIter_spec`) -/

/-- **C17.4 / C01.1** On EVERY slot list, in BOTH buffer variants, the reader returns exactly the entries of the
    independent backward-scanning specification parser `DirSpec.specEntries` — same short slots, same ranges, and as
    long name the specification's own `SpecEntry.name` (the units of the complete run before the first `0x0000`,
    1 … 255 of them; `[]` = no long name).  No convention gap is left: since commit 712f847 the implementation cuts at
    the first NUL exactly as the specification parser does. -/
theorem dirIter_spec (alloc skipVolume : Bool) (slots : List (List Nat)) :
    readDirEntries alloc skipVolume slots =
      (DirSpec.specEntries skipVolume slots).map fun e => ⟨e.sfn, e.name.getD [], e.beginIdx, e.endIdx⟩ := by
  have := readLoop_spec alloc skipVolume slots 0 [] (LongNameBuilder.new alloc) (Dead_new alloc) (Nat.le_refl 0)
  have hfun : specToModel = fun e => ⟨e.sfn, e.name.getD [], e.beginIdx, e.endIdx⟩ := rfl
  rw [hfun] at this
  simpa [runB, readDirEntries, DirSpec.specEntries] using this

/-- the cut rule on the two shapes of a run: name + terminator + anything, and name filling the run completely
    (trailing `0xFFFF` units included) -/
theorem cut_rule (name : List Nat) (hnz : ∀ x ∈ name, x ≠ 0) (pad : List Nat) :
    cutAtNul (name ++ 0 :: pad) = name ∧ cutAtNul name = name :=
  ⟨cutAtNul_append_nul name pad hnz, cutAtNul_of_nonzero name hnz⟩

example : cutAtNul [0x61, 0xFFFF, 0xFFFF] = [0x61, 0xFFFF, 0xFFFF] ∧ cutAtNul [0x61, 0xFFFF, 0, 0xFFFF] = [0x61, 0xFFFF] := by
  decide

end FatVerif
