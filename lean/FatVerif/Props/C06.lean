import FatVerif.Proofs.FormatDefault
import FatVerif.Proofs.FormatBytes
/-!
# C06 — formatting yields a valid empty volume (boot-sector / sizing part: C06.1 – C06.4)

Model: `Model/Format.lean` (`formatChecked` = `format_boot_sector` + strict `validate`, i.e. everything `format_volume`
does before its first device write; `formatBootSectorBytes` = the hook `fatfs::verif::format_boot_sector_bytes`).
Spec: `Spec/ValidBpb.lean`. Quantification: every option set the builder methods accept (`Accepted`), every
`total_sectors < 2^32`.
-/
namespace FatVerif.C06
open FatVerif.Format FatVerif.FormatSpec

def isPanic {α : Type} : Except Err α → Bool
  | .error .panic => true
  | _ => false

def isInvalidInput {α : Type} : Except Err α → Bool
  | .error .invalidInput => true
  | _ => false

/-! ## C06.1 `format_no_panic`

History: false of the original code in two ways — F11 (`bytes_per_cluster < bytes_per_sector` ⇒ `sectors_per_cluster = 0`
⇒ subtraction overflow / ÷0 in `try_fs_layout`) and the `u32` overflow of `sectors_per_fat * bytes_per_sector * 8` in
`validate_total_clusters` for FAT32 layouts with ≥ 2^27 FAT entries. Both are repaired in /repo (46e44d0, faa778e);
the model follows the repaired code and the theorem holds at full strength. The former counterexamples are kept as
regression examples. -/

/-- under the builder's constraints, for every sector count, formatting never panics -/
theorem format_no_panic (o : FormatOpts) (t : Nat) (hacc : Accepted o) (ht : t < 4294967296) :
    formatChecked o t ≠ .error .panic :=
  formatChecked_not_panic hacc ht

/-- …and the library's `validate` never panics on any BPB at all (used for the self-check of `format_volume`) -/
theorem validate_no_panic (b : FBpb) : validateBpb b ≠ .error .panic :=
  validateBpb_not_panic b

/-- a non-default request used by the satisfiability examples -/
def exOpts : FormatOpts := { bps := 1024, bpc := some 4096, fatType := some .fat16, rootEntries := 17, fats := 1 }

theorem accepted_exOpts : Accepted exOpts := by
  refine ⟨by simp [exOpts], ?_, Or.inl rfl, by simp [exOpts]⟩
  intro c h; cases h; simp [bpcValues]

example : Accepted exOpts ∧ (100000 : Nat) < 4294967296 := ⟨accepted_exOpts, by omega⟩

/-- regression (F11, the instance of DESIGN.md §7): `bytes_per_sector(4096).bytes_per_cluster(512)` is now rejected -/
example : Accepted { bps := 4096, bpc := some 512 } ∧
    isInvalidInput (formatChecked { bps := 4096, bpc := some 512 } 100000) = true := by
  refine ⟨⟨by simp, ?_, Or.inr rfl, by simp⟩, by decide +kernel⟩
  intro c h; cases h; simp [bpcValues]

/-- regression (FAT-capacity overflow): 512-byte clusters on 136 314 757 sectors (65 GiB), and plain
    `bytes_per_sector(4096)` on a 4 TiB volume, used to panic in `validate`; now they format as FAT32 -/
example : ((formatChecked { bpc := some 512 } 136314757).toOption.map (·.2)) = some .fat32 ∧
    ((formatChecked { bps := 4096 } 1073995767).toOption.map (·.2)) = some .fat32 := by
  constructor <;> decide +kernel

/-! ## C06.2 `format_valid` -/

/-- whenever the request is accepted, the boot sector is a `ValidBpb` answer to it, and it passes the library's own
    strict validation -/
theorem format_valid (o : FormatOpts) (t : Nat) (boot : FBoot) (ft : FatType) (hacc : Accepted o)
    (ht : t < 4294967296) (h : formatChecked o t = .ok (boot, ft)) :
    ValidBpb (viewOfBoot boot) (FormatDriver.requestOf o t) ft.bits ∧ validateBoot boot = .ok () :=
  ⟨formatChecked_valid hacc ht h, (formatChecked_ok h).2⟩

/-- result of a run as (spec view, width) -/
def okView : Except Err (FBoot × FatType) → Option (BpbView × FatType)
  | .ok (boot, ft) => some (viewOfBoot boot, ft)
  | .error _ => none

theorem okView_some {r : Except Err (FBoot × FatType)} {v : BpbView} {ft : FatType} (h : okView r = some (v, ft)) :
    ∃ boot, r = .ok (boot, ft) ∧ viewOfBoot boot = v := by
  unfold okView at h
  split at h
  · cases h; exact ⟨_, rfl, rfl⟩
  · cases h

example : ∃ boot, formatChecked exOpts 100000 = .ok (boot, .fat16) := by
  have : ((okView (formatChecked exOpts 100000)).map (·.2)) = some .fat16 := by decide +kernel
  cases h : okView (formatChecked exOpts 100000) with
  | none => rw [h] at this; cases this
  | some p =>
    obtain ⟨v, ft⟩ := p
    rw [h] at this; cases this
    obtain ⟨boot, hb, _⟩ := okView_some h
    exact ⟨boot, hb⟩

/-- the same at the level of the 512 bytes the hook returns — exactly what the driver's oracle evaluates on the
    implementation's bytes: decode with the spec's own decoder, then `ValidBpb` -/
theorem format_valid_bytes (o : FormatOpts) (t : Nat) (bytes : List Nat) (ft : FatType) (hacc : Accepted o)
    (hr : InRange o) (ht : t < 4294967296) (h : formatBootSectorBytes o t = .ok (bytes, ft)) :
    bytes.length = 512 ∧ ValidBpb (decodeBoot bytes) (FormatDriver.requestOf o t) ft.bits := by
  unfold formatBootSectorBytes at h
  obtain ⟨⟨boot, ft2⟩, hc, h⟩ := bind_ok_iff.mp h
  simp only [Except.ok.injEq, Prod.mk.injEq] at h
  obtain ⟨hbytes, hft⟩ := h
  subst hft
  subst hbytes
  have hv := (format_valid o t boot ft2 hacc ht hc).1
  obtain ⟨c, _, hspc, hbps, _, _, _, hfacts, hboot, h16, _, _⟩ := formatChecked_ok_layout hacc ht hc
  have hspf32 : spfOf t o.bps (c / o.bps) ft2.bits (reservedFor ft2)
      (determineRootDirSectors o.rootEntries o.bps ft2) o.fats < 4294967296 := by unfold spfOf; omega
  have hb : o.bps < 65536 := by
    simp only [List.mem_cons, List.mem_nil_iff, or_false] at hbps; omega
  have hs : c / o.bps < 256 := by
    simp only [List.mem_cons, List.mem_nil_iff, or_false] at hspc; omega
  have hf : o.fats < 256 := by have := hacc.fats; omega
  obtain ⟨hd, hl⟩ := decode_bootOf o t _ (c / o.bps) ft2 hr hb hf hacc.root ht hfacts.1 hspf32 h16 hs
  rw [← hboot] at hd hl
  rw [hd]
  exact ⟨hl, hv⟩

example : Accepted exOpts ∧ InRange exOpts := by
  refine ⟨⟨by simp [exOpts], ?_, Or.inl rfl, by simp [exOpts]⟩,
    ⟨by simp [exOpts], by simp [exOpts], by simp [exOpts], ?_, by simp [exOpts], ?_⟩⟩
  · intro c h; cases h; simp [bpcValues]
  · intro d h; cases h
  · intro l h; cases h

/-- "root entries fill whole sectors" is NOT guaranteed by `format_volume` (it is the caller's documented
    responsibility; `validate` only warns): it holds exactly when the request has it -/
theorem format_root_fills_sectors (o : FormatOpts) (t : Nat) (boot : FBoot) (ft : FatType) (hacc : Accepted o)
    (ht : t < 4294967296) (h : formatChecked o t = .ok (boot, ft)) (hreq : (o.rootEntries * 32) % o.bps = 0) :
    RootFillsSectors (viewOfBoot boot) := by
  obtain ⟨hv, _⟩ := format_valid o t boot ft hacc ht h
  obtain ⟨hb, _, _, _, _, _, _, _, _, _, _, h1x, _, _⟩ := hv
  intro hw
  rw [(h1x hw).1, hb.2]
  exact hreq

theorem format_root_fill_counterexample :
    ∃ boot, formatChecked { rootEntries := 17 } 20000 = .ok (boot, .fat16) ∧ ¬ RootFillsSectors (viewOfBoot boot) := by
  have : (match okView (formatChecked { rootEntries := 17 } 20000) with
      | some (v, ft) => decide (ft = .fat16 ∧ ¬ RootFillsSectors v)
      | none => false) = true := by decide +kernel
  cases h : okView (formatChecked { rootEntries := 17 } 20000) with
  | none => rw [h] at this; cases this
  | some p =>
    obtain ⟨v, ft⟩ := p
    rw [h] at this
    simp only [decide_eq_true_eq] at this
    obtain ⟨rfl, hnr⟩ := this
    obtain ⟨boot, hb, rfl⟩ := okView_some h
    exact ⟨boot, hb, hnr⟩

/-! ## C06.3 `format_rejects` -/

/-- every failure that is not a panic is `InvalidInput` (no other error kind can come out of formatting before the
    first device access) -/
theorem format_rejects (o : FormatOpts) (t : Nat) (e : Err) (h : formatChecked o t = .error e) (hp : e ≠ .panic) :
    e = .invalidInput := by
  rcases formatChecked_err h with h | h
  · exact absurd h hp
  · exact h

example : isInvalidInput (formatChecked { fatType := some .fat32 } 1000) = true := by decide +kernel

/-- conversely, the only ways an accepted request is rejected are: no FAT width is consistent with its own cluster
    count (`determine_fs_layout` fails), a sector size above 4096, a FAT12/16 layout with zero root entries, or a
    FAT12/16 table above 65535 sectors; otherwise formatting succeeds with exactly that layout -/
theorem format_accepts (o : FormatOpts) (t : Nat) (L : FsLayout) (hacc : Accepted o) (ht : t < 4294967296)
    (hbps : o.bps ∈ [512, 1024, 2048, 4096]) (hL : determineFsLayout o t = .ok L)
    (hroot : L.fatType ≠ .fat32 → o.rootEntries ≠ 0) (h16 : L.fatType ≠ .fat32 → L.spf ≤ 65535) :
    formatChecked o t = .ok (bootOf o t L.fatType L.spf L.spc, L.fatType) :=
  formatChecked_of_layout hacc ht hbps hL hroot h16

/-! ## C06.4 `format_default_total` -/

theorem default_small : ∀ t, t < 42 → isInvalidInput (formatChecked defaultOpts t) = true := by
  decide +kernel

/-- default options (`FormatVolumeOptions::new()`, 512-byte sectors): formatting succeeds for every size from 42
    sectors up to 2^32 − 1, and is rejected with `InvalidInput` below 42 -/
theorem format_default_total (t : Nat) (ht : t < 4294967296) :
    (42 ≤ t → ∃ r, formatChecked defaultOpts t = .ok r) ∧
    (t < 42 → formatChecked defaultOpts t = .error .invalidInput) := by
  refine ⟨fun h => default_ok t h ht, fun h => ?_⟩
  have := default_small t h
  unfold isInvalidInput at this
  split at this
  · assumption
  · cases this

example : ∃ r, formatChecked defaultOpts 42 = .ok r := (format_default_total 42 (by omega)).1 (by omega)

/-- consequence used by the driver's `format.sweepblock` handler: with default options the failing sizes in
    `[a, b)` are exactly those below 42 -/
theorem format_default_fails_iff (t : Nat) (ht : t < 4294967296) :
    (∀ r, formatChecked defaultOpts t ≠ .ok r) ↔ t < 42 := by
  obtain ⟨h1, h2⟩ := format_default_total t ht
  constructor
  · intro h
    apply Nat.lt_of_not_le; intro h42
    obtain ⟨r, hr⟩ := h1 h42
    exact h r hr
  · intro h r hr
    rw [h2 h] at hr; cases hr

end FatVerif.C06
