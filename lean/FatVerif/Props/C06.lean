import FatVerif.Proofs.FormatDefault
/-!
# C06 — formatting yields a valid empty volume (boot-sector / sizing part: C06.1 – C06.4)

Model: `Model/Format.lean` (`formatChecked` = `format_boot_sector` + strict `validate`, i.e. everything `format_volume`
does before its first device write; `formatBootSectorBytes` = the hook `fatfs::verif::format_boot_sector_bytes`).
Spec: `Spec/ValidBpb.lean`. Quantification: every option set the builder methods accept (`Accepted`), every
`total_sectors < 2^32`.
-/
namespace FatVerif.C06
open FatVerif.Format FatVerif.FormatSpec

def isPanic {α : Type} : Except Err α → Bool
  | .error .panic => true
  | _ => false

def isInvalidInput {α : Type} : Except Err α → Bool
  | .error .invalidInput => true
  | _ => false

/-! ## C06.1 `format_no_panic` — FALSE of the code as it stands; partial + exact panic condition + counterexamples -/

/-- Under the builder's constraints formatting can panic in exactly two ways:
    * `BpcLtBps o` — F11: `bytes_per_cluster < bytes_per_sector` (`sectors_per_cluster = 0`: `attempt to subtract
      with overflow` / `attempt to divide by zero` in `try_fs_layout`);
    * `FatBitsOverflow o t` — a FAT32 layout was found whose `sectors_per_fat * bytes_per_sector * 8 ≥ 2^32`
      (`attempt to multiply with overflow` in `validate_total_clusters`, FAT32 volumes with ≥ 2^27 FAT entries). -/
theorem format_no_panic_partial (o : FormatOpts) (t : Nat) (hacc : Accepted o) (ht : t < 4294967296)
    (h11 : ¬ BpcLtBps o) (h20 : ¬ FatBitsOverflow o t) : formatChecked o t ≠ .error .panic := by
  intro h
  rcases formatChecked_panic hacc ht h with h | h
  · exact h11 h
  · exact h20 h

/-- the second hypothesis is exact: whenever it fails, formatting does panic -/
theorem format_fat_bits_overflow_panics (o : FormatOpts) (t : Nat) (hacc : Accepted o) (ht : t < 4294967296)
    (h : FatBitsOverflow o t) : formatChecked o t = .error .panic := by
  obtain ⟨h4096, L, hL, h32, hov⟩ := h
  have hbps : o.bps ∈ [512, 1024, 2048, 4096] := by
    have := hacc.bps
    simp only [List.mem_cons, List.mem_nil_iff, or_false] at this ⊢
    omega
  rw [formatChecked_of_layout hacc ht hbps hL (fun hne => absurd h32 hne) (fun hne => absurd h32 hne),
    if_neg (by omega)]

/-- volumes below 2^27 − 2^10 sectors never trigger the overflow, whatever the options -/
theorem format_no_panic_small (o : FormatOpts) (t : Nat) (hacc : Accepted o) (ht : t ≤ 134216704)
    (h11 : ¬ BpcLtBps o) : formatChecked o t ≠ .error .panic := by
  apply format_no_panic_partial o t hacc (by omega) h11
  rintro ⟨h4096, L, hL, h32, hov⟩
  obtain ⟨c, _, hspc, _, hLeq, _, _, _, _⟩ := determineFsLayout_ok_facts hacc (by omega) hL
  have hspf : L.spf = spfOf t o.bps (c / o.bps) 32 8 0 o.fats := by
    rw [hLeq]; simp only [h32, FatType.bits, reservedFor, determineRootDirSectors, if_true]
  rw [hspf] at hov
  have hb := hacc.bps
  have hf := hacc.fats
  simp only [List.mem_cons, List.mem_nil_iff, or_false] at hb hspc
  have hb4 : o.bps = 512 ∨ o.bps = 1024 ∨ o.bps = 2048 ∨ o.bps = 4096 := by omega
  generalize c / o.bps = spc at hspc hov
  generalize o.bps = bps at hb4 hov
  generalize o.fats = fats at hf hov
  rcases hb4 with rfl | rfl | rfl | rfl <;>
  rcases hspc with rfl | rfl | rfl | rfl | rfl | rfl | rfl | rfl <;>
  rcases hf with rfl | rfl <;>
  (simp only [spfOf, t2Of] at hov; omega)

/-- F11, the instance of DESIGN.md §7: `bytes_per_sector(4096).bytes_per_cluster(512)` -/
theorem format_div_zero_counterexample :
    Accepted { bps := 4096, bpc := some 512 } ∧
    isPanic (formatChecked { bps := 4096, bpc := some 512 } 100000) = true := by
  refine ⟨⟨by simp, ?_, Or.inr rfl, by simp⟩, by decide +kernel⟩
  intro c h; cases h; simp [bpcValues]

/-- new: default sector size, 512-byte clusters, 136 314 757 sectors (65 GiB): the FAT-capacity product overflows;
    one sector less and it does not -/
theorem format_fat_bits_overflow_counterexample :
    Accepted { bpc := some 512 } ∧ isPanic (formatChecked { bpc := some 512 } 136314757) = true ∧
    isPanic (formatChecked { bpc := some 512 } 136314756) = false := by
  refine ⟨⟨by simp, ?_, Or.inr rfl, by simp⟩, by decide +kernel, by decide +kernel⟩
  intro c h; cases h; simp [bpcValues]

/-- …and with nothing but `bytes_per_sector(4096)` on a 4 TiB volume (automatic cluster size 32 KiB) -/
theorem format_fat_bits_overflow_counterexample_auto :
    Accepted { bps := 4096 } ∧ isPanic (formatChecked { bps := 4096 } 1073995767) = true ∧
    isPanic (formatChecked { bps := 4096 } 1073995766) = false := by
  refine ⟨⟨by simp, ?_, Or.inr rfl, by simp⟩, by decide +kernel, by decide +kernel⟩
  intro c h; cases h

/-- a non-default request used by the satisfiability examples -/
def exOpts : FormatOpts := { bps := 1024, bpc := some 4096, fatType := some .fat16, rootEntries := 17, fats := 1 }

example : Accepted exOpts ∧ ¬ BpcLtBps exOpts ∧ ¬ FatBitsOverflow exOpts 100000 := by
  unfold exOpts
  refine ⟨⟨by simp, ?_, Or.inl rfl, by simp⟩, ?_, ?_⟩
  · intro c h; cases h; simp [bpcValues]
  · rintro ⟨c, h, hlt⟩; cases h; simp at hlt
  · rintro ⟨_, L, hL, h32, _⟩
    obtain ⟨_, _, _, _, _, hm, _⟩ := determineFsLayout_ok hL
    rw [h32] at hm
    simp [allowedTypes] at hm

/-! ## C06.2 `format_valid` -/

/-- whenever the request is accepted, the boot sector is a `ValidBpb` answer to it, and it passes the library's own
    strict validation -/
theorem format_valid (o : FormatOpts) (t : Nat) (boot : FBoot) (ft : FatType) (hacc : Accepted o)
    (ht : t < 4294967296) (h : formatChecked o t = .ok (boot, ft)) :
    ValidBpb (viewOfBoot boot) (FormatDriver.requestOf o t) ft.bits ∧ validateBoot boot = .ok () :=
  ⟨formatChecked_valid hacc ht h, (formatChecked_ok h).2⟩

/-- result of a run as (spec view, width) -/
def okView : Except Err (FBoot × FatType) → Option (BpbView × FatType)
  | .ok (boot, ft) => some (viewOfBoot boot, ft)
  | .error _ => none

theorem okView_some {r : Except Err (FBoot × FatType)} {v : BpbView} {ft : FatType} (h : okView r = some (v, ft)) :
    ∃ boot, r = .ok (boot, ft) ∧ viewOfBoot boot = v := by
  unfold okView at h
  split at h
  · cases h; exact ⟨_, rfl, rfl⟩
  · cases h

example : ∃ boot, formatChecked exOpts 100000 = .ok (boot, .fat16) := by
  have : ((okView (formatChecked exOpts 100000)).map (·.2)) = some .fat16 := by decide +kernel
  cases h : okView (formatChecked exOpts 100000) with
  | none => rw [h] at this; cases this
  | some p =>
    obtain ⟨v, ft⟩ := p
    rw [h] at this; cases this
    obtain ⟨boot, hb, _⟩ := okView_some h
    exact ⟨boot, hb⟩

/-- "root entries fill whole sectors" is NOT guaranteed by `format_volume` (it is the caller's documented
    responsibility; `validate` only warns): it holds exactly when the request has it -/
theorem format_root_fills_sectors (o : FormatOpts) (t : Nat) (boot : FBoot) (ft : FatType) (hacc : Accepted o)
    (ht : t < 4294967296) (h : formatChecked o t = .ok (boot, ft)) (hreq : (o.rootEntries * 32) % o.bps = 0) :
    RootFillsSectors (viewOfBoot boot) := by
  obtain ⟨hv, _⟩ := format_valid o t boot ft hacc ht h
  obtain ⟨hb, _, _, _, _, _, _, _, _, _, _, h1x, _, _⟩ := hv
  intro hw
  rw [(h1x hw).1, hb.2]
  exact hreq

theorem format_root_fill_counterexample :
    ∃ boot, formatChecked { rootEntries := 17 } 20000 = .ok (boot, .fat16) ∧ ¬ RootFillsSectors (viewOfBoot boot) := by
  have : (match okView (formatChecked { rootEntries := 17 } 20000) with
      | some (v, ft) => decide (ft = .fat16 ∧ ¬ RootFillsSectors v)
      | none => false) = true := by decide +kernel
  cases h : okView (formatChecked { rootEntries := 17 } 20000) with
  | none => rw [h] at this; cases this
  | some p =>
    obtain ⟨v, ft⟩ := p
    rw [h] at this
    simp only [decide_eq_true_eq] at this
    obtain ⟨rfl, hnr⟩ := this
    obtain ⟨boot, hb, rfl⟩ := okView_some h
    exact ⟨boot, hb, hnr⟩

/-! ## C06.3 `format_rejects` -/

/-- every failure that is not a panic is `InvalidInput` (no other error kind can come out of formatting before the
    first device access) -/
theorem format_rejects (o : FormatOpts) (t : Nat) (e : Err) (h : formatChecked o t = .error e) (hp : e ≠ .panic) :
    e = .invalidInput := by
  rcases formatChecked_err h with h | h
  · exact absurd h hp
  · exact h

example : isInvalidInput (formatChecked { fatType := some .fat32 } 1000) = true := by decide +kernel

/-! ## C06.4 `format_default_total` -/

theorem default_small : ∀ t, t < 42 → isInvalidInput (formatChecked defaultOpts t) = true := by
  decide +kernel

/-- default options (`FormatVolumeOptions::new()`, 512-byte sectors): formatting succeeds for every size from 42
    sectors up to 2^32 − 1, and is rejected with `InvalidInput` below 42 -/
theorem format_default_total (t : Nat) (ht : t < 4294967296) :
    (42 ≤ t → ∃ r, formatChecked defaultOpts t = .ok r) ∧
    (t < 42 → formatChecked defaultOpts t = .error .invalidInput) := by
  refine ⟨fun h => default_ok t h ht, fun h => ?_⟩
  have := default_small t h
  unfold isInvalidInput at this
  split at this
  · assumption
  · cases this

example : ∃ r, formatChecked defaultOpts 42 = .ok r := (format_default_total 42 (by omega)).1 (by omega)

end FatVerif.C06
