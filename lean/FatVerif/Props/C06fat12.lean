import FatVerif.Proofs.FormatImage13
import FatVerif.Props.C06mount
/-!
# C06 — `formatFat_view` for FAT12, on the formatted IMAGE

`Fat12::set` is a read-modify-write, so what `format_fat` leaves in a FAT12 table depends on what the device reads
return. With the log-to-image theorem (`run_img_eq_replay`, agent-effects) the reads are the replay of the writes,
and the table can be computed: after a successful `format_volume` that chose FAT12, EVERY FAT copy of the device image
has entry 0 = `0xF00 | media`, entry 1 = `0xFFF`, entries `[2, total+2)` free, entries `[total+2, capacity)`
end-of-chain, and all copies are equal. Hypotheses: `C06mount.Formattable` (well-formed page image, empty
per-operation log, accepted request, device large enough).
-/
namespace FatVerif.C06fat12
open FatVerif FatVerif.Format FatVerif.C06image FatVerif.C06mount

/-- the bytes of FAT copy `i` in the device image -/
def imgFatCopy (d : Dev) (b : FBpb) (i : Nat) : Array Nat :=
  Array.ofFn (n := b.sectorsPerFat * b.bps) fun x =>
    d.img.getByte (b.reserved * b.bps + i * (b.sectorsPerFat * b.bps) + x.val)

theorem imgFatCopy_size (d : Dev) (b : FBpb) (i : Nat) : (imgFatCopy d b i).size = b.sectorsPerFat * b.bps := by
  simp [imgFatCopy]

theorem rd_imgFatCopy (d : Dev) (b : FBpb) (i x : Nat) (hx : x < b.sectorsPerFat * b.bps) :
    Fat.rd (imgFatCopy d b i) x = d.img.getByte (b.reserved * b.bps + i * (b.sectorsPerFat * b.bps) + x) := by
  unfold Fat.rd imgFatCopy
  rw [Array.getD_eq_getD_getElem?, Array.getElem?_ofFn]
  simp [hx]

/-- the image of a device reached from a well-formed image with an empty log is the replay of its write records -/
theorem img_of_imgRel {d0 d : Dev} (hwf : d0.img.WF) (hlog : d0.log = []) (h : ImgRel d0 d) :
    d.img.WF ∧ ∀ q, d.img.getByte q = replay d0.img.getByte d.writesOf q % 256 := by
  obtain ⟨h1, items, hl, hv⟩ := h hwf
  refine ⟨h1, fun q => ?_⟩
  rw [hv q, replay_norm _ (Img.getByte_lt _) items q]
  unfold Dev.writesOf
  rw [hl, hlog, List.append_nil, replay_filter]

theorem view12_of (f : Array Nat) (c : Nat) (h1 : c + c / 2 < Fat.u32Lim) (h2 : c + c / 2 + 2 ≤ f.size) :
    Fat.view .fat12 f c = Fat.classify12 (Fat.val12 c (Fat.rd16 f (c + c / 2))) := by
  simp only [Fat.view, Fat.get, Fat.getRaw, Fat.getRaw12]
  rw [if_neg (by omega), if_neg (by omega)]
  rfl

/-- the 12-bit entry `c ≥ 2` of a table in state `T12 media startC e` -/
theorem val12_T12 (media startC e c : Nat) (hc : 2 ≤ c) (hs : 2 ≤ startC) :
    Fat.val12 c (T12 media startC e (c + c / 2) + 256 * T12 media startC e (c + c / 2 + 1)) =
      if startC ≤ c ∧ c < e then 4095 else 0 := by
  rcases Nat.mod_two_eq_zero_or_one c with hp | hp
  · obtain ⟨k, rfl⟩ : ∃ k, c = 2 * k := ⟨c / 2, by omega⟩
    unfold Fat.val12 T12
    rw [if_pos (by omega)]
    repeat' split
    all_goals omega
  · obtain ⟨k, rfl⟩ : ∃ k, c = 2 * k + 1 := ⟨c / 2, by omega⟩
    unfold Fat.val12 T12
    rw [if_neg (by omega)]
    repeat' split
    all_goals omega

/-- the bytes of every FAT copy of the image after a successful FAT12 format -/
theorem fat12_image (o : FormatOpts) (d0 d1 : Dev) (hpre : Formattable o d0)
    (hrun : run (formatVolume o) d0 = (.ok (), d1)) (boot : FBoot)
    (hc : formatChecked o (fmtTotal o d0) = .ok (boot, .fat12)) :
    ∃ tc, boot.bpb.totalClusters = .ok tc ∧ tc + 2 ≤ boot.bpb.sectorsPerFat * boot.bpb.bps * 8 / 12 ∧
      boot.bpb.sectorsPerFat * boot.bpb.bps ≤ 65535 * 4096 ∧ 512 ≤ boot.bpb.sectorsPerFat * boot.bpb.bps ∧
      ∀ i, i < boot.bpb.fats → ∀ x, x < boot.bpb.sectorsPerFat * boot.bpb.bps →
        d1.img.getByte (boot.bpb.reserved * boot.bpb.bps + i * (boot.bpb.sectorsPerFat * boot.bpb.bps) + x) =
          T12 o.media (tc + 2) (boot.bpb.sectorsPerFat * boot.bpb.bps * 8 / 12) x := by
  have hR := hpre.run hrun
  obtain ⟨boot', ft', Lb, Lk, Lz, Lf, Lr, Lt, hf⟩ := hR.facts
  obtain ⟨rfl, rfl⟩ := facts_unique hf hc
  have hg := hf.geom
  have R := hf.regions
  obtain ⟨dS, hlS, hsS, himgS, hlog⟩ := hf.log
  obtain ⟨dK, hsK, himgK, hsizeK, hfr⟩ := hlog.rest
  obtain ⟨tc, s, dA, dB, dC, htc, hsA, himgA, hsizeA, hrunF, hsf, hsr, hsizeC, htail⟩ := hfr.fmt
  rw [fmtSlice_eq boot'.bpb .fat12 hg.extFlags] at hrunF
  have hmir : 0 < (fmtSlice boot'.bpb).mirrors := by show 0 < boot'.bpb.fats; have := hg.fats; omega
  have hbo : boot'.bpb.bps = o.bps := by
    obtain ⟨c, _, _, _, _, _, _, _, hboot, _⟩ := formatChecked_ok_layout hpre.acc hpre.tot hc
    rw [hboot]; rfl
  have hwin0 : (fmtSlice boot'.bpb).beginOff + (fmtSlice boot'.bpb).mirrors * (fmtSlice boot'.bpb).size ≤ d0.img.size :=
    Nat.le_trans hg.window_le (by rw [hbo]; exact hpre.size)
  have hdevA : (fmtSlice boot'.bpb).beginOff + (fmtSlice boot'.bpb).mirrors * (fmtSlice boot'.bpb).size ≤ dA.img.size := by
    rw [hsizeA, hsizeK, hsS]; exact hwin0
  have hB4 : boot'.bpb.bps ≤ 4096 := by
    have := hg.bps_mem; simp only [List.mem_cons, List.mem_nil_iff, or_false] at this; omega
  have hB := hg.bps_ge
  have hZ : boot'.bpb.sectorsPerFat * boot'.bpb.bps ≤ 65535 * 4096 := Nat.mul_le_mul (hg.spf16 (by simp)) hB4
  have hZ1 : 512 ≤ boot'.bpb.sectorsPerFat * boot'.bpb.bps := by
    have := Nat.mul_le_mul hg.spf1 hB; omega
  have hcap : tc + 2 ≤ boot'.bpb.sectorsPerFat * boot'.bpb.bps * 8 / 12 := by
    have h1 := hg.cap
    have h2 := hg.tc; rw [htc] at h2
    simp only [Except.ok.injEq] at h2
    rw [← h2] at h1
    simpa [FatType.bits] using h1
  -- positions inside the FAT window
  have hpos : ∀ i, i < boot'.bpb.fats → ∀ x, x < boot'.bpb.sectorsPerFat * boot'.bpb.bps →
      boot'.bpb.reserved * boot'.bpb.bps ≤
        boot'.bpb.reserved * boot'.bpb.bps + i * (boot'.bpb.sectorsPerFat * boot'.bpb.bps) + x ∧
      boot'.bpb.reserved * boot'.bpb.bps + i * (boot'.bpb.sectorsPerFat * boot'.bpb.bps) + x <
        (boot'.bpb.reserved + boot'.bpb.fats * boot'.bpb.sectorsPerFat) * boot'.bpb.bps := by
    intro i hi x hx
    rw [FmtGeom.fatEnd_eq]
    have := Nat.mul_le_mul_right (boot'.bpb.sectorsPerFat * boot'.bpb.bps) (show i + 1 ≤ boot'.bpb.fats from hi)
    rw [Nat.add_mul, Nat.one_mul] at this
    omega
  -- the image before `format_fat`: the FAT window is zero
  have hwS : dS.writesOf = [] := by unfold Dev.writesOf; rw [hlS, hpre.logEmpty]; rfl
  have hwA : dA.writesOf = Lz ++ (Lk ++ Lb) := by
    have h1 : dK.writesOf = (Lk ++ Lb) ++ dS.writesOf := hsK
    have h2 : dA.writesOf = Lz ++ dK.writesOf := hsA
    rw [h2, h1, hwS, List.append_nil]
  have himg0A : ImgRel d0 dA := imgRel_ok.trans _ _ _ himgS (imgRel_ok.trans _ _ _ himgK himgA)
  obtain ⟨hwfA, hbA⟩ := img_of_imgRel hpre.imgWf hpre.logEmpty himg0A
  have hzA : ∀ i, i < (fmtSlice boot'.bpb).mirrors → ∀ x, x < (fmtSlice boot'.bpb).size →
      dA.img.getByte ((fmtSlice boot'.bpb).beginOff + i * (fmtSlice boot'.bpb).size + x) = 0 := by
    intro i hi x hx
    have hp := hpos i hi x hx
    show dA.img.getByte (boot'.bpb.reserved * boot'.bpb.bps + i * (boot'.bpb.sectorsPerFat * boot'.bpb.bps) + x) = 0
    rw [hbA, hwA, hf.fatZeroT.replay, List.length_replicate]
    rw [FmtGeom.fatEnd_eq] at hp
    rw [Nat.mul_assoc boot'.bpb.fats, if_pos ⟨hp.1, hp.2⟩, getD_replicate_zero]
  -- `format_fat`
  have hmod : boot'.bpb.sectorsPerFat * boot'.bpb.bps * 8 / 12 % 4294967296 =
      boot'.bpb.sectorsPerFat * boot'.bpb.bps * 8 / 12 := Nat.mod_eq_of_lt (by omega)
  obtain ⟨hIB, _, _⟩ := formatFat12_img (s0 := fmtSlice boot'.bpb) rfl hmir boot'.bpb.media
    (boot'.bpb.sectorsPerFat * boot'.bpb.bps) tc dA s dB hdevA hwfA hzA (by rw [hmod]; omega) hrunF
  rw [hmod, hg.media, show tc + 2 + (boot'.bpb.sectorsPerFat * boot'.bpb.bps * 8 / 12 - (tc + 2)) =
    boot'.bpb.sectorsPerFat * boot'.bpb.bps * 8 / 12 by omega] at hIB
  -- from `dB` to the end: nothing touches the FAT window
  have himgAB : ImgRel dA dB := (steps_of_ops imgRel_ok stepOp_imgRel _).out _ _ _ hrunF
  obtain ⟨_, hbB⟩ := img_of_imgRel hpre.imgWf hpre.logEmpty (imgRel_ok.trans _ _ _ himg0A himgAB)
  have hwB : dB.writesOf = Lf ++ (Lz ++ (Lk ++ Lb)) := by
    have h2 : dB.writesOf = Lf ++ dA.writesOf := hsf
    rw [h2, hwA]
  obtain ⟨_, hb1⟩ := run_img_replay _ d0 _ d1 hrun hpre.imgWf hpre.logEmpty
  have hlabel : Within ((boot'.bpb.reserved + boot'.bpb.fats * boot'.bpb.sectorsPerFat) * boot'.bpb.bps)
      ((boot'.bpb.reserved + boot'.bpb.fats * boot'.bpb.sectorsPerFat) * boot'.bpb.bps + 32) Lt := by
    rcases R.tail with ⟨h32, _⟩ | ⟨_, hll⟩
    · cases h32
    · exact labelSpec_within hll
  refine ⟨tc, htc, hcap, hZ, hZ1, fun i hi x hx => ?_⟩
  have hp := hpos i hi x hx
  have hw0 : d0.writesOf = [] := by unfold Dev.writesOf; rw [hpre.logEmpty]; rfl
  rw [hb1, ← Dev.bytes_writesOf, hf.writes, hw0, List.append_nil, hlabel.skip _ _ _ (Or.inl hp.2),
    R.rootZero.skip _ _ _ (Or.inl hp.2)]
  have := hbB (boot'.bpb.reserved * boot'.bpb.bps + i * (boot'.bpb.sectorsPerFat * boot'.bpb.bps) + x)
  rw [hwB] at this
  rw [← this]
  exact hIB.2 i hi x hx

/-- **`formatFat_view`, FAT12** (image level): after a successful `format_volume` that chose FAT12, in EVERY FAT copy of
    the device image: entry 0 is `0xF00 | media`, entry 1 is `0xFFF`, entries `[2, total+2)` are free, entries
    `[total+2, capacity)` are end-of-chain (`capacity = sectors_per_fat * bytes_per_sector * 8 / 12`), and all copies
    hold the same bytes. -/
theorem formatFat_view_fat12 (o : FormatOpts) (d0 d1 : Dev) (hpre : Formattable o d0)
    (hrun : run (formatVolume o) d0 = (.ok (), d1)) (boot : FBoot)
    (hc : formatChecked o (fmtTotal o d0) = .ok (boot, .fat12)) :
    ∃ tc, boot.bpb.totalClusters = .ok tc ∧ ∀ i, i < boot.bpb.fats →
      Fat.getRaw .fat12 (imgFatCopy d1 boot.bpb i) 0 = .ok (0xF00 + o.media % 256) ∧
      Fat.getRaw .fat12 (imgFatCopy d1 boot.bpb i) 1 = .ok 0xFFF ∧
      (∀ c, 2 ≤ c → c < tc + 2 → Fat.view .fat12 (imgFatCopy d1 boot.bpb i) c = .free) ∧
      (∀ c, tc + 2 ≤ c → c < boot.bpb.sectorsPerFat * boot.bpb.bps * 8 / 12 →
        Fat.view .fat12 (imgFatCopy d1 boot.bpb i) c = .eoc) ∧
      imgFatCopy d1 boot.bpb i = imgFatCopy d1 boot.bpb 0 := by
  obtain ⟨tc, htc, hcap, hZ, hZ1, hbytes⟩ := fat12_image o d0 d1 hpre hrun boot hc
  refine ⟨tc, htc, fun i hi => ?_⟩
  generalize hZe : boot.bpb.sectorsPerFat * boot.bpb.bps = Z at *
  have hrd : ∀ j, j < boot.bpb.fats → ∀ x, x < Z →
      Fat.rd (imgFatCopy d1 boot.bpb j) x = T12 o.media (tc + 2) (Z * 8 / 12) x := by
    intro j hj x hx
    rw [rd_imgFatCopy d1 boot.bpb j x (by rw [hZe]; exact hx), hZe]
    exact hbytes j hj x hx
  have hsize : ∀ j, (imgFatCopy d1 boot.bpb j).size = Z := fun j => by rw [imgFatCopy_size, hZe]
  have hentry : ∀ c, 2 ≤ c → c < Z * 8 / 12 →
      Fat.view .fat12 (imgFatCopy d1 boot.bpb i) c =
        Fat.classify12 (if tc + 2 ≤ c ∧ c < Z * 8 / 12 then 4095 else 0) := by
    intro c h2 hlt
    rw [view12_of _ _ (by unfold Fat.u32Lim; omega) (by rw [hsize]; omega)]
    unfold Fat.rd16
    rw [hrd i hi _ (by omega), hrd i hi _ (by omega), val12_T12 _ _ _ _ h2 (by omega)]
  refine ⟨?_, ?_, ?_, ?_, ?_⟩
  · simp only [Fat.getRaw, Fat.getRaw12, Fat.u32Lim, hsize]
    rw [if_neg (by omega), if_neg (by omega)]
    simp only [Fat.rd16, Nat.zero_add, Nat.zero_div]
    rw [hrd i hi 0 (by omega), hrd i hi 1 (by omega)]
    have e0 : T12 o.media (tc + 2) (Z * 8 / 12) 0 = o.media % 256 := by unfold T12; rfl
    have e1 : T12 o.media (tc + 2) (Z * 8 / 12) 1 = 255 := by unfold T12; rfl
    rw [e0, e1]
    unfold Fat.val12
    simp only [Nat.zero_mod, if_true]
    apply congrArg Except.ok
    have := Nat.mod_lt o.media (show 0 < 256 by omega)
    omega
  · simp only [Fat.getRaw, Fat.getRaw12, Fat.u32Lim, hsize]
    rw [if_neg (by omega), if_neg (by omega)]
    simp only [Fat.rd16]
    rw [hrd i hi 1 (by omega), hrd i hi 2 (by omega)]
    have e1 : T12 o.media (tc + 2) (Z * 8 / 12) 1 = 255 := by unfold T12; rfl
    have e2 : T12 o.media (tc + 2) (Z * 8 / 12) 2 = 255 := by unfold T12; rfl
    rw [e1, e2]
    rfl
  · intro c h2 hlt
    rw [hentry c h2 (by omega), if_neg (by omega)]; rfl
  · intro c h1 h2
    rw [hentry c (by omega) h2, if_pos ⟨h1, h2⟩]; rfl
  · apply Array.ext
    · rw [hsize, hsize]
    · intro x h1 h2
      rw [hsize] at h1
      have e1 := hrd i hi x h1
      have e0 := hrd 0 (by omega) x h1
      unfold Fat.rd at e1 e0
      rw [Array.getD_eq_getD_getElem?, Array.getElem?_eq_getElem (by rw [hsize]; exact h1)] at e1 e0
      simp only [Option.getD_some] at e1 e0
      rw [e1, e0]

/-! ## non-vacuity -/

theorem ex_formattable12 : Formattable Ex.o12 Ex.d12 := by
  refine ⟨⟨by simp [Ex.o12], ?_, Or.inr rfl, by simp [Ex.o12]⟩,
    Ex.inRange_of _ (by simp [Ex.o12]) (by simp [Ex.o12]) (by simp [Ex.o12]) rfl (by simp [Ex.o12]) ?_, ?_,
    rfl, Img.wf_empty _, by decide, by decide⟩
  · intro c h; cases h
  · intro l h; cases h
  · intro l h; cases h

set_option maxRecDepth 100000 in
/-- the hypotheses hold of a concrete FAT12 volume (343 sectors; `C06image.Ex`): the run succeeds (kernel evaluation)
    and chose FAT12 -/
example : ∃ d1 boot, run (formatVolume Ex.o12) Ex.d12 = (.ok (), d1) ∧
    formatChecked Ex.o12 (fmtTotal Ex.o12 Ex.d12) = .ok (boot, .fat12) := by
  have hrun : run (formatVolume Ex.o12) Ex.d12 = (.ok (), (run (formatVolume Ex.o12) Ex.d12).2) :=
    Ex.run_of_okUnit (by decide +kernel)
  obtain ⟨boot, ft, Lb, Lk, Lz, Lf, Lr, Lt, hf⟩ := (ex_formattable12.run hrun).facts
  have hft : ft = .fat12 := by
    have h1 : ((formatChecked Ex.o12 343).toOption.map (·.2)) = some .fat12 := by decide +kernel
    have h2 := hf.checked
    have h3 : fmtTotal Ex.o12 Ex.d12 = 343 := rfl
    rw [h3] at h2; rw [h2] at h1
    simpa [Except.toOption] using h1
  subst hft
  exact ⟨_, boot, hrun, hf.checked⟩

end FatVerif.C06fat12
